(* Proofs/C19_graph.v — property C19, part 2: the ballot graph.  General (all n) characterisations of
   the specification functions, a boolean checker whose success implies the node/edge statements,
   its evaluation for n = 2..5 (n = 6 is in C19_graph6.v), and the loading of a profile. *)
From VK Require Import Base Core Metrics EditSpec MetricSpec.
From VK.Proofs Require Import Lib_sets Lib_rk.
From Coq Require Import Permutation Lia Lqa Setoid Morphisms.

Local Open Scope nat_scope.

(* ------------------------------------------------------------------ *)
(** * node_eqb *)

Lemma node_eqb_eq : forall a b, node_eqb a b = true <-> a = b.
Proof.
  intros a b. unfold node_eqb. destruct (list_eq_dec Nat.eq_dec a b) as [E|E]; split; congruence.
Qed.

Lemma node_eqb_refl : forall a, node_eqb a a = true.
Proof. intros a. apply node_eqb_eq. reflexivity. Qed.

Lemma node_eqb_false : forall a b, node_eqb a b = false <-> a <> b.
Proof.
  intros a b. unfold node_eqb. destruct (list_eq_dec Nat.eq_dec a b) as [E|E]; split; congruence.
Qed.

Lemma existsb_node_In : forall a l, existsb (node_eqb a) l = true <-> In a l.
Proof.
  intros a l. rewrite existsb_exists. split.
  - intros [x [Hx E]]. apply node_eqb_eq in E. subst. exact Hx.
  - intros H. exists a. split; [exact H|apply node_eqb_refl].
Qed.

Lemma existsb_node_In' : forall a l, existsb (fun x => node_eqb x a) l = true <-> In a l.
Proof.
  intros a l. rewrite existsb_exists. split.
  - intros [x [Hx E]]. apply node_eqb_eq in E. subst. exact Hx.
  - intros H. exists a. split; [exact H|apply node_eqb_refl].
Qed.

Fixpoint nodupb (l : list node) : bool :=
  match l with
  | [] => true
  | a :: l' => negb (existsb (node_eqb a) l') && nodupb l'
  end.

Lemma nodupb_NoDup : forall l, nodupb l = true -> NoDup l.
Proof.
  induction l as [|a l IH]; intros H.
  - constructor.
  - cbn [nodupb] in H. apply andb_true_iff in H. destruct H as [H1 H2]. constructor.
    + intros Hin. apply existsb_node_In in Hin. rewrite Hin in H1. discriminate.
    + apply IH. exact H2.
Qed.

(* ------------------------------------------------------------------ *)
(** * arrangements and spec_nodes, for every n *)

Lemma arrangements_In : forall m pool k,
  In k (arrangements m pool) <-> length k = m /\ NoDup k /\ incl k pool.
Proof.
  induction m as [|m IH]; intros pool k.
  - cbn [arrangements]. split.
    + intros [<-|[]]. split; [reflexivity|]. split; [constructor|intros x []].
    + intros [H _]. left. destruct k; [reflexivity|discriminate].
  - cbn [arrangements]. rewrite in_concat. split.
    + intros [l [Hl Hk]]. apply in_map_iff in Hl. destruct Hl as [x [<- Hx]].
      apply in_map_iff in Hk. destruct Hk as [k' [<- Hk']]. apply IH in Hk'.
      destruct Hk' as [Hlen [Hnd Hincl]]. split; [cbn [length]; lia|]. split.
      * constructor; [|exact Hnd]. intros Hin. apply Hincl in Hin. apply filter_In in Hin.
        destruct Hin as [_ Hin]. rewrite Nat.eqb_refl in Hin. discriminate.
      * intros y [<-|Hy]; [exact Hx|]. apply Hincl in Hy. apply filter_In in Hy. apply Hy.
    + intros [Hlen [Hnd Hincl]]. destruct k as [|x k']; [discriminate|].
      inversion Hnd as [|x' l' Hnotin Hnd']; subst.
      exists (map (cons x) (arrangements m (filter (fun y => negb (Nat.eqb x y)) pool))). split.
      * apply in_map_iff. exists x. split; [reflexivity|]. apply Hincl. left. reflexivity.
      * apply in_map. apply IH. split; [cbn [length] in Hlen; lia|]. split; [exact Hnd'|].
        intros y Hy. apply filter_In. split; [apply Hincl; right; exact Hy|].
        apply negb_true_iff. apply Nat.eqb_neq. intros ->. contradiction.
Qed.

Lemma spec_nodes_In : forall n k, In k (spec_nodes n) <-> valid_node n k.
Proof.
  intros n k. unfold spec_nodes, valid_node. rewrite in_concat. split.
  - intros [l [Hl Hk]]. apply in_map_iff in Hl. destruct Hl as [m [<- Hm]].
    apply in_seq in Hm.
    destruct (Nat.eqb m (n - 1) && negb (Nat.eqb n 1)) eqn:E; [destruct Hk|].
    apply arrangements_In in Hk. destruct Hk as [Hlen [Hnd Hincl]].
    split; [exact Hnd|]. split.
    + intros x Hx. apply Hincl in Hx. apply in_seq in Hx. lia.
    + split; [lia|]. apply andb_false_iff in E. destruct E as [E|E].
      * apply Nat.eqb_neq in E. lia.
      * apply negb_false_iff in E. apply Nat.eqb_eq in E. lia.
  - intros [Hnd [Hrange [Hlen Hne]]].
    exists (arrangements (length k) (seq 1 n)). split.
    + apply in_map_iff. exists (length k). split; [|apply in_seq; lia].
      destruct (Nat.eqb (length k) (n - 1)) eqn:E; [apply Nat.eqb_eq in E; lia|reflexivity].
    + apply arrangements_In. split; [reflexivity|]. split; [exact Hnd|].
      intros x Hx. apply in_seq. specialize (Hrange x Hx). lia.
Qed.

(* ------------------------------------------------------------------ *)
(** * is_swap, is_extension, for every n *)

Lemma swap_at_spec : forall j l c,
  swap_at j l = Some c <->
  exists pre x y r, l = pre ++ x :: y :: r /\ length pre = j /\ c = pre ++ y :: x :: r.
Proof.
  induction j as [|j IH]; intros l c.
  - split.
    + intros H. destruct l as [|x [|y r]]; cbn [swap_at] in H; try discriminate.
      injection H as <-. exists [], x, y, r. repeat split.
    + intros [pre [x [y [r [-> [Hlen ->]]]]]]. destruct pre; [|discriminate]. reflexivity.
  - split.
    + intros H. destruct l as [|x rest]; cbn [swap_at] in H; [discriminate|].
      destruct (swap_at j rest) as [r'|] eqn:E; [|discriminate]. injection H as <-.
      apply IH in E. destruct E as [pre [x' [y [r [-> [Hlen ->]]]]]].
      exists (x :: pre), x', y, r. repeat split. cbn [length]. lia.
    + intros [pre [x [y [r [-> [Hlen ->]]]]]]. destruct pre as [|z pre]; [discriminate|].
      cbn [app swap_at]. cbn [length] in Hlen.
      assert (E : swap_at j (pre ++ x :: y :: r) = Some (pre ++ y :: x :: r)).
      { apply IH. exists pre, x, y, r. repeat split. lia. }
      rewrite E. reflexivity.
Qed.

Lemma is_swap_spec : forall a b, is_swap a b = true <-> adjacent_swap a b.
Proof.
  intros a b. unfold is_swap, adjacent_swap. rewrite existsb_exists. split.
  - intros [j [_ H]]. destruct (swap_at j a) as [c|] eqn:E; [|discriminate].
    apply node_eqb_eq in H. subst c. apply swap_at_spec in E.
    destruct E as [pre [x [y [r [-> [_ ->]]]]]]. exists pre, x, y, r. split; reflexivity.
  - intros [pre [x [y [r [-> ->]]]]]. exists (length pre). split.
    + apply in_seq. rewrite app_length. cbn [length]. lia.
    + assert (E : swap_at (length pre) (pre ++ x :: y :: r) = Some (pre ++ y :: x :: r)).
      { apply swap_at_spec. exists pre, x, y, r. repeat split. }
      rewrite E. apply node_eqb_refl.
Qed.

Lemma prefix_spec : forall a b : node,
  node_eqb (firstn (length a) b) a = true <-> exists t, b = a ++ t.
Proof.
  intros a b. rewrite node_eqb_eq. split.
  - intros H. exists (skipn (length a) b). rewrite <- H at 1. symmetry. apply firstn_skipn.
  - intros [t ->]. rewrite firstn_app, Nat.sub_diag, firstn_all. cbn [firstn]. apply app_nil_r.
Qed.

Lemma is_extension_spec : forall n a b, is_extension n a b = true <-> extends_last n a b.
Proof.
  intros n a b. unfold is_extension, extends_last.
  rewrite orb_true_iff, !andb_true_iff, !Nat.eqb_eq, Nat.leb_le, !prefix_spec. split.
  - intros [[Hlen [t Ht]]|[[[Hla Hlb] Hn] Hpre]].
    + left. subst b. rewrite app_length in Hlen.
      destruct t as [|x [|y t]]; cbn [length] in Hlen; try lia. exists x. reflexivity.
    + right. repeat split; assumption.
  - intros [[x ->]|[Hla [Hlb [Hn Hpre]]]].
    + left. split; [rewrite app_length; cbn [length]; lia|]. exists [x]. reflexivity.
    + right. repeat split; assumption.
Qed.

Lemma spec_adjacent_spec : forall n a b, spec_adjacent n a b = true <-> spec_adjacent_prop n a b.
Proof.
  intros n a b. unfold spec_adjacent, spec_adjacent_prop.
  rewrite !orb_true_iff, is_swap_spec, !is_extension_spec. tauto.
Qed.

(* ------------------------------------------------------------------ *)
(** * The checker *)

Definition neighbours (es : list gedge) (a : node) : list node :=
  concat (map (fun e => if node_eqb (fst e) a then [snd e]
                        else if node_eqb (snd e) a then [fst e] else []) es).

Lemma neighbours_In : forall es a b, In b (neighbours es a) <-> In (a, b) es \/ In (b, a) es.
Proof.
  intros es a b. unfold neighbours. rewrite in_concat. split.
  - intros [l [Hl Hb]]. apply in_map_iff in Hl. destruct Hl as [[x y] [<- He]]. cbn [fst snd] in Hb.
    destruct (node_eqb x a) eqn:Ex.
    + apply node_eqb_eq in Ex. subst x. destruct Hb as [<-|[]]. left. exact He.
    + destruct (node_eqb y a) eqn:Ey; [|destruct Hb].
      apply node_eqb_eq in Ey. subst y. destruct Hb as [<-|[]]. right. exact He.
  - intros [H|H].
    + exists [b]. split; [|left; reflexivity]. apply in_map_iff. exists (a, b). split; [|exact H].
      cbn [fst snd]. rewrite node_eqb_refl. reflexivity.
    + destruct (node_eqb b a) eqn:Eb.
      * apply node_eqb_eq in Eb. subst b. exists [a]. split; [|left; reflexivity].
        apply in_map_iff. exists (a, a). split; [|exact H]. cbn [fst snd]. rewrite node_eqb_refl.
        reflexivity.
      * exists [b]. split; [|left; reflexivity]. apply in_map_iff. exists (b, a). split; [|exact H].
        cbn [fst snd]. rewrite Eb, node_eqb_refl. reflexivity.
Qed.

Definition nodes_ok (n : nat) (g : graph) : bool :=
  nodupb (g_nodes g) &&
  forallb (fun a => existsb (node_eqb a) (spec_nodes n)) (g_nodes g) &&
  forallb (fun a => existsb (node_eqb a) (g_nodes g)) (spec_nodes n).

Definition edges_ok (n : nat) (g : graph) : bool :=
  forallb (fun a => let na := neighbours (g_edges g) a in
                    forallb (fun b => Bool.eqb (existsb (node_eqb b) na) (spec_adjacent n a b))
                            (g_nodes g)) (g_nodes g) &&
  forallb (fun e => existsb (node_eqb (fst e)) (g_nodes g) && existsb (node_eqb (snd e)) (g_nodes g))
          (g_edges g).

Definition graph_ok (n : nat) (g : graph) : bool := nodes_ok n g && edges_ok n g.

Lemma nodes_ok_sound : forall n g, nodes_ok n g = true ->
  NoDup (g_nodes g) /\ forall k, In k (g_nodes g) <-> valid_node n k.
Proof.
  intros n g H. unfold nodes_ok in H. rewrite !andb_true_iff in H. destruct H as [[H1 H2] H3].
  split; [apply nodupb_NoDup; exact H1|]. intros k. rewrite <- spec_nodes_In. split.
  - intros Hk. rewrite forallb_forall in H2. apply existsb_node_In. apply H2. exact Hk.
  - intros Hk. rewrite forallb_forall in H3. apply existsb_node_In. apply H3. exact Hk.
Qed.

Lemma edges_ok_sound : forall n g, edges_ok n g = true ->
  (forall a b, In a (g_nodes g) -> In b (g_nodes g) ->
     (has_edge g a b <-> spec_adjacent_prop n a b)) /\
  (forall a b, In (a, b) (g_edges g) -> In a (g_nodes g) /\ In b (g_nodes g)).
Proof.
  intros n g H. unfold edges_ok in H. rewrite andb_true_iff in H. destruct H as [H1 H2]. split.
  - intros a b Ha Hb. rewrite forallb_forall in H1. specialize (H1 a Ha). cbv zeta in H1.
    rewrite forallb_forall in H1. specialize (H1 b Hb). apply eqb_prop in H1.
    rewrite <- spec_adjacent_spec, <- H1, existsb_node_In, neighbours_In. reflexivity.
  - intros a b He. rewrite forallb_forall in H2. specialize (H2 (a, b) He). cbn [fst snd] in H2.
    apply andb_true_iff in H2. destruct H2 as [Ha Hb].
    split; apply existsb_node_In; assumption.
Qed.

(* ------------------------------------------------------------------ *)
(** * n = 2..5 by evaluation *)

Lemma graph_ok_2 : graph_ok 2 (build_graph 2) = true.
Proof. vm_compute. reflexivity. Qed.
Lemma graph_ok_3 : graph_ok 3 (build_graph 3) = true.
Proof. vm_compute. reflexivity. Qed.
Lemma graph_ok_4 : graph_ok 4 (build_graph 4) = true.
Proof. vm_compute. reflexivity. Qed.
Lemma graph_ok_5 : graph_ok 5 (build_graph 5) = true.
Proof. vm_cast_no_check (eq_refl true). Qed.

(* ------------------------------------------------------------------ *)
(** * Loading a profile *)

Lemma NoDup_map_inj_in : forall (A B : Type) (f : A -> B) (l : list A),
  (forall x y, In x l -> In y l -> f x = f y -> x = y) -> NoDup l -> NoDup (map f l).
Proof.
  intros A B f l. induction l as [|a l IH]; intros Hinj Hnd; cbn [map].
  - constructor.
  - inversion Hnd as [|a' l' Hnotin Hnd']; subst. constructor.
    + intros Hin. apply in_map_iff in Hin. destruct Hin as [x [Hfx Hx]].
      assert (x = a) by (apply Hinj; [right; exact Hx|left; reflexivity|exact Hfx]).
      subst x. contradiction.
    + apply IH; [|exact Hnd']. intros x y Hx Hy. apply Hinj; right; assumption.
Qed.

Lemma missing_In : forall n nums m,
  In m (missing n nums) <-> 1 <= m <= n /\ ~ In m nums.
Proof.
  intros n nums m. unfold missing. rewrite filter_In, in_seq, negb_true_iff. split.
  - intros [Hr He]. split; [lia|]. intros Hin.
    assert (H : existsb (Nat.eqb m) nums = true).
    { apply existsb_exists. exists m. split; [exact Hin|apply Nat.eqb_refl]. }
    congruence.
  - intros [Hr Hn]. split; [lia|]. destruct (existsb (Nat.eqb m) nums) eqn:E; [|reflexivity].
    apply existsb_exists in E. destruct E as [x [Hx Hmx]]. apply Nat.eqb_eq in Hmx. subst x.
    contradiction.
Qed.

Lemma completed_perm : forall n nums, NoDup nums -> (forall x, In x nums -> 1 <= x <= n) ->
  Permutation (nums ++ missing n nums) (seq 1 n).
Proof.
  intros n nums Hnd Hr. apply NoDup_Permutation.
  - apply NoDup_app_intro; [exact Hnd|apply NoDup_filter; apply seq_NoDup|].
    intros x Hx Hm. apply missing_In in Hm. destruct Hm as [_ Hm]. contradiction.
  - apply seq_NoDup.
  - intros x. rewrite in_app_iff, missing_In, in_seq. split.
    + intros [H|[H _]]; [specialize (Hr x H)|]; lia.
    + intros H. destruct (in_dec Nat.eq_dec x nums) as [Hin|Hnin]; [left; exact Hin|].
      right. split; [lia|exact Hnin].
Qed.

Lemma completed_length : forall n nums, NoDup nums -> (forall x, In x nums -> 1 <= x <= n) ->
  length nums + length (missing n nums) = n.
Proof.
  intros n nums Hnd Hr. rewrite <- app_length, (Permutation_length (completed_perm n nums Hnd Hr)).
  apply seq_length.
Qed.

(* weight table *)
Lemma weight_at_cons : forall k v ws k',
  weight_at ((k, v) :: ws) k' = if node_eqb k k' then v else weight_at ws k'.
Proof.
  intros k v ws k'. unfold weight_at. cbn [find fst snd]. destruct (node_eqb k k'); reflexivity.
Qed.

Lemma weight_at_nw_add : forall acc k w k',
  (weight_at (nw_add acc k w) k' == weight_at acc k' + (if node_eqb k k' then w else 0))%Q.
Proof.
  induction acc as [|[k0 v] acc IH]; intros k w k'.
  - cbn [nw_add]. rewrite weight_at_cons. unfold weight_at. cbn [find]. destruct (node_eqb k k'); lra.
  - cbn [nw_add]. destruct (node_eqb k0 k) eqn:E.
    + apply node_eqb_eq in E. subst k0. rewrite !weight_at_cons. destruct (node_eqb k k'); lra.
    + rewrite !weight_at_cons. destruct (node_eqb k0 k') eqn:E'.
      * apply node_eqb_eq in E'. subst k0. destruct (node_eqb k k') eqn:E2; [|lra].
        apply node_eqb_eq in E2. subst k'. rewrite node_eqb_refl in E. discriminate.
      * apply IH.
Qed.

Lemma nw_add_keys : forall acc k w,
  map fst (nw_add acc k w) = if existsb (node_eqb k) (map fst acc) then map fst acc else map fst acc ++ [k].
Proof.
  induction acc as [|[k0 v] acc IH]; intros k w.
  - reflexivity.
  - cbn [nw_add map fst existsb]. destruct (node_eqb k0 k) eqn:E.
    + apply node_eqb_eq in E. subst k0. rewrite node_eqb_refl. reflexivity.
    + assert (E' : node_eqb k k0 = false).
      { apply node_eqb_false. apply node_eqb_false in E. congruence. }
      rewrite E'. cbn [orb map fst]. rewrite IH.
      destruct (existsb (node_eqb k) (map fst acc)); reflexivity.
Qed.

Lemma nw_add_NoDup : forall acc k w, NoDup (map fst acc) -> NoDup (map fst (nw_add acc k w)).
Proof.
  intros acc k w H. rewrite nw_add_keys. destruct (existsb (node_eqb k) (map fst acc)) eqn:E; [exact H|].
  apply NoDup_app_intro; [exact H|constructor; [intros []|constructor]|].
  intros x Hx [<-|[]]. apply existsb_node_In in Hx. congruence.
Qed.

Lemma nw_add_keys_inv : forall acc k w x, In x (map fst (nw_add acc k w)) -> In x (map fst acc) \/ x = k.
Proof.
  intros acc k w x H. rewrite nw_add_keys in H.
  destruct (existsb (node_eqb k) (map fst acc)); [left; exact H|].
  apply in_app_or in H. destruct H as [H|[<-|[]]]; [left; exact H|right; reflexivity].
Qed.

Lemma nw_add_sum : forall acc k w, (qsum (map snd (nw_add acc k w)) == qsum (map snd acc) + w)%Q.
Proof.
  induction acc as [|[k0 v] acc IH]; intros k w.
  - cbn [nw_add map snd]. rewrite !qsum_cons, qsum_nil. lra.
  - cbn [nw_add]. destruct (node_eqb k0 k); cbn [map snd]; rewrite !qsum_cons; [lra|].
    rewrite IH. lra.
Qed.

Section LoadFold.
Variable nodes : list node.
Let step := fun (acc : list (node * Q)) (kw : node * Q) =>
  if existsb (node_eqb (fst kw)) nodes then nw_add acc (fst kw) (snd kw) else acc.

Lemma load_fold_NoDup : forall ks acc, NoDup (map fst acc) -> NoDup (map fst (fold_left step ks acc)).
Proof.
  induction ks as [|kw ks IH]; intros acc H; cbn [fold_left]; [exact H|].
  apply IH. unfold step. destruct (existsb (node_eqb (fst kw)) nodes); [apply nw_add_NoDup|]; exact H.
Qed.

Lemma load_fold_keys_inv : forall ks acc x, In x (map fst (fold_left step ks acc)) ->
  In x (map fst acc) \/ In x (map fst ks).
Proof.
  induction ks as [|kw ks IH]; intros acc x H; cbn [fold_left] in H; [left; exact H|].
  destruct (IH _ x H) as [H1|H1].
  - unfold step in H1. destruct (existsb (node_eqb (fst kw)) nodes).
    + apply nw_add_keys_inv in H1. destruct H1 as [H1| ->]; [left; exact H1|right; left; reflexivity].
    + left. exact H1.
  - right. right. exact H1.
Qed.

Lemma load_fold_sum : forall ks acc, (forall kw, In kw ks -> In (fst kw) nodes) ->
  (qsum (map snd (fold_left step ks acc)) == qsum (map snd acc) + qsum (map snd ks))%Q.
Proof.
  induction ks as [|kw ks IH]; intros acc H; cbn [fold_left map].
  - rewrite qsum_nil. lra.
  - rewrite IH; [|intros x Hx; apply H; right; exact Hx]. unfold step.
    assert (E : existsb (node_eqb (fst kw)) nodes = true).
    { apply existsb_node_In. apply H. left. reflexivity. }
    rewrite E, nw_add_sum, qsum_cons. lra.
Qed.

Lemma load_fold_weight : forall ks acc k, (forall kw, In kw ks -> In (fst kw) nodes) ->
  (weight_at (fold_left step ks acc) k ==
   weight_at acc k + qsum (map snd (filter (fun kw => node_eqb (fst kw) k) ks)))%Q.
Proof.
  induction ks as [|kw ks IH]; intros acc k H; cbn [fold_left filter].
  - cbn [map]. rewrite qsum_nil. lra.
  - rewrite IH; [|intros x Hx; apply H; right; exact Hx]. unfold step.
    assert (E : existsb (node_eqb (fst kw)) nodes = true).
    { apply existsb_node_In. apply H. left. reflexivity. }
    rewrite E, weight_at_nw_add. destruct (node_eqb (fst kw) k); cbn [map]; rewrite ?qsum_cons; lra.
Qed.
End LoadFold.

Section WithCand.
Variable cand : Type.
Variable ceqb : cand -> cand -> bool.
Hypothesis ceqb_spec : forall a b, reflect (a = b) (ceqb a b).

Notation ballot := (ballot cand).
Notation profile := (profile cand).
Notation pos_of := (pos_of cand ceqb).
Notation spec_ballot_node := (spec_ballot_node cand ceqb).
Notation linear_ballot := (linear_ballot cand).

Lemma pos_of_In : forall c cs, In c cs ->
  1 <= pos_of c cs <= length cs /\ nth_error cs (pos_of c cs - 1) = Some c.
Proof.
  intros c cs. induction cs as [|x cs IH]; intros H; [destruct H|].
  cbn [MetricSpec.pos_of length]. destruct (ceqb_spec c x) as [->|Hne].
  - split; [lia|reflexivity].
  - destruct H as [->|H]; [contradiction Hne; reflexivity|].
    destruct (IH H) as [Hr Hn]. destruct (pos_of c cs) as [|i] eqn:E; [lia|].
    split; [lia|]. cbn [Nat.sub] in Hn |- *. rewrite Nat.sub_0_r in Hn.
    destruct i; cbn [nth_error]; exact Hn.
Qed.

Lemma pos_of_inj : forall cs c c', In c cs -> In c' cs -> pos_of c cs = pos_of c' cs -> c = c'.
Proof.
  intros cs c c' H H' E. destruct (pos_of_In c cs H) as [_ Hn]. destruct (pos_of_In c' cs H') as [_ Hn'].
  rewrite E in Hn. congruence.
Qed.

Lemma index_of_pos_of : forall c cs i,
  index_of cand ceqb c cs i = match pos_of c cs with O => None | S j => Some (j + i) end.
Proof.
  intros c cs. induction cs as [|x cs IH]; intros i; cbn [index_of MetricSpec.pos_of].
  - reflexivity.
  - destruct (ceqb c x); [reflexivity|]. rewrite IH. destruct (pos_of c cs) as [|j]; [reflexivity|].
    f_equal. lia.
Qed.

Lemma index_of_In : forall c cs, In c cs -> index_of cand ceqb c cs 1 = Some (pos_of c cs).
Proof.
  intros c cs H. rewrite index_of_pos_of. destruct (pos_of_In c cs H) as [Hr _].
  destruct (pos_of c cs) as [|j]; [lia|]. f_equal. lia.
Qed.

Definition nums_of (cs : list cand) (b : ballot) : list nat :=
  map (fun c => pos_of c cs) (flat cand (rk b)).

Lemma spec_ballot_node_unfold : forall cs b,
  spec_ballot_node cs b =
  if Nat.eqb (length (nums_of cs b)) (length cs - 1)
  then nums_of cs b ++ missing (length cs) (nums_of cs b) else nums_of cs b.
Proof. reflexivity. Qed.

Lemma nums_of_props : forall cs b, NoDup cs -> linear_ballot cs b ->
  NoDup (nums_of cs b) /\ (forall x, In x (nums_of cs b) -> 1 <= x <= length cs) /\
  1 <= length (nums_of cs b) <= length cs /\
  Forall2 (fun c i => 1 <= i /\ nth_error cs (i - 1) = Some c) (flat cand (rk b)) (nums_of cs b).
Proof.
  intros cs b Hcs [Hne [Hsingle [Hnd Hincl]]]. unfold nums_of.
  assert (Hr : forall x, In x (map (fun c => pos_of c cs) (flat cand (rk b))) -> 1 <= x <= length cs).
  { intros x Hx. apply in_map_iff in Hx. destruct Hx as [c [<- Hc]].
    apply (pos_of_In c cs). apply Hincl. exact Hc. }
  assert (Hnd' : NoDup (map (fun c => pos_of c cs) (flat cand (rk b)))).
  { apply NoDup_map_inj_in; [|exact Hnd]. intros x y Hx Hy. apply pos_of_inj; apply Hincl; assumption. }
  split; [exact Hnd'|]. split; [exact Hr|]. split.
  - split.
    + rewrite map_length. destruct (rk b) as [|s r]; [contradiction Hne; reflexivity|].
      inversion Hsingle as [|s' r' Hs _]; subst. unfold flat. cbn [concat]. rewrite app_length. lia.
    + rewrite <- (seq_length (length cs) 1). apply NoDup_incl_length; [exact Hnd'|].
      intros x Hx. apply in_seq. specialize (Hr x Hx). lia.
  - clear Hnd Hnd' Hr. induction (flat cand (rk b)) as [|c l IH]; cbn [map]; constructor.
    + destruct (pos_of_In c cs (Hincl c (or_introl eq_refl))) as [[H1 _] H2]. split; assumption.
    + apply IH. intros x Hx. apply Hincl. right. exact Hx.
Qed.

Lemma spec_ballot_node_valid : forall cs b, NoDup cs -> linear_ballot cs b ->
  valid_node (length cs) (spec_ballot_node cs b).
Proof.
  intros cs b Hcs Hb. destruct (nums_of_props cs b Hcs Hb) as [Hnd [Hr [Hlen _]]].
  rewrite spec_ballot_node_unfold. set (nums := nums_of cs b) in *. set (n := length cs) in *.
  destruct (Nat.eqb (length nums) (n - 1)) eqn:E.
  - apply Nat.eqb_eq in E. pose proof (completed_perm n nums Hnd Hr) as Hp.
    pose proof (completed_length n nums Hnd Hr) as Hl. unfold valid_node. split.
    + apply (Permutation_NoDup (Permutation_sym Hp)). apply seq_NoDup.
    + split.
      * intros x Hx. apply (Permutation_in _ Hp) in Hx. apply in_seq in Hx. lia.
      * rewrite app_length. lia.
  - apply Nat.eqb_neq in E. unfold valid_node. repeat split; try assumption; try lia; apply Hr; assumption.
Qed.

(* the node of a ballot, declaratively *)
Lemma spec_ballot_node_positions : forall cs b, NoDup cs -> linear_ballot cs b ->
  exists nums,
    Forall2 (fun c i => 1 <= i /\ nth_error cs (i - 1) = Some c) (flat cand (rk b)) nums /\
    ((length nums <> length cs - 1 /\ spec_ballot_node cs b = nums) \/
     (length nums = length cs - 1 /\
      exists m, 1 <= m <= length cs /\ ~ In m nums /\ spec_ballot_node cs b = nums ++ [m])).
Proof.
  intros cs b Hcs Hb. destruct (nums_of_props cs b Hcs Hb) as [Hnd [Hr [Hlen Hpos]]].
  exists (nums_of cs b). split; [exact Hpos|]. rewrite spec_ballot_node_unfold.
  destruct (Nat.eqb (length (nums_of cs b)) (length cs - 1)) eqn:E.
  - apply Nat.eqb_eq in E. right. split; [exact E|].
    pose proof (completed_length (length cs) (nums_of cs b) Hnd Hr) as Hl.
    destruct (missing (length cs) (nums_of cs b)) as [|m [|m' t]] eqn:Em; cbn [length] in Hl; try lia.
    exists m. assert (Hm : In m (missing (length cs) (nums_of cs b))) by (rewrite Em; left; reflexivity).
    apply missing_In in Hm. destruct Hm as [Hm1 Hm2]. repeat split; try assumption; lia.
  - apply Nat.eqb_neq in E. left. split; [exact E|reflexivity].
Qed.

Lemma ballot_node_linear : forall cs b, linear_ballot cs b ->
  ballot_node cand ceqb cs true b = inl (spec_ballot_node cs b).
Proof.
  intros cs b [Hne [Hsingle [Hnd Hincl]]]. unfold ballot_node.
  destruct (rk b) as [|s r] eqn:Er; [contradiction Hne; reflexivity|].
  assert (Hties : existsb (fun s0 => Nat.ltb 1 (length s0)) (s :: r) = false).
  { destruct (existsb (fun s0 => Nat.ltb 1 (length s0)) (s :: r)) eqn:E; [|reflexivity].
    apply existsb_exists in E. destruct E as [g [Hg Hlt]]. rewrite Forall_forall in Hsingle.
    rewrite (Hsingle g Hg) in Hlt. discriminate. }
  rewrite Hties.
  rewrite (rmap_total _ _ _ (fun c => pos_of c cs) (flat cand (s :: r))).
  - unfold rbind. rewrite andb_true_r. rewrite spec_ballot_node_unfold. unfold nums_of. rewrite Er.
    unfold missing.
    destruct (Nat.eqb (length (map (fun c => pos_of c cs) (flat cand (s :: r)))) (length cs - 1));
      reflexivity.
  - intros c Hc. rewrite (index_of_In c cs); [reflexivity|]. apply Hincl. exact Hc.
Qed.

Theorem load_total_gen : forall p : profile,
  (forall k, valid_node (length (cands p)) k -> In k (g_nodes (build_graph (length (cands p))))) ->
  NoDup (cands p) -> Forall (linear_ballot (cands p)) (ballots p) ->
  exists ws, node_weights cand ceqb p true = inl ws /\
    NoDup (map fst ws) /\
    (qsum (map snd ws) == total_wt cand (ballots p))%Q /\
    (forall k, (weight_at ws k ==
                qsum (map wt (filter (fun b => node_eqb (spec_ballot_node (cands p) b) k) (ballots p))))%Q) /\
    (forall k, In k (map fst ws) -> exists b, In b (ballots p) /\ k = spec_ballot_node (cands p) b).
Proof.
  intros p Hg Hcs Hbs. unfold node_weights. rewrite Forall_forall in Hbs.
  rewrite (rmap_total _ _ _ (fun b => (spec_ballot_node (cands p) b, wt b)) (ballots p)).
  2:{ intros b Hb. rewrite (ballot_node_linear _ b (Hbs b Hb)). reflexivity. }
  unfold rbind. eexists. split; [reflexivity|].
  set (nodes := g_nodes (build_graph (length (cands p)))).
  set (ks := map (fun b => (spec_ballot_node (cands p) b, wt b)) (ballots p)).
  assert (Hin : forall kw, In kw ks -> In (fst kw) nodes).
  { intros kw Hkw. apply in_map_iff in Hkw. destruct Hkw as [b [<- Hb]]. cbn [fst].
    apply Hg. apply spec_ballot_node_valid; [exact Hcs|apply Hbs; exact Hb]. }
  split; [apply load_fold_NoDup; constructor|]. split.
  - rewrite (load_fold_sum nodes ks [] Hin). cbn [map]. rewrite qsum_nil. unfold ks.
    rewrite map_map. cbn [snd]. unfold Core.total_wt. rewrite Qplus_0_l. reflexivity.
  - split.
    + intros k. rewrite (load_fold_weight nodes ks [] k Hin). unfold weight_at at 1. cbn [find].
      unfold ks. rewrite filter_map_comm, map_map. cbn [fst snd]. rewrite Qplus_0_l. reflexivity.
    + intros k Hk. apply load_fold_keys_inv in Hk. destruct Hk as [[]|Hk]. unfold ks in Hk.
      rewrite map_map in Hk. cbn [fst] in Hk. apply in_map_iff in Hk. destruct Hk as [b [<- Hb]].
      exists b. split; [exact Hb|reflexivity].
Qed.

End WithCand.
