(* Proofs/Lib_rk.v — reusable facts: memb/In, subsetb/incl, cset_eqb, ranking_eqb is an
   equivalence, qsum/filter algebra, rmap/rfirst_err inversion, dedup/has_dup. *)
From VK Require Import Base Core EditSpec.
From Coq Require Import Permutation Lia Lqa Setoid Morphisms.

(* ---------- generic list / Q facts (no candidate type) ---------- *)

Lemma qsum_cons : forall a l, qsum (a :: l) = a + qsum l.
Proof. reflexivity. Qed.

Lemma qsum_nil : qsum [] = 0.
Proof. reflexivity. Qed.

Lemma qsum_app : forall l1 l2, qsum (l1 ++ l2) == qsum l1 + qsum l2.
Proof.
  induction l1 as [|a l1 IH]; intros l2; cbn [app].
  - rewrite qsum_nil. lra.
  - rewrite !qsum_cons. rewrite IH. lra.
Qed.

Lemma qsum_map_ext_eq : forall (A : Type) (f g : A -> Q) (l : list A),
  (forall a, In a l -> f a == g a) -> qsum (map f l) == qsum (map g l).
Proof.
  intros A f g l. induction l as [|a l IH]; intros H; cbn [map].
  - reflexivity.
  - rewrite !qsum_cons. rewrite (H a (or_introl eq_refl)).
    rewrite IH; [reflexivity|]. intros b Hb. apply H. right. exact Hb.
Qed.

Lemma qsum_map_plus : forall (A : Type) (f g : A -> Q) (l : list A),
  qsum (map (fun a => f a + g a) l) == qsum (map f l) + qsum (map g l).
Proof.
  intros A f g l. induction l as [|a l IH]; cbn [map].
  - cbn. lra.
  - rewrite !qsum_cons. rewrite IH. lra.
Qed.

Lemma qsum_map_scale : forall (A : Type) (k : Q) (f : A -> Q) (l : list A),
  qsum (map (fun a => k * f a) l) == k * qsum (map f l).
Proof.
  intros A k f l. induction l as [|a l IH]; cbn [map].
  - cbn. lra.
  - rewrite !qsum_cons. rewrite IH. lra.
Qed.

Lemma qsum_map_const : forall (A : Type) (k : Q) (l : list A),
  qsum (map (fun _ => k) l) == Qnat (length l) * k.
Proof.
  intros A k l. induction l as [|a l IH].
  - cbn [map length]. rewrite qsum_nil. change (Qnat 0) with 0. lra.
  - cbn [map length]. rewrite qsum_cons, IH. unfold Qnat.
    rewrite Nat2Z.inj_succ. unfold Z.succ. rewrite inject_Z_plus. change (inject_Z 1) with 1. ring.
Qed.

Lemma qsum_all_zero : forall (l : list Q), Forall (fun q => q == 0) l -> qsum l == 0.
Proof.
  intros l H. induction H as [|a l Ha _ IH].
  - reflexivity.
  - rewrite qsum_cons, Ha, IH. lra.
Qed.

Lemma qsum_filter_split : forall (A : Type) (f : A -> Q) (p q : A -> bool) (l : list A),
  qsum (map f (filter p l)) ==
  qsum (map f (filter (fun a => p a && q a) l)) + qsum (map f (filter (fun a => p a && negb (q a)) l)).
Proof.
  intros A f p q l. induction l as [|a l IH]; cbn [filter map].
  - cbn. lra.
  - destruct (p a), (q a); cbn [andb negb map]; rewrite ?qsum_cons; rewrite IH; lra.
Qed.

Lemma qsum_filter_as_ite : forall (A : Type) (f : A -> Q) (p : A -> bool) (l : list A),
  qsum (map f (filter p l)) == qsum (map (fun a => if p a then f a else 0) l).
Proof.
  intros A f p l. induction l as [|a l IH]; cbn [filter map].
  - reflexivity.
  - destruct (p a); cbn [map]; rewrite ?qsum_cons, IH; lra.
Qed.

Lemma filter_ext_in : forall (A : Type) (p q : A -> bool) (l : list A),
  (forall a, In a l -> p a = q a) -> filter p l = filter q l.
Proof.
  intros A p q l. induction l as [|a l IH]; intros H; cbn [filter].
  - reflexivity.
  - rewrite (H a (or_introl eq_refl)). rewrite IH; [reflexivity|].
    intros b Hb. apply H. right. exact Hb.
Qed.

Lemma filter_filter : forall (A : Type) (p q : A -> bool) (l : list A),
  filter p (filter q l) = filter (fun a => q a && p a) l.
Proof.
  intros A p q l. induction l as [|a l IH]; cbn [filter].
  - reflexivity.
  - destruct (q a); cbn [filter andb]; rewrite IH; reflexivity.
Qed.

Lemma filter_map_comm : forall (A B : Type) (f : A -> B) (p : B -> bool) (l : list A),
  filter p (map f l) = map f (filter (fun a => p (f a)) l).
Proof.
  intros A B f p l. induction l as [|a l IH]; cbn [filter map].
  - reflexivity.
  - destruct (p (f a)); cbn [map]; rewrite IH; reflexivity.
Qed.

Lemma filter_all_true : forall (A : Type) (p : A -> bool) (l : list A),
  (forall a, In a l -> p a = true) -> filter p l = l.
Proof.
  intros A p l. induction l as [|a l IH]; intros H; cbn [filter].
  - reflexivity.
  - rewrite (H a (or_introl eq_refl)). f_equal. apply IH. intros b Hb. apply H. right. exact Hb.
Qed.

Lemma concat_filter_nonempty : forall (A : Type) (l : list (list A)),
  concat (filter nonempty l) = concat l.
Proof.
  intros A l. induction l as [|g l IH]; cbn [filter concat].
  - reflexivity.
  - destruct g as [|x g]; cbn [nonempty concat app]; rewrite IH; reflexivity.
Qed.

Lemma concat_map_filter : forall (A : Type) (p : A -> bool) (l : list (list A)),
  concat (map (filter p) l) = filter p (concat l).
Proof.
  intros A p l. induction l as [|g l IH]; cbn [map concat].
  - reflexivity.
  - rewrite filter_app, IH. reflexivity.
Qed.

Lemma nonempty_true_iff : forall (A : Type) (l : list A), nonempty l = true <-> l <> [].
Proof.
  intros A l. destruct l as [|a l]; cbn; split; intros H; try discriminate; try reflexivity.
  contradiction H; reflexivity.
Qed.

Lemma nonempty_false_iff : forall (A : Type) (l : list A), nonempty l = false <-> l = [].
Proof.
  intros A l. destruct l as [|a l]; cbn; split; intros H; try discriminate; reflexivity.
Qed.

(* ---------- result monad inversion ---------- *)

Lemma rmap_ok_inv : forall (A B : Type) (f : A -> res B) (l : list A) (l' : list B),
  rmap f l = inl l' <-> Forall2 (fun a b => f a = inl b) l l'.
Proof.
  intros A B f l. induction l as [|a l IH]; intros l'; cbn [rmap].
  - unfold ok. split.
    + intros H. injection H as <-. constructor.
    + intros H. inversion H. reflexivity.
  - unfold rbind, ok. destruct (f a) as [b|e] eqn:Ea.
    + destruct (rmap f l) as [bs|e] eqn:El.
      * split.
        -- intros H. injection H as <-. constructor; [exact Ea|]. apply IH. reflexivity.
        -- intros H. inversion H as [|x y lx ly Hxy Hrest]; subst.
           rewrite Ea in Hxy. injection Hxy as <-.
           apply IH in Hrest. injection Hrest as <-. reflexivity.
      * split; [discriminate|]. intros H. inversion H as [|x y lx ly Hxy Hrest]; subst.
        apply IH in Hrest. discriminate.
    + split; [discriminate|]. intros H. inversion H as [|x y lx ly Hxy Hrest]; subst.
      rewrite Ea in Hxy. discriminate.
Qed.

(* rmap of a function that never fails outside a recognisable set of inputs *)
Lemma rmap_total : forall (A B : Type) (f : A -> res B) (g : A -> B) (l : list A),
  (forall a, In a l -> f a = inl (g a)) -> rmap f l = inl (map g l).
Proof.
  intros A B f g l. induction l as [|a l IH]; intros H; cbn [rmap map].
  - reflexivity.
  - rewrite (H a (or_introl eq_refl)). unfold rbind. rewrite IH; [reflexivity|].
    intros b Hb. apply H. right. exact Hb.
Qed.

Lemma rmap_err_inv : forall (A B : Type) (f : A -> res B) (l : list A) (e : exn),
  rmap f l = inr e <->
  exists l1 a l2, l = l1 ++ a :: l2 /\ f a = inr e /\ (forall x, In x l1 -> exists y, f x = inl y).
Proof.
  intros A B f l. induction l as [|a l IH]; intros e; cbn [rmap].
  - split.
    + discriminate.
    + intros (l1 & a & l2 & H & _). destruct l1; discriminate.
  - unfold rbind, ok. destruct (f a) as [b|e'] eqn:Ea.
    + destruct (rmap f l) as [bs|e''] eqn:El.
      * split; [discriminate|].
        intros (l1 & x & l2 & H & Hx & Hl1).
        destruct l1 as [|y l1]; cbn [app] in H; injection H as -> ->.
        -- rewrite Ea in Hx. discriminate.
        -- assert (Hex : exists l3 a0 l4, l1 ++ x :: l2 = l3 ++ a0 :: l4 /\ f a0 = inr e /\
                     (forall z, In z l3 -> exists y, f z = inl y)).
           { exists l1, x, l2. repeat split; [exact Hx|].
             intros z Hz. apply Hl1. right. exact Hz. }
           apply IH in Hex. discriminate.
      * split.
        -- intros H. injection H as ->.
           destruct (proj1 (IH e) eq_refl) as (l1 & x & l2 & -> & Hx & Hl1).
           exists (a :: l1), x, l2. repeat split; [exact Hx|].
           intros z [<-|Hz]; [exists b; exact Ea|apply Hl1; exact Hz].
        -- intros (l1 & x & l2 & H & Hx & Hl1).
           destruct l1 as [|y l1]; cbn [app] in H; injection H as -> ->.
           ++ rewrite Ea in Hx. discriminate.
           ++ assert (Hex : exists l3 a0 l4, l1 ++ x :: l2 = l3 ++ a0 :: l4 /\ f a0 = inr e /\
                        (forall z, In z l3 -> exists y, f z = inl y)).
              { exists l1, x, l2. repeat split; [exact Hx|].
                intros z Hz. apply Hl1. right. exact Hz. }
              apply IH in Hex. exact Hex.
    + split.
      * intros H. injection H as ->. exists [], a, l. repeat split; [exact Ea|].
        intros x [].
      * intros (l1 & x & l2 & H & Hx & Hl1).
        destruct l1 as [|y l1]; cbn [app] in H; injection H as -> ->.
        -- rewrite Ea in Hx. injection Hx as ->. reflexivity.
        -- destruct (Hl1 y (or_introl eq_refl)) as [y' Hy]. rewrite Ea in Hy. discriminate.
Qed.

Lemma rfirst_err_ok_inv : forall (A : Type) (f : A -> res unit) (l : list A),
  rfirst_err f l = inl tt <-> (forall a, In a l -> f a = inl tt).
Proof.
  intros A f l. induction l as [|a l IH]; cbn [rfirst_err].
  - split; [intros _ a []|reflexivity].
  - unfold rbind. destruct (f a) as [[]|e] eqn:Ea.
    + rewrite IH. split.
      * intros H x [<-|Hx]; [exact Ea|apply H; exact Hx].
      * intros H x Hx. apply H. right. exact Hx.
    + split; [discriminate|]. intros H. specialize (H a (or_introl eq_refl)).
      rewrite Ea in H. discriminate.
Qed.

Lemma rfirst_err_err_inv : forall (A : Type) (f : A -> res unit) (l : list A) (e : exn),
  rfirst_err f l = inr e <->
  exists l1 a l2, l = l1 ++ a :: l2 /\ f a = inr e /\ (forall x, In x l1 -> f x = inl tt).
Proof.
  intros A f l. induction l as [|a l IH]; intros e; cbn [rfirst_err].
  - split; [discriminate|]. intros (l1 & a & l2 & H & _). destruct l1; discriminate.
  - unfold rbind. destruct (f a) as [[]|e'] eqn:Ea.
    + rewrite IH. split.
      * intros (l1 & x & l2 & -> & Hx & Hl1). exists (a :: l1), x, l2.
        repeat split; [exact Hx|]. intros z [<-|Hz]; [exact Ea|apply Hl1; exact Hz].
      * intros (l1 & x & l2 & H & Hx & Hl1).
        destruct l1 as [|y l1]; cbn [app] in H; injection H as -> ->.
        -- rewrite Ea in Hx. discriminate.
        -- exists l1, x, l2. repeat split; [exact Hx|]. intros z Hz. apply Hl1. right. exact Hz.
    + split.
      * intros H. injection H as ->. exists [], a, l. repeat split; [exact Ea|]. intros x [].
      * intros (l1 & x & l2 & H & Hx & Hl1).
        destruct l1 as [|y l1]; cbn [app] in H; injection H as -> ->.
        -- rewrite Ea in Hx. exact Hx.
        -- rewrite (Hl1 y (or_introl eq_refl)) in Ea. discriminate.
Qed.

(* ---------- Q comparisons of the model ---------- *)

Lemma Qlt_bool_iff : forall a b, Qlt_bool a b = true <-> a < b.
Proof.
  intros a b. unfold Qlt_bool. rewrite negb_true_iff.
  split.
  - intros H. apply Qnot_le_lt. intros Hle. apply Qle_bool_iff in Hle. congruence.
  - intros H. destruct (Qle_bool b a) eqn:E; [|reflexivity].
    apply Qle_bool_iff in E. exfalso. apply (Qlt_not_le _ _ H). exact E.
Qed.

Lemma Qlt_bool_false_iff : forall a b, Qlt_bool a b = false <-> b <= a.
Proof.
  intros a b. unfold Qlt_bool. rewrite negb_false_iff. apply Qle_bool_iff.
Qed.

Lemma Qeq_bool_false_iff : forall a b, Qeq_bool a b = false <-> ~ a == b.
Proof.
  intros a b. split.
  - intros H Heq. apply Qeq_bool_iff in Heq. congruence.
  - intros H. destruct (Qeq_bool a b) eqn:E; [|reflexivity].
    apply Qeq_bool_iff in E. contradiction.
Qed.

Section WithCand.
Variable cand : Type.
Variable ceqb : cand -> cand -> bool.
Hypothesis ceqb_spec : forall a b, reflect (a = b) (ceqb a b).

Notation cset := (cset cand).
Notation ranking := (ranking cand).
Notation ballot := (ballot cand).
Notation memb := (memb cand ceqb).
Notation subsetb := (subsetb cand ceqb).
Notation cset_eqb := (cset_eqb cand ceqb).
Notation ranking_eqb := (ranking_eqb cand ceqb).
Notation seteq := (seteq cand).
Notation rk_equiv := (rk_equiv cand).
Notation wtof_rk := (wtof_rk cand ceqb).

Lemma ceqb_refl : forall a, ceqb a a = true.
Proof. intros a. destruct (ceqb_spec a a) as [_|H]; [reflexivity|contradiction H; reflexivity]. Qed.

Lemma ceqb_true_iff : forall a b, ceqb a b = true <-> a = b.
Proof. intros a b. destruct (ceqb_spec a b) as [H|H]; split; intros H'; congruence. Qed.

Lemma ceqb_false_iff : forall a b, ceqb a b = false <-> a <> b.
Proof. intros a b. destruct (ceqb_spec a b) as [H|H]; split; intros H'; congruence. Qed.

Lemma memb_In : forall c s, memb c s = true <-> In c s.
Proof.
  intros c s. unfold Core.memb. rewrite existsb_exists. split.
  - intros (x & Hx & Hc). apply ceqb_true_iff in Hc. subst. exact Hx.
  - intros H. exists c. split; [exact H|apply ceqb_refl].
Qed.

Lemma memb_false_iff : forall c s, memb c s = false <-> ~ In c s.
Proof.
  intros c s. rewrite <- memb_In. destruct (memb c s); split; intros H; congruence.
Qed.

Lemma subsetb_incl : forall a b, subsetb a b = true <-> incl a b.
Proof.
  intros a b. unfold Core.subsetb. rewrite forallb_forall. unfold incl. split.
  - intros H c Hc. apply memb_In. apply H. exact Hc.
  - intros H c Hc. apply memb_In. apply H. exact Hc.
Qed.

Lemma cset_eqb_seteq : forall a b, cset_eqb a b = true <-> seteq a b.
Proof.
  intros a b. unfold Core.cset_eqb. rewrite andb_true_iff, !subsetb_incl. unfold EditSpec.seteq, incl.
  split.
  - intros [H1 H2] c. split; [apply H1|apply H2].
  - intros H. split; intros c Hc; apply H; exact Hc.
Qed.

Lemma seteq_refl : forall a, seteq a a.
Proof. intros a c. reflexivity. Qed.
Lemma seteq_sym : forall a b, seteq a b -> seteq b a.
Proof. intros a b H c. symmetry. apply H. Qed.
Lemma seteq_trans : forall a b c, seteq a b -> seteq b c -> seteq a c.
Proof. intros a b c H1 H2 x. rewrite (H1 x). apply H2. Qed.

Lemma ranking_eqb_equiv : forall r1 r2, ranking_eqb r1 r2 = true <-> rk_equiv r1 r2.
Proof.
  unfold EditSpec.rk_equiv.
  induction r1 as [|s1 r1 IH]; intros [|s2 r2]; cbn [Core.ranking_eqb].
  - split; [constructor|reflexivity].
  - split; [discriminate|intros H; inversion H].
  - split; [discriminate|intros H; inversion H].
  - rewrite andb_true_iff, cset_eqb_seteq, IH. split.
    + intros [H1 H2]. constructor; assumption.
    + intros H. inversion H; subst. split; assumption.
Qed.

Lemma rk_equiv_refl : forall r, rk_equiv r r.
Proof. induction r as [|s r IH]; constructor; [apply seteq_refl|exact IH]. Qed.

Lemma rk_equiv_sym : forall r1 r2, rk_equiv r1 r2 -> rk_equiv r2 r1.
Proof.
  intros r1 r2 H. induction H as [|a b l l' Hab _ IH]; constructor;
    [apply seteq_sym; exact Hab|exact IH].
Qed.

Lemma rk_equiv_trans : forall r1 r2 r3, rk_equiv r1 r2 -> rk_equiv r2 r3 -> rk_equiv r1 r3.
Proof.
  intros r1 r2 r3 H. revert r3. induction H as [|a b l l' Hab _ IH]; intros r3 H3.
  - exact H3.
  - inversion H3 as [|x c lx lc Hbc Hrest]; subst. constructor.
    + eapply seteq_trans; eassumption.
    + apply IH. exact Hrest.
Qed.

Lemma ranking_eqb_refl : forall r, ranking_eqb r r = true.
Proof. intros r. apply ranking_eqb_equiv. apply rk_equiv_refl. Qed.

Lemma ranking_eqb_sym : forall r1 r2, ranking_eqb r1 r2 = ranking_eqb r2 r1.
Proof.
  intros r1 r2. destruct (ranking_eqb r1 r2) eqn:E1, (ranking_eqb r2 r1) eqn:E2; try reflexivity.
  - apply ranking_eqb_equiv, rk_equiv_sym, ranking_eqb_equiv in E1. congruence.
  - apply ranking_eqb_equiv, rk_equiv_sym, ranking_eqb_equiv in E2. congruence.
Qed.

(* matching rankings are interchangeable on the right of a comparison *)
Lemma ranking_eqb_compat_r : forall r a b,
  ranking_eqb a b = true -> ranking_eqb r a = ranking_eqb r b.
Proof.
  intros r a b Hab. apply ranking_eqb_equiv in Hab.
  destruct (ranking_eqb r a) eqn:E1, (ranking_eqb r b) eqn:E2; try reflexivity.
  - apply ranking_eqb_equiv in E1.
    assert (H : ranking_eqb r b = true)
      by (apply ranking_eqb_equiv; eapply rk_equiv_trans; eassumption).
    congruence.
  - apply ranking_eqb_equiv in E2.
    assert (H : ranking_eqb r a = true).
    { apply ranking_eqb_equiv. eapply rk_equiv_trans; [eassumption|]. apply rk_equiv_sym. exact Hab. }
    congruence.
Qed.

Lemma ranking_eqb_compat_l : forall r a b,
  ranking_eqb a b = true -> ranking_eqb a r = ranking_eqb b r.
Proof.
  intros r a b Hab. rewrite (ranking_eqb_sym a r), (ranking_eqb_sym b r).
  apply ranking_eqb_compat_r. exact Hab.
Qed.

Lemma ranking_eqb_nil_r : forall r, ranking_eqb r [] = negb (nonempty r).
Proof. intros [|s r]; reflexivity. Qed.

Lemma ranking_eqb_nil_l : forall r, ranking_eqb [] r = negb (nonempty r).
Proof. intros [|s r]; reflexivity. Qed.

Lemma ranking_eqb_nonempty : forall r1 r2,
  ranking_eqb r1 r2 = true -> nonempty r1 = nonempty r2.
Proof. intros [|s1 r1] [|s2 r2] H; cbn in *; congruence. Qed.

(* equivalent rankings mention the same candidates *)
Lemma rk_equiv_flat : forall r1 r2, rk_equiv r1 r2 -> seteq (flat cand r1) (flat cand r2).
Proof.
  intros r1 r2 H. induction H as [|a b l l' Hab _ IH]; intros c.
  - reflexivity.
  - unfold flat in *. cbn [concat]. rewrite !in_app_iff. rewrite (Hab c), (IH c). reflexivity.
Qed.

(* ---------- wtof_rk algebra ---------- *)

Lemma wtof_rk_nil : forall r, wtof_rk r [] == 0.
Proof. intros r. reflexivity. Qed.

Lemma wtof_rk_cons : forall r b bs,
  wtof_rk r (b :: bs) == (if ranking_eqb r (rk b) then wt b else 0) + wtof_rk r bs.
Proof.
  intros r b bs. unfold EditSpec.wtof_rk. cbn [filter].
  destruct (ranking_eqb r (rk b)); cbn [map]; rewrite ?qsum_cons; lra.
Qed.

Lemma wtof_rk_app : forall r l1 l2, wtof_rk r (l1 ++ l2) == wtof_rk r l1 + wtof_rk r l2.
Proof.
  intros r l1 l2. unfold EditSpec.wtof_rk. rewrite filter_app, map_app, qsum_app. reflexivity.
Qed.

Lemma wtof_rk_compat : forall r r' bs, ranking_eqb r r' = true -> wtof_rk r bs == wtof_rk r' bs.
Proof.
  intros r r' bs H. unfold EditSpec.wtof_rk.
  rewrite (filter_ext_in _ (fun b => ranking_eqb r (rk b)) (fun b => ranking_eqb r' (rk b))).
  - reflexivity.
  - intros b _. apply ranking_eqb_compat_l. exact H.
Qed.

(* ---------- dedup / has_dup ---------- *)

Lemma dedup_In : forall c l, In c (dedup cand ceqb l) <-> In c l.
Proof.
  intros c l. induction l as [|x l IH]; cbn [dedup].
  - reflexivity.
  - destruct (memb x l) eqn:E.
    + rewrite IH. split; [intros H; right; exact H|].
      intros [<-|H]; [apply memb_In; exact E|exact H].
    + cbn [In]. rewrite IH. reflexivity.
Qed.

Lemma dedup_NoDup : forall l, NoDup (dedup cand ceqb l).
Proof.
  induction l as [|x l IH]; cbn [dedup].
  - constructor.
  - destruct (memb x l) eqn:E; [exact IH|].
    constructor; [|exact IH]. rewrite dedup_In. apply memb_false_iff. exact E.
Qed.

Lemma dedup_length_le : forall l, (length (dedup cand ceqb l) <= length l)%nat.
Proof.
  induction l as [|x l IH]; cbn [dedup length]; [lia|].
  destruct (memb x l); cbn [length]; lia.
Qed.

Lemma has_dup_false_iff : forall l, has_dup cand ceqb l = false <-> NoDup l.
Proof.
  intros l. unfold has_dup. rewrite negb_false_iff, Nat.eqb_eq.
  induction l as [|x l IH]; cbn [dedup length].
  - split; [constructor|reflexivity].
  - destruct (memb x l) eqn:E.
    + split.
      * intros H. pose proof (dedup_length_le l). lia.
      * intros H. inversion H as [|y l' Hn Hl]; subst. apply memb_In in E. contradiction.
    + cbn [length]. split.
      * intros H. constructor; [apply memb_false_iff; exact E|]. apply IH. lia.
      * intros H. inversion H as [|y l' Hn Hl]; subst. f_equal. apply IH. exact Hl.
Qed.

Lemma set_diff_In : forall c a b, In c (set_diff cand ceqb a b) <-> In c a /\ ~ In c b.
Proof.
  intros c a b. unfold set_diff. rewrite filter_In, negb_true_iff, memb_false_iff. reflexivity.
Qed.

Lemma set_diff_NoDup : forall a b, NoDup a -> NoDup (set_diff cand ceqb a b).
Proof. intros a b H. unfold set_diff. apply NoDup_filter. exact H. Qed.

End WithCand.
