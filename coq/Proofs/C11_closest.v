(* Proofs/C11_closest.v — C11, ballot construction: [limit_den] (the Gallina port of CPython's
   Fraction.limit_denominator, Model/BallotCtor.v) returns A CLOSEST fraction with denominator
   <= 10^6, for every rational argument.

   Structure:
   - [farey_gap]: the Farey-neighbour (mediant) argument in Z: if B = PB/QB and C = PC/QC have
     determinant +-1, the argument n0/d0 lies strictly between them and QB + QC > M, then every
     p/q with 1 <= q <= M is at least as far from n0/d0 as the closer of B and C;
   - [exit_closest]: at the exit of the continued-fraction loop the two candidates of the
     algorithm are such a pair, and the final test [2*d*Q2 <= d0] picks the closer one;
   - [limit_den_large]: which candidate [limit_den] returns, with the outcome of the test;
   - [limit_den_closest]: the statement in Q. *)
From Coq Require Import List ZArith QArith Qreduction Qabs Bool Lia Lqa.
From VK Require Import Base Core BallotCtor.
From VK.Proofs Require Import C11_limit_den.
Import ListNotations.

Local Open Scope Z_scope.

(* ------------------------------------------------------------------ *)
(** * The Farey-neighbour argument, in Z *)

(* B = PB/QB < n0/d0 < C = PC/QC, at cross-multiplied distances b and a *)
Lemma farey_gap_pos : forall M d0 n0 PB QB PC QC a b p q : Z,
  0 < d0 -> 0 < QB -> 0 < QC -> 0 < a -> 0 < b ->
  PC * d0 - n0 * QC = a -> PB * d0 - n0 * QB = - b -> PC * QB - PB * QC = 1 ->
  M < QB + QC -> 1 <= q <= M ->
  (a * QB <= b * QC -> a * q <= Z.abs (p * d0 - n0 * q) * QC) /\
  (b * QC <= a * QB -> b * q <= Z.abs (p * d0 - n0 * q) * QB).
Proof.
  intros M d0 n0 PB QB PC QC a b p q Hd0 HQB HQC Ha Hb Ea Eb Edet HM Hq.
  set (t := p * d0 - n0 * q).
  set (u := PC * q - p * QC). set (v := p * QB - PB * q).
  assert (Hquv : q = QB * u + QC * v).
  { assert (E : QB * u + QC * v = q * (PC * QB - PB * QC)) by (unfold u, v; ring).
    rewrite Edet in E. lia. }
  assert (Hu : a * q - t * QC = d0 * u) by (unfold t, u; rewrite <- Ea; ring).
  assert (Hv : t * QB + b * q = d0 * v).
  { replace b with (n0 * QB - PB * d0) by lia. unfold t, v. ring. }
  assert (Huv : u <= 0 \/ v <= 0).
  { destruct (Z_le_gt_dec u 0) as [H|H]; [left; exact H|].
    destruct (Z_le_gt_dec v 0) as [H'|H']; [right; exact H'|]. exfalso.
    assert (QB <= QB * u) by nia. assert (QC <= QC * v) by nia. lia. }
  assert (Haq : 0 < a * q) by (apply Z.mul_pos_pos; lia).
  assert (Hbq : 0 < b * q) by (apply Z.mul_pos_pos; lia).
  clearbody t u v. clear Ea Eb Edet Hquv.
  destruct Huv as [Hu0|Hv0].
  - (* p/q >= C *)
    assert (Hdu : d0 * u <= 0) by (apply Z.mul_nonneg_nonpos; lia).
    assert (H1 : a * q <= t * QC) by lia.
    assert (Ht : 0 < t).
    { destruct (Z_le_gt_dec t 0) as [Hn|Hp]; [|lia]. exfalso.
      assert (t * QC <= 0) by (apply Z.mul_nonpos_nonneg; lia). lia. }
    rewrite (Z.abs_eq t) by lia. split; intros Hc; [exact H1|].
    assert (H2 : (b * QC) * q <= (a * QB) * q) by (apply Z.mul_le_mono_nonneg_r; lia).
    assert (H3 : (a * q) * QB <= (t * QC) * QB) by (apply Z.mul_le_mono_nonneg_r; lia).
    apply (Z.mul_le_mono_pos_l _ _ QC HQC). lia.
  - (* p/q <= B *)
    assert (Hdv : d0 * v <= 0) by (apply Z.mul_nonneg_nonpos; lia).
    assert (H1 : b * q <= (- t) * QB) by lia.
    assert (Ht : t < 0).
    { destruct (Z_le_gt_dec 0 t) as [Hn|Hp]; [|lia]. exfalso.
      assert (0 <= t * QB) by (apply Z.mul_nonneg_nonneg; lia). lia. }
    rewrite (Z.abs_neq t) by lia. split; intros Hc; [|exact H1].
    assert (H2 : (a * QB) * q <= (b * QC) * q) by (apply Z.mul_le_mono_nonneg_r; lia).
    assert (H3 : (b * q) * QC <= (- t * QB) * QC) by (apply Z.mul_le_mono_nonneg_r; lia).
    apply (Z.mul_le_mono_pos_l _ _ QB HQB). lia.
Qed.

(* both orientations: determinant e = +-1 *)
Lemma farey_gap : forall M d0 n0 PB QB PC QC a b e p q : Z,
  0 < d0 -> 0 < QB -> 0 < QC -> 0 < a -> 0 < b -> e = 1 \/ e = -1 ->
  PC * d0 - n0 * QC = a * e -> PB * d0 - n0 * QB = - (b * e) -> PC * QB - PB * QC = e ->
  M < QB + QC -> 1 <= q <= M ->
  (a * QB <= b * QC -> a * q <= Z.abs (p * d0 - n0 * q) * QC) /\
  (b * QC <= a * QB -> b * q <= Z.abs (p * d0 - n0 * q) * QB).
Proof.
  intros M d0 n0 PB QB PC QC a b e p q Hd0 HQB HQC Ha Hb [He|He] Ea Eb Edet HM Hq; subst e.
  - apply (farey_gap_pos M d0 n0 PB QB PC QC a b p q); try assumption; lia.
  - replace (p * d0 - n0 * q) with (- ((- p) * d0 - (- n0) * q)) by ring. rewrite Z.abs_opp.
    apply (farey_gap_pos M d0 (- n0) (- PB) QB (- PC) QC a b (- p) q); try assumption; lia.
Qed.

(* ------------------------------------------------------------------ *)
(** * The two candidates at the exit of the loop *)

Lemma exit_closest : forall n0 d0 p0 q0 p1 q1 n d : Z,
  max_den < d0 ->
  Jinv n0 d0 p0 q0 p1 q1 n d -> max_den < q0 + (n / d) * q1 ->
  let k := (max_den - q0) / q1 in
  let P2 := p0 + k * p1 in
  let Q2 := q0 + k * q1 in
  1 <= Q2 <= max_den /\
  Z.abs (p1 * d0 - n0 * q1) = d /\
  Z.abs (P2 * d0 - n0 * Q2) = n - k * d /\
  0 < d /\ 0 < n - k * d /\
  (* the final test compares the two distances *)
  (2 * d * Q2 <= d0 <-> d * Q2 <= (n - k * d) * q1) /\
  forall p q : Z, 1 <= q <= max_den ->
    (d * Q2 <= (n - k * d) * q1 -> d * q <= Z.abs (p * d0 - n0 * q) * q1) /\
    ((n - k * d) * q1 <= d * Q2 -> (n - k * d) * q <= Z.abs (p * d0 - n0 * q) * Q2).
Proof.
  intros n0 d0 p0 q0 p1 q1 n d Hbig J Hout k P2 Q2.
  pose proof (J_dpos _ _ Hbig _ _ _ _ _ _ J) as Hdpos.
  destruct J as [Hq0 Hq1 Hd Hden Hnum Hdet Hg].
  assert (Hq1pos : 0 < q1) by lia.
  pose proof (Z.mul_div_le (max_den - q0) q1 Hq1pos) as Hk1.
  pose proof (Z.mul_succ_div_gt (max_den - q0) q1 Hq1pos) as Hk2.
  fold k in Hk1, Hk2.
  assert (Hk0 : 0 <= k) by (apply Z.div_pos; lia).
  assert (HQ2 : 1 <= Q2 <= max_den) by (unfold Q2; lia).
  assert (Hsum : max_den < Q2 + q1) by (unfold Q2; lia).
  pose proof (Z.mod_pos_bound n d Hdpos) as Hr.
  pose proof (Z.mod_eq n d ltac:(lia)) as Hmod.
  assert (Hka : k + 1 <= n / d) by (unfold Q2 in HQ2; nia).
  assert (Hnk : d <= n - k * d) by nia.
  assert (Hsplit : (n - k * d) * q1 + d * Q2 = d0) by (unfold Q2; rewrite <- Hden; ring).
  set (e := p1 * q0 - p0 * q1) in *.
  assert (He : e = 1 \/ e = -1) by exact Hdet.
  assert (EC : p1 * d0 - n0 * q1 = d * e) by (unfold e; rewrite <- Hden, <- Hnum; ring).
  assert (EB : P2 * d0 - n0 * Q2 = - ((n - k * d) * e))
    by (unfold e, P2, Q2; rewrite <- Hden, <- Hnum; ring).
  assert (ED : p1 * Q2 - P2 * q1 = e) by (unfold e, P2, Q2; ring).
  split; [exact HQ2|]. split.
  { rewrite EC. destruct He as [E|E]; rewrite E; [rewrite Z.mul_1_r; apply Z.abs_eq; lia|].
    replace (d * -1) with (- d) by ring. rewrite Z.abs_opp. apply Z.abs_eq; lia. }
  split.
  { rewrite EB. destruct He as [E|E]; rewrite E.
    - rewrite Z.mul_1_r, Z.abs_opp. apply Z.abs_eq; lia.
    - replace (- ((n - k * d) * -1)) with (n - k * d) by ring. apply Z.abs_eq; lia. }
  split; [exact Hdpos|]. split; [lia|]. split; [lia|].
  intros p q Hq.
  apply (farey_gap max_den d0 n0 P2 Q2 p1 q1 d (n - k * d) e p q); try assumption; lia.
Qed.

(* ------------------------------------------------------------------ *)
(** * Which candidate [limit_den] returns *)

Lemma limit_den_large : forall x : Q,
  max_den < Zpos (Qden (Qred x)) ->
  exists p0 q0 p1 q1 n d : Z,
    Jinv (Qnum (Qred x)) (Zpos (Qden (Qred x))) p0 q0 p1 q1 n d /\
    max_den < q0 + (n / d) * q1 /\
    limit_den x =
      if 2 * d * (q0 + (max_den - q0) / q1 * q1) <=? Zpos (Qden (Qred x))
      then Qmake p1 (Z.to_pos q1)
      else Qmake (p0 + (max_den - q0) / q1 * p1) (Z.to_pos (q0 + (max_den - q0) / q1 * q1)).
Proof.
  intros x Hb.
  destruct (limit_den_cases x) as [[Hs _]|[_ [P [Qd [_ [_ HE]]]]]]; [lia|].
  unfold limit_den. cbv zeta.
  destruct (Z.leb_spec (Zpos (Qden (Qred x))) max_den) as [Hs|_]; [lia|].
  destruct (ld_loop _ 0 1 1 0 (Qnum (Qred x)) (Zpos (Qden (Qred x)))) as [[[[p0 q0] p1] q1] d].
  destruct HE as [n [J Hout]].
  exists p0, q0, p1, q1, n, d. split; [exact J|]. split; [exact Hout|reflexivity].
Qed.

(* ------------------------------------------------------------------ *)
(** * Transfer to Q *)

(* |n0/d0 - P/Qd| <= |n0/d0 - p/q| from the cross-multiplied inequality *)
Lemma Qabs_dist_le : forall (n0 : Z) (d0 : positive) (P Qd p : Z) (q : positive),
  0 < Qd ->
  Z.abs (P * Zpos d0 - n0 * Qd) * Zpos q <= Z.abs (p * Zpos d0 - n0 * Zpos q) * Qd ->
  (Qabs ((n0 # d0) - (P # Z.to_pos Qd)) <= Qabs ((n0 # d0) - (p # q)))%Q.
Proof.
  intros n0 d0 P Qd p q HQd H.
  unfold Qle, Qabs, Qminus, Qplus, Qopp. cbn [Qnum Qden].
  rewrite !Pos2Z.inj_mul, Z2Pos.id by exact HQd.
  replace (n0 * Qd + - P * Zpos d0) with (- (P * Zpos d0 - n0 * Qd)) by ring.
  replace (n0 * Zpos q + - p * Zpos d0) with (- (p * Zpos d0 - n0 * Zpos q)) by ring.
  rewrite !Z.abs_opp.
  set (A := Z.abs (P * Zpos d0 - n0 * Qd)) in *.
  set (B := Z.abs (p * Zpos d0 - n0 * Zpos q)) in *.
  replace (A * (Zpos d0 * Zpos q)) with (Zpos d0 * (A * Zpos q)) by ring.
  replace (B * (Zpos d0 * Qd)) with (Zpos d0 * (B * Qd)) by ring.
  apply Z.mul_le_mono_nonneg_l; [lia|exact H].
Qed.

Local Close Scope Z_scope.

(* the main theorem *)
Theorem limit_den_closest : forall (x : Q) (p : Z) (q : positive),
  (Zpos q <= 1000000)%Z -> Qabs (x - limit_den x) <= Qabs (x - (p # q)).
Proof.
  intros x p q Hq. change 1000000%Z with max_den in Hq.
  destruct (Z_le_gt_dec (Zpos (Qden (Qred x))) max_den) as [Hs|Hb].
  - (* exact *)
    destruct (limit_den_small_identity x Hs) as [_ E].
    assert (E0 : x - limit_den x == 0) by (rewrite E; ring).
    rewrite E0. apply Qabs_nonneg.
  - assert (Hb' : (max_den < Zpos (Qden (Qred x)))%Z) by lia.
    destruct (limit_den_large x Hb') as [p0 [q0 [p1 [q1 [n [d [J [Hout E]]]]]]]].
    remember (limit_den x) as r eqn:Er. clear Er.
    assert (Ex : x - r == Qred x - r) by (rewrite (Qred_correct x); reflexivity).
    assert (Ey : x - (p # q) == Qred x - (p # q)) by (rewrite (Qred_correct x); reflexivity).
    rewrite Ex, Ey. clear Ex Ey.
    destruct (Qred x) as [n0 d0]. cbn [Qnum Qden] in *.
    destruct (exit_closest _ _ _ _ _ _ _ _ Hb' J Hout)
      as [HQ2 [HaC [HaB [Hd [Hnk [Htest Hfar]]]]]].
    assert (Hq' : (1 <= Zpos q <= max_den)%Z) by lia.
    destruct (Hfar p (Zpos q) Hq') as [HC HB].
    destruct J as [_ Hq1 _ _ _ _ _].
    destruct (Z.leb_spec (2 * d * (q0 + (max_den - q0) / q1 * q1)) (Zpos d0)) as [Hc|Hc];
      subst r.
    + apply Qabs_dist_le; [lia|]. rewrite HaC. apply HC. apply Htest. exact Hc.
    + apply Qabs_dist_le; [lia|]. rewrite HaB. apply HB.
      destruct (Z_le_gt_dec (d * (q0 + (max_den - q0) / q1 * q1))
                            ((n - (max_den - q0) / q1 * d) * q1)) as [H|H]; [|lia].
      apply Htest in H. lia.
Qed.

(* with the already known facts: the result is itself an admissible fraction, so it is a
   minimiser of the distance over the fractions with denominator <= 10^6 *)
Theorem limit_den_argmin : forall x : Q,
  (Zpos (Qden (limit_den x)) <= 1000000)%Z /\
  forall (p : Z) (q : positive), (Zpos q <= 1000000)%Z ->
    Qabs (x - limit_den x) <= Qabs (x - (p # q)).
Proof.
  intros x. split; [apply limit_den_bound|apply limit_den_closest].
Qed.

(* any admissible fraction at the same distance is the result or its mirror image *)
Lemma Qabs_eq_cases : forall a b : Q, Qabs a == Qabs b -> a == b \/ a == - b.
Proof.
  intros a b. apply (Qabs_case a); apply (Qabs_case b); intros Hb Ha H.
  - left. exact H.
  - right. exact H.
  - right. rewrite <- H. ring.
  - left. rewrite <- (Qopp_involutive a), H. apply Qopp_involutive.
Qed.

(* elementary, but it says what a tie looks like: the only other fraction that can be as close
   as the result is its mirror image about the argument *)
Theorem limit_den_tie_cases : forall (x : Q) (p : Z) (q : positive),
  Qabs (x - (p # q)) == Qabs (x - limit_den x) ->
  (p # q) == limit_den x \/ (p # q) == 2 * x - limit_den x.
Proof.
  intros x p q H. remember (limit_den x) as r eqn:Er. clear Er.
  destruct (Qabs_eq_cases _ _ H) as [E|E]; [left|right]; lra.
Qed.

(* a float weight / score *)
Theorem conv_weight_float_closest : forall (v : Q) (p : Z) (q : positive),
  (Zpos q <= 1000000)%Z ->
  Qabs (v - conv_weight (PFloat v)) <= Qabs (v - (p # q)).
Proof.
  intros v p q Hq. cbn [conv_weight pynum_val]. apply limit_den_closest. exact Hq.
Qed.

(* every numeric argument (int, Fraction, float): the stored weight is a closest admissible
   fraction to the value written by the caller, when that value went through limit_denominator *)
Theorem conv_weight_closest : forall (w : pynum) (p : Z) (q : positive),
  (Zpos q <= 1000000)%Z ->
  Qabs (pynum_val w - conv_weight w) <= Qabs (pynum_val w - (p # q)).
Proof.
  intros [z|f|f] p q Hq; cbn [conv_weight pynum_val].
  - apply limit_den_closest. exact Hq.
  - assert (E : f - f == 0) by ring. rewrite E. apply Qabs_nonneg.
  - apply limit_den_closest. exact Hq.
Qed.

Section Scores.
Variable cand : Type.

Theorem conv_scores_closest : forall (d : list (cand * pynum)) (c : cand) (s : Q),
  In (c, s) (conv_scores cand d) ->
  exists x : pynum, In (c, x) d /\ s = limit_den (pynum_val x) /\
    (Zpos (Qden s) <= 1000000)%Z /\
    forall (p : Z) (q : positive), (Zpos q <= 1000000)%Z ->
      Qabs (pynum_val x - s) <= Qabs (pynum_val x - (p # q)).
Proof.
  intros d c s Hin. apply conv_scores_in in Hin. destruct Hin as [x [Hx [Es _]]].
  exists x. split; [exact Hx|]. split; [exact Es|]. subst s.
  split; [apply limit_den_bound|]. intros p q Hq. apply limit_den_closest. exact Hq.
Qed.

End Scores.
