(* Proofs/C13_pairwise.v — C13, TopTwo clause: the first-place tallies of the profile from which
   everybody but two candidates a, b has been removed are the head-to-head weights of a and b on the
   ORIGINAL ballots; hence TopTwo's winner is the pairwise (C06 [pref_weight] / [margin]) winner
   between the two finalists.

   "a over b, first-preference": the summed weight of the ballots that list a and do not list b
   earlier ([before a b]); ballots listing neither count for nobody.  C06's [pref_weight] adds half
   of the weight of the ballots listing neither to BOTH directions, so margins and comparisons
   coincide. *)
From VK Require Import Base Core STV Pairwise Rules PV Election.
From VK.Spec Require Import EditSpec ScoreSpec TopMSpec PairwiseSpec.
From VK.Proofs Require Import Lib_sets Lib_rk Lib_condense Lib_condense12 C12_edit C04_scoring Elect
  C20_validation C05_rating STV_wsum C13_composite.
From Coq Require Import Permutation Lia Lqa Setoid Morphisms.

Section WithCand.
Variable cand : Type.
Variable ceqb : cand -> cand -> bool.
Hypothesis ceqb_spec : forall a b, reflect (a = b) (ceqb a b).

Notation cset := (cset cand).
Notation ranking := (ranking cand).
Notation ballot := (ballot cand).
Notation profile := (profile cand).
Notation scores := (scores cand).
Notation estate := (estate cand).
Notation mstate := (mstate cand).
Notation memb := (memb cand ceqb).
Notation cset_eqb := (cset_eqb cand ceqb).
Notation ranking_eqb := (ranking_eqb cand ceqb).
Notation flat := (flat cand).
Notation strip := (strip cand ceqb).
Notation strip_scores := (strip_scores cand ceqb).
Notation scrub := (scrub cand ceqb).
Notation pos_wt := (pos_wt cand).
Notation set_diff := (set_diff cand ceqb).
Notation condense_bs := (condense_bs cand ceqb).
Notation remove_cand_bs := (remove_cand_bs cand ceqb).
Notation remove_cand_prof := (remove_cand_prof cand ceqb).
Notation first_place_votes := (first_place_votes cand ceqb).
Notation all_pos := (all_pos cand).
Notation listing := (listing cand).
Notation before := (before cand ceqb).
Notation pref_share := (pref_share cand ceqb).
Notation pref_weight := (pref_weight cand ceqb).
Notation margin := (margin cand ceqb).
Notation untied_ballot := (untied_ballot cand).
Notation untied_profile := (untied_profile cand).
Notation wsumr := (wsumr cand).
Notation cls := (cls cand ceqb).
Notation after := (after cand ceqb).

Let memb_In := Lib_rk.memb_In cand ceqb ceqb_spec.
Let memb_false_iff := Lib_rk.memb_false_iff cand ceqb ceqb_spec.
Let ceqb_true_iff := Lib_rk.ceqb_true_iff cand ceqb ceqb_spec.

(* ====================== 1. the first-preference head-to-head weight ====================== *)

(* written out, so that Properties/C13_pairwise.v can name them *)
Definition fshare (a b : cand) (x : ballot) : Q := if before a b (listing x) then wt x else 0.
Definition fweight (bs : list ballot) (a b : cand) : Q := qsum (map (fshare a b) bs).
Definition nshare (a b : cand) (x : ballot) : Q :=
  if memb a (listing x) || memb b (listing x) then 0 else wt x.
Definition nweight (bs : list ballot) (a b : cand) : Q := qsum (map (nshare a b) bs).

Lemma before_memb : forall a b l, before a b l = true -> memb a l = true.
Proof.
  intros a b l. induction l as [|x l IH]; cbn [PairwiseSpec.before]; [discriminate|].
  unfold Core.memb. cbn [existsb]. destruct (ceqb a x); [reflexivity|].
  destruct (ceqb b x); [discriminate|]. exact IH.
Qed.

Lemma pref_share_split : forall a b x, pref_share a b x == fshare a b x + nshare a b x / 2.
Proof.
  intros a b x. unfold PairwiseSpec.pref_share, fshare, nshare.
  destruct (before a b (listing x)) eqn:Eb.
  - rewrite (before_memb a b _ Eb). cbn [orb]. field.
  - destruct (memb a (listing x)); cbn [orb]; [field|].
    destruct (memb b (listing x)); field.
Qed.

Lemma pref_weight_split : forall bs a b,
  pref_weight bs a b == fweight bs a b + nweight bs a b / 2.
Proof.
  intros bs a b. unfold PairwiseSpec.pref_weight, fweight, nweight.
  induction bs as [|x bs IH]; [cbn; field|].
  cbn [map]. rewrite !Lib_sets.qsum_cons, IH, pref_share_split. field.
Qed.

Lemma nweight_sym : forall bs a b, nweight bs a b == nweight bs b a.
Proof.
  intros bs a b. unfold nweight. apply Lib_sets.qsum_map_ext_in. intros x _. unfold nshare.
  rewrite orb_comm. reflexivity.
Qed.

Lemma margin_fweight : forall bs a b, margin bs a b == fweight bs a b - fweight bs b a.
Proof.
  intros bs a b. unfold PairwiseSpec.margin. rewrite !pref_weight_split, (nweight_sym bs b a). ring.
Qed.

Lemma pref_lt_iff : forall bs a b,
  pref_weight bs b a < pref_weight bs a b <-> fweight bs b a < fweight bs a b.
Proof.
  intros bs a b. rewrite !pref_weight_split, (nweight_sym bs b a). split; intros H; lra.
Qed.

Lemma pref_le_iff : forall bs a b,
  pref_weight bs b a <= pref_weight bs a b <-> fweight bs b a <= fweight bs a b.
Proof.
  intros bs a b. rewrite !pref_weight_split, (nweight_sym bs b a). split; intros H; lra.
Qed.

Lemma pref_eq_iff : forall bs a b,
  pref_weight bs a b == pref_weight bs b a <-> fweight bs a b == fweight bs b a.
Proof.
  intros bs a b. rewrite !pref_weight_split, (nweight_sym bs b a). split; intros H; lra.
Qed.

Theorem c13_first_weight_proof : forall (bs : list ballot) a b,
  pref_weight bs a b == fweight bs a b + nweight bs a b / 2 /\
  nweight bs a b == nweight bs b a /\
  margin bs a b == fweight bs a b - fweight bs b a /\
  (pref_weight bs b a < pref_weight bs a b <-> fweight bs b a < fweight bs a b) /\
  (pref_weight bs a b == pref_weight bs b a <-> fweight bs a b == fweight bs b a).
Proof.
  intros bs a b. split; [apply pref_weight_split|]. split; [apply nweight_sym|].
  split; [apply margin_fweight|]. split; [apply pref_lt_iff|apply pref_eq_iff].
Qed.

(* ====================== 2. "led by a" as a class function of rankings ====================== *)

Definition lead (a : cand) (r : ranking) : Q :=
  match r with [] => 0 | s :: _ => if cset_eqb s [a] then 1 else 0 end.

Lemma lead_cls : forall a, cls (lead a).
Proof.
  intros a r1 r2 H. destruct r1 as [|s1 r1], r2 as [|s2 r2]; try discriminate; [reflexivity|].
  cbn [Core.ranking_eqb] in H. apply andb_true_iff in H. destruct H as [Hs _]. unfold lead.
  destruct (cset_eqb s1 [a]) eqn:E1, (cset_eqb s2 [a]) eqn:E2; try reflexivity; exfalso.
  - rewrite (Lib_sets.cset_eqb_sym cand ceqb) in Hs.
    rewrite (Lib_sets.cset_eqb_trans cand ceqb ceqb_spec _ _ _ Hs E1) in E2. discriminate.
  - rewrite (Lib_sets.cset_eqb_trans cand ceqb ceqb_spec _ _ _ Hs E2) in E1. discriminate.
Qed.

Lemma lead_single : forall a h r, lead a ([h] :: r) = if ceqb a h then 1 else 0.
Proof.
  intros a h r. unfold lead, Core.cset_eqb, Core.subsetb, Core.memb. cbn [forallb existsb].
  rewrite !orb_false_r, !andb_true_r.
  destruct (ceqb_spec a h) as [->|Hne].
  - destruct (ceqb_spec h h) as [_|H]; [reflexivity|contradiction H; reflexivity].
  - destruct (ceqb_spec h a) as [->|_]; [contradiction Hne; reflexivity|reflexivity].
Qed.

(* ====================== 3. weighted sums through remove_cand, scores allowed ====================== *)

Lemma wsumr_kept_scrub_gen : forall W phi (bs : list ballot), all_pos bs -> phi [] == 0 ->
  wsumr phi (filter pos_wt (map (scrub W) bs)) == wsumr (after W phi) bs.
Proof.
  intros W phi bs Hpos H0. unfold EditSpec.all_pos in Hpos.
  induction bs as [|b bs IH]; [reflexivity|].
  inversion Hpos as [|x l Hp Hpos']; subst.
  cbn [map filter]. rewrite (wsumr_cons cand). unfold STV_wsum.after at 1.
  unfold Core.scrub at 1 2.
  destruct (strip W (rk b)) as [|g r] eqn:Er.
  - cbn [nonempty]. destruct (strip_scores W (sc b)) as [|e d].
    + unfold Core.pos_wt at 1. cbn [wt]. rewrite Qlt_bool_0_0. rewrite (IH Hpos'). ring.
    + unfold Core.pos_wt at 1. cbn [wt]. rewrite (proj2 (Lib_rk.Qlt_bool_iff 0 (wt b)) Hp).
      rewrite (wsumr_cons cand). cbn [rk wt]. rewrite (IH Hpos'), H0. ring.
  - cbn [nonempty]. unfold Core.pos_wt at 1. cbn [wt].
    rewrite (proj2 (Lib_rk.Qlt_bool_iff 0 (wt b)) Hp).
    rewrite (wsumr_cons cand). cbn [rk wt]. rewrite (IH Hpos'). reflexivity.
Qed.

Lemma wsumr_remove_gen : forall W phi (bs : list ballot), all_pos bs -> cls phi -> phi [] == 0 ->
  wsumr phi (remove_cand_bs W true false bs) == wsumr (after W phi) bs.
Proof.
  intros W phi bs Hpos Hc H0. rewrite (remove_cand_bs_unfold cand ceqb). cbn [kept_of].
  rewrite (wsumr_condense cand ceqb phi _ Hc). apply wsumr_kept_scrub_gen; assumption.
Qed.

(* ====================== 4. an untied ranking after everybody but a, b is struck out ====================== *)

Lemma after_lead_before : forall (W cs : cset) a b (r : ranking),
  a <> b ->
  (forall c, In c cs -> (In c W <-> c <> a /\ c <> b)) ->
  In a cs -> In b cs ->
  Forall (fun g : cset => length g = 1%nat) r -> incl (flat r) cs ->
  after W (lead a) r = if before a b (flat r) then 1 else 0.
Proof.
  intros W cs a b r Hab HW Ha Hb Hs. induction Hs as [|g r Hg _ IH]; intros Hin.
  - reflexivity.
  - destruct g as [|h [|h' g]]; try discriminate.
    assert (Hh : In h cs) by (apply Hin; left; reflexivity).
    assert (Hin' : incl (flat r) cs).
    { intros c Hc. apply Hin. rewrite (Lib_sets.flat_cons cand). right. exact Hc. }
    specialize (IH Hin'). unfold STV_wsum.after, Core.strip in *.
    cbn [map filter]. unfold Core.flat in *. cbn [concat app PairwiseSpec.before].
    destruct (memb h W) eqn:Em; cbn [negb nonempty filter].
    + apply memb_In in Em. apply (HW h Hh) in Em. destruct Em as [Hna Hnb].
      destruct (ceqb_spec a h) as [->|_]; [contradiction Hna; reflexivity|].
      destruct (ceqb_spec b h) as [->|_]; [contradiction Hnb; reflexivity|]. exact IH.
    + rewrite lead_single.
      destruct (ceqb_spec a h) as [->|Hne]; [reflexivity|].
      destruct (ceqb_spec b h) as [->|Hne']; [reflexivity|].
      exfalso. apply memb_false_iff in Em. apply Em. apply (HW h Hh). split; congruence.
Qed.

(* ====================== 5. the reduced profile ====================== *)

Record reduced_ok (p p1 : profile) (W : cset) (a b : cand) : Prop := {
  ro_ballots : ballots p1 = remove_cand_bs W true false (ballots p);
  ro_nodup : NoDup (cands p1);
  ro_cands : forall c, In c (cands p1) <-> c = a \/ c = b;
  ro_mem : forall c, In c (cands p1) <-> In c (cands p) /\ ~ In c W;
  ro_perm : Permutation (cands p1) [a; b];
  ro_src : forall k, In k (ballots p1) -> exists x, In x (ballots p) /\ rk k = strip W (rk x)
}.

Lemma reduced_facts : forall (p p1 : profile) (W : cset) a b,
  NoDup (cands p) -> In a (cands p) -> In b (cands p) -> a <> b ->
  (forall c, In c (cands p) -> (In c W <-> c <> a /\ c <> b)) ->
  remove_cand_prof W true false p = inl p1 ->
  reduced_ok p p1 W a b.
Proof.
  intros p p1 W a b Hnd Ha Hb Hab HW Hrm.
  destruct (remove_prof_cands cand ceqb ceqb_spec W true false p Hnd) as [p' [Hp' [Hbs [Hc _]]]].
  rewrite Hrm in Hp'. inversion Hp'; subst p'. clear Hp'.
  assert (HnW : forall c, In c (cands p) -> (~ In c W <-> c = a \/ c = b)).
  { intros c Hc0. rewrite (HW c Hc0). split.
    - intros Hn. destruct (ceqb_spec c a) as [->|Hna]; [left; reflexivity|].
      destruct (ceqb_spec c b) as [->|Hnb]; [right; reflexivity|]. exfalso. apply Hn. split; assumption.
    - intros [-> | ->] [H1 H2]; congruence. }
  assert (Hdiff : set_diff (cands p) W <> []).
  { intros E. assert (Hin : In a (set_diff (cands p) W)).
    { apply (Lib_rk.set_diff_In cand ceqb ceqb_spec). split; [exact Ha|]. apply (HnW a Ha). left. reflexivity. }
    rewrite E in Hin. destruct Hin. }
  destruct (Hc Hdiff) as [Hcands [Hnd1 Hmem]].
  assert (Hiff : forall c, In c (cands p1) <-> c = a \/ c = b).
  { intros c. rewrite Hmem. split.
    - intros [Hc0 Hn]. apply (HnW c Hc0). exact Hn.
    - intros [-> | ->]; (split; [assumption|]); [apply (HnW a Ha)|apply (HnW b Hb)]; tauto. }
  constructor.
  - exact Hbs.
  - exact Hnd1.
  - exact Hiff.
  - exact Hmem.
  - apply NoDup_Permutation; [exact Hnd1| |].
    + constructor; [intros [E|[]]; congruence|]. constructor; [intros []|constructor].
    + intros c. rewrite Hiff. cbn [In]. intuition congruence.
  - intros k Hk. rewrite Hbs in Hk.
    destruct (remove_no_removed cand ceqb ceqb_spec W true false (ballots p) k Hk) as [_ Hsrc]. exact Hsrc.
Qed.

Lemma untied_all_pos : forall p : profile, untied_profile p -> all_pos (ballots p).
Proof.
  intros p (_ & _ & Hu). unfold EditSpec.all_pos. rewrite Forall_forall in *. intros x Hx.
  apply (Hu x Hx).
Qed.

(* the tallies of the reduced profile, as weighted sums of [lead] *)
Lemma reduced_tally : forall (p p1 : profile) (W : cset) a b d,
  untied_profile p -> reduced_ok p p1 W a b ->
  first_place_votes p1 = inl d ->
  map fst d = cands p1 /\
  forall c q, In (c, q) d -> q == wsumr (lead c) (ballots p1).
Proof.
  intros p p1 W a b d Hu Hro Hd. destruct Hu as (Hnd & _ & Hu). rewrite Forall_forall in Hu.
  assert (Hne : forall k, In k (ballots p1) -> rk k <> []).
  { apply (ranking_validate_iff cand p1). apply (fpv_ranking_validate cand ceqb p1 d Hd). }
  assert (Hsing : forall k, In k (ballots p1) -> Forall (fun g : cset => length g = 1%nat) (rk k)).
  { intros k Hk. destruct (ro_src _ _ _ _ _ Hro k Hk) as (x & Hx & ->).
    apply (strip_single cand ceqb). apply (Hu x Hx). }
  assert (Hwf : wf_profile cand p1).
  { split; [apply (ro_nodup _ _ _ _ _ Hro)|]. apply Forall_forall. intros k Hk.
    pose proof (Hsing k Hk) as Hs. pose proof (Hne k Hk) as Hn.
    destruct (ro_src _ _ _ _ _ Hro k Hk) as (x & Hx & Hr).
    destruct (Hu x Hx) as (_ & _ & Hndx & Hinx & _ & _). unfold PairwiseSpec.listing in *.
    split; [exact Hn|]. split; [|split].
    - rewrite Forall_forall in *. intros g Hg E. specialize (Hs g Hg). rewrite E in Hs. discriminate.
    - rewrite Hr. apply (strip_NoDup cand ceqb). exact Hndx.
    - rewrite Hr. intros c Hc. apply (strip_keeps cand ceqb ceqb_spec) in Hc. destruct Hc as [Hc Hn'].
      apply (ro_mem _ _ _ _ _ Hro). split; [apply Hinx; exact Hc|exact Hn']. }
  split; [unfold Core.first_place_votes in Hd; eapply score_rankings_keys; exact Hd|].
  intros c q Hin.
  rewrite (first_place_votes_special cand ceqb ceqb_spec p1 d Hwf Hd c q Hin).
  unfold STV_wsum.wsumr. apply Lib_sets.qsum_map_ext_in. intros k Hk.
  pose proof (Hsing k Hk) as Hs. destruct (rk k) as [|g r]; [cbn; ring|].
  inversion Hs as [|x l Hg _]; subst. destruct g as [|h [|h' g]]; try discriminate.
  rewrite lead_single. cbn [hd length]. unfold Core.memb. cbn [existsb]. rewrite orb_false_r.
  destruct (ceqb c h); [|ring]. unfold Qnat. cbn. field.
Qed.

(* ====================== 6. the key lemma ====================== *)

Lemma after_lead_sum : forall (W cs : cset) a b (bs : list ballot),
  a <> b -> (forall c, In c cs -> (In c W <-> c <> a /\ c <> b)) -> In a cs -> In b cs ->
  Forall (untied_ballot cs) bs ->
  wsumr (after W (lead a)) bs == fweight bs a b.
Proof.
  intros W cs a b bs Hab HW Ha Hb Hu. unfold STV_wsum.wsumr, fweight.
  apply Lib_sets.qsum_map_ext_in. intros x Hx. rewrite Forall_forall in Hu.
  destruct (Hu x Hx) as (_ & Hs & _ & Hin & _ & _). unfold PairwiseSpec.listing in Hin.
  rewrite (after_lead_before W cs a b (rk x) Hab HW Ha Hb Hs Hin).
  unfold fshare, PairwiseSpec.listing. destruct (before a b (flat (rk x))); ring.
Qed.

Lemma two_keys : forall (d : scores) a b, Permutation (map fst d) [a; b] ->
  exists qa qb, Permutation d [(a, qa); (b, qb)].
Proof.
  intros d a b H. apply Permutation_sym in H. apply Permutation_length_2_inv in H.
  destruct d as [|[c1 q1] [|[c2 q2] [|e d]]]; cbn [map fst] in H;
    try (destruct H as [H|H]; discriminate H).
  destruct H as [H|H]; inversion H; subst.
  - exists q1, q2. apply Permutation_refl.
  - exists q2, q1. apply perm_swap.
Qed.

Theorem c13_reduced_tally_proof : forall (p p1 : profile) (W : cset) a b d,
  untied_profile p -> In a (cands p) -> In b (cands p) -> a <> b ->
  (forall c, In c (cands p) -> (In c W <-> c <> a /\ c <> b)) ->
  remove_cand_prof W true false p = inl p1 -> first_place_votes p1 = inl d ->
  Permutation (cands p1) [a; b] /\
  exists qa qb, Permutation d [(a, qa); (b, qb)] /\
    qa == fweight (ballots p) a b /\ qb == fweight (ballots p) b a /\
    qa - qb == margin (ballots p) a b /\
    pref_weight (ballots p) a b == qa + nweight (ballots p) a b / 2 /\
    pref_weight (ballots p) b a == qb + nweight (ballots p) a b / 2.
Proof.
  intros p p1 W a b d Hu Ha Hb Hab HW Hrm Hd.
  pose proof Hu as (Hnd & _ & Hub).
  pose proof (reduced_facts p p1 W a b Hnd Ha Hb Hab HW Hrm) as Hro.
  destruct (reduced_tally p p1 W a b d Hu Hro Hd) as [Hkeys Htal].
  split; [apply (ro_perm _ _ _ _ _ Hro)|].
  destruct (two_keys d a b) as (qa & qb & Hperm); [rewrite Hkeys; apply (ro_perm _ _ _ _ _ Hro)|].
  exists qa, qb. split; [exact Hperm|].
  assert (Hina : In (a, qa) d) by (apply (Permutation_in _ (Permutation_sym Hperm)); left; reflexivity).
  assert (Hinb : In (b, qb) d).
  { apply (Permutation_in _ (Permutation_sym Hperm)); right; left; reflexivity. }
  assert (HW' : forall c, In c (cands p) -> (In c W <-> c <> b /\ c <> a)).
  { intros c Hc. rewrite (HW c Hc). tauto. }
  assert (Ea : qa == fweight (ballots p) a b).
  { rewrite (Htal a qa Hina), (ro_ballots _ _ _ _ _ Hro).
    rewrite (wsumr_remove_gen W (lead a) (ballots p) (untied_all_pos p Hu) (lead_cls a)); [|reflexivity].
    apply (after_lead_sum W (cands p) a b (ballots p) Hab HW Ha Hb Hub). }
  assert (Eb : qb == fweight (ballots p) b a).
  { rewrite (Htal b qb Hinb), (ro_ballots _ _ _ _ _ Hro).
    rewrite (wsumr_remove_gen W (lead b) (ballots p) (untied_all_pos p Hu) (lead_cls b)); [|reflexivity].
    apply (after_lead_sum W (cands p) b a (ballots p) (not_eq_sym Hab) HW' Hb Ha Hub). }
  split; [exact Ea|]. split; [exact Eb|]. split; [rewrite margin_fweight, Ea, Eb; reflexivity|].
  split; [rewrite pref_weight_split, Ea; reflexivity|].
  rewrite pref_weight_split, Eb, (nweight_sym (ballots p) b a). reflexivity.
Qed.

(* ====================== 7. the second Plurality, on two candidates ====================== *)

Notation run_plurality := (run_plurality cand ceqb).
Notation run_toptwo := (run_toptwo cand ceqb).
Notation plurality_stage := (plurality_stage cand ceqb).
Notation ranking_validate := (ranking_validate cand).
Notation round0 := (round0 cand ceqb).

Lemma in_two : forall (d : scores) a b qa qb c q, a <> b ->
  Permutation d [(a, qa); (b, qb)] -> In (c, q) d ->
  (c = a /\ q = qa) \/ (c = b /\ q = qb).
Proof.
  intros d a b qa qb c q Hab Hp Hin. apply (Permutation_in _ Hp) in Hin.
  destruct Hin as [E|[E|[]]]; inversion E; subst; [left|right]; split; reflexivity.
Qed.

Lemma round2_outcome : forall tb (p1 : profile) sa sb q0 q1 a b qa qb d,
  NoDup (cands p1) -> Permutation (cands p1) [a; b] -> a <> b ->
  run_plurality 1 tb p1 sa = inl ([q0; q1], sb) ->
  first_place_votes p1 = inl d -> Permutation d [(a, qa); (b, qb)] ->
  exists w l qw ql,
    flat (elected q1) = [w] /\ flat (remaining q1) = [l] /\
    ((w = a /\ l = b /\ qw = qa /\ ql = qb) \/ (w = b /\ l = a /\ qw = qb /\ ql = qa)) /\
    ql <= qw /\
    (tiebreaks q1 = [] -> elected q1 = [[w]] /\ remaining q1 = [[l]] /\ ql < qw) /\
    (tiebreaks q1 <> [] -> qw == ql).
Proof.
  intros tb p1 sa sb q0 q1 a b qa qb d0 Hnd Hpab Hab H4 Hd0 Hpd.
  rewrite (run_plurality_prologue cand ceqb) in H4.
  destruct (ranking_validate p1) as [[]|e]; [|discriminate].
  destruct (one_shot_spec cand ceqb ceqb_spec _ _ _ _ _ _ _ Hnd H4)
    as [d [el2 [rem2 [t2 [np2 [d2 [Hd [Hkeys [Hne [Hel2 [_ [_ [Hq [_ Hfacts2]]]]]]]]]]]]]].
  inversion Hq; subst q0 q1. clear Hq. cbn [Rules.score_fn] in Hd.
  assert (d = d0) by congruence. subst d0.
  cbn [elected remaining tiebreaks].
  destruct Hfacts2 as [G1 [G2 [G3 [G4 [_ [_ [G7 _]]]]]]].
  assert (Hndd : NoDup (map fst d)) by (rewrite Hkeys; exact Hnd).
  assert (Hd2 : length d = 2%nat).
  { rewrite <- (map_length fst d), Hkeys, (Permutation_length Hpab). reflexivity. }
  assert (Hl1 : length (flat el2) = 1%nat) by lia.
  assert (Hl2 : length (flat rem2) = 1%nat).
  { pose proof (Permutation_length G2) as Hpl. rewrite app_length, map_length in Hpl. lia. }
  destruct (flat el2) as [|w [|w' fe]] eqn:Efe; try discriminate.
  destruct (flat rem2) as [|l [|l' fr]] eqn:Efr; try discriminate.
  cbn [app] in G2.
  assert (Hwl : Permutation [w; l] [a; b]).
  { eapply Permutation_trans; [exact G2|]. rewrite Hkeys. exact Hpab. }
  assert (Hina : In (a, qa) d) by (apply (Permutation_in _ (Permutation_sym Hpd)); left; reflexivity).
  assert (Hinb : In (b, qb) d).
  { apply (Permutation_in _ (Permutation_sym Hpd)); right; left; reflexivity. }
  assert (Hcase : exists qw ql, In (w, qw) d /\ In (l, ql) d /\
            ((w = a /\ l = b /\ qw = qa /\ ql = qb) \/ (w = b /\ l = a /\ qw = qb /\ ql = qa))).
  { apply Permutation_sym in Hwl. apply Permutation_length_2_inv in Hwl.
    destruct Hwl as [E|E]; inversion E; subst.
    - exists qa, qb. split; [exact Hina|]. split; [exact Hinb|]. left. repeat split.
    - exists qb, qa. split; [exact Hinb|]. split; [exact Hina|]. right. repeat split. }
  destruct Hcase as (qw & ql & Hw & Hl & Hcase).
  exists w, l, qw, ql. split; [reflexivity|]. split; [reflexivity|]. split; [exact Hcase|].
  assert (Hle : ql <= qw).
  { apply (G3 w l qw ql); [left; reflexivity|left; reflexivity|exact Hw|exact Hl]. }
  split; [exact Hle|]. split.
  - intros Htb. assert (Ht2 : t2 = None) by (destruct t2; [discriminate|reflexivity]).
    specialize (G7 Ht2).
    assert (Hgroups : Forall (fun g => g <> []) (el2 ++ rem2)).
    { rewrite G7. apply Forall_forall. intros g Hg.
      eapply score_to_ranking_nonempty_groups; eassumption. }
    apply Forall_app in Hgroups. destruct Hgroups as [Hg1 Hg2].
    assert (Hl1' : length (flat el2) = 1%nat) by (rewrite Efe; reflexivity).
    assert (Hl2' : length (flat rem2) = 1%nat) by (rewrite Efr; reflexivity).
    destruct (one_group cand el2 Hg1 Hl1') as [w0 Ew]. destruct (one_group cand rem2 Hg2 Hl2') as [l0 El].
    subst el2 rem2. cbn in Efe, Efr. inversion Efe; inversion Efr; subst w0 l0.
    split; [reflexivity|]. split; [reflexivity|].
    destruct (G4 [] [w] [] [l] [] w l qw ql eq_refl (or_introl eq_refl) (or_introl eq_refl) Hw Hl)
      as [Hlt|[_ [g [t' [Ht' _]]]]]; [exact Hlt|]. rewrite Ht2 in Ht'. discriminate.
  - intros Htb. destruct t2 as [[g t]|]; [|contradiction Htb; reflexivity].
    apply (elect_top_m_shape cand ceqb) in Hel2. destruct Hel2 as [_ [[E _]|Hsh]]; [discriminate|].
    destruct Hsh as (pre & g' & post & t' & kind & k & _ & Hr & _ & Hk0 & Hkg & _ & _ & _ & Etb).
    inversion Etb; subst g' t'. clear Etb.
    pose proof (score_to_ranking_NoDup cand d Hne Hndd) as Hndr.
    pose proof (score_to_ranking_flat_perm cand d Hne) as Hfp.
    rewrite Hr, (Lib_sets.flat_app cand), (Lib_sets.flat_cons cand) in Hndr, Hfp.
    apply NoDup_app_inv in Hndr. destruct Hndr as [_ [Hndr _]].
    apply NoDup_app_inv in Hndr. destruct Hndr as [Hndg _].
    assert (Hgin : forall c, In c g -> c = a \/ c = b).
    { intros c Hc.
      assert (Hc' : In c (map fst d)).
      { apply (Permutation_in _ Hfp). apply in_or_app. right. apply in_or_app. left. exact Hc. }
      rewrite Hkeys in Hc'. apply (Permutation_in _ Hpab) in Hc'.
      destruct Hc' as [<-|[<-|[]]]; [left|right]; reflexivity. }
    assert (Hag : In a g /\ In b g).
    { destruct g as [|x [|y g0]]; cbn [length] in Hkg; try lia.
      inversion Hndg as [|x0 l0 Hnx Hnd']; subst.
      assert (Hxy : x <> y) by (intros ->; apply Hnx; left; reflexivity).
      destruct (Hgin x (or_introl eq_refl)) as [Ex|Ex];
      destruct (Hgin y (or_intror (or_introl eq_refl))) as [Ey|Ey]; subst; try congruence.
      - split; [left; reflexivity|right; left; reflexivity].
      - split; [right; left; reflexivity|left; reflexivity]. }
    assert (Hgr : In g (score_to_ranking cand d true)).
    { rewrite Hr. apply in_or_app. right. left. reflexivity. }
    assert (Heq : qa == qb).
    { apply (proj1 (score_to_ranking_same_group_iff cand d a b qa qb Hne Hndd Hina Hinb)).
      exists g. split; [exact Hgr|exact Hag]. }
    destruct Hcase as [(_ & _ & -> & ->)|(_ & _ & -> & ->)]; [exact Heq|symmetry; exact Heq].
Qed.

(* ====================== 8. TopTwo ====================== *)

Theorem c13_toptwo_pairwise_proof : forall tb (p : profile) s sts s',
  untied_profile p -> run_toptwo tb p s = inl (sts, s') ->
  exists s0 s1 s2 p1 a b qa qb,
    sts = [s0; s1; s2] /\
    Permutation (flat (remaining s1)) [a; b] /\ a <> b /\ In a (cands p) /\ In b (cands p) /\
    (forall c, In c (cands p) -> (In c (flat (eliminated s1)) <-> c <> a /\ c <> b)) /\
    remove_cand_prof (flat (eliminated s1)) true false p = inl p1 /\
    first_place_votes p1 = inl (escores s1) /\
    Permutation (escores s1) [(a, qa); (b, qb)] /\
    qa == fweight (ballots p) a b /\ qb == fweight (ballots p) b a /\
    qa - qb == margin (ballots p) a b /\
    pref_weight (ballots p) a b == qa + nweight (ballots p) a b / 2 /\
    pref_weight (ballots p) b a == qb + nweight (ballots p) a b / 2 /\
    exists w l,
      flat (elected s2) = [w] /\ flat (remaining s2) = [l] /\ Permutation [w; l] [a; b] /\
      pref_weight (ballots p) l w <= pref_weight (ballots p) w l /\
      (tiebreaks s2 = [] ->
         elected s2 = [[w]] /\ remaining s2 = [[l]] /\
         pref_weight (ballots p) l w < pref_weight (ballots p) w l /\ 0 < margin (ballots p) w l) /\
      (tiebreaks s2 <> [] ->
         pref_weight (ballots p) w l == pref_weight (ballots p) l w /\ margin (ballots p) w l == 0).
Proof.
  intros tb p s sts s' Hu H. pose proof Hu as (Hnd & _ & _).
  apply (c13_toptwo_proof cand ceqb) in H.
  destruct H as [s0 [p1 [s1 [sa [q0 [q1 [sb [x [H1 [H2 [H3 [H4 [H5 Hsts]]]]]]]]]]]]].
  destruct (plurality_stage_spec cand ceqb ceqb_spec _ _ _ _ _ _ _ _ Hnd H3)
    as [d0 [el [rem [t [r0 [r1 [Hrun [_ [_ [_ [Hd0 [Hkeys0 [Hel [Hrange [Hfacts [Hnp [Hd1 [Hr1 [Hrem1
        [Hel1 [Helim1 [Htb1 [Hperm [Hndp1 Hlen]]]]]]]]]]]]]]]]]]]]]]]].
  destruct Hfacts as [F1 [F2 _]].
  assert (Hl2 : length (flat el) = 2%nat) by lia.
  destruct (flat el) as [|a [|b [|c fe]]] eqn:Efe; try discriminate. clear Hl2.
  assert (Hndall : NoDup ([a; b] ++ flat rem)).
  { eapply Permutation_NoDup; [apply Permutation_sym; exact F2|]. rewrite Hkeys0. exact Hnd. }
  destruct (NoDup_app_inv _ _ Hndall) as [Hndab [_ Hdisj]].
  assert (Hab : a <> b).
  { inversion Hndab as [|x0 l0 Hn _]; subst. intros ->. apply Hn. left. reflexivity. }
  rewrite Hkeys0 in F2.
  assert (Ha : In a (cands p)) by (apply (Permutation_in _ F2); left; reflexivity).
  assert (Hb : In b (cands p)) by (apply (Permutation_in _ F2); right; left; reflexivity).
  assert (HW : forall c, In c (cands p) -> (In c (flat rem) <-> c <> a /\ c <> b)).
  { intros c Hc. split.
    - intros Hr. split; intros E; subst c.
      + apply (Hdisj a); [left; reflexivity|exact Hr].
      + apply (Hdisj b); [right; left; reflexivity|exact Hr].
    - intros [Hna Hnb]. apply (Permutation_in _ (Permutation_sym F2)) in Hc.
      cbn [app] in Hc. destruct Hc as [E|[E|Hc]]; [congruence|congruence|exact Hc]. }
  destruct (c13_reduced_tally_proof p p1 (flat rem) a b (escores s1) Hu Ha Hb Hab HW Hnp Hd1)
    as [Hpc (qa & qb & Hpd & Ea & Eb & Em & Epa & Epb)].
  destruct (round2_outcome tb p1 sa sb q0 q1 a b qa qb (escores s1) Hndp1 Hpc Hab H4 Hd1 Hpd)
    as (w & l & qw & ql & Few & Frl & Hcase & Hle & Hno & Htie).
  exists s0, s1. eexists. exists p1, a, b, qa, qb. split; [exact Hsts|].
  cbn [elected remaining tiebreaks]. rewrite Hrem1, Helim1, Efe.
  split; [apply Permutation_refl|]. split; [exact Hab|]. split; [exact Ha|]. split; [exact Hb|].
  split; [exact HW|]. split; [exact Hnp|]. split; [exact Hd1|]. split; [exact Hpd|].
  split; [exact Ea|]. split; [exact Eb|]. split; [exact Em|]. split; [exact Epa|]. split; [exact Epb|].
  exists w, l. split; [exact Few|]. split; [exact Frl|].
  assert (Hfw : qw == fweight (ballots p) w l /\ ql == fweight (ballots p) l w /\ Permutation [w; l] [a; b]).
  { destruct Hcase as [(-> & -> & -> & ->)|(-> & -> & -> & ->)].
    - split; [exact Ea|]. split; [exact Eb|apply Permutation_refl].
    - split; [exact Eb|]. split; [exact Ea|apply perm_swap]. }
  destruct Hfw as (Ew & El & Hpwl). split; [exact Hpwl|].
  split; [apply pref_le_iff; rewrite <- Ew, <- El; exact Hle|]. split.
  - intros Htb. destruct (Hno Htb) as (E1 & E2 & Hlt). split; [exact E1|]. split; [exact E2|].
    assert (Hf : fweight (ballots p) l w < fweight (ballots p) w l) by (rewrite <- Ew, <- El; exact Hlt).
    split; [apply pref_lt_iff; exact Hf|]. rewrite margin_fweight. lra.
  - intros Htb. pose proof (Htie Htb) as Heq.
    assert (Hf : fweight (ballots p) w l == fweight (ballots p) l w) by (rewrite <- Ew, <- El; exact Heq).
    split; [apply pref_eq_iff; exact Hf|]. rewrite margin_fweight, Hf. ring.
Qed.

(* no tiebreak rule and equal head-to-head weights of the two finalists: ValueError *)
Theorem c13_toptwo_pairwise_tie_proof : forall (p : profile) s s0 p1 s1 sa a b,
  untied_profile p ->
  ranking_validate p = inl tt -> round0 SKFpv p = inl s0 ->
  plurality_stage 2 None p s0 s = inl ((p1, s1), sa) ->
  Permutation (flat (remaining s1)) [a; b] ->
  pref_weight (ballots p) a b == pref_weight (ballots p) b a ->
  run_plurality 1 None p1 sa = inr EValue /\ run_toptwo None p s = inr EValue.
Proof.
  intros p s s0 p1 s1 sa a b Hu H1 H2 H3 Hfin Heq. pose proof Hu as (Hnd & _ & _).
  destruct (plurality_stage_spec cand ceqb ceqb_spec _ _ _ _ _ _ _ _ Hnd H3)
    as [d0 [el [rem [t [r0 [r1 [Hrun [_ [_ [_ [Hd0 [Hkeys0 [Hel [Hrange [Hfacts [Hnp [Hd1 [Hr1 [Hrem1
        [Hel1 [Helim1 [Htb1 [Hperm [Hndp1 Hlen]]]]]]]]]]]]]]]]]]]]]]]].
  destruct Hfacts as [F1 [F2 _]]. rewrite Hrem1 in Hfin.
  assert (F2' : Permutation ([a; b] ++ flat rem) (cands p)).
  { rewrite <- Hkeys0. eapply Permutation_trans; [|exact F2]. apply Permutation_app_tail.
    apply Permutation_sym. exact Hfin. }
  assert (Hndall : NoDup ([a; b] ++ flat rem)).
  { eapply Permutation_NoDup; [apply Permutation_sym; exact F2'|]. exact Hnd. }
  destruct (NoDup_app_inv _ _ Hndall) as [Hndab [_ Hdisj]].
  assert (Hab : a <> b).
  { inversion Hndab as [|x0 l0 Hn _]; subst. intros ->. apply Hn. left. reflexivity. }
  assert (Ha : In a (cands p)) by (apply (Permutation_in _ F2'); left; reflexivity).
  assert (Hb : In b (cands p)) by (apply (Permutation_in _ F2'); right; left; reflexivity).
  assert (HW : forall c, In c (cands p) -> (In c (flat rem) <-> c <> a /\ c <> b)).
  { intros c Hc. split.
    - intros Hr. split; intros E; subst c.
      + apply (Hdisj a); [left; reflexivity|exact Hr].
      + apply (Hdisj b); [right; left; reflexivity|exact Hr].
    - intros [Hna Hnb]. apply (Permutation_in _ (Permutation_sym F2')) in Hc.
      cbn [app] in Hc. destruct Hc as [E|[E|Hc]]; [congruence|congruence|exact Hc]. }
  destruct (c13_reduced_tally_proof p p1 (flat rem) a b (escores s1) Hu Ha Hb Hab HW Hnp Hd1)
    as [Hpc (qa & qb & Hpd & Ea & Eb & _)].
  apply (c13_toptwo_tie_proof cand ceqb ceqb_spec p s s0 p1 s1 sa a b qa qb Hnd H1 H2 H3 Hab).
  - apply (Permutation_in _ (Permutation_sym Hpd)). left. reflexivity.
  - apply (Permutation_in _ (Permutation_sym Hpd)). right. left. reflexivity.
  - rewrite Ea, Eb. apply pref_eq_iff. exact Heq.
Qed.

End WithCand.
