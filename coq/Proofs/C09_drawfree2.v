(* Proofs/C09_drawfree2.v — C09 with a DRAW-FREE premise for the three rules whose earlier
   theorems demanded "no tiebreak recorded": DominatingSets, TopTwo, Alaska.  A tiebreak that the
   borda / first_place scores resolve is recorded but consumes no draw; then every sub-computation
   of the run left the random source untouched, and the replay made by get_profile — which calls
   the very same sub-computations — is answered alike from every state.  All rounds are covered
   (TopTwo round 2 and the STV rounds of Alaska included, any transfer rule).
   Then: [replay_safe] without the "no tiebreak" conjuncts still makes every in-range query total,
   IndexError the only exception, and every query sequence isolated. *)
From Coq Require Import List ZArith QArith Bool Permutation Lia.
From VK Require Import Base Core STV Pairwise Rules PV Election Election2.
From VK.Spec Require Import STVSpec QuerySpec TieSpec ScoreSpec EditSpec PairwiseSpec ReplaySpec QuietSpec
  DrawFreeSpec.
From VK.Proofs Require Import Lib_sets Lib_condense Lib_condense12 C04_scoring Elect C10_script C10_quiet
  C09_queries STV_inv C20_validation C05_rating C12_edit C13_composite C06_tiers C09_replay C09_status
  C09_replay2 C09_drawfree C09_drawfree_rules C09_drawfree_seq.
Import ListNotations.

Section DrawFree2.
Variable cand : Type.
Variable ceqb : cand -> cand -> bool.
Hypothesis ceqb_spec : forall a b, reflect (a = b) (ceqb a b).

Notation cset := (cset cand).
Notation ranking := (ranking cand).
Notation ballot := (ballot cand).
Notation profile := (profile cand).
Notation scores := (scores cand).
Notation estate := (estate cand).
Notation mstate := (mstate cand).
Notation M := (M cand).
Notation flat := (flat cand).
Notation Local := (Local cand).
Notation state_of := (state_of cand ceqb).
Notation stv_trace := (stv_trace cand ceqb).
Notation stv_init := (stv_init cand).
Notation stv_replay := (stv_replay cand ceqb).
Notation run_rule := (run_rule cand ceqb).
Notation run_stv := (run_stv cand ceqb).
Notation run_plurality := (run_plurality cand ceqb).
Notation run_toptwo := (run_toptwo cand ceqb).
Notation run_alaska := (run_alaska cand ceqb).
Notation plurality_stage := (plurality_stage cand ceqb).
Notation one_shot_step := (one_shot_step cand ceqb).
Notation score_fn := (score_fn cand ceqb).
Notation first_place_votes := (first_place_votes cand ceqb).
Notation dominating_tiers := (dominating_tiers cand ceqb).
Notation score_to_ranking := (score_to_ranking cand).
Notation remove_cand_prof := (remove_cand_prof cand ceqb).
Notation remove_cand_bs := (remove_cand_bs cand ceqb).
Notation strip := (strip cand ceqb).
Notation strip_scores := (strip_scores cand ceqb).
Notation scrub := (scrub cand ceqb).
Notation set_diff := (set_diff cand ceqb).
Notation replay_step := (replay_step cand ceqb).
Notation replay_steps := (replay_steps cand ceqb).
Notation get_profile := (get_profile cand ceqb).
Notation get_step := (get_step cand ceqb).
Notation no_tiebreak := (no_tiebreak cand).
Notation untied_profile := (untied_profile cand).
Notation draw_free := (draw_free cand ceqb).
Notation draw_free_upto := (draw_free_upto cand).
Notation replay_safe := (replay_safe cand ceqb).
Notation election := (election cand).
Notation ask_all := (ask_all cand ceqb).
Notation alone := (alone cand ceqb).
Notation total_replay := (total_replay cand ceqb).

(* ------------------------------------------------------------------ *)
(** * a local computation never lengthens the script; if the length is kept, nothing happened *)

Lemma local_scr_le : forall A (x : M A), Local x -> forall s a s',
  x s = inl (a, s') -> (length (scr s') <= length (scr s))%nat.
Proof.
  intros A x HL s a s' H.
  destruct (local_prefix cand A x HL s a s' H) as [used [calls [Hu _]]].
  rewrite Hu, app_length. lia.
Qed.

Lemma local_scr_same_len : forall A (x : M A), Local x -> forall s a s',
  x s = inl (a, s') -> length (scr s') = length (scr s) -> s' = s.
Proof.
  intros A x HL s a s' H Hlen.
  destruct (local_prefix cand A x HL s a s' H) as [used [calls [Hu _]]].
  apply (local_quiet_state cand A x HL s a s' H).
  rewrite Hu in Hlen. rewrite app_length in Hlen.
  destruct used as [|d used]; [rewrite Hu; reflexivity|cbn [length] in Hlen; lia].
Qed.

Lemma get_step_of_profile : forall r (p : profile) (sts : list estate) i (pr : profile) st,
  nth_error sts (round_of (length sts) i) = Some st ->
  (forall s2 : mstate, get_profile r p sts i s2 = inl (pr, s2)) ->
  forall s2 : mstate, get_step r p sts i s2 = inl ((pr, st), s2).
Proof.
  intros r p sts i pr st Hst Hg s2. apply (get_step_ok_iff cand ceqb). split; [exact (Hg s2)|exact Hst].
Qed.

(* ------------------------------------------------------------------ *)
(** * TopTwo: all three rounds *)

Theorem toptwo_drawfree : forall tb (p : profile) (s s' : mstate) sts,
  NoDup (cands p) -> run_rule (RTopTwo tb) p s = inl (sts, s') -> lg s' = lg s ->
  s' = s /\
  exists s0 s1 s2 p1 p2,
    sts = [s0; s1; s2] /\
    remove_cand_prof (flat (eliminated s1)) true false p = inl p1 /\
    remove_cand_prof (flat (elected s2)) true false p1 = inl p2 /\
    forall i, in_range 3 i ->
      exists pr st,
        nth_error [p; p1; p2] (round_of 3 i) = Some pr /\
        nth_error sts (round_of 3 i) = Some st /\
        (forall sx : mstate, get_profile (RTopTwo tb) p sts i sx = inl (pr, sx)) /\
        (forall sx : mstate, get_step (RTopTwo tb) p sts i sx = inl ((pr, st), sx)) /\
        first_place_votes pr = inl (escores st) /\
        Permutation (cands pr) (flat (remaining st)) /\ NoDup (cands pr).
Proof.
  intros tb p s s' sts Hnd Hrun Hlg.
  pose proof (local_quiet_log cand _ _ (Local_run_rule cand ceqb _ p) s sts s' Hrun Hlg) as Es.
  subst s'. split; [reflexivity|]. cbn [Rules.run_rule] in Hrun.
  apply (c13_toptwo_proof cand ceqb) in Hrun.
  destruct Hrun as [s0 [p1 [s1 [sa [q0 [q1 [sb [x [H1 [H2 [H3 [H4 [H5 ->]]]]]]]]]]]]].
  (* every intermediate state of the random source is s *)
  pose proof (local_scr_le _ _ (Local_plurality_stage cand ceqb _ _ _ _) _ _ _ H3) as L1.
  pose proof (local_scr_le _ _ (Local_run_plurality cand ceqb _ _ _) _ _ _ H4) as L2.
  pose proof (local_scr_le _ _ (Local_one_shot_step cand ceqb _ _ _ _ _) _ _ _ H5) as L3.
  pose proof (local_scr_same_len _ _ (Local_plurality_stage cand ceqb _ _ _ _) _ _ _ H3 ltac:(lia)) as E.
  subst sa.
  pose proof (local_scr_same_len _ _ (Local_run_plurality cand ceqb _ _ _) _ _ _ H4 ltac:(lia)) as E.
  subst sb. clear L1 L2 L3.
  destruct (plurality_stage_spec cand ceqb ceqb_spec _ _ _ _ _ _ _ _ Hnd H3)
    as [d0 [el [rem [t [r0 [r1 [_ [_ [_ [_ [Hd0 [_ [_ [_ [_ [Hnp [Hd1 [Hr1 [Hrem1
        [_ [Helim1 [_ [Hperm [Hndp1 Hlen]]]]]]]]]]]]]]]]]]]]]]]].
  destruct (round0_fpv cand ceqb p s0 H2) as [Hst0 Hrnd0].
  (* the second Plurality election, on p1: a draw-free one-shot run *)
  assert (Hrun1 : run_rule (RPlurality 1 tb) p1 s = inl ([q0; q1], s)) by exact H4.
  destruct (oneshot_drawfree cand ceqb ceqb_spec (RPlurality 1 tb) p1 SKFpv 1%Z tb s s [q0; q1]
              eq_refl Hndp1 Hrun1 eq_refl) as [_ [q0' [q1' [p2 [Eq [Hnp2 [_ Hall]]]]]]].
  inversion Eq; subst q0' q1'. clear Eq.
  destruct (Hall 1%Z ltac:(unfold in_range; cbn; lia)) as [pr2 [st2 [Hpr2 [Hst2 [_ [_ [Hd2 [Hperm2 [Hnd2 _]]]]]]]]].
  change (round_of 2 1) with 1%nat in Hpr2, Hst2. cbn [nth_error] in Hpr2, Hst2.
  inversion Hpr2; subst pr2. inversion Hst2; subst st2. clear Hpr2 Hst2 Hall.
  cbn [Rules.score_fn] in Hd2.
  destruct (run_rule_one_shot_inv cand ceqb (RPlurality 1 tb) p1 SKFpv 1%Z tb s s [q0; q1] eq_refl Hrun1)
    as [q0' [p2' [q1' [Eq [_ Hstep]]]]].
  inversion Eq; subst q0' q1'. clear Eq.
  destruct (C09_queries.one_shot_step_inv cand ceqb _ _ _ _ _ _ _ _ _ Hstep)
    as [el2 [rem2 [t2 [d2 [_ [Hnp2' [_ Eq1]]]]]]].
  assert (Ep2 : p2' = p2).
  { rewrite Eq1 in Hnp2. cbn [elected] in Hnp2. rewrite Hnp2' in Hnp2. inversion Hnp2. reflexivity. }
  subst p2'. clear Hnp2' Eq1 el2 rem2 t2 d2.
  assert (Hstage : forall sx : mstate, plurality_stage 2 tb p s0 sx = inl ((p1, s1), sx)).
  { intros sx. exact (local_no_draw_state cand _ _ (Local_plurality_stage cand ceqb _ _ _ _) _ _ H3 sx). }
  assert (Hplur : forall sx : mstate, run_plurality 1 tb p1 sx = inl ([q0; q1], sx)).
  { intros sx. exact (local_no_draw_state cand _ _ (Local_run_plurality cand ceqb _ _ _) _ _ H4 sx). }
  assert (Hstep_all : forall sx : mstate, one_shot_step SKFpv 1 tb p1 q0 sx = inl ((p2, q1), sx)).
  { intros sx. exact (local_no_draw_state cand _ _ (Local_one_shot_step cand ceqb _ _ _ _ _) _ _ Hstep sx). }
  set (s2 := mkState 2 (remaining q1) (elected q1) (eliminated q1) (tiebreaks q1) (escores q1)).
  exists s0, s1, s2, p1, p2. split; [reflexivity|].
  split; [rewrite Helim1; exact Hnp|]. split; [exact Hnp2|].
  intros i Hin. destruct (norm_index_in 3 i Hin) as [En Hlt].
  assert (Hgen : forall sx : mstate, get_profile (RTopTwo tb) p [s0; s1; s2] i sx
           = replay_steps (RTopTwo tb) p p (firstn (round_of 3 i) [s0; s1; s2]) sx).
  { intros sx. apply (get_profile_generic cand ceqb); [discriminate|discriminate|exact En]. }
  destruct (round_of 3 i) as [|[|[|r]]] eqn:Er; [| | |lia].
  - exists p, s0. split; [reflexivity|]. split; [reflexivity|].
    assert (Hg : forall sx : mstate, get_profile (RTopTwo tb) p [s0; s1; s2] i sx = inl (p, sx)).
    { intros sx. rewrite Hgen. reflexivity. }
    split; [exact Hg|]. split; [apply get_step_of_profile; [cbn [length]; rewrite Er; reflexivity|exact Hg]|].
    split; [exact (proj1 Hst0)|]. split; [apply (state_of_cands cand ceqb); exact Hst0|exact Hnd].
  - exists p1, s1. split; [reflexivity|]. split; [reflexivity|].
    assert (Hg : forall sx : mstate, get_profile (RTopTwo tb) p [s0; s1; s2] i sx = inl (p1, sx)).
    { intros sx. rewrite Hgen. cbn [firstn Election.replay_steps]. unfold mbind.
      rewrite (toptwo_step0 cand ceqb tb p p1 s0 s1 sx Hrnd0 (Hstage sx)). reflexivity. }
    split; [exact Hg|]. split; [apply get_step_of_profile; [cbn [length]; rewrite Er; reflexivity|exact Hg]|].
    split; [exact Hd1|]. split; [rewrite Hrem1; exact Hperm|exact Hndp1].
  - exists p2, s2. split; [reflexivity|]. split; [reflexivity|].
    assert (Hg : forall sx : mstate, get_profile (RTopTwo tb) p [s0; s1; s2] i sx = inl (p2, sx)).
    { intros sx. rewrite Hgen. cbn [firstn Election.replay_steps]. unfold mbind.
      rewrite (toptwo_step0 cand ceqb tb p p1 s0 s1 sx Hrnd0 (Hstage sx)).
      rewrite (toptwo_step1 cand ceqb tb p p1 p2 s1 q0 q1 sx ltac:(rewrite Hr1, Hrnd0; reflexivity)
                 (Hplur sx) (Hstep_all sx)).
      reflexivity. }
    split; [exact Hg|]. split; [apply get_step_of_profile; [cbn [length]; rewrite Er; reflexivity|exact Hg]|].
    unfold s2. cbn [escores remaining].
    split; [exact Hd2|]. split; [exact Hperm2|exact Hnd2].
Qed.

(* ------------------------------------------------------------------ *)
(** * Alaska: every round, any transfer rule *)

Theorem alaska_drawfree : forall m1 m2 cfg (p : profile) (s s' : mstate) sts,
  NoDup (cands p) -> run_rule (RAlaska m1 m2 cfg) p s = inl (sts, s') -> lg s' = lg s ->
  s' = s /\
  exists s0 s1 p1 ssts t ps ss,
    sts = s0 :: s1 :: map (bump cand) (tl ssts) /\
    remove_cand_prof (flat (eliminated s1)) true false p = inl p1 /\
    run_stv (with_m cfg m2) p1 s = inl (ssts, s) /\
    stv_init (with_m cfg m2) p1 = inl t /\
    stv_trace (with_m cfg m2) t p1 ssts ps ss /\ nth_error ps 0 = Some p1 /\
    forall i, in_range (length sts) i ->
      exists pr st,
        nth_error (p :: ps) (round_of (length sts) i) = Some pr /\
        nth_error sts (round_of (length sts) i) = Some st /\
        (forall sx : mstate, get_profile (RAlaska m1 m2 cfg) p sts i sx = inl (pr, sx)) /\
        (forall sx : mstate, get_step (RAlaska m1 m2 cfg) p sts i sx = inl ((pr, st), sx)) /\
        first_place_votes pr = inl (escores st) /\
        Permutation (cands pr) (flat (remaining st)).
Proof.
  intros m1 m2 cfg p s s' sts Hnd Hrun Hlg.
  pose proof (local_quiet_log cand _ _ (Local_run_rule cand ceqb _ p) s sts s' Hrun Hlg) as Es.
  subst s'. split; [reflexivity|]. cbn [Rules.run_rule] in Hrun.
  apply (c13_alaska_proof cand ceqb) in Hrun.
  destruct Hrun as [s0 [p1 [s1 [sa [t [ssts [sb [pf [_ [_ [H3 [H4 [H5 [H6 [H7 ->]]]]]]]]]]]]]]].
  pose proof (local_scr_le _ _ (Local_plurality_stage cand ceqb _ _ _ _) _ _ _ H4) as L1.
  pose proof (local_scr_le _ _ (Local_run_stv cand ceqb _ _) _ _ _ H6) as L2.
  pose proof (local_scr_le _ _ (Local_stv_replay cand ceqb _ _ _ _ _ _) _ _ _ H7) as L3.
  pose proof (local_scr_same_len _ _ (Local_plurality_stage cand ceqb _ _ _ _) _ _ _ H4 ltac:(lia)) as E.
  subst sa.
  pose proof (local_scr_same_len _ _ (Local_run_stv cand ceqb _ _) _ _ _ H6 ltac:(lia)) as E.
  subst sb. clear L1 L2 L3.
  destruct (plurality_stage_spec cand ceqb ceqb_spec _ _ _ _ _ _ _ _ Hnd H4)
    as [d0 [el [rem [tt0 [r0 [r1 [_ [_ [_ [_ [Hd0 [_ [_ [_ [_ [Hnp [Hd1 [Hr1 [Hrem1
        [_ [Helim1 [_ [Hperm [Hndp1 Hlen]]]]]]]]]]]]]]]]]]]]]]]].
  destruct (round0_fpv cand ceqb p s0 H3) as [Hst0 Hrnd0].
  destruct (C10_quiet.run_stv_inv _ _ _ _ _ _ _ H6) as [t' [q0 [newer [_ [Hq0 [Hssts _]]]]]].
  subst ssts. cbn [tl].
  destruct (stv_run_trace cand ceqb _ _ _ _ _ H6) as [t2 [ps [ss [Ht2 [Htr [Hp0 [Hs0 Hl]]]]]]].
  rewrite H5 in Ht2. inversion Ht2; subst t2. clear Ht2.
  assert (Hdf : forall r, draw_free_upto ss r).
  { apply (trace_whole_drawfree cand ceqb _ _ _ _ _ _ s Htr Hs0). rewrite Hl. reflexivity. }
  assert (Hstage : forall sx : mstate,
            plurality_stage m1 (s_tiebreak cfg) p s0 sx = inl ((p1, s1), sx)).
  { intros sx. exact (local_no_draw_state cand _ _ (Local_plurality_stage cand ceqb _ _ _ _) _ _ H4 sx). }
  assert (Hrunall : forall sx : mstate, run_stv (with_m cfg m2) p1 sx = inl (q0 :: newer, sx)).
  { intros sx. exact (local_no_draw_state cand _ _ (Local_run_stv cand ceqb _ _) _ _ H6 sx). }
  exists s0, s1, p1, (q0 :: newer), t, ps, ss. cbn [tl].
  split; [reflexivity|]. split; [rewrite Helim1; exact Hnp|]. split; [exact H6|].
  split; [exact H5|]. split; [exact Htr|]. split; [exact Hp0|].
  intros i Hin. destruct (norm_index_in _ i Hin) as [En Hlt].
  set (sts := s0 :: s1 :: map (bump cand) newer) in *.
  assert (Hlen_sts : length sts = S (S (length newer))).
  { unfold sts. cbn [length]. rewrite map_length. reflexivity. }
  assert (Hrs : forall sx : mstate,
            replay_steps (RAlaska m1 m2 cfg) p p (firstn 1 sts) sx = inl (p1, sx)).
  { intros sx. unfold sts. cbn [firstn Election.replay_steps]. unfold mbind.
    rewrite (alaska_step0 cand ceqb m1 m2 cfg p p1 s0 s1 sx (Hstage sx)). reflexivity. }
  destruct (round_of (length sts) i) as [|[|k]] eqn:Er.
  - exists p, s0. split; [reflexivity|]. split; [reflexivity|].
    assert (Hg : forall sx : mstate, get_profile (RAlaska m1 m2 cfg) p sts i sx = inl (p, sx)).
    { intros sx. unfold Election.get_profile. rewrite mbind_mlift, En. reflexivity. }
    split; [exact Hg|]. split; [apply get_step_of_profile; [rewrite Er; reflexivity|exact Hg]|].
    split; [exact (proj1 Hst0)|apply (state_of_cands cand ceqb); exact Hst0].
  - exists p1, s1. split; [exact Hp0|]. split; [reflexivity|].
    assert (Hg : forall sx : mstate, get_profile (RAlaska m1 m2 cfg) p sts i sx = inl (p1, sx)).
    { intros sx. unfold Election.get_profile. rewrite mbind_mlift, En. apply Hrs. }
    split; [exact Hg|]. split; [apply get_step_of_profile; [rewrite Er; reflexivity|exact Hg]|].
    split; [exact Hd1|rewrite Hrem1; exact Hperm].
  - assert (Hk_lt : (k < length newer)%nat) by lia.
    destruct (nth_error_ex newer k Hk_lt) as [stk Hstk].
    pose proof Htr as [Hlp _]. cbn [length] in Hlp.
    destruct (nth_error_ex ps (S k) ltac:(lia)) as [pr Hpr].
    assert (Hst : nth_error sts (S (S k)) = Some (bump cand stk)).
    { unfold sts. cbn [nth_error]. rewrite nth_error_map, Hstk. reflexivity. }
    exists pr, (bump cand stk). split; [exact Hpr|]. split; [exact Hst|].
    assert (Hg : forall sx : mstate, get_profile (RAlaska m1 m2 cfg) p sts i sx = inl (pr, sx)).
    { intros sx. unfold Election.get_profile. rewrite mbind_mlift, En.
      rewrite (mbind_ok _ _ _ _ _ (Hrs sx)). cbv zeta. rewrite mbind_mlift, H5.
      rewrite (mbind_ok _ _ _ _ _ (Hrunall sx)).
      replace (Z.of_nat (S (S k)) - 1)%Z with (Z.of_nat (S k)) by lia.
      rewrite mbind_mlift, (norm_index_nat (length (q0 :: newer)) (S k)) by (cbn [length]; lia).
      apply (replay_from_df cand ceqb (with_m cfg m2) t p1 (q0 :: newer) ps ss Htr (S k) 0%nat p1 pr Hp0 Hpr).
      intros j sa sb Hj Hsa Hsb. apply (Hdf (S k) j sa sb); [lia|exact Hsa|exact Hsb]. }
    split; [exact Hg|]. split; [apply get_step_of_profile; [rewrite Er; exact Hst|exact Hg]|].
    unfold Rules.bump. cbn [escores remaining].
    destruct (stv_trace_rescoring cand ceqb _ _ _ _ _ _ (S k) pr stk Htr Hpr Hstk) as [Hd [_ Hp]].
    split; [exact Hd|exact Hp].
Qed.

(* ------------------------------------------------------------------ *)
(** * DominatingSets (never draws): both rounds, the "everybody in the top tier" case included *)

(* removing every candidate of an untied profile leaves the empty profile *)
Lemma remove_all_untied : forall (p np : profile) (removed : cset),
  untied_profile p -> incl (cands p) removed ->
  remove_cand_prof removed true false p = inl np -> ballots np = [] /\ cands np = [].
Proof.
  intros p np removed [_ [_ Hbs]] Hincl Hnp.
  unfold Core.remove_cand_prof, Core.mk_profile in Hnp.
  rewrite (set_diff_all cand ceqb ceqb_spec _ _ Hincl) in Hnp.
  change (has_dup cand ceqb []) with false in Hnp. cbv iota in Hnp. unfold ok in Hnp.
  injection Hnp as Enp.
  assert (Hkept : filter (pos_wt cand) (map (scrub removed) (ballots p)) = []).
  { apply filter_all_false. intros b' Hb'. apply in_map_iff in Hb'. destruct Hb' as [b [<- Hb]].
    rewrite Forall_forall in Hbs. destruct (Hbs b Hb) as [_ [_ [_ [Hl [Hs _]]]]].
    unfold PairwiseSpec.listing in Hl.
    assert (E1 : strip removed (rk b) = []).
    { apply (strip_all cand ceqb ceqb_spec). intros c Hc. apply Hincl. apply Hl. exact Hc. }
    assert (E2 : strip_scores removed (sc b) = []).
    { apply (strip_scores_all cand ceqb ceqb_spec). intros c Hc. apply Hincl. apply Hs. exact Hc. }
    unfold Core.scrub. rewrite E1, E2. reflexivity. }
  unfold Core.remove_cand_bs in Enp. rewrite Hkept in Enp. rewrite <- Enp. split; reflexivity.
Qed.

Theorem dominating_drawfree : forall (p : profile) (s s' : mstate) sts,
  untied_profile p -> run_rule RDominating p s = inl (sts, s') ->
  s' = s /\
  exists s0 s1 np,
    sts = [s0; s1] /\
    remove_cand_prof (flat (elected s1)) true false p = inl np /\
    Forall no_tiebreak sts /\
    forall i, in_range 2 i ->
      exists pr st,
        nth_error [p; np] (round_of 2 i) = Some pr /\
        nth_error sts (round_of 2 i) = Some st /\
        (forall sx : mstate, get_profile RDominating p sts i sx = inl (pr, sx)) /\
        (forall sx : mstate, get_step RDominating p sts i sx = inl ((pr, st), sx)) /\
        escores st = [] /\
        Permutation (cands pr) (flat (remaining st)) /\ NoDup (cands pr) /\
        (flat (remaining st) = [] -> ballots pr = []).
Proof.
  intros p s s' sts Hdom Hrun.
  destruct (dominating_get_profile cand ceqb ceqb_spec p s s' sts Hdom Hrun)
    as [Es [s0 [s1 [top [rest [np [Hsts [Ht [Hr0 [He1 [Hr1 [Hq [Hnp Hall]]]]]]]]]]]]].
  split; [exact Es|]. subst sts.
  assert (Eflat : flat (elected s1) = top).
  { rewrite He1. unfold Core.flat. cbn [concat]. apply app_nil_r. }
  destruct (c06_tiers_partition_proof cand ceqb ceqb_spec p Hdom _ Ht) as [Hperm _].
  change (Permutation (flat (top :: rest)) (cands p)) in Hperm. rewrite (flat_cons cand) in Hperm.
  exists s0, s1, np. split; [reflexivity|]. split; [rewrite Eflat; exact Hnp|]. split; [exact Hq|].
  intros i Hin. destruct (Hall i Hin) as [pr [st [Hpr [Hst [Hg [Hd Hc]]]]]].
  exists pr, st. split; [exact Hpr|]. split; [exact Hst|]. split; [exact Hg|].
  split; [apply get_step_of_profile; [exact Hst|exact Hg]|]. split; [exact Hd|].
  assert (Hcase : flat (remaining st) = [] \/ flat (remaining st) <> []).
  { destruct (flat (remaining st)); [left; reflexivity|right; discriminate]. }
  destruct Hcase as [Erem|Hne].
  - (* nobody remains: this is round 1 and the top tier is everybody *)
    destruct (round_of 2 i) as [|[|k]]; cbn [nth_error] in Hpr, Hst.
    + exfalso. inversion Hst; subst st. rewrite Hr0 in Erem.
      unfold Core.flat in Erem. cbn [concat] in Erem. rewrite app_nil_r in Erem.
      destruct Hdom as [_ [Hne Hbs]]. destruct (ballots p) as [|b bs]; [apply Hne; reflexivity|].
      apply Forall_cons_inv in Hbs. destruct Hbs as [[Hrk [Hone [_ [Hl _]]]] _].
      unfold PairwiseSpec.listing in Hl. rewrite Erem in Hl.
      destruct (rk b) as [|g r]; [apply Hrk; reflexivity|].
      apply Forall_cons_inv in Hone. destruct Hone as [Hg1 _].
      destruct g as [|c g]; [discriminate|].
      apply (Hl c). rewrite (flat_cons cand). left. reflexivity.
    + inversion Hpr; subst pr. inversion Hst; subst st. rewrite Hr1 in Erem |- *.
      rewrite Erem, app_nil_r in Hperm. rewrite Erem.
      assert (Hincl : incl (cands p) top).
      { intros c Hcin. apply (Permutation_in _ (Permutation_sym Hperm)). exact Hcin. }
      destruct (remove_all_untied p np top Hdom Hincl Hnp) as [Hb Hcn].
      rewrite Hcn. split; [apply Permutation_refl|]. split; [constructor|]. intros _. exact Hb.
    + destruct k; discriminate.
  - destruct (Hc Hne) as [P1 P2].
    split; [exact P1|]. split; [exact P2|]. intros E. contradiction.
Qed.

(* ------------------------------------------------------------------ *)
(** * the same from "the run succeeds from an empty script" *)

Theorem toptwo_draw_free : forall tb (p : profile) sts,
  NoDup (cands p) -> draw_free (RTopTwo tb) p sts ->
  exists s0 s1 s2 p1 p2,
    sts = [s0; s1; s2] /\
    remove_cand_prof (flat (eliminated s1)) true false p = inl p1 /\
    remove_cand_prof (flat (elected s2)) true false p1 = inl p2 /\
    forall i, in_range 3 i ->
      exists pr st,
        nth_error [p; p1; p2] (round_of 3 i) = Some pr /\
        nth_error sts (round_of 3 i) = Some st /\
        (forall sx : mstate, get_profile (RTopTwo tb) p sts i sx = inl (pr, sx)) /\
        (forall sx : mstate, get_step (RTopTwo tb) p sts i sx = inl ((pr, st), sx)) /\
        first_place_votes pr = inl (escores st) /\
        Permutation (cands pr) (flat (remaining st)) /\ NoDup (cands pr).
Proof.
  intros tb p sts Hnd Hdf.
  pose proof (draw_free_all cand ceqb _ p sts Hdf (mkM [] [])) as H.
  exact (proj2 (toptwo_drawfree tb p _ _ sts Hnd H eq_refl)).
Qed.

Theorem alaska_draw_free : forall m1 m2 cfg (p : profile) sts,
  NoDup (cands p) -> draw_free (RAlaska m1 m2 cfg) p sts ->
  exists s0 s1 p1 ssts t ps ss,
    sts = s0 :: s1 :: map (bump cand) (tl ssts) /\
    remove_cand_prof (flat (eliminated s1)) true false p = inl p1 /\
    draw_free (RSTV (with_m cfg m2)) p1 ssts /\
    stv_init (with_m cfg m2) p1 = inl t /\
    stv_trace (with_m cfg m2) t p1 ssts ps ss /\ nth_error ps 0 = Some p1 /\
    forall i, in_range (length sts) i ->
      exists pr st,
        nth_error (p :: ps) (round_of (length sts) i) = Some pr /\
        nth_error sts (round_of (length sts) i) = Some st /\
        (forall sx : mstate, get_profile (RAlaska m1 m2 cfg) p sts i sx = inl (pr, sx)) /\
        (forall sx : mstate, get_step (RAlaska m1 m2 cfg) p sts i sx = inl ((pr, st), sx)) /\
        first_place_votes pr = inl (escores st) /\
        Permutation (cands pr) (flat (remaining st)).
Proof.
  intros m1 m2 cfg p sts Hnd Hdf.
  pose proof (draw_free_all cand ceqb _ p sts Hdf (mkM [] [])) as H.
  destruct (alaska_drawfree m1 m2 cfg p _ _ sts Hnd H eq_refl)
    as [_ [s0 [s1 [p1 [ssts [t [ps [ss [E1 [E2 [E3 [E4 [E5 [E6 Hall]]]]]]]]]]]]]].
  exists s0, s1, p1, ssts, t, ps, ss. split; [exact E1|]. split; [exact E2|].
  split; [exists [], (mkM [] []); exact E3|]. split; [exact E4|]. split; [exact E5|].
  split; [exact E6|exact Hall].
Qed.

(* ------------------------------------------------------------------ *)
(** * [replay_safe] without the "no tiebreak" conjuncts *)

Definition safe2 (r : rule) (p : profile) (sts : list estate) : Prop :=
  draw_free r p sts /\
  match r with
  | RSTV _ => True
  | RPlurality _ _ | RBorda _ _ _ | RRating _ _ _ _ | RLimited _ _ _ | RBloc _ _ _
  | RTopTwo _ | RAlaska _ _ _ => NoDup (cands p)
  | RDominating | RCondoBorda _ => untied_profile p
  | RRandomDictator _ | RBoosted _ => False
  end.

(* the new premise is weaker ... *)
Lemma replay_safe_safe2 : forall r (p : profile) sts, replay_safe r p sts -> safe2 r p sts.
Proof.
  intros r p sts [Hdf H]. split; [exact Hdf|].
  destruct r; try exact H; [exact (proj1 H)|exact (proj1 (proj2 H))].
Qed.

(* ... and differs only on TopTwo / Alaska *)
Lemma safe2_replay_safe_other : forall r (p : profile) sts,
  (forall tb, r <> RTopTwo tb) -> (forall m1 m2 cfg, r <> RAlaska m1 m2 cfg) ->
  safe2 r p sts -> replay_safe r p sts.
Proof.
  intros r p sts H1 H2 [Hdf H]. split; [exact Hdf|].
  destruct r; try exact H; [exfalso; exact (H1 _ eq_refl)|exfalso; exact (H2 _ _ _ eq_refl)].
Qed.

Theorem safe2_total : forall r (p : profile) sts,
  safe2 r p sts ->
  forall i, in_range (length sts) i ->
  exists pr st,
    nth_error sts (round_of (length sts) i) = Some st /\
    (forall s2 : mstate, get_profile r p sts i s2 = inl (pr, s2)) /\
    (forall s2 : mstate, get_step r p sts i s2 = inl ((pr, st), s2)).
Proof.
  intros r p sts Hsafe i Hin.
  assert (Hold : replay_safe r p sts ->
            exists pr st, nth_error sts (round_of (length sts) i) = Some st /\
              (forall s2 : mstate, get_profile r p sts i s2 = inl (pr, s2)) /\
              (forall s2 : mstate, get_step r p sts i s2 = inl ((pr, st), s2))).
  { intros H. exact (replay_safe_total cand ceqb ceqb_spec r p sts H i Hin). }
  destruct r as [cfg|m tb|m v tb|m L k tb|m k tb|m k tb| |m|tb|m1 m2 cfg|m|m];
    try (apply Hold; apply safe2_replay_safe_other; [discriminate|discriminate|exact Hsafe]).
  - destruct Hsafe as [Hdf Hnd].
    destruct (toptwo_draw_free tb p sts Hnd Hdf) as [s0 [s1 [s2 [p1 [p2 [Hsts [_ [_ Hall]]]]]]]].
    subst sts. destruct (Hall i Hin) as [pr [st [_ [Hst [Hg [Hgs _]]]]]].
    exists pr, st. split; [exact Hst|]. split; [exact Hg|exact Hgs].
  - destruct Hsafe as [Hdf Hnd].
    destruct (alaska_draw_free m1 m2 cfg p sts Hnd Hdf)
      as [s0 [s1 [p1 [ssts [t [ps [ss [_ [_ [_ [_ [_ [_ Hall]]]]]]]]]]]]].
    destruct (Hall i Hin) as [pr [st [_ [Hst [Hg [Hgs _]]]]]].
    exists pr, st. split; [exact Hst|]. split; [exact Hg|exact Hgs].
Qed.

Theorem safe2_index_error : forall r (p : profile) sts,
  safe2 r p sts ->
  forall i (s2 : mstate),
    (get_profile r p sts i s2 = inr EIndex <-> ~ in_range (length sts) i) /\
    (get_step r p sts i s2 = inr EIndex <-> ~ in_range (length sts) i) /\
    (forall e, get_profile r p sts i s2 = inr e -> e = EIndex) /\
    (forall e, get_step r p sts i s2 = inr e -> e = EIndex) /\
    (in_range (length sts) i ->
       exists pr st, get_profile r p sts i s2 = inl (pr, s2) /\
                     get_step r p sts i s2 = inl ((pr, st), s2)).
Proof.
  intros r p sts Hsafe i s2.
  assert (Htot : forall j, in_range (length sts) j -> exists pr, forall sx : mstate,
                   get_profile r p sts j sx = inl (pr, sx)).
  { intros j Hj. destruct (safe2_total r p sts Hsafe j Hj) as [pr [st [_ [Hg _]]]].
    exists pr. exact Hg. }
  pose proof (index_error_iff_of_total cand ceqb r p sts Htot i s2) as Hiff.
  split; [|split; [|split; [|split]]].
  - destruct (Hiff EIndex) as [H1 _]. rewrite H1. tauto.
  - destruct (Hiff EIndex) as [_ H2]. rewrite H2. tauto.
  - intros e H. exact (proj1 (proj1 (proj1 (Hiff e)) H)).
  - intros e H. exact (proj1 (proj1 (proj2 (Hiff e)) H)).
  - intros Hin. destruct (safe2_total r p sts Hsafe i Hin) as [pr [st [_ [Hg Hgs]]]].
    exists pr, st. split; [exact (Hg s2)|exact (Hgs s2)].
Qed.

Lemma safe2_total_replay : forall e : election,
  safe2 (e_rule cand e) (e_profile cand e) (e_states cand e) -> total_replay e.
Proof.
  intros e Hsafe i Hin.
  destruct (safe2_total _ _ _ Hsafe i Hin) as [pr [st [_ [Hg _]]]]. exists pr. exact Hg.
Qed.

Theorem ask_all_safe2 : forall e : election,
  safe2 (e_rule cand e) (e_profile cand e) (e_states cand e) ->
  forall qs (s s0 : mstate),
    ask_all e qs s = (map (fun q => alone e q s0) qs, s) /\
    (forall pre q post, qs = pre ++ q :: post ->
       nth_error (fst (ask_all e qs s)) (length pre) = Some (alone e q s0) /\
       fst (ask_all e post (snd (ask_all e (pre ++ [q]) s))) = fst (ask_all e post s0)).
Proof.
  intros e Hsafe qs s s0. pose proof (safe2_total_replay e Hsafe) as Htot.
  split; [exact (ask_all_isolated cand ceqb e Htot qs s s0)|].
  intros pre q post ->. split.
  - rewrite (ask_all_isolated cand ceqb e Htot _ s s0). cbn [fst]. rewrite map_app. cbn [map].
    rewrite nth_error_app2 by (rewrite map_length; lia). rewrite map_length, Nat.sub_diag. reflexivity.
  - rewrite (ask_all_isolated cand ceqb e Htot (pre ++ [q]) s s0). cbn [snd].
    rewrite (ask_all_isolated cand ceqb e Htot post s s0), (ask_all_isolated cand ceqb e Htot post s0 s0).
    reflexivity.
Qed.

End DrawFree2.
