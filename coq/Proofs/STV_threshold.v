(* Proofs/STV_threshold.v — C02, the election threshold: [stv_init] returns the integer Droop quota
   floor(N/(m+1))+1 or Hare quota floor(N/m); the loop hands the same value to every step. *)
From VK Require Import Base Core STV EditSpec STVSpec Lib_rk.
From Coq Require Import Lia Lqa Qround Setoid.

(* ---------- truncation = floor on non-negative rationals ---------- *)

Lemma Qnum_nonneg : forall q, 0 <= q -> (0 <= Qnum q)%Z.
Proof. intros [n d] H. unfold Qle in H. cbn in *. lia. Qed.

Lemma Qtrunc_floor : forall q, 0 <= q -> Qtrunc q = Qfloor q.
Proof.
  intros [n d] H. apply Qnum_nonneg in H. cbn in H. unfold Qtrunc, Qfloor. cbn [Qnum Qden].
  apply Z.quot_div_nonneg; lia.
Qed.

Lemma Qfloor_unique : forall q z, inject_Z z <= q -> q < inject_Z (z + 1) -> Qfloor q = z.
Proof.
  intros q z H1 H2.
  assert (A : (z <= Qfloor q)%Z).
  { rewrite <- (Qfloor_Z z). apply Qfloor_resp_le. exact H1. }
  assert (B : (Qfloor q < z + 1)%Z).
  { rewrite Zlt_Qlt. eapply Qle_lt_trans; [apply Qfloor_le|exact H2]. }
  lia.
Qed.

Lemma Qfloor_plus_1 : forall q, Qfloor (q + 1) = (Qfloor q + 1)%Z.
Proof.
  intros q. apply Qfloor_unique.
  - rewrite inject_Z_plus. change (inject_Z 1) with 1. pose proof (Qfloor_le q). lra.
  - rewrite !inject_Z_plus. change (inject_Z 1) with 1.
    pose proof (Qlt_floor q) as H. rewrite inject_Z_plus in H. change (inject_Z 1) with 1 in H. lra.
Qed.

Lemma Qdiv_nonneg : forall a b, 0 <= a -> 0 < b -> 0 <= a / b.
Proof.
  intros a b Ha Hb. unfold Qdiv. apply Qmult_le_0_compat; [exact Ha|].
  apply Qlt_le_weak. apply Qinv_lt_0_compat. exact Hb.
Qed.

Lemma inject_Z_pos : forall z, (0 < z)%Z -> 0 < inject_Z z.
Proof. intros z H. change 0 with (inject_Z 0). rewrite <- Zlt_Qlt. exact H. Qed.

(* the two quotas, with the inequalities that make them quotas *)
Lemma droop_value : forall N m, 0 <= N -> (1 <= m)%Z ->
  Qtrunc (N / inject_Z (m + 1) + 1) = droop_quota N m /\
  N < inject_Z (m + 1) * inject_Z (droop_quota N m) /\ (1 <= droop_quota N m)%Z.
Proof.
  intros N m HN Hm.
  assert (Hp : 0 < inject_Z (m + 1)) by (apply inject_Z_pos; lia).
  assert (Hd : 0 <= N / inject_Z (m + 1)) by (apply Qdiv_nonneg; assumption).
  split; [|split].
  - rewrite Qtrunc_floor by lra. apply Qfloor_plus_1.
  - unfold droop_quota.
    pose proof (Qlt_floor (N / inject_Z (m + 1))) as H.
    apply (Qmult_lt_l _ _ _ Hp) in H.
    assert (E : inject_Z (m + 1) * (N / inject_Z (m + 1)) == N) by (field; lra).
    rewrite E in H. exact H.
  - unfold droop_quota.
    assert (0 <= Qfloor (N / inject_Z (m + 1)))%Z; [|lia].
    rewrite <- (Qfloor_Z 0). apply Qfloor_resp_le. exact Hd.
Qed.

Lemma hare_value : forall N m, 0 <= N -> (1 <= m)%Z ->
  Qtrunc (N / inject_Z m) = hare_quota N m /\
  inject_Z m * inject_Z (hare_quota N m) <= N /\ (0 <= hare_quota N m)%Z.
Proof.
  intros N m HN Hm.
  assert (Hp : 0 < inject_Z m) by (apply inject_Z_pos; lia).
  assert (Hd : 0 <= N / inject_Z m) by (apply Qdiv_nonneg; assumption).
  split; [|split].
  - apply Qtrunc_floor. exact Hd.
  - unfold hare_quota. pose proof (Qfloor_le (N / inject_Z m)) as H.
    apply (Qmult_le_l _ _ _ Hp) in H.
    assert (E : inject_Z m * (N / inject_Z m) == N) by (field; lra).
    rewrite E in H. exact H.
  - unfold hare_quota. rewrite <- (Qfloor_Z 0). apply Qfloor_resp_le. exact Hd.
Qed.

Section WithCand.
Variable cand : Type.
Variable ceqb : cand -> cand -> bool.

Notation profile := (profile cand).
Notation estate := (estate cand).
Notation total_wt := (total_wt cand).
Notation stv_init := (stv_init cand).
Notation stv_loop := (stv_loop cand ceqb).
Notation stv_step := (stv_step cand ceqb).
Notation run_stv := (run_stv cand ceqb).
Notation count_elected := (count_elected cand).

Lemma stv_init_inv : forall cfg (p : profile) t, stv_init cfg p = inl t ->
  stv_validate cand p = inl tt /\ (1 <= s_m cfg <= Z.of_nat (length (cands p)))%Z /\
  threshold (s_quota cfg) (s_m cfg) (total_wt (ballots p)) = inl t.
Proof.
  intros cfg p t. unfold STV.stv_init, rbind.
  destruct (stv_validate cand p) as [[]|e]; [|discriminate].
  destruct (is_trandom (s_transfer cfg) && negb (forallb (fun b => is_integral (wt b)) (ballots p)));
    [discriminate|].
  destruct ((s_m cfg <=? 0)%Z || (Z.of_nat (length (cands p)) <? s_m cfg)%Z) eqn:E; [discriminate|].
  intros H. apply orb_false_iff in E. destruct E as [E1 E2].
  apply Z.leb_gt in E1. apply Z.ltb_ge in E2. repeat split; try lia. exact H.
Qed.

(* since the up-front check in STV.__init__: a successful init with the random transfer implies
   that every ballot weight is integral *)
Lemma stv_init_random_integral : forall cfg (p : profile) t, stv_init cfg p = inl t ->
  s_transfer cfg = TRandom ->
  forallb (fun b => is_integral (wt b)) (ballots p) = true.
Proof.
  intros cfg p t. unfold STV.stv_init, rbind.
  destruct (stv_validate cand p) as [[]|e]; [|discriminate].
  intros H Ht. rewrite Ht in H. cbn [is_trandom andb] in H.
  destruct (forallb (fun b => is_integral (wt b)) (ballots p)); [reflexivity|discriminate].
Qed.

(* the up-front check itself: with the random transfer, a validated profile with a non-integral
   weight is refused with EType, whatever m and the quota *)
Lemma stv_init_random_nonint : forall cfg (p : profile),
  stv_validate cand p = inl tt -> s_transfer cfg = TRandom ->
  forallb (fun b => is_integral (wt b)) (ballots p) = false ->
  stv_init cfg p = inr EType.
Proof.
  intros cfg p Hv Ht Hi. unfold STV.stv_init, rbind. rewrite Hv, Ht, Hi. reflexivity.
Qed.

(* when the check passes (transfer not random, or all weights integral) init is what it was before *)
Lemma stv_init_past_check : forall cfg (p : profile),
  stv_validate cand p = inl tt ->
  is_trandom (s_transfer cfg) && negb (forallb (fun b => is_integral (wt b)) (ballots p)) = false ->
  stv_init cfg p =
  if ((s_m cfg <=? 0) || (Z.of_nat (length (cands p)) <? s_m cfg))%Z then inr EValue
  else threshold (s_quota cfg) (s_m cfg) (total_wt (ballots p)).
Proof.
  intros cfg p Hv Hc. unfold STV.stv_init, rbind. rewrite Hv, Hc. reflexivity.
Qed.

Theorem threshold_value : forall cfg (p : profile) t,
  stv_init cfg p = inl t -> 0 <= total_wt (ballots p) ->
  let N := total_wt (ballots p) in
  let m := s_m cfg in
  (1 <= m <= Z.of_nat (length (cands p)))%Z /\
  match s_quota cfg with
  | QDroop => t = inject_Z (droop_quota N m) /\ N < inject_Z (m + 1) * t /\ 1 <= t
  | QHare => t = inject_Z (hare_quota N m) /\ inject_Z m * t <= N /\ 0 <= t
  | QBad => False
  end.
Proof.
  intros cfg p t H HN. cbv zeta. apply stv_init_inv in H. destruct H as (_ & Hm & Ht).
  split; [exact Hm|]. unfold threshold in Ht.
  destruct (s_quota cfg).
  - injection Ht as <-.
    destruct (droop_value _ (s_m cfg) HN (proj1 Hm)) as (E & Hlt & H1).
    rewrite E. split; [reflexivity|]. split; [exact Hlt|].
    change 1 with (inject_Z 1). rewrite <- Zle_Qle. exact H1.
  - injection Ht as <-.
    destruct (hare_value _ (s_m cfg) HN (proj1 Hm)) as (E & Hle & H0).
    rewrite E. split; [reflexivity|]. split; [exact Hle|].
    change 0 with (inject_Z 0). rewrite <- Zle_Qle. exact H0.
  - discriminate.
Qed.

(* the threshold is computed once, before the loop, and the loop passes it unchanged to every step *)
Theorem run_stv_unfold : forall cfg (p : profile) s,
  run_stv cfg p s =
  match stv_init cfg p with
  | inr e => inr e
  | inl t =>
      match initial_state cand ceqb p with
      | inr e => inr e
      | inl s0 => stv_loop (length (cands p) + 2) cfg t p p [s0] s
      end
  end.
Proof.
  intros cfg p s. unfold STV.run_stv, mbind, mlift.
  destruct (stv_init cfg p) as [t|e]; [|reflexivity]. cbn.
  destruct (initial_state cand ceqb p) as [s0|e]; reflexivity.
Qed.

Theorem stv_loop_unfold : forall fuel cfg t (p0 p : profile) (sts : list estate) s,
  stv_loop fuel cfg t p0 p sts s =
  if Z.eqb (count_elected sts) (s_m cfg) then inl (rev sts, s)
  else match fuel with
       | O => inr EFuel
       | S fuel' =>
           match sts with
           | [] => inr EOther
           | prev :: _ =>
               match stv_step cfg t p0 (count_elected sts) p prev s with
               | inl ((np, st), s') => stv_loop fuel' cfg t p0 np (st :: sts) s'
               | inr e => inr e
               end
           end
       end.
Proof.
  intros fuel cfg t p0 p sts s. destruct fuel as [|fuel']; cbn [STV.stv_loop].
  - destruct (Z.eqb (count_elected sts) (s_m cfg)); reflexivity.
  - destruct (Z.eqb (count_elected sts) (s_m cfg)); [reflexivity|].
    destruct sts as [|prev sts']; [reflexivity|].
    unfold mbind. destruct (stv_step cfg t p0 (count_elected (prev :: sts')) p prev s) as [[[np st] s']|e];
      reflexivity.
Qed.

End WithCand.
