(* Proofs/C07_lib.v — library for C07 (Droop proportionality for solid coalitions):
   sums of rationals bounded termwise (max >= mean), counting members of a set in a list,
   and the facts about "ranks A above all others" ([solid], [solid_set], [solidb]) that the
   round invariant needs: stability under striking candidates out, the head of a coalition ballot
   is a member, the coalition weight is at most the first-place tallies of the members. *)
From VK Require Import Base Core STV EditSpec ScoreSpec STVSpec PCSpec.
From VK.Proofs Require Import Lib_sets Lib_rk C12_edit C03_transfer STV_lib STV_wsum.
From Coq Require Import Permutation Lia Lqa Setoid Morphisms.

(* ====================== sums of rationals ====================== *)

Lemma qsum_map_le : forall {A} (f g : A -> Q) (l : list A),
  (forall a, In a l -> f a <= g a) -> qsum (map f l) <= qsum (map g l).
Proof.
  intros A f g l. induction l as [|a l IH]; intros H; [apply Qle_refl|].
  cbn [map]. rewrite !Lib_sets.qsum_cons. apply Qplus_le_compat.
  - apply H. left. reflexivity.
  - apply IH. intros x Hx. apply H. right. exact Hx.
Qed.

Lemma qsum_le_const : forall {A} (f : A -> Q) (c : Q) (l : list A),
  (forall a, In a l -> f a <= c) -> qsum (map f l) <= Qnat (length l) * c.
Proof.
  intros A f c l H. rewrite <- Lib_sets.qsum_map_const. apply qsum_map_le. exact H.
Qed.

(* if every term is below c, a non-empty sum is below (number of terms) * c *)
Lemma qsum_lt_const : forall {A} (f : A -> Q) (c : Q) (l : list A), l <> [] ->
  (forall a, In a l -> f a < c) -> qsum (map f l) < Qnat (length l) * c.
Proof.
  intros A f c [|a l] Hne H; [contradiction Hne; reflexivity|].
  cbn [map length]. rewrite Lib_sets.qsum_cons, Lib_sets.Qnat_S.
  assert (H1 : f a < c) by (apply H; left; reflexivity).
  assert (H2 : qsum (map f l) <= Qnat (length l) * c).
  { apply qsum_le_const. intros x Hx. apply Qlt_le_weak. apply H. right. exact Hx. }
  lra.
Qed.

Lemma exists_max : forall {A} (f : A -> Q) (l : list A), l <> [] ->
  exists a, In a l /\ forall x, In x l -> f x <= f a.
Proof.
  intros A f l. induction l as [|a l IH]; intros Hne; [contradiction Hne; reflexivity|].
  destruct l as [|b l].
  - exists a. split; [left; reflexivity|]. intros x [<-|[]]. apply Qle_refl.
  - destruct IH as (m & Hm & Hmax); [discriminate|].
    destruct (Qlt_le_dec (f m) (f a)) as [Hlt|Hle].
    + exists a. split; [left; reflexivity|]. intros x [<-|Hx]; [apply Qle_refl|].
      apply Qle_trans with (f m); [apply Hmax; exact Hx|apply Qlt_le_weak; exact Hlt].
    + exists m. split; [right; exact Hm|]. intros x [<-|Hx]; [exact Hle|apply Hmax; exact Hx].
Qed.

(* some element is at least the mean: sum <= n * f a *)
Lemma max_ge_mean : forall {A} (f : A -> Q) (l : list A), l <> [] ->
  exists a, In a l /\ qsum (map f l) <= Qnat (length l) * f a.
Proof.
  intros A f l Hne. destruct (exists_max f l Hne) as (a & Ha & Hmax).
  exists a. split; [exact Ha|]. apply qsum_le_const. exact Hmax.
Qed.

Lemma qsum_ite_count : forall {A} (f : A -> bool) (a : Q) (l : list A),
  qsum (map (fun c => if f c then a else 0) l) == Qnat (length (filter f l)) * a.
Proof.
  intros A f a l. induction l as [|c l IH].
  - cbn [map filter length]. rewrite Lib_sets.qsum_nil, Lib_sets.Qnat_0. ring.
  - cbn [map filter]. rewrite Lib_sets.qsum_cons, IH. destruct (f c).
    + cbn [length]. rewrite Lib_sets.Qnat_S. ring.
    + ring.
Qed.

Lemma Qnat_le : forall a b, (a <= b)%nat -> Qnat a <= Qnat b.
Proof. intros a b H. unfold Qnat. rewrite <- Zle_Qle. lia. Qed.

Lemma Qnat_sub : forall a b, (b <= a)%nat -> Qnat (a - b) == Qnat a - Qnat b.
Proof.
  intros a b H. replace a with ((a - b) + b)%nat at 2 by lia. rewrite Lib_sets.Qnat_plus. ring.
Qed.

Lemma filter_perm : forall {A} (f : A -> bool) (l l' : list A),
  Permutation l l' -> Permutation (filter f l) (filter f l').
Proof.
  intros A f l l' H. induction H as [|x l l' _ IH|x y l|l l' l'' _ IH1 _ IH2].
  - constructor.
  - cbn [filter]. destruct (f x); [constructor|]; exact IH.
  - cbn [filter]. destruct (f x), (f y); try apply Permutation_refl. constructor.
  - eapply Permutation_trans; eassumption.
Qed.

Section WithCand.
Variable cand : Type.
Variable ceqb : cand -> cand -> bool.
Hypothesis ceqb_spec : forall a b, reflect (a = b) (ceqb a b).

Notation cset := (cset cand).
Notation ranking := (ranking cand).
Notation ballot := (ballot cand).
Notation profile := (profile cand).
Notation memb := (memb cand ceqb).
Notation cset_eqb := (cset_eqb cand ceqb).
Notation ranking_eqb := (ranking_eqb cand ceqb).
Notation flat := (flat cand).
Notation strip := (strip cand ceqb).
Notation set_diff := (set_diff cand ceqb).
Notation first_is := (first_is cand ceqb).
Notation total_wt := (total_wt cand).
Notation wt_where := (wt_where cand).
Notation tally := (tally cand ceqb).
Notation wf_stv_ballot := (wf_stv_ballot cand).
Notation wf_stv0 := (wf_stv0 cand).
Notation seteq := (seteq cand).
Notation rk_equiv := (rk_equiv cand).
Notation solid := (solid cand).
Notation solid_set := (solid_set cand).
Notation solidb := (solidb cand ceqb).
Notation coal_wt := (coal_wt cand ceqb).
Notation members := (members cand ceqb).
Notation cls := (cls cand ceqb).
Notation wsumr := (wsumr cand).
Notation after := (after cand ceqb).

Let memb_In := Lib_rk.memb_In cand ceqb ceqb_spec.
Let memb_false_iff := Lib_rk.memb_false_iff cand ceqb ceqb_spec.

(* ====================== members of a set in a list ====================== *)

Lemma members_In : forall A l c, In c (members A l) <-> In c l /\ In c A.
Proof.
  intros A l c. unfold PCSpec.members. rewrite filter_In, memb_In. reflexivity.
Qed.

Lemma members_app : forall A l1 l2, members A (l1 ++ l2) = members A l1 ++ members A l2.
Proof. intros A l1 l2. apply filter_app. Qed.

Lemma members_perm : forall A l l', Permutation l l' -> Permutation (members A l) (members A l').
Proof. intros A l l' H. apply filter_perm. exact H. Qed.

Lemma members_NoDup : forall A l, NoDup l -> NoDup (members A l).
Proof. intros A l H. apply NoDup_filter. exact H. Qed.

Lemma members_nil_iff : forall A l, members A l = [] <-> (forall c, In c l -> ~ In c A).
Proof.
  intros A l. split.
  - intros H c Hc Ha. assert (Hin : In c (members A l)) by (apply members_In; split; assumption).
    rewrite H in Hin. destruct Hin.
  - intros H. destruct (members A l) as [|c m] eqn:E; [reflexivity|]. exfalso.
    assert (Hin : In c (members A l)) by (rewrite E; left; reflexivity).
    apply members_In in Hin. apply (H c (proj1 Hin) (proj2 Hin)).
Qed.

(* members of A in l, when l is struck by R *)
Lemma members_set_diff : forall A l R, members A (set_diff l R) = set_diff (members A l) R.
Proof.
  intros A l R. unfold PCSpec.members, Core.set_diff. rewrite !Lib_rk.filter_filter.
  apply Lib_rk.filter_ext_in. intros c _. apply andb_comm.
Qed.

(* counting the common elements of two duplicate-free lists from either side *)
Lemma inter_count_comm : forall A E : cset, NoDup A -> NoDup E ->
  length (filter (fun c => memb c E) A) = length (filter (fun c => memb c A) E).
Proof.
  intros A E HA HE. apply Permutation_length. apply NoDup_Permutation.
  - apply NoDup_filter. exact HA.
  - apply NoDup_filter. exact HE.
  - intros c. rewrite !filter_In, !memb_In. tauto.
Qed.

Lemma filter_memb_ext : forall (A E E' : cset), (forall c, In c E <-> In c E') ->
  filter (fun c => memb c E) A = filter (fun c => memb c E') A.
Proof.
  intros A E E' H. apply Lib_rk.filter_ext_in. intros c _.
  destruct (memb c E) eqn:E1, (memb c E') eqn:E2; try reflexivity; exfalso.
  - apply memb_In in E1. apply memb_false_iff in E2. apply E2, H, E1.
  - apply memb_In in E2. apply memb_false_iff in E1. apply E1, H, E2.
Qed.

(* ====================== ranking A above all others ====================== *)

Lemma firstn_app_len : forall {X} (a b : list X), firstn (length a) (a ++ b) = a.
Proof.
  intros X a b. rewrite firstn_app, Nat.sub_diag, firstn_all. cbn [firstn]. apply app_nil_r.
Qed.

Lemma solidb_iff : forall A r, solidb A r = true <-> solid_set A r.
Proof.
  intros A r. unfold PCSpec.solidb, PCSpec.solid_set. rewrite existsb_exists. split.
  - intros (i & _ & Hi). exists (firstn i r), (skipn i r). split; [symmetry; apply firstn_skipn|].
    apply (Lib_rk.cset_eqb_seteq cand ceqb ceqb_spec). exact Hi.
  - intros (pre & suf & -> & Hs). exists (length pre). split.
    + apply in_seq. rewrite app_length. lia.
    + rewrite firstn_app_len. apply (Lib_rk.cset_eqb_seteq cand ceqb ceqb_spec). exact Hs.
Qed.

Lemma solid_set_seteq : forall A B r, seteq A B -> solid_set A r -> solid_set B r.
Proof.
  intros A B r HAB (pre & suf & E & Hs). exists pre, suf. split; [exact E|].
  intros c. rewrite (Hs c). apply HAB.
Qed.

Lemma solidb_seteq : forall A B r, seteq A B -> solidb A r = solidb B r.
Proof.
  intros A B r HAB.
  assert (HBA : seteq B A) by (intros c; symmetry; apply HAB).
  destruct (solidb A r) eqn:E1, (solidb B r) eqn:E2; try reflexivity; exfalso.
  - apply solidb_iff in E1. apply (solid_set_seteq A B r HAB) in E1. apply solidb_iff in E1. congruence.
  - apply solidb_iff in E2. apply (solid_set_seteq B A r HBA) in E2. apply solidb_iff in E2. congruence.
Qed.

Lemma solid_set_equiv : forall A a b, rk_equiv a b -> solid_set A a -> solid_set A b.
Proof.
  intros A a b Hab (pre & suf & -> & Hs). unfold EditSpec.rk_equiv in Hab.
  apply Forall2_app_inv_l in Hab. destruct Hab as (pre' & suf' & Hp & _ & ->).
  exists pre', suf'. split; [reflexivity|].
  pose proof (Lib_rk.rk_equiv_flat cand pre pre' Hp) as Hf.
  intros c. rewrite <- (Hs c). symmetry. apply Hf.
Qed.

Lemma solidb_compat : forall A a b, ranking_eqb a b = true -> solidb A a = solidb A b.
Proof.
  intros A a b H.
  assert (Hab : rk_equiv a b) by (apply (Lib_rk.ranking_eqb_equiv cand ceqb ceqb_spec); exact H).
  assert (Hba : rk_equiv b a) by (apply Lib_rk.rk_equiv_sym; exact Hab).
  destruct (solidb A a) eqn:E1, (solidb A b) eqn:E2; try reflexivity; exfalso.
  - apply solidb_iff in E1. apply (solid_set_equiv A a b Hab) in E1. apply solidb_iff in E1. congruence.
  - apply solidb_iff in E2. apply (solid_set_equiv A b a Hba) in E2. apply solidb_iff in E2. congruence.
Qed.

(* for a duplicate-free A and a ranking that lists nobody twice, the set reading and the
   permutation reading coincide *)
Lemma solid_set_iff_solid : forall A r, NoDup A -> NoDup (flat r) -> (solid_set A r <-> solid A r).
Proof.
  intros A r HA Hr. split.
  - intros (pre & suf & -> & Hs). exists pre, suf. split; [reflexivity|].
    rewrite (flat_app cand) in Hr. apply Lib_sets.NoDup_app_inv in Hr. destruct Hr as (Hp & _ & _).
    apply NoDup_Permutation; [exact Hp|exact HA|exact Hs].
  - intros (pre & suf & -> & Hp). exists pre, suf. split; [reflexivity|].
    intros c. split; intros Hc.
    + eapply Permutation_in; [exact Hp|exact Hc].
    + eapply Permutation_in; [apply Permutation_sym; exact Hp|exact Hc].
Qed.

Lemma solidb_solid : forall A r, NoDup A -> NoDup (flat r) -> (solidb A r = true <-> solid A r).
Proof.
  intros A r HA Hr. rewrite solidb_iff. apply solid_set_iff_solid; assumption.
Qed.

Lemma strip_app : forall R a b, strip R (a ++ b) = strip R a ++ strip R b.
Proof. intros R a b. unfold Core.strip. rewrite map_app, filter_app. reflexivity. Qed.

(* striking R out of a ranking that is solid for A leaves a ranking solid for A \ R *)
Lemma solid_set_strip : forall A R r, solid_set A r -> solid_set (set_diff A R) (strip R r).
Proof.
  intros A R r (pre & suf & -> & Hs). exists (strip R pre), (strip R suf).
  split; [apply strip_app|]. rewrite (strip_flat cand ceqb). unfold Core.set_diff.
  intros c. rewrite !filter_In, (Hs c). reflexivity.
Qed.

Lemma solid_set_nonempty : forall A r, solid_set A r -> A <> [] -> r <> [].
Proof.
  intros A r (pre & suf & -> & Hs) HA E. apply app_eq_nil in E. destruct E as [-> _].
  destruct A as [|a A]; [apply HA; reflexivity|].
  apply (proj2 (Hs a) (or_introl eq_refl)).
Qed.

(* the first candidate of an untied ballot that is solid for a non-empty A is a member of A *)
Lemma solid_set_head : forall A r h rest, solid_set A r -> A <> [] -> r = [h] :: rest -> In h A.
Proof.
  intros A r h rest (pre & suf & E & Hs) HA Er. destruct pre as [|g pre].
  - exfalso. destruct A as [|a A]; [apply HA; reflexivity|].
    apply (proj2 (Hs a) (or_introl eq_refl)).
  - rewrite Er in E. cbn [app] in E. injection E as <- _. apply Hs.
    rewrite (flat_cons cand). left. reflexivity.
Qed.

(* a ballot led by c is solid for {c} *)
Lemma first_is_solid : forall c (b : ballot), first_is c b = true -> solidb [c] (rk b) = true.
Proof.
  intros c b H. unfold Core.first_is in H. destruct (rk b) as [|g r] eqn:E; [discriminate|].
  apply solidb_iff. exists [g], r. split; [reflexivity|].
  apply (Lib_rk.cset_eqb_seteq cand ceqb ceqb_spec). rewrite (flat_cons cand).
  unfold Core.flat. cbn [concat]. rewrite app_nil_r. exact H.
Qed.

(* ====================== the coalition weight as a class sum ====================== *)

Definition phiA (A : cset) (r : ranking) : Q := if solidb A r then 1 else 0.

Lemma phiA_cls : forall A, cls (phiA A).
Proof.
  intros A a b H. unfold phiA. rewrite (solidb_compat A a b H). reflexivity.
Qed.

Lemma phiA_range : forall A r, 0 <= phiA A r /\ phiA A r <= 1.
Proof. intros A r. unfold phiA. destruct (solidb A r); split; lra. Qed.

Lemma coal_wt_wsumr : forall A bs, coal_wt A bs == wsumr (phiA A) bs.
Proof.
  intros A bs. unfold PCSpec.coal_wt, EditSpec.wt_where, STV_wsum.wsumr.
  rewrite Lib_rk.qsum_filter_as_ite. apply Lib_sets.qsum_map_ext_in. intros b _.
  unfold phiA. destruct (solidb A (rk b)); ring.
Qed.

Lemma wsumr_le : forall phi psi (bs : list ballot), (forall b, In b bs -> 0 <= wt b) ->
  (forall b, In b bs -> phi (rk b) <= psi (rk b)) -> wsumr phi bs <= wsumr psi bs.
Proof.
  intros phi psi bs Hw H. unfold STV_wsum.wsumr. apply qsum_map_le. intros b Hb.
  rewrite !(Qmult_comm (wt b)). apply Qmult_le_compat_r; [apply H; exact Hb|apply Hw; exact Hb].
Qed.

Lemma wt_where_mono : forall (f g : ballot -> bool) bs, (forall b, In b bs -> 0 <= wt b) ->
  (forall b, In b bs -> f b = true -> g b = true) -> wt_where f bs <= wt_where g bs.
Proof.
  intros f g bs Hw H. unfold EditSpec.wt_where. rewrite !Lib_rk.qsum_filter_as_ite.
  apply qsum_map_le. intros b Hb. specialize (H b Hb). specialize (Hw b Hb).
  destruct (f b); destruct (g b).
  - apply Qle_refl.
  - discriminate (H eq_refl).
  - exact Hw.
  - apply Qle_refl.
Qed.

Lemma wt_where_le_total : forall (f : ballot -> bool) bs, (forall b, In b bs -> 0 <= wt b) ->
  wt_where f bs <= total_wt bs.
Proof.
  intros f bs Hw.
  assert (E : total_wt bs = wt_where (fun _ => true) bs).
  { unfold EditSpec.wt_where, Core.total_wt. rewrite Lib_sets.filter_all_true; [reflexivity|].
    intros a _. reflexivity. }
  rewrite E. apply wt_where_mono; [exact Hw|]. intros b _ _. reflexivity.
Qed.

Lemma coal_wt_seteq : forall A B bs, seteq A B -> coal_wt A bs == coal_wt B bs.
Proof.
  intros A B bs H. unfold PCSpec.coal_wt. apply (wt_where_ext_in cand). intros b _.
  apply solidb_seteq. exact H.
Qed.

(* striking R out: a ballot solid for A becomes a continuing ballot solid for A \ R, as long as a
   member of A is left *)
Lemma phi_after_ge : forall A R r, set_diff A R <> [] ->
  phiA A r <= after R (phiA (set_diff A R)) r.
Proof.
  intros A R r Hne. unfold phiA at 1. destruct (solidb A r) eqn:E.
  - apply solidb_iff in E. apply (solid_set_strip A R r) in E.
    pose proof (solid_set_nonempty _ _ E Hne) as Hn. apply Lib_rk.nonempty_true_iff in Hn.
    unfold STV_wsum.after. rewrite Hn. unfold phiA. apply solidb_iff in E. rewrite E. apply Qle_refl.
  - unfold STV_wsum.after. destruct (nonempty (strip R r)); [apply phiA_range|apply Qle_refl].
Qed.

(* ====================== coalition ballots are led by members ====================== *)

Lemma wf_bs_nonneg : forall (p : profile), wf_stv0 p -> forall b, In b (ballots p) -> 0 <= wt b.
Proof.
  intros p [_ H] b Hb. rewrite Forall_forall in H. apply Qlt_le_weak. apply (H b Hb).
Qed.

(* the weight of the ballots solid for a non-empty T is at most the first-place tallies of T *)
Lemma coal_le_tallies : forall (p : profile) T, wf_stv0 p -> NoDup T -> T <> [] ->
  coal_wt T (ballots p) <= qsum (map (fun c => tally c (ballots p)) T).
Proof.
  intros p T Hwf Hnd Hne.
  assert (E : qsum (map (fun c => tally c (ballots p)) T)
              == wt_where (fun b => existsb (fun c => first_is c b) T) (ballots p)).
  { unfold EditSpec.wt_where at 1.
    change (qsum (map (@wt cand) (filter (fun b => existsb (fun c => first_is c b) T) (ballots p))))
      with (total_wt (filter (fun b => existsb (fun c => first_is c b) T) (ballots p))).
    rewrite <- (total_wt_perm cand _ _ (piles_perm cand ceqb ceqb_spec (ballots p) T Hnd)).
    rewrite (total_wt_concat cand), map_map. reflexivity. }
  rewrite E. unfold PCSpec.coal_wt. apply wt_where_mono; [apply wf_bs_nonneg; exact Hwf|].
  intros b Hb Hs. destruct Hwf as [_ Hwfb]. rewrite Forall_forall in Hwfb.
  destruct (wf_ballot_head cand _ b (Hwfb b Hb)) as (h & rest & Hr & _ & _).
  apply solidb_iff in Hs. pose proof (solid_set_head T (rk b) h rest Hs Hne Hr) as Hh.
  apply existsb_exists. exists h. split; [exact Hh|].
  apply (first_is_head_iff cand ceqb ceqb_spec b h rest h Hr). reflexivity.
Qed.

(* hence, when no member of T reaches t, the coalition weighs less than |T| quotas *)
Lemma coal_lt_quotas : forall (p : profile) T t, wf_stv0 p -> NoDup T -> T <> [] ->
  (forall c, In c T -> tally c (ballots p) < t) ->
  coal_wt T (ballots p) < Qnat (length T) * t.
Proof.
  intros p T t Hwf Hnd Hne Hlt.
  eapply Qle_lt_trans; [apply coal_le_tallies; assumption|].
  apply qsum_lt_const; assumption.
Qed.

End WithCand.
