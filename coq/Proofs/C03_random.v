(* Proofs/C03_random.v — C03: exact accounting for the random (Cambridge) transfer.
   One transfer: the output weighs exactly int(fpv) - int(t) sampled unit ballots plus the surviving
   ballots not led by the winner (every sampled ranking is non-empty, so every sampled unit ballot
   passes the keep filter; condensing preserves totals).
   One election round of [stv_step] with the random transfer: every winner w keeps exactly t (its
   pile of weight tally w is replaced by tally w - t sampled unit ballots), and in addition the
   sampled ballots whose continuation lists only other winners of the same round disappear.  With a
   single winner nothing else disappears: the total weight drops by exactly t. *)
From VK Require Import Base Core STV EditSpec ScoreSpec STVSpec.
From VK.Proofs Require Import Lib_sets Lib_rk Lib_condense Lib_condense12 C12_edit C03_transfer
  C04_scoring Elect STV_lib STV_wsum STV_tb STV_step STV_round STV_threshold STV_weights STV_inv
  STV_cases STV_final.
From Coq Require Import Permutation Lia Lqa Setoid Morphisms.

Section WithCand.
Variable cand : Type.
Variable ceqb : cand -> cand -> bool.
Hypothesis ceqb_spec : forall a b, reflect (a = b) (ceqb a b).

Notation cset := (cset cand).
Notation ranking := (ranking cand).
Notation ballot := (ballot cand).
Notation profile := (profile cand).
Notation mstate := (mstate cand).
Notation estate := (estate cand).
Notation memb := (memb cand ceqb).
Notation flat := (flat cand).
Notation strip := (strip cand ceqb).
Notation first_is := (first_is cand ceqb).
Notation pos_wt := (pos_wt cand).
Notation pile := (pile cand ceqb).
Notation total_wt := (total_wt cand).
Notation wt_where := (wt_where cand).
Notation exhausted := (exhausted cand ceqb).
Notation all_pos := (all_pos cand).
Notation tally := (tally cand ceqb).
Notation wf_stv_ballot := (wf_stv_ballot cand).
Notation wf_stv0 := (wf_stv0 cand).
Notation step_ctx := (step_ctx cand ceqb).
Notation script_ok := (script_ok cand).
Notation reaches := (reaches cand ceqb).
Notation lookup0 := (lookup0 cand ceqb).
Notation rand_transfer := (rand_transfer cand ceqb).
Notation do_transfer := (do_transfer cand ceqb).
Notation transfers := (transfers cand ceqb).
Notation elect_round := (elect_round cand ceqb).
Notation stv_step := (stv_step cand ceqb).
Notation cls := (cls cand ceqb).
Notation wsumr := (wsumr cand).
Notation rt_out := (rt_out cand ceqb).
Notation rt_others := (rt_others cand ceqb).
Notation rt_pop := (rt_pop cand ceqb).
Notation plainb := (fun r : ranking => plain_ballot cand r 1).

Let memb_In := Lib_rk.memb_In cand ceqb ceqb_spec.
Let memb_false_iff := Lib_rk.memb_false_iff cand ceqb ceqb_spec.

(* ====================== one random transfer: the total ====================== *)

Lemma plain_keep_all : forall l : list ranking, (forall r, In r l -> nonempty r = true) ->
  filter (keep_ballot cand) (map plainb l) = map plainb l.
Proof.
  intros l H. apply Lib_sets.filter_all_true. intros b Hb. apply in_map_iff in Hb.
  destruct Hb as (r & <- & Hr). unfold STV.keep_ballot, Core.pos_wt, Core.plain_ballot. cbn [rk wt].
  rewrite (H r Hr). reflexivity.
Qed.

Lemma plain_total : forall l : list ranking, total_wt (map plainb l) == Qnat (length l).
Proof.
  induction l as [|r l IH]; [reflexivity|]. cbn [map length].
  rewrite (total_wt_cons cand), IH, Lib_sets.Qnat_S. unfold Core.plain_ballot. cbn [wt]. ring.
Qed.

(* the surviving ballots not led by the winner *)
Definition survives (w : cand) (b : ballot) : bool :=
  negb (first_is w b) && nonempty (strip [w] (rk b)).

Lemma others_total : forall w (bs : list ballot),
  total_wt (filter (keep_ballot cand) (rt_others w bs)) ==
  wt_where (fun b => survives w b && pos_wt b) bs.
Proof.
  intros w bs. unfold C03_transfer.rt_others, EditSpec.wt_where, survives.
  induction bs as [|b bs IH]; cbn [filter map].
  - reflexivity.
  - destruct (first_is w b); cbn [negb andb map filter]; [exact IH|].
    unfold STV.keep_ballot at 1. unfold Core.pos_wt at 1. cbn [rk wt]. fold (pos_wt b).
    destruct (nonempty (strip [w] (rk b)) && pos_wt b); cbn [map]; [|exact IH].
    rewrite (total_wt_cons cand), Lib_sets.qsum_cons, IH. cbn [wt]. reflexivity.
Qed.

Lemma sample_nonempty : forall w (bs : list ballot) k (l : list ranking),
  valid_ballot_sample cand ceqb (rt_pop w bs) k l = true -> forall r, In r l -> nonempty r = true.
Proof.
  intros w bs k l Hv r Hr. destruct (valid_sample_spec cand ceqb ceqb_spec w bs k l Hv) as (_ & _ & Hsrc).
  destruct (Hsrc r Hr) as (b & _ & _ & Hn & Hm).
  rewrite (ranking_eqb_nonempty cand ceqb _ _ Hm). apply nonempty_true_iff. exact Hn.
Qed.

(* a sampled ranking still lists somebody once the winner is struck out (it never lists him) *)
Lemma sample_survives : forall w (bs : list ballot) k (l : list ranking),
  valid_ballot_sample cand ceqb (rt_pop w bs) k l = true ->
  forall r, In r l -> nonempty (strip [w] r) = true.
Proof.
  intros w bs k l Hv r Hr. destruct (valid_sample_spec cand ceqb ceqb_spec w bs k l Hv) as (_ & _ & Hsrc).
  destruct (Hsrc r Hr) as (b & _ & _ & Hn & Hm).
  pose proof (strip_compat cand ceqb ceqb_spec [w] _ _ Hm) as Hs.
  rewrite (strip_strip_in cand ceqb ceqb_spec [w] w (rk b) (or_introl eq_refl)) in Hs.
  rewrite (ranking_eqb_nonempty cand ceqb _ _ Hs). apply nonempty_true_iff. exact Hn.
Qed.

Theorem rand_total_gen : forall w fpv (bs : list ballot) t (s s' : mstate) out,
  rand_transfer w fpv bs t s = inl (out, s') ->
  total_wt out == inject_Z (Qtrunc fpv - Qtrunc t) + wt_where (fun b => survives w b && pos_wt b) bs.
Proof.
  intros w fpv bs t s s' out H.
  destruct (rand_ok_inv cand ceqb w fpv bs t s out s' H) as (_ & _ & l & _ & _ & Hv & ->).
  destruct (valid_sample_spec cand ceqb ceqb_spec w bs _ l Hv) as (Hlen & _ & _).
  unfold C03_transfer.rt_out. rewrite (condense_total cand ceqb), filter_app, (total_wt_app cand).
  rewrite (plain_keep_all l (sample_nonempty w bs _ l Hv)), plain_total, others_total.
  unfold Qnat. rewrite Hlen. ring.
Qed.

Theorem rand_total : forall w fpv (bs : list ballot) t (s s' : mstate) out,
  rand_transfer w fpv bs t s = inl (out, s') -> all_pos bs ->
  total_wt out == inject_Z (Qtrunc fpv - Qtrunc t) + wt_where (survives w) bs.
Proof.
  intros w fpv bs t s s' out H Hpos. rewrite (rand_total_gen w fpv bs t s s' out H).
  unfold EditSpec.wt_where.
  rewrite (Lib_rk.filter_ext_in _ (fun b => survives w b && pos_wt b) (survives w) bs); [reflexivity|].
  intros b Hb. unfold EditSpec.all_pos in Hpos. rewrite Forall_forall in Hpos.
  assert (E : pos_wt b = true) by (unfold Core.pos_wt; apply Lib_rk.Qlt_bool_iff; apply Hpos; exact Hb).
  rewrite E. apply andb_true_r.
Qed.

(* ====================== exhausted weight as a class sum ====================== *)

Definition exh_phi (W : cset) (r : ranking) : Q := if nonempty (strip W r) then 0 else 1.

Lemma exh_phi_cls : forall W, cls (exh_phi W).
Proof.
  intros W a b H. unfold exh_phi. pose proof (strip_compat cand ceqb ceqb_spec W a b H) as Hs.
  rewrite (ranking_eqb_nonempty cand ceqb _ _ Hs). reflexivity.
Qed.

Lemma exhausted_as_wsumr : forall W (bs : list ballot),
  wt_where (exhausted W) bs == wsumr (exh_phi W) bs.
Proof.
  intros W bs. unfold EditSpec.wt_where, STV_wsum.wsumr. rewrite qsum_filter_as_ite.
  apply Lib_sets.qsum_map_ext_in. intros b _. unfold EditSpec.exhausted, exh_phi.
  destruct (nonempty (strip W (rk b))); cbn [negb]; ring.
Qed.

Lemma wt_where_app : forall (q : ballot -> bool) (l1 l2 : list ballot),
  wt_where q (l1 ++ l2) == wt_where q l1 + wt_where q l2.
Proof. intros q l1 l2. unfold EditSpec.wt_where. rewrite filter_app, map_app, Lib_sets.qsum_app. reflexivity. Qed.

(* sampled rankings left with no surviving choice once all of W is struck out *)
Definition dead (W : cset) (l : list ranking) : nat :=
  length (filter (fun r => negb (nonempty (strip W r))) l).

Lemma dead_app : forall W l1 l2, dead W (l1 ++ l2) = (dead W l1 + dead W l2)%nat.
Proof. intros W l1 l2. unfold dead. rewrite filter_app, app_length. reflexivity. Qed.

Lemma plain_exhausted : forall W (l : list ranking), wsumr (exh_phi W) (map plainb l) == Qnat (dead W l).
Proof.
  intros W. induction l as [|r l IH]; [reflexivity|]. cbn [map]. rewrite (wsumr_cons cand), IH.
  unfold Core.plain_ballot at 1 2. cbn [rk wt]. unfold exh_phi, dead. cbn [filter].
  destruct (nonempty (strip W r)); cbn [negb length]; [ring|]. rewrite Lib_sets.Qnat_S. ring.
Qed.

(* ====================== one winner's random transfer inside a round ====================== *)

Lemma rand_xfer_exact : forall (p : profile) w fpv t (s1 s2 : mstate) a,
  do_transfer TRandom w fpv (pile p w) t s1 = inl (a, s2) ->
  fpv == tally w (ballots p) -> is_integral t = true ->
  exists l : list ranking,
    scr s1 = DRanks l :: scr s2 /\
    Qnat (length l) == tally w (ballots p) - t /\
    (forall r, In r l -> nonempty (strip [w] r) = true) /\
    total_wt a == tally w (ballots p) - t /\
    forall W, wt_where (exhausted W) a == Qnat (dead W l).
Proof.
  intros p w fpv t s1 s2 a H Hfpv Hint. cbn [STV.do_transfer] in H.
  destruct (rand_ok_inv cand ceqb w fpv _ t s1 a s2 H) as (Hgood & _ & l & Hs & _ & Hv & ->).
  destruct (valid_sample_spec cand ceqb ceqb_spec w _ _ l Hv) as (Hlen & _ & _).
  assert (Hout : rt_out w (pile p w) l = condense_bs cand ceqb (map plainb l)).
  { unfold C03_transfer.rt_out. rewrite (rt_others_pile cand ceqb p w). cbn [app].
    rewrite (plain_keep_all l (sample_nonempty w _ _ l Hv)). reflexivity. }
  assert (HlenQ : Qnat (length l) == tally w (ballots p) - t).
  { unfold Qnat. rewrite Hlen. unfold Zminus.
    rewrite inject_Z_plus, inject_Z_opp, (Qtrunc_integral t Hint).
    destruct (integral_total cand (pile p w) (fun b Hb => proj1 (Hgood b Hb))) as [z Hz].
    rewrite <- (tally_pile cand ceqb) in Hz. rewrite <- Hfpv in Hz.
    rewrite (Qtrunc_int fpv z Hz), <- Hz, Hfpv. reflexivity. }
  exists l. split; [exact Hs|]. split; [exact HlenQ|].
  split; [exact (sample_survives w _ _ l Hv)|]. split.
  - rewrite Hout, (condense_total cand ceqb), plain_total. exact HlenQ.
  - intros W. rewrite exhausted_as_wsumr, Hout.
    rewrite (wsumr_condense cand ceqb _ _ (exh_phi_cls W)). apply plain_exhausted.
Qed.

Lemma transfers_rand_exact : forall (p : profile) d t ws (sa sb : mstate) ms,
  transfers TRandom p d t ws sa ms sb -> is_integral t = true ->
  (forall w, In w ws -> lookup0 w d == tally w (ballots p)) ->
  exists ls : list (list ranking),
    scr sa = map (fun l => DRanks l) ls ++ scr sb /\
    Forall2 (fun w l => Qnat (length l) == tally w (ballots p) - t /\
                        forall r, In r l -> nonempty (strip [w] r) = true) ws ls /\
    qsum (map total_wt ms) == qsum (map (fun w => tally w (ballots p) - t) ws) /\
    forall W, wt_where (exhausted W) (concat ms) == Qnat (dead W (concat ls)).
Proof.
  intros p d t ws sa sb ms H Hint Hl. induction H as [sa|w ws sa a sm ms sb Hw Hd _ IH].
  - exists []. split; [reflexivity|]. split; [constructor|]. split; [reflexivity|]. intros W. reflexivity.
  - destruct (rand_xfer_exact p w _ t sa sm a Hd (Hl w (or_introl eq_refl)) Hint)
      as (l & Hs & Hlen & Hsv & Htot & Hex).
    destruct IH as (ls & IH1 & IH2 & IH3 & IH4); [intros w' Hw'; apply Hl; right; exact Hw'|].
    exists (l :: ls). split; [cbn [map app]; rewrite Hs, IH1; reflexivity|].
    split; [constructor; [split; assumption|exact IH2]|]. split.
    + cbn [map]. rewrite !Lib_sets.qsum_cons, Htot, IH3. reflexivity.
    + intros W. cbn [concat]. rewrite wt_where_app, dead_app, Lib_sets.Qnat_plus, (Hex W), (IH4 W).
      reflexivity.
Qed.

(* ====================== an election round with the random transfer ====================== *)

(* a ballot led by a candidate who is not elected this round keeps a surviving choice *)
Lemma led_by_other_survives : forall (p : profile) W c b, wf_stv0 p -> ~ In c W -> In b (pile p c) ->
  exhausted W b = false.
Proof.
  intros p W c b Hwf Hc Hb. apply (pile_in cand ceqb) in Hb. destruct Hb as [Hb Hf].
  destruct Hwf as [_ Hwfb]. rewrite Forall_forall in Hwfb.
  destruct (wf_ballot_head cand _ b (Hwfb b Hb)) as (h & rest & Hrk & _ & _).
  apply (first_is_head_iff cand ceqb ceqb_spec b h rest c Hrk) in Hf. subst h.
  unfold EditSpec.exhausted. rewrite Hrk, (strip_cons_single cand ceqb).
  rewrite (proj2 (memb_false_iff c W) Hc). reflexivity.
Qed.

Section RoundLaw.
Variable cfg : stv_cfg.
Variable t : Q.
Variables p0 p : profile.
Variables prev st : estate.
Variable np : profile.
Variables s s' : mstate.
Variables W others : cset.
Variable mvs : list (list ballot).
Variable s1 : mstate.
Hypothesis Hctx : step_ctx p0 p prev.
Hypothesis Hr : elect_round cfg t p prev st np s s' W others mvs s1.

Let bs := ballots p.
Let Hwf : wf_stv0 p := ctx_wf cand ceqb p0 p prev Hctx.

Theorem elect_round_random : s_transfer cfg = TRandom -> script_ok s -> is_integral t = true ->
  exists (pre : list (draw cand)) (ls : list (list ranking)),
    scr s = pre ++ map (fun l => DRanks l) ls ++ scr s' /\
    Forall2 (fun w l => Qnat (length l) == tally w bs - t /\
                        forall r, In r l -> nonempty (strip [w] r) = true) W ls /\
    total_wt bs - total_wt (ballots np) == t * Qnat (length W) + Qnat (dead W (concat ls)).
Proof.
  intros Ek Hscr Hint.
  pose proof (er_tr _ _ _ _ _ _ _ _ _ _ _ _ _ _ Hr) as Htr. rewrite Ek in Htr.
  destruct (transfers_rand_exact p _ t W s1 s' mvs Htr Hint
              (fun w Hw => er_lookup cand ceqb ceqb_spec cfg t p0 p prev st np s s' W others mvs s1 Hctx Hr w Hw))
    as (ls & Hs1 & HF & Hsum & Hex).
  destruct (er_suf _ _ _ _ _ _ _ _ _ _ _ _ _ _ Hr) as [pre Hpre].
  exists pre, ls. split; [rewrite Hpre, Hs1; reflexivity|]. split; [exact HF|].
  pose proof (er_B_wf cand ceqb ceqb_spec cfg t p0 p prev st np s s' W others mvs s1 Hctx Hr (fun _ => Hscr)) as HB.
  rewrite (er_ballots cand ceqb cfg t p prev st np s s' W others mvs s1 Hr).
  pose proof (remove_loss cand ceqb W true false _ (wf_ballots_sf cand _ _ HB) (wf_ballots_pos cand _ _ HB)) as HL.
  rewrite wt_where_app, (Hex W) in HL.
  assert (Ho : wt_where (exhausted W) (concat (map (pile p) others)) == 0).
  { unfold EditSpec.wt_where. rewrite (Lib_sets.filter_all_false (exhausted W)); [reflexivity|].
    intros b Hb. apply in_concat in Hb. destruct Hb as (pl & Hpl & Hb). apply in_map_iff in Hpl.
    destruct Hpl as (c & <- & Hc). apply (led_by_other_survives p W c b Hwf); [|exact Hb].
    apply (er_others_notin cand ceqb cfg t p0 p prev st np s s' W others mvs s1 Hctx Hr c Hc). }
  rewrite Ho in HL.
  rewrite (total_wt_app cand), !(total_wt_concat cand), map_map in HL.
  assert (E : qsum (map (fun w => tally w bs - t) W)
              == qsum (map (fun c => tally c bs) W) - t * Qnat (length W)).
  { pose proof (Lib_sets.qsum_map_const t W) as Hc.
    assert (Hp : qsum (map (fun w => tally w bs - t) W) + qsum (map (fun _ : cand => t) W)
                 == qsum (map (fun c => tally c bs) W)).
    { rewrite <- Lib_sets.qsum_map_plus. apply Lib_sets.qsum_map_ext_in. intros c _. ring. }
    lra. }
  pose proof (er_tally_split cand ceqb ceqb_spec cfg t p0 p prev st np s s' W others mvs s1 Hctx Hr) as Hsp.
  fold bs in Hsp, Hsum.
  assert (Eo : qsum (map (fun c => total_wt (pile p c)) others) == qsum (map (fun c => tally c bs) others))
    by reflexivity.
  lra.
Qed.

End RoundLaw.

(* ====================== the same, read off the result of stv_step ====================== *)

Section Step.
Variable cfg : stv_cfg.
Variable t : Q.
Variables p0 p : profile.
Variable prev : estate.
Variable n : Z.
Variables s s' : mstate.
Variable np : profile.
Variable st : estate.
Hypothesis Hctx : step_ctx p0 p prev.
Hypothesis Hstep : stv_step cfg t p0 n p prev s = inl ((np, st), s').

Let bs := ballots p.

Theorem round_accounting_random :
  s_transfer cfg = TRandom -> script_ok s -> is_integral t = true -> (exists c, reaches t p c) ->
  exists (pre : list (draw cand)) (ls : list (list ranking)),
    scr s = pre ++ map (fun l => DRanks l) ls ++ scr s' /\
    Forall2 (fun w l => Qnat (length l) == tally w bs - t /\
                        forall r, In r l -> nonempty (strip [w] r) = true) (flat (elected st)) ls /\
    total_wt bs - total_wt (ballots np) ==
      t * Qnat (length (flat (elected st))) + Qnat (dead (flat (elected st)) (concat ls)).
Proof.
  intros Ek Hscr Hint Hsome.
  destruct (stv_step_ok_inv cand ceqb ceqb_spec cfg t p0 p prev Hctx n s s' np st (fun _ => Hscr) Hstep)
    as [[_ (W & others & mvs & s1 & Hr)]|[(Hnone & _)|(Hnone & _)]];
    [|exfalso; apply (not_both cand ceqb t p Hsome Hnone)|exfalso; apply (not_both cand ceqb t p Hsome Hnone)].
  rewrite (er_W _ _ _ _ _ _ _ _ _ _ _ _ _ _ Hr).
  apply (elect_round_random cfg t p0 p prev st np s s' W others mvs s1 Hctx Hr Ek Hscr Hint).
Qed.

(* a single winner: exactly the threshold disappears *)
Theorem round_accounting_random_single :
  s_transfer cfg = TRandom -> script_ok s -> is_integral t = true -> (exists c, reaches t p c) ->
  length (flat (elected st)) = 1%nat ->
  total_wt bs - total_wt (ballots np) == t.
Proof.
  intros Ek Hscr Hint Hsome Hone.
  destruct (round_accounting_random Ek Hscr Hint Hsome) as (pre & ls & _ & HF & Htot).
  destruct (flat (elected st)) as [|w [|w' W']]; try discriminate Hone.
  inversion HF as [|w0 l W0 ls0 [_ Hsv] HF0]; subst. inversion HF0; subst.
  assert (Hd : dead [w] (concat [l]) = 0%nat).
  { unfold dead. cbn [concat]. rewrite app_nil_r.
    rewrite (Lib_sets.filter_all_false (fun r => negb (nonempty (strip [w] r))) l); [reflexivity|].
    intros r Hr0. rewrite (Hsv r Hr0). reflexivity. }
  rewrite Htot, Hd. cbn [length]. change (Qnat 1) with 1. change (Qnat 0) with 0. ring.
Qed.

Theorem round_accounting_random_one_by_one :
  s_transfer cfg = TRandom -> script_ok s -> is_integral t = true -> (exists c, reaches t p c) ->
  s_simul cfg = false ->
  total_wt bs - total_wt (ballots np) == t.
Proof.
  intros Ek Hscr Hint Hsome Hsim. apply (round_accounting_random_single Ek Hscr Hint Hsome).
  destruct (stv_step_ok_inv cand ceqb ceqb_spec cfg t p0 p prev Hctx n s s' np st (fun _ => Hscr) Hstep)
    as [[_ (W & others & mvs & s1 & Hr)]|[(Hnone & _)|(Hnone & _)]];
    [|exfalso; apply (not_both cand ceqb t p Hsome Hnone)|exfalso; apply (not_both cand ceqb t p Hsome Hnone)].
  destruct (er_choice _ _ _ _ _ _ _ _ _ _ _ _ _ _ Hr) as [(Hs & _)|(_ & w & g & rest & _ & _ & Hel & _)].
  - rewrite Hs in Hsim. discriminate.
  - rewrite Hel. reflexivity.
Qed.

End Step.

End WithCand.
