(* Proofs/C17_brd.v — C17, BoostedRandomDictator beyond one step: the multi-seat law
   (Spec/BRDSpec.v: law_brd_sequence / law_brd_run), its path product, total mass and a checkable
   invariant; and the link between the score list the one-step law takes and the run of
   Model/Rules.v: the [escores] of every state a dictator run produces is the first-place tally of
   the profile it is paired with, so the squares branch uses shares of the CURRENT first-place
   weight.  Builds on Proofs/C17_laws.v (one-step laws) and Proofs/Dist.v. *)
From VK Require Import Base Core STV Rules Laws.
From VK.Spec Require Import EditSpec ScoreSpec LawSpec RunSpec BRDSpec.
From VK.Proofs Require Import Lib_condense12 C12_edit C12_expand C06_pairwise C04_scoring Elect Lib_sets Dist
  C17_laws.
From VK.Proofs Require C10_quiet C01_lib C08_anon C01_dictator.
From Coq Require Import Permutation Lia Lqa Setoid Morphisms.

Section C17B.
Variable cand : Type.
Variable ceqb : cand -> cand -> bool.
Hypothesis ceqb_spec : forall a b, reflect (a = b) (ceqb a b).

Notation cset := (cset cand).
Notation ranking := (ranking cand).
Notation ballot := (ballot cand).
Notation profile := (profile cand).
Notation scores := (scores cand).
Notation mstate := (mstate cand).
Notation estate := (estate cand).
Notation memb := (memb cand ceqb).
Notation total_wt := (total_wt cand).
Notation law_rd_winner := (law_rd_winner cand).
Notation law_brd_winner := (law_brd_winner cand).
Notation law_brd_sequence := (law_brd_sequence cand ceqb).
Notation law_brd_run := (law_brd_run cand ceqb).
Notation first_share := (first_share cand ceqb).
Notation rd_closed_form := (rd_closed_form cand ceqb).
Notation squares_closed_form := (squares_closed_form cand ceqb).
Notation squares := (squares cand).
Notation lookup0 := (lookup0 cand ceqb).
Notation rd_domain := (rd_domain cand).
Notation some_first := (some_first cand).
Notation list_eqb := (list_eqb cand ceqb).
Notation flat := (flat cand).
Notation strip := (strip cand ceqb).
Notation scrub := (scrub cand ceqb).
Notation condense_bs := (condense_bs cand ceqb).
Notation elect_one := (elect_one cand ceqb).
Notation rd_step := (rd_step cand ceqb).
Notation brd_step := (brd_step cand ceqb).
Notation remove_cand_prof := (remove_cand_prof cand ceqb).
Notation remove_cand_bs := (remove_cand_bs cand ceqb).
Notation first_place_votes := (first_place_votes cand ceqb).
Notation wf_profile := (wf_profile cand).
Notation brd_next := (brd_next cand ceqb).
Notation brd_lambda := (brd_lambda cand).
Notation brd_closed_form := (brd_closed_form cand ceqb).
Notation sq_share_form := (sq_share_form cand ceqb).
Notation brd_share_form := (brd_share_form cand ceqb).
Notation brd_share_path := (brd_share_path cand ceqb).
Notation brd_path_prob := (brd_path_prob cand ceqb).
Notation brd_domain := (brd_domain cand).
Notation brd_path_ok := (brd_path_ok cand ceqb).
Notation brd_support := (brd_support cand).
Notation brd_tree_ok := (brd_tree_ok cand ceqb).
Notation brd_seats_ok := (brd_seats_ok cand).
Notation dict_chain := (dict_chain cand ceqb).
Notation tally_linked := (tally_linked cand ceqb).

Local Lemma ceqb_refl'' : forall a, ceqb a a = true.
Proof. intros a. destruct (ceqb_spec a a) as [_|H]; [reflexivity|contradiction]. Qed.

Local Lemma memb_In'' : forall c s, memb c s = true <-> In c s.
Proof. exact (Lib_sets.memb_In cand ceqb ceqb_spec). Qed.

(* ------------------------------------------------------------------ *)
(** * 1. One step, closed form over the whole domain *)

Lemma brd_next_inv : forall w (p np : profile) d',
  brd_next w p = inl (np, d') ->
  remove_cand_prof [w] true false p = inl np /\ first_place_votes np = inl d'.
Proof.
  intros w p np d' H. unfold BRDSpec.brd_next in H.
  destruct (remove_cand_prof [w] true false p) as [np0|e0]; [|discriminate].
  destruct (first_place_votes np0) as [d0|e0] eqn:Hd; [|discriminate].
  injection H as <- <-. split; [reflexivity|exact Hd].
Qed.

Lemma brd_next_intro : forall w (p np : profile) d',
  remove_cand_prof [w] true false p = inl np -> first_place_votes np = inl d' ->
  brd_next w p = inl (np, d').
Proof. intros w p np d' H1 H2. unfold BRDSpec.brd_next. rewrite H1, H2. reflexivity. Qed.

Theorem brd_step_closed : forall (p : profile) (d : scores), brd_domain p d ->
  mass (law_brd_winner p d) == 1 /\
  forall w, prob (ceqb w) (law_brd_winner p d) == brd_closed_form p d w.
Proof.
  intros p d [(c & Hc)|(Hdom & Hlen & Hnd & Hs)].
  - destruct (brd_single_law cand ceqb ceqb_spec p d c Hc) as (Hlaw & Hm & _).
    split; [exact Hm|]. intros w. rewrite Hlaw, prob_dret.
    unfold BRDSpec.brd_closed_form. rewrite Hc. reflexivity.
  - split.
    + destruct (cands p) as [|c1 cs] eqn:Hc; [cbn [length] in Hlen; lia|]. rewrite <- Hc in Hlen.
      exact (proj1 (brd_step_law cand ceqb ceqb_spec p d c1 Hdom Hlen Hnd Hs)).
    + intros w. rewrite (proj2 (brd_step_law cand ceqb ceqb_spec p d w Hdom Hlen Hnd Hs)).
      unfold BRDSpec.brd_closed_form, BRDSpec.brd_lambda.
      destruct (cands p) as [|c1 [|c2 cs]]; cbn [length] in Hlen; [lia|lia|reflexivity].
Qed.

(* ------------------------------------------------------------------ *)
(** * 2. The multi-seat law: recursive equation, path product, total mass *)

(* the recursive equation of the law of the sequence of winners, without any hypothesis *)
Theorem brd_sequence_rec : forall k (p : profile) (d : scores) w ws,
  prob (list_eqb (w :: ws)) (law_brd_sequence (S k) p d) ==
  prob (ceqb w) (law_brd_winner p d) *
  match brd_next w p with
  | inl (np, d') => prob (list_eqb ws) (law_brd_sequence k np d')
  | inr _ => 0
  end.
Proof.
  intros k p d w ws. cbn [BRDSpec.law_brd_sequence]. rewrite prob_dbind.
  rewrite (prob_as_sum (ceqb w) (law_brd_winner p d)), <- qsum_map_scal_r.
  apply qsum_map_ext_in. intros [x q] _. cbn [fst snd].
  destruct (ceqb_spec w x) as [<-|Hne].
  - destruct (brd_next w p) as [[np d']|e0].
    + rewrite prob_dbind_dret.
      rewrite (prob_ext_in (fun l => list_eqb (w :: ws) (w :: l)) (list_eqb ws)); [reflexivity|].
      intros l q' _. cbn [LawSpec.list_eqb]. rewrite ceqb_refl''. reflexivity.
    + rewrite prob_nil. reflexivity.
  - assert (E : prob (list_eqb (w :: ws))
                  match brd_next x p with
                  | inl (np, d') => dbind (law_brd_sequence k np d') (fun l => dret (x :: l))
                  | inr _ => []
                  end == 0).
    { destruct (brd_next x p) as [[np d']|e0]; [|rewrite prob_nil; reflexivity].
      rewrite prob_dbind_dret. rewrite <- (prob_false (law_brd_sequence k np d')).
      apply prob_ext_in. intros l q' _. cbn [LawSpec.list_eqb].
      destruct (ceqb_spec w x) as [E|_]; [contradiction|reflexivity]. }
    rewrite E. ring.
Qed.

(* P(w1, ..., wk) = product of the one-step closed forms along the path *)
Theorem brd_sequence_path : forall ws (p : profile) (d : scores), brd_path_ok ws p d ->
  prob (list_eqb ws) (law_brd_sequence (length ws) p d) == brd_path_prob ws p d.
Proof.
  induction ws as [|w ws IH]; intros p d Hok.
  - cbn [length BRDSpec.law_brd_sequence BRDSpec.brd_path_prob]. rewrite prob_dret. reflexivity.
  - cbn [length BRDSpec.brd_path_prob]. cbn [BRDSpec.brd_path_ok] in Hok. destruct Hok as [Hdom Hrest].
    rewrite brd_sequence_rec. rewrite (proj2 (brd_step_closed p d Hdom) w).
    destruct (brd_next w p) as [[np d']|e0]; [|reflexivity].
    rewrite (IH np d' Hrest). reflexivity.
Qed.

(* the support of one step *)
Lemma squares_keys : forall (d : scores) t, map fst (squares d t) = map fst d.
Proof. intros d t. unfold Rules.squares. cbv zeta. rewrite !map_map. reflexivity. Qed.

Lemma categorical_keys : forall {A} (pop : list (A * Q)), map fst (categorical pop) = map fst pop.
Proof. intros A pop. unfold categorical. rewrite map_map. reflexivity. Qed.

Lemma dscale_keys : forall {A} k (d : dist A), map fst (dscale k d) = map fst d.
Proof. intros A k d. unfold dscale. rewrite map_map. reflexivity. Qed.

Lemma law_brd_winner_support : forall (p : profile) (d : scores) w q,
  In (w, q) (law_brd_winner p d) -> brd_support p d w.
Proof.
  intros p d w q H. unfold Laws.law_brd_winner in H. unfold BRDSpec.brd_support.
  assert (Hmix : forall lam,
            In (w, q) (dmix lam (categorical (squares d (total_wt (ballots p)))) (law_rd_winner p)) ->
            In w (map fst d) \/ some_first p w).
  { intros lam Hin. unfold dmix in Hin. apply in_app_or in Hin. destruct Hin as [Hin|Hin].
    - left. apply (in_map fst) in Hin. cbn [fst] in Hin.
      rewrite dscale_keys, categorical_keys, squares_keys in Hin. exact Hin.
    - right. apply (in_map fst) in Hin. cbn [fst] in Hin. rewrite dscale_keys in Hin.
      apply in_map_iff in Hin. destruct Hin as ([w' q'] & E & Hin). cbn [fst] in E. subst w'.
      exact (law_rd_winner_support cand p w q' Hin). }
  destruct (cands p) as [|c1 [|c2 cs]].
  - right. exact (Hmix _ H).
  - left. destruct H as [E|[]]. injection E as <- _. reflexivity.
  - right. exact (Hmix _ H).
Qed.

(* total mass 1 when every reachable (profile, score list) stays in the domain *)
Theorem brd_sequence_mass : forall k (p : profile) (d : scores), brd_tree_ok k p d ->
  mass (law_brd_sequence k p d) == 1.
Proof.
  induction k as [|k IH]; intros p d Hok.
  - apply mass_dret.
  - cbn [BRDSpec.brd_tree_ok] in Hok. destruct Hok as [Hdom Hnext].
    cbn [BRDSpec.law_brd_sequence]. rewrite mass_dbind_one; [apply (brd_step_closed p d Hdom)|].
    intros w q Hw. apply law_brd_winner_support in Hw.
    destruct (Hnext w Hw) as (np & d' & -> & Hnp).
    rewrite mass_dbind_one; [apply IH; exact Hnp|]. intros l q' _. apply mass_dret.
Qed.

(* ------------------------------------------------------------------ *)
(** * 3. The first-place tally as score list: squares of the current shares *)

Lemma fpv_keys : forall (p : profile) d, first_place_votes p = inl d -> map fst d = cands p.
Proof. exact (C01_dictator.fpv_keys cand ceqb). Qed.

(* the first-place tallies add up to the total weight (at least one candidate) *)
Lemma fpv_total : forall (p : profile) d, wf_profile p -> first_place_votes p = inl d ->
  (1 <= length (cands p))%nat -> qsum (map snd d) == total_wt (ballots p).
Proof.
  intros p d Hwf Hd Hn. unfold Core.first_place_votes in Hd.
  destruct (c04_total_proof cand ceqb ceqb_spec p _ d Hwf Hd) as (_ & Ht & _). rewrite Ht.
  destruct (length (cands p)) as [|n] eqn:Hlen; [lia|].
  cbn [seq map]. rewrite qsum_cons, fpv_entry_0.
  rewrite qsum_map_zero; [ring|]. intros j Hj. apply in_seq in Hj. apply fpv_entry_later. lia.
Qed.

Lemma sq_nonneg : forall v : Q, 0 <= v * v.
Proof.
  intros v. destruct (Qlt_le_dec v 0) as [Hn|Hn].
  - setoid_replace (v * v) with ((- v) * (- v)) by ring. apply Qmult_le_0_compat; lra.
  - apply Qmult_le_0_compat; exact Hn.
Qed.

(* ... so with a positive total weight some tally is non-zero *)
Lemma fpv_sumsq_pos : forall (p : profile) d, wf_profile p -> first_place_votes p = inl d ->
  (1 <= length (cands p))%nat -> 0 < total_wt (ballots p) -> 0 < sumsq cand d.
Proof.
  intros p d Hwf Hd Hn Ht. pose proof (fpv_total p d Hwf Hd Hn) as Hsum.
  rewrite <- Hsum in Ht. apply qsum_map_pos_inv in Ht. destruct Ht as (cq & Hin & Hpos).
  unfold sumsq. apply (qsum_map_pos (fun q : cand * Q => snd q * snd q) d cq).
  - intros x _. apply sq_nonneg.
  - exact Hin.
  - apply Qmult_lt_0_compat; exact Hpos.
Qed.

(* a candidate outside the candidate list has no first-place share *)
Lemma rd_closed_form_out : forall (p : profile) x, wf_profile p -> ~ In x (cands p) ->
  rd_closed_form p x == 0.
Proof.
  intros p x [_ Hbs] Hx. unfold Laws.rd_closed_form.
  assert (E : qsum (map (fun b : ballot => wt b * first_share x (rk b)) (ballots p)) == 0).
  { apply qsum_map_zero. intros b Hb. rewrite Forall_forall in Hbs.
    destruct (Hbs b Hb) as (_ & _ & _ & Hincl). unfold Laws.first_share.
    destruct (rk b) as [|s r']; [ring|].
    destruct (memb x s) eqn:Hm; [|ring]. exfalso. apply Hx. apply Hincl.
    apply memb_In'' in Hm. rewrite (flat_cons cand). apply in_or_app. left. exact Hm. }
  rewrite E. unfold Qdiv. ring.
Qed.

(* every looked-up tally is the share times the total weight *)
Lemma fpv_lookup_share : forall (p : profile) d x, wf_profile p -> first_place_votes p = inl d ->
  ~ total_wt (ballots p) == 0 ->
  lookup0 x d == rd_closed_form p x * total_wt (ballots p).
Proof.
  intros p d x Hwf Hd Ht. pose proof (fpv_keys p d Hd) as Hk.
  destruct (memb x (cands p)) eqn:Hm.
  - apply memb_In'' in Hm. rewrite <- Hk in Hm. apply in_map_iff in Hm.
    destruct Hm as ([x' q] & E & Hin). cbn [fst] in E. subst x'.
    assert (Hnd : NoDup (map fst d)) by (rewrite Hk; apply Hwf).
    rewrite (C08_anon.lookup0_in cand ceqb ceqb_spec d x q Hnd Hin).
    rewrite (rd_closed_form_fpv cand ceqb ceqb_spec p d x q Hwf Hd Hin). field. exact Ht.
  - assert (Hx : ~ In x (cands p)) by (intros Hin; apply memb_In'' in Hin; congruence).
    rewrite (C08_anon.lookup0_notin cand ceqb ceqb_spec d x) by (rewrite Hk; exact Hx).
    rewrite (rd_closed_form_out p x Hwf Hx). ring.
Qed.

Lemma fpv_sumsq_share : forall (p : profile) d, wf_profile p -> first_place_votes p = inl d ->
  ~ total_wt (ballots p) == 0 ->
  sumsq cand d == qsum (map (fun c => rd_closed_form p c * rd_closed_form p c) (cands p)) *
                  (total_wt (ballots p) * total_wt (ballots p)).
Proof.
  intros p d Hwf Hd Ht. rewrite <- (fpv_keys p d Hd), map_map, <- qsum_map_scal_r.
  unfold sumsq. apply qsum_map_ext_in. intros [c q] Hin. cbn [fst snd].
  rewrite (rd_closed_form_fpv cand ceqb ceqb_spec p d c q Hwf Hd Hin). field. exact Ht.
Qed.

(* the squares rule on the first-place tally = squares of the shares *)
Theorem squares_fpv_shares : forall (p : profile) d x, wf_profile p ->
  first_place_votes p = inl d -> (1 <= length (cands p))%nat -> 0 < total_wt (ballots p) ->
  squares_closed_form d x == sq_share_form p x.
Proof.
  intros p d x Hwf Hd Hn Ht.
  assert (Ht' : ~ total_wt (ballots p) == 0) by (apply total_pos_neq0; exact Ht).
  pose proof (fpv_sumsq_pos p d Hwf Hd Hn Ht) as Hs.
  pose proof (fpv_sumsq_share p d Hwf Hd Ht') as Hss.
  unfold Laws.squares_closed_form, BRDSpec.sq_share_form. fold (sumsq cand d).
  rewrite (fpv_lookup_share p d x Hwf Hd Ht'), Hss.
  set (S2 := qsum (map (fun c => rd_closed_form p c * rd_closed_form p c) (cands p))) in *.
  assert (HS2 : ~ S2 == 0).
  { intros E. rewrite E, Qmult_0_l in Hss. rewrite Hss in Hs. apply (Qlt_irrefl 0). exact Hs. }
  field. split; assumption.
Qed.

(* the domain of a Boosted step holds on the tally of a well-formed profile with positive weight *)
Lemma wf_rd_domain : forall p : profile, wf_profile p -> 0 < total_wt (ballots p) -> rd_domain p.
Proof.
  intros p [_ Hbs] Ht. split; [|exact Ht]. eapply Forall_impl; [|exact Hbs].
  intros b (Hne & Hgr & Hnd & _). destruct (rk b) as [|s r']; [contradiction|].
  exists s, r'. split; [reflexivity|]. inversion Hgr as [|s0 r0 Hs _]; subst.
  split; [exact Hs|]. rewrite (flat_cons cand) in Hnd. apply NoDup_app_inv in Hnd. apply Hnd.
Qed.

Lemma fpv_brd_domain : forall (p : profile) d, wf_profile p -> first_place_votes p = inl d ->
  (1 <= length (cands p))%nat -> 0 < total_wt (ballots p) -> brd_domain p d.
Proof.
  intros p d Hwf Hd Hn Ht. destruct (le_lt_dec 2 (length (cands p))) as [H2|H2].
  - right. split; [apply wf_rd_domain; assumption|]. split; [exact H2|]. split.
    + rewrite (fpv_keys p d Hd). apply Hwf.
    + exact (fpv_sumsq_pos p d Hwf Hd Hn Ht).
  - left. destruct (cands p) as [|c1 [|c2 cs]]; cbn [length] in Hn, H2; [lia| |lia].
    exists c1. reflexivity.
Qed.

Theorem brd_closed_form_shares : forall (p : profile) d w, wf_profile p ->
  first_place_votes p = inl d -> (1 <= length (cands p))%nat -> 0 < total_wt (ballots p) ->
  brd_closed_form p d w == brd_share_form p w.
Proof.
  intros p d w Hwf Hd Hn Ht. pose proof (squares_fpv_shares p d w Hwf Hd Hn Ht) as E.
  unfold BRDSpec.brd_closed_form, BRDSpec.brd_share_form.
  destruct (cands p) as [|c1 [|c2 cs]]; [rewrite E; reflexivity|reflexivity|rewrite E; reflexivity].
Qed.

(* the one-step law with the score list instantiated by the current first-place tally *)
Theorem brd_step_run_law : forall (p : profile) (d : scores), wf_profile p ->
  first_place_votes p = inl d -> (2 <= length (cands p))%nat -> 0 < total_wt (ballots p) ->
  mass (law_brd_winner p d) == 1 /\
  forall x, prob (ceqb x) (law_brd_winner p d) ==
    brd_lambda p * sq_share_form p x + (1 - brd_lambda p) * rd_closed_form p x.
Proof.
  intros p d Hwf Hd Hn Ht. assert (Hn1 : (1 <= length (cands p))%nat) by lia.
  destruct (brd_step_closed p d (fpv_brd_domain p d Hwf Hd Hn1 Ht)) as [Hm Hp].
  split; [exact Hm|]. intros x. rewrite Hp, (brd_closed_form_shares p d x Hwf Hd Hn1 Ht).
  unfold BRDSpec.brd_share_form.
  destruct (cands p) as [|c1 [|c2 cs]]; cbn [length] in Hn; [lia|lia|reflexivity].
Qed.

(* ------------------------------------------------------------------ *)
(** * 4. A checkable condition on the initial profile implies the invariant *)

Lemma remove_prof_ballots : forall W (p np : profile),
  remove_cand_prof W true false p = inl np -> ballots np = remove_cand_bs W true false (ballots p).
Proof.
  intros W p np H. unfold Core.remove_cand_prof, Core.mk_profile in H.
  destruct (has_dup cand ceqb (set_diff cand ceqb (cands p) W)); [discriminate|].
  unfold ok in H. injection H as <-. reflexivity.
Qed.

Lemma seats_ok_ranked : forall k (p : profile), brd_seats_ok k p -> ranked_profile cand p.
Proof. intros k p (Hwf & Hsf & _). split; assumption. Qed.

Lemma filter_out_one_length_eq : forall w (l : list cand), NoDup l -> In w l ->
  length l = S (length (filter (fun c => negb (memb c [w])) l)).
Proof.
  intros w l Hnd. induction Hnd as [|x l Hx Hnd IH]; intros Hin; [destruct Hin|].
  cbn [filter length]. destruct (memb x [w]) eqn:Hm; cbn [negb length].
  - apply memb_In'' in Hm. destruct Hm as [<-|[]].
    rewrite filter_all_true; [reflexivity|]. intros c Hc. cbn [Core.memb existsb].
    rewrite orb_false_r. destruct (ceqb_spec c w) as [->|_]; [contradiction|reflexivity].
  - destruct Hin as [->|Hin].
    + cbn [Core.memb existsb] in Hm. rewrite ceqb_refl'' in Hm. discriminate.
    + rewrite (IH Hin). reflexivity.
Qed.

(* the update between two seats never fails and keeps the condition, with one seat less *)
Lemma seats_ok_step : forall k (p : profile) w, brd_seats_ok (S k) p ->
  exists np d', brd_next w p = inl (np, d') /\ brd_seats_ok k np.
Proof.
  intros k p w Hok. pose proof (seats_ok_ranked _ _ Hok) as Hr.
  destruct Hok as (Hwf & Hsf & Hall & Hne). specialize (Hne (Nat.lt_0_succ k)).
  destruct (C01_lib.ranked_remove_ok cand ceqb ceqb_spec [w] p (proj1 Hwf)) as [np Hnp].
  pose proof (C01_lib.ranked_remove cand ceqb ceqb_spec [w] p np Hr Hnp) as [Hwf' Hsf'].
  destruct (C01_lib.ranked_fpv cand ceqb ceqb_spec np Hwf') as [d' Hd'].
  exists np, d'. split; [apply brd_next_intro; assumption|].
  pose proof (remove_prof_ballots [w] p np Hnp) as Hbs.
  destruct Hwf as [Hndc Hwfb]. rewrite Forall_forall in Hwfb, Hall.
  unfold EditSpec.score_free in Hsf. rewrite Forall_forall in Hsf.
  set (kept := filter (pos_wt cand) (map (scrub [w]) (ballots p))).
  assert (Hunf : ballots np = condense_bs kept).
  { rewrite Hbs, remove_cand_bs_unfold. reflexivity. }
  split; [exact Hwf'|]. split; [exact Hsf'|]. split.
  - assert (Hpos : all_pos cand (ballots np)).
    { rewrite Hunf. apply condense_pos. apply Forall_forall. intros b' Hb'. unfold kept in Hb'.
      apply filter_In in Hb'. apply pos_wt_iff. apply Hb'. }
    unfold all_pos in Hpos. rewrite Forall_forall in Hpos.
    apply Forall_forall. intros k0 Hk0. split; [apply Hpos; exact Hk0|].
    rewrite Hbs in Hk0.
    destruct (C08_anon.remove_member cand ceqb [w] (ballots p) k0 Hk0) as (b & Hb & Hrk & _).
    rewrite Hrk, strip_flat. destruct (Hwfb b Hb) as (_ & _ & Hnd & _).
    pose proof (filter_out_one_length cand ceqb ceqb_spec w (flat (rk b)) Hnd) as Hl.
    destruct (Hall b Hb) as [_ Hlen]. lia.
  - intros Hk. destruct k as [|k]; [lia|].
    assert (Hscrub : forall b, In b (ballots p) ->
              rd_ballot_ok cand (S k) (scrub [w] b) /\ pos_wt cand (scrub [w] b) = true).
    { intros b Hb. apply (scrub_ballot_ok cand ceqb ceqb_spec k w b).
      destruct (Hwfb b Hb) as (_ & Hgr & Hnd & _). destruct (Hall b Hb) as [Hw Hlen].
      split; [apply Hsf; exact Hb|]. split; [exact Hw|]. split; [exact Hnd|].
      split; [exact Hgr|exact Hlen]. }
    assert (Hkept : kept = map (scrub [w]) (ballots p)).
    { unfold kept. apply filter_all_true. intros b' Hb'. apply in_map_iff in Hb'.
      destruct Hb' as (b & <- & Hb). apply (Hscrub b Hb). }
    assert (Htot : 0 < total_wt kept).
    { apply (total_wt_pos cand).
      - rewrite Hkept. destruct (ballots p); [contradiction|discriminate].
      - rewrite Hkept. apply Forall_forall. intros b' Hb'. apply in_map_iff in Hb'.
        destruct Hb' as (b & <- & Hb). apply (Hscrub b Hb). }
    intros E. rewrite Hunf in E. rewrite <- (condense_total cand ceqb kept), E in Htot.
    apply (Qlt_irrefl 0). exact Htot.
Qed.

(* with a seat to fill the profile has a candidate and positive total weight *)
Lemma seats_ok_pos : forall k (p : profile), brd_seats_ok (S k) p ->
  (1 <= length (cands p))%nat /\ 0 < total_wt (ballots p).
Proof.
  intros k p (Hwf & _ & Hall & Hne). specialize (Hne (Nat.lt_0_succ k)). split.
  - destruct (ballots p) as [|b bs] eqn:Hbs; [contradiction|].
    destruct Hwf as [_ Hwfb]. rewrite Hbs in Hwfb. inversion Hwfb as [|b0 bs0 Hb _]; subst.
    inversion Hall as [|b0 bs0 [_ Hlen] _]; subst. destruct Hb as (_ & _ & _ & Hincl).
    destruct (cands p) as [|c cs]; [|cbn [length]; lia].
    destruct (flat (rk b)) as [|x l]; [cbn [length] in Hlen; lia|].
    destruct (Hincl x (or_introl eq_refl)).
  - apply (total_wt_pos cand); [exact Hne|]. eapply Forall_impl; [|exact Hall].
    intros b Hb. apply Hb.
Qed.

Theorem seats_ok_brd_tree : forall k (p : profile) (d : scores),
  brd_seats_ok k p -> first_place_votes p = inl d -> brd_tree_ok k p d.
Proof.
  induction k as [|k IH]; intros p d Hok Hd; [exact I|].
  cbn [BRDSpec.brd_tree_ok]. destruct (seats_ok_pos k p Hok) as [Hn Ht].
  split; [apply fpv_brd_domain; [apply Hok|exact Hd|exact Hn|exact Ht]|].
  intros w _. destruct (seats_ok_step k p w Hok) as (np & d' & Hnext & Hok').
  exists np, d'. split; [exact Hnext|]. apply IH; [exact Hok'|].
  apply (brd_next_inv w p np d' Hnext).
Qed.

Corollary brd_run_mass_seats : forall k (p : profile), brd_seats_ok k p ->
  mass (law_brd_run k p) == 1.
Proof.
  intros k p Hok. destruct (C01_lib.ranked_fpv cand ceqb ceqb_spec p (proj1 Hok)) as [d Hd].
  unfold BRDSpec.law_brd_run. rewrite Hd. apply brd_sequence_mass.
  apply seats_ok_brd_tree; assumption.
Qed.

(* the path product written with shares only *)
Lemma brd_share_form_out : forall (p : profile) w, wf_profile p -> ~ In w (cands p) ->
  brd_share_form p w == 0.
Proof.
  intros p w Hwf Hw. pose proof (rd_closed_form_out p w Hwf Hw) as E.
  assert (E2 : sq_share_form p w == 0).
  { unfold BRDSpec.sq_share_form. rewrite E. unfold Qdiv. ring. }
  unfold BRDSpec.brd_share_form. destruct (cands p) as [|c1 [|c2 cs]].
  - rewrite E, E2. ring.
  - destruct (ceqb_spec w c1) as [->|_]; [|reflexivity]. exfalso. apply Hw. left. reflexivity.
  - rewrite E, E2. ring.
Qed.

Theorem brd_sequence_share_path : forall ws (p : profile) (d : scores),
  brd_seats_ok (length ws) p -> first_place_votes p = inl d ->
  prob (list_eqb ws) (law_brd_sequence (length ws) p d) == brd_share_path ws p.
Proof.
  induction ws as [|w ws IH]; intros p d Hok Hd.
  - cbn [length BRDSpec.law_brd_sequence BRDSpec.brd_share_path]. rewrite prob_dret. reflexivity.
  - cbn [length] in Hok |- *. cbn [BRDSpec.brd_share_path]. rewrite brd_sequence_rec.
    destruct (seats_ok_pos _ p Hok) as [Hn Ht]. pose proof (proj1 Hok) as Hwf.
    rewrite (proj2 (brd_step_closed p d (fpv_brd_domain p d Hwf Hd Hn Ht)) w).
    rewrite (brd_closed_form_shares p d w Hwf Hd Hn Ht).
    destruct (seats_ok_step _ p w Hok) as (np & d' & Hnext & Hok').
    rewrite Hnext. destruct (brd_next_inv w p np d' Hnext) as [Hnp Hd']. rewrite Hnp.
    rewrite (IH np d' Hok' Hd'). reflexivity.
Qed.

Corollary brd_run_share_path : forall ws (p : profile), brd_seats_ok (length ws) p ->
  prob (list_eqb ws) (law_brd_run (length ws) p) == brd_share_path ws p.
Proof.
  intros ws p Hok. destruct (C01_lib.ranked_fpv cand ceqb ceqb_spec p (proj1 Hok)) as [d Hd].
  unfold BRDSpec.law_brd_run. rewrite Hd. apply brd_sequence_share_path; assumption.
Qed.

(* ------------------------------------------------------------------ *)
(** * 5. The mixing weight changes from seat to seat *)

(* electing a listed candidate leaves exactly one candidate less (at least two before) *)
Theorem brd_next_cands : forall (p np : profile) w, NoDup (cands p) -> In w (cands p) ->
  (2 <= length (cands p))%nat -> remove_cand_prof [w] true false p = inl np ->
  length (cands p) = S (length (cands np)).
Proof.
  intros p np w Hnd Hw Hlen H.
  destruct (remove_prof_cands cand ceqb ceqb_spec [w] true false p Hnd) as (np' & H' & _ & Hne & _).
  rewrite H in H'. injection H' as <-.
  pose proof (filter_out_one_length_eq w (cands p) Hnd Hw) as Hl.
  fold (set_diff cand ceqb (cands p) [w]) in Hl.
  destruct Hne as (Hc & _).
  - intros E. rewrite E in Hl. cbn [length] in Hl. lia.
  - rewrite Hc. exact Hl.
Qed.

Corollary brd_next_lambda : forall (p np : profile) w, NoDup (cands p) -> In w (cands p) ->
  (2 <= length (cands p))%nat -> remove_cand_prof [w] true false p = inl np ->
  brd_lambda np == 1 / (Qnat (length (cands p)) - 2).
Proof.
  intros p np w Hnd Hw Hlen H. unfold BRDSpec.brd_lambda.
  rewrite (brd_next_cands p np w Hnd Hw Hlen H).
  assert (E : Qnat (S (length (cands np))) == Qnat (length (cands np)) + 1).
  { unfold Qnat. rewrite Nat2Z.inj_succ. unfold Z.succ. rewrite inject_Z_plus. reflexivity. }
  rewrite E. setoid_replace (Qnat (length (cands np)) + 1 - 2) with (Qnat (length (cands np)) - 1) by ring.
  reflexivity.
Qed.

(* two candidates left: lambda = 1, the step is the pure squares rule *)
Theorem brd_two_cands : forall (p : profile) (d : scores) w, length (cands p) = 2%nat ->
  brd_lambda p == 1 /\ brd_closed_form p d w == squares_closed_form d w.
Proof.
  intros p d w Hlen.
  assert (Hl : brd_lambda p == 1).
  { unfold BRDSpec.brd_lambda. rewrite Hlen. reflexivity. }
  split; [exact Hl|]. unfold BRDSpec.brd_closed_form.
  destruct (cands p) as [|c1 [|c2 cs]]; cbn [length] in Hlen; [lia|lia|]. rewrite Hl. ring.
Qed.

(* ------------------------------------------------------------------ *)
(** * 6. The run: [escores] of every state is the first-place tally of its profile *)

Lemma elect_one_escores : forall w tbs (p : profile) (prev : estate) (st st' : mstate) np e,
  elect_one w tbs p prev st = inl ((np, e), st') -> first_place_votes np = inl (escores e).
Proof.
  intros w tbs p prev st st' np e H. unfold Rules.elect_one, mbind, mlift in H.
  destruct (remove_cand_prof [w] true false p) as [np0|e0]; [|discriminate]. unfold ok in H.
  destruct (first_place_votes np0) as [d|e0] eqn:Hd; [|discriminate].
  unfold mret, ok in H. injection H as <- <- _. exact Hd.
Qed.

Theorem rd_step_escores : forall (p : profile) (prev : estate) (st st' : mstate) np e,
  rd_step p prev st = inl ((np, e), st') -> first_place_votes np = inl (escores e).
Proof.
  intros p prev st st' np e H. unfold Rules.rd_step in H.
  apply C10_quiet.mbind_ok_inv in H. destruct H as (r & s1 & _ & H).
  apply C10_quiet.mbind_ok_inv in H. destruct H as ([w tbs] & s2 & _ & H).
  exact (elect_one_escores _ _ _ _ _ _ _ _ H).
Qed.

Theorem brd_step_escores : forall (p : profile) (prev : estate) (st st' : mstate) np e,
  brd_step p prev st = inl ((np, e), st') -> first_place_votes np = inl (escores e).
Proof.
  intros p prev st st' np e H. rewrite C01_dictator.brd_step_unfold in H.
  destruct (scr st) as [|du rest]; [discriminate|].
  destruct du as [| | |u| |]; try discriminate. cbv zeta in H.
  set (s1 := mkM rest (CUniform :: lg st)) in *.
  assert (Hgen : (if Qle_bool u (1 / (Qnat (length (cands p)) - 1))
                  then C01_dictator.brd_np cand ceqb p prev s1
                  else rd_step p prev s1) = inl ((np, e), st') ->
                 first_place_votes np = inl (escores e)).
  { intros G. destruct (Qle_bool u (1 / (Qnat (length (cands p)) - 1))).
    - unfold C01_dictator.brd_np in G.
      destruct (Qeq_bool (total_wt (ballots p)) 0); [discriminate|].
      destruct (Qeq_bool (squares_mass cand (escores prev) (total_wt (ballots p))) 0); [discriminate|].
      apply C10_quiet.mbind_ok_inv in G. destruct G as (dc & s2 & _ & G).
      destruct dc as [| | | |w|]; try discriminate.
      destruct (memb w (map fst (escores prev))); [|discriminate].
      exact (elect_one_escores _ _ _ _ _ _ _ _ G).
    - exact (rd_step_escores _ _ _ _ _ _ G). }
  destruct (cands p) as [|c [|c' l]].
  - apply Hgen. exact H.
  - exact (elect_one_escores _ _ _ _ _ _ _ _ H).
  - apply Hgen. exact H.
Qed.

Lemma any_step_escores : forall (boosted : bool) (p : profile) (prev : estate) (st st' : mstate) np e,
  (if boosted then brd_step p prev st else rd_step p prev st) = inl ((np, e), st') ->
  first_place_votes np = inl (escores e).
Proof.
  intros [|] p prev st st' np e H;
    [exact (brd_step_escores _ _ _ _ _ _ H)|exact (rd_step_escores _ _ _ _ _ _ H)].
Qed.

Theorem round0_escores : forall (p : profile) (s0 : estate),
  round0 cand ceqb SKFpv p = inl s0 -> first_place_votes p = inl (escores s0).
Proof.
  intros p s0 H. unfold Rules.round0, Rules.score_fn in H.
  destruct (first_place_votes p) as [d|e0]; [|discriminate].
  cbn [rbind] in H. unfold ok in H. injection H as <-. reflexivity.
Qed.

(* every chain of steps keeps the link *)
Lemma dict_chain_linked : forall (boosted : bool) chain (p : profile) (prev : estate) (st st' : mstate),
  dict_chain boosted p prev st chain st' -> Forall tally_linked chain.
Proof.
  intros boosted. induction chain as [|[np e] rest IH]; intros p prev st st' H; [constructor|].
  cbn [BRDSpec.dict_chain] in H. destruct H as (st1 & Hstep & Hrest). constructor.
  - unfold BRDSpec.tally_linked. cbn [fst snd]. exact (any_step_escores _ _ _ _ _ _ _ Hstep).
  - exact (IH np e st1 st' Hrest).
Qed.

(* the loop produces a chain of steps; its output lists the states of the chain *)
Lemma dictator_loop_chain : forall fuel (boosted : bool) m (p : profile) (prev : estate) older
    (st st' : mstate) out,
  dictator_loop cand ceqb fuel boosted m p (prev :: older) st = inl (out, st') ->
  exists chain, out = rev older ++ prev :: map snd chain /\ dict_chain boosted p prev st chain st'.
Proof.
  induction fuel as [|fuel IH]; intros boosted m p prev older st st' out H.
  - cbn [Rules.dictator_loop] in H.
    destruct (m <=? count_elected cand (prev :: older))%Z; [|discriminate].
    unfold mret, ok in H. injection H as <- <-. exists []. split; reflexivity.
  - cbn [Rules.dictator_loop] in H.
    destruct (m <=? count_elected cand (prev :: older))%Z.
    + unfold mret, ok in H. injection H as <- <-. exists []. split; reflexivity.
    + apply C10_quiet.mbind_ok_inv in H. destruct H as ([np e] & s1 & Hstep & H).
      destruct (IH boosted m np e (prev :: older) s1 st' out H) as (chain & Hout & Hch).
      exists ((np, e) :: chain). split.
      * rewrite Hout. cbn [rev map snd]. rewrite <- app_assoc. reflexivity.
      * cbn [BRDSpec.dict_chain]. exists s1. split; [|exact Hch].
        destruct boosted; exact Hstep.
Qed.

(* the whole run: round-0 state of the input profile, then a chain of steps, all linked *)
Theorem run_dictator_linked : forall (boosted : bool) m (p : profile) (st st' : mstate) sts,
  run_dictator cand ceqb boosted m p st = inl (sts, st') ->
  exists s0 chain,
    sts = s0 :: map snd chain /\ tally_linked (p, s0) /\
    dict_chain boosted p s0 st chain st' /\ Forall tally_linked chain.
Proof.
  intros boosted m p st st' sts H. unfold Rules.run_dictator in H.
  apply C10_quiet.mbind_lift_inv in H. destruct H as (_ & _ & H).
  apply C10_quiet.mbind_lift_inv in H. destruct H as (_ & _ & H).
  apply C10_quiet.mbind_lift_inv in H. destruct H as (s0 & Hs0 & H).
  destruct (dictator_loop_chain _ _ _ _ _ _ _ _ _ H) as (chain & Hout & Hch).
  exists s0, chain. split; [exact Hout|]. split; [exact (round0_escores p s0 Hs0)|].
  split; [exact Hch|exact (dict_chain_linked _ _ _ _ _ _ Hch)].
Qed.

(* ------------------------------------------------------------------ *)
(** * 7. The errors of a step played from a linked state *)

(* a valid profile without candidates has no ballots *)
Lemma wf_no_cands_no_ballots : forall p : profile, wf_profile p -> cands p = [] -> ballots p = [].
Proof.
  intros p [_ Hbs] Hc. destruct (ballots p) as [|b bs]; [reflexivity|exfalso].
  inversion Hbs as [|b' l' Hb _]; subst. destruct Hb as (Hne & Hg & _ & Hincl).
  destruct (rk b) as [|g r]; [apply Hne; reflexivity|].
  inversion Hg as [|g' l'' Hgne _]; subst. destruct g as [|c g]; [apply Hgne; reflexivity|].
  rewrite Hc in Hincl. apply (Hincl c). rewrite (flat_cons cand). left. reflexivity.
Qed.

(* the normaliser of the squares is non-zero on the first-place tally of a valid profile with a
   positive total weight: numpy's "probabilities contain NaN" then has the single cause total = 0 *)
Theorem fpv_squares_mass_nonzero : forall (p : profile) d, wf_profile p ->
  first_place_votes p = inl d -> 0 < total_wt (ballots p) ->
  ~ squares_mass cand d (total_wt (ballots p)) == 0.
Proof.
  intros p d Hwf Hd Ht Hz.
  assert (Ht' : ~ total_wt (ballots p) == 0) by (intros E; rewrite E in Ht; apply (Qlt_irrefl 0); exact Ht).
  assert (Hn : (1 <= length (cands p))%nat).
  { destruct (cands p) as [|c cs] eqn:Hc; [exfalso|cbn [length]; lia].
    rewrite (wf_no_cands_no_ballots p Hwf Hc) in Ht. apply (Qlt_irrefl 0). exact Ht. }
  pose proof (fpv_sumsq_pos p d Hwf Hd Hn Ht) as Hs.
  apply (squares_mass_zero_iff cand d _ Ht') in Hz. rewrite Hz in Hs. apply (Qlt_irrefl 0). exact Hs.
Qed.

(* hence, from a state that holds the first-place tallies of the profile (every state a run passes
   to a step: [run_dictator_linked], C01_dictator.dictator_run_errors), the errors of the boosted
   step are what they were before the normaliser test was modelled *)
Theorem brd_step_errors_linked : forall (p : profile) (prev : estate) (s : mstate) e,
  ranked_profile cand p -> first_place_votes p = inl (escores prev) ->
  brd_step p prev s = inr e ->
  (e = EIndex /\ ballots p = []) \/ (e = EValue /\ total_wt (ballots p) <= 0) \/ e = EScript.
Proof.
  intros p prev s e Hr Hd H.
  destruct (C01_dictator.brd_step_errors cand ceqb ceqb_spec p prev s e Hr H) as [Hi|[(Hv & Hc)|Hs]].
  - left. exact Hi.
  - right. left. split; [exact Hv|]. destruct Hc as [Hc|Hc]; [exact Hc|].
    destruct (Qlt_le_dec 0 (total_wt (ballots p))) as [Hpos|Hle]; [exfalso|exact Hle].
    exact (fpv_squares_mass_nonzero p (escores prev) (proj1 Hr) Hd Hpos Hc).
  - right. right. exact Hs.
Qed.

(* a failed boosted run: seat count out of range, or one of the three errors of a round played on a
   reduced profile *)
Theorem brd_run_errors_linked : forall m (p : profile) (s : mstate) e,
  ranked_profile cand p -> run_dictator cand ceqb true m p s = inr e ->
  (e = EValue /\ ~ (1 <= m <= Z.of_nat (length (cands p)))%Z) \/
  (exists cur : profile, ranked_profile cand cur /\ incl (cands cur) (cands p) /\
     ((e = EIndex /\ ballots cur = []) \/ (e = EValue /\ total_wt (ballots cur) <= 0) \/
      e = EScript)).
Proof.
  intros m p s e Hr H.
  destruct (C01_dictator.dictator_run_errors cand ceqb ceqb_spec true m p s e Hr H)
    as [Hl|(cur & prev & s1 & Hc & Hsub & Hd & Hstep)]; [left; exact Hl|right].
  exists cur. split; [exact Hc|]. split; [exact Hsub|].
  exact (brd_step_errors_linked cur prev s1 e Hc Hd Hstep).
Qed.

End C17B.
