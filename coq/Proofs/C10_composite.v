(* Proofs/C10_composite.v — C10 for the composite rules TopTwo and Alaska: what a recorded
   tiebreak of each of their rounds means.
   - the Plurality(m) stage (round 1 of both rules): the recorded set is the group of the round-0
     first-place ranking straddling seat m, its members tied on the first-place votes of p; the
     resolution is a strict order of exactly that set; the survivors of the set are a prefix of
     the order, its eliminated members the rest;
   - TopTwo round 2 (Plurality(1) on the reduced profile): the two finalists are tied head to head;
   - Alaska rounds >= 2: the bumped rounds of the inner STV run (c10_stv_closed_proof transfers);
   - scored tiebreaks ('borda' / 'first_place') order by that score of the profile handed to
     elect_top_m (p in round 1, the reduced profile in TopTwo round 2), and a 'first_place'
     tiebreak of a Plurality stage is always a plain random draw (the tiebreak score is the
     deciding tally itself);
   - without a tiebreak option nothing is ever recorded by the stages. *)
From VK Require Import Base Core STV Pairwise Rules.
From VK.Spec Require Import ScoreSpec TieSpec TopMSpec STVSpec.
From VK.Proofs Require Import Lib_sets C04_scoring Elect C10_script C10_quiet C10_tiebreak C10_closed
  C13_composite C01_composite.
From Coq Require Import Permutation Lia.

Section Composite10.
Variable cand : Type.
Variable ceqb : cand -> cand -> bool.
Hypothesis ceqb_spec : forall a b, reflect (a = b) (ceqb a b).

Notation cset := (cset cand).
Notation ranking := (ranking cand).
Notation profile := (profile cand).
Notation scores := (scores cand).
Notation mstate := (mstate cand).
Notation estate := (estate cand).
Notation flat := (flat cand).
Notation singletons := (singletons cand).
Notation score_to_ranking := (score_to_ranking cand).
Notation memb := (memb cand ceqb).
Notation tied_at := (tied_at cand).
Notation tied_on := (tied_on cand).
Notation no_tiebreak := (no_tiebreak cand).
Notation big := (big cand).
Notation rebuild := (rebuild cand).
Notation no_group := (no_group cand).
Notation bump := (bump cand).
Notation wf_stv0 := (wf_stv0 cand).
Notation tiebreak_set := (tiebreak_set cand ceqb).
Notation first_place_votes := (first_place_votes cand ceqb).
Notation borda_scores := (borda_scores cand ceqb).
Notation remove_cand_prof := (remove_cand_prof cand ceqb).
Notation round0 := (round0 cand ceqb).
Notation plurality_stage := (plurality_stage cand ceqb).
Notation run_plurality := (run_plurality cand ceqb).
Notation run_toptwo := (run_toptwo cand ceqb).
Notation run_alaska := (run_alaska cand ceqb).
Notation run_stv := (run_stv cand ceqb).
Notation stv_init := (stv_init cand).

(* ------------------------------------------------------------------ *)
(** * small list facts *)

Lemma flat_nil_groups : forall r : ranking,
  (forall g, In g r -> g <> []) -> flat r = [] -> r = [].
Proof.
  intros [|g r] Hne Hf; [reflexivity|]. exfalso.
  rewrite (flat_cons cand) in Hf. apply app_eq_nil in Hf. destruct Hf as [Hg _].
  apply (Hne g); [left; reflexivity|exact Hg].
Qed.

Lemma two_order : forall (l : list cand) a b, In a l -> In b l -> a <> b ->
  (exists x y z, l = x ++ a :: y ++ b :: z) \/ (exists x y z, l = x ++ b :: y ++ a :: z).
Proof.
  intros l a b Ha Hb Hab. apply in_split in Ha. destruct Ha as [l1 [l2 ->]].
  apply in_app_or in Hb. destruct Hb as [Hb|[Hb|Hb]].
  - right. apply in_split in Hb. destruct Hb as [x [y ->]]. exists x, y, l2.
    rewrite <- app_assoc. reflexivity.
  - contradiction Hab.
  - left. apply in_split in Hb. destruct Hb as [y [z ->]]. exists l1, y, z. reflexivity.
Qed.

Lemma scores_functional : forall (d : scores) c q1 q2,
  NoDup (map fst d) -> In (c, q1) d -> In (c, q2) d -> q1 = q2.
Proof.
  induction d as [|[c0 q0] d IH]; intros c q1 q2 Hnd H1 H2; [destruct H1|].
  cbn [map fst] in Hnd. inversion Hnd as [|x l Hnotin Hnd']; subst.
  destruct H1 as [H1|H1]; destruct H2 as [H2|H2].
  - inversion H1; inversion H2; subst. reflexivity.
  - inversion H1; subst. contradiction Hnotin. apply in_map_iff. exists (c, q2). split; [reflexivity|exact H2].
  - inversion H2; subst. contradiction Hnotin. apply in_map_iff. exists (c, q1). split; [reflexivity|exact H1].
  - eapply IH; eassumption.
Qed.

Lemma fpv_keys : forall (p : profile) d, first_place_votes p = inl d -> map fst d = cands p.
Proof. intros p d H. unfold Core.first_place_votes in H. eapply score_rankings_keys. exact H. Qed.

Lemma borda_keys : forall (p : profile) d, borda_scores p = inl d -> map fst d = cands p.
Proof. intros p d H. unfold Core.borda_scores in H. eapply score_rankings_keys. exact H. Qed.

Lemma ranking_NoDup : forall d : scores, NoDup (map fst d) -> NoDup (flat (score_to_ranking d true)).
Proof.
  intros d H. eapply Permutation_NoDup; [apply Permutation_sym, score_to_ranking_flat_perm_all|exact H].
Qed.

Lemma ranking_length : forall d : scores, length (flat (score_to_ranking d true)) = length d.
Proof.
  intros d. rewrite (Permutation_length (score_to_ranking_flat_perm_all cand d)). apply map_length.
Qed.

(* ------------------------------------------------------------------ *)
(** * the Plurality(m) stage: round 1 of TopTwo (m = 2) and of Alaska (m = m_1) *)

Definition stage_tie (m : Z) (tb : option tb_kind) (p : profile) (s : mstate) (s0 s1 : estate)
           (g : cset) (t : ranking) : Prop :=
  exists pre post kind (sa : mstate) kept dropped,
    tb = Some kind /\ tiebreaks s1 = [(g, t)] /\
    first_place_votes p = inl (escores s0) /\
    remaining s0 = pre ++ g :: post /\ tied_on (escores s0) g /\ (2 <= length g)%nat /\
    NoDup g /\ incl g (cands p) /\
    (Z.of_nat (length (flat pre)) < m < Z.of_nat (length (flat pre) + length g))%Z /\
    tiebreak_set g (Some p) kind s = inl (t, sa) /\
    t = singletons (kept ++ dropped) /\ Permutation (kept ++ dropped) g /\ NoDup (kept ++ dropped) /\
    Z.of_nat (length (flat pre) + length kept) = m /\ kept <> [] /\ dropped <> [] /\
    remaining s1 = pre ++ singletons kept /\ eliminated s1 = singletons dropped ++ post /\
    elected s1 = no_group /\
    (forall c, In c g -> (In c (flat (remaining s1)) <-> In c kept) /\
                        (In c (flat (eliminated s1)) <-> In c dropped)).

Lemma stage_tiebreak : forall m tb (p : profile) (s sa : mstate) p1 s0 s1 g t,
  NoDup (cands p) ->
  round0 SKFpv p = inl s0 ->
  plurality_stage m tb p s0 s = inl ((p1, s1), sa) ->
  In (g, t) (tiebreaks s1) ->
  stage_tie m tb p s s0 s1 g t.
Proof.
  intros m tb p s sa p1 s0 s1 g t Hnd H0 Hst Hin.
  apply plurality_stage_inv in Hst. destruct Hst as [q0 [q1 [d1 [Hrun [Hnp [Hd1 Hs1]]]]]].
  apply run_plurality_inv in Hrun. destruct Hrun as [_ Hrun].
  pose proof Hrun as Hrun'. apply run_one_shot_inv in Hrun'.
  destruct Hrun' as [q0' [np [q1' [H0' [_ Heq]]]]]. inversion Heq; subst q0' q1'. clear Heq.
  rewrite H0 in H0'. inversion H0'; subst q0. clear H0'.
  subst s1. cbn [tiebreaks remaining eliminated elected] in *.
  destruct (c10_one_shot_proof cand ceqb ceqb_spec _ _ _ _ _ _ _ _ _ _ Hnd Hrun Hin)
    as [pre [post [kind [j [l [Htb [Htbs [Ht [Hr [Htied [Hg2 [Hm [Hj [Htl [Hpl [Hndl [Hel Hrem]]]]]]]]]]]]]]]]].
  apply round0_inv in H0. destruct H0 as [d [Hd Hs0]]. cbn [Rules.score_fn] in Hd.
  assert (Hes : escores s0 = d) by (rewrite Hs0; reflexivity).
  assert (Hrs : remaining s0 = score_to_ranking d true) by (rewrite Hs0; reflexivity).
  pose proof (fpv_keys _ _ Hd) as Hkeys.
  assert (Hndd : NoDup (map fst d)) by (rewrite Hkeys; exact Hnd).
  pose proof (ranking_NoDup d Hndd) as Hndr. rewrite <- Hrs, Hr in Hndr.
  rewrite (flat_app cand), (flat_cons cand) in Hndr.
  destruct (NoDup_app_inv _ _ Hndr) as [_ [Hndgp Hdis1]].
  destruct (NoDup_app_inv _ _ Hndgp) as [Hndg [_ Hdis2]].
  pose proof (Permutation_length Hpl) as Hlen.
  assert (Hjg : (0 < j < length g)%nat) by lia.
  set (kept := firstn j l). set (dropped := skipn j l).
  assert (Hkd : kept ++ dropped = l) by apply firstn_skipn.
  assert (Hlk : length kept = j) by (unfold kept; rewrite firstn_length; lia).
  assert (Hld : length dropped = (length g - j)%nat) by (unfold dropped; rewrite skipn_length; lia).
  assert (Hrem1 : pre ++ firstn j t = pre ++ singletons kept).
  { rewrite Htl, (firstn_singletons cand). reflexivity. }
  assert (Helim1 : skipn j t ++ post = singletons dropped ++ post).
  { rewrite Htl, (skipn_singletons cand). reflexivity. }
  assert (Hkne : kept <> []) by (intros E; rewrite E in Hlk; cbn [length] in Hlk; lia).
  assert (Hdne : dropped <> []) by (intros E; rewrite E in Hld; cbn [length] in Hld; lia).
  assert (Hreal : real_groups cand (elected q1) = pre ++ singletons kept).
  { rewrite Hel, Hrem1. apply real_groups_id. rewrite (flat_app cand), (flat_singletons cand).
    intros E. apply app_eq_nil in E. destruct E as [_ E]. contradiction. }
  exists pre, post, kind, sa, kept, dropped.
  split; [exact Htb|]. split; [exact Htbs|]. split; [rewrite Hes; exact Hd|]. split; [exact Hr|].
  split; [exact Htied|]. split; [exact Hg2|]. split; [exact Hndg|].
  split.
  { intros c Hc. destruct Htied as [k Hk]. destruct (Hk c Hc) as [q [Hq _]].
    rewrite <- Hkeys, <- Hes. apply in_map_iff. exists (c, q). split; [reflexivity|exact Hq]. }
  split; [exact Hm|]. split; [exact Ht|]. split; [rewrite Hkd; exact Htl|].
  split; [rewrite Hkd; exact Hpl|]. split; [rewrite Hkd; exact Hndl|]. split; [lia|].
  split; [exact Hkne|]. split; [exact Hdne|]. split; [exact Hreal|].
  split; [rewrite Hrem; exact Helim1|]. split; [reflexivity|].
  intros c Hc. cbn [remaining eliminated]. rewrite Hreal, Hrem, Helim1.
  rewrite !(flat_app cand), !(flat_singletons cand). split; split.
  - intros H. apply in_app_or in H. destruct H as [H|H]; [|exact H].
    exfalso. apply (Hdis1 c H). apply in_or_app. left. exact Hc.
  - intros H. apply in_or_app. right. exact H.
  - intros H. apply in_app_or in H. destruct H as [H|H]; [exact H|].
    exfalso. exact (Hdis2 c Hc H).
  - intros H. apply in_or_app. left. exact H.
Qed.

(* ------------------------------------------------------------------ *)
(** * TopTwo *)

Theorem c10_toptwo_round1_proof : forall tb (p : profile) (s s' : mstate) s0 s1 s2 g t,
  NoDup (cands p) ->
  run_toptwo tb p s = inl ([s0; s1; s2], s') ->
  In (g, t) (tiebreaks s1) ->
  stage_tie 2 tb p s s0 s1 g t.
Proof.
  intros tb p s s' s0 s1 s2 g t Hnd H Hin. apply run_toptwo_inv in H.
  destruct H as [s0' [p1 [s1' [sa [q0 [q1 [sb [x [_ [H0 [Hst [_ [_ Heq]]]]]]]]]]]]].
  inversion Heq; subst s0' s1'. eapply stage_tiebreak; eassumption.
Qed.

(* round 2: Plurality(1) on the reduced profile p1, whose tallies are the scores of s1 *)
Definition runoff_tie (tb : option tb_kind) (p : profile) (s1 s2 : estate) (g : cset) (t : ranking)
  : Prop :=
  exists (p1 : profile) kind (sa sb : mstate) w x,
    tb = Some kind /\ tiebreaks s2 = [(g, t)] /\
    remove_cand_prof (flat (eliminated s1)) true false p = inl p1 /\
    first_place_votes p1 = inl (escores s1) /\
    score_to_ranking (escores s1) true = [g] /\ tied_on (escores s1) g /\ length g = 2%nat /\
    NoDup g /\ Permutation g (cands p1) /\ Permutation g (flat (remaining s1)) /\
    tiebreak_set g (Some p1) kind sa = inl (t, sb) /\
    t = [[w]; [x]] /\ Permutation [w; x] g /\ w <> x /\
    elected s2 = [[w]] /\ remaining s2 = [[x]] /\ eliminated s2 = no_group.

Theorem c10_toptwo_round2_proof : forall tb (p : profile) (s s' : mstate) s0 s1 s2 g t,
  NoDup (cands p) ->
  run_toptwo tb p s = inl ([s0; s1; s2], s') ->
  In (g, t) (tiebreaks s2) ->
  runoff_tie tb p s1 s2 g t.
Proof.
  intros tb p s s' s0 s1 s2 g t Hnd H Hin. apply run_toptwo_inv in H.
  destruct H as [s0' [p1 [s1' [sa [q0 [q1 [sb [x0 [_ [H0 [Hst [Hrun [_ Heq]]]]]]]]]]]]].
  inversion Heq; subst s0' s1' s2. clear Heq.
  unfold C10_quiet.renumber in *. cbn [tiebreaks elected remaining eliminated] in *.
  destruct (plurality_stage_spec cand ceqb ceqb_spec _ _ _ _ _ _ _ _ Hnd Hst)
    as [d0 [el [rem [t0 [r0 [r1 [_ [_ [_ [_ [_ [_ [_ [_ [_ [Hnp [Hd1 [_ [Hrem1 [_ [Helim1
        [_ [Hperm [Hndp1 Hlen]]]]]]]]]]]]]]]]]]]]]]]].
  apply run_plurality_inv in Hrun. destruct Hrun as [_ Hrun].
  pose proof Hrun as Hrun'. apply run_one_shot_inv in Hrun'.
  destruct Hrun' as [q0' [np [q1' [Hq0 [Hstep Heq]]]]]. inversion Heq; subst q0' q1'. clear Heq.
  apply one_shot_step_inv in Hstep. destruct Hstep as [el2 [rem2 [t2 [d2 [_ [_ [_ Hq1]]]]]]].
  destruct (c10_one_shot_proof cand ceqb ceqb_spec _ _ _ _ _ _ _ _ _ _ Hndp1 Hrun Hin)
    as [pre [post [kind [j [l [Htb [Htbs [Ht [Hr [Htied [Hg2 [Hm [Hj [Htl [Hpl [Hndl [Hel Hrem]]]]]]]]]]]]]]]]].
  apply round0_inv in Hq0. destruct Hq0 as [d [Hd Hq0]]. cbn [Rules.score_fn] in Hd.
  rewrite Hd1 in Hd. inversion Hd; subst d. clear Hd.
  assert (Hes : escores q0 = escores s1) by (rewrite Hq0; reflexivity).
  assert (Hrs : remaining q0 = score_to_ranking (escores s1) true) by (rewrite Hq0; reflexivity).
  rewrite Hes in Htied. rewrite Hrs in Hr.
  pose proof (fpv_keys _ _ Hd1) as Hkeys.
  assert (Hd2 : length (escores s1) = 2%nat).
  { rewrite <- (map_length fst), Hkeys. lia. }
  pose proof (ranking_length (escores s1)) as Hsize.
  rewrite Hr, (flat_app cand), (flat_cons cand), !app_length, Hd2 in Hsize.
  assert (Hdne : escores s1 <> []) by (intros E; rewrite E in Hd2; discriminate).
  assert (Hgroups : forall g0, In g0 (pre ++ g :: post) -> g0 <> []).
  { intros g0 Hg0. rewrite <- Hr in Hg0. eapply score_to_ranking_nonempty_groups; eassumption. }
  assert (Hpre : pre = []).
  { apply flat_nil_groups; [intros g0 Hg0; apply Hgroups; apply in_or_app; left; exact Hg0|].
    apply length_zero_iff_nil. lia. }
  assert (Hpost : post = []).
  { apply flat_nil_groups; [intros g0 Hg0; apply Hgroups; apply in_or_app; right; right; exact Hg0|].
    apply length_zero_iff_nil. lia. }
  subst pre post. cbn [app flat length Core.flat concat] in *.
  assert (Hlg : length g = 2%nat) by lia.
  pose proof (Permutation_length Hpl) as Hll. rewrite Hlg in Hll.
  destruct l as [|w [|x [|y l]]]; try discriminate. clear Hll.
  assert (Hj1 : j = 1%nat) by (rewrite Hj; reflexivity).
  subst j t. cbn [firstn skipn Core.singletons map app] in Hel, Hrem.
  assert (Hndg : NoDup g) by (eapply Permutation_NoDup; eassumption).
  assert (Hgp : Permutation g (cands p1)).
  { rewrite <- Hkeys. eapply Permutation_trans; [|apply score_to_ranking_flat_perm_all].
    rewrite Hr. unfold Core.flat. cbn [concat]. rewrite app_nil_r. apply Permutation_refl. }
  exists p1, kind, sa, sb, w, x.
  split; [exact Htb|]. split; [exact Htbs|]. split; [rewrite Helim1; exact Hnp|].
  split; [exact Hd1|]. split; [exact Hr|]. split; [exact Htied|]. split; [exact Hlg|].
  split; [exact Hndg|]. split; [exact Hgp|].
  split; [rewrite Hrem1; eapply Permutation_trans; [exact Hgp|exact Hperm]|].
  split; [exact Ht|]. split; [reflexivity|]. split; [exact Hpl|].
  split.
  { intros E. subst x. inversion Hndl as [|a l0 Hn _]; subst. apply Hn. left. reflexivity. }
  split; [exact Hel|]. split; [exact Hrem|]. rewrite Hq1. reflexivity.
Qed.

(* ------------------------------------------------------------------ *)
(** * Alaska *)

Theorem c10_alaska_round1_proof : forall m1 m2 cfg (p : profile) (s s' : mstate) s0 s1 rest g t,
  NoDup (cands p) ->
  run_alaska m1 m2 cfg p s = inl (s0 :: s1 :: rest, s') ->
  In (g, t) (tiebreaks s1) ->
  stage_tie m1 (s_tiebreak cfg) p s s0 s1 g t.
Proof.
  intros m1 m2 cfg p s s' s0 s1 rest g t Hnd H Hin. apply run_alaska_inv in H.
  destruct H as [s0' [p1 [s1' [sa [t0 [sts [sb [pf [_ [_ [H0 [Hst [_ [_ [_ Heq]]]]]]]]]]]]]]].
  inversion Heq; subst s0' s1'. eapply stage_tiebreak; eassumption.
Qed.

(* what a recorded pair of an STV round means, with the deciding ranking [rk] and tallies [d] of
   the round made explicit (the conclusion of c10_stv_closed_proof) *)
Definition stv_tie_at (cfg : stv_cfg) (t : Q) (p0 : profile) (rk : ranking) (d : scores)
           (st : estate) (g : cset) (tt : ranking) : Prop :=
  tiebreaks st = [(g, tt)] /\ (2 <= length g)%nat /\ NoDup g /\ incl g (cands p0) /\
  ((exists (pc : profile) (sa sb : mstate) post kind k,
      s_simul cfg = false /\ s_tiebreak cfg = Some kind /\ rk = g :: post /\
      tied_at d g k /\ t <= k /\ (forall c q, In (c, q) d -> q <= k) /\
      tiebreak_set g (Some pc) kind sa = inl (tt, sb) /\
      elected st = firstn 1 tt /\ eliminated st = no_group /\
      exists l, tt = singletons l /\ Permutation l g /\ NoDup l)
   \/
   (exists (sa sb : mstate) rest x k l l',
      filter (fun q => Qle_bool t (snd q)) d = [] /\
      rev rk = g :: rest /\
      tied_at d g k /\ (forall c q, In (c, q) d -> k <= q) /\
      tiebreak_set g (Some p0) TBFirstPlace sa = inl (tt, sb) /\
      eliminated st = [[x]] /\ elected st = no_group /\
      tt = singletons l /\ Permutation l g /\ NoDup l /\ l = l' ++ [x])).

Theorem c10_alaska_stv_rounds_proof : forall m1 m2 cfg (p : profile) (s s' : mstate) out,
  s_transfer cfg <> TRandom -> wf_stv0 p ->
  run_alaska m1 m2 cfg p s = inl (out, s') ->
  exists s0 s1 rest (p1 : profile) t inner (sa sb : mstate),
    out = s0 :: s1 :: rest /\
    remove_cand_prof (flat (eliminated s1)) true false p = inl p1 /\
    first_place_votes p1 = inl (escores s1) /\
    Permutation (cands p1) (flat (remaining s1)) /\
    stv_init (with_m cfg m2) p1 = inl t /\
    run_stv (with_m cfg m2) p1 sa = inl (inner, sb) /\ rest = map bump (tl inner) /\
    forall l1 prev st l2 g tt, s1 :: rest = l1 ++ prev :: st :: l2 -> In (g, tt) (tiebreaks st) ->
      stv_tie_at cfg t p1
        (match l1 with [] => score_to_ranking (escores s1) true | _ :: _ => remaining prev end)
        (escores prev) st g tt.
Proof.
  intros m1 m2 cfg p s s' out Hk Hwf H. apply run_alaska_inv in H.
  destruct H as [s0 [p1 [s1 [sa [t [sts [sb [pf [_ [_ [H0 [Hst [Ht [Hrun [_ Hout]]]]]]]]]]]]]]].
  pose proof (proj1 Hwf) as Hnd.
  destruct (plurality_stage_spec cand ceqb ceqb_spec _ _ _ _ _ _ _ _ Hnd Hst)
    as [d0 [el [rem [t0 [r0 [r1 [_ [_ [_ [_ [_ [_ [_ [_ [_ [Hnp [Hd1 [_ [Hrem1 [_ [Helim1
        [_ [Hperm [Hndp1 Hlen]]]]]]]]]]]]]]]]]]]]]]]].
  pose proof (stage_profile_wf_stv cand ceqb ceqb_spec _ _ _ Hwf Hnp) as Hwf1.
  assert (Hk2 : s_transfer (with_m cfg m2) <> TRandom) by exact Hk.
  destruct (c10_stv_closed_proof cand ceqb ceqb_spec _ _ _ _ _ Hk2 Hwf1 Hrun) as [t' [Ht' Hall]].
  rewrite Ht in Ht'. inversion Ht'; subst t'. clear Ht'.
  pose proof Hrun as Hrun0.
  apply run_stv_inv in Hrun. destruct Hrun as [t' [q0 [newer [_ [Hq0 [Hsts _]]]]]].
  unfold STV.initial_state in Hq0. rewrite Hd1 in Hq0. cbn [rbind] in Hq0. unfold ok in Hq0.
  inversion Hq0 as [Hq0']. clear Hq0.
  subst sts. cbn [tl] in Hout.
  exists s0, s1, (map bump newer), p1, t, (q0 :: newer), sa, sb.
  split; [exact Hout|]. split; [rewrite Helim1; exact Hnp|]. split; [exact Hd1|].
  split; [rewrite Hrem1; exact Hperm|]. split; [exact Ht|]. split; [exact Hrun0|].
  split; [reflexivity|].
  intros l1 prev st l2 g tt Heq Hin. destruct l1 as [|a l1].
  - cbn [app] in Heq. inversion Heq as [[Hprev Hmap]]. subst prev.
    destruct newer as [|st0 newer']; [discriminate|]. cbn [map] in Hmap.
    inversion Hmap as [[Hst0 Hl2]]. subst st.
    exact (Hall [] _ st0 newer' g tt (f_equal (fun x => x :: st0 :: newer') (eq_sym Hq0')) Hin).
  - cbn [app] in Heq. inversion Heq as [[Ha Hmap]]. subst a.
    apply map_eq_app in Hmap. destruct Hmap as [n1 [n2 [Hnew [Hn1 Hn2]]]].
    destruct n2 as [|pv [|st0 n2']]; try discriminate. cbn [map] in Hn2.
    inversion Hn2 as [[Hpv Hst0 Hl2]]. subst prev st.
    assert (Hsplit : q0 :: newer = (q0 :: n1) ++ pv :: st0 :: n2') by (rewrite Hnew; reflexivity).
    exact (Hall (q0 :: n1) pv st0 n2' g tt Hsplit Hin).
Qed.

(* ------------------------------------------------------------------ *)
(** * without a tiebreak option the stages never record anything *)

Lemma stage_none : forall m (p : profile) prev (s sa : mstate) p1 s1,
  plurality_stage m None p prev s = inl ((p1, s1), sa) -> tiebreaks s1 = [].
Proof.
  intros m p prev s sa p1 s1 H.
  apply plurality_stage_inv in H. destruct H as [q0 [q1 [d1 [Hrun [_ [_ Hs1]]]]]].
  apply run_plurality_inv in Hrun. destruct Hrun as [_ Hrun].
  apply run_one_shot_inv in Hrun. destruct Hrun as [q0' [np [q1' [_ [Hstep Heq]]]]].
  inversion Heq; subst q0' q1'. clear Heq.
  apply one_shot_step_inv in Hstep. destruct Hstep as [el [rem [t [d [He [_ [_ Hq1]]]]]]].
  subst s1 q1. cbn [tiebreaks]. destruct t as [[g t]|]; [|reflexivity].
  destruct (elect_recorded _ _ _ _ _ _ _ _ _ _ _ _ He) as [pre [post [kind [j [Htb _]]]]]. discriminate.
Qed.

Theorem c10_toptwo_none_proof : forall (p : profile) (s s' : mstate) sts,
  run_toptwo None p s = inl (sts, s') -> Forall no_tiebreak sts /\ s' = s.
Proof.
  intros p s s' sts H.
  assert (Hq : Forall no_tiebreak sts).
  { pose proof H as H'. apply run_toptwo_inv in H'.
    destruct H' as [s0 [p1 [s1 [sa [q0 [q1 [sb [x [_ [H0 [Hst [Hrun [_ Heq]]]]]]]]]]]]]. subst sts.
    constructor; [exact (round0_no_tiebreak _ _ _ _ _ H0)|].
    constructor; [exact (stage_none _ _ _ _ _ _ _ Hst)|].
    constructor; [|constructor].
    unfold TieSpec.no_tiebreak, C10_quiet.renumber. cbn [tiebreaks].
    apply run_plurality_inv in Hrun. destruct Hrun as [_ Hrun].
    apply run_one_shot_inv in Hrun. destruct Hrun as [q0' [np [q1' [_ [Hstep Heq]]]]].
    inversion Heq; subst q0' q1'. clear Heq.
    apply one_shot_step_inv in Hstep. destruct Hstep as [el [rem [t [d [He [_ [_ Hq1]]]]]]].
    subst q1. cbn [tiebreaks]. destruct t as [[g t]|]; [|reflexivity].
    destruct (elect_recorded _ _ _ _ _ _ _ _ _ _ _ _ He) as [pre [post [kind [j [Htb _]]]]]. discriminate. }
  split; [exact Hq|]. eapply run_toptwo_quiet; eassumption.
Qed.

Theorem c10_alaska_none_proof : forall m1 m2 cfg (p : profile) (s s' : mstate) s0 s1 rest,
  s_tiebreak cfg = None ->
  run_alaska m1 m2 cfg p s = inl (s0 :: s1 :: rest, s') ->
  tiebreaks s0 = [] /\ tiebreaks s1 = [].
Proof.
  intros m1 m2 cfg p s s' s0 s1 rest Htb H. apply run_alaska_inv in H.
  destruct H as [s0' [p1 [s1' [sa [t0 [sts [sb [pf [_ [_ [H0 [Hst [_ [_ [_ Heq]]]]]]]]]]]]]]].
  inversion Heq; subst s0' s1'. rewrite Htb in Hst. split.
  - exact (round0_no_tiebreak _ _ _ _ _ H0).
  - exact (stage_none _ _ _ _ _ _ _ Hst).
Qed.

(* ------------------------------------------------------------------ *)
(** * scored tiebreaks ('borda' / 'first_place') of a recorded pair *)

(* the reading of the answer [t = singletons l] of a scored tiebreak of [g] by the scores [d]:
   a strictly higher score comes first; the groups of r (the tied set ranked by d) are the
   maximal sub-groups of g with equal score; one recorded random.sample per group of two or
   more, nothing else is drawn, and t is r with those groups replaced by the drawn orders *)
Definition scored_reading (g : cset) (d : scores) (s sa : mstate) (t : ranking) (l : list cand)
  : Prop :=
  (forall a b qa qb, In a g -> In b g -> In (a, qa) d -> In (b, qb) d -> qb < qa ->
     exists x y z, l = x ++ a :: y ++ b :: z) /\
  (exists ls : list (list cand),
     scr s = map DPerm ls ++ scr sa /\
     lg sa = rev (map CSample
                    (filter big (score_to_ranking (filter (fun q => memb (fst q) g) d) true))) ++ lg s /\
     Forall2 (fun l0 sg => Permutation l0 sg /\ NoDup l0) ls
       (filter big (score_to_ranking (filter (fun q => memb (fst q) g) d) true)) /\
     t = rebuild (score_to_ranking (filter (fun q => memb (fst q) g) d) true) ls) /\
  Permutation (flat (score_to_ranking (filter (fun q => memb (fst q) g) d) true)) g /\
  (forall c1 c2 q1 q2, In c1 g -> In c2 g -> In (c1, q1) d -> In (c2, q2) d ->
     ((exists sg, In sg (score_to_ranking (filter (fun q => memb (fst q) g) d) true) /\
                  In c1 sg /\ In c2 sg) <-> q1 == q2)).

Lemma scored_reading_of : forall g (pr : profile) kind (d : scores) (s sa : mstate) t l,
  (kind = TBFirstPlace /\ first_place_votes pr = inl d) \/
  (kind = TBBorda /\ borda_scores pr = inl d) ->
  NoDup (cands pr) -> NoDup g -> g <> [] -> incl g (cands pr) ->
  tiebreak_set g (Some pr) kind s = inl (t, sa) ->
  t = singletons l -> Permutation l g ->
  scored_reading g d s sa t l.
Proof.
  intros g pr kind d s sa t l Hkind Hnd Hndg Hgne Hsub Ht Htl Hpl.
  assert (Hkeys : map fst d = cands pr).
  { destruct Hkind as [[_ H]|[_ H]]; [exact (fpv_keys _ _ H)|exact (borda_keys _ _ H)]. }
  assert (Hndd : NoDup (map fst d)) by (rewrite Hkeys; exact Hnd).
  assert (Hsub' : incl g (map fst d)) by (rewrite Hkeys; exact Hsub).
  destruct (c10_scored_groups_proof cand ceqb ceqb_spec g d Hndd Hndg Hgne Hsub') as [G1 [_ [G3 _]]].
  split; [|split; [|split]].
  - intros a b qa qb Ha Hb Hqa Hqb Hlt.
    assert (Hab : a <> b).
    { intros E. subst b. rewrite (scores_functional d a qa qb Hndd Hqa Hqb) in Hlt.
      exact (Qlt_irrefl _ Hlt). }
    assert (Hal : In a l) by (eapply Permutation_in; [apply Permutation_sym; exact Hpl|exact Ha]).
    assert (Hbl : In b l) by (eapply Permutation_in; [apply Permutation_sym; exact Hpl|exact Hb]).
    destruct (two_order l a b Hal Hbl Hab) as [H|[x [y [z Hl]]]]; [exact H|]. exfalso.
    pose proof (tiebreak_set_order cand ceqb ceqb_spec g pr kind s sa t d Hkind Hnd Ht
                  l x b y a z qb qa Htl Hl Hqb Hqa) as Hle.
    exact (Qlt_not_le _ _ Hlt Hle).
  - exact (c10_scored_trace_proof cand ceqb ceqb_spec g pr kind d s sa t Hkind Ht).
  - exact G1.
  - exact G3.
Qed.

(* when the tiebreak score is constant on g (a 'first_place' tiebreak of a first-place tie), the
   scored tiebreak is one random.sample of the whole set *)
Lemma tied_scored_is_random : forall g (pr : profile) kind (d : scores) k (s sa : mstate) t,
  (kind = TBFirstPlace /\ first_place_votes pr = inl d) \/
  (kind = TBBorda /\ borda_scores pr = inl d) ->
  NoDup (cands pr) -> NoDup g -> (2 <= length g)%nat -> incl g (cands pr) ->
  tied_at d g k ->
  tiebreak_set g (Some pr) kind s = inl (t, sa) ->
  exists l sg, Permutation sg g /\ scr s = DPerm l :: scr sa /\ lg sa = CSample sg :: lg s /\
    t = singletons l /\ Permutation l g /\ NoDup l.
Proof.
  intros g pr kind d k s sa t Hkind Hnd Hndg Hg2 Hsub Htied Ht.
  assert (Hkeys : map fst d = cands pr).
  { destruct Hkind as [[_ H]|[_ H]]; [exact (fpv_keys _ _ H)|exact (borda_keys _ _ H)]. }
  assert (Hndd : NoDup (map fst d)) by (rewrite Hkeys; exact Hnd).
  assert (Hsub' : incl g (map fst d)) by (rewrite Hkeys; exact Hsub).
  assert (Hgne : g <> []) by (intros E; rewrite E in Hg2; cbn [length] in Hg2; lia).
  destruct (c10_scored_groups_proof cand ceqb ceqb_spec g d Hndd Hndg Hgne Hsub') as [G1 [G2 [_ G4]]].
  destruct (c10_scored_trace_proof cand ceqb ceqb_spec g pr kind d s sa t Hkind Ht)
    as [ls [Hscr [Hlg [Hf2 Hreb]]]].
  cbv zeta in G1, G2, G4, Hscr, Hlg, Hf2, Hreb.
  remember (score_to_ranking (filter (fun q => memb (fst q) g) d) true) as r eqn:Er. clear Er.
  assert (Hr : exists sg, r = [sg]).
  { destruct r as [|g1 [|g2 rest]].
    - exfalso. apply Hgne. apply Permutation_nil. exact G1.
    - exists g1. reflexivity.
    - exfalso.
      assert (H1 : g1 <> []) by (apply G2; left; reflexivity).
      assert (H2 : g2 <> []) by (apply G2; right; left; reflexivity).
      destruct g1 as [|c1 g1']; [contradiction H1; reflexivity|].
      destruct g2 as [|c2 g2']; [contradiction H2; reflexivity|].
      assert (Hc1 : In c1 g).
      { apply (Permutation_in _ G1). unfold Core.flat. cbn [concat]. left. reflexivity. }
      assert (Hc2 : In c2 g).
      { apply (Permutation_in _ G1). unfold Core.flat. cbn [concat].
        apply in_or_app. right. left. reflexivity. }
      destruct (Htied c1 Hc1) as [q1 [Hq1 E1]]. destruct (Htied c2 Hc2) as [q2 [Hq2 E2]].
      pose proof (G4 [] (c1 :: g1') [] (c2 :: g2') rest c1 c2 q1 q2 eq_refl
                    (or_introl eq_refl) (or_introl eq_refl) Hq1 Hq2) as Hlt.
      rewrite E1, E2 in Hlt. exact (Qlt_irrefl _ Hlt). }
  destruct Hr as [sg ->].
  assert (Hsg : Permutation sg g).
  { unfold Core.flat in G1. cbn [concat] in G1. rewrite app_nil_r in G1. exact G1. }
  assert (Hbig : big sg = true).
  { unfold TieSpec.big. apply Nat.ltb_lt. rewrite (Permutation_length Hsg). lia. }
  cbn [filter] in Hf2, Hlg. rewrite Hbig in Hf2, Hlg.
  inversion Hf2 as [|l0 sg0 ls0 rest0 [Hp0 Hnd0] Hrest]; subst. inversion Hrest; subst.
  cbn [map rev app] in Hscr, Hlg. cbn [TieSpec.rebuild]. rewrite Hbig.
  exists l0, sg. split; [exact Hsg|]. split; [exact Hscr|]. split; [exact Hlg|].
  split; [rewrite app_nil_r; reflexivity|]. split; [eapply Permutation_trans; eassumption|exact Hnd0].
Qed.

(* the stages, with a scored tiebreak *)
Definition stage_scored (p : profile) (kind : tb_kind) (d : scores) (s : mstate) (g : cset)
           (t : ranking) : Prop :=
  exists (sa : mstate) l,
    tiebreak_set g (Some p) kind s = inl (t, sa) /\ t = singletons l /\ Permutation l g /\
    scored_reading g d s sa t l.

Lemma stage_tie_scored : forall m kind (p : profile) (s : mstate) s0 s1 g t (d : scores),
  NoDup (cands p) ->
  stage_tie m (Some kind) p s s0 s1 g t ->
  (kind = TBFirstPlace /\ first_place_votes p = inl d) \/
  (kind = TBBorda /\ borda_scores p = inl d) ->
  stage_scored p kind d s g t.
Proof.
  intros m kind p s s0 s1 g t d Hnd Hst Hkind.
  destruct Hst as [pre [post [kind0 [sa [kept [dropped [Htb [_ [_ [_ [_ [Hg2 [Hndg [Hsub [_ [Ht
                   [Htl [Hpl _]]]]]]]]]]]]]]]]]].
  inversion Htb; subst kind0.
  assert (Hgne : g <> []) by (intros E; rewrite E in Hg2; cbn [length] in Hg2; lia).
  exists sa, (kept ++ dropped). split; [exact Ht|]. split; [exact Htl|]. split; [exact Hpl|].
  eapply scored_reading_of; eassumption.
Qed.

Definition stage_random (p : profile) (kind : tb_kind) (s : mstate) (g : cset) (t : ranking) : Prop :=
  exists (sa : mstate) l sg,
    tiebreak_set g (Some p) kind s = inl (t, sa) /\
    Permutation sg g /\ scr s = DPerm l :: scr sa /\ lg sa = CSample sg :: lg s /\
    t = singletons l /\ Permutation l g /\ NoDup l.

(* 'first_place' and 'random' in a Plurality stage: one recorded draw of the whole set *)
Lemma stage_tie_random : forall m kind (p : profile) (s : mstate) s0 s1 g t,
  NoDup (cands p) ->
  stage_tie m (Some kind) p s s0 s1 g t ->
  kind = TBFirstPlace \/ kind = TBRandom ->
  stage_random p kind s g t.
Proof.
  intros m kind p s s0 s1 g t Hnd Hst Hkind.
  destruct Hst as [pre [post [kind0 [sa [kept [dropped [Htb [_ [Hd [_ [[k Htied] [Hg2 [Hndg [Hsub [_ [Ht
                   _]]]]]]]]]]]]]]]].
  inversion Htb; subst kind0. destruct Hkind as [Hkind|Hkind]; subst kind.
  - destruct (tied_scored_is_random g p TBFirstPlace (escores s0) k s sa t
                (or_introl (conj eq_refl Hd)) Hnd Hndg Hg2 Hsub Htied Ht)
      as [l [sg [H1 [H2 [H3 [H4 [H5 H6]]]]]]].
    exists sa, l, sg. repeat split; assumption.
  - destruct (c10_random_trace_proof cand ceqb ceqb_spec g (Some p) s sa t Ht)
      as [l [H2 [H3 [H4 [H5 H6]]]]].
    exists sa, l, g. split; [exact Ht|]. split; [apply Permutation_refl|]. repeat split; assumption.
Qed.

Theorem c10_toptwo_round1_scored_proof :
  forall kind (p : profile) (s s' : mstate) s0 s1 s2 g t (d : scores),
  NoDup (cands p) ->
  run_toptwo (Some kind) p s = inl ([s0; s1; s2], s') ->
  In (g, t) (tiebreaks s1) ->
  (kind = TBFirstPlace /\ first_place_votes p = inl d) \/
  (kind = TBBorda /\ borda_scores p = inl d) ->
  stage_scored p kind d s g t.
Proof.
  intros kind p s s' s0 s1 s2 g t d Hnd H Hin Hkind.
  eapply stage_tie_scored; [exact Hnd| |exact Hkind].
  eapply c10_toptwo_round1_proof; eassumption.
Qed.

Theorem c10_alaska_round1_scored_proof :
  forall m1 m2 cfg kind (p : profile) (s s' : mstate) s0 s1 rest g t (d : scores),
  NoDup (cands p) -> s_tiebreak cfg = Some kind ->
  run_alaska m1 m2 cfg p s = inl (s0 :: s1 :: rest, s') ->
  In (g, t) (tiebreaks s1) ->
  (kind = TBFirstPlace /\ first_place_votes p = inl d) \/
  (kind = TBBorda /\ borda_scores p = inl d) ->
  stage_scored p kind d s g t.
Proof.
  intros m1 m2 cfg kind p s s' s0 s1 rest g t d Hnd Hcfg H Hin Hkind.
  eapply stage_tie_scored; [exact Hnd| |exact Hkind].
  rewrite <- Hcfg. eapply c10_alaska_round1_proof; eassumption.
Qed.

Theorem c10_toptwo_round1_random_proof :
  forall kind (p : profile) (s s' : mstate) s0 s1 s2 g t,
  NoDup (cands p) ->
  run_toptwo (Some kind) p s = inl ([s0; s1; s2], s') ->
  In (g, t) (tiebreaks s1) ->
  kind = TBFirstPlace \/ kind = TBRandom ->
  stage_random p kind s g t.
Proof.
  intros kind p s s' s0 s1 s2 g t Hnd H Hin Hkind.
  eapply stage_tie_random; [exact Hnd| |exact Hkind].
  eapply c10_toptwo_round1_proof; eassumption.
Qed.

Theorem c10_alaska_round1_random_proof :
  forall m1 m2 cfg kind (p : profile) (s s' : mstate) s0 s1 rest g t,
  NoDup (cands p) -> s_tiebreak cfg = Some kind ->
  run_alaska m1 m2 cfg p s = inl (s0 :: s1 :: rest, s') ->
  In (g, t) (tiebreaks s1) ->
  kind = TBFirstPlace \/ kind = TBRandom ->
  stage_random p kind s g t.
Proof.
  intros m1 m2 cfg kind p s s' s0 s1 rest g t Hnd Hcfg H Hin Hkind.
  eapply stage_tie_random; [exact Hnd| |exact Hkind].
  rewrite <- Hcfg. eapply c10_alaska_round1_proof; eassumption.
Qed.

(* TopTwo round 2: the scores are those of the reduced profile p1 *)
Theorem c10_toptwo_round2_scored_proof :
  forall kind (p p1 : profile) (s s' : mstate) s0 s1 s2 g t (d : scores),
  NoDup (cands p) ->
  run_toptwo (Some kind) p s = inl ([s0; s1; s2], s') ->
  In (g, t) (tiebreaks s2) ->
  remove_cand_prof (flat (eliminated s1)) true false p = inl p1 ->
  (kind = TBFirstPlace /\ first_place_votes p1 = inl d) \/
  (kind = TBBorda /\ borda_scores p1 = inl d) ->
  exists (sa sb : mstate) w x,
    tiebreak_set g (Some p1) kind sa = inl (t, sb) /\ t = [[w]; [x]] /\ Permutation [w; x] g /\
    scored_reading g d sa sb t [w; x].
Proof.
  intros kind p p1 s s' s0 s1 s2 g t d Hnd H Hin Hp1 Hkind.
  destruct (c10_toptwo_round2_proof _ _ _ _ _ _ _ _ _ Hnd H Hin)
    as [p1' [kind0 [sa [sb [w [x [Htb [_ [Hp1' [Hd1 [_ [_ [Hlg [Hndg [Hgp [_ [Ht [Htl [Hpl _]]]]]]]]]]]]]]]]]]].
  rewrite Hp1 in Hp1'. inversion Hp1'; subst p1'. inversion Htb; subst kind0.
  assert (Hndp1 : NoDup (cands p1)) by (eapply Permutation_NoDup; eassumption).
  assert (Hgne : g <> []) by (intros E; rewrite E in Hlg; discriminate).
  assert (Hsub : incl g (cands p1)) by (intros c Hc; eapply Permutation_in; eassumption).
  exists sa, sb, w, x. split; [exact Ht|]. split; [exact Htl|]. split; [exact Hpl|].
  eapply scored_reading_of; eassumption.
Qed.

(* TopTwo round 2 with 'first_place' or 'random': one recorded draw of the two finalists *)
Theorem c10_toptwo_round2_random_proof :
  forall kind (p : profile) (s s' : mstate) s0 s1 s2 g t,
  NoDup (cands p) ->
  run_toptwo (Some kind) p s = inl ([s0; s1; s2], s') ->
  In (g, t) (tiebreaks s2) ->
  kind = TBFirstPlace \/ kind = TBRandom ->
  exists (p1 : profile) (sa sb : mstate) l sg,
    remove_cand_prof (flat (eliminated s1)) true false p = inl p1 /\
    tiebreak_set g (Some p1) kind sa = inl (t, sb) /\
    Permutation sg g /\ scr sa = DPerm l :: scr sb /\ lg sb = CSample sg :: lg sa /\
    t = singletons l /\ Permutation l g /\ NoDup l.
Proof.
  intros kind p s s' s0 s1 s2 g t Hnd H Hin Hkind.
  destruct (c10_toptwo_round2_proof _ _ _ _ _ _ _ _ _ Hnd H Hin)
    as [p1 [kind0 [sa [sb [w [x [Htb [_ [Hp1 [Hd1 [_ [[k Htied] [Hlg [Hndg [Hgp [_ [Ht _]]]]]]]]]]]]]]]]].
  inversion Htb; subst kind0.
  assert (Hndp1 : NoDup (cands p1)) by (eapply Permutation_NoDup; eassumption).
  assert (Hsub : incl g (cands p1)) by (intros c Hc; eapply Permutation_in; eassumption).
  assert (Hg2 : (2 <= length g)%nat) by lia.
  exists p1, sa, sb. destruct Hkind as [Hkind|Hkind]; subst kind.
  - destruct (tied_scored_is_random g p1 TBFirstPlace (escores s1) k sa sb t
                (or_introl (conj eq_refl Hd1)) Hndp1 Hndg Hg2 Hsub Htied Ht)
      as [l [sg [H1 [H2 [H3 [H4 [H5 H6]]]]]]].
    exists l, sg. repeat split; assumption.
  - destruct (c10_random_trace_proof cand ceqb ceqb_spec g (Some p1) sa sb t Ht)
      as [l [H2 [H3 [H4 [H5 H6]]]]].
    exists l, g. split; [exact Hp1|]. split; [exact Ht|]. split; [apply Permutation_refl|].
    repeat split; assumption.
Qed.

(* ------------------------------------------------------------------ *)
(** * every order-dependent decision of a stage is recorded *)

Lemma one_shot_recorded : forall k m tb (p : profile) (s s' : mstate) q0 q1 pre g post,
  run_one_shot cand ceqb k m tb p s = inl ([q0; q1], s') ->
  remaining q0 = pre ++ g :: post ->
  (Z.of_nat (length (flat pre)) < m < Z.of_nat (length (flat pre) + length g))%Z ->
  exists t, tiebreaks q1 = [(g, t)].
Proof.
  intros k m tb p s s' q0 q1 pre g post H Hr Hm.
  apply run_one_shot_inv in H. destruct H as [q0' [np [q1' [_ [Hstep Heq]]]]].
  inversion Heq; subst q0' q1'. clear Heq.
  apply one_shot_step_inv in Hstep. destruct Hstep as [el [rem [t0 [d [He [_ [_ Hq1]]]]]]].
  subst q1. cbn [tiebreaks]. rewrite Hr in He. destruct tb as [kind|].
  - rewrite (elect_top_m_straddle_some cand ceqb) in He by lia.
    destruct (tiebreak_set g (Some p) kind s) as [[t sx]|e]; [|discriminate].
    cbv zeta in He. inversion He; subst. exists t. reflexivity.
  - exfalso.
    assert (Herr : elect_top_m cand ceqb (pre ++ g :: post) m (Some p) None s = inr EValue).
    { apply (elect_top_m_none_error_iff cand ceqb). right. right. exists pre, g, post.
      split; [reflexivity|]. split; lia. }
    rewrite Herr in He. discriminate.
Qed.

Lemma stage_recorded : forall m tb (p : profile) (s sa : mstate) p1 s0 s1 pre g post,
  round0 SKFpv p = inl s0 ->
  plurality_stage m tb p s0 s = inl ((p1, s1), sa) ->
  remaining s0 = pre ++ g :: post ->
  (Z.of_nat (length (flat pre)) < m < Z.of_nat (length (flat pre) + length g))%Z ->
  exists t, tiebreaks s1 = [(g, t)].
Proof.
  intros m tb p s sa p1 s0 s1 pre g post H0 Hst Hr Hm.
  apply plurality_stage_inv in Hst. destruct Hst as [q0 [q1 [d1 [Hrun [_ [_ Hs1]]]]]].
  apply run_plurality_inv in Hrun. destruct Hrun as [_ Hrun].
  pose proof Hrun as Hrun'. apply run_one_shot_inv in Hrun'.
  destruct Hrun' as [q0' [np [q1' [H0' [_ Heq]]]]]. inversion Heq; subst q0' q1'. clear Heq.
  rewrite H0 in H0'. inversion H0'; subst q0. subst s1. cbn [tiebreaks].
  eapply one_shot_recorded; eassumption.
Qed.

Theorem c10_toptwo_recorded_proof : forall tb (p : profile) (s s' : mstate) s0 s1 s2,
  run_toptwo tb p s = inl ([s0; s1; s2], s') ->
  (forall pre g post, remaining s0 = pre ++ g :: post ->
     (length (flat pre) < 2 < length (flat pre) + length g)%nat ->
     exists t, tiebreaks s1 = [(g, t)]) /\
  (forall pre g post, score_to_ranking (escores s1) true = pre ++ g :: post ->
     (length (flat pre) < 1 < length (flat pre) + length g)%nat ->
     exists t, tiebreaks s2 = [(g, t)]).
Proof.
  intros tb p s s' s0 s1 s2 H. apply run_toptwo_inv in H.
  destruct H as [s0' [p1 [s1' [sa [q0 [q1 [sb [x [_ [H0 [Hst [Hrun [_ Heq]]]]]]]]]]]]].
  inversion Heq; subst s0' s1' s2. clear Heq. split.
  - intros pre g post Hr Hm. eapply stage_recorded; try eassumption. lia.
  - intros pre g post Hr Hm. unfold C10_quiet.renumber. cbn [tiebreaks].
    apply plurality_stage_inv in Hst. destruct Hst as [r0 [r1 [d1 [_ [_ [Hd1 Hs1]]]]]].
    apply run_plurality_inv in Hrun. destruct Hrun as [_ Hrun].
    pose proof Hrun as Hrun'. apply run_one_shot_inv in Hrun'.
    destruct Hrun' as [q0' [np [q1' [Hq0 [_ Heq]]]]]. inversion Heq; subst q0' q1'. clear Heq.
    apply round0_inv in Hq0. destruct Hq0 as [d [Hd Hq0]]. cbn [Rules.score_fn] in Hd.
    rewrite Hd1 in Hd. inversion Hd; subst d. clear Hd.
    assert (Hes : escores s1 = d1) by (rewrite Hs1; reflexivity). rewrite Hes in Hr.
    eapply (one_shot_recorded _ _ _ _ _ _ _ _ pre g post Hrun); [rewrite Hq0; exact Hr|lia].
Qed.

Theorem c10_alaska_recorded_proof : forall m1 m2 cfg (p : profile) (s s' : mstate) s0 s1 rest,
  run_alaska m1 m2 cfg p s = inl (s0 :: s1 :: rest, s') ->
  forall pre g post, remaining s0 = pre ++ g :: post ->
    (Z.of_nat (length (flat pre)) < m1 < Z.of_nat (length (flat pre) + length g))%Z ->
    exists t, tiebreaks s1 = [(g, t)].
Proof.
  intros m1 m2 cfg p s s' s0 s1 rest H pre g post Hr Hm. apply run_alaska_inv in H.
  destruct H as [s0' [p1 [s1' [sa [t0 [sts [sb [pf [_ [_ [H0 [Hst [_ [_ [_ Heq]]]]]]]]]]]]]]].
  inversion Heq; subst s0' s1'. eapply stage_recorded; eassumption.
Qed.

End Composite10.
