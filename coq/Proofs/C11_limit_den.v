(* Proofs/C11_limit_den.v — C11, ballot construction: the Gallina port of CPython's
   Fraction.limit_denominator (Model/BallotCtor.v) and the weight / score validators.

   What is proved about [limit_den] (for every rational, no size bound):
   - it is the identity on fractions whose reduced denominator is <= 10^6;
   - the loop always leaves through its [max_den <? q2] test (the fuel never runs out), with the
     classical continued-fraction invariants;
   - the result has a denominator in [1, 10^6], is in lowest terms, and is within 1/(2*10^6) of
     the argument.
   That the result is THE closest such fraction is not proved here: it is the documented
   behaviour of CPython's algorithm, of which [ld_loop] is a line-by-line port. *)
From Coq Require Import List ZArith QArith Qreduction Qabs Bool Lia Zpow_facts.
From VK Require Import Base Core BallotCtor.
Import ListNotations.

(* ------------------------------------------------------------------ *)
(** * Qred yields lowest terms *)

Local Open Scope Z_scope.

Lemma Qred_coprime : forall q : Q, Z.gcd (Qnum (Qred q)) (Zpos (Qden (Qred q))) = 1.
Proof.
  intros [a b]. unfold Qred.
  pose proof (Z.ggcd_gcd a (Zpos b)) as Hg.
  pose proof (Z.ggcd_correct_divisors a (Zpos b)) as Hd.
  destruct (Z.ggcd a (Zpos b)) as [g [aa bb]]. cbn [fst snd] in *.
  destruct Hd as [Ha Hb].
  assert (Hg0 : 0 <= g) by (rewrite Hg; apply Z.gcd_nonneg).
  assert (Hgpos : 0 < g) by (destruct (Z.eq_dec g 0) as [E|E]; [rewrite E in Hb; cbn in Hb; lia|lia]).
  assert (Hbb : 0 < bb) by nia.
  cbn [Qnum Qden]. rewrite Z2Pos.id by exact Hbb.
  assert (Eaa : aa = a / g) by (rewrite Ha, Z.mul_comm, Z.div_mul by lia; reflexivity).
  assert (Ebb : bb = Zpos b / g) by (rewrite Hb, Z.mul_comm, Z.div_mul by lia; reflexivity).
  rewrite Eaa, Ebb. apply Z.gcd_div_gcd; [lia|exact Hg].
Qed.

Lemma Qred_reduced_id : forall q : Q, Z.gcd (Qnum q) (Zpos (Qden q)) = 1 -> Qred q = q.
Proof.
  intros [a b] H. cbn [Qnum Qden] in H. unfold Qred.
  pose proof (Z.ggcd_gcd a (Zpos b)) as Hg.
  pose proof (Z.ggcd_correct_divisors a (Zpos b)) as Hd.
  destruct (Z.ggcd a (Zpos b)) as [g [aa bb]]. cbn [fst snd] in *.
  destruct Hd as [Ha Hb]. rewrite H in Hg. subst g.
  rewrite Z.mul_1_l in Ha, Hb. subst aa bb. reflexivity.
Qed.

Lemma Qred_inject_Z : forall z : Z, Qred (inject_Z z) = inject_Z z.
Proof.
  intros z. apply Qred_reduced_id. cbn [inject_Z Qnum Qden]. apply Z.gcd_1_r.
Qed.

Lemma max_den_pos : 1 <= max_den.
Proof. unfold max_den. lia. Qed.

(* ------------------------------------------------------------------ *)
(** * The loop *)

Section Loop.
Variables n0 d0 : Z.
Hypothesis Hbig : max_den < d0.

(* the continued-fraction invariants, from the second iteration on *)
Record Jinv (p0 q0 p1 q1 n d : Z) : Prop := mkJ {
  J_q0 : 0 <= q0 <= max_den;
  J_q1 : 1 <= q1 <= max_den;
  J_d : 0 <= d < n;
  J_den : q1 * n + q0 * d = d0;
  J_num : p1 * n + p0 * d = n0;
  J_det : p1 * q0 - p0 * q1 = 1 \/ p1 * q0 - p0 * q1 = -1;
  J_gcd : Z.gcd n d = 1
}.

(* the remainder cannot be 0 while the denominators are still small: the last convergent's
   denominator is d0 itself *)
Lemma J_dpos : forall p0 q0 p1 q1 n d, Jinv p0 q0 p1 q1 n d -> 0 < d.
Proof.
  intros p0 q0 p1 q1 n d J. destruct J as [Hq0 Hq1 Hd Hden _ _ Hg].
  destruct (Z.eq_dec d 0) as [E|E]; [|lia]. exfalso. subst d.
  rewrite Z.gcd_0_r in Hg. rewrite Z.abs_eq in Hg by lia. subst n. lia.
Qed.

(* the loop has left through its test: [n] is the dividend of the last, abandoned iteration *)
Definition Exit (r : Z * Z * Z * Z * Z) : Prop :=
  let '(p0, q0, p1, q1, d) := r in
  exists n, Jinv p0 q0 p1 q1 n d /\ max_den < q0 + (n / d) * q1.

Lemma J_step : forall p0 q0 p1 q1 n d,
  Jinv p0 q0 p1 q1 n d -> q0 + (n / d) * q1 <= max_den ->
  Jinv p1 q1 (p0 + (n / d) * p1) (q0 + (n / d) * q1) d (n - (n / d) * d) /\
  2 * (d * (n - (n / d) * d)) <= n * d.
Proof.
  intros p0 q0 p1 q1 n d J Hle. pose proof (J_dpos _ _ _ _ _ _ J) as Hdpos.
  destruct J as [Hq0 Hq1 Hd Hden Hnum Hdet Hg].
  pose proof (Z.mod_pos_bound n d Hdpos) as Hr.
  pose proof (Z.mod_eq n d ltac:(lia)) as Hmod.
  set (a := n / d) in *.
  assert (Er : n - a * d = n mod d) by (rewrite Hmod; ring).
  rewrite Er. set (r := n mod d) in *.
  assert (En : n = a * d + r) by lia.
  assert (Ha : 1 <= a) by nia.
  split; [constructor|].
  - lia.
  - split; [nia|lia].
  - lia.
  - rewrite <- Hden, En. ring.
  - rewrite <- Hnum, En. ring.
  - destruct Hdet as [E|E]; [right|left]; lia.
  - unfold r. rewrite Z.gcd_comm, Z.gcd_mod by lia. rewrite Z.gcd_comm. exact Hg.
  - rewrite En. nia.
Qed.

Lemma ld_loop_exit : forall fuel p0 q0 p1 q1 n d,
  Jinv p0 q0 p1 q1 n d -> n * d < 2 ^ Z.of_nat fuel ->
  Exit (ld_loop fuel p0 q0 p1 q1 n d).
Proof.
  induction fuel as [|fuel IH]; intros p0 q0 p1 q1 n d J Hm.
  - exfalso. pose proof (J_dpos _ _ _ _ _ _ J) as Hdpos. destruct J as [_ _ Hd _ _ _ _].
    change (2 ^ Z.of_nat 0) with 1 in Hm. nia.
  - cbn [ld_loop]. cbv zeta.
    destruct (Z.ltb_spec max_den (q0 + n / d * q1)) as [Hlt|Hle].
    + exists n. split; [exact J|exact Hlt].
    + destruct (J_step _ _ _ _ _ _ J Hle) as [J' Hhalf]. apply IH; [exact J'|].
      rewrite Nat2Z.inj_succ, Z.pow_succ_r in Hm by lia. lia.
Qed.

Hypothesis Hcop : Z.gcd n0 d0 = 1.

(* the first iteration, then [ld_loop_exit] *)
Lemma ld_loop_start : forall fuel,
  d0 * d0 < 2 ^ Z.of_nat fuel -> Exit (ld_loop (S fuel) 0 1 1 0 n0 d0).
Proof.
  intros fuel Hm. pose proof max_den_pos as HM.
  assert (Hd0 : 0 < d0) by lia.
  cbn [ld_loop]. cbv zeta.
  replace (1 + n0 / d0 * 0) with 1 by ring.
  destruct (Z.ltb_spec max_den 1) as [Hlt|_]; [lia|].
  pose proof (Z.mod_pos_bound n0 d0 Hd0) as Hr.
  pose proof (Z.mod_eq n0 d0 ltac:(lia)) as Hmod.
  assert (Er : n0 - n0 / d0 * d0 = n0 mod d0) by (rewrite Hmod; ring).
  apply ld_loop_exit.
  - rewrite Er. constructor.
    + lia.
    + lia.
    + lia.
    + ring.
    + rewrite Hmod. ring.
    + right. ring.
    + rewrite Z.gcd_comm, Z.gcd_mod by lia. rewrite Z.gcd_comm. exact Hcop.
  - rewrite Er. nia.
Qed.

(* what the two candidate results satisfy *)
Definition good_result (P Qd : Z) : Prop :=
  1 <= Qd <= max_den /\ Z.gcd P Qd = 1 /\
  - (Qd * d0) <= (P * d0 - n0 * Qd) * (2 * max_den) <= Qd * d0.

Lemma coprime_of_det : forall a b u v : Z, a * u - v * b = 1 \/ a * u - v * b = -1 -> Z.gcd a b = 1.
Proof.
  intros a b u v [E|E]; apply Z.bezout_1_gcd.
  - exists u, (- v). lia.
  - exists (- u), v. lia.
Qed.

Lemma exit_good : forall p0 q0 p1 q1 d,
  Exit (p0, q0, p1, q1, d) ->
  let k := (max_den - q0) / q1 in
  if 2 * d * (q0 + k * q1) <=? d0 then good_result p1 q1
  else good_result (p0 + k * p1) (q0 + k * q1).
Proof.
  intros p0 q0 p1 q1 d [n [J Hout]] k. pose proof (J_dpos _ _ _ _ _ _ J) as Hdpos.
  destruct J as [Hq0 Hq1 Hd Hden Hnum Hdet Hg].
  assert (Hq1pos : 0 < q1) by lia.
  pose proof (Z.mul_div_le (max_den - q0) q1 Hq1pos) as Hk1.
  pose proof (Z.mul_succ_div_gt (max_den - q0) q1 Hq1pos) as Hk2.
  fold k in Hk1, Hk2.
  assert (Hk0 : 0 <= k) by (apply Z.div_pos; lia).
  set (Qd := q0 + k * q1) in *.
  assert (HQd : 1 <= Qd <= max_den) by (unfold Qd; lia).
  assert (Hprod : max_den <= q1 * Qd).
  { assert (max_den + 1 - q1 <= Qd) by (unfold Qd; lia). nia. }
  pose proof (Z.mod_pos_bound n d Hdpos) as Hr.
  pose proof (Z.mod_eq n d ltac:(lia)) as Hmod.
  assert (Hka : k + 1 <= n / d) by (unfold Qd in HQd; nia).
  assert (Hnk : d <= n - k * d) by nia.
  assert (Hsplit : (n - k * d) * q1 + d * Qd = d0) by (unfold Qd; rewrite <- Hden; ring).
  destruct (Z.leb_spec (2 * d * Qd) d0) as [Hc|Hc]; unfold good_result.
  - split; [lia|]. split.
    + apply (coprime_of_det p1 q1 q0 p0). exact Hdet.
    + assert (EX : p1 * d0 - n0 * q1 = d * (p1 * q0 - p0 * q1))
        by (rewrite <- Hden, <- Hnum; ring).
      rewrite EX. assert (Hb : d * (2 * max_den) <= q1 * d0) by nia.
      assert (Hp1 : 0 <= d * max_den) by nia.
      destruct Hdet as [E|E]; rewrite E; lia.
  - split; [exact HQd|]. split.
    + apply (coprime_of_det (p0 + k * p1) Qd (- q1) (- p1)). unfold Qd.
      destruct Hdet as [E|E]; [left|right]; rewrite <- E; ring.
    + assert (EX : (p0 + k * p1) * d0 - n0 * Qd = - ((n - k * d) * (p1 * q0 - p0 * q1)))
        by (unfold Qd; rewrite <- Hden, <- Hnum; ring).
      rewrite EX.
      assert (Hb : (n - k * d) * (2 * max_den) <= Qd * d0).
      { assert (H1 : 2 * ((n - k * d) * q1) < d0) by lia.
        assert (H2 : (n - k * d) * (2 * max_den) <= 2 * ((n - k * d) * q1) * Qd) by nia.
        nia. }
      assert (Hp1 : 0 <= (n - k * d) * max_den) by nia.
      destruct Hdet as [E|E]; rewrite E; lia.
Qed.

End Loop.

(* ------------------------------------------------------------------ *)
(** * limit_den *)

(* fuel: 2 * size + 4 = S (2 * size + 3), and d0^2 < 2^(2 size) *)
Lemma fuel_enough : forall p : positive,
  Zpos p * Zpos p < 2 ^ Z.of_nat (2 * Pos.size_nat p + 3).
Proof.
  intros p. pose proof (proj2 (Zpower2_Psize (Pos.size_nat p) p) (le_n _)) as H.
  replace (Z.of_nat (2 * Pos.size_nat p + 3))
    with (Z.of_nat (Pos.size_nat p) + Z.of_nat (Pos.size_nat p) + 3) by lia.
  rewrite !Z.pow_add_r by lia. set (w := 2 ^ Z.of_nat (Pos.size_nat p)) in *.
  change (2 ^ 3) with 8. nia.
Qed.

(* the two branches of [limit_den], with everything known about the large branch *)
Lemma limit_den_cases : forall q : Q,
  let r := Qred q in
  (Zpos (Qden r) <= max_den /\ limit_den q = r) \/
  (max_den < Zpos (Qden r) /\
   exists P Qd, limit_den q = Qmake P (Z.to_pos Qd) /\
                good_result (Qnum r) (Zpos (Qden r)) P Qd /\
                Exit (Qnum r) (Zpos (Qden r))
                     (ld_loop (2 * Pos.size_nat (Qden r) + 4) 0 1 1 0 (Qnum r) (Zpos (Qden r)))).
Proof.
  intros q r. unfold limit_den. fold r. cbv zeta.
  destruct (Z.leb_spec (Zpos (Qden r)) max_den) as [Hs|Hb]; [left; split; [exact Hs|reflexivity]|].
  right. split; [exact Hb|].
  assert (HE : Exit (Qnum r) (Zpos (Qden r))
                    (ld_loop (2 * Pos.size_nat (Qden r) + 4) 0 1 1 0 (Qnum r) (Zpos (Qden r)))).
  { replace (2 * Pos.size_nat (Qden r) + 4)%nat with (S (2 * Pos.size_nat (Qden r) + 3)) by lia.
    apply ld_loop_start; [exact Hb|apply Qred_coprime|apply fuel_enough]. }
  destruct (ld_loop _ 0 1 1 0 (Qnum r) (Zpos (Qden r))) as [[[[p0 q0] p1] q1] d].
  pose proof (exit_good _ _ Hb _ _ _ _ _ HE) as Hg. cbv zeta in Hg.
  destruct (2 * d * (q0 + (max_den - q0) / q1 * q1) <=? Zpos (Qden r)).
  - exists p1, q1. split; [reflexivity|]. split; [exact Hg|exact HE].
  - exists (p0 + (max_den - q0) / q1 * p1), (q0 + (max_den - q0) / q1 * q1).
    split; [reflexivity|]. split; [exact Hg|exact HE].
Qed.

(* A1 *)
Theorem limit_den_small_identity : forall q : Q,
  Zpos (Qden (Qred q)) <= 1000000 -> limit_den q = Qred q /\ (limit_den q == q)%Q.
Proof.
  intros q H. change 1000000 with max_den in H.
  assert (E : limit_den q = Qred q).
  { unfold limit_den. cbv zeta. destruct (Z.leb_spec (Zpos (Qden (Qred q))) max_den); [reflexivity|lia]. }
  split; [exact E|]. rewrite E. apply Qred_correct.
Qed.

(* a value that is already in lowest terms (every Python Fraction is) is returned as it is *)
Theorem limit_den_reduced_identity : forall q : Q,
  Z.gcd (Qnum q) (Zpos (Qden q)) = 1 -> Zpos (Qden q) <= 1000000 -> limit_den q = q.
Proof.
  intros q Hg Hd. pose proof (Qred_reduced_id q Hg) as E.
  destruct (limit_den_small_identity q) as [H _]; [rewrite E; exact Hd|]. rewrite H. exact E.
Qed.

Theorem limit_den_int : forall z : Z, limit_den (inject_Z z) = inject_Z z.
Proof.
  intros z. apply limit_den_reduced_identity; cbn [inject_Z Qnum Qden]; [apply Z.gcd_1_r|lia].
Qed.

(* A2, part 1: the loop never runs out of fuel *)
Theorem limit_den_loop_exits : forall q : Q,
  1000000 < Zpos (Qden (Qred q)) ->
  match ld_loop (2 * Pos.size_nat (Qden (Qred q)) + 4) 0 1 1 0
                (Qnum (Qred q)) (Zpos (Qden (Qred q))) with
  | (p0, q0, p1, q1, d) =>
      exists n,
        max_den < q0 + (n / d) * q1 /\
        0 <= q0 <= max_den /\ 1 <= q1 <= max_den /\ 0 < d < n /\
        q1 * n + q0 * d = Zpos (Qden (Qred q)) /\
        p1 * n + p0 * d = Qnum (Qred q) /\
        (p1 * q0 - p0 * q1 = 1 \/ p1 * q0 - p0 * q1 = -1)
  end.
Proof.
  intros q Hb. change 1000000 with max_den in Hb.
  destruct (limit_den_cases q) as [[Hs _]|[_ [P [Qd [_ [_ HE]]]]]]; [lia|].
  destruct (ld_loop _ 0 1 1 0 _ _) as [[[[p0 q0] p1] q1] d].
  destruct HE as [n [J Hout]]. exists n. pose proof (J_dpos _ _ Hb _ _ _ _ _ _ J) as Hdpos.
  destruct J as [Hq0 Hq1 Hd Hden Hnum Hdet Hg].
  repeat split; try assumption; lia.
Qed.

(* A2, part 2 *)
Theorem limit_den_bound : forall q : Q, Zpos (Qden (limit_den q)) <= 1000000.
Proof.
  intros q. change 1000000 with max_den.
  destruct (limit_den_cases q) as [[Hs E]|[_ [P [Qd [E [[HQd _] _]]]]]]; rewrite E.
  - exact Hs.
  - cbn [Qden]. rewrite Z2Pos.id by lia. lia.
Qed.

(* the result is in lowest terms, as a Python Fraction always is *)
Theorem limit_den_lowest_terms : forall q : Q,
  Z.gcd (Qnum (limit_den q)) (Zpos (Qden (limit_den q))) = 1 /\ Qred (limit_den q) = limit_den q.
Proof.
  intros q.
  assert (H : Z.gcd (Qnum (limit_den q)) (Zpos (Qden (limit_den q))) = 1).
  { destruct (limit_den_cases q) as [[_ E]|[_ [P [Qd [E [[HQd [Hg _]] _]]]]]]; rewrite E.
    - apply Qred_coprime.
    - cbn [Qnum Qden]. rewrite Z2Pos.id by lia. exact Hg. }
  split; [exact H|apply Qred_reduced_id; exact H].
Qed.

(* A3 *)
Theorem limit_den_error_bound : forall q : Q, (Qabs (limit_den q - q) <= 1 # 2000000)%Q.
Proof.
  intros q.
  assert (Eq : (limit_den q - q == limit_den q - Qred q)%Q) by (rewrite (Qred_correct q); reflexivity).
  rewrite Eq. clear Eq.
  destruct (limit_den_cases q) as [[_ E]|[_ [P [Qd [E [[HQd [_ Herr]] _]]]]]]; rewrite E.
  - setoid_replace (Qred q - Qred q)%Q with 0%Q by ring. cbn. discriminate.
  - destruct (Qred q) as [n0 d0]. cbn [Qnum Qden] in Herr.
    apply Qabs_Qle_condition. unfold Qle, Qminus, Qplus, Qopp. cbn [Qnum Qden].
    rewrite !Pos2Z.inj_mul, !Z2Pos.id by lia.
    change (Zpos 2000000) with (2 * max_den). lia.
Qed.

(* what the score validator needs: only a tiny value can be rounded to zero *)
Corollary limit_den_zero_only_if_tiny : forall q : Q,
  (limit_den q == 0)%Q -> (Qabs q <= 1 # 2000000)%Q.
Proof.
  intros q H. pose proof (limit_den_error_bound q) as Hb.
  assert (E : (limit_den q - q == - q)%Q) by (rewrite H; ring).
  rewrite E, Qabs_opp in Hb. exact Hb.
Qed.

Local Close Scope Z_scope.

(* ------------------------------------------------------------------ *)
(** * The validators *)

Theorem weight_exact :
  (forall z, conv_weight (PInt z) = inject_Z z) /\
  (forall q, conv_weight (PFrac q) = q) /\
  (forall q, conv_weight (PFloat q) = limit_den q).
Proof.
  split; [|split]; intros x; cbn [conv_weight pynum_val]; [apply limit_den_int|reflexivity|reflexivity].
Qed.

Section Scores.
Variable cand : Type.

Definition conv_entry (p : cand * pynum) : cand * Q := (fst p, limit_den (pynum_val (snd p))).

Lemma conv_scores_cons : forall (c : cand) (x : pynum) (d : list (cand * pynum)),
  conv_scores cand ((c, x) :: d) =
  if Qeq_bool (limit_den (pynum_val x)) 0 then conv_scores cand d
  else (c, limit_den (pynum_val x)) :: conv_scores cand d.
Proof.
  intros c x d. unfold conv_scores. cbn [map filter fst snd].
  destruct (Qeq_bool (limit_den (pynum_val x)) 0); reflexivity.
Qed.

Lemma conv_scores_nil : conv_scores cand [] = [].
Proof. reflexivity. Qed.

Lemma conv_scores_in : forall (d : list (cand * pynum)) (c : cand) (v : Q),
  In (c, v) (conv_scores cand d) <->
  exists x, In (c, x) d /\ v = limit_den (pynum_val x) /\ ~ v == 0.
Proof.
  intros d c v. unfold conv_scores. rewrite filter_In, in_map_iff. cbn [snd]. split.
  - intros [[[c' x] [E Hin]] Hnz]. cbn [fst snd] in E. inversion E; subst c' v.
    exists x. split; [exact Hin|]. split; [reflexivity|].
    intros Hz. apply Qeq_bool_iff in Hz. rewrite Hz in Hnz. discriminate.
  - intros [x [Hin [Ev Hnz]]]. split.
    + exists (c, x). split; [cbn [fst snd]; rewrite Ev; reflexivity|exact Hin].
    + destruct (Qeq_bool v 0) eqn:Eb; [|reflexivity]. apply Qeq_bool_iff in Eb. contradiction.
Qed.

Lemma conv_scores_nonzero : forall d : list (cand * pynum),
  Forall (fun p => ~ snd p == 0) (conv_scores cand d).
Proof.
  intros d. apply Forall_forall. intros [c v] Hin. apply conv_scores_in in Hin.
  destruct Hin as [x [_ [_ Hnz]]]. exact Hnz.
Qed.

(* nothing is dropped or changed when every score is a non-zero integer or a non-zero value in
   lowest terms with a denominator <= 10^6 *)
Definition small_exact (x : pynum) : Prop :=
  match x with
  | PInt z => z <> 0%Z
  | PFrac q | PFloat q =>
      Z.gcd (Qnum q) (Zpos (Qden q)) = 1%Z /\ (Zpos (Qden q) <= 1000000)%Z /\ ~ q == 0
  end.

Lemma small_exact_val : forall x, small_exact x ->
  limit_den (pynum_val x) = pynum_val x /\ ~ pynum_val x == 0.
Proof.
  intros [z|q|q] H; cbn [small_exact pynum_val] in *.
  - split; [apply limit_den_int|]. unfold Qeq. cbn. lia.
  - destruct H as [Hg [Hd Hnz]]. split; [apply limit_den_reduced_identity; assumption|exact Hnz].
  - destruct H as [Hg [Hd Hnz]]. split; [apply limit_den_reduced_identity; assumption|exact Hnz].
Qed.

Lemma conv_scores_unchanged : forall d : list (cand * pynum),
  Forall (fun p => small_exact (snd p)) d ->
  conv_scores cand d = map (fun p => (fst p, pynum_val (snd p))) d.
Proof.
  induction d as [|[c x] d IH]; intros H; [reflexivity|].
  inversion H as [|? ? Hx Hd]; subst. cbn [snd] in Hx.
  destruct (small_exact_val x Hx) as [E Hnz].
  rewrite conv_scores_cons, E. cbn [map fst snd].
  destruct (Qeq_bool (pynum_val x) 0) eqn:Eb; [apply Qeq_bool_iff in Eb; contradiction|].
  rewrite (IH Hd). reflexivity.
Qed.

(* a single entry with a small reduced denominator is stored with its exact value *)
Lemma conv_scores_keeps_small : forall (d : list (cand * pynum)) (c : cand) (x : pynum),
  In (c, x) d -> (Zpos (Qden (Qred (pynum_val x))) <= 1000000)%Z -> ~ pynum_val x == 0 ->
  In (c, Qred (pynum_val x)) (conv_scores cand d) /\ Qred (pynum_val x) == pynum_val x.
Proof.
  intros d c x Hin Hd Hnz. destruct (limit_den_small_identity _ Hd) as [E _].
  split; [|apply Qred_correct]. apply conv_scores_in. exists x. split; [exact Hin|].
  split; [symmetry; exact E|]. rewrite Qred_correct. exact Hnz.
Qed.

Lemma make_ballot_fields : forall r w d i v,
  rk (make_ballot cand r w d i v) = r /\
  wt (make_ballot cand r w d i v) = conv_weight w /\
  sc (make_ballot cand r w d i v) = conv_scores cand d /\
  bid (make_ballot cand r w d i v) = i /\
  vs (make_ballot cand r w d i v) = v.
Proof. intros r w d i v. repeat split. Qed.

End Scores.
