(* Proofs/C01_lib.v — shared material for the run-level half of C01 (rules other than STV):
   the Election queries on short state lists, the input domain of the ranking rules and its
   stability under remove_cand, and the possible errors of tiebreak_set / elect_top_m. *)
From VK Require Import Base Core STV Pairwise Rules PV Election.
From VK.Spec Require Import ScoreSpec EditSpec RatingSpec TopMSpec STVSpec Anon RunSpec.
From VK.Proofs Require Import Lib_sets C04_scoring Elect C11_profile C12_edit C20_validation C05_rating
  C13_composite STV_tb STV_inv C08_anon.
From VK.Proofs Require C09_queries.
From Coq Require Import Permutation Lia Lqa.

Section Lib.
Variable cand : Type.
Variable ceqb : cand -> cand -> bool.
Hypothesis ceqb_spec : forall a b, reflect (a = b) (ceqb a b).

Notation cset := (cset cand).
Notation ranking := (ranking cand).
Notation ballot := (ballot cand).
Notation profile := (profile cand).
Notation scores := (scores cand).
Notation estate := (estate cand).
Notation mstate := (mstate cand).
Notation flat := (flat cand).
Notation real_groups := (real_groups cand).
Notation elected_upto := (elected_upto cand).
Notation eliminated_upto := (eliminated_upto cand).
Notation elected_in := (elected_in cand).
Notation eliminated_in := (eliminated_in cand).
Notation get_elected := (get_elected cand).
Notation get_eliminated := (get_eliminated cand).
Notation get_remaining := (get_remaining cand).
Notation groups_at := (groups_at cand).
Notation partitions := (partitions cand).
Notation status_kept := (status_kept cand).
Notation elects_exactly := (elects_exactly cand).
Notation ranked_profile := (ranked_profile cand).
Notation wf_profile := (wf_profile cand).
Notation score_free := (EditSpec.score_free cand).
Notation first_place_votes := (first_place_votes cand ceqb).
Notation borda_scores := (borda_scores cand ceqb).
Notation score_rankings := (score_rankings cand ceqb).
Notation score_to_ranking := (score_to_ranking cand).
Notation remove_cand_prof := (remove_cand_prof cand ceqb).
Notation remove_cand_bs := (remove_cand_bs cand ceqb).
Notation set_diff := (set_diff cand ceqb).
Notation tiebreak_set := (tiebreak_set cand ceqb).
Notation elect_loop := (elect_loop cand ceqb).
Notation elect_top_m := (elect_top_m cand ceqb).
Notation score_fn := (score_fn cand ceqb).
Notation run_one_shot := (run_one_shot cand ceqb).
Notation one_shot_step := (one_shot_step cand ceqb).
Notation no_group := (no_group cand).

(* ------------------------------------------------------------------ *)
(** * the queries *)

Lemma partitions_intro : forall (cs : cset) (sts : list estate),
  (forall r st, nth_error sts r = Some st ->
     Permutation (flat (elected_upto sts r) ++ flat (remaining st) ++ flat (eliminated_upto sts r)) cs) ->
  partitions cs sts.
Proof.
  intros cs sts H r Hr.
  destruct (queries_upto cand sts r Hr) as [He [Hx [st [Hn Hm]]]].
  exists (elected_upto sts r), (remaining st), (eliminated_upto sts r).
  split; [repeat split; assumption|]. apply H. exact Hn.
Qed.

Theorem status_kept_all : forall sts : list estate, status_kept sts.
Proof.
  intros sts r r' e e' x x' Hle Hlt He He' Hx Hx'.
  assert (Hr : (r < length sts)%nat) by lia.
  destruct (queries_upto cand sts r Hr) as [Qe [Qx _]].
  destruct (queries_upto cand sts r' Hlt) as [Qe' [Qx' _]].
  rewrite Qe in He. rewrite Qe' in He'. rewrite Qx in Hx. rewrite Qx' in Hx'.
  inversion He; inversion He'; inversion Hx; inversion Hx'; subst.
  split; intros c Hc.
  - eapply elected_upto_mono; eassumption.
  - eapply eliminated_upto_mono; eassumption.
Qed.

Lemma get_elected_last : forall (sts : list estate), sts <> [] ->
  get_elected sts (-1) = inl (elected_upto sts (length sts - 1)).
Proof.
  intros sts Hne.
  assert (Hlen : (0 < length sts)%nat) by (destruct sts; [contradiction Hne; reflexivity|cbn; lia]).
  destruct (C09_queries.negative_index cand ceqb sts 1) as [He _]; [lia|].
  change (- (1))%Z with (-1)%Z in He. rewrite He.
  replace (Z.of_nat (length sts) - 1)%Z with (Z.of_nat (length sts - 1)) by lia.
  apply (queries_upto cand sts (length sts - 1)). lia.
Qed.

Lemma flat_elected_upto : forall (sts : list estate) r,
  flat (elected_upto sts r) = concat (map elected_in (firstn (S r) sts)).
Proof. intros sts r. unfold STVSpec.elected_upto. apply (flat_concat_map cand). Qed.

Lemma flat_eliminated_upto : forall (sts : list estate) r,
  Permutation (flat (eliminated_upto sts r)) (concat (map eliminated_in (firstn (S r) sts))).
Proof.
  intros sts r. unfold STVSpec.eliminated_upto. rewrite (flat_concat_map cand), map_rev.
  eapply Permutation_trans; [apply concat_rev_perm|].
  apply concat_map_perm. intros x. unfold STVSpec.eliminated_in, Core.flat. apply concat_rev_perm.
Qed.

Lemma elects_exactly_intro : forall (sts : list estate) (k : Z),
  sts <> [] ->
  Z.of_nat (length (concat (map elected_in sts))) = k -> NoDup (concat (map elected_in sts)) ->
  elects_exactly sts k.
Proof.
  intros sts k Hne Hk Hnd. exists (elected_upto sts (length sts - 1)).
  split; [apply get_elected_last; exact Hne|].
  assert (Hlen : (0 < length sts)%nat) by (destruct sts; [contradiction Hne; reflexivity|cbn; lia]).
  rewrite flat_elected_upto. replace (S (length sts - 1)) with (length sts) by lia.
  rewrite firstn_all. split; assumption.
Qed.

(* ------------------------------------------------------------------ *)
(** * the input domain of the ranking rules *)

Lemma ranked_fpv : forall p : profile, wf_profile p -> exists d, first_place_votes p = inl d.
Proof.
  intros p Hwf. unfold Core.first_place_votes.
  apply (c04_scored_proof cand ceqb ceqb_spec); [exact Hwf|apply fpv_vector_valid_vector].
Qed.

Lemma ranked_borda : forall p : profile, wf_profile p -> exists d, borda_scores p = inl d.
Proof.
  intros p Hwf. unfold Core.borda_scores.
  apply (c04_scored_proof cand ceqb ceqb_spec); [exact Hwf|apply borda_vector_valid].
Qed.

Lemma ranked_remove : forall W (p np : profile), ranked_profile p ->
  remove_cand_prof W true false p = inl np -> ranked_profile np.
Proof.
  intros W p np [Hwf Hsf] H. exact (remove_wf_ranked cand ceqb ceqb_spec W p np Hwf Hsf H).
Qed.

Lemma ranked_remove_ok : forall W (p : profile), NoDup (cands p) ->
  exists np, remove_cand_prof W true false p = inl np.
Proof.
  intros W p Hnd. destruct (remove_prof_cands cand ceqb ceqb_spec W true false p Hnd) as [np [H _]].
  exists np. exact H.
Qed.

(* the candidates of the reduced profile are exactly the old ones outside W, also when none is
   left (the constructor then falls back on the candidates cast, and nobody is cast) *)
Lemma ranked_remove_cands : forall W (p np : profile), ranked_profile p ->
  remove_cand_prof W true false p = inl np ->
  NoDup (cands np) /\ (forall c, In c (cands np) <-> In c (cands p) /\ ~ In c W).
Proof.
  intros W p np [[Hnd Hbs] Hsf] H.
  destruct (remove_prof_cands cand ceqb ceqb_spec W true false p Hnd) as [np' [H' [Hb [Hne Hnil]]]].
  rewrite H in H'. inversion H'; subst np'. clear H'.
  destruct (set_diff (cands p) W) as [|c0 l0] eqn:E.
  - assert (Hno : forall c, In c (cands p) -> ~ In c W -> False).
    { intros c Hc Hn. assert (Hin : In c (set_diff (cands p) W)).
      { apply (set_diff_In cand ceqb ceqb_spec). split; assumption. }
      rewrite E in Hin. destruct Hin. }
    assert (Hcn : forall c, ~ In c (cands np)).
    { intros c Hc. rewrite (Hnil eq_refl) in Hc.
      apply (C08_anon.cast_cands_In cand ceqb ceqb_spec) in Hc. destruct Hc as [k [Hk [_ Hc]]].
      destruct (remove_no_removed cand ceqb ceqb_spec W true false (ballots p) k Hk) as [Hnr [b [Hb0 Hrk]]].
      assert (Hsck : sc k = []).
      { destruct (C08_anon.remove_member cand ceqb W (ballots p) k Hk) as [b' [Hb' [_ [Hsc _]]]].
        unfold EditSpec.score_free in Hsf. rewrite Forall_forall in Hsf. rewrite Hsc, (Hsf b' Hb'). reflexivity. }
      unfold Core.ballot_cands in Hc. rewrite Hsck in Hc. cbn [map] in Hc. rewrite app_nil_r in Hc.
      rewrite Hrk in Hc. apply (strip_keeps cand ceqb ceqb_spec) in Hc. destruct Hc as [Hc Hn].
      rewrite Forall_forall in Hbs. destruct (Hbs b Hb0) as [_ [_ [_ Hincl]]].
      exact (Hno c (Hincl c Hc) Hn). }
    split.
    + destruct (cands np) as [|c l]; [constructor|]. exfalso. apply (Hcn c). left. reflexivity.
    + intros c. split; [intros Hc; exfalso; exact (Hcn c Hc)|intros [Hc Hn]; exfalso; exact (Hno c Hc Hn)].
  - destruct Hne as [_ [Hnd' Hiff]]; [discriminate|]. split; assumption.
Qed.

Lemma ranked_remove_perm : forall W (p np : profile), ranked_profile p ->
  remove_cand_prof W true false p = inl np -> NoDup W -> incl W (cands p) ->
  Permutation (W ++ cands np) (cands p).
Proof.
  intros W p np Hr H HndW Hincl.
  destruct (ranked_remove_cands W p np Hr H) as [Hnd Hiff].
  apply NoDup_Permutation.
  - apply NoDup_app_intro; [exact HndW|exact Hnd|]. intros c Hc Hc'. apply Hiff in Hc'. apply Hc'. exact Hc.
  - apply Hr.
  - intros c. rewrite in_app_iff, Hiff. split.
    + intros [Hc|[Hc _]]; [apply Hincl; exact Hc|exact Hc].
    + intros Hc. destruct (memb_reflect cand ceqb ceqb_spec c W) as [Hin|Hnin]; [left; exact Hin|right; split; assumption].
Qed.

(* ------------------------------------------------------------------ *)
(** * errors of the tie-break and of the top-m selection *)

Lemma tiebreak_set_err_wf : forall g (pr : profile) kind (s : mstate) e, wf_profile pr ->
  tiebreak_set g (Some pr) kind s = inr e -> e = EScript \/ (kind = TBInvalid /\ e = EValue).
Proof.
  intros g pr kind s e Hwf H. unfold Core.tiebreak_set in H. destruct kind.
  - left. unfold mbind in H. destruct (draw_perm cand ceqb g s) as [[l s1]|e'] eqn:E; [discriminate|].
    injection H as <-. apply (draw_perm_err cand ceqb _ _ _ E).
  - left. unfold mbind, mlift in H. destruct (ranked_fpv pr Hwf) as [d Hd].
    rewrite Hd in H. cbn in H.
    match type of H with (if ?c then _ else _) _ = _ => destruct c end.
    + apply (random_break_err cand ceqb _ _ _ H).
    + discriminate.
  - left. unfold mbind, mlift in H. destruct (ranked_borda pr Hwf) as [d Hd].
    rewrite Hd in H. cbn in H.
    match type of H with (if ?c then _ else _) _ = _ => destruct c end.
    + apply (random_break_err cand ceqb _ _ _ H).
    + discriminate.
  - right. injection H as <-. split; reflexivity.
Qed.

Lemma elect_loop_err_some : forall r need acc p kind (s : mstate) e,
  elect_loop r need acc p (Some kind) s = inr e ->
  (e = EIndex /\ (length (flat r) < need)%nat) \/
  (exists g, In g r /\ tiebreak_set g p kind s = inr e).
Proof.
  induction r as [|g r IH]; intros need acc p kind s e H.
  - destruct need as [|n]; cbn [Core.elect_loop] in H; [discriminate|].
    unfold mfail, err in H. inversion H; subst. left. split; [reflexivity|]. cbn. lia.
  - destruct need as [|n]; cbn [Core.elect_loop] in H; [discriminate|].
    destruct (Nat.leb (length g) (S n)) eqn:Hle.
    + apply Nat.leb_le in Hle. apply IH in H. destruct H as [[He Hlen]|[g0 [Hg0 Ht]]].
      * left. split; [exact He|]. rewrite (flat_cons cand), app_length. lia.
      * right. exists g0. split; [right; exact Hg0|exact Ht].
    + unfold mbind in H. destruct (tiebreak_set g p kind s) as [[t s1]|e'] eqn:Ht; [discriminate|].
      inversion H; subst. right. exists g. split; [left; reflexivity|exact Ht].
Qed.

(* all the ways the top-m selection can fail *)
Lemma elect_top_m_err : forall r m p tb (s : mstate) e,
  elect_top_m r m p tb s = inr e ->
  (e = EValue /\ (m < 1 \/ Z.of_nat (length (flat r)) < m)%Z) \/
  (e = EValue /\ tb = None /\ (1 <= m <= Z.of_nat (length (flat r)))%Z /\ straddlesZ cand r m) \/
  (exists kind g, tb = Some kind /\ In g r /\ tiebreak_set g p kind s = inr e).
Proof.
  intros r m p tb s e H.
  destruct (Z_lt_le_dec m 1) as [Hlt|Hge].
  { rewrite (elect_top_m_range cand ceqb) in H by (left; exact Hlt). inversion H. left. split; [reflexivity|left; exact Hlt]. }
  destruct (Z_lt_le_dec (Z.of_nat (length (flat r))) m) as [Hlt|Hle].
  { rewrite (elect_top_m_range cand ceqb) in H by (right; exact Hlt). inversion H. left. split; [reflexivity|right; exact Hlt]. }
  destruct tb as [kind|].
  - rewrite (elect_top_m_unfold cand ceqb) in H by lia. apply elect_loop_err_some in H.
    destruct H as [[_ Hlen]|[g [Hg Ht]]]; [lia|]. right. right. exists kind, g. repeat split; assumption.
  - pose proof (elect_top_m_none_only_EValue cand ceqb _ _ _ _ _ H) as ->.
    right. left. split; [reflexivity|]. split; [reflexivity|]. split; [lia|].
    apply (elect_top_m_none_error_iff cand ceqb) in H. destruct H as [H|[H|H]]; [lia|lia|exact H].
Qed.

(* with a ranked profile behind the tie-break only ValueError (seat count out of range, a tie at
   the last seat without a tie-break rule, an unknown tie-break name) and a wrong replay script
   remain *)
Lemma elect_top_m_err_ranked : forall r m (pr : profile) tb (s : mstate) e, wf_profile pr ->
  elect_top_m r m (Some pr) tb s = inr e ->
  (e = EValue /\ ((m < 1 \/ Z.of_nat (length (flat r)) < m)%Z \/ (tb = None /\ straddlesZ cand r m) \/
                  tb = Some TBInvalid)) \/
  (e = EScript /\ tb <> None).
Proof.
  intros r m pr tb s e Hwf H. apply elect_top_m_err in H.
  destruct H as [[-> H]|[[-> [Htb [_ Hs]]]|[kind [g [-> [_ Ht]]]]]].
  - left. split; [reflexivity|left; exact H].
  - left. split; [reflexivity|right; left; split; assumption].
  - apply (tiebreak_set_err_wf g pr kind s e Hwf) in Ht. destruct Ht as [->|[-> ->]].
    + right. split; [reflexivity|discriminate].
    + left. split; [reflexivity|right; right; reflexivity].
Qed.

End Lib.
