(* Proofs/C01_pv2.v — run-level theorems about PluralityVeto (Model/PV.v, [run_pv]) on valid input:
   R1 [pv_run_facts]     every returned run partitions the candidates at every round, keeps statuses,
                         elects exactly m, and has a fixed shape (round 1 removes the candidates
                         without first-place votes plus one, every later round exactly one);
   R2 [pv_run_errors]    the exhaustive list of errors, each with a necessary condition;
   R3 [pv_run_success_none], [pv_run_spin_none], [pv_run_boundary_none]
                         without a tie-break rule: when the run returns, when it never terminates;
   R4 [pv_run_unbound]   no ballot and fewer seats than candidates: UnboundLocalError. *)
From VK Require Import Base Core STV Rules PV.
From VK.Spec Require Import ScoreSpec STVSpec RunSpec PVSpec.
From VK.Proofs Require Import Lib_sets C04_scoring Elect C12_edit C20_validation STV_tb STV_inv C08_anon
  C01_lib C01_pv C01_pv2_lib C01_pv2_veto C01_pv2_scores C01_pv2_inv C01_pv2_loop.
From Coq Require Import Permutation Lia Lqa.

Arguments iv_elim_nd {cand ceqb cs nb notie o p prev older}.
Arguments iv_elim_in {cand ceqb cs nb notie o p prev older}.
Arguments iv_el {cand ceqb cs nb notie o p prev older}.
Arguments iv_keys {cand ceqb cs nb notie o p prev older}.
Arguments iv_knd {cand ceqb cs nb notie o p prev older}.
Arguments iv_nn {cand ceqb cs nb notie o p prev older}.
Arguments iv_sum {cand ceqb cs nb notie o p prev older}.
Arguments iv_r0 {cand ceqb cs nb notie o p prev older}.
Arguments iv_parts {cand ceqb cs nb notie o p prev older}.

Section Run.
Variable cand : Type.
Variable ceqb : cand -> cand -> bool.
Hypothesis ceqb_spec : forall a b, reflect (a = b) (ceqb a b).

Notation cset := (cset cand).
Notation ranking := (ranking cand).
Notation ballot := (ballot cand).
Notation profile := (profile cand).
Notation scores := (scores cand).
Notation estate := (estate cand).
Notation mstate := (mstate cand).
Notation flat := (flat cand).
Notation wf_profile := (wf_profile cand).
Notation first_place_votes := (first_place_votes cand ceqb).
Notation dedup := (dedup cand ceqb).
Notation pv_obj := (pv_obj cand).
Notation pv_validate := (pv_validate cand).
Notation pv_step := (pv_step cand ceqb).
Notation pv_loop := (pv_loop cand ceqb).
Notation run_pv := (run_pv cand ceqb).
Notation veto_loop := (veto_loop cand ceqb).
Notation partitions := (partitions cand).
Notation status_kept := (status_kept cand).
Notation elects_exactly := (elects_exactly cand).
Notation all_elected := (all_elected cand).
Notation elected_in := (elected_in cand).
Notation live := (live cand).
Notation zeros := (zeros cand).
Notation elect_state := (elect_state cand).

(* ------------------------------------------------------------------ *)
(** * the start of a run *)

Notation notie_of := (pv_untied cand).
Notation unit_ballots := (pv_unit_ballots cand).
Notation unit_profile := (pv_unit_profile cand).
Notation start_state := (pv_start_state cand).
Notation run_pv_fuel := (run_pv_fuel cand ceqb).
Definition start_obj (order : list nat) (p : profile) : pv_obj := mkPV cand order (unit_ballots p) [].

(* what [run_pv] does once the arguments have been accepted *)
Definition pv_body (fuel : nat) (m : Z) (tb : option tb_kind) (p : profile) (d0 : scores) (s : mstate)
  : res (list estate * mstate) :=
  match scr s with
  | [] => inr EScript
  | d :: rest =>
      match d with
      | DIdxs order =>
          if is_perm_nat order (length (unit_ballots p))
          then pv_loop fuel m tb (length (cands p)) (start_obj order p)
                       (unit_profile p) [start_state d0]
                       (mkM rest (CShuffle (length (unit_ballots p)) :: lg s))
          else inr EScript
      | _ => inr EScript
      end
  end.

Lemma unit_live : forall p b, wf_profile p -> In b (unit_ballots p) -> live (cands p) b.
Proof.
  intros p b [_ Hbs] Hb. destruct (decondense_In cand _ _ Hb) as [b0 [Hb0 [-> _]]].
  rewrite Forall_forall in Hbs. split; [exact (Hbs b0 Hb0)|split; reflexivity].
Qed.

Lemma unit_wf : forall p, wf_profile p -> wf_profile (unit_profile p).
Proof.
  intros p Hwf. split; [apply Hwf|]. cbn [unit_profile ballots cands]. apply Forall_forall.
  intros b Hb. apply (unit_live p b Hwf Hb).
Qed.

Lemma unit_wt : forall p, wf_profile p -> forall b, In b (ballots (unit_profile p)) -> wt b = 1.
Proof. intros p Hwf b Hb. apply (unit_live p b Hwf Hb). Qed.

Lemma unit_notie : forall p, notie_of p = true ->
  Forall (fun b => has_tie cand b = false) (unit_ballots p).
Proof.
  intros p H. apply Forall_forall. intros b Hb.
  destruct (decondense_In cand _ _ Hb) as [b0 [Hb0 [-> _]]].
  unfold pv_untied in H. apply negb_true_iff in H.
  apply not_true_iff_false. intros Ht. apply not_true_iff_false in H. apply H.
  apply existsb_exists. exists b0. split; [exact Hb0|exact Ht].
Qed.

Lemma is_perm_nat_perm : forall l k, is_perm_nat l k = true -> Permutation l (seq 0 k).
Proof.
  intros l k H. unfold is_perm_nat in H. apply andb_true_iff in H. destruct H as [Hl Hall].
  apply Nat.eqb_eq in Hl. apply Permutation_sym. apply NoDup_Permutation_bis.
  - apply seq_NoDup.
  - rewrite seq_length. lia.
  - intros i Hi. rewrite forallb_forall in Hall. specialize (Hall i Hi).
    apply existsb_exists in Hall. destruct Hall as [j [Hj E]]. apply Nat.eqb_eq in E. subst j. exact Hj.
Qed.

Lemma nlive_all : forall bs : list ballot, (forall b, In b bs -> rk b <> []) -> nlive cand bs = length bs.
Proof.
  intros bs H. unfold C01_pv2_scores.nlive. rewrite filter_all_true; [reflexivity|].
  intros b Hb. apply (has_ranking_iff cand). exact (H b Hb).
Qed.

Lemma live_rk : forall S b, live S b -> rk b <> [].
Proof. intros S b [[H _] _]. exact H. Qed.

Theorem init_inv : forall (p : profile) order d0,
  wf_profile p -> first_place_votes (unit_profile p) = inl d0 ->
  is_perm_nat order (length (unit_ballots p)) = true ->
  pv_inv cand ceqb (cands p) (length (unit_ballots p)) (notie_of p)
         (start_obj order p) (unit_profile p) (start_state d0) [].
Proof.
  intros p order d0 Hwf Hd0 Hperm.
  pose proof (unit_wf p Hwf) as Hwfu.
  destruct (fpv_unit_facts cand ceqb ceqb_spec _ _ Hwfu (unit_wt p Hwf) Hd0) as [Hk [Hnn [Hsum _]]].
  cbn [unit_profile cands ballots] in Hk, Hsum.
  assert (Hst : forall c, In c (standing cand ceqb (cands p) (start_obj order p)) <-> In c (cands p)).
  { intros c. rewrite (standing_In cand ceqb ceqb_spec). cbn [start_obj pv_elim]. cbn [In]. tauto. }
  constructor; cbn [start_obj pv_elim pv_ballots pv_order unit_profile ballots cands].
  - constructor.
  - intros c [].
  - reflexivity.
  - reflexivity.
  - apply is_perm_nat_perm. exact Hperm.
  - apply Hwf.
  - intros c. symmetry. apply Hst.
  - apply Forall_forall. intros b Hb. right. eapply live_incl; [exact (unit_live p b Hwf Hb)|].
    intros c Hc. apply Hst. destruct (unit_live p b Hwf Hb) as [[_ [_ [_ Hincl]]] _]. apply Hincl. exact Hc.
  - apply unit_notie.
  - constructor; [reflexivity|constructor].
  - apply Permutation_refl.
  - reflexivity.
  - cbn [start_state state_of_scores escores]. rewrite Hk. apply Hwf.
  - intros c. cbn [start_state state_of_scores escores]. rewrite Hk. symmetry. apply Hst.
  - exact Hnn.
  - cbn [start_state state_of_scores escores]. rewrite Hsum.
    rewrite nlive_all; [reflexivity|]. intros b Hb. exact (live_rk _ _ (unit_live p b Hwf Hb)).
  - intros H. contradiction H. reflexivity.
  - intros _. split; [reflexivity|]. split; [intros b Hb; exact (unit_live p b Hwf Hb)|exact Hd0].
  - reflexivity.
  - cbn [C01_pv2_lib.parts]. split; [|exact I].
    change (STVSpec.all_elected cand [start_state d0]) with (@nil cand).
    change (STVSpec.all_eliminated cand [start_state d0]) with (@nil cand).
    cbn [app]. rewrite app_nil_r. cbn [start_state state_of_scores remaining].
    eapply Permutation_trans; [apply (score_to_ranking_flat_perm_all cand)|]. rewrite Hk. apply Permutation_refl.
Qed.

Lemma ranking_validate_unit : forall p, wf_profile p -> ranking_validate cand (unit_profile p) = inl tt.
Proof.
  intros p Hwf. unfold STV.ranking_validate. cbn [unit_profile ballots].
  assert (H : forall b, In b (unit_ballots p) -> rk b <> [])
    by (intros b Hb; exact (live_rk _ _ (unit_live p b Hwf Hb))).
  induction (unit_ballots p) as [|b bs IH]; [reflexivity|]. cbn [rfirst_err].
  destruct (rk b) as [|g r] eqn:E; [exfalso; apply (H b (or_introl eq_refl)); exact E|].
  cbn [rbind]. apply IH. intros b' Hb'. apply H. right. exact Hb'.
Qed.

(* the argument checks *)
Ltac unfold_run_tac Hwf Hv Hm Htie Hd0 :=
  rewrite pvm_lift_bind, Hv;
  match goal with |- context [(?m <=? 0)%Z] =>
    let H1 := fresh in assert (H1 : (m <=? 0)%Z = false) by (apply Z.leb_gt; lia); rewrite H1 end;
  match goal with |- context [(?a <? ?m)%Z] =>
    let H2 := fresh in assert (H2 : (a <? m)%Z = false) by (apply Z.ltb_ge; lia); rewrite H2 end.

Theorem run_pv_fuel_unfold : forall m tb (p : profile),
  wf_profile p -> pv_validate p = inl tt ->
  (1 <= m <= Z.of_nat (length (cands p)))%Z ->
  (tb = None -> notie_of p = true) ->
  exists d0, first_place_votes (unit_profile p) = inl d0 /\
             (forall fuel s, run_pv_fuel fuel m tb p s = pv_body fuel m tb p d0 s) /\
             (forall s, run_pv m tb p s = pv_body (2 * length (cands p) + 4) m tb p d0 s).
Proof.
  intros m tb p Hwf Hv Hm Htie.
  destruct (ranked_fpv cand ceqb ceqb_spec _ (unit_wf p Hwf)) as [d0 Hd0]. exists d0. split; [exact Hd0|].
  assert (Hchk : forall s, (match tb with
                  | None => if existsb (has_tie cand) (ballots p) then mfail EAttr else mret tt
                  | Some _ => mret tt
                  end : M cand unit) s = inl (tt, s)).
  { intros s. destruct tb as [k|]; [reflexivity|]. specialize (Htie eq_refl). unfold pv_untied in Htie.
    apply negb_true_iff in Htie. rewrite Htie. reflexivity. }
  assert (Hmk : mk_profile cand ceqb (decondense cand (ballots p)) (cands p) = inl (unit_profile p)).
  { unfold Core.mk_profile. destruct Hwf as [Hnd _].
    rewrite (proj2 (has_dup_false_iff cand ceqb ceqb_spec _) Hnd). unfold ok, pv_unit_profile, pv_unit_ballots.
    destruct (cands p) as [|c l] eqn:E; [cbn [length] in Hm; lia|reflexivity]. }
  split.
  - intros fuel s. unfold PVSpec.run_pv_fuel. unfold_run_tac Hwf Hv Hm Htie Hd0.
    rewrite (pvm_bind_ok _ _ _ _ _ (Hchk s)). cbv zeta.
    rewrite pvm_lift_bind, Hmk.
    unfold pv_body, mbind at 1, Core.next_draw.
    destruct (scr s) as [|d rest]; [reflexivity|]. unfold ok.
    destruct d as [l|r|l|q|c|order]; try reflexivity.
    fold (unit_ballots p). destruct (is_perm_nat order (length (unit_ballots p))); [|reflexivity].
    cbn [negb]. rewrite pvm_lift_bind, (ranking_validate_unit p Hwf).
    rewrite pvm_lift_bind. unfold Rules.round0, Rules.score_fn. rewrite Hd0. cbn [rbind]. unfold ok.
    reflexivity.
  - intros s. unfold PV.run_pv. unfold_run_tac Hwf Hv Hm Htie Hd0.
    rewrite (pvm_bind_ok _ _ _ _ _ (Hchk s)). cbv zeta.
    rewrite pvm_lift_bind, Hmk.
    unfold pv_body, mbind at 1, Core.next_draw.
    destruct (scr s) as [|d rest]; [reflexivity|]. unfold ok.
    destruct d as [l|r|l|q|c|order]; try reflexivity.
    fold (unit_ballots p). destruct (is_perm_nat order (length (unit_ballots p))); [|reflexivity].
    cbn [negb]. rewrite pvm_lift_bind, (ranking_validate_unit p Hwf).
    rewrite pvm_lift_bind. unfold Rules.round0, Rules.score_fn. rewrite Hd0. cbn [rbind]. unfold ok.
    reflexivity.
Qed.

(* what a returned run tells about its arguments *)
Lemma run_pv_ok_pre : forall m tb (p : profile) (s : mstate) r,
  run_pv m tb p s = inl r ->
  pv_validate p = inl tt /\ (1 <= m <= Z.of_nat (length (cands p)))%Z /\ (tb = None -> notie_of p = true).
Proof.
  intros m tb p s r H. unfold PV.run_pv in H.
  apply pvm_lift_bind_inv in H. destruct H as [[] [Hv H]].
  destruct (m <=? 0)%Z eqn:H1; [exfalso; exact (pvm_fail_inv _ _ _ H)|]. apply Z.leb_gt in H1.
  destruct (Z.of_nat (length (cands p)) <? m)%Z eqn:H2; [exfalso; exact (pvm_fail_inv _ _ _ H)|].
  apply Z.ltb_ge in H2. split; [exact Hv|]. split; [lia|].
  intros ->. apply pvm_bind_inv in H. destruct H as [[] [s1 [Hc _]]].
  unfold pv_untied. destruct (existsb (has_tie cand) (ballots p)); [exfalso; exact (pvm_fail_inv _ _ _ Hc)|reflexivity].
Qed.

(* ------------------------------------------------------------------ *)
(** * counting the candidates with a positive tally *)

Notation pos_count := (pv_positive_count cand).

Lemma zeros_pos_length : forall d : scores, (length (zeros d) + pos_count d = length d)%nat.
Proof.
  intros d. unfold C01_pv2_inv.zeros, pv_positive_count. rewrite map_length.
  induction d as [|q d IH]; [reflexivity|]. cbn [filter]. destruct (Qle_bool (snd q) 0); cbn [negb length]; lia.
Qed.

Lemma zeros_NoDup : forall d : scores, NoDup (map fst d) -> NoDup (zeros d).
Proof.
  intros d. unfold C01_pv2_inv.zeros. induction d as [|q d IH]; cbn [map filter]; intros H; [constructor|].
  inversion H as [|x l Hn Hd]; subst. destruct (Qle_bool (snd q) 0); [|exact (IH Hd)].
  cbn [map]. constructor; [|exact (IH Hd)]. intros Hin. apply Hn.
  apply in_map_iff in Hin. destruct Hin as [y [Ey Hy]]. apply filter_In in Hy. rewrite <- Ey. apply in_map. apply Hy.
Qed.

Lemma dedup_snoc_length : forall (z : cset) c, NoDup z ->
  length (dedup (z ++ [c])) = if memb cand ceqb c z then length z else S (length z).
Proof.
  intros z c Hz. destruct (memb_reflect cand ceqb ceqb_spec c z) as [Hin|Hn].
  - apply Permutation_length. apply NoDup_Permutation; [apply (dedup_NoDup cand ceqb ceqb_spec)|exact Hz|].
    intros x. rewrite (dedup_In cand ceqb ceqb_spec), in_app_iff. cbn [In]. split; [intros [H|[<-|[]]]; assumption|tauto].
  - assert (Hnd : NoDup (z ++ [c])).
    { apply NoDup_app_intro; [exact Hz|constructor; [intros []|constructor]|]. intros a Ha [<-|[]]. exact (Hn Ha). }
    rewrite (proj2 (dedup_id_iff cand ceqb ceqb_spec _) Hnd), app_length. cbn [length]. lia.
Qed.

(* ------------------------------------------------------------------ *)
(** * a fixed accepted input *)

Section Fixed.
Variable p : profile.
Variable m : Z.
Variable tb : option tb_kind.
Hypothesis Hwf : wf_profile p.
Hypothesis Hm : (1 <= m <= Z.of_nat (length (cands p)))%Z.
Hypothesis Htie : tb = None -> notie_of p = true.
Variable d0 : scores.
Hypothesis Hd0 : first_place_votes (unit_profile p) = inl d0.

Let cs := cands p.
Let n := length cs.
Let nb := length (unit_ballots p).
Let notie := notie_of p.
Let Hcs : NoDup cs := proj1 Hwf.
Let Hmpos : (0 < m)%Z := Z.lt_le_trans 0 1 m Z.lt_0_1 (proj1 Hm).

Notation pv_inv := (pv_inv cand ceqb cs nb notie).
Notation standing := (standing cand ceqb cs).
Notation standing_count := (standing_count cand n).
Notation rec_good := (rec_good cand cs).
Notation recs_ok := (recs_ok cand cs).
Notation singles := (singles cand).

Let s0 := start_state d0.
Let dp := unit_profile p.

Lemma d0_keys : map fst d0 = cs.
Proof.
  destruct (fpv_unit_facts cand ceqb ceqb_spec _ _ (unit_wf p Hwf) (unit_wt p Hwf) Hd0) as [Hk _]. exact Hk.
Qed.

Lemma d0_length : length d0 = n.
Proof. unfold n. rewrite <- d0_keys. symmetry. apply map_length. Qed.

(* the whole run after a successful electing test *)
Lemma final_facts : forall o q prev older,
  pv_inv o q prev older -> standing_count o = m ->
  partitions cs (rev (elect_state prev :: prev :: older)) /\
  elects_exactly (rev (elect_state prev :: prev :: older)) m.
Proof.
  intros o q prev older Hinv Hc.
  assert (Hmb : (Z.of_nat n - Z.of_nat (length (pv_elim cand o)) =? m)%Z = true) by (apply Z.eqb_eq; exact Hc).
  destruct (pv_elect_facts cand ceqb ceqb_spec cs Hcs nb notie m n eq_refl _ _ _ _ Hinv Hmb)
    as [Hparts [_ [Hperm Hlen]]].
  split; [apply (parts_partitions cand); exact Hparts|].
  apply (elects_exactly_intro cand ceqb).
  - intros E. apply (f_equal (@length _)) in E. rewrite rev_length in E. cbn [length] in E. lia.
  - change (concat (map elected_in (rev (elect_state prev :: prev :: older))))
      with (all_elected (rev (elect_state prev :: prev :: older))).
    rewrite (Permutation_length (all_elected_rev cand _)), (Permutation_length Hperm). exact Hlen.
  - change (concat (map elected_in (rev (elect_state prev :: prev :: older))))
      with (all_elected (rev (elect_state prev :: prev :: older))).
    eapply Permutation_NoDup; [apply Permutation_sym; apply (all_elected_rev cand)|].
    eapply Permutation_NoDup; [apply Permutation_sym; exact Hperm|]. apply (standing_NoDup cand ceqb cs Hcs).
Qed.

Variable order : list nat.
Hypothesis Hperm : is_perm_nat order nb = true.

Let o0 := start_obj order p.

Lemma inv0 : pv_inv o0 dp s0 [].
Proof. exact (init_inv p order d0 Hwf Hd0 Hperm). Qed.

Lemma count0 : standing_count o0 = Z.of_nat n.
Proof. unfold C01_pv2_loop.standing_count. cbn [o0 start_obj pv_elim length]. lia. Qed.

(* round 1, when it is an eliminating round *)
Lemma first_round : forall (s s1 : mstate) o1 p1 st1,
  (m < Z.of_nat n)%Z ->
  pv_step m tb n o0 dp s0 s = inl ((o1, p1, st1), s1) ->
  pv_inv o1 p1 st1 [s0] /\ (0 < nb)%nat /\
  (Forall rec_good (tiebreaks st1) /\ (length (tiebreaks st1) <= 1)%nat) /\
  exists c idx,
    In c cs /\ eliminated st1 = [dedup (zeros d0 ++ [c])] /\
    standing_count o1 = (Z.of_nat n - Z.of_nat (length (dedup (zeros d0 ++ [c]))))%Z /\
    veto_loop order 0 (unit_ballots p) dp tb d0 [] s = inl ((idx, Some c, tiebreaks st1), s1).
Proof.
  intros s s1 o1 p1 st1 Hlt H.
  assert (Hmf : (Z.of_nat n - Z.of_nat (length (pv_elim cand o0)) =? m)%Z = false).
  { apply Z.eqb_neq. cbn [o0 start_obj pv_elim length]. lia. }
  destruct (pv_step_ok cand ceqb ceqb_spec cs Hcs tb nb notie m n _ _ _ _ _ _ _ _ _ inv0 Hmf H)
    as [Hinv1 [hit [Hx [_ [He [_ [Hhit [Hrec [Hrl [Hnb [idx Hveto]]]]]]]]]]].
  split; [exact Hinv1|]. split; [exact Hnb|]. split.
  { split; [|exact Hrl]. eapply Forall_impl; [|exact Hrec]. intros x Hx0.
    exact (inv_rec_good cand ceqb ceqb_spec cs tb nb notie n eq_refl _ _ _ _ _ inv0 Hx0). }
  destruct hit as [c|].
  - exists c, idx. split.
    + apply (standing_In cand ceqb ceqb_spec) in Hhit. apply Hhit.
    + unfold C01_pv2_inv.round_elim, hit_list in Hx, He. split; [exact Hx|].
      split; [|].
      * unfold C01_pv2_loop.standing_count. rewrite He. cbn [o0 start_obj pv_elim app]. reflexivity.
      * exact Hveto.
  - exfalso. cbn [o0 start_obj pv_ballots] in Hhit.
    rewrite nlive_all in Hhit by (intros b Hb; exact (live_rk _ _ (unit_live p b Hwf Hb))).
    fold nb in Hhit. lia.
Qed.

(* bounds on the number of candidates standing after round 1 *)
Lemma first_count_bounds : forall c,
  In c cs ->
  (Z.of_nat (pos_count d0) - 1 <= Z.of_nat n - Z.of_nat (length (dedup (zeros d0 ++ [c]))) <= Z.of_nat (pos_count d0))%Z /\
  (lookup0 cand ceqb c d0 <= 0 ->
     (Z.of_nat n - Z.of_nat (length (dedup (zeros d0 ++ [c]))) = Z.of_nat (pos_count d0))%Z) /\
  (0 < lookup0 cand ceqb c d0 ->
     (Z.of_nat n - Z.of_nat (length (dedup (zeros d0 ++ [c]))) = Z.of_nat (pos_count d0) - 1)%Z).
Proof.
  intros c Hc.
  assert (Hknd : NoDup (map fst d0)) by (rewrite d0_keys; exact Hcs).
  pose proof (dedup_snoc_length (zeros d0) c (zeros_NoDup d0 Hknd)) as Hlen.
  pose proof (zeros_pos_length d0) as Hzp. rewrite d0_length in Hzp.
  assert (Hck : In c (map fst d0)) by (rewrite d0_keys; exact Hc).
  destruct (lookup0_In_snd cand ceqb ceqb_spec c d0 Hck) as [q [Hq Hl]].
  destruct (memb_reflect cand ceqb ceqb_spec c (zeros d0)) as [Hin|Hn].
  - apply (zeros_iff cand _ _ Hknd) in Hin. destruct Hin as [q' [Hq' Hle]].
    assert (q' = q) by (eapply (NoDup_keys_functional cand); eassumption). subst q'.
    split; [lia|]. split; [intros _; lia|]. intros Hpos. rewrite Hl in Hpos. exfalso. lra.
  - split; [lia|]. split; [|intros _; lia].
    intros Hle. exfalso. apply Hn. apply (zeros_iff cand _ _ Hknd). exists q. split; [exact Hq|]. rewrite <- Hl. exact Hle.
Qed.

(* ------------------------------------------------------------------ *)
(** * the loop started on the accepted input *)

Definition run_shape (sts : list estate) : Prop :=
  exists mids prev,
    sts = (s0 :: mids) ++ [elect_state prev] /\
    last (s0 :: mids) s0 = prev /\
    Forall (fun st => elected st = [[]]) (s0 :: mids) /\
    match mids with
    | [] => m = Z.of_nat n
    | st1 :: later =>
        (m < Z.of_nat n)%Z /\
        (exists c, In c cs /\ eliminated st1 = [dedup (zeros d0 ++ [c])]) /\
        Forall (fun st => exists c, eliminated st = [[c]]) later
    end /\
    Forall (fun st => Forall rec_good (tiebreaks st) /\ (length (tiebreaks st) <= 1)%nat) sts.

Lemma fuel_S : (2 * n + 4 = S (2 * n + 3))%nat.
Proof. lia. Qed.

Lemma last_rev_cons : forall {A} (x : A) l d, last (rev (x :: l)) d = x.
Proof. intros A x l d. cbn [rev]. apply last_last. Qed.

Theorem start_loop_ok : forall (s s' : mstate) sts,
  pv_loop (2 * n + 4) m tb n o0 dp [s0] s = inl (sts, s') ->
  partitions cs sts /\ elects_exactly sts m /\ run_shape sts.
Proof.
  intros s s' sts H. rewrite fuel_S in H.
  destruct (standing_count o0 =? m)%Z eqn:Hmb.
  - rewrite (pv_loop_elect cand ceqb ceqb_spec cs Hcs tb nb notie m n eq_refl Hmpos _ _ _ _ _ _ inv0 Hmb) in H.
    injection H as <- _.
    apply Z.eqb_eq in Hmb.
    destruct (final_facts _ _ _ _ inv0 Hmb) as [Hp He].
    split; [exact Hp|]. split; [exact He|].
    exists [], s0. split; [reflexivity|]. split; [reflexivity|]. split; [repeat constructor|].
    split; [rewrite <- Hmb; apply count0|]. repeat constructor.
  - apply Z.eqb_neq in Hmb as Hne. rewrite count0 in Hne.
    assert (Hlt : (m < Z.of_nat n)%Z) by (unfold n, cs in *; lia).
    rewrite (pv_loop_step cand ceqb cs tb nb notie m n Hmpos _ _ _ _ _ _ inv0) in H.
    destruct (pv_step m tb n o0 dp s0 s) as [[[[o1 p1] st1] s1]|e] eqn:Hstep; [|discriminate].
    destruct (first_round _ _ _ _ _ Hlt Hstep) as [Hinv1 [Hnb [Hrec1 [c [idx [Hc [Hx1 _]]]]]]].
    assert (Hrecs1 : recs_ok [st1; s0]).
    { constructor; [exact Hrec1|]. constructor; [|constructor]. split; [constructor|cbn; lia]. }
    destruct (pv_loop_ok cand ceqb ceqb_spec cs Hcs tb nb notie m n eq_refl Hmpos _ _ _ _ _ _ _ _
                Hinv1 I Hrecs1 H) as [newer [o' [p' [prev' [older' [Hh [Hs [Hinv' [Hc' [Hsing Hrecs]]]]]]]]]].
    destruct (final_facts _ _ _ _ Hinv' Hc') as [Hp He]. rewrite <- Hs in Hp, He.
    split; [exact Hp|]. split; [exact He|].
    assert (Hrev : rev (prev' :: older') = s0 :: st1 :: rev newer).
    { rewrite <- Hh, rev_app_distr. reflexivity. }
    exists (st1 :: rev newer), prev'. split; [|split; [|split; [|split]]].
    + rewrite Hs. cbn [rev]. cbn [rev] in Hrev. rewrite Hrev. reflexivity.
    + rewrite <- Hrev. apply last_rev_cons.
    + rewrite <- Hrev. apply Forall_rev. apply (iv_el Hinv').
    + split; [exact Hlt|]. split; [exists c; split; assumption|].
      apply Forall_rev. apply (singles_newer cand newer st1 s0). rewrite Hh. exact Hsing.
    + rewrite Hs. cbn [rev]. apply Forall_app. split.
      * change (rev older' ++ [prev']) with (rev (prev' :: older')). apply Forall_rev. exact Hrecs.
      * constructor; [|constructor]. split; [constructor|cbn; lia].
Qed.

Theorem start_loop_err : forall (s : mstate) e,
  pv_loop (2 * n + 4) m tb n o0 dp [s0] s = inr e ->
  (m < Z.of_nat n)%Z /\
  ((e = EUnbound /\ nb = 0%nat) \/
   (notie = false /\ tie_err_class tb e) \/
   (e = EFuel /\ (Z.of_nat (pos_count d0) <= m)%Z)).
Proof.
  intros s e H. rewrite fuel_S in H.
  destruct (standing_count o0 =? m)%Z eqn:Hmb.
  { rewrite (pv_loop_elect cand ceqb ceqb_spec cs Hcs tb nb notie m n eq_refl Hmpos _ _ _ _ _ _ inv0 Hmb) in H.
    discriminate. }
  apply Z.eqb_neq in Hmb as Hne. rewrite count0 in Hne.
  assert (Hlt : (m < Z.of_nat n)%Z) by (unfold n, cs in *; lia).
  split; [exact Hlt|].
  rewrite (pv_loop_step cand ceqb cs tb nb notie m n Hmpos _ _ _ _ _ _ inv0) in H.
  destruct (pv_step m tb n o0 dp s0 s) as [[[[o1 p1] st1] s1]|e0] eqn:Hstep.
  - destruct (first_round _ _ _ _ _ Hlt Hstep) as [Hinv1 [Hnb [_ [c [idx [Hc [_ [Hc1 _]]]]]]]].
    destruct (pv_loop_err cand ceqb ceqb_spec cs Hcs tb nb notie m n eq_refl Hmpos Htie _ _ _ _ _ _ _ Hinv1 H)
      as [->|[[_ Hz]|Hcl]]; [|lia|right; left; exact Hcl].
    right. right. split; [reflexivity|].
    destruct (Z_lt_le_dec (standing_count o1) m) as [Hlow|Hhigh].
    + destruct (first_count_bounds c Hc) as [Hb _]. rewrite Hc1 in Hlow. lia.
    + exfalso.
      assert (Hfb : (standing_count o1 - m < Z.of_nat (2 * n + 3))%Z).
      { destruct (first_count_bounds c Hc) as [Hb _]. rewrite Hc1.
        pose proof (zeros_pos_length d0) as Hzp. rewrite d0_length in Hzp. lia. }
      assert (Hne1 : [s0] <> []) by discriminate.
      exact (pv_loop_fuel_enough cand ceqb ceqb_spec cs Hcs tb nb notie m n eq_refl Hmpos Htie _ _ _ _ _ _ _
               Hinv1 Hne1 Hhigh Hfb H eq_refl).
  - injection H as <-.
    assert (Hmf : (Z.of_nat n - Z.of_nat (length (pv_elim cand o0)) =? m)%Z = false) by exact Hmb.
    destruct (pv_step_err cand ceqb ceqb_spec cs tb nb notie m n eq_refl Htie _ _ _ _ _ _ inv0 Hmf Hstep)
      as [Hu|Hcl]; [left; exact Hu|right; left; exact Hcl].
Qed.

(* no ballot at all: every tally is zero *)
Lemma no_ballot_no_tally : nb = 0%nat -> pos_count d0 = 0%nat.
Proof.
  intros Hz. unfold pv_positive_count.
  pose proof (iv_sum inv0) as Hsum. pose proof (iv_nn inv0) as Hnn.
  cbn [s0 start_state state_of_scores escores o0 start_obj pv_ballots] in Hsum, Hnn.
  rewrite nlive_all in Hsum by (intros b Hb; exact (live_rk _ _ (unit_live p b Hwf Hb))).
  fold nb in Hsum. rewrite Hz, Qnat_0 in Hsum.
  rewrite filter_all_false; [reflexivity|]. intros [c q] Hq. cbn [snd]. apply negb_false_iff.
  apply Qle_bool_iff. pose proof (qsum_nonneg_member cand _ _ _ Hnn Hq) as Hle. lra.
Qed.

Section NoTiebreak.
Hypothesis Hnone : tb = None.

Lemma start_step_total : forall s : mstate,
  (m < Z.of_nat n)%Z -> (0 < nb)%nat ->
  exists o1 p1 st1 s1, pv_step m tb n o0 dp s0 s = inl ((o1, p1, st1), s1).
Proof.
  intros s Hlt Hnb.
  apply (pv_step_total_none cand ceqb ceqb_spec cs tb nb notie m n eq_refl Htie _ _ _ _ s Hnone Hnb inv0).
  apply Z.eqb_neq. rewrite count0. lia.
Qed.

Theorem start_loop_success_none : forall s : mstate,
  (m = Z.of_nat n \/ (m < Z.of_nat (pos_count d0))%Z) ->
  exists sts s', pv_loop (2 * n + 4) m tb n o0 dp [s0] s = inl (sts, s').
Proof.
  intros s Hcase. rewrite fuel_S.
  destruct (standing_count o0 =? m)%Z eqn:Hmb.
  { rewrite (pv_loop_elect cand ceqb ceqb_spec cs Hcs tb nb notie m n eq_refl Hmpos _ _ _ _ _ _ inv0 Hmb).
    eexists. eexists. reflexivity. }
  apply Z.eqb_neq in Hmb as Hne. rewrite count0 in Hne.
  destruct Hcase as [E|Hk]; [exfalso; apply Hne; symmetry; exact E|].
  assert (Hlt : (m < Z.of_nat n)%Z) by (unfold n, cs in *; lia).
  assert (Hnb : (0 < nb)%nat).
  { destruct (Nat.eq_dec nb 0) as [E|E]; [|lia]. pose proof (no_ballot_no_tally E). lia. }
  rewrite (pv_loop_step cand ceqb cs tb nb notie m n Hmpos _ _ _ _ _ _ inv0).
  destruct (start_step_total s Hlt Hnb) as [o1 [p1 [st1 [s1 Hstep]]]]. rewrite Hstep.
  destruct (first_round _ _ _ _ _ Hlt Hstep) as [Hinv1 [_ [_ [c [idx [Hc [_ [Hc1 _]]]]]]]].
  destruct (first_count_bounds c Hc) as [Hb _].
  apply (pv_loop_total_none cand ceqb ceqb_spec cs Hcs tb nb notie m n eq_refl Hmpos Htie _ _ _ _ _ _ Hnone Hnb
           Hinv1 ltac:(discriminate)).
  - rewrite Hc1. lia.
  - rewrite Hc1. pose proof (zeros_pos_length d0) as Hzp. rewrite d0_length in Hzp. lia.
Qed.

Theorem start_loop_spin_none : forall fuel (s : mstate),
  (m < Z.of_nat n)%Z -> (Z.of_nat (pos_count d0) < m)%Z -> (0 < nb)%nat ->
  pv_loop fuel m tb n o0 dp [s0] s = inr EFuel.
Proof.
  intros fuel s Hlt Hk Hnb. destruct fuel as [|fuel].
  - apply (pv_loop_zero cand ceqb cs tb nb notie m n Hmpos _ _ _ _ _ inv0).
  - rewrite (pv_loop_step cand ceqb cs tb nb notie m n Hmpos _ _ _ _ _ _ inv0).
    destruct (start_step_total s Hlt Hnb) as [o1 [p1 [st1 [s1 Hstep]]]]. rewrite Hstep.
    destruct (first_round _ _ _ _ _ Hlt Hstep) as [Hinv1 [_ [_ [c [idx [Hc [_ [Hc1 _]]]]]]]].
    destruct (first_count_bounds c Hc) as [Hb _].
    apply (pv_loop_spin cand ceqb ceqb_spec cs Hcs tb nb notie m n eq_refl Hmpos Htie _ _ _ _ _ _ Hnone Hnb Hinv1).
    rewrite Hc1. lia.
Qed.

(* as many candidates with a positive tally as seats: everything hangs on the first strike *)
Theorem start_loop_boundary_none : forall s : mstate,
  (m < Z.of_nat n)%Z -> Z.of_nat (pos_count d0) = m ->
  exists idx c tbs s1,
    veto_loop order 0 (unit_ballots p) dp tb d0 [] s = inl ((idx, Some c, tbs), s1) /\ In c cs /\
    (lookup0 cand ceqb c d0 <= 0 ->
       exists sts s', pv_loop (2 * n + 4) m tb n o0 dp [s0] s = inl (sts, s')) /\
    (0 < lookup0 cand ceqb c d0 ->
       forall fuel, pv_loop fuel m tb n o0 dp [s0] s = inr EFuel).
Proof.
  intros s Hlt Hk.
  assert (Hnb : (0 < nb)%nat).
  { destruct (Nat.eq_dec nb 0) as [E|E]; [|lia]. pose proof (no_ballot_no_tally E). lia. }
  destruct (start_step_total s Hlt Hnb) as [o1 [p1 [st1 [s1 Hstep]]]].
  destruct (first_round _ _ _ _ _ Hlt Hstep) as [Hinv1 [_ [_ [c [idx [Hc [_ [Hc1 Hveto]]]]]]]].
  destruct (first_count_bounds c Hc) as [_ [Hzero Hpos]].
  exists idx, c, (tiebreaks st1), s1. split; [exact Hveto|]. split; [exact Hc|]. split.
  - intros Hle. rewrite fuel_S.
    rewrite (pv_loop_step cand ceqb cs tb nb notie m n Hmpos _ _ _ _ _ _ inv0), Hstep.
    apply (pv_loop_total_none cand ceqb ceqb_spec cs Hcs tb nb notie m n eq_refl Hmpos Htie _ _ _ _ _ _ Hnone Hnb
             Hinv1 ltac:(discriminate)).
    + rewrite Hc1, (Hzero Hle). lia.
    + rewrite Hc1, (Hzero Hle). lia.
  - intros Hgt fuel. destruct fuel as [|fuel].
    + apply (pv_loop_zero cand ceqb cs tb nb notie m n Hmpos _ _ _ _ _ inv0).
    + rewrite (pv_loop_step cand ceqb cs tb nb notie m n Hmpos _ _ _ _ _ _ inv0), Hstep.
      apply (pv_loop_spin cand ceqb ceqb_spec cs Hcs tb nb notie m n eq_refl Hmpos Htie _ _ _ _ _ _ Hnone Hnb Hinv1).
      rewrite Hc1, (Hpos Hgt). lia.
Qed.

End NoTiebreak.

(* no ballot, fewer seats than candidates: the voter loop never binds its index *)
Theorem start_loop_unbound : forall fuel (s : mstate),
  (m < Z.of_nat n)%Z -> nb = 0%nat ->
  pv_loop (S fuel) m tb n o0 dp [s0] s = inr EUnbound.
Proof.
  intros fuel s Hlt Hz.
  rewrite (pv_loop_step cand ceqb cs tb nb notie m n Hmpos _ _ _ _ _ _ inv0).
  assert (Hord : order = []).
  { pose proof (Permutation_length (is_perm_nat_perm _ _ Hperm)) as Hl. rewrite seq_length, Hz in Hl.
    destruct order; [reflexivity|discriminate]. }
  unfold PV.pv_step. cbv zeta. cbn [o0 start_obj pv_elim pv_order length].
  assert (Hmf : (Z.of_nat n - Z.of_nat 0 =? m)%Z = false) by (apply Z.eqb_neq; lia).
  rewrite Hmf, Hord. reflexivity.
Qed.

End Fixed.

(* ------------------------------------------------------------------ *)
(** * the run *)

Lemma body_ok_inv : forall fuel m tb (p : profile) d0 (s : mstate) r,
  pv_body fuel m tb p d0 s = inl r ->
  exists order rest,
    scr s = DIdxs order :: rest /\ is_perm_nat order (length (unit_ballots p)) = true /\
    pv_loop fuel m tb (length (cands p)) (start_obj order p) (unit_profile p) [start_state d0]
            (mkM rest (CShuffle (length (unit_ballots p)) :: lg s)) = inl r.
Proof.
  intros fuel m tb p d0 s r H. unfold pv_body in H.
  destruct (scr s) as [|d rest]; [discriminate|]. destruct d as [l|r0|l|q|c|order]; try discriminate.
  destruct (is_perm_nat order (length (unit_ballots p))) eqn:E; [|discriminate].
  exists order, rest. split; [reflexivity|]. split; [first [exact E|reflexivity]|exact H].
Qed.

Lemma body_err_inv : forall fuel m tb (p : profile) d0 (s : mstate) e,
  pv_body fuel m tb p d0 s = inr e ->
  (e = EScript /\ pv_shuffle_rejected cand (length (unit_ballots p)) s) \/
  exists order rest,
    scr s = DIdxs order :: rest /\ is_perm_nat order (length (unit_ballots p)) = true /\
    pv_loop fuel m tb (length (cands p)) (start_obj order p) (unit_profile p) [start_state d0]
            (mkM rest (CShuffle (length (unit_ballots p)) :: lg s)) = inr e.
Proof.
  intros fuel m tb p d0 s e H. unfold pv_body in H. unfold pv_shuffle_rejected.
  destruct (scr s) as [|d rest]; [left; injection H as <-; split; [reflexivity|exact I]|].
  destruct d as [l|r0|l|q|c|order]; try (left; injection H as <-; split; [reflexivity|exact I]).
  destruct (is_perm_nat order (length (unit_ballots p))) eqn:E.
  - right. exists order, rest. split; [reflexivity|]. split; [first [exact E|reflexivity]|exact H].
  - left. injection H as <-. split; [reflexivity|first [exact E|reflexivity]].
Qed.

Lemma body_scr : forall fuel m tb (p : profile) d0 (s : mstate) order rest,
  scr s = DIdxs order :: rest -> is_perm_nat order (length (unit_ballots p)) = true ->
  pv_body fuel m tb p d0 s =
  pv_loop fuel m tb (length (cands p)) (start_obj order p) (unit_profile p) [start_state d0]
          (mkM rest (CShuffle (length (unit_ballots p)) :: lg s)).
Proof. intros fuel m tb p d0 s order rest Hs Hp. unfold pv_body. rewrite Hs, Hp. reflexivity. Qed.

(* R1 *)
Theorem pv_run_facts : forall m tb (p : profile) (s s' : mstate) sts,
  wf_profile p -> run_pv m tb p s = inl (sts, s') ->
  partitions (cands p) sts /\ status_kept sts /\ elects_exactly sts m /\
  exists d0, first_place_votes (unit_profile p) = inl d0 /\
             pv_run_shape cand ceqb (cands p) m d0 sts.
Proof.
  intros m tb p s s' sts Hwf H.
  destruct (run_pv_ok_pre _ _ _ _ _ H) as [Hv [Hm Htie]].
  destruct (run_pv_fuel_unfold m tb p Hwf Hv Hm Htie) as [d0 [Hd0 [_ Hrun]]].
  rewrite Hrun in H. apply body_ok_inv in H. destruct H as [order [rest [_ [Hperm H]]]].
  destruct (start_loop_ok p m tb Hwf Hm d0 Hd0 order Hperm _ _ _ H) as [Hp [He Hs]].
  split; [exact Hp|]. split; [apply (status_kept_all cand)|]. split; [exact He|].
  exists d0. split; [exact Hd0|exact Hs].
Qed.

(* R2 *)
Theorem pv_run_errors : forall m tb (p : profile) (s : mstate) e,
  wf_profile p -> pv_validate p = inl tt -> run_pv m tb p s = inr e ->
  (e = EValue /\ (m <= 0 \/ Z.of_nat (length (cands p)) < m)%Z) \/
  ((1 <= m <= Z.of_nat (length (cands p)))%Z /\
   ((e = EAttr /\ tb = None /\ notie_of p = false) \/
    (e = EScript /\ pv_shuffle_rejected cand (length (unit_ballots p)) s) \/
    ((m < Z.of_nat (length (cands p)))%Z /\
     ((e = EUnbound /\ unit_ballots p = []) \/
      (notie_of p = false /\ pv_tiebreak_error tb e) \/
      (e = EFuel /\ exists d0, first_place_votes (unit_profile p) = inl d0 /\
                               (Z.of_nat (pos_count d0) <= m)%Z))))).
Proof.
  intros m tb p s e Hwf Hv H.
  destruct (Z_le_gt_dec m 0) as [Hle|Hgt].
  { left. rewrite (pv_args cand ceqb m tb p s (or_introl Hle) Hv) in H. injection H as <-. split; [reflexivity|left; exact Hle]. }
  destruct (Z_lt_le_dec (Z.of_nat (length (cands p))) m) as [Hlt|Hge].
  { left. rewrite (pv_args cand ceqb m tb p s (or_intror Hlt) Hv) in H. injection H as <-. split; [reflexivity|right; exact Hlt]. }
  right. assert (Hm : (1 <= m <= Z.of_nat (length (cands p)))%Z) by lia. split; [exact Hm|].
  destruct (Bool.bool_dec (notie_of p) true) as [Hnt|Hnt].
  2:{ apply not_true_is_false in Hnt. destruct tb as [k|] eqn:Etb.
      - (* a tie-break rule is configured: the checks pass *)
        assert (Htie : Some k = None -> notie_of p = true) by discriminate.
        destruct (run_pv_fuel_unfold m (Some k) p Hwf Hv Hm Htie) as [d0 [Hd0 [_ Hrun]]].
        rewrite Hrun in H. apply body_err_inv in H. destruct H as [Hs|[order [rest [_ [Hperm H]]]]].
        + right. left. exact Hs.
        + destruct (start_loop_err p m (Some k) Hwf Hm Htie d0 Hd0 order Hperm _ _ H) as [Hlt [[-> Hz]|[Hc|[-> Hk]]]].
          * right. right. split; [exact Hlt|]. left. split; [reflexivity|]. apply length_zero_iff_nil. exact Hz.
          * right. right. split; [exact Hlt|]. right. left. exact Hc.
          * right. right. split; [exact Hlt|]. right. right. split; [reflexivity|]. exists d0. split; assumption.
      - left. split; [|split; [reflexivity|exact Hnt]].
        unfold PV.run_pv in H. rewrite pvm_lift_bind, Hv in H.
        assert (H1 : (m <=? 0)%Z = false) by (apply Z.leb_gt; lia). rewrite H1 in H.
        assert (H2 : (Z.of_nat (length (cands p)) <? m)%Z = false) by (apply Z.ltb_ge; lia). rewrite H2 in H.
        unfold pv_untied in Hnt. apply negb_false_iff in Hnt. unfold mbind in H at 1. rewrite Hnt in H.
        injection H as <-. reflexivity. }
  assert (Htie : tb = None -> notie_of p = true) by (intros _; exact Hnt).
  destruct (run_pv_fuel_unfold m tb p Hwf Hv Hm Htie) as [d0 [Hd0 [_ Hrun]]].
  rewrite Hrun in H. apply body_err_inv in H. destruct H as [Hs|[order [rest [_ [Hperm H]]]]].
  - right. left. exact Hs.
  - destruct (start_loop_err p m tb Hwf Hm Htie d0 Hd0 order Hperm _ _ H) as [Hlt [[-> Hz]|[Hc|[-> Hk]]]].
    + right. right. split; [exact Hlt|]. left. split; [reflexivity|]. apply length_zero_iff_nil. exact Hz.
    + right. right. split; [exact Hlt|]. right. left. exact Hc.
    + right. right. split; [exact Hlt|]. right. right. split; [reflexivity|]. exists d0. split; assumption.
Qed.

(* R3, R4: without a tie-break rule (the default) *)
Theorem pv_run_none : forall m (p : profile) (s : mstate) order rest d0,
  wf_profile p -> pv_validate p = inl tt ->
  (1 <= m <= Z.of_nat (length (cands p)))%Z -> notie_of p = true ->
  scr s = DIdxs order :: rest -> is_perm_nat order (length (unit_ballots p)) = true ->
  first_place_votes (unit_profile p) = inl d0 ->
  ((exists sts s', run_pv m None p s = inl (sts, s')) <->
     (m = Z.of_nat (length (cands p)) \/ (m < Z.of_nat (pos_count d0))%Z \/
      (m = Z.of_nat (pos_count d0) /\
       exists idx c tbs s2,
         veto_loop order 0 (unit_ballots p) (unit_profile p) None d0 []
                   (mkM rest (CShuffle (length (unit_ballots p)) :: lg s)) = inl ((idx, Some c, tbs), s2) /\
         lookup0 cand ceqb c d0 <= 0))) /\
  ((~ exists sts s', run_pv m None p s = inl (sts, s')) ->
     (unit_ballots p = [] -> forall fuel, run_pv_fuel (S fuel) m None p s = inr EUnbound) /\
     (unit_ballots p <> [] -> forall fuel, run_pv_fuel fuel m None p s = inr EFuel)).
Proof.
  intros m p s order rest d0 Hwf Hv Hm Hnt Hscr Hperm Hd0.
  assert (Htie : @None tb_kind = None -> notie_of p = true) by (intros _; exact Hnt).
  destruct (run_pv_fuel_unfold m None p Hwf Hv Hm Htie) as [d0' [Hd0' [Hfuel Hrun]]].
  assert (d0' = d0) by congruence. subst d0'. clear Hd0'.
  set (s1 := mkM rest (CShuffle (length (unit_ballots p)) :: lg s)).
  assert (Hrun' : run_pv m None p s = pv_loop (2 * length (cands p) + 4) m None (length (cands p))
                    (start_obj order p) (unit_profile p) [start_state d0] s1).
  { rewrite Hrun. apply body_scr; assumption. }
  assert (Hfuel' : forall fuel, run_pv_fuel fuel m None p s = pv_loop fuel m None (length (cands p))
                    (start_obj order p) (unit_profile p) [start_state d0] s1).
  { intros fuel. rewrite Hfuel. apply body_scr; assumption. }
  pose proof (start_loop_success_none p m None Hwf Hm Htie d0 Hd0 order Hperm eq_refl s1) as Hsucc.
  pose proof (fun fuel => start_loop_spin_none p m None Hwf Hm Htie d0 Hd0 order Hperm eq_refl fuel s1) as Hspin.
  pose proof (start_loop_boundary_none p m None Hwf Hm Htie d0 Hd0 order Hperm eq_refl s1) as Hbound.
  pose proof (fun fuel => start_loop_unbound p m None Hwf Hm d0 Hd0 order Hperm fuel s1) as Hunb.
  assert (Hnb0 : length (unit_ballots p) = 0%nat -> pos_count d0 = 0%nat).
  { intros Hz. exact (no_ballot_no_tally p Hwf d0 Hd0 order Hperm Hz). }
  (* the cases *)
  assert (Hcases :
    ((m = Z.of_nat (length (cands p)) \/ (m < Z.of_nat (pos_count d0))%Z \/
      (m = Z.of_nat (pos_count d0) /\
       exists idx c tbs s2,
         veto_loop order 0 (unit_ballots p) (unit_profile p) None d0 [] s1 = inl ((idx, Some c, tbs), s2) /\
         lookup0 cand ceqb c d0 <= 0)) /\
     exists sts s', run_pv m None p s = inl (sts, s')) \/
    (~ (m = Z.of_nat (length (cands p)) \/ (m < Z.of_nat (pos_count d0))%Z \/
      (m = Z.of_nat (pos_count d0) /\
       exists idx c tbs s2,
         veto_loop order 0 (unit_ballots p) (unit_profile p) None d0 [] s1 = inl ((idx, Some c, tbs), s2) /\
         lookup0 cand ceqb c d0 <= 0)) /\
     (unit_ballots p = [] -> forall fuel, run_pv_fuel (S fuel) m None p s = inr EUnbound) /\
     (unit_ballots p <> [] -> forall fuel, run_pv_fuel fuel m None p s = inr EFuel))).
  { destruct (Z.eq_dec m (Z.of_nat (length (cands p)))) as [Emn|Nmn].
    { left. split; [left; exact Emn|]. rewrite Hrun'. apply Hsucc. left. exact Emn. }
    assert (Hlt : (m < Z.of_nat (length (cands p)))%Z) by lia.
    destruct (Z_lt_le_dec m (Z.of_nat (pos_count d0))) as [Hmk|Hkm].
    { left. split; [right; left; exact Hmk|]. rewrite Hrun'. apply Hsucc. right. exact Hmk. }
    destruct (Z.eq_dec m (Z.of_nat (pos_count d0))) as [Emk|Nmk].
    - destruct (Hbound Hlt (eq_sym Emk)) as [idx [c [tbs [s2 [Hveto [Hc [Hz Hp]]]]]]].
      destruct (Qlt_le_dec 0 (lookup0 cand ceqb c d0)) as [Hpos|Hle].
      + right. split.
        * intros [E|[Hl|[_ [idx' [c' [tbs' [s2' [Hveto' Hle']]]]]]]]; [contradiction|lia|].
          rewrite Hveto in Hveto'. injection Hveto' as _ Ec _ _. subst c'. lra.
        * split.
          -- intros Hnil. exfalso. assert (Hz0 : length (unit_ballots p) = 0%nat) by (rewrite Hnil; reflexivity).
             specialize (Hnb0 Hz0). lia.
          -- intros _ fuel. rewrite Hfuel'. apply (Hp Hpos).
      + left. split.
        * right. right. split; [exact Emk|]. exists idx, c, tbs, s2. split; assumption.
        * rewrite Hrun'. apply (Hz Hle).
    - right. assert (Hk : (Z.of_nat (pos_count d0) < m)%Z) by lia. split.
      + intros [E|[Hl|[E _]]]; [contradiction|lia|contradiction].
      + split.
        * intros Hnil fuel. rewrite Hfuel'. apply Hunb; [exact Hlt|rewrite Hnil; reflexivity].
        * intros Hne fuel. rewrite Hfuel'. apply Hspin; [exact Hlt|exact Hk|].
          destruct (unit_ballots p); [contradiction Hne; reflexivity|cbn [length]; lia]. }
  split.
  - split.
    + intros Hex. destruct Hcases as [[Hc _]|[_ [Hu Hf]]]; [exact Hc|]. exfalso.
      destruct Hex as [sts [s' Hex]].
      destruct (Nat.eq_dec (length (unit_ballots p)) 0) as [Hz|Hz].
      * apply length_zero_iff_nil in Hz. specialize (Hu Hz (2 * length (cands p) + 3)%nat). rewrite Hfuel' in Hu.
        replace (S (2 * length (cands p) + 3)) with (2 * length (cands p) + 4)%nat in Hu by lia.
        rewrite Hrun' in Hex. congruence.
      * assert (Hne : unit_ballots p <> []) by (intros E; rewrite E in Hz; apply Hz; reflexivity).
        specialize (Hf Hne (2 * length (cands p) + 4)%nat). rewrite Hfuel' in Hf.
        rewrite Hrun' in Hex. congruence.
    + intros Hc. destruct Hcases as [[_ Hex]|[Hn _]]; [exact Hex|contradiction].
  - intros Hno. destruct Hcases as [[_ Hex]|[_ Hr]]; [contradiction|exact Hr].
Qed.

(* the bounded run with the model's own bound is the model's run, on every input *)
Theorem run_pv_fuel_faithful : forall m tb (p : profile) (s : mstate),
  run_pv m tb p s = run_pv_fuel (2 * length (cands p) + 4) m tb p s.
Proof.
  intros m tb p s. unfold PV.run_pv, PVSpec.run_pv_fuel.
  rewrite !pvm_lift_bind. destruct (pv_validate p) as [[]|e]; [|reflexivity].
  destruct (m <=? 0)%Z eqn:H1; [reflexivity|]. apply Z.leb_gt in H1.
  destruct (Z.of_nat (length (cands p)) <? m)%Z eqn:H2; [reflexivity|]. apply Z.ltb_ge in H2.
  assert (Hext : forall A B (x : M cand A) (k1 k2 : A -> M cand B) (s0 : mstate),
             (forall a s1, k1 a s1 = k2 a s1) -> mbind x k1 s0 = mbind x k2 s0).
  { intros A B x k1 k2 s0 Hk. unfold mbind. destruct (x s0) as [[a s1]|e]; [apply Hk|reflexivity]. }
  apply Hext. intros [] s1.
  cbv zeta. rewrite !pvm_lift_bind.
  destruct (mk_profile cand ceqb (decondense cand (ballots p)) (cands p)) as [dp|e] eqn:Emk; [|reflexivity].
  assert (Hdp : cands dp = cands p).
  { unfold Core.mk_profile in Emk. destruct (has_dup cand ceqb (cands p)); [discriminate|].
    unfold ok in Emk. injection Emk as <-. cbn [cands].
    destruct (cands p) as [|c l]; [cbn [length] in H2; lia|reflexivity]. }
  rewrite Hdp. reflexivity.
Qed.

End Run.
