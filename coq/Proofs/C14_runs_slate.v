(* Proofs/C14_runs_slate.v — property C14 at the level of whole generator runs, the slate models:
   slate_PlackettLuce, exact slate_BradleyTerry, slate_BradleyTerry MCMC (run functions of
   Spec/GenRunSpec.v).  Well-formedness, the possible errors, and success on admissible recorded
   draws. *)
From VK Require Import Base Core GenValidation PrefInterval Generators Generators2 Laws.
From VK.Spec Require Import Content GenSpec Gen2Spec BTSpec GenLaws TypesPushSpec GenRunSpec.
From VK.Proofs Require Import Lib_rk Lib_sets C12_expand C15_bt C15_slate C14_wf C14_kernels C14_types
     C14_sizes C14_gen2 C16_types_push C14_runs.
From Coq Require Import Permutation Lia Lqa Setoid Morphisms.

(* ------------------------------------------------------------------ *)
(** * one slate ballot from a type with the right multiplicities *)

Lemma slate_multiset_eq : forall ivs, slate_multiset ivs = to_sample (sizes_of_intervals ivs).
Proof. intros ivs. unfold slate_multiset, to_sample, sizes_of_intervals. rewrite map_map. reflexivity. Qed.

Lemma type_perm_counts : forall ivs t,
  NoDup (map fst ivs) -> Permutation t (slate_multiset ivs) ->
  (forall x, In x t -> In x (map fst ivs)) /\
  (forall bl iv, In (bl, iv) ivs -> count_bloc bl t = length (pi_int iv)).
Proof.
  intros ivs t Hnd P. rewrite slate_multiset_eq in P. split.
  - intros x Hx. rewrite <- sizes_of_intervals_keys. apply to_sample_members.
    apply (Permutation_in _ P Hx).
  - intros bl iv Hbi. rewrite (count_bloc_perm bl _ _ P). apply count_to_sample; assumption.
Qed.

Lemma slate_ballot_complete : forall ivs zero t orders b calls,
  NoDup (map fst ivs) -> NoDup (slate_nz ivs) ->
  (forall x, In x t -> In x (map fst ivs)) ->
  (forall bl iv, In (bl, iv) ivs -> count_bloc bl t = length (pi_int iv)) ->
  slate_ballot ivs zero t orders = inl (b, calls) ->
  wt b == 1 /\ complete_shape (slate_nz ivs) zero (rk b) (sc b).
Proof.
  intros ivs zero t orders b calls Hnd Hdis T1 T2 H.
  destruct (slate_ballot_wf ivs zero t orders b calls Hnd T1 T2 H)
    as (r & W1 & W2 & W3 & _ & _ & W6 & W7 & _).
  split; [exact W1|]. rewrite W2, W3.
  change (singletons pcand r ++ match zero with [] => [] | _ :: _ => [zero] end) with (rank_of r zero).
  apply complete_shape_rank_of; [|reflexivity].
  eapply Permutation_trans; [exact W7|]. unfold slate_nz. apply concat_map_perm.
  intros [bl iv] Hbi. cbn [fst snd]. destruct (W6 bl iv Hbi) as (_ & _ & _ & _ & Hp). apply Hp.
  apply (NoDup_concat_each _ _ _ Hdis). apply in_map_iff. exists (bl, iv). split; [reflexivity|exact Hbi].
Qed.

(* ------------------------------------------------------------------ *)
(** * fill_type / slate_ballot: errors and success *)

Lemma fill_type_errors : forall t orders e, fill_type t orders = inr e -> e = EKey \/ e = EIndex.
Proof.
  induction t as [|b t IH]; intros orders e H; cbn [fill_type] in H; [discriminate|].
  destruct (find (fun x => Pos.eqb b (fst x)) orders) as [[k [|c more]]|];
    [injection H as <-; right; reflexivity| |injection H as <-; left; reflexivity].
  apply rbind_inr in H. destruct H as [H|(r & _ & H)]; [|discriminate]. apply (IH _ _ H).
Qed.

Lemma slate_ballot_errors : forall ivs zero t orders e,
  slate_ballot ivs zero t orders = inr e -> e = EScript \/ e = EKey \/ e = EIndex.
Proof.
  intros ivs zero t orders e H. unfold slate_ballot in H.
  match type of H with (if negb ?c then _ else _) = _ => destruct c end; cbn [negb] in H;
    [|injection H as <-; left; reflexivity].
  apply rbind_inr in H. destruct H as [H|(r & _ & H)]; [|discriminate].
  right. apply (fill_type_errors _ _ _ H).
Qed.

Lemma find_upd_some : forall orders b0 more b,
  (exists x, find (fun x : bloc * list pcand => Pos.eqb b (fst x)) orders = Some x) ->
  exists x, find (fun x : bloc * list pcand => Pos.eqb b (fst x)) (upd_order b0 more orders) = Some x.
Proof.
  induction orders as [|[k o] orders IH]; intros b0 more b (x & Hx); [discriminate|].
  cbn [upd_order map fst]. cbn [find fst] in Hx.
  destruct (Pos.eqb b0 k) eqn:E0; cbn [find fst].
  - destruct (Pos.eqb b k) eqn:Eb; [eexists; reflexivity|]. apply IH. exists x. exact Hx.
  - destruct (Pos.eqb b k) eqn:Eb; [eexists; reflexivity|]. apply IH. exists x. exact Hx.
Qed.

Lemma order_of_find : forall (orders : list (bloc * list pcand)) b x,
  find (fun y : bloc * list pcand => Pos.eqb b (fst y)) orders = Some x -> order_of orders b = snd x.
Proof.
  intros orders b x H. unfold order_of.
  exact (f_equal (fun o : option (bloc * list pcand) => match o with Some x => snd x | None => [] end) H).
Qed.

Lemma fill_type_succeeds : forall t orders,
  (forall b, In b t -> exists x, find (fun x : bloc * list pcand => Pos.eqb b (fst x)) orders = Some x) ->
  (forall b, (count_bloc b t <= length (order_of orders b))%nat) ->
  exists r, fill_type t orders = inl r.
Proof.
  induction t as [|b0 t IH]; intros orders Hf Hc; cbn [fill_type]; [eexists; reflexivity|].
  destruct (Hf b0 (or_introl eq_refl)) as ([k o] & Hx).
  match goal with |- context [find ?f orders] =>
    change (find f orders) with (find (fun x : bloc * list pcand => Pos.eqb b0 (fst x)) orders) end.
  rewrite Hx.
  pose proof (Hc b0) as Hc0. rewrite count_bloc_cons_same in Hc0.
  rewrite (order_of_find _ _ _ Hx) in Hc0. cbn [snd] in Hc0.
  destruct o as [|c more]; [cbn [length] in Hc0; lia|].
  match goal with |- context [fill_type t ?o] => change o with (upd_order b0 more orders) end.
  destruct (IH (upd_order b0 more orders)) as (r & Hr).
  - intros b Hb. apply find_upd_some. apply Hf. right. exact Hb.
  - intros b. destruct (Pos.eq_dec b b0) as [->|Hne].
    + rewrite (order_of_upd_same orders b0 more _ Hx). cbn [length] in Hc0. lia.
    + rewrite (order_of_upd_other orders b0 more b Hne). specialize (Hc b).
      rewrite count_bloc_cons_other in Hc by exact Hne. exact Hc.
  - rewrite Hr. cbn [rbind]. eexists. reflexivity.
Qed.

Lemma slate_ballot_succeeds : forall ivs zero t orders,
  (forall x, In x t -> In x (map fst ivs)) ->
  (forall bl iv, In (bl, iv) ivs -> count_bloc bl t = length (pi_int iv)) ->
  orders_ok ivs orders ->
  exists out, slate_ballot ivs zero t orders = inl out.
Proof.
  intros ivs zero t orders T1 T2 Ho. unfold slate_ballot.
  assert (Hfind : forall bl iv, In (bl, iv) ivs -> pi_int iv <> [] ->
            exists o, find (fun o : bloc * list pcand => Pos.eqb bl (fst o)) orders = Some o /\
                      valid_sample (map fst (pi_int iv)) (length (pi_int iv)) (snd o) = true).
  { intros bl iv Hbi Hne. pose proof (Ho bl iv Hbi Hne) as Hv.
    destruct (find (fun o : bloc * list pcand => Pos.eqb bl (fst o)) orders) as [o|] eqn:Ef.
    - exists o. split; [reflexivity|]. rewrite (order_of_find _ _ _ Ef) in Hv. exact Hv.
    - exfalso.
      assert (E : order_of orders bl = []).
      { unfold order_of.
        exact (f_equal (fun o : option (bloc * list pcand) => match o with Some x => snd x | None => [] end) Ef). }
      rewrite E in Hv. apply valid_sample_iff in Hv. destruct Hv as (L & _).
      destruct (pi_int iv); [contradiction|discriminate]. }
  match goal with |- context [forallb ?f ?l] => assert (E : forallb f l = true) end.
  { apply forallb_forall. intros [bl iv] Hx. apply filter_In in Hx. destruct Hx as (Hbi & Hne). cbn [fst snd] in *.
    assert (Hne' : pi_int iv <> []) by (destruct (pi_int iv); [discriminate|discriminate]).
    destruct (Hfind bl iv Hbi Hne') as (o & Ef & Hv).
    match goal with |- match ?f with _ => _ end = true =>
      change f with (find (fun o : bloc * list pcand => Pos.eqb bl (fst o)) orders) end.
    rewrite Ef. exact Hv. }
  rewrite E. cbn [negb].
  destruct (fill_type_succeeds t orders) as (r & Hr).
  - intros b Hb. pose proof (T1 b Hb) as Hin. apply in_map_iff in Hin. destruct Hin as ([bl iv] & Hbl & Hbi).
    cbn [fst] in Hbl. subst bl.
    assert (Hne : pi_int iv <> []).
    { intros Hc. pose proof (T2 b iv Hbi) as Hcnt. rewrite Hc in Hcnt. cbn [length] in Hcnt.
      apply in_split in Hb. destruct Hb as (l1 & l2 & ->). rewrite count_bloc_app, count_bloc_cons_same in Hcnt. lia. }
    destruct (Hfind b iv Hbi Hne) as (o & Ef & _). exists o. exact Ef.
  - intros b. destruct (in_dec Pos.eq_dec b (map fst ivs)) as [Hin|Hnin].
    + apply in_map_iff in Hin. destruct Hin as ([bl iv] & Hbl & Hbi). cbn [fst] in Hbl. subst bl.
      rewrite (T2 b iv Hbi). destruct (pi_int iv) as [|p ps] eqn:Ep; [cbn [length]; lia|].
      assert (Hne : pi_int iv <> []) by (rewrite Ep; discriminate).
      pose proof (Ho b iv Hbi Hne) as Hv. rewrite Ep in Hv. apply valid_sample_iff in Hv. lia.
    + rewrite count_bloc_not_in; [lia|]. intros Hc. apply Hnin. apply T1. exact Hc.
  - rewrite Hr. cbn [rbind]. eexists. reflexivity.
Qed.

(* ------------------------------------------------------------------ *)
(** * slate_PlackettLuce *)




Lemma spl_size_of : forall x bl iv, spl_params_ok x -> In (bl, iv) (spl_ivs x) ->
  size_of (spl_sizes x) bl = length (pi_int iv) /\ (1 <= length (pi_int iv))%nat.
Proof.
  intros x bl iv ((Hnd & Hs & H1 & _) & _) Hbi. split; [|apply (H1 bl iv Hbi)].
  rewrite Hs. apply (size_of_intervals (spl_ivs x) bl iv Hnd Hbi).
Qed.

Lemma spl_type_counts : forall (x : spl_in) (d : spl_draw) t calls, spl_params_ok x -> spl_draw_shape_ok x d ->
  type_loop (fst (fst d)) (map fst (spl_coh x)) (map snd (spl_coh x)) (spl_sizes x) [] (snd (fst d))
    = inl (t, calls) ->
  (forall y, In y t -> In y (map fst (spl_ivs x))) /\
  (forall bl iv, In (bl, iv) (spl_ivs x) -> count_bloc bl t = length (pi_int iv)).
Proof.
  intros x d t calls Hp (Hfl & Hsh) H. pose proof Hp as ((Hnd & Hs & H1 & Hdis) & (Hndc & Hkeys & Hnn)).
  assert (Hsz : forall b, In b (map fst (spl_coh x)) -> (1 <= size_of (spl_sizes x) b)%nat).
  { intros b Hb. apply Hkeys in Hb. apply in_map_iff in Hb. destruct Hb as ([bl iv] & Hbl & Hbi).
    cbn [fst] in Hbl. subst bl. destruct (spl_size_of x b iv Hp Hbi) as (E & Hge). rewrite E. exact Hge. }
  destruct (type_loop_arrangement (spl_sizes x) (fst (fst d)) (map fst (spl_coh x)) (map snd (spl_coh x))
              (snd (fst d)) t calls Hndc ltac:(rewrite !map_length; reflexivity) Hnn Hsz Hfl (Hsh t calls H) H)
    as (C1 & C2 & _ & _).
  split.
  - intros y Hy. apply Hkeys. destruct (in_dec Pos.eq_dec y (map fst (spl_coh x))) as [Hin|Hnin]; [exact Hin|].
    exfalso. specialize (C2 y Hnin). apply in_split in Hy. destruct Hy as (l1 & l2 & ->).
    rewrite count_bloc_app, count_bloc_cons_same in C2. lia.
  - intros bl iv Hbi. rewrite C1.
    + apply (spl_size_of x bl iv Hp Hbi).
    + apply Hkeys. apply in_map_iff. exists (bl, iv). split; [reflexivity|exact Hbi].
Qed.

Lemma spl_one_inv : forall x d y, spl_one x d = inl y ->
  exists t c1 b c2,
    type_loop (fst (fst d)) (map fst (spl_coh x)) (map snd (spl_coh x)) (spl_sizes x) [] (snd (fst d))
      = inl (t, c1) /\
    slate_ballot (spl_ivs x) (spl_zero x) t (snd d) = inl (b, c2) /\ y = (b, (c1, c2)).
Proof.
  intros x d y H. unfold spl_one in H. apply rbind_inl in H. destruct H as ([t c1] & Ht & H).
  apply rbind_inl in H. destruct H as ([b c2] & Hb & H). cbn [fst snd] in *. injection H as <-.
  exists t, c1, b, c2. split; [exact Ht|]. split; [exact Hb|reflexivity].
Qed.

Lemma spl_pool_inv : forall x p, spl_pool x = inl p ->
  exists bs, rmap (spl_one x) (spl_ballots x) = inl bs /\ fst p = spl_id x /\ fst (snd p) = map fst bs.
Proof.
  intros x p H. unfold spl_pool in H. apply rbind_inl in H. destruct H as (bs & Hr & H).
  injection H as <-. exists bs. split; [exact Hr|]. split; reflexivity.
Qed.

Lemma spl_pool_ok : forall x p, spl_params_ok x ->
  (forall d, In d (spl_ballots x) -> spl_draw_shape_ok x d) ->
  spl_pool x = inl p ->
  pool_ok spl_id spl_size spl_shape_of x (fst p, fst (snd p)).
Proof.
  intros x p Hp Hd H. apply spl_pool_inv in H. destruct H as (bs & Hr & E1 & E2).
  unfold pool_ok. cbn [fst snd]. rewrite E1, E2. apply rmap_ok_inv in Hr.
  split; [reflexivity|]. split; [rewrite map_length; symmetry; apply (Forall2_len _ _ _ _ _ Hr)|].
  intros b Hb. apply in_map_iff in Hb. destruct Hb as (y & <- & Hy).
  destruct (Forall2_In_r _ _ _ _ _ _ Hr Hy) as (d & Hdin & Hone).
  apply spl_one_inv in Hone. destruct Hone as (t & c1 & b & c2 & Ht & Hb & ->). cbn [fst].
  destruct (spl_type_counts x d t c1 Hp (Hd d Hdin) Ht) as (T1 & T2).
  destruct Hp as ((Hnd & _ & _ & Hdis) & _).
  apply (slate_ballot_complete _ _ _ _ _ _ Hnd Hdis T1 T2 Hb).
Qed.

Theorem gen_slate_pl_wf : forall blocs by_bloc agg calls,
  (forall x, In x blocs -> spl_params_ok x /\ forall d, In d (spl_ballots x) -> spl_draw_shape_ok x d) ->
  gen_slate_pl_run blocs = inl (by_bloc, agg, calls) ->
  run_wf spl_id spl_size spl_shape_of blocs by_bloc agg.
Proof.
  intros blocs by_bloc agg calls Hok H.
  apply (bloc_run_wf spl_pool spl_id spl_size spl_shape_of blocs by_bloc agg calls); [|exact H].
  intros x p Hx Hp. destruct (Hok x Hx) as (H1 & H2). apply spl_pool_ok; assumption.
Qed.

Lemma type_loop_errors : forall flips blocs values sizes acc sh e,
  type_loop flips blocs values sizes acc sh = inr e -> e = EType \/ e = EIndex \/ e = EScript.
Proof.
  induction flips as [|flip rest IH]; intros blocs values sizes acc sh e H; cbn [type_loop] in H; [discriminate|].
  destruct (which_bin (bins_of values) flip 0) as [i|]; [|injection H as <-; left; reflexivity].
  destruct (nth_error blocs i) as [b|]; [|injection H as <-; right; left; reflexivity].
  match type of H with (if ?c then _ else _) = _ => destruct c end; [|apply (IH _ _ _ _ _ _ H)].
  match type of H with (if ?c then _ else _) = _ => destruct c end; [|apply (IH _ _ _ _ _ _ H)].
  destruct sh; [discriminate|injection H as <-; right; right; reflexivity].
Qed.

Theorem gen_slate_pl_errors : forall blocs e,
  gen_slate_pl_run blocs = inr e -> e = EScript \/ e = EType \/ e = EIndex \/ e = EKey.
Proof.
  intros blocs e H. apply (bloc_run_err spl_pool) in H. destruct H as (x & Hx & H).
  unfold spl_pool in H. apply rbind_inr in H. destruct H as [H|(r & _ & H)]; [|discriminate].
  apply rmap_err_in in H. destruct H as (d & _ & H). unfold spl_one in H.
  apply rbind_inr in H. destruct H as [H|(tc & _ & H)].
  - apply type_loop_errors in H. tauto.
  - apply rbind_inr in H. destruct H as [H|(bc & _ & H)]; [|discriminate].
    apply slate_ballot_errors in H. tauto.
Qed.

(* with positive cohesion values no box ends in a shuffle *)
Lemma type_boxes_no_shuffle : forall sizes n blocs values acc bx,
  (forall v, In v values -> 0 < v) ->
  In bx (type_boxes n blocs values sizes acc) -> exists t, snd bx = Finished t.
Proof.
  induction n as [|n IH]; intros blocs values acc bx Hpos Hin.
  - cbn [type_boxes] in Hin. destruct Hin as [<-|[]]. eexists. reflexivity.
  - cbn [type_boxes] in Hin. apply in_concat in Hin. destruct Hin as (l & Hl & Hbx).
    apply in_map_iff in Hl. destruct Hl as (i & <- & _).
    destruct (nth_error blocs i) as [b|]; [|destruct Hbx].
    apply in_map_iff in Hbx. destruct Hbx as (bx' & <- & Hbx'). cbn [push_front snd].
    destruct (Nat.eqb (count_bloc b (b :: acc)) (size_of sizes b)); [|apply (IH _ _ _ _ Hpos Hbx')].
    assert (Hpos' : forall v, In v (remove_nth i values) -> 0 < v).
    { intros v Hv. apply Hpos. clear - Hv. revert i Hv. induction values as [|w values IHv]; intros [|i] Hv; cbn [remove_nth] in Hv.
      - destruct Hv. - destruct Hv. - right. exact Hv.
      - destruct Hv as [<-|Hv]; [left; reflexivity|right; apply (IHv i Hv)]. }
    destruct (remove_nth i values) as [|w ws] eqn:Er.
    + cbn [nonempty] in Hbx'. rewrite andb_false_r in Hbx'. refine (IH _ _ _ _ _ Hbx').
      intros v Hv. destruct Hv.
    + assert (Htot : 0 < qsum (w :: ws)).
      { apply C15_interval.qsum_pos_list; [intros q Hq; apply Hpos'; exact Hq|discriminate]. }
      assert (E : Qeq_bool (qsum (w :: ws)) 0 = false).
      { apply Lib_rk.Qeq_bool_false_iff. lra. }
      rewrite E in Hbx'. cbn [andb] in Hbx'. refine (IH _ _ _ _ _ Hbx').
      intros v Hv. apply in_map_iff in Hv. destruct Hv as (v0 & <- & Hv0).
      apply Qlt_shift_div_l; [exact Htot|]. rewrite Qmult_0_l. apply Hpos'. exact Hv0.
Qed.


Lemma type_loop_succeeds : forall (x : spl_in) (d : spl_draw), spl_params_ok x -> qsum (map snd (spl_coh x)) == 1 ->
  length (fst (fst d)) = list_sum (map (size_of (spl_sizes x)) (map fst (spl_coh x))) ->
  Forall (fun u => 0 < u /\ u < 1) (fst (fst d)) ->
  ((forall v, In v (map snd (spl_coh x)) -> 0 < v) \/ exists s, snd (fst d) = Some s) ->
  exists out,
    type_loop (fst (fst d)) (map fst (spl_coh x)) (map snd (spl_coh x)) (spl_sizes x) [] (snd (fst d)) = inl out.
Proof.
  intros x d Hp Hsum Hfl Hu Hsh. pose proof Hp as ((Hnd & Hs & H1 & Hdis) & (Hndc & Hkeys & Hnn)).
  assert (Hsz : forall b, In b (map fst (spl_coh x)) -> (count_bloc b [] < size_of (spl_sizes x) b)%nat).
  { intros b Hb. apply Hkeys in Hb. apply in_map_iff in Hb. destruct Hb as ([bl iv] & Hbl & Hbi).
    cbn [fst] in Hbl. subst bl. destruct (spl_size_of x b iv Hp Hbi) as (E & Hge). rewrite E, count_bloc_nil. lia. }
  destruct (type_boxes_cover (spl_sizes x) (length (fst (fst d))) (fst (fst d)) (map fst (spl_coh x))
              (map snd (spl_coh x)) []) as (bx & Hbx & Hin); try assumption.
  - rewrite !map_length. reflexivity.
  - intros _. exact Hsum.
  - rewrite Hfl. f_equal. apply map_ext. intros b. rewrite count_bloc_nil. lia.
  - reflexivity.
  - eapply Forall_impl; [|exact Hu]. intros u (A & B). split; [exact A|lra].
  - destruct (snd bx) as [t|p rem] eqn:Eo.
    + exists (t, []). apply (type_loop_boxes (spl_sizes x) _ _ _ _ _ _ _ Hnn). exists bx.
      split; [exact Hbx|]. split; [exact Hin|]. rewrite Eo. split; reflexivity.
    + destruct Hsh as [Hpos|(s & Es)].
      * destruct (type_boxes_no_shuffle _ _ _ _ _ _ Hpos Hbx) as (t & Et). rewrite Eo in Et. discriminate.
      * exists (p ++ s, [GShuffle rem]). apply (type_loop_boxes (spl_sizes x) _ _ _ _ _ _ _ Hnn). exists bx.
        split; [exact Hbx|]. split; [exact Hin|]. rewrite Eo. split; [exists s; split; [exact Es|reflexivity]|reflexivity].
Qed.

Theorem gen_slate_pl_succeeds : forall blocs,
  (forall x, In x blocs -> spl_params_ok x /\ qsum (map snd (spl_coh x)) == 1 /\
     forall d, In d (spl_ballots x) -> spl_draw_ok x d) ->
  exists out, gen_slate_pl_run blocs = inl out.
Proof.
  intros blocs Hok. apply (bloc_run_succeeds spl_pool). intros x Hx.
  destruct (Hok x Hx) as (Hp & Hsum & Hd). unfold spl_pool.
  destruct (rmap_succeeds _ _ (spl_one x) (spl_ballots x)) as (bs & Hbs).
  - intros d Hdin. destruct (Hd d Hdin) as (Hfl & Hu & Hsh & Hshok & Ho). unfold spl_one.
    destruct (type_loop_succeeds x d Hp Hsum Hfl Hu Hsh) as ([t c1] & Ht). rewrite Ht. cbn [rbind fst snd].
    destruct (spl_type_counts x d t c1 Hp (conj Hfl Hshok) Ht) as (T1 & T2).
    destruct (slate_ballot_succeeds (spl_ivs x) (spl_zero x) t (snd d) T1 T2 Ho) as ([b c2] & Hb).
    rewrite Hb. cbn [rbind]. eexists. reflexivity.
  - rewrite Hbs. cbn [rbind]. eexists. reflexivity.
Qed.

(* ------------------------------------------------------------------ *)
(** * exact slate_BradleyTerry *)


Lemma sbt_one_inv : forall x d y, sbt_one x d = inl y ->
  (exists v, In (fst d, v) (sbt_table x) /\ 0 < v) /\
  slate_ballot (sbt_ivs x) (sbt_zero x) (fst d) (snd d) = inl y.
Proof.
  intros x d y H. unfold sbt_one in H. fold (sbt_table x) in H.
  destruct (existsb (fun e : list bloc * Q => type_eqb (fst e) (fst d) && Qlt_bool 0 (snd e)) (sbt_table x)) eqn:E;
    cbn [negb] in H; [|discriminate].
  split; [|exact H]. apply existsb_exists in E. destruct E as ([t v] & Hin & E). cbn [fst snd] in E.
  apply andb_true_iff in E. destruct E as (E1 & E2). apply type_eqb_true_iff in E1. subst t.
  exists v. split; [exact Hin|]. unfold Qlt_bool in E2. apply negb_true_iff in E2.
  destruct (Qlt_le_dec 0 v) as [Hp|Hq]; [exact Hp|]. apply Qle_bool_iff in Hq. congruence.
Qed.

Lemma sbt_pool_ok : forall x p, slate_params_ok (sbt_ivs x) (sbt_sizes x) ->
  sbt_pool x = inl p -> pool_ok sbt_id sbt_size sbt_shape_of x (fst p, fst (snd p)).
Proof.
  intros x p (Hnd & Hs & _ & Hdis) H. unfold sbt_pool in H. apply rbind_inl in H. destruct H as (bs & Hr & H).
  injection H as <-. unfold pool_ok. cbn [fst snd]. apply rmap_ok_inv in Hr.
  split; [reflexivity|]. split; [rewrite map_length; symmetry; apply (Forall2_len _ _ _ _ _ Hr)|].
  intros b Hb. apply in_map_iff in Hb. destruct Hb as ([b' c2] & <- & Hy). cbn [fst].
  destruct (Forall2_In_r _ _ _ _ _ _ Hr Hy) as (d & Hdin & Hone).
  apply sbt_one_inv in Hone. destruct Hone as ((v & Hv & _) & Hb). unfold sbt_table in Hv. rewrite Hs in Hv.
  destruct (slate_bt_type_counts (sbt_ivs x) _ _ _ _ _ Hnd Hv) as (T1 & T2 & _).
  apply (slate_ballot_complete _ _ _ _ _ _ Hnd Hdis T1 T2 Hb).
Qed.

Theorem gen_slate_bt_wf : forall blocs by_bloc agg calls,
  (forall x, In x blocs -> slate_params_ok (sbt_ivs x) (sbt_sizes x)) ->
  gen_slate_bt_run blocs = inl (by_bloc, agg, calls) ->
  run_wf sbt_id sbt_size sbt_shape_of blocs by_bloc agg.
Proof.
  intros blocs by_bloc agg calls Hok H.
  apply (bloc_run_wf sbt_pool sbt_id sbt_size sbt_shape_of blocs by_bloc agg calls); [|exact H].
  intros x p Hx Hp. apply sbt_pool_ok; [apply Hok; exact Hx|exact Hp].
Qed.

Theorem gen_slate_bt_errors : forall blocs e,
  gen_slate_bt_run blocs = inr e -> e = EScript \/ e = EKey \/ e = EIndex.
Proof.
  intros blocs e H. apply (bloc_run_err sbt_pool) in H. destruct H as (x & Hx & H).
  unfold sbt_pool in H. apply rbind_inr in H. destruct H as [H|(r & _ & H)]; [|discriminate].
  apply rmap_err_in in H. destruct H as (d & _ & H). unfold sbt_one in H.
  match type of H with (if negb ?c then _ else _) = _ => destruct c end; cbn [negb] in H;
    [|injection H as <-; left; reflexivity].
  apply slate_ballot_errors in H. exact H.
Qed.

(* every recorded type has positive probability in the table; valid per-slate orders *)
Theorem gen_slate_bt_succeeds : forall blocs,
  (forall x, In x blocs -> slate_params_ok (sbt_ivs x) (sbt_sizes x) /\
     forall d, In d (sbt_ballots x) ->
       (exists v, In (fst d, v) (sbt_table x) /\ 0 < v) /\ orders_ok (sbt_ivs x) (snd d)) ->
  exists out, gen_slate_bt_run blocs = inl out.
Proof.
  intros blocs Hok. apply (bloc_run_succeeds sbt_pool). intros x Hx.
  destruct (Hok x Hx) as ((Hnd & Hs & _ & Hdis) & Hd). unfold sbt_pool.
  destruct (rmap_succeeds _ _ (sbt_one x) (sbt_ballots x)) as (bs & Hbs).
  - intros d Hdin. destruct (Hd d Hdin) as ((v & Hv & Hpos) & Ho). unfold sbt_one. fold (sbt_table x).
    assert (E : existsb (fun e : list bloc * Q => type_eqb (fst e) (fst d) && Qlt_bool 0 (snd e)) (sbt_table x) = true).
    { apply existsb_exists. exists (fst d, v). split; [exact Hv|]. cbn [fst snd].
      assert (E1 : type_eqb (fst d) (fst d) = true) by (apply type_eqb_true_iff; reflexivity).
      rewrite E1. cbn [andb]. unfold Qlt_bool. apply negb_true_iff.
      destruct (Qle_bool v 0) eqn:Ec; [|reflexivity]. apply Qle_bool_iff in Ec. lra. }
    rewrite E. cbn [negb]. unfold sbt_table in Hv. rewrite Hs in Hv.
    destruct (slate_bt_type_counts (sbt_ivs x) _ _ _ _ _ Hnd Hv) as (T1 & T2 & _).
    apply (slate_ballot_succeeds _ _ _ _ T1 T2 Ho).
  - rewrite Hbs. cbn [rbind]. eexists. reflexivity.
Qed.

(* ------------------------------------------------------------------ *)
(** * slate_BradleyTerry MCMC *)


Lemma slate_mcmc_run_length : forall own c steps cur, length (slate_mcmc_run own c cur steps) = length steps.
Proof.
  intros own c steps. induction steps as [|s steps IH]; intros cur; [reflexivity|].
  cbn [slate_mcmc_run length]. rewrite IH. reflexivity.
Qed.

Lemma sm_pool_inv : forall x p, sm_pool x = inl p ->
  (forall s, In s (sm_steps x) -> (S (fst s) < length (sm_seed x))%nat) /\
  length (sm_orders x) = length (sm_steps x) /\
  exists bs,
    rmap (fun to : list bloc * list (bloc * list pcand) =>
            slate_ballot (sm_ivs x) (sm_zero x) (fst to) (snd to))
         (combine (slate_mcmc_run (sm_own x) (sm_coh x) (sm_seed x) (sm_steps x)) (sm_orders x)) = inl bs /\
    p = (sm_id x, (map fst bs, concat (map snd bs))).
Proof.
  intros x p H. unfold sm_pool in H.
  match type of H with (if negb ?c then _ else _) = _ => destruct c eqn:E1 end; cbn [negb] in H; [|discriminate].
  match type of H with (if negb ?c then _ else _) = _ => destruct c eqn:E2 end; cbn [negb] in H; [|discriminate].
  apply rbind_inl in H. destruct H as (bs & Hr & H). injection H as <-.
  split; [|split].
  - intros s Hs. rewrite forallb_forall in E1. apply Nat.ltb_lt. apply (E1 s Hs).
  - apply Nat.eqb_eq in E2. rewrite slate_mcmc_run_length in E2. symmetry. exact E2.
  - exists bs. split; [exact Hr|reflexivity].
Qed.

Lemma sm_pool_ok : forall x p, sm_params_ok x -> sm_pool x = inl p ->
  pool_ok sm_id sm_size sm_shape_of x (fst p, fst (snd p)).
Proof.
  intros x p (Hnd & Hdis & Pseed) H. apply sm_pool_inv in H. destruct H as (_ & Hlo & bs & Hr & ->).
  unfold pool_ok. cbn [fst snd]. apply rmap_ok_inv in Hr.
  split; [reflexivity|]. split.
  { rewrite map_length, <- (Forall2_len _ _ _ _ _ Hr), combine_length, slate_mcmc_run_length. unfold sm_size. lia. }
  intros b Hb. apply in_map_iff in Hb. destruct Hb as ([b' c2] & <- & Hy). cbn [fst].
  destruct (Forall2_In_r _ _ _ _ _ _ Hr Hy) as ([t os] & Hdin & Hone). cbn [fst snd] in Hone.
  apply in_combine_l in Hdin. destruct (slate_mcmc_run_perm _ _ _ _ _ Hdin) as (Pt & _).
  destruct (type_perm_counts (sm_ivs x) t Hnd (Permutation_trans Pt Pseed)) as (T1 & T2).
  apply (slate_ballot_complete _ _ _ _ _ _ Hnd Hdis T1 T2 Hone).
Qed.

Theorem gen_slate_mcmc_wf : forall blocs by_bloc agg calls,
  (forall x, In x blocs -> sm_params_ok x) ->
  gen_slate_mcmc_run blocs = inl (by_bloc, agg, calls) ->
  run_wf sm_id sm_size sm_shape_of blocs by_bloc agg.
Proof.
  intros blocs by_bloc agg calls Hok H.
  apply (bloc_run_wf sm_pool sm_id sm_size sm_shape_of blocs by_bloc agg calls); [|exact H].
  intros x p Hx Hp. apply sm_pool_ok; [apply Hok; exact Hx|exact Hp].
Qed.

Theorem gen_slate_mcmc_errors : forall blocs e,
  gen_slate_mcmc_run blocs = inr e -> e = EScript \/ e = EKey \/ e = EIndex.
Proof.
  intros blocs e H. apply (bloc_run_err sm_pool) in H. destruct H as (x & Hx & H).
  unfold sm_pool in H.
  match type of H with (if negb ?c then _ else _) = _ => destruct c end; cbn [negb] in H;
    [|injection H as <-; left; reflexivity].
  match type of H with (if negb ?c then _ else _) = _ => destruct c end; cbn [negb] in H;
    [|injection H as <-; left; reflexivity].
  apply rbind_inr in H. destruct H as [H|(r & _ & H)]; [|discriminate].
  apply rmap_err_in in H. destruct H as (d & _ & H). apply slate_ballot_errors in H. exact H.
Qed.

(* proposals inside the type, one list of per-slate orders per step, all valid *)
Theorem gen_slate_mcmc_succeeds : forall blocs,
  (forall x, In x blocs -> sm_params_ok x /\
     (forall s, In s (sm_steps x) -> (S (fst s) < length (sm_seed x))%nat) /\
     length (sm_orders x) = length (sm_steps x) /\
     forall os, In os (sm_orders x) -> orders_ok (sm_ivs x) os) ->
  exists out, gen_slate_mcmc_run blocs = inl out.
Proof.
  intros blocs Hok. apply (bloc_run_succeeds sm_pool). intros x Hx.
  destruct (Hok x Hx) as ((Hnd & Hdis & Pseed) & Hs & Hl & Ho). unfold sm_pool.
  match goal with |- context [forallb ?f (sm_steps x)] => assert (E1 : forallb f (sm_steps x) = true) end.
  { apply forallb_forall. intros s Hin. apply Nat.ltb_lt. apply (Hs s Hin). }
  rewrite E1. cbn [negb].
  assert (E2 : Nat.eqb (length (slate_mcmc_run (sm_own x) (sm_coh x) (sm_seed x) (sm_steps x)))
                       (length (sm_orders x)) = true).
  { apply Nat.eqb_eq. rewrite slate_mcmc_run_length. symmetry. exact Hl. }
  rewrite E2. cbn [negb].
  match goal with |- context [rmap ?f ?l] => destruct (rmap_succeeds _ _ f l) as (bs & Hbs) end.
  - intros [t os] Hin. cbn [fst snd]. pose proof (in_combine_l _ _ _ _ Hin) as Ht.
    pose proof (in_combine_r _ _ _ _ Hin) as Hos.
    destruct (slate_mcmc_run_perm _ _ _ _ _ Ht) as (Pt & _).
    destruct (type_perm_counts (sm_ivs x) t Hnd (Permutation_trans Pt Pseed)) as (T1 & T2).
    apply (slate_ballot_succeeds _ _ _ _ T1 T2 (Ho os Hos)).
  - rewrite Hbs. cbn [rbind]. eexists. reflexivity.
Qed.
