(* Proofs/STV_wsum.v — strip on untied rankings, and weight-linear sums
   [wsumr phi bs = Σ_b wt b * phi (rk b)] (phi constant on classes of set-equal rankings)
   followed through condense_bs, remove_cand_bs and fractional_transfer.  Taking phi = 1 gives
   total weights, phi = [· ~ r'] gives the weight carried by ranking r'. *)
From VK Require Import Base Core STV EditSpec ScoreSpec STVSpec.
From VK.Proofs Require Import Lib_sets Lib_rk Lib_condense Lib_condense12 C12_edit C03_transfer STV_lib.
From Coq Require Import Permutation Lia Lqa Setoid Morphisms.

Section WithCand.
Variable cand : Type.
Variable ceqb : cand -> cand -> bool.
Hypothesis ceqb_spec : forall a b, reflect (a = b) (ceqb a b).

Notation cset := (cset cand).
Notation ranking := (ranking cand).
Notation ballot := (ballot cand).
Notation profile := (profile cand).
Notation memb := (memb cand ceqb).
Notation cset_eqb := (cset_eqb cand ceqb).
Notation ranking_eqb := (ranking_eqb cand ceqb).
Notation flat := (flat cand).
Notation strip := (strip cand ceqb).
Notation scrub := (scrub cand ceqb).
Notation pos_wt := (pos_wt cand).
Notation set_diff := (set_diff cand ceqb).
Notation first_is := (first_is cand ceqb).
Notation total_wt := (total_wt cand).
Notation wtof_rk := (wtof_rk cand ceqb).
Notation wf_stv_ballot := (wf_stv_ballot cand).
Notation wf_stv0 := (wf_stv0 cand).
Notation condense_bs := (condense_bs cand ceqb).
Notation remove_cand_bs := (remove_cand_bs cand ceqb).
Notation frac_transfer := (frac_transfer cand ceqb).
Notation score_free := (score_free cand).
Notation all_pos := (all_pos cand).
Notation keep_ballot := (keep_ballot cand).
Notation mk_profile := (mk_profile cand ceqb).

Let memb_In := Lib_rk.memb_In cand ceqb ceqb_spec.
Let memb_false_iff := Lib_rk.memb_false_iff cand ceqb ceqb_spec.

(* ====================== strip ====================== *)

Definition keepf (W : cset) (c : cand) : bool := negb (memb c W).

Lemma strip_cons : forall W g r,
  strip W (g :: r) =
  (if nonempty (filter (keepf W) g) then [filter (keepf W) g] else []) ++ strip W r.
Proof.
  intros W g r. unfold Core.strip. cbn [map filter]. fold (keepf W).
  destruct (nonempty (filter (keepf W) g)); reflexivity.
Qed.

Lemma strip_nil_r : forall W, strip W [] = [].
Proof. reflexivity. Qed.

Lemma strip_cons_single : forall W h r,
  strip W ([h] :: r) = if memb h W then strip W r else [h] :: strip W r.
Proof.
  intros W h r. rewrite strip_cons. cbn [filter]. unfold keepf. destruct (memb h W); reflexivity.
Qed.

Lemma strip_single : forall W r, Forall (fun g : cset => length g = 1%nat) r ->
  Forall (fun g : cset => length g = 1%nat) (strip W r).
Proof.
  intros W r H. induction H as [|g r Hg _ IH]; [constructor|].
  destruct g as [|h [|h' g]]; try discriminate. rewrite strip_cons_single.
  destruct (memb h W); [exact IH|]. constructor; [reflexivity|exact IH].
Qed.

Lemma strip_NoDup : forall W r, NoDup (flat r) -> NoDup (flat (strip W r)).
Proof.
  intros W r H. rewrite (strip_flat cand ceqb). apply NoDup_filter. exact H.
Qed.

Lemma strip_incl : forall W r cs, incl (flat r) cs -> incl (flat (strip W r)) (set_diff cs W).
Proof.
  intros W r cs H c Hc. apply (strip_keeps cand ceqb ceqb_spec) in Hc. destruct Hc as [Hc Hn].
  apply (Lib_rk.set_diff_In cand ceqb ceqb_spec). split; [apply H; exact Hc|exact Hn].
Qed.

Lemma filter_filter_impl : forall (f g : cand -> bool) l,
  (forall c, f c = true -> g c = true) -> filter f (filter g l) = filter f l.
Proof.
  intros f g l H. induction l as [|c l IH]; [reflexivity|]. cbn [filter].
  destruct (g c) eqn:Eg.
  - cbn [filter]. rewrite IH. reflexivity.
  - destruct (f c) eqn:Ef; [rewrite (H c Ef) in Eg; discriminate|exact IH].
Qed.

Lemma keepf_mono : forall W w c, In w W -> keepf W c = true -> keepf [w] c = true.
Proof.
  intros W w c Hw H. unfold keepf in *. apply negb_true_iff in H. apply memb_false_iff in H.
  apply negb_true_iff. apply memb_false_iff. intros [<-|[]]. contradiction.
Qed.

Lemma filter_keepf_nil : forall W w g, In w W -> filter (keepf [w]) g = [] -> filter (keepf W) g = [].
Proof.
  intros W w g Hw H. rewrite <- (filter_filter_impl (keepf W) (keepf [w]) g (fun c => keepf_mono W w c Hw)).
  rewrite H. reflexivity.
Qed.

(* striking out w first changes nothing when w is struck out anyway *)
Lemma strip_strip_in : forall W w r, In w W -> strip W (strip [w] r) = strip W r.
Proof.
  intros W w r Hw. induction r as [|g r IH]; [reflexivity|].
  rewrite (strip_cons [w]), (strip_cons W g).
  destruct (filter (keepf [w]) g) as [|c g1] eqn:E.
  - cbn [nonempty app]. rewrite (filter_keepf_nil W w g Hw E). cbn [nonempty app]. exact IH.
  - cbn [nonempty app]. rewrite strip_cons, <- E.
    rewrite (filter_filter_impl (keepf W) (keepf [w]) g (fun c' => keepf_mono W w c' Hw)).
    rewrite IH. reflexivity.
Qed.

Lemma cset_eqb_filter : forall (f : cand -> bool) g g', cset_eqb g g' = true ->
  cset_eqb (filter f g) (filter f g') = true.
Proof.
  intros f g g' H. apply (Lib_sets.cset_eqb_iff cand ceqb ceqb_spec) in H. destruct H as [H1 H2].
  apply (Lib_sets.cset_eqb_iff cand ceqb ceqb_spec). split; intros c Hc; apply filter_In in Hc;
    apply filter_In; (split; [|apply Hc]); [apply H1|apply H2]; apply Hc.
Qed.

Lemma cset_eqb_nonempty : forall g g' : cset, cset_eqb g g' = true -> nonempty g = nonempty g'.
Proof.
  intros g g' H. apply (Lib_sets.cset_eqb_iff cand ceqb ceqb_spec) in H. destruct H as [H1 H2].
  destruct g as [|c g], g' as [|c' g']; try reflexivity.
  - destruct (H2 c' (or_introl eq_refl)).
  - destruct (H1 c (or_introl eq_refl)).
Qed.

Lemma strip_compat : forall W a b, ranking_eqb a b = true -> ranking_eqb (strip W a) (strip W b) = true.
Proof.
  intros W. induction a as [|g a IH]; intros [|g' b] H; try discriminate; [reflexivity|].
  cbn [Core.ranking_eqb] in H. apply andb_true_iff in H. destruct H as [Hg Hr].
  rewrite !strip_cons. pose proof (cset_eqb_filter (keepf W) g g' Hg) as Hf.
  rewrite (cset_eqb_nonempty _ _ Hf).
  destruct (nonempty (filter (keepf W) g')); cbn [app].
  - cbn [Core.ranking_eqb]. rewrite Hf, (IH b Hr). reflexivity.
  - apply IH. exact Hr.
Qed.

Lemma strip_nonempty_mono : forall W w r, In w W -> strip W r <> [] -> strip [w] r <> [].
Proof.
  intros W w r Hw H E. apply H. rewrite <- (strip_strip_in W w r Hw), E. reflexivity.
Qed.

(* a stripped untied ballot is an untied ballot over the smaller candidate list *)
Lemma wf_ballot_strip : forall cs W (b k : ballot), wf_stv_ballot cs b ->
  rk k = strip W (rk b) -> rk k <> [] -> 0 < wt k -> sc k = [] ->
  wf_stv_ballot (set_diff cs W) k.
Proof.
  intros cs W b k (_ & Hs & Hnd & Hin & _ & _) Hr Hne Hw Hsc. unfold STVSpec.wf_stv_ballot.
  rewrite Hr in *. split; [exact Hne|]. split; [apply strip_single; exact Hs|].
  split; [apply strip_NoDup; exact Hnd|]. split; [apply strip_incl; exact Hin|].
  split; assumption.
Qed.

Lemma wf_ballot_weaken : forall cs cs' (b : ballot), incl cs cs' -> wf_stv_ballot cs b -> wf_stv_ballot cs' b.
Proof.
  intros cs cs' b H (H1 & H2 & H3 & H4 & H5 & H6). repeat split; try assumption.
  eapply incl_tran; eassumption.
Qed.

Lemma wf_ballot_nonempty_cs : forall cs (b : ballot), wf_stv_ballot cs b -> cs <> [].
Proof.
  intros cs b Hwf E. destruct (wf_ballot_head cand cs b Hwf) as (h & _ & _ & Hin & _).
  rewrite E in Hin. destruct Hin.
Qed.

(* building the next profile never fails and keeps exactly the given candidate list *)
Lemma mk_profile_wf : forall bs cs, NoDup cs -> Forall (wf_stv_ballot cs) bs ->
  mk_profile bs cs = inl (mkProfile bs cs) /\ wf_stv0 (mkProfile bs cs).
Proof.
  intros bs cs Hnd Hwf. split; [|split; assumption].
  unfold Core.mk_profile. rewrite (proj2 (Lib_rk.has_dup_false_iff cand ceqb ceqb_spec cs) Hnd).
  destruct cs as [|c cs]; [|reflexivity].
  destruct bs as [|b bs]; [reflexivity|]. inversion Hwf as [|x l Hb _]; subst.
  exfalso. apply (wf_ballot_nonempty_cs [] b Hb). reflexivity.
Qed.

(* ====================== what remove_cand returns ====================== *)

Lemma remove_cand_bs_out : forall W (bs : list ballot) k, score_free bs ->
  In k (remove_cand_bs W true false bs) ->
  sc k = [] /\ 0 < wt k /\ rk k <> [] /\ exists b, In b bs /\ rk k = strip W (rk b).
Proof.
  intros W bs k Hsf Hk.
  destruct (remove_no_removed cand ceqb ceqb_spec W true false bs k Hk) as [_ Hsrc].
  rewrite (remove_cand_bs_unfold cand ceqb) in Hk. cbn [kept_of] in Hk.
  set (kept := filter pos_wt (map (scrub W) bs)) in *.
  assert (Hsf' : score_free kept).
  { apply (filter_sf cand). apply (map_scrub_sf cand ceqb). exact Hsf. }
  assert (Hpos : all_pos kept).
  { unfold EditSpec.all_pos. apply Forall_forall. intros x Hx. apply filter_In in Hx.
    apply (pos_wt_iff cand). apply Hx. }
  pose proof (condense_sf cand ceqb _ Hsf') as H1. pose proof (condense_pos cand ceqb _ Hpos) as H2.
  unfold EditSpec.score_free in H1. unfold EditSpec.all_pos in H2. rewrite Forall_forall in H1, H2.
  split; [apply H1; exact Hk|]. split; [apply H2; exact Hk|]. split; [|exact Hsrc].
  destruct (condense_rk_in cand ceqb _ k Hk) as (b' & Hb' & Hr). rewrite Hr.
  apply filter_In in Hb'. destruct Hb' as [Hb' Hp]. apply in_map_iff in Hb'.
  destruct Hb' as (b & <- & Hb). unfold EditSpec.score_free in Hsf. rewrite Forall_forall in Hsf.
  rewrite (scrub_sf cand ceqb W b (Hsf b Hb)) in *.
  destruct (nonempty (strip W (rk b))) eqn:En.
  - cbn [rk]. apply nonempty_true_iff. exact En.
  - discriminate Hp.
Qed.

(* ====================== weight-linear sums ====================== *)

Definition cls (phi : ranking -> Q) : Prop := forall a b, ranking_eqb a b = true -> phi a == phi b.

Definition wsumr (phi : ranking -> Q) (bs : list ballot) : Q :=
  qsum (map (fun b => wt b * phi (rk b)) bs).

Lemma wsumr_nil : forall phi, wsumr phi [] = 0.
Proof. reflexivity. Qed.

Lemma wsumr_cons : forall phi b bs, wsumr phi (b :: bs) = wt b * phi (rk b) + wsumr phi bs.
Proof. reflexivity. Qed.

Lemma wsumr_app : forall phi l1 l2, wsumr phi (l1 ++ l2) == wsumr phi l1 + wsumr phi l2.
Proof. intros phi l1 l2. unfold wsumr. rewrite map_app, Lib_sets.qsum_app. reflexivity. Qed.

Lemma wsumr_concat : forall phi (ls : list (list ballot)),
  wsumr phi (concat ls) == qsum (map (wsumr phi) ls).
Proof.
  intros phi. induction ls as [|l ls IH]; [reflexivity|]. cbn [concat map].
  rewrite wsumr_app, Lib_sets.qsum_cons, IH. reflexivity.
Qed.

Lemma wsumr_perm : forall phi l l', Permutation l l' -> wsumr phi l == wsumr phi l'.
Proof. intros phi l l' H. unfold wsumr. apply Lib_sets.qsum_perm. apply Permutation_map. exact H. Qed.

Lemma wsumr_ext : forall phi psi bs, (forall b, In b bs -> phi (rk b) == psi (rk b)) ->
  wsumr phi bs == wsumr psi bs.
Proof.
  intros phi psi bs H. unfold wsumr. apply Lib_sets.qsum_map_ext_in. intros b Hb.
  rewrite (H b Hb). reflexivity.
Qed.

Lemma wsumr_one : forall bs, wsumr (fun _ => 1) bs == total_wt bs.
Proof.
  intros bs. unfold wsumr, Core.total_wt. apply Lib_sets.qsum_map_ext_in. intros b _. ring.
Qed.

Definition ind_rk (r' : ranking) (r : ranking) : Q := if ranking_eqb r' r then 1 else 0.

Lemma ind_rk_cls : forall r', cls (ind_rk r').
Proof.
  intros r' a b H. unfold ind_rk. rewrite (ranking_eqb_compat_r cand ceqb ceqb_spec r' a b H).
  reflexivity.
Qed.

Lemma wsumr_ind : forall r' bs, wsumr (ind_rk r') bs == wtof_rk r' bs.
Proof.
  intros r' bs. unfold wsumr, EditSpec.wtof_rk, ind_rk. rewrite qsum_filter_as_ite.
  apply Lib_sets.qsum_map_ext_in. intros b _. destruct (ranking_eqb r' (rk b)); ring.
Qed.

Lemma wsumr_nonneg : forall phi bs, (forall b, In b bs -> 0 <= wt b) -> (forall r, 0 <= phi r) ->
  0 <= wsumr phi bs.
Proof.
  intros phi bs H1 H2. unfold wsumr. apply Lib_sets.qsum_nonneg. apply Forall_forall.
  intros x Hx. apply in_map_iff in Hx. destruct Hx as (b & <- & Hb).
  apply Qmult_le_0_compat; [apply H1; exact Hb|apply H2].
Qed.

(* condensation merges only ballots with set-equal rankings *)
Lemma wsumr_condense : forall phi bs, cls phi -> wsumr phi (condense_bs bs) == wsumr phi bs.
Proof.
  intros phi bs Hc.
  pose proof (condense_bs_wsum cand ceqb (fun _ _ => True) (fun r _ => phi r)) as H.
  unfold Lib_condense.wsum in H. apply H.
  - intros k b _ _ Hk. apply Hc. unfold Core.key_match in Hk. apply andb_true_iff in Hk. apply Hk.
  - apply Forall_forall. intros x _. exact I.
Qed.

(* what survives [remove_cand W]: the ballots that still rank somebody, at full weight *)
Definition after (W : cset) (phi : ranking -> Q) (r : ranking) : Q :=
  if nonempty (strip W r) then phi (strip W r) else 0.

Lemma after_cls : forall W phi, cls phi -> cls (after W phi).
Proof.
  intros W phi Hc a b H. unfold after. pose proof (strip_compat W a b H) as Hs.
  rewrite (ranking_eqb_nonempty cand ceqb _ _ Hs).
  destruct (nonempty (strip W b)); [apply Hc; exact Hs|reflexivity].
Qed.

Lemma after_after_in : forall W w phi r, In w W -> after [w] (after W phi) r == after W phi r.
Proof.
  intros W w phi r Hw. unfold after. rewrite (strip_strip_in W w r Hw).
  destruct (nonempty (strip W r)) eqn:E.
  - assert (E' : nonempty (strip [w] r) = true).
    { apply nonempty_true_iff. apply (strip_nonempty_mono W w r Hw). apply nonempty_true_iff. exact E. }
    rewrite E'. reflexivity.
  - destruct (nonempty (strip [w] r)); reflexivity.
Qed.

Lemma wsumr_kept_scrub : forall W phi bs, score_free bs -> all_pos bs ->
  wsumr phi (filter pos_wt (map (scrub W) bs)) == wsumr (after W phi) bs.
Proof.
  intros W phi bs Hsf Hpos. unfold EditSpec.score_free in Hsf. unfold EditSpec.all_pos in Hpos.
  induction bs as [|b bs IH]; [reflexivity|].
  inversion Hsf as [|x l Hb Hsf']; subst. inversion Hpos as [|x l Hp Hpos']; subst.
  cbn [map filter]. rewrite (scrub_sf cand ceqb W b Hb), wsumr_cons. unfold after at 1.
  destruct (nonempty (strip W (rk b))) eqn:En.
  - unfold Core.pos_wt at 1. cbn [wt]. rewrite (proj2 (Lib_rk.Qlt_bool_iff 0 (wt b)) Hp).
    rewrite wsumr_cons. cbn [rk wt]. rewrite (IH Hsf' Hpos'). reflexivity.
  - unfold Core.pos_wt at 1. cbn [wt]. rewrite Qlt_bool_0_0. rewrite (IH Hsf' Hpos'). ring.
Qed.

Theorem wsumr_remove : forall W phi bs, score_free bs -> all_pos bs -> cls phi ->
  wsumr phi (remove_cand_bs W true false bs) == wsumr (after W phi) bs.
Proof.
  intros W phi bs Hsf Hpos Hc. rewrite (remove_cand_bs_unfold cand ceqb). cbn [kept_of].
  rewrite (wsumr_condense phi _ Hc). apply wsumr_kept_scrub; assumption.
Qed.

(* fractional transfer of one pile *)
Theorem wsumr_frac : forall w fpv bs t out phi, frac_transfer w fpv bs t = inl out -> cls phi ->
  wsumr phi out ==
  qsum (map (fun b => if nonempty (strip [w] (rk b)) && Qlt_bool 0 (twt cand ceqb w ((fpv - t) / fpv) b)
                      then twt cand ceqb w ((fpv - t) / fpv) b * phi (strip [w] (rk b)) else 0) bs).
Proof.
  intros w fpv bs t out phi H Hc. apply (frac_ok_inv cand ceqb) in H. destruct H as (_ & _ & ->).
  rewrite (wsumr_condense phi _ Hc). set (tv := (fpv - t) / fpv).
  induction bs as [|b bs IH]; [reflexivity|]. cbn [map filter].
  unfold STV.keep_ballot at 1. unfold Core.pos_wt. cbn [mv rk wt].
  destruct (nonempty (strip [w] (rk b)) && Qlt_bool 0 (twt cand ceqb w tv b)).
  - rewrite wsumr_cons, Lib_sets.qsum_cons, IH. cbn [mv rk wt]. reflexivity.
  - rewrite Lib_sets.qsum_cons, IH. ring.
Qed.

End WithCand.
