(* Proofs/C07_irv.v — C07, the IRV majority criterion without the "the count returns" premise.
   (a) with integral ballot weights, m = 1 and the Droop quota, a candidate reaches the threshold
       floor(N/2)+1 exactly when its first-place tally is a strict majority of the total weight;
   (b) a candidate who reaches the threshold of a one-seat Droop count is the only one who does, is
       alone in the first group of the ranking, so no tie-break is ever consulted; the first round
       performs exactly one transfer (of the winner's pile, although the count is over) and the run
       is that transfer: it fails with the transfer's error or returns the two states
       [initial; c elected].  The fractional transfer cannot fail; the random transfer fails with
       ValueError when the winner's transferable ballots weigh less than the surplus, with EScript
       when the script does not start with a valid sample, and succeeds otherwise. *)
From VK Require Import Base Core STV Rules EditSpec ScoreSpec STVSpec PCSpec.
From VK.Proofs Require Import Lib_sets Lib_rk Lib_condense Lib_condense12 C12_edit C03_transfer
  C04_scoring Elect STV_lib STV_wsum STV_tb STV_step STV_round STV_threshold STV_weights STV_inv
  STV_cases STV_final C07_lib C07_pc.
From Coq Require Import Permutation Lia Lqa Setoid Morphisms Qround.

(* ====================== (a) numbers ====================== *)

Lemma droop1_majority_int : forall (N : Q) (a : Z),
  N < 2 * inject_Z a -> inject_Z (droop_quota N 1) <= inject_Z a.
Proof.
  intros N a H. rewrite <- Zle_Qle. unfold droop_quota.
  assert (Hlt : (Qfloor (N / inject_Z (1 + 1)) < a)%Z).
  { rewrite Zlt_Qlt. eapply Qle_lt_trans; [apply Qfloor_le|].
    change (inject_Z (1 + 1)) with 2. apply Qlt_shift_div_r; lra. }
  lia.
Qed.

Section WithCand.
Variable cand : Type.
Variable ceqb : cand -> cand -> bool.
Hypothesis ceqb_spec : forall a b, reflect (a = b) (ceqb a b).

Notation cset := (cset cand).
Notation ranking := (ranking cand).
Notation ballot := (ballot cand).
Notation profile := (profile cand).
Notation scores := (scores cand).
Notation mstate := (mstate cand).
Notation estate := (estate cand).
Notation memb := (memb cand ceqb).
Notation subsetb := (subsetb cand ceqb).
Notation flat := (flat cand).
Notation strip := (strip cand ceqb).
Notation set_diff := (set_diff cand ceqb).
Notation first_is := (first_is cand ceqb).
Notation pile := (pile cand ceqb).
Notation total_wt := (total_wt cand).
Notation wt_where := (wt_where cand).
Notation tally := (tally cand ceqb).
Notation wf_stv_ballot := (wf_stv_ballot cand).
Notation wf_stv0 := (wf_stv0 cand).
Notation wf_stv_profile := (wf_stv_profile cand).
Notation integral_weights := (integral_weights cand).
Notation state_of := (state_of cand ceqb).
Notation step_ctx := (step_ctx cand ceqb).
Notation script_ok := (script_ok cand).
Notation lookup0 := (lookup0 cand ceqb).
Notation first_place_votes := (first_place_votes cand ceqb).
Notation remove_cand_bs := (remove_cand_bs cand ceqb).
Notation mk_profile := (mk_profile cand ceqb).
Notation elect_top_m := (elect_top_m cand ceqb).
Notation frac_transfer := (frac_transfer cand ceqb).
Notation rand_transfer := (rand_transfer cand ceqb).
Notation do_transfer := (do_transfer cand ceqb).
Notation transfer_all := (transfer_all cand ceqb).
Notation quota_groups := (quota_groups cand ceqb).
Notation simultaneous_elect := (simultaneous_elect cand ceqb).
Notation single_elect := (single_elect cand ceqb).
Notation stv_step := (stv_step cand ceqb).
Notation stv_loop := (stv_loop cand ceqb).
Notation stv_init := (stv_init cand).
Notation run_stv := (run_stv cand ceqb).
Notation initial_state := (initial_state cand ceqb).
Notation state_of_scores := (state_of_scores cand).
Notation no_group := (no_group cand).
Notation has_ranking := (has_ranking cand).
Notation above := (above cand).
Notation count_elected := (count_elected cand).
Notation elected_in := (elected_in cand).
Notation elected_upto := (elected_upto cand).
Notation stv_inv := (stv_inv cand ceqb).
Notation transferable := (transferable cand ceqb).
Notation rt_pop := (rt_pop cand ceqb).
Notation rt_avail := (rt_avail cand ceqb).

Let memb_In := Lib_rk.memb_In cand ceqb ceqb_spec.

(* ---------- the tallies of integral ballots are integers ---------- *)

Lemma tally_integral : forall (p : profile) c, integral_weights p ->
  exists a, tally c (ballots p) == inject_Z a.
Proof.
  intros p c Hint. rewrite (tally_pile cand ceqb). apply (integral_total cand).
  intros b Hb. apply (pile_in cand ceqb) in Hb. unfold STVSpec.integral_weights in Hint.
  rewrite Forall_forall in Hint. apply Hint. apply Hb.
Qed.

(* the one-seat Droop threshold: 1 <= t, N < 2 t, t = floor(N/2) + 1 *)
Lemma irv_threshold : forall cfg (p : profile) t, wf_stv0 p ->
  s_quota cfg = QDroop -> s_m cfg = 1%Z -> stv_init cfg p = inl t ->
  t = inject_Z (droop_quota (total_wt (ballots p)) 1) /\ total_wt (ballots p) < 2 * t /\ 1 <= t.
Proof.
  intros cfg p t Hwf Hq Hm Hinit.
  pose proof (threshold_value cand cfg p t Hinit (total_wt_nonneg cand p Hwf)) as [_ Hth].
  cbv zeta in Hth. rewrite Hq, Hm in Hth. destruct Hth as (E & HN & H1).
  split; [exact E|]. split; [|exact H1]. change (inject_Z (1 + 1)) with 2 in HN. exact HN.
Qed.

(* (a) strict majority of the weight <-> reaches the threshold *)
Theorem majority_reaches_iff : forall cfg (p : profile) (c : cand) t,
  wf_stv0 p -> integral_weights p ->
  s_quota cfg = QDroop -> s_m cfg = 1%Z -> stv_init cfg p = inl t ->
  (t <= tally c (ballots p) <-> total_wt (ballots p) < 2 * tally c (ballots p)).
Proof.
  intros cfg p c t Hwf Hint Hq Hm Hinit.
  destruct (irv_threshold cfg p t Hwf Hq Hm Hinit) as (E & HN & H1).
  split.
  - intros H. lra.
  - intros H. destruct (tally_integral p c Hint) as [a Ha]. rewrite Ha in H |- *. rewrite E.
    apply droop1_majority_int. exact H.
Qed.

Theorem majority_reaches : forall cfg (p : profile) (c : cand) t,
  wf_stv0 p -> integral_weights p ->
  s_quota cfg = QDroop -> s_m cfg = 1%Z -> stv_init cfg p = inl t ->
  total_wt (ballots p) < 2 * tally c (ballots p) -> t <= tally c (ballots p).
Proof.
  intros cfg p c t Hwf Hint Hq Hm Hinit H.
  apply (proj2 (majority_reaches_iff cfg p c t Hwf Hint Hq Hm Hinit)). exact H.
Qed.

(* without integrality only this direction survives: half the weight or less never reaches *)
Theorem half_does_not_reach : forall cfg (p : profile) (c : cand) t,
  wf_stv0 p -> s_quota cfg = QDroop -> s_m cfg = 1%Z -> stv_init cfg p = inl t ->
  2 * tally c (ballots p) <= total_wt (ballots p) -> tally c (ballots p) < t.
Proof.
  intros cfg p c t Hwf Hq Hm Hinit H.
  destruct (irv_threshold cfg p t Hwf Hq Hm Hinit) as (_ & HN & _). lra.
Qed.

(* stv_init succeeds on a valid profile with m = 1 and the Droop quota *)
Lemma irv_init_ok : forall cfg (p : profile), wf_stv_profile p ->
  (s_transfer cfg = TRandom -> integral_weights p) ->
  s_quota cfg = QDroop -> s_m cfg = 1%Z -> exists t, stv_init cfg p = inl t.
Proof.
  intros cfg p [Hwf [Hcs _]] Hint Hq Hm.
  destruct (stv_init cfg p) as [t|e] eqn:E; [exists t; reflexivity|exfalso].
  destruct (stv_init_err cand cfg p e Hwf Hint E) as [_ [H|H]].
  - apply H. rewrite Hm. destruct (cands p); [contradiction Hcs; reflexivity|]. cbn [length]. lia.
  - rewrite Hq in H. discriminate.
Qed.

(* ====================== (b) a round with a single candidate at the threshold ====================== *)

Lemma all_c_groups : forall (c : cand) (el : ranking), Forall (fun g => g <> []) el ->
  (forall x, In x (flat el) -> x = c) -> NoDup (flat el) -> In c (flat el) -> el = [[c]].
Proof.
  intros c el Hne Hall Hnd Hin.
  destruct el as [|g el']; [destruct Hin|].
  inversion Hne as [|g0 l0 Hg Hne']; subst.
  destruct g as [|x g']; [contradiction Hg; reflexivity|].
  unfold Core.flat in *. cbn [concat app] in *.
  assert (Hx : x = c) by (apply Hall; left; reflexivity). subst x.
  inversion Hnd as [|x0 l1 Hnotin Hnd']; subst.
  destruct g' as [|y g''].
  - cbn [app] in *. destruct el' as [|g2 el'']; [reflexivity|]. exfalso.
    inversion Hne' as [|g3 l3 Hg2 _]; subst.
    destruct g2 as [|z g2']; [contradiction Hg2; reflexivity|].
    cbn [concat app] in Hnotin, Hall.
    assert (Hz : z = c) by (apply Hall; right; left; reflexivity). subst z.
    apply Hnotin. left. reflexivity.
  - exfalso. assert (Hy : y = c) by (apply Hall; right; left; reflexivity). subst y.
    apply Hnotin. left. reflexivity.
Qed.

Section Round.
Variable cfg : stv_cfg.
Variable t : Q.
Variables p0 p : profile.
Variable prev : estate.
Hypothesis Hctx : step_ctx p0 p prev.
Variable c : cand.
Hypothesis Hc : In c (cands p).
Hypothesis Hreach : t <= tally c (ballots p).
Hypothesis Hothers : forall x, In x (cands p) -> x <> c -> tally x (ballots p) < t.

Let d := escores prev.
Let r := remaining prev.
Let cs := cands p.
Let bs := ballots p.
Let k := s_transfer cfg.
Let Hwf : wf_stv0 p := ctx_wf cand ceqb p0 p prev Hctx.

Lemma sole_cs_ne : cs <> [].
Proof. intros E. unfold cs in E. rewrite E in Hc. destruct Hc. Qed.

(* the ranking by tally starts with the group {c}; nobody after it reaches the threshold *)
Lemma sole_groups : exists rest : ranking, r = @cons cset [c] rest /\ quota_groups r d t = inl [[c]] /\
  NoDup (c :: flat rest) /\ incl (flat rest) cs /\
  (forall x, In x (flat rest) -> tally x bs < t).
Proof.
  destruct (quota_groups_sem cand ceqb ceqb_spec p0 p prev Hctx t sole_cs_ne)
    as (el & rest & Hq & Hr & Hel & Hun).
  fold r d in Hq, Hr. fold bs in Hel, Hun.
  pose proof (ctx_flat_nd cand ceqb p0 p prev Hctx) as Hnd. fold r in Hnd.
  rewrite Hr, (flat_app cand) in Hnd.
  assert (Hin : forall x, In x (flat el ++ flat rest) <-> In x cs).
  { intros x. rewrite <- (flat_app cand), <- Hr. apply (ctx_flat_in cand ceqb p0 p prev Hctx). }
  assert (E : el = [[c]]).
  { apply all_c_groups.
    - pose proof (ctx_groups_ne cand ceqb p0 p prev Hctx sole_cs_ne) as Hg. fold r in Hg.
      rewrite Hr in Hg. apply Forall_app in Hg. apply Hg.
    - intros x Hx. destruct (ceqb_spec x c) as [E|Hne]; [exact E|exfalso].
      assert (Hxc : In x cs) by (apply Hin; apply in_or_app; left; exact Hx).
      apply (Qlt_not_le _ _ (Hothers x Hxc Hne)). apply Hel. exact Hx.
    - apply (NoDup_app_inv _ _ Hnd).
    - apply Hin in Hc. apply in_app_or in Hc. destruct Hc as [H|H]; [exact H|exfalso].
      apply (Qlt_not_le _ _ (Hun c H)). exact Hreach. }
  subst el. exists rest. split; [exact Hr|]. split; [exact Hq|].
  split; [exact Hnd|]. split; [|exact Hun].
  intros x Hx. apply Hin. apply in_or_app. right. exact Hx.
Qed.

Lemma sole_above : above t (escores prev) <> [].
Proof.
  apply (above_ne_iff cand ceqb ceqb_spec p0 p prev Hctx t). exists c. split; assumption.
Qed.

(* the profile after the round, given what the transfer returned *)
Definition sole_np (rest : ranking) (moved : list ballot) : profile :=
  mkProfile (remove_cand_bs [c] true false (moved ++ concat (map (pile p) (flat rest))))
            (set_diff cs [c]).

Lemma sole_tail : forall (rest : ranking) (moved : list ballot),
  incl (flat rest) cs -> Forall (wf_stv_ballot cs) moved ->
  subsetb (flat rest) (cands p) = true /\
  filter has_ranking (moved ++ concat (map (pile p) (flat rest))) =
    moved ++ concat (map (pile p) (flat rest)) /\
  mk_profile (remove_cand_bs [c] true false (moved ++ concat (map (pile p) (flat rest))))
             (set_diff (cands p) [c]) = inl (sole_np rest moved) /\
  wf_stv0 (sole_np rest moved).
Proof.
  intros rest moved Hincl Hmv.
  assert (HB : Forall (wf_stv_ballot cs) (moved ++ concat (map (pile p) (flat rest)))).
  { apply Forall_app. split; [exact Hmv|apply (piles_wf cand ceqb); exact Hwf]. }
  split; [apply (Lib_rk.subsetb_incl cand ceqb ceqb_spec); exact Hincl|].
  split; [apply (has_ranking_all cand cs); exact HB|].
  apply (next_profile_ok cand ceqb ceqb_spec cs [c] _ (proj1 Hwf) HB).
Qed.

(* the round is the transfer of c's pile: same error, or the election of c alone *)
Theorem sole_step : forall n (s : mstate),
  match do_transfer k c (lookup0 c d) (pile p c) t s with
  | inr e => stv_step cfg t p0 n p prev s = inr e
  | inl (moved, s1) =>
      (k = TRandom -> script_ok s) ->
      exists np st, stv_step cfg t p0 n p prev s = inl ((np, st), s1) /\
        elected st = [[c]] /\ tiebreaks st = []
  end.
Proof.
  intros n s.
  destruct sole_groups as (rest & Hr & Hq & Hnd & Hincl & Hun).
  pose proof sole_above as Hab.
  assert (Hmemb : memb c (cands p) = true) by (apply memb_In; exact Hc).
  destruct (do_transfer k c (lookup0 c d) (pile p c) t s) as [[moved s1]|e] eqn:Etr.
  - (* the transfer succeeds *)
    intros Hscr.
    destruct (do_transfer_wf cand ceqb ceqb_spec k c _ _ t s s1 moved cs Etr Hscr
                (pile_wf cand ceqb p c Hwf)) as [Hmv _].
    destruct (sole_tail rest moved Hincl Hmv) as (Hsub & Hhas & Hmk & Hwfn).
    destruct (fpv_state cand ceqb ceqb_spec _ Hwfn) as [d' Hd'].
    exists (sole_np rest moved).
    destruct (s_simul cfg) eqn:Esim.
    + exists (state_of_scores (rnd prev + 1) [[c]] no_group [] d').
      split; [|split; reflexivity].
      rewrite (stv_step_simul cand ceqb cfg t p0 n p prev s Hab Esim).
      assert (Hsel : simultaneous_elect cfg t p prev s = inl (([[c]], sole_np rest moved), s1)).
      { unfold STV.simultaneous_elect. unfold mbind at 1, mlift at 1.
        change (remaining prev) with r. change (escores prev) with d. rewrite Hq. cbn [ok].
        unfold mbind at 1, mlift at 1. rewrite (bbfc_ok cand ceqb ceqb_spec p Hwf).
        unfold ok at 1. cbv beta iota. unfold mbind at 1. fold k.
        change (flat [[c]]) with [c]. cbn [STV.transfer_all]. rewrite Hmemb. cbn [negb].
        unfold mbind at 1. rewrite Etr. unfold mbind at 1, mret at 1, ok at 1. cbv beta iota.
        unfold mret at 1, ok at 1. cbv beta iota. rewrite app_nil_r.
        rewrite Hr. change (flat ([c] :: rest)) with ([c] ++ flat rest).
        rewrite (set_diff_app_l cand ceqb ceqb_spec [c] (flat rest) Hnd).
        rewrite Hsub. cbn [negb]. rewrite Hhas.
        unfold mbind, mlift. rewrite Hmk. reflexivity. }
      rewrite Hsel, Hd'. reflexivity.
    + exists (state_of_scores (rnd prev + 1) [[c]] no_group [] d').
      split; [|split; reflexivity].
      rewrite (stv_step_single cand ceqb cfg t p0 n p prev s Hab Esim).
      assert (Hsel : single_elect cfg t p prev s = inl (([[c]], [], sole_np rest moved), s1)).
      { unfold STV.single_elect. unfold mbind at 1. change (remaining prev) with r. rewrite Hr.
        rewrite (elect_top_1_eq cand ceqb [c] rest (Some p) (s_tiebreak cfg) s) by discriminate.
        cbn [length Nat.leb]. cbv beta iota.
        unfold mbind at 1, mlift at 1. rewrite (bbfc_ok cand ceqb ceqb_spec p Hwf).
        unfold ok at 1. cbv beta iota. rewrite Hmemb. cbn [negb].
        unfold mbind at 1. fold k d. rewrite Etr. rewrite Hsub. cbn [negb]. rewrite Hhas.
        change (flat [[c]]) with [c].
        unfold mbind, mlift. rewrite Hmk. reflexivity. }
      rewrite Hsel, Hd'. reflexivity.
  - (* the transfer fails *)
    destruct (s_simul cfg) eqn:Esim.
    + rewrite (stv_step_simul cand ceqb cfg t p0 n p prev s Hab Esim).
      assert (Hsel : simultaneous_elect cfg t p prev s = inr e).
      { unfold STV.simultaneous_elect. unfold mbind at 1, mlift at 1.
        change (remaining prev) with r. change (escores prev) with d. rewrite Hq. cbn [ok].
        unfold mbind at 1, mlift at 1. rewrite (bbfc_ok cand ceqb ceqb_spec p Hwf).
        unfold ok at 1. cbv beta iota. unfold mbind at 1. fold k.
        change (flat [[c]]) with [c]. cbn [STV.transfer_all]. rewrite Hmemb. cbn [negb].
        unfold mbind at 1. rewrite Etr. reflexivity. }
      rewrite Hsel. reflexivity.
    + rewrite (stv_step_single cand ceqb cfg t p0 n p prev s Hab Esim).
      assert (Hsel : single_elect cfg t p prev s = inr e).
      { unfold STV.single_elect. unfold mbind at 1. change (remaining prev) with r. rewrite Hr.
        rewrite (elect_top_1_eq cand ceqb [c] rest (Some p) (s_tiebreak cfg) s) by discriminate.
        cbn [length Nat.leb]. cbv beta iota.
        unfold mbind at 1, mlift at 1. rewrite (bbfc_ok cand ceqb ceqb_spec p Hwf).
        unfold ok at 1. cbv beta iota. rewrite Hmemb. cbn [negb].
        unfold mbind at 1. fold k d. rewrite Etr. reflexivity. }
      rewrite Hsel. reflexivity.
Qed.

End Round.

(* ====================== the run ====================== *)

Lemma initial_state_shape : forall (p : profile) s0, initial_state p = inl s0 ->
  elected_in s0 = [] /\ tiebreaks s0 = [] /\ state_of p s0.
Proof.
  intros p s0 H. unfold STV.initial_state, rbind in H.
  destruct (first_place_votes p) as [d|e] eqn:E; [|discriminate]. injection H as <-.
  split; [reflexivity|]. split; [reflexivity|]. split; [exact E|reflexivity].
Qed.

Section Run.
Variable cfg : stv_cfg.
Variable p : profile.
Variable c : cand.
Variable t : Q.
Hypothesis Hwfp : wf_stv_profile p.
Hypothesis Hq : s_quota cfg = QDroop.
Hypothesis Hk : s_transfer cfg <> TFullWeight.
Hypothesis Hm : s_m cfg = 1%Z.
Hypothesis Hc : In c (cands p).
Hypothesis Hinit : stv_init cfg p = inl t.
Hypothesis Hreach : t <= tally c (ballots p).

Let Hwf : wf_stv0 p := proj1 Hwfp.

(* nobody else reaches the one-seat Droop threshold *)
Lemma irv_others_below : forall x, In x (cands p) -> x <> c -> tally x (ballots p) < t.
Proof.
  intros x Hx Hne. destruct (Qlt_le_dec (tally x (ballots p)) t) as [H|H]; [exact H|exfalso].
  destruct (initial_state_ok cand ceqb ceqb_spec p Hwf) as [s0 E0].
  pose proof (stv_inv_init cand ceqb cfg p t s0 Hwf Hinit E0) as Hinv.
  destruct (irv_threshold cfg p t Hwf Hq Hm Hinit) as (_ & HN & H1).
  assert (HN' : total_wt (ballots p) < inject_Z (s_m cfg + 1) * t).
  { rewrite Hm. change (inject_Z (1 + 1)) with 2. exact HN. }
  assert (Hseats : (Z.of_nat (length [c; x]) + count_elected [s0] <= s_m cfg)%Z).
  { apply (droop_seats cand ceqb ceqb_spec cfg t _ p p [s0] [c; x] Hinv Hk HN').
    - lra.
    - constructor; [intros [E|[]]; apply Hne; exact E|].
      constructor; [intros []|constructor].
    - intros y [<-|[<-|[]]]; assumption.
    - intros y [<-|[<-|[]]]; assumption.
    - discriminate. }
  rewrite Hm, (count_elected_all cand) in Hseats. cbn [length] in Hseats. lia.
Qed.

(* the whole count is the transfer of c's pile in round 1 *)
Theorem irv_run : forall (s : mstate),
  exists fpv, fpv == tally c (ballots p) /\
  match do_transfer (s_transfer cfg) c fpv (pile p c) t s with
  | inr e => run_stv cfg p s = inr e
  | inl (moved, s1) =>
      (s_transfer cfg = TRandom -> script_ok s) ->
      exists out, run_stv cfg p s = inl (out, s1) /\
        flat (elected_upto out (length out - 1)) = [c] /\
        length out = 2%nat /\ Forall (fun st => tiebreaks st = []) out
  end.
Proof.
  intros s.
  destruct (initial_state_ok cand ceqb ceqb_spec p Hwf) as [s0 E0].
  destruct (initial_state_shape p s0 E0) as (Hel0 & Htb0 & Hst0).
  assert (Hctx : step_ctx p p s0) by (constructor; [exact Hwf|apply incl_refl|exact Hwf|exact Hst0]).
  exists (lookup0 c (escores s0)).
  split; [apply (ctx_score cand ceqb ceqb_spec p p s0 Hctx c Hc)|].
  assert (Hcnt0 : count_elected [s0] = 0%Z).
  { rewrite (count_elected_cons cand), Hel0. reflexivity. }
  assert (Hrun : run_stv cfg p s =
                 match stv_step cfg t p (count_elected [s0]) p s0 s with
                 | inl ((np, st), s') =>
                     stv_loop (S (length (cands p))) cfg t p np [st; s0] s'
                 | inr e => inr e
                 end).
  { rewrite (run_stv_unfold cand ceqb), Hinit, E0.
    replace (length (cands p) + 2)%nat with (S (S (length (cands p)))) by lia.
    rewrite (stv_loop_unfold cand ceqb), Hcnt0, Hm. reflexivity. }
  pose proof (sole_step cfg t p p s0 Hctx c Hc Hreach irv_others_below (count_elected [s0]) s)
    as Hstep.
  destruct (do_transfer (s_transfer cfg) c (lookup0 c (escores s0)) (pile p c) t s)
    as [[moved s1]|e].
  - intros Hscr. destruct (Hstep Hscr) as (np & st & Hstep' & Hel & Htb). exists [s0; st].
    assert (Hin : elected_in st = [c]) by (unfold STVSpec.elected_in; rewrite Hel; reflexivity).
    split.
    { rewrite Hrun, Hstep', (stv_loop_unfold cand ceqb).
      rewrite (count_elected_cons cand), Hin, Hcnt0, Hm. reflexivity. }
    split.
    { rewrite (elected_upto_last cand). unfold STVSpec.all_elected. cbn [map concat].
      rewrite Hel0, Hin. reflexivity. }
    split; [reflexivity|]. constructor; [exact Htb0|]. constructor; [exact Htb|constructor].
  - rewrite Hrun, Hstep. reflexivity.
Qed.

(* ---------- fractional transfer: the count cannot fail ---------- *)

Theorem irv_fractional_runs : forall (s : mstate), s_transfer cfg = TFractional ->
  exists out, run_stv cfg p s = inl (out, s) /\
    flat (elected_upto out (length out - 1)) = [c] /\
    length out = 2%nat /\ Forall (fun st => tiebreaks st = []) out.
Proof.
  intros s Ek.
  destruct (irv_run s) as (fpv & Hfpv & Hrun).
  rewrite Ek in Hrun. cbn [STV.do_transfer] in Hrun. unfold mlift in Hrun.
  rewrite (frac_transfer_eq cand ceqb) in Hrun.
  destruct (irv_threshold cfg p t Hwf Hq Hm Hinit) as (_ & _ & H1).
  assert (E0 : Qeq_bool fpv 0 = false).
  { apply Qeq_bool_false_iff. intros E. rewrite E in Hfpv. lra. }
  assert (Ene : forallb (fun b : ballot => nonempty (rk b)) (pile p c) = true).
  { apply forallb_forall. intros b Hb. apply (pile_in cand ceqb) in Hb. destruct Hb as [Hb _].
    destruct Hwf as [_ Hwfb]. rewrite Forall_forall in Hwfb. apply nonempty_true_iff.
    apply (Hwfb b Hb). }
  rewrite E0, Ene in Hrun. apply Hrun. discriminate.
Qed.

(* ---------- random transfer ---------- *)

Lemma trunc_sum_integral : forall l : list ballot, (forall b, In b l -> is_integral (wt b) = true) ->
  inject_Z (fold_right Z.add 0%Z (map (fun b => Qtrunc (wt b)) l)) == total_wt l.
Proof.
  induction l as [|b l IH]; intros H; [reflexivity|].
  cbn [map fold_right]. rewrite (total_wt_cons cand), inject_Z_plus, IH.
  - rewrite (Qtrunc_integral _ (H b (or_introl eq_refl))). reflexivity.
  - intros b' Hb'. apply H. right. exact Hb'.
Qed.

Lemma transferable_pile : forall w (bs : list ballot),
  filter (transferable w) (filter (first_is w) bs) = filter (transferable w) bs.
Proof.
  intros w bs. rewrite filter_filter. apply filter_ext. intros b. unfold C03_transfer.transferable.
  destruct (first_is w b); reflexivity.
Qed.

Lemma rt_pop_pile : forall (q : profile) w, rt_pop w (pile q w) = rt_pop w (ballots q).
Proof. intros q w. unfold C03_transfer.rt_pop, Core.pile. rewrite transferable_pile. reflexivity. Qed.

Lemma rt_avail_pile : forall (q : profile) w, integral_weights q ->
  inject_Z (rt_avail w (pile q w)) == wt_where (transferable w) (ballots q).
Proof.
  intros q w Hint. unfold C03_transfer.rt_avail, Core.pile. rewrite transferable_pile.
  unfold EditSpec.wt_where. apply trunc_sum_integral. intros b Hb. apply filter_In in Hb.
  unfold STVSpec.integral_weights in Hint. rewrite Forall_forall in Hint. apply Hint. apply Hb.
Qed.

(* closed form of the run under the random transfer *)
Theorem irv_random_run : forall (s : mstate) (kz : Z),
  integral_weights p -> s_transfer cfg = TRandom ->
  inject_Z kz == tally c (ballots p) - t ->
  if Qlt_le_dec (wt_where (transferable c) (ballots p)) (tally c (ballots p) - t)
  then run_stv cfg p s = inr EValue
  else match scr s with
       | DRanks l :: rest =>
           if valid_ballot_sample cand ceqb (rt_pop c (ballots p)) kz l
           then script_ok s ->
                exists out lg', run_stv cfg p s = inl (out, mkM rest lg') /\
                  flat (elected_upto out (length out - 1)) = [c] /\
                  length out = 2%nat /\ Forall (fun st => tiebreaks st = []) out
           else run_stv cfg p s = inr EScript
       | _ => run_stv cfg p s = inr EScript
       end.
Proof.
  intros s kz Hint Ek Hkz.
  destruct (irv_run s) as (fpv & Hfpv & Hrun).
  rewrite Ek in Hrun. cbn [STV.do_transfer] in Hrun.
  rewrite (rand_transfer_eq cand ceqb) in Hrun. cbv zeta in Hrun.
  assert (Eb : existsb (bad_ballot cand) (pile p c) = false).
  { apply (existsb_bad_false cand). intros b Hb. apply (pile_in cand ceqb) in Hb. destruct Hb as [Hb _].
    split.
    - unfold STVSpec.integral_weights in Hint. rewrite Forall_forall in Hint. apply Hint. exact Hb.
    - destruct Hwf as [_ Hwfb]. rewrite Forall_forall in Hwfb. apply (Hwfb b Hb). }
  rewrite Eb in Hrun.
  destruct (irv_threshold cfg p t Hwf Hq Hm Hinit) as (Et & _ & _).
  destruct (tally_integral p c Hint) as [a Ha].
  assert (Ef : Qtrunc fpv = a) by (apply Qtrunc_int; rewrite Hfpv; exact Ha).
  assert (Ett : Qtrunc t = droop_quota (total_wt (ballots p)) 1) by (apply Qtrunc_int; rewrite Et; reflexivity).
  assert (Ekz : (Qtrunc fpv - Qtrunc t)%Z = kz).
  { rewrite Ef, Ett. apply (proj1 (inject_Z_injective _ _)).
    unfold Zminus. rewrite inject_Z_plus, inject_Z_opp, Hkz, Ha, Et. ring. }
  rewrite Ekz, rt_pop_pile in Hrun.
  assert (Hk0 : (kz <? 0)%Z = false).
  { apply Z.ltb_ge. rewrite Zle_Qle, Hkz. change (inject_Z 0) with 0. lra. }
  rewrite Hk0 in Hrun. cbn [orb] in Hrun.
  pose proof (rt_avail_pile p c Hint) as Hav.
  destruct (Qlt_le_dec (wt_where (transferable c) (ballots p)) (tally c (ballots p) - t)) as [Hlt|Hle].
  - assert (E : (rt_avail c (pile p c) <? kz)%Z = true).
    { apply Z.ltb_lt. rewrite Zlt_Qlt, Hav, Hkz. exact Hlt. }
    rewrite E in Hrun. exact Hrun.
  - assert (E : (rt_avail c (pile p c) <? kz)%Z = false).
    { apply Z.ltb_ge. rewrite Zle_Qle, Hav, Hkz. exact Hle. }
    rewrite E in Hrun.
    destruct (scr s) as [|dr rest]; [exact Hrun|].
    destruct dr; try exact Hrun.
    destruct (valid_ballot_sample cand ceqb (rt_pop c (ballots p)) kz l); [|exact Hrun].
    intros Hscr. destruct (Hrun (fun _ => Hscr)) as (out & Hrun' & Hrest). exists out. eexists. split; [exact Hrun'|exact Hrest].
Qed.

End Run.

(* ====================== the statements of Properties/C07_irv.v ====================== *)

Theorem irv_threshold_value : forall cfg (p : profile) t, wf_stv_profile p ->
  s_quota cfg = QDroop -> s_m cfg = 1%Z -> stv_init cfg p = inl t ->
  t = inject_Z (Qfloor (total_wt (ballots p) / 2) + 1) /\ total_wt (ballots p) < 2 * t /\ 1 <= t.
Proof. intros cfg p t [Hwf _]. apply (irv_threshold cfg p t Hwf). Qed.

Theorem irv_majority_reaches_iff : forall cfg (p : profile) (c : cand) t,
  wf_stv_profile p -> integral_weights p ->
  s_quota cfg = QDroop -> s_m cfg = 1%Z -> stv_init cfg p = inl t ->
  (t <= tally c (ballots p) <-> total_wt (ballots p) < 2 * tally c (ballots p)).
Proof. intros cfg p c t [Hwf _]. apply (majority_reaches_iff cfg p c t Hwf). Qed.

Theorem irv_half_does_not_reach : forall cfg (p : profile) (c : cand) t,
  wf_stv_profile p -> s_quota cfg = QDroop -> s_m cfg = 1%Z -> stv_init cfg p = inl t ->
  2 * tally c (ballots p) <= total_wt (ballots p) -> tally c (ballots p) < t.
Proof. intros cfg p c t [Hwf _]. apply (half_does_not_reach cfg p c t Hwf). Qed.

(* fractional transfer, any mode, any tie-break setting, any script *)
Theorem irv_reaches_fractional_runs : forall cfg (p : profile) (c : cand) t (s : mstate),
  wf_stv_profile p -> s_quota cfg = QDroop -> s_transfer cfg = TFractional -> s_m cfg = 1%Z ->
  In c (cands p) -> stv_init cfg p = inl t -> t <= tally c (ballots p) ->
  exists out, run_stv cfg p s = inl (out, s) /\
    flat (elected_upto out (length out - 1)) = [c] /\
    length out = 2%nat /\ Forall (fun st => tiebreaks st = []) out.
Proof.
  intros cfg p c t s Hwfp Hq Ek Hm Hc Hinit Hreach.
  apply (irv_fractional_runs cfg p c t Hwfp Hq); try assumption. rewrite Ek. discriminate.
Qed.

Theorem irv_majority_fractional_runs : forall cfg (p : profile) (c : cand) (s : mstate),
  wf_stv_profile p -> integral_weights p ->
  s_quota cfg = QDroop -> s_transfer cfg = TFractional -> s_m cfg = 1%Z ->
  In c (cands p) -> total_wt (ballots p) < 2 * tally c (ballots p) ->
  exists out, run_stv cfg p s = inl (out, s) /\
    flat (elected_upto out (length out - 1)) = [c] /\
    length out = 2%nat /\ Forall (fun st => tiebreaks st = []) out.
Proof.
  intros cfg p c s Hwfp Hint Hq Ek Hm Hc Hmaj.
  destruct (irv_init_ok cfg p Hwfp (fun _ => Hint) Hq Hm) as [t Hinit].
  apply (irv_reaches_fractional_runs cfg p c t s); try assumption.
  apply (majority_reaches cfg p c t (proj1 Hwfp) Hint Hq Hm Hinit Hmaj).
Qed.

Section Random.
Variable cfg : stv_cfg.
Variable p : profile.
Variable c : cand.
Variable t : Q.
Variable kz : Z.
Hypothesis Hwfp : wf_stv_profile p.
Hypothesis Hint : integral_weights p.
Hypothesis Hq : s_quota cfg = QDroop.
Hypothesis Ek : s_transfer cfg = TRandom.
Hypothesis Hm : s_m cfg = 1%Z.
Hypothesis Hc : In c (cands p).
Hypothesis Hinit : stv_init cfg p = inl t.
Hypothesis Hmaj : total_wt (ballots p) < 2 * tally c (ballots p).
Hypothesis Hkz : inject_Z kz == tally c (ballots p) - t.

Let Hk : s_transfer cfg <> TFullWeight.
Proof. rewrite Ek. discriminate. Qed.
Let Hreach : t <= tally c (ballots p) :=
  majority_reaches cfg p c t (proj1 Hwfp) Hint Hq Hm Hinit Hmaj.

Theorem irv_majority_random_runs : forall (s : mstate) l rest,
  script_ok s ->
  tally c (ballots p) - t <= wt_where (transferable c) (ballots p) ->
  scr s = DRanks l :: rest ->
  valid_ballot_sample cand ceqb (rt_pop c (ballots p)) kz l = true ->
  exists out s', run_stv cfg p s = inl (out, s') /\ scr s' = rest /\
    flat (elected_upto out (length out - 1)) = [c] /\
    length out = 2%nat /\ Forall (fun st => tiebreaks st = []) out.
Proof.
  intros s l rest Hscr Hen Hs Hv.
  pose proof (irv_random_run cfg p c t Hwfp Hq Hk Hm Hc Hinit Hreach s kz Hint Ek Hkz) as H.
  destruct (Qlt_le_dec (wt_where (transferable c) (ballots p)) (tally c (ballots p) - t)) as [Hlt|_];
    [exfalso; apply (Qlt_not_le _ _ Hlt); exact Hen|].
  rewrite Hs, Hv in H. destruct (H Hscr) as (out & lg' & Hrun & Hrest).
  exists out, (mkM rest lg'). split; [exact Hrun|]. split; [reflexivity|exact Hrest].
Qed.

Theorem irv_majority_random_shortage : forall (s : mstate),
  wt_where (transferable c) (ballots p) < tally c (ballots p) - t ->
  run_stv cfg p s = inr EValue.
Proof.
  intros s Hlt.
  pose proof (irv_random_run cfg p c t Hwfp Hq Hk Hm Hc Hinit Hreach s kz Hint Ek Hkz) as H.
  destruct (Qlt_le_dec (wt_where (transferable c) (ballots p)) (tally c (ballots p) - t)) as [_|Hle];
    [exact H|exfalso; apply (Qlt_not_le _ _ Hlt); exact Hle].
Qed.

Theorem irv_majority_random_bad_script : forall (s : mstate),
  tally c (ballots p) - t <= wt_where (transferable c) (ballots p) ->
  (forall l rest, scr s = DRanks l :: rest ->
     valid_ballot_sample cand ceqb (rt_pop c (ballots p)) kz l = false) ->
  run_stv cfg p s = inr EScript.
Proof.
  intros s Hen Hbad.
  pose proof (irv_random_run cfg p c t Hwfp Hq Hk Hm Hc Hinit Hreach s kz Hint Ek Hkz) as H.
  destruct (Qlt_le_dec (wt_where (transferable c) (ballots p)) (tally c (ballots p) - t)) as [Hlt|_];
    [exfalso; apply (Qlt_not_le _ _ Hlt); exact Hen|].
  destruct (scr s) as [|dr rest]; [exact H|]. destruct dr; try exact H.
  rewrite (Hbad l rest eq_refl) in H. exact H.
Qed.

End Random.

(* the three theorems of Section Random with all premises in statement order *)
Theorem irv_majority_random_runs_flat :
  forall cfg (p : profile) (c : cand) t (kz : Z) (s : mstate) (l : list ranking) rest,
  wf_stv_profile p -> integral_weights p ->
  s_quota cfg = QDroop -> s_transfer cfg = TRandom -> s_m cfg = 1%Z ->
  In c (cands p) -> stv_init cfg p = inl t ->
  total_wt (ballots p) < 2 * tally c (ballots p) ->
  inject_Z kz == tally c (ballots p) - t ->
  script_ok s ->
  tally c (ballots p) - t <= wt_where (transferable c) (ballots p) ->
  scr s = DRanks l :: rest ->
  valid_ballot_sample cand ceqb (rt_pop c (ballots p)) kz l = true ->
  exists out s', run_stv cfg p s = inl (out, s') /\ scr s' = rest /\
    flat (elected_upto out (length out - 1)) = [c] /\
    length out = 2%nat /\ Forall (fun st => tiebreaks st = []) out.
Proof.
  intros cfg p c t kz s l rest H1 H2 H3 H4 H5 H6 H7 H8 H9 H10 H11 H12 H13.
  exact (irv_majority_random_runs cfg p c t kz H1 H2 H3 H4 H5 H6 H7 H8 H9 s l rest H10 H11 H12 H13).
Qed.

Theorem irv_majority_random_shortage_flat :
  forall cfg (p : profile) (c : cand) t (kz : Z) (s : mstate),
  wf_stv_profile p -> integral_weights p ->
  s_quota cfg = QDroop -> s_transfer cfg = TRandom -> s_m cfg = 1%Z ->
  In c (cands p) -> stv_init cfg p = inl t ->
  total_wt (ballots p) < 2 * tally c (ballots p) ->
  inject_Z kz == tally c (ballots p) - t ->
  wt_where (transferable c) (ballots p) < tally c (ballots p) - t ->
  run_stv cfg p s = inr EValue.
Proof.
  intros cfg p c t kz s H1 H2 H3 H4 H5 H6 H7 H8 H9 H10.
  exact (irv_majority_random_shortage cfg p c t kz H1 H2 H3 H4 H5 H6 H7 H8 H9 s H10).
Qed.

Theorem irv_majority_random_bad_script_flat :
  forall cfg (p : profile) (c : cand) t (kz : Z) (s : mstate),
  wf_stv_profile p -> integral_weights p ->
  s_quota cfg = QDroop -> s_transfer cfg = TRandom -> s_m cfg = 1%Z ->
  In c (cands p) -> stv_init cfg p = inl t ->
  total_wt (ballots p) < 2 * tally c (ballots p) ->
  inject_Z kz == tally c (ballots p) - t ->
  tally c (ballots p) - t <= wt_where (transferable c) (ballots p) ->
  (forall l rest, scr s = DRanks l :: rest ->
     valid_ballot_sample cand ceqb (rt_pop c (ballots p)) kz l = false) ->
  run_stv cfg p s = inr EScript.
Proof.
  intros cfg p c t kz s H1 H2 H3 H4 H5 H6 H7 H8 H9 H10 H11.
  exact (irv_majority_random_bad_script cfg p c t kz H1 H2 H3 H4 H5 H6 H7 H8 H9 s H10 H11).
Qed.

(* every failure of a one-seat Droop count with a strict-majority candidate *)
Theorem irv_majority_errors : forall cfg (p : profile) (c : cand) t (kz : Z) (s : mstate) e,
  wf_stv_profile p -> integral_weights p ->
  s_quota cfg = QDroop -> s_transfer cfg <> TFullWeight -> s_m cfg = 1%Z ->
  (s_transfer cfg = TRandom -> script_ok s) ->
  In c (cands p) -> stv_init cfg p = inl t ->
  total_wt (ballots p) < 2 * tally c (ballots p) ->
  inject_Z kz == tally c (ballots p) - t ->
  run_stv cfg p s = inr e ->
  s_transfer cfg = TRandom /\
  ((e = EValue /\ wt_where (transferable c) (ballots p) < tally c (ballots p) - t) \/
   (e = EScript /\ tally c (ballots p) - t <= wt_where (transferable c) (ballots p) /\
    forall l rest, scr s = DRanks l :: rest ->
      valid_ballot_sample cand ceqb (rt_pop c (ballots p)) kz l = false)).
Proof.
  intros cfg p c t kz s e Hwfp Hint Hq Hk Hm Hscr Hc Hinit Hmaj Hkz Hrun.
  pose proof (majority_reaches cfg p c t (proj1 Hwfp) Hint Hq Hm Hinit Hmaj) as Hreach.
  destruct (s_transfer cfg) eqn:Ek; [| |contradiction Hk; reflexivity].
  - exfalso. destruct (irv_reaches_fractional_runs cfg p c t s Hwfp Hq Ek Hm Hc Hinit Hreach)
      as (out & Hok & _). rewrite Hok in Hrun. discriminate.
  - split; [reflexivity|].
    assert (Hk' : s_transfer cfg <> TFullWeight) by (rewrite Ek; discriminate).
    pose proof (irv_random_run cfg p c t Hwfp Hq Hk' Hm Hc Hinit Hreach s kz Hint Ek Hkz) as H.
    destruct (Qlt_le_dec (wt_where (transferable c) (ballots p)) (tally c (ballots p) - t)) as [Hlt|Hle].
    + left. rewrite H in Hrun. injection Hrun as <-. split; [reflexivity|exact Hlt].
    + right.
      assert (Hgoal : e = EScript /\ forall l rest, scr s = DRanks l :: rest ->
                valid_ballot_sample cand ceqb (rt_pop c (ballots p)) kz l = false).
      { destruct (scr s) as [|dr rest0].
        - rewrite H in Hrun. injection Hrun as <-. split; [reflexivity|]. intros l rest E. discriminate.
        - destruct dr; try (rewrite H in Hrun; injection Hrun as <-; split; [reflexivity|];
                            intros l0 rest E; discriminate).
          destruct (valid_ballot_sample cand ceqb (rt_pop c (ballots p)) kz l) eqn:Ev.
          + exfalso. destruct (H (Hscr eq_refl)) as (out & lg' & Hok & _).
            rewrite Hok in Hrun. discriminate.
          + rewrite H in Hrun. injection Hrun as <-. split; [reflexivity|].
            intros l0 rest E. injection E as <- <-. exact Ev. }
      destruct Hgoal as [He Hbad]. split; [exact He|]. split; [exact Hle|exact Hbad].
Qed.

(* (c) fractional transfer, Droop quota, valid m: once ties for a seat can be broken (simultaneous
   mode, or a valid tie-break name) the only possible failure is the script *)
Theorem droop_fractional_script_only : forall cfg (p : profile) (s : mstate) e,
  wf_stv_profile p -> s_quota cfg = QDroop -> s_transfer cfg = TFractional ->
  (1 <= s_m cfg <= Z.of_nat (length (cands p)))%Z ->
  (s_simul cfg = true \/ exists kind, s_tiebreak cfg = Some kind /\ kind <> TBInvalid) ->
  run_stv cfg p s = inr e -> e = EScript.
Proof.
  intros cfg p s e [Hwf _] Hq Ek Hmr Htb Hrun.
  destruct (droop_run_errors cand ceqb ceqb_spec cfg p s e Hwf Hq) as [[_ H]|[H|[(_ & Hsim & Hnone)|[H _]]]];
    try exact Hrun.
  - rewrite Ek. discriminate.
  - rewrite Ek. discriminate.
  - contradiction.
  - exact H.
  - exfalso. destruct Htb as [Hs|(kind & Hkind & Hne)]; [congruence|].
    destruct Hnone as [Hn|Hn]; rewrite Hkind in Hn; [discriminate|].
    injection Hn as ->. apply Hne. reflexivity.
  - rewrite Ek in H. discriminate.
Qed.

End WithCand.
