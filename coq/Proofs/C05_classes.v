(* Proofs/C05_classes.v — C05: (a) the five public score classes with their documented limits
   instantiated, composed from the wiring theorems; (b) TypeError of the whole run, exactly;
   (c) rated ballots that also carry a ranking (finding score-rule-mixed-ballot-typeerror).
   Statements are repeated, fully spelled, in Properties/C05_classes.v. *)
From VK Require Import Base Core STV Pairwise Rules PV Election.
From VK.Generated Require Import Wiring.
From VK.Spec Require Import ScoreSpec EditSpec RatingSpec Anon TieSpec RunSpec OneShotSpec Content.
From VK.Proofs Require Import Lib_sets C04_scoring C12_edit C20_validation C05_rating C13_wiring Elect C01_lib
  C01_rules C05_tiebreaks C06_condo C05_classes_lib.
From Coq Require Import Permutation Lia Lqa.

Section Classes.
Variable cand : Type.
Variable ceqb : cand -> cand -> bool.
Hypothesis ceqb_spec : forall a b, reflect (a = b) (ceqb a b).

Notation cset := (cset cand).
Notation ranking := (ranking cand).
Notation ballot := (ballot cand).
Notation profile := (profile cand).
Notation scores := (scores cand).
Notation estate := (estate cand).
Notation mstate := (mstate cand).
Notation flat := (flat cand).
Notation rating_validate := (rating_validate cand).
Notation remove_cand_prof := (remove_cand_prof cand ceqb).
Notation score_from_scores := (score_from_scores cand ceqb).
Notation score_to_ranking := (score_to_ranking cand).
Notation elect_top_m := (elect_top_m cand ceqb).
Notation run_one_shot := (run_one_shot cand ceqb).
Notation run_rating := (run_rating cand ceqb).
Notation run_rule := (run_rule cand ceqb).
Notation run_wrule := (run_wrule cand ceqb).
Notation score_ballot_ok := (score_ballot_ok cand).
Notation score_ballot_bad := (score_ballot_bad cand).
Notation score_total := (score_total cand ceqb).
Notation totals := (totals cand ceqb).
Notation straddles_seat := (straddles_seat cand).
Notation wf_rated_profile := (wf_rated_profile cand).
Notation stranded := (stranded cand).
Notation known := (known cand).
Notation covered := (covered cand).
Notation scored := (scored cand).

(* ------------------------------------------------------------------ *)
(** * (a) the limits of a ballot, spelled out *)

(* no budget: Rating, Approval *)
Definition ok2 (L : Q) (b : ballot) : Prop :=
  sc b <> [] /\ (forall c q, In (c, q) (sc b) -> 0 <= q /\ q <= L).
Definition bad2 (L : Q) (b : ballot) : Prop :=
  sc b = [] \/ exists c q, In (c, q) (sc b) /\ (q < 0 \/ L < q).
(* with a budget: Limited, Cumulative, BlocPlurality *)
Definition ok3 (L B : Q) (b : ballot) : Prop :=
  sc b <> [] /\ (forall c q, In (c, q) (sc b) -> 0 <= q /\ q <= L) /\ qsum (map snd (sc b)) <= B.
Definition bad3 (L B : Q) (b : ballot) : Prop :=
  sc b = [] \/ (exists c q, In (c, q) (sc b) /\ (q < 0 \/ L < q)) \/ B < qsum (map snd (sc b)).

Lemma ok2_iff : forall L b, ok2 L b <-> score_ballot_ok L None b.
Proof. intros L b. unfold ok2, RatingSpec.score_ballot_ok. tauto. Qed.
Lemma ok3_iff : forall L B b, ok3 L B b <-> score_ballot_ok L (Some B) b.
Proof. intros L B b. reflexivity. Qed.
Lemma bad2_iff : forall L b, bad2 L b <-> score_ballot_bad L None b.
Proof.
  intros L b. unfold bad2, RatingSpec.score_ballot_bad. split.
  - intros [H|[c [q [Hin [H|H]]]]]; [left; exact H|right; left; exists c, q; tauto|right; left; exists c, q; tauto].
  - intros [H|[[c [q [Hin [H|H]]]]|[k' [Hk _]]]]; [left; exact H|right; exists c, q; tauto|right; exists c, q; tauto|discriminate].
Qed.
Lemma bad3_iff : forall L B b, bad3 L B b <-> score_ballot_bad L (Some B) b.
Proof.
  intros L B b. unfold bad3, RatingSpec.score_ballot_bad. split.
  - intros [H|[[c [q [Hin [H|H]]]]|H]];
      [left; exact H|right; left; exists c, q; tauto|right; left; exists c, q; tauto|].
    right. right. exists B. split; [reflexivity|exact H].
  - intros [H|[[c [q [Hin [H|H]]]]|[k' [Hk H]]]];
      [left; exact H|right; left; exists c, q; tauto|right; left; exists c, q; tauto|].
    inversion Hk; subst k'. right. right. exact H.
Qed.

Lemma Forall_iff : forall {A} (P R : A -> Prop) l, (forall x, P x <-> R x) -> (Forall P l <-> Forall R l).
Proof.
  intros A P R l H. rewrite !Forall_forall. split; intros H1 x Hx; apply H; apply H1; exact Hx.
Qed.

Lemma ex_in_iff : forall {A} (P R : A -> Prop) (l : list A), (forall x, P x <-> R x) ->
  ((exists x, In x l /\ P x) <-> (exists x, In x l /\ R x)).
Proof.
  intros A P R l H. split; intros [x [Hx Hp]]; exists x; (split; [exact Hx|apply H; exact Hp]).
Qed.

(* accepted arguments: the profile decides *)
Lemma accept_generic : forall m L k tb (p : profile) s, rating_args_ok m L k ->
  (rating_validate L k p = inl tt <-> Forall (score_ballot_ok L k) (ballots p)) /\
  (Forall (score_ballot_ok L k) (ballots p) ->
     run_rating m L k tb p s = run_one_shot SKBallotScores m tb p s) /\
  (~ Forall (score_ballot_ok L k) (ballots p) -> run_rating m L k tb p s = inr EType) /\
  (~ Forall (score_ballot_ok L k) (ballots p) <-> exists b, In b (ballots p) /\ score_ballot_bad L k b).
Proof.
  intros m L k tb p s Ha.
  destruct (c05_accept_iff_proof cand ceqb m L k tb p s) as [_ [_ [Hbad [Hok [_ [_ [Hdec [Hexcl _]]]]]]]].
  destruct (rating_validate_iff cand L k p) as [_ [_ V3]].
  assert (Hneg : ~ Forall (score_ballot_ok L k) (ballots p) <->
                 exists b, In b (ballots p) /\ score_ballot_bad L k b).
  { split.
    - intros Hn. destruct Hdec as [H|H]; [contradiction|exact H].
    - intros Hex Hall. apply Hexcl. split; assumption. }
  split; [exact V3|]. split; [apply Hok; exact Ha|]. split; [|exact Hneg].
  intros Hn. apply Hbad; [exact Ha|]. apply Hneg. exact Hn.
Qed.

Lemma accept_nobudget : forall m L tb (p : profile) s, (1 <= m)%Z -> 0 < L ->
  (rating_validate L None p = inl tt <-> Forall (ok2 L) (ballots p)) /\
  (Forall (ok2 L) (ballots p) -> run_rating m L None tb p s = run_one_shot SKBallotScores m tb p s) /\
  (~ Forall (ok2 L) (ballots p) -> run_rating m L None tb p s = inr EType) /\
  (~ Forall (ok2 L) (ballots p) <-> exists b, In b (ballots p) /\ bad2 L b).
Proof.
  intros m L tb p s Hm HL.
  assert (Ha : rating_args_ok m L None) by (split; [exact Hm|split; [exact HL|exact I]]).
  destruct (accept_generic m L None tb p s Ha) as [H1 [H2 [H3 H4]]].
  pose proof (Forall_iff (ok2 L) (score_ballot_ok L None) (ballots p) (ok2_iff L)) as HF.
  pose proof (ex_in_iff (bad2 L) (score_ballot_bad L None) (ballots p) (bad2_iff L)) as HE.
  rewrite HF, HE. repeat split; tauto.
Qed.

Lemma accept_budget : forall m L B tb (p : profile) s, (1 <= m)%Z -> 0 < L -> 0 < B -> L <= B ->
  (rating_validate L (Some B) p = inl tt <-> Forall (ok3 L B) (ballots p)) /\
  (Forall (ok3 L B) (ballots p) ->
     run_rating m L (Some B) tb p s = run_one_shot SKBallotScores m tb p s) /\
  (~ Forall (ok3 L B) (ballots p) -> run_rating m L (Some B) tb p s = inr EType) /\
  (~ Forall (ok3 L B) (ballots p) <-> exists b, In b (ballots p) /\ bad3 L B b).
Proof.
  intros m L B tb p s Hm HL HB HLB.
  assert (Ha : rating_args_ok m L (Some B)) by (split; [exact Hm|split; [exact HL|split; assumption]]).
  destruct (accept_generic m L (Some B) tb p s Ha) as [H1 [H2 [H3 H4]]].
  pose proof (ex_in_iff (bad3 L B) (score_ballot_bad L (Some B)) (ballots p) (bad3_iff L B)) as HE.
  change (Forall (ok3 L B) (ballots p)) with (Forall (score_ballot_ok L (Some B)) (ballots p)).
  rewrite HE. repeat split; tauto.
Qed.

Lemma reject_args : forall m L k tb (p : profile) s, rating_args_bad m L k ->
  run_rating m L k tb p s = inr EValue.
Proof.
  intros m L k tb p s H. destruct (c05_accept_iff_proof cand ceqb m L k tb p s) as [_ [Hb _]].
  apply Hb. exact H.
Qed.

Lemma Q1_pos : 0 < 1. Proof. reflexivity. Qed.
Lemma inject_pos : forall m, (1 <= m)%Z -> 0 < inject_Z m.
Proof. intros m Hm. change (inject_Z 0 < inject_Z m). rewrite <- Zlt_Qlt. lia. Qed.

(* ---------- Rating(m, L): limit L per candidate, no budget ---------- *)
Theorem class_rating : forall m L tb (p : profile) s,
  ((m <= 0)%Z \/ L <= 0 -> run_wrule (WRating m L tb) p s = inr EValue) /\
  ((1 <= m)%Z -> 0 < L ->
     let accepted := Forall (fun b => sc b <> [] /\
                       (forall c q, In (c, q) (sc b) -> 0 <= q /\ q <= L)) (ballots p) in
     (rating_validate L None p = inl tt <-> accepted) /\
     (accepted -> run_wrule (WRating m L tb) p s = run_one_shot SKBallotScores m tb p s) /\
     (~ accepted -> run_wrule (WRating m L tb) p s = inr EType) /\
     (~ accepted <-> exists b, In b (ballots p) /\
        (sc b = [] \/ exists c q, In (c, q) (sc b) /\ (q < 0 \/ L < q)))).
Proof.
  intros m L tb p s.
  rewrite (proj2 (c05_wiring_rating_run_proof cand ceqb m L tb p)). split.
  - intros H. apply reject_args. destruct H as [H|H]; [left; exact H|right; left; exact H].
  - intros Hm HL. exact (accept_nobudget m L tb p s Hm HL).
Qed.

(* ---------- Approval(m): limit 1 per candidate, no budget ---------- *)
Theorem class_approval : forall m tb (p : profile) s,
  ((m <= 0)%Z -> run_wrule (WApproval m tb) p s = inr EValue) /\
  ((1 <= m)%Z ->
     let accepted := Forall (fun b => sc b <> [] /\
                       (forall c q, In (c, q) (sc b) -> 0 <= q /\ q <= 1)) (ballots p) in
     (rating_validate 1 None p = inl tt <-> accepted) /\
     (accepted -> run_wrule (WApproval m tb) p s = run_one_shot SKBallotScores m tb p s) /\
     (~ accepted -> run_wrule (WApproval m tb) p s = inr EType) /\
     (~ accepted <-> exists b, In b (ballots p) /\
        (sc b = [] \/ exists c q, In (c, q) (sc b) /\ (q < 0 \/ 1 < q)))).
Proof.
  intros m tb p s.
  rewrite (proj2 (c05_wiring_approval_run_proof cand ceqb m tb p)). split.
  - intros H. apply reject_args. left. exact H.
  - intros Hm. exact (accept_nobudget m 1 tb p s Hm Q1_pos).
Qed.

(* ---------- Limited(m, k): limit k per candidate, budget k; k > m is refused ---------- *)
Theorem class_limited : forall m k tb (p : profile) s,
  (inject_Z m < k \/ (m <= 0)%Z \/ k <= 0 -> run_rule (RLimited m k tb) p s = inr EValue) /\
  ((1 <= m)%Z -> 0 < k -> k <= inject_Z m ->
     let accepted := Forall (fun b => sc b <> [] /\
                       (forall c q, In (c, q) (sc b) -> 0 <= q /\ q <= k) /\
                       qsum (map snd (sc b)) <= k) (ballots p) in
     (rating_validate k (Some k) p = inl tt <-> accepted) /\
     (accepted -> run_rule (RLimited m k tb) p s = run_one_shot SKBallotScores m tb p s) /\
     (~ accepted -> run_rule (RLimited m k tb) p s = inr EType) /\
     (~ accepted <-> exists b, In b (ballots p) /\
        (sc b = [] \/ (exists c q, In (c, q) (sc b) /\ (q < 0 \/ k < q)) \/
         k < qsum (map snd (sc b))))).
Proof.
  intros m k tb p s.
  destruct (c05_wiring_limited_proof cand ceqb m k tb p) as [Hrun [Hg Hw]]. split.
  - intros H. apply (c20_limited_limits_proof cand ceqb m k tb p s). exact H.
  - intros Hm Hk Hkm. rewrite Hrun, Hg.
    assert (Hgf : Qlt_bool (inject_Z m) k = false) by (apply Qlt_bool_false_iff; exact Hkm).
    rewrite Hgf, Hw. cbn [Rules.run_rule].
    exact (accept_budget m k k tb p s Hm Hk Hk (Qle_refl k)).
Qed.

(* ---------- Cumulative(m): limit m per candidate, budget m ---------- *)
Theorem class_cumulative : forall m tb (p : profile) s,
  ((m <= 0)%Z -> run_wrule (WCumulative m tb) p s = inr EValue) /\
  ((1 <= m)%Z ->
     let accepted := Forall (fun b => sc b <> [] /\
                       (forall c q, In (c, q) (sc b) -> 0 <= q /\ q <= inject_Z m) /\
                       qsum (map snd (sc b)) <= inject_Z m) (ballots p) in
     (rating_validate (inject_Z m) (Some (inject_Z m)) p = inl tt <-> accepted) /\
     (accepted -> run_wrule (WCumulative m tb) p s = run_one_shot SKBallotScores m tb p s) /\
     (~ accepted -> run_wrule (WCumulative m tb) p s = inr EType) /\
     (~ accepted <-> exists b, In b (ballots p) /\
        (sc b = [] \/ (exists c q, In (c, q) (sc b) /\ (q < 0 \/ inject_Z m < q)) \/
         inject_Z m < qsum (map snd (sc b))))).
Proof.
  intros m tb p s.
  destruct (c05_wiring_cumulative_full_proof cand ceqb m tb p) as [_ [_ [_ Hrun]]]. rewrite Hrun. split.
  - intros H. apply reject_args. left. exact H.
  - intros Hm.
    pose proof (inject_pos m Hm) as Hq.
    exact (accept_budget m (inject_Z m) (inject_Z m) tb p s Hm Hq Hq (Qle_refl _)).
Qed.

(* ---------- BlocPlurality(m, k): limit 1 per candidate, budget k, or m when k is None / 0 ---------- *)
Theorem class_bloc : forall m k tb B (p : profile) s,
  B = match k with Some x => if Z.eqb x 0 then m else x | None => m end ->
  ((m <= 0 \/ B <= 0)%Z -> run_rule (RBloc m k tb) p s = inr EValue) /\
  ((1 <= m)%Z -> (1 <= B)%Z ->
     let accepted := Forall (fun b => sc b <> [] /\
                       (forall c q, In (c, q) (sc b) -> 0 <= q /\ q <= 1) /\
                       qsum (map snd (sc b)) <= inject_Z B) (ballots p) in
     (rating_validate 1 (Some (inject_Z B)) p = inl tt <-> accepted) /\
     (accepted -> run_rule (RBloc m k tb) p s = run_one_shot SKBallotScores m tb p s) /\
     (~ accepted -> run_rule (RBloc m k tb) p s = inr EType) /\
     (~ accepted <-> exists b, In b (ballots p) /\
        (sc b = [] \/ (exists c q, In (c, q) (sc b) /\ (q < 0 \/ 1 < q)) \/
         inject_Z B < qsum (map snd (sc b))))).
Proof.
  intros m k tb B p s HB.
  destruct (c05_wiring_bloc_proof cand ceqb m k tb p) as [Hrun [_ Hw]].
  rewrite Hrun, Hw, <- HB. cbn [Rules.run_rule]. split.
  - intros H. apply reject_args. destruct H as [H|H]; [left; exact H|].
    right. right. exists (inject_Z B). split; [reflexivity|]. left.
    rewrite (Zle_Qle B 0) in H. exact H.
  - intros Hm HB1.
    assert (Hq : 1 <= inject_Z B) by (rewrite (Zle_Qle 1 B) in HB1; exact HB1).
    assert (Hq0 : 0 < inject_Z B) by (eapply Qlt_le_trans; [exact Q1_pos|exact Hq]).
    exact (accept_budget m 1 (inject_Z B) tb p s Hm Q1_pos Hq0 Hq).
Qed.

(* ------------------------------------------------------------------ *)
(** * (b) TypeError of the whole run *)

Notation R0 p := (score_to_ranking (map (fun c => (c, score_total p c)) (cands p)) true).

(* every tiebreak option, every profile *)
Theorem run_type_iff : forall m L k tb (p : profile) s,
  run_rule (RRating m L k tb) p s = inr EType <->
  rating_args_ok m L k /\
  ((exists b, In b (ballots p) /\ score_ballot_bad L k b) \/
   ((forall b, In b (ballots p) -> incl (map fst (sc b)) (cands p)) /\
    (elect_top_m (R0 p) m (Some p) tb s = inr EType \/
     exists el rem t s',
       elect_top_m (R0 p) m (Some p) tb s = inl ((el, rem, t), s') /\
       NoDup (set_diff cand ceqb (cands p) (flat el)) /\
       exists b, In b (ballots p) /\
         0 < wt b /\ (forall c, In c (map fst (sc b)) -> In c (flat el)) /\
         exists c, In c (flat (rk b)) /\ ~ In c (flat el)))).
Proof.
  intros m L k tb p s. cbn [Rules.run_rule].
  destruct (c05_accept_iff_proof cand ceqb m L k tb p s)
    as [_ [Hbadargs [Hbad [Hok [Hadec [_ [Hdec _]]]]]]].
  destruct Hadec as [Ha|Hna].
  - destruct Hdec as [Hall|Hex].
    + rewrite (Hok Ha Hall).
      rewrite (one_shot_type_iff cand ceqb ceqb_spec m tb p s (ok_scored cand L k p Hall)).
      split.
      * intros [Hk H]. split; [exact Ha|]. right. split; [exact Hk|exact H].
      * intros [_ [Hex|[Hk H]]].
        -- exfalso. destruct (c05_accept_iff_proof cand ceqb m L k tb p s) as [_ [_ [_ [_ [_ [_ [_ [Hx _]]]]]]]].
           apply Hx. split; assumption.
        -- split; [exact Hk|exact H].
    + rewrite (Hbad Ha Hex). split; [intros _; split; [exact Ha|left; exact Hex]|reflexivity].
  - rewrite (Hbadargs Hna). split; [discriminate|]. intros [Ha _]. exfalso.
    exact (rating_args_ok_not_bad m L k Ha Hna).
Qed.

(* no tiebreak, random, or an unknown name: the top-m selection itself raises no TypeError *)
Theorem run_type_iff_plain : forall m L k tb (p : profile) s,
  tb = None \/ tb = Some TBRandom \/ tb = Some TBInvalid ->
  (run_rule (RRating m L k tb) p s = inr EType <->
   rating_args_ok m L k /\
   ((exists b, In b (ballots p) /\ score_ballot_bad L k b) \/
    ((forall b, In b (ballots p) -> incl (map fst (sc b)) (cands p)) /\
     exists el rem t s',
       elect_top_m (R0 p) m (Some p) tb s = inl ((el, rem, t), s') /\
       NoDup (set_diff cand ceqb (cands p) (flat el)) /\
       exists b, In b (ballots p) /\
         0 < wt b /\ (forall c, In c (map fst (sc b)) -> In c (flat el)) /\
         exists c, In c (flat (rk b)) /\ ~ In c (flat el)))).
Proof.
  intros m L k tb p s Htb. rewrite run_type_iff. split.
  - intros [Ha [H|[Hk [H|H]]]]; (split; [exact Ha|]).
    + left. exact H.
    + exfalso. exact (elect_plain_no_type cand ceqb _ _ _ _ _ Htb H).
    + right. split; [exact Hk|exact H].
  - intros [Ha [H|[Hk H]]]; (split; [exact Ha|]); [left; exact H|right; split; [exact Hk|right; exact H]].
Qed.

(* ... and when moreover every ranked candidate of a ballot is scored by it (in particular on
   rated ballots without a ranking) the only TypeError is the one of validation *)
Theorem run_type_iff_covered : forall m L k tb (p : profile) s,
  tb = None \/ tb = Some TBRandom \/ tb = Some TBInvalid ->
  (forall b, In b (ballots p) -> incl (flat (rk b)) (map fst (sc b))) ->
  (run_rule (RRating m L k tb) p s = inr EType <->
   rating_args_ok m L k /\ exists b, In b (ballots p) /\ score_ballot_bad L k b).
Proof.
  intros m L k tb p s Htb Hcov. rewrite (run_type_iff_plain m L k tb p s Htb). split.
  - intros [Ha [H|[_ [el [rem [t [s' [_ [_ Hex]]]]]]]]]; [split; assumption|].
    exfalso. exact (covered_not_stranded cand p (flat el) Hcov Hex).
  - intros [Ha H]. split; [exact Ha|left; exact H].
Qed.

(* first_place / borda tiebreak on rated ballots (no rankings): TypeError of validation, or of
   the tiebreak when it is consulted *)
Theorem run_type_iff_rated_scored : forall m L k kind (p : profile) s,
  kind = TBFirstPlace \/ kind = TBBorda -> wf_rated_profile p ->
  (run_rule (RRating m L k (Some kind)) p s = inr EType <->
   rating_args_ok m L k /\
   ((exists b, In b (ballots p) /\ score_ballot_bad L k b) \/
    ((1 <= m <= Z.of_nat (length (cands p)))%Z /\ straddles_seat (R0 p) m /\ ballots p <> []))).
Proof.
  intros m L k kind p s Hkind Hwf.
  destruct (c05_accept_iff_proof cand ceqb m L k (Some kind) p s)
    as [_ [Hbadargs [Hbad [_ [Hadec [_ [Hdec _]]]]]]].
  destruct Hadec as [Ha|Hna].
  - destruct Hdec as [Hall|Hex].
    + destruct (rated_covered cand p Hwf) as [_ [Hk _]].
      assert (Hd : Rules.score_fn cand ceqb SKBallotScores p = inl (totals p)).
      { cbn [Rules.score_fn]. apply score_from_scores_ok; [exact ceqb_spec|exact (ok_scored cand L k p Hall)|exact Hk]. }
      rewrite (rated_scored_tiebreak cand ceqb ceqb_spec (RRating m L k (Some kind)) p SKBallotScores m kind
                 (totals p) s eq_refl (conj Ha (conj Hall Hwf)) I Hkind Hd).
      split.
      * intros H. split; [exact Ha|right; exact H].
      * intros [_ [Hex|H]]; [|exact H]. exfalso.
        destruct (c05_accept_iff_proof cand ceqb m L k (Some kind) p s) as [_ [_ [_ [_ [_ [_ [_ [Hx _]]]]]]]].
        apply Hx. split; assumption.
    + cbn [Rules.run_rule]. rewrite (Hbad Ha Hex).
      split; [intros _; split; [exact Ha|left; exact Hex]|reflexivity].
  - cbn [Rules.run_rule]. rewrite (Hbadargs Hna). split; [discriminate|]. intros [Ha _]. exfalso.
    exact (rating_args_ok_not_bad m L k Ha Hna).
Qed.

(* the five public classes: plain tiebreak option, every ranked candidate scored *)
Theorem class_type_iff : forall tb (p : profile) s,
  tb = None \/ tb = Some TBRandom \/ tb = Some TBInvalid ->
  (forall b, In b (ballots p) -> incl (flat (rk b)) (map fst (sc b))) ->
  (forall m L, run_wrule (WRating m L tb) p s = inr EType <->
     (1 <= m)%Z /\ 0 < L /\ exists b, In b (ballots p) /\
       (sc b = [] \/ exists c q, In (c, q) (sc b) /\ (q < 0 \/ L < q))) /\
  (forall m, run_wrule (WApproval m tb) p s = inr EType <->
     (1 <= m)%Z /\ exists b, In b (ballots p) /\
       (sc b = [] \/ exists c q, In (c, q) (sc b) /\ (q < 0 \/ 1 < q))) /\
  (forall m k, run_rule (RLimited m k tb) p s = inr EType <->
     (1 <= m)%Z /\ 0 < k /\ k <= inject_Z m /\ exists b, In b (ballots p) /\
       (sc b = [] \/ (exists c q, In (c, q) (sc b) /\ (q < 0 \/ k < q)) \/
        k < qsum (map snd (sc b)))) /\
  (forall m, run_wrule (WCumulative m tb) p s = inr EType <->
     (1 <= m)%Z /\ exists b, In b (ballots p) /\
       (sc b = [] \/ (exists c q, In (c, q) (sc b) /\ (q < 0 \/ inject_Z m < q)) \/
        inject_Z m < qsum (map snd (sc b)))) /\
  (forall m k B, B = match k with Some x => if Z.eqb x 0 then m else x | None => m end ->
     (run_rule (RBloc m k tb) p s = inr EType <->
      (1 <= m)%Z /\ (1 <= B)%Z /\ exists b, In b (ballots p) /\
        (sc b = [] \/ (exists c q, In (c, q) (sc b) /\ (q < 0 \/ 1 < q)) \/
         inject_Z B < qsum (map snd (sc b))))).
Proof.
  intros tb p s Htb Hcov.
  assert (G : forall m L k, run_rating m L k tb p s = inr EType <->
              rating_args_ok m L k /\ exists b, In b (ballots p) /\ score_ballot_bad L k b).
  { intros m L k. exact (run_type_iff_covered m L k tb p s Htb Hcov). }
  split; [|split; [|split; [|split]]].
  - intros m L. rewrite (proj2 (c05_wiring_rating_run_proof cand ceqb m L tb p)), G.
    rewrite <- (ex_in_iff (bad2 L) (score_ballot_bad L None) (ballots p) (bad2_iff L)).
    unfold RatingSpec.rating_args_ok, bad2. tauto.
  - intros m. rewrite (proj2 (c05_wiring_approval_run_proof cand ceqb m tb p)), G.
    rewrite <- (ex_in_iff (bad2 1) (score_ballot_bad 1 None) (ballots p) (bad2_iff 1)).
    unfold RatingSpec.rating_args_ok, bad2. pose proof Q1_pos. tauto.
  - intros m k. destruct (c05_wiring_limited_proof cand ceqb m k tb p) as [Hrun [Hg Hw]].
    rewrite Hrun, Hg, Hw.
    destruct (Qlt_bool (inject_Z m) k) eqn:Hgb.
    + apply Qlt_bool_iff in Hgb. split; [discriminate|]. intros [_ [_ [Hle _]]]. exfalso.
      exact (Qlt_not_le _ _ Hgb Hle).
    + apply Qlt_bool_false_iff in Hgb. cbn [Rules.run_rule]. rewrite G.
      rewrite <- (ex_in_iff (bad3 k k) (score_ballot_bad k (Some k)) (ballots p) (bad3_iff k k)).
      unfold RatingSpec.rating_args_ok, bad3. pose proof (Qle_refl k). tauto.
  - intros m. destruct (c05_wiring_cumulative_full_proof cand ceqb m tb p) as [_ [_ [_ Hrun]]].
    rewrite Hrun, G.
    rewrite <- (ex_in_iff (bad3 (inject_Z m) (inject_Z m)) (score_ballot_bad (inject_Z m) (Some (inject_Z m)))
                  (ballots p) (bad3_iff (inject_Z m) (inject_Z m))).
    unfold RatingSpec.rating_args_ok, bad3. pose proof (Qle_refl (inject_Z m)).
    pose proof (inject_pos m) as Hq.
    tauto.
  - intros m k B HB. destruct (c05_wiring_bloc_proof cand ceqb m k tb p) as [Hrun [_ Hw]].
    rewrite Hrun, Hw, <- HB. cbn [Rules.run_rule]. rewrite G.
    rewrite <- (ex_in_iff (bad3 1 (inject_Z B)) (score_ballot_bad 1 (Some (inject_Z B)))
                  (ballots p) (bad3_iff 1 (inject_Z B))).
    unfold RatingSpec.rating_args_ok, bad3. pose proof Q1_pos.
    assert (Hq1 : (1 <= B)%Z <-> 1 <= inject_Z B) by (rewrite (Zle_Qle 1 B); reflexivity).
    assert (Hq0 : 1 <= inject_Z B -> 0 < inject_Z B).
    { intros Hx. eapply Qlt_le_trans; [exact Q1_pos|exact Hx]. }
    tauto.
Qed.

(* ------------------------------------------------------------------ *)
(** * (c) ballots that carry a ranking beside their scores *)

(* accepted arguments and ballots, distinct candidates, every scored candidate known: the run is
   decided by the top-m selection and, after it, by whether a ballot is left with a ranking but
   without scores *)
Theorem mixed_round1 : forall m L k tb (p : profile) s,
  rating_args_ok m L k -> Forall (score_ballot_ok L k) (ballots p) -> NoDup (cands p) ->
  (forall b, In b (ballots p) -> incl (map fst (sc b)) (cands p)) ->
  (forall e, elect_top_m (R0 p) m (Some p) tb s = inr e -> run_rating m L k tb p s = inr e) /\
  (forall el rem t s', elect_top_m (R0 p) m (Some p) tb s = inl ((el, rem, t), s') ->
     let stuck := exists b, In b (ballots p) /\
                    0 < wt b /\ (forall c, In c (map fst (sc b)) -> In c (flat el)) /\
                    exists c, In c (flat (rk b)) /\ ~ In c (flat el) in
     (run_rating m L k tb p s = inr EType <-> stuck) /\
     (~ stuck -> exists s0 s1 np,
        run_rating m L k tb p s = inl ([s0; s1], s') /\
        escores s0 = map (fun c => (c, score_total p c)) (cands p) /\ remaining s0 = R0 p /\
        elected s1 = el /\ remaining s1 = rem /\
        tiebreaks s1 = match t with Some x => [x] | None => [] end /\
        remove_cand_prof (flat el) true false p = inl np /\
        escores s1 = map (fun c => (c, score_total np c)) (cands np))).
Proof.
  intros m L k tb p s Ha Hall Hnd Hk.
  rewrite (run_rating_accepted cand ceqb m L k tb p s Ha Hall).
  destruct (one_shot_cases cand ceqb ceqb_spec m tb p s (ok_scored cand L k p Hall)) as [_ HK].
  destruct (HK Hk) as [Herr Hok]. split; [exact Herr|].
  intros el rem t s' Hel stuck.
  destruct (Hok el rem t s' Hel) as [_ H2].
  destruct (H2 (set_diff_NoDup cand ceqb _ _ Hnd)) as [Hty Hsucc].
  assert (Hsucc' : ~ stuck -> exists s0 s1 np,
        run_one_shot SKBallotScores m tb p s = inl ([s0; s1], s') /\
        escores s0 = map (fun c => (c, score_total p c)) (cands p) /\ remaining s0 = R0 p /\
        elected s1 = el /\ remaining s1 = rem /\
        tiebreaks s1 = match t with Some x => [x] | None => [] end /\
        remove_cand_prof (flat el) true false p = inl np /\
        escores s1 = map (fun c => (c, score_total np c)) (cands np)).
  { intros Hno. destruct (Hsucc Hno) as [np [Hnp Hrun]].
    exists (state0 cand ceqb p), (state1 cand el rem t (totals np)), np.
    split; [exact Hrun|]. repeat split; try reflexivity. exact Hnp. }
  split; [|exact Hsucc'].
  split; [|exact Hty].
  intros H. destruct (stranded_dec cand ceqb ceqb_spec (flat el) (ballots p)) as [Hex|Hno]; [exact Hex|].
  destruct (Hsucc' Hno) as [s0 [s1 [np [Hrun _]]]]. congruence.
Qed.

(* no tiebreak: no draw, the elected set is the first m candidates of the round-0 ranking, and
   the three outcomes are told apart exactly *)
Theorem mixed_none : forall m L k (p : profile) s,
  rating_args_ok m L k -> Forall (score_ballot_ok L k) (ballots p) -> NoDup (cands p) ->
  (forall b, In b (ballots p) -> incl (map fst (sc b)) (cands p)) ->
  let W := firstn (Z.to_nat m) (flat (R0 p)) in
  let stuck := exists b, In b (ballots p) /\
                 0 < wt b /\ (forall c, In c (map fst (sc b)) -> In c W) /\
                 exists c, In c (flat (rk b)) /\ ~ In c W in
  (run_rating m L k None p s = inr EValue <->
     (Z.of_nat (length (cands p)) < m)%Z \/ straddles_seat (R0 p) m) /\
  (run_rating m L k None p s = inr EType <->
     (m <= Z.of_nat (length (cands p)))%Z /\ ~ straddles_seat (R0 p) m /\ stuck) /\
  ((exists sts, run_rating m L k None p s = inl (sts, s)) <->
     (m <= Z.of_nat (length (cands p)))%Z /\ ~ straddles_seat (R0 p) m /\ ~ stuck) /\
  (forall e, run_rating m L k None p s = inr e -> e = EValue \/ e = EType) /\
  (forall sts s', run_rating m L k None p s = inl (sts, s') ->
     s' = s /\ exists s0 s1, sts = [s0; s1] /\ flat (elected s1) = W /\
       elected s1 ++ remaining s1 = R0 p /\ tiebreaks s1 = []).
Proof.
  intros m L k p s Ha Hall Hnd Hk W stuck.
  destruct (mixed_round1 m L k None p s Ha Hall Hnd Hk) as [Herr Hok].
  pose proof (totals_ranking_len cand ceqb p) as Hlen. fold (totals p) in *.
  assert (Hm1 : (1 <= m)%Z) by (destruct Ha as [Hx _]; exact Hx).
  destruct (seat_cases cand ceqb (score_to_ranking (totals p) true) m) as [Hc|[[Hc Hns]|[Hc Hs]]];
    rewrite Hlen in Hc.
  - (* too many seats *)
    assert (E : run_rating m L k None p s = inr EValue).
    { apply Herr. apply (elect_top_m_range cand ceqb). rewrite Hlen. exact Hc. }
    rewrite E. split; [split; [intros _; left; lia|reflexivity]|].
    split; [split; [discriminate|intros [Hx _]; lia]|].
    split; [split; [intros [sts Hx]; discriminate|intros [Hx _]; lia]|].
    split; [intros e He; inversion He; left; reflexivity|intros sts s' Hx; discriminate].
  - (* nothing straddles *)
    destruct (elect_top_m_clean cand ceqb (score_to_ranking (totals p) true) m (Some p) None s)
      as [el [rem [Hel [Hr Hcount]]]]; [rewrite Hlen; exact Hc|exact Hns|].
    assert (HW : flat el = W).
    { unfold W. fold (totals p). rewrite <- Hr. apply (flat_prefix cand). exact Hcount. }
    destruct (Hok el rem None s Hel) as [Hty Hsucc]. rewrite HW in Hty, Hsucc.
    fold stuck in Hty, Hsucc.
    destruct (stranded_dec cand ceqb ceqb_spec W (ballots p)) as [Hex|Hno].
    + assert (E : run_rating m L k None p s = inr EType) by (apply Hty; exact Hex).
      rewrite E. split; [split; [discriminate|intros [Hx|Hx]; [lia|contradiction]]|].
      split; [split; [intros _; split; [lia|split; [exact Hns|exact Hex]]|reflexivity]|].
      split; [split; [intros [sts Hx]; discriminate|intros [_ [_ Hx]]; contradiction]|].
      split; [intros e He; inversion He; right; reflexivity|intros sts s' Hx; discriminate].
    + destruct (Hsucc Hno) as [s0 [s1 [np [E [_ [_ [He1 [Hr1 [Ht1 _]]]]]]]]].
      rewrite E. split; [split; [discriminate|intros [Hx|Hx]; [lia|contradiction]]|].
      split; [split; [discriminate|intros [_ [_ Hx]]; contradiction]|].
      split; [split; [intros _; split; [lia|split; [exact Hns|exact Hno]]|intros _; eexists; reflexivity]|].
      split; [intros e He; discriminate|].
      intros sts s' Hx. inversion Hx; subst sts s'. split; [reflexivity|].
      exists s0, s1. split; [reflexivity|]. rewrite He1, Hr1, Ht1. repeat split; assumption.
  - (* a group straddles seat m *)
    assert (E : run_rating m L k None p s = inr EValue).
    { apply Herr. apply (elect_top_m_none_error_iff cand ceqb). right. right. exact Hs. }
    rewrite E. split; [split; [intros _; right; exact Hs|reflexivity]|].
    split; [split; [discriminate|intros [_ [Hx _]]; contradiction]|].
    split; [split; [intros [sts Hx]; discriminate|intros [_ [Hx _]]; contradiction]|].
    split; [intros e He; inversion He; left; reflexivity|intros sts s' Hx; discriminate].
Qed.

(* Properties/C01_rules.v [c01_rating_errors] with "rated ballots carry no ranking"
   ([wf_rated_profile]) weakened to "every ranked candidate of a ballot is scored by it" *)
Theorem covered_errors : forall m L k (p : profile),
  rating_args_ok m L k -> Forall (score_ballot_ok L k) (ballots p) -> NoDup (cands p) ->
  (forall b, In b (ballots p) -> incl (map fst (sc b)) (cands p)) ->
  (forall b, In b (ballots p) -> incl (flat (rk b)) (map fst (sc b))) ->
  score_from_scores p = inl (map (fun c => (c, score_total p c)) (cands p)) /\
  (forall s, run_rating m L k None p s = inr EValue <->
     (Z.of_nat (length (cands p)) < m)%Z \/ straddles_seat (R0 p) m) /\
  (forall s e, run_rating m L k None p s = inr e -> e = EValue) /\
  (forall s, (exists sts, run_rating m L k None p s = inl (sts, s)) \/
             run_rating m L k None p s = inr EValue) /\
  (forall s e, run_rating m L k (Some TBRandom) p s = inr e -> e = EValue \/ e = EScript) /\
  (forall s e, run_rating m L k (Some TBInvalid) p s = inr e -> e = EValue) /\
  (forall tb s, tb = None \/ tb = Some TBRandom \/ tb = Some TBInvalid ->
     run_rating m L k tb p s <> inr EType).
Proof.
  intros m L k p Ha Hall Hnd Hk Hcov.
  assert (Hns : forall W, ~ (exists b, In b (ballots p) /\ stranded W b))
    by (intros W; exact (covered_not_stranded cand p W Hcov)).
  assert (Hplain : forall tb s e, run_rating m L k tb p s = inr e ->
            elect_top_m (R0 p) m (Some p) tb s = inr e).
  { intros tb s e He. destruct (mixed_round1 m L k tb p s Ha Hall Hnd Hk) as [Herr Hok].
    destruct (elect_top_m (R0 p) m (Some p) tb s) as [[[[el rem] t] s']|e'] eqn:Hel.
    - destruct (Hok el rem t s' eq_refl) as [_ Hsucc].
      destruct (Hsucc (Hns (flat el))) as [s0 [s1 [np [E _]]]]. congruence.
    - rewrite (Herr e' eq_refl) in He. inversion He; subst e'. reflexivity. }
  split; [apply score_from_scores_ok; [exact ceqb_spec|exact (ok_scored cand L k p Hall)|exact Hk]|].
  split; [intros s; exact (proj1 (mixed_none m L k p s Ha Hall Hnd Hk))|].
  split; [|split; [|split; [|split]]].
  - intros s e He. apply Hplain in He. exact (elect_top_m_none_only_EValue cand ceqb _ _ _ _ _ He).
  - intros s. destruct (mixed_none m L k p s Ha Hall Hnd Hk) as [H1 [_ [H3 _]]].
    destruct (seat_cases cand ceqb (R0 p) m) as [Hc|[[Hc Hn]|[Hc Hs]]];
      fold (totals p) in Hc; rewrite (totals_ranking_len cand ceqb p) in Hc.
    + right. apply H1. left. destruct Ha as [Hm1 _]. lia.
    + left. apply H3. split; [lia|]. split; [exact Hn|apply Hns].
    + right. apply H1. right. exact Hs.
  - intros s e He. apply Hplain in He. apply (elect_top_m_err cand ceqb) in He.
    destruct He as [[Hx _]|[[Hx _]|[kind [g [Hkd [_ Ht]]]]]]; [left; exact Hx|left; exact Hx|].
    inversion Hkd; subst kind. cbn [Core.tiebreak_set] in Ht. unfold mbind in Ht.
    destruct (draw_perm cand ceqb g s) as [[l s1]|e'] eqn:E; [discriminate|].
    inversion Ht; subst e'. right. exact (C06_condo.draw_perm_err cand ceqb _ _ _ E).
  - intros s e He. apply Hplain in He. apply (elect_top_m_err cand ceqb) in He.
    destruct He as [[Hx _]|[[Hx _]|[kind [g [Hkd [_ Ht]]]]]]; [exact Hx|exact Hx|].
    inversion Hkd; subst kind. cbn [Core.tiebreak_set] in Ht. inversion Ht. reflexivity.
  - intros tb s Htb He. apply Hplain in He.
    exact (elect_plain_no_type cand ceqb _ _ _ _ _ Htb He).
Qed.

End Classes.

(* ------------------------------------------------------------------ *)
(** * (c)(i) "an accepted profile never ends in TypeError" is false *)

(* Approval(m = 1): ballot 1 ranks 1 > 2 and scores {1: 1}; ballot 2 (weight 1/2) scores
   {2: 1, 3: 1}.  Totals 1, 1/2, 1/2: candidate 1 is elected, ballot 1 keeps the ranking (2) but
   no score, and scoring the reduced profile raises TypeError. *)
Definition mixed_witness : Core.profile positive :=
  mkProfile [mkBallot [[1];[2]]%positive 1 [(1%positive, 1)] None None;
             mkBallot [] (1#2) [(2%positive, 1); (3%positive, 1)] None None] [1;2;3]%positive.

Theorem accepted_type_witness :
  exists (m : Z) (L : Q) (k : option Q) (tb : option tb_kind) (p : Core.profile positive)
         (s : Core.mstate positive),
    rating_args_ok m L k /\ Forall (score_ballot_ok positive L k) (ballots p) /\
    rating_validate positive L k p = inl tt /\ NoDup (cands p) /\
    (forall b, In b (ballots p) -> incl (map fst (sc b)) (cands p)) /\
    run_rule positive Pos.eqb (RRating m L k tb) p s = inr EType /\
    run_wrule positive Pos.eqb (WApproval m tb) p s = inr EType.
Proof.
  exists 1%Z, 1, None, None, mixed_witness, (mkM [] []).
  split; [split; [lia|split; [reflexivity|exact I]]|].
  split.
  { apply Forall_forall. intros b Hb. cbn in Hb.
    destruct Hb as [<-|[<-|[]]]; (split; [discriminate|]); cbn [sc]; (split; [|exact I]);
      intros c q Hin; cbn [In] in Hin;
      repeat (destruct Hin as [Hin|Hin]; [inversion Hin; subst; split; discriminate|]); destruct Hin. }
  split; [vm_compute; reflexivity|].
  split; [repeat (constructor; [cbn; intuition discriminate|]); constructor|].
  split.
  { intros b Hb x Hx. cbn in Hb.
    repeat (destruct Hb as [Hb|Hb]; [subst b; cbn in Hx |- *; intuition|]). destruct Hb. }
  split; vm_compute; reflexivity.
Qed.

(* the closed form of [run_type_iff_rated_scored] does not extend to ballots that carry rankings:
   ballot 1 ranks 1 > 2 and scores both, ballot 2 ranks and scores 3.  Totals 1, 1, 1/2: the tie
   {1, 2} straddles the only seat, the borda tiebreak is consulted — and succeeds (1 before 2),
   so the run succeeds although "in range, straddling, a ballot exists" holds *)
Definition ranked_scored_witness : Core.profile positive :=
  mkProfile [mkBallot [[1];[2]]%positive 1 [(1%positive, 1); (2%positive, 1)] None None;
             mkBallot [[3]]%positive (1#2) [(3%positive, 1)] None None] [1;2;3]%positive.

Theorem scored_tiebreak_mixed_witness :
  exists (m : Z) (L : Q) (k : option Q) (p : Core.profile positive) (s : Core.mstate positive),
    rating_args_ok m L k /\ Forall (score_ballot_ok positive L k) (ballots p) /\ NoDup (cands p) /\
    (forall b, In b (ballots p) -> incl (map fst (sc b)) (cands p)) /\
    (forall b, In b (ballots p) -> incl (flat positive (rk b)) (map fst (sc b))) /\
    (1 <= m <= Z.of_nat (length (cands p)))%Z /\
    straddles_seat positive
      (score_to_ranking positive (map (fun c => (c, score_total positive Pos.eqb p c)) (cands p)) true) m /\
    ballots p <> [] /\
    exists s0 s1, run_rule positive Pos.eqb (RRating m L k (Some TBBorda)) p s = inl ([s0; s1], s) /\
      elected s1 = [[1]]%positive /\ tiebreaks s1 = [([1;2]%positive, [[1];[2]]%positive)].
Proof.
  exists 1%Z, 1, None, ranked_scored_witness, (mkM [] []).
  split; [split; [lia|split; [reflexivity|exact I]]|].
  split.
  { apply Forall_forall. intros b Hb. cbn in Hb.
    destruct Hb as [<-|[<-|[]]]; (split; [discriminate|]); cbn [sc]; (split; [|exact I]);
      intros c q Hin; cbn [In] in Hin;
      repeat (destruct Hin as [Hin|Hin]; [inversion Hin; subst; split; discriminate|]); destruct Hin. }
  split; [repeat (constructor; [cbn; intuition discriminate|]); constructor|].
  split.
  { intros b Hb x Hx. cbn in Hb.
    repeat (destruct Hb as [Hb|Hb]; [subst b; cbn in Hx |- *; intuition|]). destruct Hb. }
  split.
  { intros b Hb x Hx. cbn in Hb.
    repeat (destruct Hb as [Hb|Hb]; [subst b; cbn in Hx |- *; intuition|]). destruct Hb. }
  split; [cbn; lia|].
  split.
  { exists [], [1;2]%positive, [[3]]%positive. split; [vm_compute; reflexivity|]. cbn. split; reflexivity. }
  split; [discriminate|].
  do 2 eexists. split; [vm_compute; reflexivity|]. split; reflexivity.
Qed.
