(* Proofs/C16_gen2_pl.v — property C16, structural laws of Plackett-Luce sampling ([law_pl] of
   Spec/GenLaws.v = np.random.choice(cands, k, p=p, replace=False)) needed to read the
   CambridgeSampler kernel of Model/Generators2.v:
     T1  the law only depends on the weights up to ==;
     T2  the law is invariant under a common non-zero scaling of the weights;
     T3  the first k entries of an n-draw are distributed as a k-draw (short PL = prefix);
     T4  a complete draw filtered by a set of candidates is distributed as a complete draw from
         the sub-population (restriction / consistency of Plackett-Luce);
     T5  two populations over the same candidates with proportional weights have the same law;
     T6  CambridgeSampler: the Plackett-Luce order of the COMBINED interval, filtered by a slate
         whose interval entered the combination with a positive share, is distributed as a
         Plackett-Luce order from the voter bloc's interval for that slate (and so is every
         prefix of it, which is what [cam_fill] consumes). *)
From VK Require Import Base Core GenValidation PrefInterval Generators Generators2 Laws.
From VK.Spec Require Import BTSpec GenSpec GenLaws.
From VK.Proofs Require Import Lib_sets Dist C15_bt C15_interval C14_wf C14_kernels C16_laws.
From Coq Require Import Permutation Lia Lqa Setoid Morphisms.

(* ------------------------------------------------------------------ *)
(** * Generic helpers *)

Lemma prob_const : forall {A} (b : bool) (d : dist A),
  prob (fun _ => b) d == if b then mass d else 0.
Proof. intros A b d. destruct b; [apply prob_true|apply prob_false]. Qed.

Lemma qsum_filter_split : forall {A} (g : A -> bool) (f : A -> Q) (l : list A),
  qsum (map f l) == qsum (map f (filter g l)) + qsum (map f (filter (fun a => negb (g a)) l)).
Proof.
  intros A g f l. induction l as [|a l IH].
  - cbn [map filter]. rewrite qsum_nil. ring.
  - cbn [map filter]. destruct (g a); cbn [negb map]; rewrite !qsum_cons, IH; ring.
Qed.

Lemma qsum_map_Forall2 : forall {A B} (R : A -> B -> Prop) (f : A -> Q) (g : B -> Q) l l',
  Forall2 R l l' -> (forall a b, R a b -> f a == g b) -> qsum (map f l) == qsum (map g l').
Proof.
  intros A B R f g l l' H Hfg. induction H as [|a b l l' Hab _ IH].
  - reflexivity.
  - cbn [map]. rewrite !qsum_cons, (Hfg a b Hab), IH. reflexivity.
Qed.

Lemma qsum_map_map : forall {A B} (F : B -> Q) (f : A -> B) (l : list A),
  qsum (map F (map f l)) == qsum (map (fun x => F (f x)) l).
Proof. intros A B F f l. rewrite map_map. reflexivity. Qed.

Lemma Qdiv_scale : forall a x y, ~ a == 0 -> (a * x) / (a * y) == x / y.
Proof.
  intros a x y Ha. destruct (Qeq_dec y 0) as [Hy|Hy].
  - rewrite Hy. setoid_replace (a * 0) with 0 by ring. unfold Qdiv. change (/ 0) with 0. ring.
  - field. split; assumption.
Qed.

Lemma mix_arith : forall s1 ws wn w t,
  s1 == ws * t -> w == ws + wn -> ~ w == 0 -> s1 / w + wn * (t / w) == t.
Proof.
  intros s1 ws wn w t H1 H2 Hw. rewrite H1, H2. field. intros E. apply Hw. rewrite H2. exact E.
Qed.

Lemma in_keys : forall (pop : list (pcand * Q)) c w, In (c, w) pop -> In c (map fst pop).
Proof. intros pop c w H. apply in_map_iff. exists (c, w). split; [reflexivity|exact H]. Qed.

(* ------------------------------------------------------------------ *)
(** * One step of successive sampling, for an arbitrary event *)

Lemma prob_pl_step : forall pop k (ev : list pcand -> bool),
  prob ev (law_pl pop (S k)) ==
  qsum (map (fun p : pcand * Q =>
               snd p / qsum (map snd pop) *
               prob (fun o => ev (fst p :: o)) (law_pl (remove_key (fst p) pop) k)) pop).
Proof.
  intros pop k ev. cbn [law_pl]. rewrite prob_dbind. unfold categorical. rewrite map_map.
  cbn [fst snd]. apply qsum_map_ext_in. intros [c w] _. cbn [fst snd].
  rewrite prob_dbind_dret. reflexivity.
Qed.

(* W * P(ev) = sum_c w_c * P(ev (c :: .)) on the population without c, complete draws *)
Lemma pl_unfold_full : forall pop (ev : list pcand -> bool), positive_pop pop ->
  qsum (map (fun p : pcand * Q =>
               snd p * prob (fun o => ev (fst p :: o))
                            (law_pl (remove_key (fst p) pop) (length (remove_key (fst p) pop)))) pop)
  == qsum (map snd pop) * prob ev (law_pl pop (length pop)).
Proof.
  intros pop ev Hpos. destruct (length pop) as [|m] eqn:El.
  - apply length_zero_iff_nil in El. subst pop. cbn [map]. rewrite !qsum_nil. ring.
  - assert (Hne : pop <> []) by (intros ->; discriminate El).
    pose proof (positive_pop_sum pop Hpos Hne) as HW.
    rewrite prob_pl_step, <- qsum_map_scal. apply qsum_map_ext_in. intros [c w] Hin.
    cbn [fst snd]. pose proof (remove_key_length c pop (in_keys pop c w Hin)) as Hl.
    assert (Hl' : length (remove_key c pop) = m) by lia. rewrite Hl'.
    field. intros E. rewrite E in HW. apply (Qlt_irrefl 0). exact HW.
Qed.

(* ------------------------------------------------------------------ *)
(** * T1. the law depends on the weights only up to == *)

Notation same_pop := (fun p q : pcand * Q => fst p = fst q /\ snd p == snd q).

Lemma same_pop_sum : forall pop pop', Forall2 same_pop pop pop' ->
  qsum (map snd pop) == qsum (map snd pop').
Proof.
  intros pop pop' H. apply (qsum_map_Forall2 same_pop snd snd pop pop' H).
  intros a b [_ E]. exact E.
Qed.

Lemma same_pop_remove : forall c pop pop', Forall2 same_pop pop pop' ->
  Forall2 same_pop (remove_key c pop) (remove_key c pop').
Proof.
  intros c pop pop' H. induction H as [|p q l l' [Hk Hw] Hl IH]; cbn [remove_key]; [constructor|].
  rewrite <- Hk. destruct (Pos.eqb c (fst p)); [exact Hl|].
  constructor; [split; assumption|exact IH].
Qed.

Theorem law_pl_weights_ext : forall pop pop',
  Forall2 (fun p q : pcand * Q => fst p = fst q /\ snd p == snd q) pop pop' ->
  forall (ev : list pcand -> bool) k, prob ev (law_pl pop k) == prob ev (law_pl pop' k).
Proof.
  intros pop pop' H ev k. revert pop pop' H ev.
  induction k as [|k IH]; intros pop pop' H ev.
  - cbn [law_pl]. reflexivity.
  - rewrite !prob_pl_step.
    apply (qsum_map_Forall2 same_pop _ _ pop pop' H). intros p q [Hk Hw]. cbn beta.
    rewrite <- Hk, Hw, (same_pop_sum pop pop' H).
    rewrite (IH (remove_key (fst p) pop) (remove_key (fst p) pop')
                (same_pop_remove (fst p) pop pop' H)).
    reflexivity.
Qed.

(* ------------------------------------------------------------------ *)
(** * T2. scale invariance *)

Notation scale_pop a pop := (map (fun p : pcand * Q => (fst p, a * snd p)) pop).

Lemma scale_pop_sum : forall a (pop : list (pcand * Q)),
  qsum (map snd (scale_pop a pop)) == a * qsum (map snd pop).
Proof. intros a pop. rewrite map_map. cbn [snd]. apply qsum_map_scal. Qed.

Lemma remove_key_scale : forall a c (pop : list (pcand * Q)),
  remove_key c (scale_pop a pop) = scale_pop a (remove_key c pop).
Proof.
  intros a c pop. induction pop as [|p pop IH]; [reflexivity|].
  cbn [map remove_key fst]. destruct (Pos.eqb c (fst p)); [reflexivity|].
  cbn [map]. rewrite IH. reflexivity.
Qed.

Theorem law_pl_scale : forall a pop k (ev : list pcand -> bool), ~ a == 0 ->
  prob ev (law_pl (map (fun p : pcand * Q => (fst p, a * snd p)) pop) k) == prob ev (law_pl pop k).
Proof.
  intros a pop k ev Ha. revert pop ev. induction k as [|k IH]; intros pop ev.
  - cbn [law_pl]. reflexivity.
  - rewrite !prob_pl_step.
    etransitivity; [apply qsum_map_map|].
    apply qsum_map_ext_in. intros [c w] _. cbn [fst snd].
    rewrite remove_key_scale, IH, scale_pop_sum, (Qdiv_scale a w (qsum (map snd pop)) Ha).
    reflexivity.
Qed.

(* ------------------------------------------------------------------ *)
(** * T3. the first k entries of an n-draw are a k-draw *)

Theorem law_pl_prefix : forall k n pop (ev : list pcand -> bool),
  positive_pop pop -> (k <= n)%nat -> (n <= length pop)%nat ->
  prob (fun o => ev (firstn k o)) (law_pl pop n) == prob ev (law_pl pop k).
Proof.
  induction k as [|k IH]; intros n pop ev Hpos Hkn Hn.
  - cbn [firstn law_pl]. rewrite (prob_const (ev [])), prob_dret.
    destruct (ev []); [apply law_pl_mass; assumption|reflexivity].
  - destruct n as [|n]; [lia|]. rewrite !prob_pl_step.
    apply qsum_map_ext_in. intros [c w] Hin. cbn [fst snd].
    apply Qmult_comp; [reflexivity|]. cbn [firstn].
    pose proof (remove_key_length c pop (in_keys pop c w Hin)) as Hl.
    apply (IH n (remove_key c pop) (fun o => ev (c :: o))).
    + apply remove_key_positive. exact Hpos.
    + lia.
    + lia.
Qed.

(* ------------------------------------------------------------------ *)
(** * T4. restriction: a complete draw filtered by [sel] is a complete draw of the sub-population *)

Lemma filter_remove_key_true : forall (sel : pcand -> bool) c (pop : list (pcand * Q)),
  sel c = true ->
  filter (fun p => sel (fst p)) (remove_key c pop) = remove_key c (filter (fun p => sel (fst p)) pop).
Proof.
  intros sel c pop Hc. induction pop as [|p pop IH]; [reflexivity|].
  cbn [remove_key filter]. destruct (Pos.eqb_spec c (fst p)) as [E|Hne].
  - assert (Ep : sel (fst p) = true) by (rewrite <- E; exact Hc).
    rewrite Ep. cbn [remove_key]. apply Pos.eqb_eq in E. rewrite E. reflexivity.
  - cbn [filter]. destruct (sel (fst p)) eqn:Ep.
    + cbn [remove_key]. apply Pos.eqb_neq in Hne. rewrite Hne, IH. reflexivity.
    + exact IH.
Qed.

Lemma filter_remove_key_false : forall (sel : pcand -> bool) c (pop : list (pcand * Q)),
  sel c = false ->
  filter (fun p => sel (fst p)) (remove_key c pop) = filter (fun p => sel (fst p)) pop.
Proof.
  intros sel c pop Hc. induction pop as [|p pop IH]; [reflexivity|].
  cbn [remove_key filter]. destruct (Pos.eqb_spec c (fst p)) as [E|Hne].
  - assert (Ep : sel (fst p) = false) by (rewrite <- E; exact Hc). rewrite Ep. reflexivity.
  - cbn [filter]. rewrite IH. reflexivity.
Qed.

Lemma filter_positive : forall (f : pcand * Q -> bool) pop, positive_pop pop -> positive_pop (filter f pop).
Proof. intros f pop H c w Hin. apply filter_In in Hin. apply (H c w). apply Hin. Qed.

Lemma law_pl_restrict_aux : forall (sel : pcand -> bool) n pop (ev : list pcand -> bool),
  length pop = n -> positive_pop pop ->
  prob (fun o => ev (filter sel o)) (law_pl pop n) ==
  prob ev (law_pl (filter (fun p => sel (fst p)) pop) (length (filter (fun p => sel (fst p)) pop))).
Proof.
  intros sel. induction n as [|n IH]; intros pop ev Hlen Hpos.
  - apply length_zero_iff_nil in Hlen. subst pop. cbn [filter length law_pl].
    rewrite !prob_dret. cbn [filter]. reflexivity.
  - set (fS := fun p : pcand * Q => sel (fst p)).
    set (popS := filter fS pop).
    set (T := prob ev (law_pl popS (length popS))).
    set (W := qsum (map snd pop)).
    set (PS := fun p : pcand * Q =>
                 prob (fun o => ev (fst p :: o))
                      (law_pl (remove_key (fst p) popS) (length (remove_key (fst p) popS)))).
    assert (Hne : pop <> []) by (intros ->; discriminate Hlen).
    pose proof (positive_pop_sum pop Hpos Hne) as HW. fold W in HW.
    assert (HposS : positive_pop popS) by (apply filter_positive; exact Hpos).
    rewrite prob_pl_step.
    transitivity (qsum (map (fun p : pcand * Q => snd p / W * (if fS p then PS p else T)) pop)).
    { apply qsum_map_ext_in. intros [c w] Hin. cbn [fst snd].
      apply Qmult_comp; [reflexivity|].
      pose proof (remove_key_length c pop (in_keys pop c w Hin)) as Hl0.
      assert (Hl : length (remove_key c pop) = n) by lia.
      pose proof (remove_key_positive c pop Hpos) as Hpos'.
      unfold fS at 1. cbn [fst]. destruct (sel c) eqn:Ec.
      - rewrite (prob_ext_in _ (fun o => (fun o' => ev (c :: o')) (filter sel o))).
        + rewrite (IH (remove_key c pop) (fun o' => ev (c :: o')) Hl Hpos').
          rewrite (filter_remove_key_true sel c pop Ec). reflexivity.
        + intros o q _. cbn [filter]. rewrite Ec. reflexivity.
      - rewrite (prob_ext_in _ (fun o => ev (filter sel o))).
        + rewrite (IH (remove_key c pop) ev Hl Hpos'), (filter_remove_key_false sel c pop Ec).
          reflexivity.
        + intros o q _. cbn [filter]. rewrite Ec. reflexivity. }
    rewrite (qsum_filter_split fS _ pop). fold popS.
    assert (H1 : qsum (map (fun p : pcand * Q => snd p / W * (if fS p then PS p else T)) popS)
                 == qsum (map (fun p : pcand * Q => snd p * PS p) popS) / W).
    { rewrite <- Dist.qsum_map_div. apply qsum_map_ext_in. intros p Hp.
      unfold popS in Hp. apply filter_In in Hp. destruct Hp as [_ Hp]. rewrite Hp.
      unfold Qdiv. ring. }
    assert (H2 : qsum (map (fun p : pcand * Q => snd p / W * (if fS p then PS p else T))
                           (filter (fun a => negb (fS a)) pop))
                 == qsum (map snd (filter (fun a => negb (fS a)) pop)) * (T / W)).
    { rewrite <- qsum_map_scal_r. apply qsum_map_ext_in. intros p Hp.
      apply filter_In in Hp. destruct Hp as [_ Hp]. apply negb_true_iff in Hp. rewrite Hp.
      unfold Qdiv. ring. }
    rewrite H1, H2.
    apply (mix_arith _ (qsum (map snd popS)) _ W T).
    + exact (pl_unfold_full popS ev HposS).
    + unfold W, popS. apply (qsum_filter_split fS snd pop).
    + intros E. rewrite E in HW. apply (Qlt_irrefl 0). exact HW.
Qed.

(* duplicate keys are allowed: [remove_key] removes the first entry of the drawn candidate *)
Theorem law_pl_restrict_gen : forall (sel : pcand -> bool) pop (ev : list pcand -> bool),
  positive_pop pop ->
  prob (fun o => ev (filter sel o)) (law_pl pop (length pop)) ==
  prob ev (law_pl (filter (fun p => sel (fst p)) pop) (length (filter (fun p => sel (fst p)) pop))).
Proof. intros sel pop ev Hpos. exact (law_pl_restrict_aux sel (length pop) pop ev eq_refl Hpos). Qed.

Theorem law_pl_restrict : forall (sel : pcand -> bool) pop (ev : list pcand -> bool),
  NoDup (map fst pop) -> positive_pop pop ->
  prob (fun o => ev (filter sel o)) (law_pl pop (length pop)) ==
  prob ev (law_pl (filter (fun p => sel (fst p)) pop) (length (filter (fun p => sel (fst p)) pop))).
Proof. intros sel pop ev _ Hpos. apply law_pl_restrict_gen. exact Hpos. Qed.

(* ------------------------------------------------------------------ *)
(** * T5. proportional populations over the same candidates *)

Lemma pl_closed_scale : forall o a (w : pcand -> Q) W, ~ a == 0 ->
  pl_closed (fun c => a * w c) (a * W) o == pl_closed w W o.
Proof.
  induction o as [|c o IH]; intros a w W Ha; cbn [pl_closed]; [reflexivity|].
  rewrite (Qdiv_scale a (w c) W Ha). apply Qmult_comp; [reflexivity|].
  rewrite <- (IH a w (W - w c) Ha). apply pl_closed_ext; [intros c' _; reflexivity|ring].
Qed.

Lemma snd_as_lookup : forall pop : list (pcand * Q), NoDup (map fst pop) ->
  map snd pop = map (lookupP pop) (map fst pop).
Proof.
  intros pop Hnd. rewrite map_map. apply map_ext_in. intros [c w] Hin. cbn [fst snd].
  symmetry. apply lookupP_spec; assumption.
Qed.

(* any number of draws; only distinct keys and a non-zero factor are needed *)
Theorem law_pl_proportional_k : forall pop pop' a o k,
  NoDup (map fst pop) -> NoDup (map fst pop') ->
  (forall c, In c (map fst pop') <-> In c (map fst pop)) -> ~ a == 0 ->
  (forall c, In c (map fst pop) -> lookupP pop' c == a * lookupP pop c) ->
  prob (list_peqb o) (law_pl pop' k) == prob (list_peqb o) (law_pl pop k).
Proof.
  intros pop pop' a o k Hnd Hnd' Hkeys Ha Hw.
  pose proof (NoDup_Permutation Hnd' Hnd Hkeys) as Hperm.
  destruct (valid_sample (map fst pop) k o) eqn:Ev.
  - pose proof Ev as Ev'. apply valid_sample_iff in Ev'. destruct Ev' as (Hl & Hndo & Hincl).
    subst k.
    assert (Hincl' : incl o (map fst pop')) by (intros c Hc; apply Hkeys; apply Hincl; exact Hc).
    rewrite (law_pl_prob o pop' Hnd' Hndo Hincl'), (law_pl_prob o pop Hnd Hndo Hincl).
    rewrite <- (pl_closed_scale o a (lookupP pop) (qsum (map snd pop)) Ha).
    apply pl_closed_ext.
    + intros c Hc. apply Hw. apply Hincl. exact Hc.
    + rewrite (snd_as_lookup pop' Hnd'), (snd_as_lookup pop Hnd).
      rewrite (qsum_perm _ _ (Permutation_map (lookupP pop') Hperm)).
      rewrite <- qsum_map_scal. apply qsum_map_ext_in. intros c Hc. apply Hw. exact Hc.
  - rewrite (law_pl_prob_invalid k pop o Hnd Ev). apply law_pl_prob_invalid; [exact Hnd'|].
    destruct (valid_sample (map fst pop') k o) eqn:Ev'; [|reflexivity].
    exfalso. apply valid_sample_iff in Ev'. destruct Ev' as (Hl & Hndo & Hincl).
    assert (Hv : valid_sample (map fst pop) k o = true).
    { apply valid_sample_iff. split; [exact Hl|]. split; [exact Hndo|].
      intros c Hc. apply Hkeys. apply Hincl. exact Hc. }
    congruence.
Qed.

Lemma proportional_length : forall pop pop' : list (pcand * Q),
  NoDup (map fst pop) -> NoDup (map fst pop') ->
  (forall c, In c (map fst pop') <-> In c (map fst pop)) -> length pop' = length pop.
Proof.
  intros pop pop' Hnd Hnd' Hkeys.
  pose proof (Permutation_length (NoDup_Permutation Hnd' Hnd Hkeys)) as H.
  rewrite !map_length in H. exact H.
Qed.

Lemma Qpos_neq0 : forall a, 0 < a -> ~ a == 0.
Proof. intros a Ha E. rewrite E in Ha. apply (Qlt_irrefl 0). exact Ha. Qed.

Theorem law_pl_proportional : forall pop pop' a o,
  NoDup (map fst pop) -> NoDup (map fst pop') -> positive_pop pop -> positive_pop pop' ->
  (forall c, In c (map fst pop') <-> In c (map fst pop)) -> 0 < a ->
  (forall c, In c (map fst pop) -> lookupP pop' c == a * lookupP pop c) ->
  prob (list_peqb o) (law_pl pop' (length pop')) == prob (list_peqb o) (law_pl pop (length pop)).
Proof.
  intros pop pop' a o Hnd Hnd' _ _ Hkeys Ha Hw.
  rewrite (proportional_length pop pop' Hnd Hnd' Hkeys).
  apply (law_pl_proportional_k pop pop' a o (length pop) Hnd Hnd' Hkeys (Qpos_neq0 a Ha) Hw).
Qed.

(* ... and the same for the first k entries of the complete draws *)
Theorem law_pl_proportional_prefix : forall pop pop' a o k,
  NoDup (map fst pop) -> NoDup (map fst pop') -> positive_pop pop -> positive_pop pop' ->
  (forall c, In c (map fst pop') <-> In c (map fst pop)) -> 0 < a ->
  (forall c, In c (map fst pop) -> lookupP pop' c == a * lookupP pop c) ->
  (k <= length pop)%nat ->
  prob (fun l => list_peqb o (firstn k l)) (law_pl pop' (length pop')) ==
  prob (fun l => list_peqb o (firstn k l)) (law_pl pop (length pop)).
Proof.
  intros pop pop' a o k Hnd Hnd' Hpos Hpos' Hkeys Ha Hw Hk.
  pose proof (proportional_length pop pop' Hnd Hnd' Hkeys) as Hlen.
  rewrite (law_pl_prefix k (length pop') pop' (list_peqb o) Hpos'); [|lia|lia].
  rewrite (law_pl_prefix k (length pop) pop (list_peqb o) Hpos); [|lia|lia].
  apply (law_pl_proportional_k pop pop' a o k Hnd Hnd' Hkeys (Qpos_neq0 a Ha) Hw).
Qed.

(* ------------------------------------------------------------------ *)
(** * T6. CambridgeSampler: the slate orders cut out of the combined Plackett-Luce draw *)
(* ballot_generator.py:1330-1333 pairs the voter bloc's intervals (in dictionary order) with
   [cohesion, 1 - cohesion]; for the second bloc of the dictionary the OWN cohesion therefore
   multiplies the OPPOSING slate's interval.  By the theorem below this does not change the law of
   the order WITHIN a slate as long as the share is positive; a zero share moves the whole slate
   to the zero-support group of the combined interval (c15_combine), so that it is not drawn. *)

Section Cambridge.
Variable is : list pinterval.
Variable props : list Q.
Hypothesis Hwf : Forall wf_interval is.
Hypothesis Hlen : length is = length props.
Hypothesis Hnn : Forall (fun p => 0 <= p) props.
Hypothesis Hnd : NoDup (concat (map pi_cands is)).
Hypothesis Hr : rounds_to_one (qsum props) = true.
Variable r : pinterval.
Hypothesis Hcomb : combine_intervals is props = inl r.
Variable i : pinterval.
Variable p : Q.
Hypothesis Hip : In (i, p) (combine is props).
Hypothesis Hp : 0 < p.
Hypothesis HndI : NoDup (map fst (pi_int i)).
Variable slate : list pcand.
Hypothesis Hslate : forall c, In c (map fst (pi_int r)) ->
  (pmem c slate = true <-> In c (map fst (pi_int i))).

Let sub := filter (fun q : pcand * Q => pmem (fst q) slate) (pi_int r).

Lemma cam_facts :
  positive_pop (pi_int r) /\ NoDup (map fst sub) /\ positive_pop sub /\ positive_pop (pi_int i) /\
  (forall c, In c (map fst sub) <-> In c (map fst (pi_int i))) /\
  0 < p / qsum props /\
  (forall c, In c (map fst (pi_int i)) -> lookupP sub c == (p / qsum props) * lookupP (pi_int i) c).
Proof.
  destruct (combine_ok is props Hwf Hlen Hnn Hnd Hr)
    as (r' & Hr' & H1 & _ & _ & _ & _ & Hwfr & HndR & _).
  rewrite Hcomb in Hr'. injection Hr' as <-.
  assert (Hq : 0 < qsum props) by (apply rounds_to_one_iff in Hr; lra).
  assert (Hwfi : wf_interval i).
  { rewrite Forall_forall in Hwf. apply Hwf. eapply in_combine_l. exact Hip. }
  assert (HposR : positive_pop (pi_int r)) by (intros c w Hin; apply (proj1 Hwfr c w Hin)).
  assert (HndS : NoDup (map fst sub)) by (apply map_fst_filter_NoDup; exact HndR).
  assert (Hup : forall c v, In (c, v) (pi_int i) ->
                  exists w, In (c, w) sub /\ w == p * v / qsum props).
  { intros c v Hcv. destruct (H1 i p c v Hip Hcv Hp) as (w & Hw & Ew).
    exists w. split; [|exact Ew]. unfold sub. apply filter_In. split; [exact Hw|]. cbn [fst].
    apply (Hslate c (in_keys _ c w Hw)). exact (in_keys _ c v Hcv). }
  split; [exact HposR|]. split; [exact HndS|].
  split; [apply filter_positive; exact HposR|].
  split; [intros c w Hin; apply (proj1 Hwfi c w Hin)|].
  split; [|split].
  - intros c. split.
    + intros Hc. apply in_map_iff in Hc. destruct Hc as ([c' w] & E & Hin). cbn [fst] in E. subst c'.
      unfold sub in Hin. apply filter_In in Hin. destruct Hin as [Hin Hs]. cbn [fst] in Hs.
      apply (Hslate c (in_keys _ c w Hin)). exact Hs.
    + intros Hc. apply in_map_iff in Hc. destruct Hc as ([c' v] & E & Hin). cbn [fst] in E. subst c'.
      destruct (Hup c v Hin) as (w & Hw & _). exact (in_keys _ c w Hw).
  - apply Qlt_shift_div_l; [exact Hq|]. lra.
  - intros c Hc. apply lookupP_in in Hc.
    destruct (Hup c _ Hc) as (w & Hw & Ew).
    rewrite (lookupP_spec sub c w HndS Hw), Ew. field. apply Qpos_neq0. exact Hq.
Qed.

(* the whole filtered order *)
Theorem cambridge_slate_order_pl : forall o : list pcand,
  prob (fun d => list_peqb o (filter (fun c => pmem c slate) d))
       (law_pl (pi_int r) (length (pi_int r)))
  == prob (list_peqb o) (law_pl (pi_int i) (length (pi_int i))).
Proof.
  intros o. destruct cam_facts as (HposR & HndS & HposS & HposI & Hkeys & Ha & Hw).
  rewrite (law_pl_restrict_gen (fun c => pmem c slate) (pi_int r) (list_peqb o) HposR).
  fold sub.
  exact (law_pl_proportional (pi_int i) sub (p / qsum props) o HndI HndS HposI HposS Hkeys Ha Hw).
Qed.

(* the first k entries of the filtered order: what cam_fill places when k own slots are consumed *)
Theorem cambridge_slate_prefix_pl : forall (o : list pcand) k, (k <= length (pi_int i))%nat ->
  prob (fun d => list_peqb o (firstn k (filter (fun c => pmem c slate) d)))
       (law_pl (pi_int r) (length (pi_int r)))
  == prob (list_peqb o) (law_pl (pi_int i) k).
Proof.
  intros o k Hk. destruct cam_facts as (HposR & HndS & HposS & HposI & Hkeys & Ha & Hw).
  rewrite (law_pl_restrict_gen (fun c => pmem c slate) (pi_int r)
             (fun l => list_peqb o (firstn k l)) HposR).
  fold sub.
  rewrite (law_pl_proportional_prefix (pi_int i) sub (p / qsum props) o k
             HndI HndS HposI HposS Hkeys Ha Hw Hk).
  apply (law_pl_prefix k (length (pi_int i)) (pi_int i) (list_peqb o) HposI); lia.
Qed.

End Cambridge.
