(* Proofs/C03_trace.v — C03 over the whole trace of an STV count: the total weight in play never
   increases from any round to any later one, and each round's loss is exactly the elected quotas
   plus the exhausted ballots ([round_accounting], Spec/STVRunSpec.v).  The integrality of the
   threshold and the admissibility of the script that the random transfer needs are discharged
   from the run invariant (Proofs/C02_run.v: run_trace_inv), not left to the caller. *)
From Coq Require Import List ZArith QArith Bool Permutation Lia Lqa.
From VK Require Import Base Core STV Rules EditSpec.
From VK.Spec Require Import STVSpec ReplaySpec STVRunSpec.
From VK.Proofs Require Import Lib_sets C09_replay STV_lib STV_step STV_round STV_weights STV_inv
  STV_cases STV_final C03_random C02_run.
Import ListNotations.

Section Trace.
Variable cand : Type.
Variable ceqb : cand -> cand -> bool.
Hypothesis ceqb_spec : forall a b, reflect (a = b) (ceqb a b).

Notation profile := (profile cand).
Notation estate := (estate cand).
Notation mstate := (mstate cand).
Notation flat := (flat cand).
Notation total_wt := (total_wt cand).
Notation tally := (tally cand ceqb).
Notation wf_stv0 := (wf_stv0 cand).
Notation step_ctx := (step_ctx cand ceqb).
Notation script_ok := (script_ok cand).
Notation stv_trace := (stv_trace cand ceqb).
Notation stv_inv := (stv_inv cand ceqb).
Notation stv_init := (stv_init cand).
Notation stv_step := (stv_step cand ceqb).
Notation run_stv := (run_stv cand ceqb).
Notation count_elected := (count_elected cand).
Notation round_accounting := (round_accounting cand ceqb).
Notation exhausted := (exhausted cand ceqb).

(* ---------- one round, all transfer rules ---------- *)

Lemma wt_where_all : forall (q : ballot cand -> bool) bs, (forall b, In b bs -> q b = true) ->
  wt_where cand q bs == total_wt bs.
Proof.
  intros q bs H. unfold EditSpec.wt_where, Core.total_wt.
  rewrite (Lib_sets.filter_all_true q bs H). reflexivity.
Qed.

Theorem step_accounting : forall cfg t (p0 p : profile) prev n (s s' : mstate) np st,
  step_ctx p0 p prev ->
  stv_step cfg t p0 n p prev s = inl ((np, st), s') ->
  (s_transfer cfg = TRandom -> script_ok s /\ is_integral t = true) ->
  round_accounting cfg t n p np st s s'.
Proof.
  intros cfg t p0 p prev n s s' np st Hctx Hstep Hrand.
  assert (Hscr : s_transfer cfg = TRandom -> script_ok s) by (intros E; apply (Hrand E)).
  destruct (stv_step_ok_inv cand ceqb ceqb_spec cfg t p0 p prev Hctx n s s' np st Hscr Hstep)
    as [[Hsome _]|[(Hnone & Hcnt & _)|(Hnone & Hcnt & _)]].
  - left. assert (Hsome' : exists c, reaches cand ceqb t p c) by exact Hsome.
    split; [exact Hsome'|]. split.
    + intros Hk.
      exact (round_accounting_elect cand ceqb ceqb_spec cfg t p0 p prev n s s' np st Hctx Hstep Hk Hsome').
    + intros Hk. destruct (Hrand Hk) as [Hs Hint].
      exact (round_accounting_random cand ceqb ceqb_spec cfg t p0 p prev n s s' np st Hctx Hstep
               Hk Hs Hint Hsome').
  - right. left. split; [exact Hnone|]. split; [exact Hcnt|].
    destruct (round_accounting_default cand ceqb ceqb_spec cfg t p0 p prev n s s' np st Hctx Hstep
                Hscr Hnone Hcnt) as [Hb Hex].
    split; [exact Hb|]. split; [exact Hex|].
    rewrite Hb, (wt_where_all _ _ Hex). unfold Core.total_wt at 2. cbn [map]. rewrite Lib_sets.qsum_nil. ring.
  - right. right. split; [exact Hnone|]. split; [exact Hcnt|].
    exact (round_accounting_elim cand ceqb ceqb_spec cfg t p0 p prev n s s' np st Hctx Hstep
             Hscr Hnone Hcnt).
Qed.

(* ---------- the whole trace ---------- *)

Theorem run_conservation : forall cfg (p : profile) (s s' : mstate) sts,
  wf_stv0 p -> (s_transfer cfg = TRandom -> script_ok s) ->
  run_stv cfg p s = inl (sts, s') ->
  exists t ps ss,
    stv_init cfg p = inl t /\ stv_trace cfg t p sts ps ss /\
    nth_error ps 0 = Some p /\ nth_error ss 0 = Some s /\ last ss s = s' /\
    0 <= t /\ is_integral t = true /\
    (* never increases, between any two rounds *)
    (forall i j pi pj, (i <= j)%nat -> nth_error ps i = Some pi -> nth_error ps j = Some pj ->
       total_wt (ballots pj) <= total_wt (ballots pi)) /\
    (* what disappears in each round *)
    (forall r pr pr' st' sa sb,
       nth_error ps r = Some pr -> nth_error ps (S r) = Some pr' ->
       nth_error sts (S r) = Some st' ->
       nth_error ss r = Some sa -> nth_error ss (S r) = Some sb ->
       round_accounting cfg t (count_elected (firstn (S r) sts)) pr pr' st' sa sb) /\
    (* fractional and random transfer: every candidate elected so far has kept a full threshold
       of the initial weight (unless a default election has emptied the profile) *)
    (s_transfer cfg <> TFullWeight ->
     forall r pr, nth_error ps r = Some pr ->
       (cands pr = [] /\ ballots pr = []) \/
       total_wt (ballots pr) + t * inject_Z (count_elected (firstn (S r) sts))
         <= total_wt (ballots p)).
Proof.
  intros cfg p s s' sts Hwf Hscr H.
  destruct (run_trace_inv cand ceqb ceqb_spec cfg p s s' sts Hwf Hscr H)
    as [t [ps [ss [s0 [Ht [Htr [Hp0 [Hs0 [Hlast [H0 [Hst0 Hall]]]]]]]]]]].
  exists t, ps, ss. split; [exact Ht|]. split; [exact Htr|]. split; [exact Hp0|].
  split; [exact Hs0|]. split; [exact Hlast|].
  pose proof Htr as [Hlp [Hls [Hso Hstep]]].
  destruct (Hall 0%nat p s0 s Hp0 Hst0 Hs0) as [Hinv0 _].
  pose proof (inv_t_nonneg _ _ _ _ _ _ _ _ Hinv0) as Ht0.
  pose proof (inv_t_int _ _ _ _ _ _ _ _ Hinv0) as Htint.
  split; [exact Ht0|]. split; [exact Htint|].
  (* one round *)
  assert (Hround : forall r pr pr' st' sa sb,
            nth_error ps r = Some pr -> nth_error ps (S r) = Some pr' ->
            nth_error sts (S r) = Some st' ->
            nth_error ss r = Some sa -> nth_error ss (S r) = Some sb ->
            round_accounting cfg t (count_elected (firstn (S r) sts)) pr pr' st' sa sb /\
            total_wt (ballots pr') <= total_wt (ballots pr)).
  { intros r pr pr' st' sa sb Hp Hp' Hr' Hsa Hsb.
    pose proof (nth_error_lt _ _ _ Hp) as Hlt.
    destruct (nth_error_ex sts r ltac:(lia)) as [st Hr].
    destruct (Hall r pr st sa Hp Hr Hsa) as [_ [Hctx Hscra]].
    pose proof (Hstep r pr st sa pr' st' sb Hp Hr Hsa Hp' Hr' Hsb) as Hs.
    assert (Hrand : s_transfer cfg = TRandom -> script_ok sa /\ is_integral t = true).
    { intros E. split; [apply Hscra; exact E|exact Htint]. }
    split.
    - exact (step_accounting cfg t p pr st _ sa sb pr' st' Hctx Hs Hrand).
    - exact (round_monotone cand ceqb ceqb_spec cfg t p pr st _ sa sb pr' st' Hctx Hs Ht0 Hrand). }
  split; [|split].
  - intros i j pi pj Hij Hi Hj. replace j with (i + (j - i))%nat in Hj by lia.
    generalize dependent pj. generalize (j - i)%nat as d. clear Hij j.
    induction d as [|d IH]; intros pj Hj.
    + rewrite Nat.add_0_r in Hj. rewrite Hi in Hj. injection Hj as <-. apply Qle_refl.
    + replace (i + S d)%nat with (S (i + d)) in Hj by lia.
      pose proof (nth_error_lt _ _ _ Hj) as Hlt.
      destruct (nth_error_ex ps (i + d) ltac:(lia)) as [pm Hm].
      destruct (nth_error_ex sts (S (i + d)) ltac:(lia)) as [st' Hr'].
      destruct (nth_error_ex ss (i + d) ltac:(lia)) as [sa Hsa].
      destruct (nth_error_ex ss (S (i + d)) ltac:(lia)) as [sb Hsb].
      eapply Qle_trans; [|apply (IH pm Hm)].
      exact (proj2 (Hround (i + d)%nat pm pj st' sa sb Hm Hj Hr' Hsa Hsb)).
  - intros r pr pr' st' sa sb Hp Hp' Hr' Hsa Hsb.
    exact (proj1 (Hround r pr pr' st' sa sb Hp Hp' Hr' Hsa Hsb)).
  - intros Hk r pr Hp. pose proof (nth_error_lt _ _ _ Hp) as Hlt.
    destruct (nth_error_ex sts r ltac:(lia)) as [st Hr].
    destruct (nth_error_ex ss r ltac:(lia)) as [sa Hsa].
    destruct (Hall r pr st sa Hp Hr Hsa) as [Hinv _].
    pose proof (inv_weight _ _ _ _ _ _ _ _ Hinv Hk) as Hw.
    rewrite (STV_inv.count_elected_rev cand) in Hw. exact Hw.
Qed.

End Trace.
