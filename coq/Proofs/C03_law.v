(* Proofs/C03_law.v — C03, the random (Cambridge) transfer: completeness of the model's sample test
   and the LAW of the sample.
   (a) [valid_ballot_sample] accepts EVERY sub-multiset of the unit ballots (when no transferable
       ballot has a negative weight), hence every selection of k distinct unit ballots, hence every
       outcome of the law; [rand_transfer] then succeeds on it.  This complements the soundness
       theorem [valid_sample_spec] of Proofs/C03_transfer.v.
   (b) the law [usample n k] of the positions chosen by random.sample (first k entries of a uniform
       permutation, Spec/SampleSpec.v): total mass 1, every outcome is a duplicate-free list of k
       positions, every such list has positive probability, every unit is selected with probability
       k/n, and E[sum of g over the selected units] = (k/n) * sum of g over all units; therefore the
       expected number of sampled ballots with a given continuation r is units(r) * k/n and the
       expected weight of r in the output of [rand_transfer] is proportional. *)
From VK Require Import Base Core STV Laws EditSpec STVSpec.
From VK.Spec Require Import LawSpec SampleSpec.
From VK.Proofs Require Import Lib_sets Lib_rk Dist C06_pairwise C12_expand C17_laws C03_transfer.
From Coq Require Import Permutation Lia Lqa Setoid Morphisms.

(* ====================== positions: the law of random.sample ====================== *)

Section Positions.

Local Lemma memb_nat_In : forall i l, memb nat Nat.eqb i l = true <-> In i l.
Proof. exact (memb_In nat Nat.eqb Nat.eqb_spec). Qed.

Lemma selected_In : forall i idxs, selected i idxs = true <-> In i idxs.
Proof. intros i idxs. unfold selected. apply memb_nat_In. Qed.

Lemma selected_false : forall i idxs, ~ In i idxs -> selected i idxs = false.
Proof.
  intros i idxs H. destruct (selected i idxs) eqn:E; [|reflexivity].
  apply selected_In in E. contradiction.
Qed.

Lemma idxs_eqb_spec : forall a b, reflect (a = b) (idxs_eqb a b).
Proof. exact (C17_laws.list_eqb_spec nat Nat.eqb Nat.eqb_spec). Qed.

Lemma uperm_weight_pos : forall (A : Type) (s : list A) o w, In (o, w) (uperm A s) -> 0 < w.
Proof.
  intros A s o w H. unfold Laws.uperm, uniform_of in H. apply in_map_iff in H.
  destruct H as (x & E & Hx). injection E as _ <-.
  assert (Hp : 0 < Qnat (length (perms A s))).
  { apply Qnat_pos. destruct (perms A s); [destruct Hx|cbn [length]; lia]. }
  unfold Qdiv. rewrite Qmult_1_l. apply Qinv_lt_0_compat. exact Hp.
Qed.

Theorem usample_mass : forall n k, mass (usample n k) == 1.
Proof.
  intros n k. unfold usample. rewrite mass_dbind_one; [apply (uperm_mass nat)|].
  intros o w _. apply mass_dret.
Qed.

Lemma usample_nonneg : forall n k, nonneg_dist (usample n k).
Proof.
  intros n k. unfold usample. apply nonneg_dbind; [apply (uperm_nonneg nat)|].
  intros o w _ a q Hin. destruct Hin as [E|[]]. injection E as _ <-. lra.
Qed.

(* every outcome is the prefix of a permutation of 0..n-1, with positive weight *)
Lemma usample_support_perm : forall n k l w, In (l, w) (usample n k) ->
  exists o, Permutation o (seq 0 n) /\ l = firstn k o /\ 0 < w.
Proof.
  intros n k l w H. unfold usample in H. apply dbind_support in H.
  destruct H as (o & wo & q' & Ho & Hl & ->). destruct Hl as [E|[]]. injection E as <- <-.
  exists o. split; [apply (uperm_support nat _ _ _ Ho)|]. split; [reflexivity|].
  pose proof (uperm_weight_pos nat _ _ _ Ho). lra.
Qed.

Lemma NoDup_firstn : forall (A : Type) k (l : list A), NoDup l -> NoDup (firstn k l).
Proof.
  intros A k l H. revert k. induction H as [|x l Hx _ IH]; intros k.
  - rewrite firstn_nil. constructor.
  - destruct k as [|k]; cbn [firstn]; constructor; [|apply IH].
    intros Hin. apply Hx. rewrite <- (firstn_skipn k l). apply in_or_app. left. exact Hin.
Qed.

Lemma In_firstn : forall (A : Type) k (l : list A) x, In x (firstn k l) -> In x l.
Proof.
  intros A k l x H. rewrite <- (firstn_skipn k l). apply in_or_app. left. exact H.
Qed.

Theorem usample_support : forall n k l w, In (l, w) (usample n k) ->
  NoDup l /\ length l = Nat.min k n /\ (forall i, In i l -> (i < n)%nat) /\ 0 < w.
Proof.
  intros n k l w H. destruct (usample_support_perm n k l w H) as (o & Ho & -> & Hw).
  assert (Hnd : NoDup o).
  { eapply Permutation_NoDup; [apply Permutation_sym; exact Ho|apply seq_NoDup]. }
  split; [apply NoDup_firstn; exact Hnd|]. split.
  - rewrite firstn_length, (Permutation_length Ho), seq_length. reflexivity.
  - split; [|exact Hw]. intros i Hi. apply In_firstn in Hi.
    apply (Permutation_in _ Ho), in_seq in Hi. lia.
Qed.

(* every unit is selected with probability k/n *)
Theorem usample_unit : forall n k i, (i < n)%nat -> (k <= n)%nat ->
  prob (selected i) (usample n k) == Qnat k / Qnat n.
Proof.
  intros n k i Hi Hk. unfold usample. rewrite prob_dbind_dret.
  change (fun a : list nat => selected i (firstn k a)) with (among_first nat Nat.eqb k i).
  rewrite (uperm_seat nat Nat.eqb Nat.eqb_spec (seq 0 n) i k).
  - rewrite seq_length. reflexivity.
  - apply seq_NoDup.
  - apply in_seq. lia.
  - rewrite seq_length. exact Hk.
Qed.

(* a position outside the population is never selected *)
Theorem usample_unit_out : forall n k i, (n <= i)%nat -> prob (selected i) (usample n k) == 0.
Proof.
  intros n k i Hi. rewrite <- (prob_false (usample n k)). apply prob_ext_in.
  intros l w Hl. destruct (usample_support n k l w Hl) as (_ & _ & Hr & _).
  apply selected_false. intros Hin. apply Hr in Hin. lia.
Qed.

(* a duplicate-free list of positions can be completed into a permutation of 0..n-1 *)
Lemma complete_to_perm : forall n idxs, NoDup idxs -> (forall i, In i idxs -> (i < n)%nat) ->
  exists rest, Permutation (idxs ++ rest) (seq 0 n).
Proof.
  intros n idxs Hnd. induction Hnd as [|j tl Hj _ IH]; intros Hr.
  - exists (seq 0 n). apply Permutation_refl.
  - destruct IH as [R HR]; [intros i Hi; apply Hr; right; exact Hi|].
    assert (HjR : In j R).
    { assert (Hjs : In j (seq 0 n)) by (apply in_seq; specialize (Hr j (or_introl eq_refl)); lia).
      apply (Permutation_in _ (Permutation_sym HR)) in Hjs. apply in_app_or in Hjs.
      destruct Hjs as [Hjs|Hjs]; [contradiction|exact Hjs]. }
    apply in_split in HjR. destruct HjR as (R1 & R2 & ->). exists (R1 ++ R2).
    eapply Permutation_trans; [|exact HR]. cbn [app].
    rewrite !app_assoc. apply Permutation_middle.
Qed.

(* every ordered selection of distinct units has positive probability *)
Theorem usample_every_selection : forall n idxs, NoDup idxs -> (forall i, In i idxs -> (i < n)%nat) ->
  0 < prob (idxs_eqb idxs) (usample n (length idxs)).
Proof.
  intros n idxs Hnd Hr. destruct (complete_to_perm n idxs Hnd Hr) as [R HR].
  unfold usample. rewrite prob_dbind_dret.
  apply (prob_pos_intro _ (uperm nat (seq 0 n)) (idxs ++ R) (1 / Qnat (length (perms nat (seq 0 n))))).
  - apply (uperm_nonneg nat).
  - unfold Laws.uperm, uniform_of. apply in_map_iff. exists (idxs ++ R). split; [reflexivity|].
    apply (perms_spec nat). exact HR.
  - rewrite firstn_app, firstn_all, Nat.sub_diag. cbn [firstn]. rewrite app_nil_r.
    destruct (idxs_eqb_spec idxs idxs) as [_|H]; [reflexivity|contradiction].
  - unfold Qdiv. rewrite Qmult_1_l. apply Qinv_lt_0_compat. apply Qnat_pos.
    rewrite (perms_length nat). apply fact_pos.
Qed.

(* the permutations of 0..n-1 that start with a given selection: one per arrangement of the rest *)
Lemma perms_with_prefix : forall n idxs R, NoDup idxs -> Permutation (idxs ++ R) (seq 0 n) ->
  Permutation (filter (fun o => idxs_eqb idxs (firstn (length idxs) o)) (perms nat (seq 0 n)))
              (map (app idxs) (perms nat R)).
Proof.
  intros n idxs R Hnd HR.
  assert (HndAll : NoDup (idxs ++ R)).
  { eapply Permutation_NoDup; [apply Permutation_sym; exact HR|apply seq_NoDup]. }
  destruct (C12_expand.NoDup_app_inv nat idxs R HndAll) as [_ HndR].
  apply NoDup_Permutation.
  - apply NoDup_filter. apply (perms_NoDup nat). apply seq_NoDup.
  - apply C06_pairwise.map_inj_NoDup; [intros a b E; apply app_inv_head in E; exact E|].
    apply (perms_NoDup nat). exact HndR.
  - intros o. rewrite filter_In, in_map_iff. split.
    + intros [Ho Hev]. apply (perms_spec nat) in Ho.
      destruct (idxs_eqb_spec idxs (firstn (length idxs) o)) as [E|]; [|discriminate].
      exists (skipn (length idxs) o). split.
      * rewrite E at 1. apply firstn_skipn.
      * apply (perms_spec nat). apply (Permutation_app_inv_l idxs).
        rewrite E at 1. rewrite firstn_skipn.
        eapply Permutation_trans; [exact Ho|apply Permutation_sym; exact HR].
    + intros (r' & <- & Hr'). apply (perms_spec nat) in Hr'. split.
      * apply (perms_spec nat). eapply Permutation_trans; [|exact HR].
        apply Permutation_app_head. exact Hr'.
      * rewrite firstn_app, firstn_all, Nat.sub_diag. cbn [firstn]. rewrite app_nil_r.
        destruct (idxs_eqb_spec idxs idxs) as [_|H]; [reflexivity|contradiction].
Qed.

(* every ordered selection of k distinct units has the same probability (n-k)!/n! *)
Theorem usample_selection_prob : forall n idxs, NoDup idxs -> (forall i, In i idxs -> (i < n)%nat) ->
  prob (idxs_eqb idxs) (usample n (length idxs)) ==
  Qnat (fact (n - length idxs)) / Qnat (fact n).
Proof.
  intros n idxs Hnd Hr. destruct (complete_to_perm n idxs Hnd Hr) as [R HR].
  unfold usample. rewrite prob_dbind_dret. unfold Laws.uperm. rewrite prob_uniform_of.
  rewrite (Permutation_length (perms_with_prefix n idxs R Hnd HR)), map_length.
  rewrite !(perms_length nat), seq_length.
  assert (E : length R = (n - length idxs)%nat).
  { pose proof (Permutation_length HR) as H. rewrite app_length, seq_length in H. lia. }
  rewrite E. reflexivity.
Qed.

(* ---------- expectations ---------- *)

Lemma expect_ext_in : forall {A} (f g : A -> Q) (d : dist A),
  (forall a w, In (a, w) d -> f a == g a) -> expect f d == expect g d.
Proof.
  intros A f g d H. unfold expect. apply qsum_map_ext_in. intros [a w] Haw. cbn [fst snd].
  rewrite (H a w Haw). reflexivity.
Qed.

Lemma expect_dbind_dret : forall {A B} (f : B -> Q) (d : dist A) (g : A -> B),
  expect f (dbind d (fun a => dret (g a))) == expect (fun a => f (g a)) d.
Proof.
  intros A B f d g. unfold expect. induction d as [|aw d IH]; [reflexivity|].
  rewrite dbind_cons. unfold dret, dscale. cbn [map app fst snd]. rewrite !qsum_cons, IH. ring.
Qed.

Lemma expect_plus_const : forall {A} (f : A -> Q) (c : Q) (d : dist A),
  expect (fun a => f a + c) d == expect f d + c * mass d.
Proof.
  intros A f c d. unfold expect, mass. induction d as [|aw d IH].
  - cbn [map]. rewrite !qsum_nil. ring.
  - cbn [map]. rewrite !qsum_cons, IH. ring.
Qed.

Lemma expect_scal : forall {A} (f : A -> Q) (c : Q) (d : dist A),
  expect (fun a => c * f a) d == c * expect f d.
Proof.
  intros A f c d. unfold expect. rewrite <- qsum_map_scal. apply qsum_map_ext_in.
  intros aw _. ring.
Qed.

(* expectation of an indicator-weighted sum = sum of probabilities *)
Lemma expect_sum_indicators : forall {A J} (evs : J -> A -> bool) (g : J -> Q) (js : list J) (d : dist A),
  expect (fun a => qsum (map (fun j => if evs j a then g j else 0) js)) d ==
  qsum (map (fun j => g j * prob (evs j) d) js).
Proof.
  intros A J evs g js d. unfold expect.
  transitivity (qsum (map (fun aw : A * Q =>
                  qsum (map (fun j => if evs j (fst aw) then g j * snd aw else 0) js)) d)).
  - apply qsum_map_ext_in. intros [a w] _. cbn [fst snd]. rewrite <- qsum_map_scal.
    apply qsum_map_ext_in. intros j _. destruct (evs j a); ring.
  - rewrite qsum_swap. apply qsum_map_ext_in. intros j _. rewrite prob_as_sum, <- qsum_map_scal.
    apply qsum_map_ext_in. intros [a w] _. cbn [fst snd]. destruct (evs j a); ring.
Qed.

(* summing g over a duplicate-free sub-list = summing the selected entries of the whole list *)
Lemma sum_selected : forall (g : nat -> Q) idxs s, NoDup idxs -> NoDup s -> incl idxs s ->
  qsum (map (fun i => if selected i idxs then g i else 0) s) == qsum (map g idxs).
Proof.
  intros g idxs s Hnd Hs. induction Hnd as [|j tl Hj _ IH]; intros Hincl.
  - cbn [map]. rewrite qsum_nil. apply qsum_map_zero. intros i _. reflexivity.
  - cbn [map]. rewrite qsum_cons, <- IH by (intros i Hi; apply Hincl; right; exact Hi).
    transitivity (qsum (map (fun i => (if Nat.eqb i j then g j else 0) +
                                      (if selected i tl then g i else 0)) s)).
    + apply qsum_map_ext_in. intros i _. unfold selected at 1. cbn [Core.memb existsb].
      fold (memb nat Nat.eqb i tl). fold (selected i tl).
      destruct (Nat.eqb_spec i j) as [->|_]; cbn [orb].
      * rewrite (selected_false j tl Hj). ring.
      * ring.
    + rewrite qsum_map_plus, (qsum_indicator Nat.eqb Nat.eqb_spec j (g j) s Hs).
      assert (Hex : existsb (fun c => Nat.eqb c j) s = true).
      { apply existsb_exists. exists j. split; [apply Hincl; left; reflexivity|apply Nat.eqb_refl]. }
      rewrite Hex. reflexivity.
Qed.

(* E[ sum of g over the selected units ] = (k/n) * sum of g over all units *)
Theorem usample_expect_sum : forall n k (g : nat -> Q), (k <= n)%nat ->
  expect (fun idxs => qsum (map g idxs)) (usample n k) ==
  (Qnat k / Qnat n) * qsum (map g (seq 0 n)).
Proof.
  intros n k g Hk.
  rewrite (expect_ext_in _ (fun idxs => qsum (map (fun i => if selected i idxs then g i else 0) (seq 0 n)))).
  - rewrite (expect_sum_indicators (fun i idxs => selected i idxs) g (seq 0 n) (usample n k)).
    rewrite <- qsum_map_scal. apply qsum_map_ext_in. intros i Hi. apply in_seq in Hi.
    rewrite (usample_unit n k i) by lia. ring.
  - intros idxs w Hin. destruct (usample_support n k idxs w Hin) as (Hnd & _ & Hr & _).
    symmetry. apply sum_selected; [exact Hnd|apply seq_NoDup|].
    intros i Hi. apply in_seq. specialize (Hr i Hi). lia.
Qed.

(* ---------- picking the elements at the chosen positions ---------- *)

Lemma map_nth_seq : forall {A} (d : A) (us : list A),
  map (fun i => nth i us d) (seq 0 (length us)) = us.
Proof.
  intros A d us. induction us as [|u us IH]; [reflexivity|].
  cbn [length seq map nth]. rewrite <- seq_shift, map_map. cbn [nth]. rewrite IH. reflexivity.
Qed.

Lemma pick_length : forall {A} (d : A) us idxs, length (pick d us idxs) = length idxs.
Proof. intros A d us idxs. unfold pick. apply map_length. Qed.

(* a selection of distinct units is a sub-multiset of the units *)
Lemma pick_submultiset : forall {A} (d : A) (us : list A) idxs,
  NoDup idxs -> (forall i, In i idxs -> (i < length us)%nat) ->
  exists rest, Permutation (pick d us idxs ++ rest) us.
Proof.
  intros A d us idxs Hnd Hr. destruct (complete_to_perm (length us) idxs Hnd Hr) as [R HR].
  exists (pick d us R). unfold pick. rewrite <- map_app.
  eapply Permutation_trans; [apply Permutation_map; exact HR|].
  rewrite map_nth_seq. apply Permutation_refl.
Qed.

End Positions.

(* ====================== ballots ====================== *)

Section WithCand.
Variable cand : Type.
Variable ceqb : cand -> cand -> bool.
Hypothesis ceqb_spec : forall a b, reflect (a = b) (ceqb a b).

Notation cset := (cset cand).
Notation ranking := (ranking cand).
Notation ballot := (ballot cand).
Notation mstate := (mstate cand).
Notation ranking_eqb := (ranking_eqb cand ceqb).
Notation strip := (strip cand ceqb).
Notation first_is := (first_is cand ceqb).
Notation pos_wt := (pos_wt cand).
Notation wt_where := (wt_where cand).
Notation wtof_rk := (wtof_rk cand ceqb).
Notation maps_to := (maps_to cand ceqb).
Notation rand_transfer := (rand_transfer cand ceqb).
Notation count_rk := (count_rk cand ceqb).
Notation units_of := (units_of cand ceqb).
Notation valid_ballot_sample := (valid_ballot_sample cand ceqb).
Notation units := (units cand).
Notation law_sample_ballots := (law_sample_ballots cand).
Notation transferable := (transferable cand ceqb).
Notation rt_pop := (rt_pop cand ceqb).
Notation rt_avail := (rt_avail cand ceqb).
Notation rt_out := (rt_out cand ceqb).

Definition nonneg_pop (pop : list (ranking * Q)) : Prop := Forall (fun p => 0 <= snd p) pop.

(* ---------- counting ---------- *)

Lemma count_rk_app : forall r l1 l2, count_rk r (l1 ++ l2) = (count_rk r l1 + count_rk r l2)%Z.
Proof.
  intros r l1 l2. induction l1 as [|x l1 IH]; cbn [app STV.count_rk]; [reflexivity|].
  rewrite IH. ring.
Qed.

Lemma count_rk_perm : forall r l l', Permutation l l' -> count_rk r l = count_rk r l'.
Proof.
  intros r l l' H. induction H as [|x l l' _ IH|x y l|l l' l'' _ IH1 _ IH2]; cbn [STV.count_rk].
  - reflexivity.
  - rewrite IH. reflexivity.
  - ring.
  - rewrite IH1. exact IH2.
Qed.

Lemma count_rk_repeat : forall r x m,
  count_rk r (repeat x m) = if ranking_eqb r x then Z.of_nat m else 0%Z.
Proof.
  intros r x m. induction m as [|m IH]; cbn [repeat STV.count_rk].
  - destruct (ranking_eqb r x); reflexivity.
  - rewrite IH. destruct (ranking_eqb r x); lia.
Qed.

Lemma Qtrunc_nonneg : forall q, 0 <= q -> (0 <= Qtrunc q)%Z.
Proof.
  intros [a b] H. unfold Qle in H. cbn [Qnum Qden] in H. unfold Qtrunc. cbn [Qnum Qden].
  apply Z.quot_pos; lia.
Qed.

(* the unit ballots with continuation r are exactly the units the model counts for r *)
Lemma count_rk_units : forall r pop, nonneg_pop pop -> count_rk r (units pop) = units_of r pop.
Proof.
  intros r pop H. unfold SampleSpec.units, STV.units_of.
  induction H as [|p pop Hp _ IH]; cbn [map concat fold_right]; [reflexivity|].
  rewrite count_rk_app, count_rk_repeat, IH.
  pose proof (Qtrunc_nonneg _ Hp). destruct (ranking_eqb r (fst p)); [rewrite Z2Nat.id by lia|]; reflexivity.
Qed.

(* without the sign hypothesis the units are at least what the model counts *)
Lemma units_of_le_count : forall r pop, (units_of r pop <= count_rk r (units pop))%Z.
Proof.
  intros r pop. unfold SampleSpec.units, STV.units_of.
  induction pop as [|p pop IH]; cbn [map concat fold_right STV.count_rk]; [lia|].
  rewrite count_rk_app, count_rk_repeat. destruct (ranking_eqb r (fst p)); lia.
Qed.

Lemma units_length : forall pop, nonneg_pop pop ->
  Z.of_nat (length (units pop)) = fold_right Z.add 0%Z (map (fun p => Qtrunc (snd p)) pop).
Proof.
  intros pop H. unfold SampleSpec.units.
  induction H as [|p pop Hp _ IH]; cbn [map concat fold_right length]; [reflexivity|].
  rewrite app_length, repeat_length, Nat2Z.inj_add, IH.
  pose proof (Qtrunc_nonneg _ Hp). rewrite Z2Nat.id by lia. reflexivity.
Qed.

Lemma count_rk_as_qsum : forall r l,
  inject_Z (count_rk r l) == qsum (map (fun x => if ranking_eqb r x then 1 else 0) l).
Proof.
  intros r l. induction l as [|x l IH]; cbn [map STV.count_rk]; [reflexivity|].
  rewrite qsum_cons, inject_Z_plus, IH. destruct (ranking_eqb r x); reflexivity.
Qed.

(* ====================== (a) completeness of the sample test ====================== *)

(* every sub-multiset of the unit ballots is accepted *)
Theorem sample_complete : forall pop (l rest : list ranking),
  nonneg_pop pop -> Permutation (l ++ rest) (units pop) ->
  valid_ballot_sample pop (Z.of_nat (length l)) l = true.
Proof.
  intros pop l rest Hnn HP. unfold STV.valid_ballot_sample. rewrite Z.eqb_refl. cbn [andb].
  apply forallb_forall. intros r _. apply Z.leb_le.
  rewrite <- (count_rk_units r pop Hnn), <- (count_rk_perm r _ _ HP), count_rk_app.
  pose proof (count_rk_nonneg cand ceqb r rest). lia.
Qed.

(* every selection of distinct unit ballots is accepted *)
Theorem sample_complete_idx : forall pop idxs,
  nonneg_pop pop -> NoDup idxs -> (forall i, In i idxs -> (i < length (units pop))%nat) ->
  valid_ballot_sample pop (Z.of_nat (length idxs)) (pick [] (units pop) idxs) = true.
Proof.
  intros pop idxs Hnn Hnd Hr.
  destruct (pick_submultiset [] (units pop) idxs Hnd Hr) as [rest HP].
  rewrite <- (pick_length [] (units pop) idxs). apply (sample_complete pop _ rest Hnn HP).
Qed.

(* the sample test only looks at rankings up to position-wise set equality *)
Lemma count_rk_compat_l : forall r r' l, ranking_eqb r r' = true -> count_rk r l = count_rk r' l.
Proof.
  intros r r' l H. induction l as [|x l IH]; cbn [STV.count_rk]; [reflexivity|]. rewrite IH.
  assert (E : ranking_eqb r x = ranking_eqb r' x).
  { destruct (ranking_eqb r' x) eqn:E'.
    - apply (Lib_sets.ranking_eqb_trans cand ceqb ceqb_spec r r' x H E').
    - destruct (ranking_eqb r x) eqn:E2; [|reflexivity].
      rewrite (Lib_rk.ranking_eqb_sym cand ceqb ceqb_spec) in H.
      rewrite (Lib_sets.ranking_eqb_trans cand ceqb ceqb_spec r' r x H E2) in E'. discriminate. }
  rewrite E. reflexivity.
Qed.

(* every outcome of the law is accepted by the sample test *)
Theorem law_support_valid : forall pop k l w,
  nonneg_pop pop -> (k <= length (units pop))%nat -> In (l, w) (law_sample_ballots pop k) ->
  valid_ballot_sample pop (Z.of_nat k) l = true /\ 0 < w.
Proof.
  intros pop k l w Hnn Hk Hin. unfold SampleSpec.law_sample_ballots in Hin.
  apply dbind_support in Hin. destruct Hin as (idxs & wi & q' & Hi & Hl & ->).
  destruct Hl as [E|[]]. injection E as <- <-.
  destruct (usample_support _ _ _ _ Hi) as (Hnd & Hlen & Hr & Hw).
  rewrite Nat.min_l in Hlen by exact Hk. split; [|lra].
  rewrite <- Hlen. apply sample_complete_idx; assumption.
Qed.

(* ---------- conversely: every accepted sample is an outcome of the law ---------- *)

Lemma count_rk_pick_qsum : forall r (us : list ranking) idxs,
  inject_Z (count_rk r (pick [] us idxs)) ==
  qsum (map (fun i => if ranking_eqb r (nth i us []) then 1 else 0) idxs).
Proof. intros r us idxs. rewrite count_rk_as_qsum. unfold pick. rewrite map_map. reflexivity. Qed.

(* if every unit carrying r is already used, the used units carry r at least as often as all units *)
Lemma all_used_count : forall r (us : list ranking) used,
  NoDup used -> (forall i, In i used -> (i < length us)%nat) ->
  (forall i, (i < length us)%nat -> ranking_eqb r (nth i us []) = true -> In i used) ->
  (count_rk r us <= count_rk r (pick [] us used))%Z.
Proof.
  intros r us used Hnd Hr Hall. rewrite Zle_Qle, count_rk_pick_qsum, count_rk_as_qsum.
  rewrite <- (map_nth_seq [] us) at 1. rewrite map_map.
  set (g := fun i : nat => if ranking_eqb r (nth i us []) then 1 else 0).
  rewrite <- (sum_selected g used (seq 0 (length us)) Hnd (seq_NoDup _ _)).
  - apply Qle_lteq. right. apply qsum_map_ext_in. intros i Hi. apply in_seq in Hi.
    change (g i == if selected i used then g i else 0).
    destruct (selected i used) eqn:Es; [reflexivity|]. unfold g.
    destruct (ranking_eqb r (nth i us [])) eqn:E; [|reflexivity].
    rewrite (proj2 (selected_In i used) (Hall i ltac:(lia) E)) in Es. discriminate.
  - intros i Hi. apply in_seq. specialize (Hr i Hi). lia.
Qed.

Lemma greedy_match : forall (us : list ranking) (l : list ranking) used,
  NoDup used -> (forall i, In i used -> (i < length us)%nat) ->
  (forall r, In r l -> (count_rk r l + count_rk r (pick [] us used) <= count_rk r us)%Z) ->
  exists idxs, NoDup (idxs ++ used) /\ (forall i, In i idxs -> (i < length us)%nat) /\
    Forall2 (fun r i => ranking_eqb r (nth i us []) = true) l idxs.
Proof.
  intros us l. induction l as [|r l IH]; intros used Hnd Hr Hinv.
  - exists []. split; [exact Hnd|]. split; [intros i []|constructor].
  - set (free := filter (fun i => ranking_eqb r (nth i us []) && negb (selected i used))
                        (seq 0 (length us))).
    destruct free as [|i free'] eqn:Ef.
    + exfalso.
      assert (Hall : forall i, (i < length us)%nat -> ranking_eqb r (nth i us []) = true -> In i used).
      { intros i Hi Hm. destruct (selected i used) eqn:Es; [apply selected_In; exact Es|].
        assert (Hin : In i free).
        { apply filter_In. split; [apply in_seq; lia|]. rewrite Hm, Es. reflexivity. }
        rewrite Ef in Hin. destruct Hin. }
      pose proof (all_used_count r us used Hnd Hr Hall) as Hc.
      pose proof (Hinv r (or_introl eq_refl)) as Hi.
      pose proof (count_rk_in cand ceqb ceqb_spec r (r :: l) (or_introl eq_refl)). lia.
    + assert (Hi : In i free) by (rewrite Ef; left; reflexivity).
      apply filter_In in Hi. destruct Hi as [Hi1 Hi2]. apply in_seq in Hi1.
      apply andb_true_iff in Hi2. destruct Hi2 as [Hm Hfree]. apply negb_true_iff in Hfree.
      assert (Hnotin : ~ In i used).
      { intros Hin. apply selected_In in Hin. congruence. }
      destruct (IH (i :: used)) as (idxs & Hnd' & Hr' & HF).
      * constructor; assumption.
      * intros j [<-|Hj]; [lia|apply Hr; exact Hj].
      * intros r' Hr'in. specialize (Hinv r' (or_intror Hr'in)).
        cbn [STV.count_rk] in Hinv. unfold pick in *. cbn [map STV.count_rk].
        match goal with |- (_ + (?a + ?b) <= _)%Z =>
          match type of Hinv with (?c + _ + ?d <= _)%Z =>
            change d with b in Hinv; assert (Hle : (a <= c)%Z) end end.
        { destruct (ranking_eqb r' r) eqn:E2.
          - match goal with |- ((if ?t then _ else _) <= _)%Z => destruct t end; lia.
          - match goal with |- ((if ?t then _ else _) <= _)%Z => destruct t eqn:E1 end; [|lia].
            exfalso. rewrite (Lib_rk.ranking_eqb_sym cand ceqb ceqb_spec) in Hm.
            pose proof (Lib_sets.ranking_eqb_trans cand ceqb ceqb_spec r' _ r E1 Hm). congruence. }
        lia.
      * exists (i :: idxs). split.
        -- cbn [app]. apply (Permutation_NoDup (l := idxs ++ i :: used)); [|exact Hnd'].
           apply Permutation_sym, Permutation_middle.
        -- split; [intros j [<-|Hj]; [lia|apply Hr'; exact Hj]|].
           constructor; [exact Hm|exact HF].
Qed.

(* every sample the model accepts is, position by position up to set equality, a selection of
   distinct unit ballots; no sign hypothesis is needed *)
Theorem sample_sound_idx : forall pop k (l : list ranking),
  valid_ballot_sample pop k l = true ->
  Z.of_nat (length l) = k /\
  exists idxs, NoDup idxs /\ (forall i, In i idxs -> (i < length (units pop))%nat) /\
    Forall2 (fun r r' => ranking_eqb r r' = true) l (pick [] (units pop) idxs).
Proof.
  intros pop k l H. unfold STV.valid_ballot_sample in H. apply andb_true_iff in H.
  destruct H as [H1 H2]. apply Z.eqb_eq in H1. rewrite forallb_forall in H2. split; [exact H1|].
  destruct (greedy_match (units pop) l [] (NoDup_nil _) (fun i (Hi : In i []) => match Hi with end))
    as (idxs & Hnd & Hr & HF).
  - intros r Hr. specialize (H2 r Hr). apply Z.leb_le in H2.
    pose proof (units_of_le_count r pop). unfold pick. cbn [map STV.count_rk]. lia.
  - rewrite app_nil_r in Hnd. exists idxs. split; [exact Hnd|]. split; [exact Hr|].
    unfold pick. clear -HF. induction HF as [|r i l idxs Hri _ IH]; cbn [map]; constructor; assumption.
Qed.

(* ---------- at the level of rand_transfer ---------- *)

Definition good_ballots (bs : list ballot) : Prop :=
  forall b, In b bs -> is_integral (wt b) = true /\ rk b <> [].
Definition nonneg_transferable (w : cand) (bs : list ballot) : Prop :=
  forall b, In b bs -> transferable w b = true -> 0 <= wt b.

Lemma rt_pop_nonneg : forall w bs, nonneg_transferable w bs -> nonneg_pop (rt_pop w bs).
Proof.
  intros w bs H. unfold nonneg_pop, C03_transfer.rt_pop. apply Forall_forall. intros p Hp.
  apply in_map_iff in Hp. destruct Hp as (b & <- & Hb). apply filter_In in Hb.
  destruct Hb as [Hb Ht]. cbn [snd]. apply (H b Hb Ht).
Qed.

Lemma rt_avail_units : forall w bs, nonneg_transferable w bs ->
  rt_avail w bs = Z.of_nat (length (units (rt_pop w bs))).
Proof.
  intros w bs H. rewrite (units_length _ (rt_pop_nonneg w bs H)).
  symmetry. apply (rt_avail_eq cand ceqb).
Qed.

Lemma rand_transfer_run : forall w fpv bs t (s : mstate) l rest,
  good_ballots bs ->
  (0 <= Qtrunc fpv - Qtrunc t <= rt_avail w bs)%Z ->
  scr s = DRanks l :: rest ->
  valid_ballot_sample (rt_pop w bs) (Qtrunc fpv - Qtrunc t) l = true ->
  rand_transfer w fpv bs t s =
  inl (rt_out w bs l, mkM rest (CSampleBallots (rt_pop w bs) (Qtrunc fpv - Qtrunc t) :: lg s)).
Proof.
  intros w fpv bs t s l rest Hgood Hk Hs Hv. rewrite (rand_transfer_eq cand ceqb).
  rewrite (proj2 (existsb_bad_false cand bs) Hgood). cbv zeta.
  assert (Ek : ((Qtrunc fpv - Qtrunc t <? 0) || (rt_avail w bs <? Qtrunc fpv - Qtrunc t))%Z = false).
  { apply orb_false_iff. split; apply Z.ltb_ge; lia. }
  rewrite Ek, Hs, Hv. reflexivity.
Qed.

(* every sub-multiset of the right size of the winner's unit ballots is a possible draw *)
Theorem rand_transfer_complete : forall w fpv bs t (s : mstate) l rest extra,
  good_ballots bs -> nonneg_transferable w bs ->
  scr s = DRanks l :: rest ->
  Z.of_nat (length l) = (Qtrunc fpv - Qtrunc t)%Z ->
  Permutation (l ++ extra) (units (rt_pop w bs)) ->
  rand_transfer w fpv bs t s =
  inl (rt_out w bs l, mkM rest (CSampleBallots (rt_pop w bs) (Qtrunc fpv - Qtrunc t) :: lg s)).
Proof.
  intros w fpv bs t s l rest extra Hgood Hnn Hs Hlen HP.
  apply rand_transfer_run; [exact Hgood| |exact Hs|].
  - rewrite (rt_avail_units w bs Hnn), <- Hlen, <- (Permutation_length HP), app_length. lia.
  - rewrite <- Hlen. apply (sample_complete _ l extra (rt_pop_nonneg w bs Hnn) HP).
Qed.

(* ====================== (b) the law of the sampled ballots ====================== *)

Theorem law_mass : forall pop k, mass (law_sample_ballots pop k) == 1.
Proof.
  intros pop k. unfold SampleSpec.law_sample_ballots.
  rewrite mass_dbind_one; [apply usample_mass|]. intros a w _. apply mass_dret.
Qed.

(* expected number of sampled unit ballots with continuation r *)
Theorem law_expect_count : forall pop k r,
  nonneg_pop pop -> (k <= length (units pop))%nat ->
  expect (fun l => inject_Z (count_rk r l)) (law_sample_ballots pop k) ==
  inject_Z (units_of r pop) * (Qnat k / Qnat (length (units pop))).
Proof.
  intros pop k r Hnn Hk. unfold SampleSpec.law_sample_ballots.
  rewrite (expect_dbind_dret (fun l => inject_Z (count_rk r l))).
  set (us := units pop).
  set (g := fun i : nat => if ranking_eqb r (nth i us []) then 1 else 0).
  rewrite (expect_ext_in _ (fun idxs => qsum (map g idxs))).
  - rewrite (usample_expect_sum (length us) k g Hk).
    assert (E : qsum (map g (seq 0 (length us))) == inject_Z (units_of r pop)).
    { rewrite <- (count_rk_units r pop Hnn). fold us. rewrite count_rk_as_qsum.
      rewrite <- (map_nth_seq [] us) at 2. rewrite map_map. reflexivity. }
    rewrite E. ring.
  - intros idxs w _. rewrite count_rk_as_qsum. unfold pick. rewrite map_map. reflexivity.
Qed.

(* the total transferable weight is the number of unit ballots *)
Lemma units_length_weight : forall w bs, good_ballots bs -> nonneg_transferable w bs ->
  Qnat (length (units (rt_pop w bs))) == wt_where (transferable w) bs.
Proof.
  intros w bs Hgood Hnn. unfold Qnat. rewrite <- (rt_avail_units w bs Hnn).
  unfold C03_transfer.rt_avail, EditSpec.wt_where.
  assert (Hint : forall b, In b (filter (transferable w) bs) -> is_integral (wt b) = true).
  { intros b Hb. apply filter_In in Hb. apply (Hgood b (proj1 Hb)). }
  induction (filter (transferable w) bs) as [|b l IH]; cbn [map fold_right]; [reflexivity|].
  rewrite inject_Z_plus, qsum_cons, IH by (intros b' Hb'; apply Hint; right; exact Hb').
  rewrite (Qtrunc_integral _ (Hint b (or_introl eq_refl))). reflexivity.
Qed.

(* expected weight of a continuation in the output of the transfer *)
Theorem rand_expected_weight : forall w fpv bs t r',
  good_ballots bs -> nonneg_transferable w bs ->
  (0 <= Qtrunc fpv - Qtrunc t)%Z ->
  inject_Z (Qtrunc fpv - Qtrunc t) <= wt_where (transferable w) bs ->
  nonempty r' = true ->
  expect (fun l => match rand_transfer w fpv bs t (mkM [DRanks l] []) with
                   | inl (out, _) => wtof_rk r' out
                   | inr _ => 0
                   end)
         (law_sample_ballots (rt_pop w bs) (Z.to_nat (Qtrunc fpv - Qtrunc t))) ==
  wt_where (fun b => first_is w b && maps_to [w] r' b) bs *
    (inject_Z (Qtrunc fpv - Qtrunc t) / wt_where (transferable w) bs) +
  wt_where (fun b => negb (first_is w b) && maps_to [w] r' b && pos_wt b) bs.
Proof.
  intros w fpv bs t r' Hgood Hnn Hk0 HkT Hne.
  set (kz := (Qtrunc fpv - Qtrunc t)%Z) in *. set (k := Z.to_nat kz).
  set (pop := rt_pop w bs).
  pose proof (rt_pop_nonneg w bs Hnn) as Hpn. fold pop in Hpn.
  pose proof (units_length_weight w bs Hgood Hnn) as HT. fold pop in HT.
  assert (Ekz : Z.of_nat k = kz) by (unfold k; apply Z2Nat.id; exact Hk0).
  assert (Hk : (k <= length (units pop))%nat).
  { rewrite <- HT in HkT. unfold Qnat in HkT. rewrite <- Zle_Qle in HkT. lia. }
  set (oth := wt_where (fun b => negb (first_is w b) && maps_to [w] r' b && pos_wt b) bs).
  rewrite (expect_ext_in _ (fun l => inject_Z (count_rk r' l) + oth)).
  - rewrite expect_plus_const, law_mass, (law_expect_count pop k r' Hpn Hk).
    unfold pop at 1. rewrite (units_of_weight cand ceqb w r' bs (fun b Hb => proj1 (Hgood b Hb)) Hne).
    rewrite HT. unfold Qnat. rewrite Ekz. ring.
  - intros l q Hin. destruct (law_support_valid pop k l q Hpn Hk Hin) as [Hv _].
    rewrite Ekz in Hv.
    rewrite (rand_transfer_run w fpv bs t (mkM [DRanks l] []) l [] Hgood); [| |reflexivity|exact Hv].
    + apply (rt_out_wtof cand ceqb ceqb_spec). exact Hne.
    + rewrite (rt_avail_units w bs Hnn). fold pop kz. lia.
Qed.

End WithCand.
