(* Proofs/C12_extra.v — C12, the `condense` flag of remove_cand.
   The existing C12 theorems give, for both values of the flag, the weight that the OUTPUT LIST as a
   whole gives to a ranking / content (wtof_rk, wtof: a sum over all output ballots carrying it).
   With condense = true the property says more: every resulting ranking (content) appears on exactly
   ONE output ballot, and that ballot's own weight is the summed weight of the inputs mapping to it.
   With condense = false the output is the scrubbed input in input order. *)
From Coq Require Import List QArith Bool Setoid.
From VK Require Import Base Core EditSpec.
From VK.Spec Require Import Content.
From VK.Proofs Require Import Lib_content Lib_condense12 C11_condense C12_edit C12_profile.
Import ListNotations.

Section WithCand.
Variable cand : Type.
Variable ceqb : cand -> cand -> bool.
Hypothesis ceqb_spec : forall a b, reflect (a = b) (ceqb a b).

Local Notation ballot := (Core.ballot cand).
Local Notation same := (same_content cand ceqb).
Local Notation wtof := (Content.wtof cand ceqb).
Local Notation strip := (Core.strip cand ceqb).
Local Notation strip_scores := (Core.strip_scores cand ceqb).
Local Notation scrub := (Core.scrub cand ceqb).
Local Notation pos_wt := (Core.pos_wt cand).
Local Notation remove_cand_bs := (Core.remove_cand_bs cand ceqb).
Local Notation wt_where := (EditSpec.wt_where cand).
Local Notation ranking_eqb := (Core.ranking_eqb cand ceqb).

(* condense = true: pairwise different contents *)
Theorem remove_condensed_distinct : forall removed lz (bs : list ballot),
  NoDup (remove_cand_bs removed true lz bs) /\
  (forall x y, In x (remove_cand_bs removed true lz bs) -> In y (remove_cand_bs removed true lz bs) ->
     same x y = true -> x = y).
Proof.
  intros removed lz bs.
  apply (distinct_spec cand ceqb ceqb_spec).
  unfold Core.remove_cand_bs. apply (condense_distinct cand ceqb).
Qed.

(* condense = true: the weight of ONE output ballot is the summed weight of the inputs scrubbed
   into its content (and surviving) *)
Theorem remove_condensed_weight : forall removed lz (bs : list ballot) (k : ballot),
  In k (remove_cand_bs removed true lz bs) ->
  wt k == wt_where (fun b => same k (scrub removed b) &&
                             (nonempty (strip removed (rk b)) || nonempty (strip_scores removed (sc b))) &&
                             (lz || pos_wt b)) bs.
Proof.
  intros removed lz bs k Hk.
  transitivity (wtof k (remove_cand_bs removed true lz bs)).
  2: exact (remove_content_any cand ceqb ceqb_spec removed true lz bs k).
  symmetry.
  apply (distinct_wtof cand ceqb ceqb_spec).
  - unfold Core.remove_cand_bs. apply (condense_distinct cand ceqb).
  - exact Hk.
  - apply (same_refl cand ceqb ceqb_spec).
Qed.

Lemma remove_condensed_sf : forall removed lz (bs : list ballot),
  Forall (fun b => sc b = []) bs ->
  forall z, In z (remove_cand_bs removed true lz bs) -> sc z = [].
Proof.
  intros removed lz bs Hsf.
  assert (Hout : Forall (fun b : ballot => sc b = []) (remove_cand_bs removed true lz bs)).
  { unfold Core.remove_cand_bs. apply (condense_sf cand ceqb).
    destruct lz.
    - apply (map_scrub_sf cand ceqb). exact Hsf.
    - apply (filter_sf cand). apply (map_scrub_sf cand ceqb). exact Hsf. }
  intros z Hz. rewrite Forall_forall in Hout. exact (Hout z Hz).
Qed.

(* score-free inputs: two output ballots with the same ranking are the same ballot *)
Theorem remove_condensed_rankings : forall removed lz (bs : list ballot),
  Forall (fun b => sc b = []) bs ->
  forall x y, In x (remove_cand_bs removed true lz bs) -> In y (remove_cand_bs removed true lz bs) ->
    ranking_eqb (rk x) (rk y) = true -> x = y.
Proof.
  intros removed lz bs Hsf x y Hx Hy Hr.
  destruct (remove_condensed_distinct removed lz bs) as [_ U].
  apply U; [exact Hx|exact Hy|].
  unfold same_content.
  rewrite Hr, (remove_condensed_sf removed lz bs Hsf x Hx), (remove_condensed_sf removed lz bs Hsf y Hy).
  reflexivity.
Qed.

(* score-free inputs: the weight of the ONE output ballot carrying a non-empty ranking is the summed
   weight of the (surviving) input ballots whose ranking maps to it *)
Theorem remove_condensed_weight_rk : forall removed lz (bs : list ballot) (k : ballot),
  Forall (fun b => sc b = []) bs ->
  In k (remove_cand_bs removed true lz bs) -> nonempty (rk k) = true ->
  wt k == wt_where (fun b => EditSpec.maps_to cand ceqb removed (rk k) b && (lz || pos_wt b)) bs.
Proof.
  intros removed lz bs k Hsf Hk Hne.
  rewrite <- (remove_weights_gen cand ceqb ceqb_spec removed true lz bs (rk k) Hsf Hne).
  transitivity (wtof k (remove_cand_bs removed true lz bs)).
  - symmetry. apply (distinct_wtof cand ceqb ceqb_spec).
    + unfold Core.remove_cand_bs. apply (condense_distinct cand ceqb).
    + exact Hk.
    + apply (same_refl cand ceqb ceqb_spec).
  - unfold Content.wtof, EditSpec.wtof_rk.
    assert (E : filter (same k) (remove_cand_bs removed true lz bs) =
                filter (fun b => ranking_eqb (rk k) (rk b)) (remove_cand_bs removed true lz bs)).
    { apply filter_ext_in. intros z Hz. unfold same_content.
      rewrite (remove_condensed_sf removed lz bs Hsf k Hk), (remove_condensed_sf removed lz bs Hsf z Hz).
      cbn. apply andb_true_r. }
    rewrite E. reflexivity.
Qed.

End WithCand.
