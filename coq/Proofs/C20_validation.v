(* Proofs/C20_validation.v — C20: what each constructor checks, in which order, and which
   exception the FIRST failing check raises.  "No partial result" is the result type: a run
   returns [inl (states, _)] or [inr exception], never both. *)
From VK Require Import Base Core STV Pairwise Rules PV Election.
From VK.Spec Require Import ScoreSpec RatingSpec.
From VK.Proofs Require Import Lib_sets C04_scoring Elect C03_transfer C11_profile.
From Coq Require Import Permutation Lia Lqa.

(* ------------------------------------------------------------------ *)
(** * generic: a Python loop that raises at the first offending element *)

Section RFirst.
Context {A : Type}.
Variable f : A -> res unit.

Lemma rfirst_err_cons : forall a l,
  rfirst_err f (a :: l) = match f a with inl _ => rfirst_err f l | inr e => inr e end.
Proof. intros a l. cbn [rfirst_err]. unfold rbind. destruct (f a); reflexivity. Qed.

Lemma rfirst_err_ok_iff : forall l,
  rfirst_err f l = inl tt <-> forall a, In a l -> f a = inl tt.
Proof.
  induction l as [|a l IH].
  - cbn [rfirst_err]. split; [intros _ a []|reflexivity].
  - rewrite rfirst_err_cons. destruct (f a) as [[]|e] eqn:Hfa.
    + rewrite IH. split.
      * intros H x [<-|Hx]; [exact Hfa|apply H; exact Hx].
      * intros H x Hx. apply H. right. exact Hx.
    + split; [discriminate|]. intros H. specialize (H a (or_introl eq_refl)). congruence.
Qed.

(* the error reported is that of the first offending element in list order *)
Lemma rfirst_err_first : forall l e,
  rfirst_err f l = inr e <->
  exists pre a post, l = pre ++ a :: post /\ (forall x, In x pre -> f x = inl tt) /\ f a = inr e.
Proof.
  induction l as [|a l IH]; intros e.
  - cbn [rfirst_err]. split; [discriminate|]. intros [pre [a [post [H _]]]].
    destruct pre; discriminate.
  - rewrite rfirst_err_cons. destruct (f a) as [[]|e0] eqn:Hfa.
    + rewrite IH. split.
      * intros [pre [b [post [Hl [Hpre Hb]]]]]. exists (a :: pre), b, post. split; [rewrite Hl; reflexivity|].
        split; [|exact Hb]. intros x [<-|Hx]; [exact Hfa|apply Hpre; exact Hx].
      * intros [pre [b [post [Hl [Hpre Hb]]]]]. destruct pre as [|a' pre].
        -- cbn [app] in Hl. inversion Hl; subst. congruence.
        -- cbn [app] in Hl. inversion Hl; subst. exists pre, b, post. split; [reflexivity|].
           split; [|exact Hb]. intros x Hx. apply Hpre. right. exact Hx.
    + split.
      * intros H. inversion H; subst. exists [], a, l. split; [reflexivity|]. split; [intros x []|exact Hfa].
      * intros [pre [b [post [Hl [Hpre Hb]]]]]. destruct pre as [|a' pre].
        -- cbn [app] in Hl. inversion Hl; subst. congruence.
        -- cbn [app] in Hl. inversion Hl; subst.
           specialize (Hpre a' (or_introl eq_refl)). congruence.
Qed.

(* when every element can only fail with [E]: the loop fails, with [E], iff some element fails *)
Lemma rfirst_err_uniform : forall (E : exn) (bad : A -> Prop),
  (forall a, f a = inr E <-> bad a) -> (forall a e, f a = inr e -> e = E) ->
  forall l,
    (rfirst_err f l = inr E <-> exists a, In a l /\ bad a) /\
    (forall e, rfirst_err f l = inr e -> e = E) /\
    (rfirst_err f l = inl tt <-> forall a, In a l -> ~ bad a).
Proof.
  intros E bad Hbad Honly l.
  assert (Hdec : forall a, f a = inl tt \/ f a = inr E).
  { intros a. destruct (f a) as [[]|e] eqn:Hfa; [left; reflexivity|right].
    rewrite (Honly a e Hfa). reflexivity. }
  split; [|split].
  - rewrite rfirst_err_first. split.
    + intros [pre [a [post [Hl [_ Ha]]]]]. exists a. split; [|apply Hbad; exact Ha].
      rewrite Hl. apply in_or_app. right. left. reflexivity.
    + intros [a [Hin Ha]]. apply Hbad in Ha.
      induction l as [|x l IH]; [destruct Hin|].
      destruct (Hdec x) as [Hx|Hx].
      * destruct Hin as [<-|Hin]; [congruence|].
        destruct (IH Hin) as [pre [b [post [Hl [Hpre Hb]]]]].
        exists (x :: pre), b, post. split; [rewrite Hl; reflexivity|]. split; [|exact Hb].
        intros y [<-|Hy]; [exact Hx|apply Hpre; exact Hy].
      * exists [], x, l. split; [reflexivity|]. split; [intros y []|exact Hx].
  - intros e H. apply rfirst_err_first in H. destruct H as [pre [a [post [_ [_ Ha]]]]].
    exact (Honly a e Ha).
  - rewrite rfirst_err_ok_iff. split.
    + intros H a Hin Hb. apply Hbad in Hb. rewrite (H a Hin) in Hb. discriminate.
    + intros H a Hin. destruct (Hdec a) as [Ha|Ha]; [exact Ha|].
      exfalso. apply (H a Hin). apply Hbad. exact Ha.
Qed.

End RFirst.

(* "no partial result": the result type is a sum *)
Lemma no_partial_result : forall (A : Type) (r : res A),
  ((exists a, r = inl a) \/ (exists e, r = inr e)) /\
  ~ ((exists a, r = inl a) /\ (exists e, r = inr e)).
Proof.
  intros A r. split.
  - destruct r as [a|e]; [left; exists a; reflexivity|right; exists e; reflexivity].
  - intros [[a Ha] [e He]]. congruence.
Qed.

Lemma mbind_mlift : forall {cand A B} (r : res A) (k : A -> M cand B) (s : mstate cand),
  mbind (mlift r) k s = match r with inl a => k a s | inr e => inr e end.
Proof. intros cand A B r k s. unfold mbind, mlift. destruct r; reflexivity. Qed.

(* ------------------------------------------------------------------ *)
(** * argument checks that do not involve candidates *)

(* V6: Alaska's stage sizes *)
Lemma alaska_args_iff : forall m1 m2,
  (alaska_args m1 m2 = inr EValue <-> (m1 <= 0 \/ m2 <= 0 \/ m1 < m2)%Z) /\
  (forall e, alaska_args m1 m2 = inr e -> e = EValue) /\
  (alaska_args m1 m2 = inl tt <-> (1 <= m2 <= m1)%Z).
Proof.
  intros m1 m2. unfold alaska_args.
  destruct (m1 <=? 0)%Z eqn:H1; [apply Z.leb_le in H1|apply Z.leb_gt in H1].
  { split; [split; [intros _; left; exact H1|reflexivity]|].
    split; [intros e H; inversion H; reflexivity|]. split; [discriminate|lia]. }
  destruct (m2 <=? 0)%Z eqn:H2; [apply Z.leb_le in H2|apply Z.leb_gt in H2].
  { split; [split; [intros _; right; left; exact H2|reflexivity]|].
    split; [intros e H; inversion H; reflexivity|]. split; [discriminate|lia]. }
  destruct (m1 <? m2)%Z eqn:H3; [apply Z.ltb_lt in H3|apply Z.ltb_ge in H3].
  { split; [split; [intros _; right; right; exact H3|reflexivity]|].
    split; [intros e H; inversion H; reflexivity|]. split; [discriminate|lia]. }
  split; [split; [discriminate|lia]|]. split; [discriminate|]. split; [lia|reflexivity].
Qed.

(* V5: GeneralRating's argument checks *)
Lemma rating_args_iff : forall m L k,
  (rating_args m L k = inr EValue <-> rating_args_bad m L k) /\
  (forall e, rating_args m L k = inr e -> e = EValue) /\
  (rating_args m L k = inl tt <-> rating_args_ok m L k).
Proof.
  intros m L k. unfold rating_args, rating_args_bad, rating_args_ok.
  destruct (m <=? 0)%Z eqn:H1; [apply Z.leb_le in H1|apply Z.leb_gt in H1].
  { split; [split; [intros _; left; exact H1|reflexivity]|].
    split; [intros e H; inversion H; reflexivity|]. split; [discriminate|intros [H _]; lia]. }
  destruct (Qle_bool L 0) eqn:H2.
  { apply Qle_bool_iff in H2.
    split; [split; [intros _; right; left; exact H2|reflexivity]|].
    split; [intros e H; inversion H; reflexivity|]. split; [discriminate|].
    intros [_ [H _]]. exfalso. exact (Qlt_not_le _ _ H H2). }
  assert (HL : 0 < L).
  { apply Qnot_le_lt. intros H. apply Qle_bool_iff in H. congruence. }
  destruct k as [k'|].
  - destruct (Qle_bool k' 0) eqn:H3.
    { apply Qle_bool_iff in H3.
      split; [split; [intros _; right; right; exists k'; split; [reflexivity|left; exact H3]|reflexivity]|].
      split; [intros e H; inversion H; reflexivity|]. split; [discriminate|].
      intros [_ [_ [H _]]]. exfalso. exact (Qlt_not_le _ _ H H3). }
    assert (Hk : 0 < k').
    { apply Qnot_le_lt. intros H. apply Qle_bool_iff in H. congruence. }
    destruct (Qlt_bool k' L) eqn:H4.
    { apply Qlt_bool_iff in H4.
      split; [split; [intros _; right; right; exists k'; split; [reflexivity|right; exact H4]|reflexivity]|].
      split; [intros e H; inversion H; reflexivity|]. split; [discriminate|].
      intros [_ [_ [_ H]]]. exfalso. exact (Qlt_not_le _ _ H4 H). }
    apply Qlt_bool_false_iff in H4.
    split; [split; [discriminate|]|].
    + intros [H|[H|[k0 [Hk0 [H|H]]]]].
      * lia.
      * exfalso. exact (Qlt_not_le _ _ HL H).
      * inversion Hk0; subst k0. exfalso. exact (Qlt_not_le _ _ Hk H).
      * inversion Hk0; subst k0. exfalso. exact (Qlt_not_le _ _ H H4).
    + split; [discriminate|]. split; [intros _|reflexivity]. repeat split; try assumption. lia.
  - split; [split; [discriminate|]|].
    + intros [H|[H|[k0 [Hk0 _]]]]; [lia|exfalso; exact (Qlt_not_le _ _ HL H)|discriminate].
    + split; [discriminate|]. split; [intros _|reflexivity]. repeat split; try assumption. lia.
Qed.

(* V7: score vectors *)
Definition vector_bad (v : list Q) : Prop :=
  (exists x, In x v /\ x < 0) \/ (exists pre x y post, v = pre ++ x :: y :: post /\ x < y).

Lemma vector_bad_not_valid : forall v, vector_bad v -> ~ valid_vector v.
Proof.
  intros v [[x [Hin Hx]]|[pre [x [y [post [Hv Hxy]]]]]] [Hall Hni].
  - rewrite Forall_forall in Hall. exact (Qlt_not_le _ _ Hx (Hall x Hin)).
  - subst v. clear Hall. induction pre as [|a pre IH].
    + cbn [app non_increasing] in Hni. destruct Hni as [Hle _]. exact (Qlt_not_le _ _ Hxy Hle).
    + apply IH. cbn [app non_increasing] in Hni. destruct Hni as [_ Hni]. exact Hni.
Qed.

Lemma vector_valid_or_bad : forall v, valid_vector v \/ vector_bad v.
Proof.
  induction v as [|x v IH].
  - left. split; [constructor|exact I].
  - destruct IH as [[Hall Hni]|Hbad].
    + destruct (Qlt_le_dec x 0) as [Hx|Hx].
      * right. left. exists x. split; [left; reflexivity|exact Hx].
      * destruct v as [|y v].
        -- left. split; [constructor; [exact Hx|constructor]|]. cbn [non_increasing]. split; exact I.
        -- destruct (Qlt_le_dec x y) as [Hxy|Hxy].
           ++ right. right. exists [], x, y, v. split; [reflexivity|exact Hxy].
           ++ left. split; [constructor; assumption|]. cbn [non_increasing].
              split; [exact Hxy|]. exact Hni.
    + right. destruct Hbad as [[z [Hin Hz]]|[pre [a [b [post [Hv Hab]]]]]].
      * left. exists z. split; [right; exact Hin|exact Hz].
      * right. exists (x :: pre), a, b, post. split; [rewrite Hv; reflexivity|exact Hab].
Qed.

Lemma validate_vector_err_iff : forall v,
  (validate_vector v = inr EValue <-> vector_bad v) /\
  (forall e, validate_vector v = inr e -> e = EValue) /\
  (validate_vector v = inl tt <-> valid_vector v).
Proof.
  intros v. split; [|split].
  - split.
    + intros H. destruct (vector_valid_or_bad v) as [Hv|Hb]; [|exact Hb].
      apply validate_vector_iff in Hv. congruence.
    + intros Hb. destruct (validate_vector v) as [[]|e] eqn:Hv.
      * exfalso. apply (vector_bad_not_valid v Hb). apply validate_vector_iff. exact Hv.
      * unfold validate_vector in Hv. rewrite (validate_vector_from_err v None e Hv). reflexivity.
  - intros e H. unfold validate_vector in H. exact (validate_vector_from_err v None e H).
  - apply validate_vector_iff.
Qed.

(* ------------------------------------------------------------------ *)
Section Validation.
Variable cand : Type.
Variable ceqb : cand -> cand -> bool.
Hypothesis ceqb_spec : forall a b, reflect (a = b) (ceqb a b).

Notation cset := (cset cand).
Notation ranking := (ranking cand).
Notation ballot := (ballot cand).
Notation profile := (profile cand).
Notation scores := (scores cand).
Notation estate := (estate cand).
Notation mstate := (mstate cand).
Notation flat := (flat cand).
Notation ranking_validate := (ranking_validate cand).
Notation stv_validate := (stv_validate cand).
Notation pv_validate := (pv_validate cand).
Notation rating_validate := (rating_validate cand).
Notation stv_init := (stv_init cand).
Notation dictator_args := (dictator_args cand).
Notation run_stv := (run_stv cand ceqb).
Notation run_plurality := (run_plurality cand ceqb).
Notation run_toptwo := (run_toptwo cand ceqb).
Notation run_alaska := (run_alaska cand ceqb).
Notation run_dictator := (run_dictator cand ceqb).
Notation run_dominating := (run_dominating cand ceqb).
Notation run_condo := (run_condo cand ceqb).
Notation run_rule := (run_rule cand ceqb).
Notation run_rating := (run_rating cand ceqb).
Notation run_one_shot := (run_one_shot cand ceqb).
Notation run_pv := (run_pv cand ceqb).
Notation score_fn := (score_fn cand ceqb).
Notation round0 := (round0 cand ceqb).
Notation elect_top_m := (elect_top_m cand ceqb).
Notation score_to_ranking := (score_to_ranking cand).
Notation has_tie := (has_tie cand).
Notation score_ballot_ok := (score_ballot_ok cand).
Notation score_ballot_bad := (score_ballot_bad cand).

(* ---------- V1: a ranking on every ballot ---------- *)

Definition no_ranking (b : ballot) : Prop := rk b = [].

Lemma ranking_validate_iff : forall p : profile,
  (ranking_validate p = inr EType <-> exists b, In b (ballots p) /\ rk b = []) /\
  (forall e, ranking_validate p = inr e -> e = EType) /\
  (ranking_validate p = inl tt <-> forall b, In b (ballots p) -> rk b <> []).
Proof.
  intros p. unfold STV.ranking_validate.
  apply (rfirst_err_uniform _ EType (fun b : ballot => rk b = [])).
  - intros b. destruct (rk b); split; intros H; try reflexivity; discriminate.
  - intros b e. destruct (rk b); intros H; inversion H; reflexivity.
Qed.

Lemma ranking_validate_cases : forall p : profile,
  ranking_validate p = inl tt \/ ranking_validate p = inr EType.
Proof.
  intros p. destruct (ranking_validate p) as [[]|e] eqn:H; [left; reflexivity|right].
  rewrite (proj1 (proj2 (ranking_validate_iff p)) e H). reflexivity.
Qed.

(* which check comes first, rule by rule *)
Lemma run_plurality_prologue : forall m tb (p : profile) s,
  run_plurality m tb p s =
  match ranking_validate p with inr e => inr e | inl _ => run_one_shot SKFpv m tb p s end.
Proof. intros m tb p s. unfold Rules.run_plurality. apply mbind_mlift. Qed.

Lemma run_toptwo_invalid : forall tb (p : profile) s e,
  ranking_validate p = inr e -> run_toptwo tb p s = inr e.
Proof. intros tb p s e H. unfold Rules.run_toptwo. rewrite mbind_mlift, H. reflexivity. Qed.

Lemma run_dominating_invalid : forall (p : profile) s e,
  ranking_validate p = inr e -> run_dominating p s = inr e.
Proof. intros p s e H. unfold Rules.run_dominating. rewrite mbind_mlift, H. reflexivity. Qed.

Lemma run_condo_invalid : forall m (p : profile) s e,
  ranking_validate p = inr e -> run_condo m p s = inr e.
Proof. intros m p s e H. unfold Rules.run_condo. rewrite mbind_mlift, H. reflexivity. Qed.

Definition borda_vec (v : option (list Q)) (p : profile) : list Q :=
  match v with Some (x :: l) => x :: l | _ => default_borda cand p end.

Lemma run_borda_prologue : forall m v tb (p : profile) s,
  run_rule (RBorda m v tb) p s =
  match validate_vector (borda_vec v p) with
  | inr e => inr e
  | inl _ => match ranking_validate p with
             | inr e => inr e
             | inl _ => run_one_shot (SKVector (borda_vec v p)) m tb p s
             end
  end.
Proof.
  intros m v tb p s. cbn [Rules.run_rule]. fold (borda_vec v p). cbv zeta.
  rewrite mbind_mlift. destruct (validate_vector (borda_vec v p)); [|reflexivity].
  apply mbind_mlift.
Qed.

Lemma run_alaska_prologue : forall m1 m2 cfg (p : profile) s,
  (forall e, alaska_args m1 m2 = inr e -> run_alaska m1 m2 cfg p s = inr e) /\
  (forall e, alaska_args m1 m2 = inl tt -> ranking_validate p = inr e ->
             run_alaska m1 m2 cfg p s = inr e).
Proof.
  intros m1 m2 cfg p s. unfold Rules.run_alaska. split.
  - intros e H. rewrite mbind_mlift, H. reflexivity.
  - intros e H1 H2. rewrite mbind_mlift, H1, mbind_mlift, H2. reflexivity.
Qed.

Lemma run_dictator_prologue : forall boosted m (p : profile) s,
  (forall e, dictator_args m p = inr e -> run_dictator boosted m p s = inr e) /\
  (forall e, dictator_args m p = inl tt -> ranking_validate p = inr e ->
             run_dictator boosted m p s = inr e).
Proof.
  intros boosted m p s. unfold Rules.run_dictator. split.
  - intros e H. rewrite mbind_mlift, H. reflexivity.
  - intros e H1 H2. rewrite mbind_mlift, H1, mbind_mlift, H2. reflexivity.
Qed.

(* V8 *)
Lemma dictator_args_iff : forall m (p : profile),
  (dictator_args m p = inr EValue <-> (m <= 0 \/ Z.of_nat (length (cands p)) < m)%Z) /\
  (forall e, dictator_args m p = inr e -> e = EValue) /\
  (dictator_args m p = inl tt <-> (1 <= m <= Z.of_nat (length (cands p)))%Z).
Proof.
  intros m p. unfold Rules.dictator_args.
  destruct (m <=? 0)%Z eqn:H1; [apply Z.leb_le in H1|apply Z.leb_gt in H1].
  { split; [split; [intros _; left; exact H1|reflexivity]|].
    split; [intros e H; inversion H; reflexivity|]. split; [discriminate|lia]. }
  destruct (Z.of_nat (length (cands p)) <? m)%Z eqn:H2; [apply Z.ltb_lt in H2|apply Z.ltb_ge in H2].
  { split; [split; [intros _; right; exact H2|reflexivity]|].
    split; [intros e H; inversion H; reflexivity|]. split; [discriminate|lia]. }
  split; [split; [discriminate|lia]|]. split; [discriminate|]. split; [lia|reflexivity].
Qed.

Theorem c20_ranking_required_proof : forall p : profile,
  (ranking_validate p = inr EType <-> exists b, In b (ballots p) /\ rk b = []) /\
  (forall e, ranking_validate p = inr e -> e = EType) /\
  ((exists b, In b (ballots p) /\ rk b = []) ->
     (forall m tb s, run_plurality m tb p s = inr EType) /\
     (forall tb s, run_toptwo tb p s = inr EType) /\
     (forall s, run_dominating p s = inr EType) /\
     (forall m s, run_condo m p s = inr EType) /\
     (forall m v tb s,
        run_rule (RBorda m v tb) p s =
        match validate_vector (match v with Some (x :: l) => x :: l | _ => default_borda cand p end) with
        | inl _ => inr EType
        | inr _ => inr EValue
        end) /\
     (forall m1 m2 cfg s,
        run_alaska m1 m2 cfg p s =
        match alaska_args m1 m2 with inl _ => inr EType | inr _ => inr EValue end) /\
     (forall boosted m s,
        run_dictator boosted m p s =
        match dictator_args m p with inl _ => inr EType | inr _ => inr EValue end)).
Proof.
  intros p. destruct (ranking_validate_iff p) as [Hiff [Honly Hok]].
  split; [exact Hiff|]. split; [exact Honly|]. intros Hex. apply Hiff in Hex.
  split; [|split; [|split; [|split; [|split; [|split]]]]].
  - intros m tb s. rewrite run_plurality_prologue, Hex. reflexivity.
  - intros tb s. apply run_toptwo_invalid. exact Hex.
  - intros s. apply run_dominating_invalid. exact Hex.
  - intros m s. apply run_condo_invalid. exact Hex.
  - intros m v tb s. rewrite run_borda_prologue. fold (borda_vec v p).
    destruct (validate_vector (borda_vec v p)) as [[]|e] eqn:Hv.
    + rewrite Hex. reflexivity.
    + rewrite (proj1 (proj2 (validate_vector_err_iff _)) e Hv). reflexivity.
  - intros m1 m2 cfg s. destruct (run_alaska_prologue m1 m2 cfg p s) as [Ha Hb].
    destruct (alaska_args m1 m2) as [[]|e] eqn:Hargs.
    + apply Hb; [reflexivity|exact Hex].
    + rewrite (Ha e eq_refl). rewrite (proj1 (proj2 (alaska_args_iff m1 m2)) e Hargs). reflexivity.
  - intros boosted m s. destruct (run_dictator_prologue boosted m p s) as [Ha Hb].
    destruct (dictator_args m p) as [[]|e] eqn:Hargs.
    + apply Hb; [reflexivity|exact Hex].
    + rewrite (Ha e eq_refl). rewrite (proj1 (proj2 (dictator_args_iff m p)) e Hargs). reflexivity.
Qed.

(* ---------- V2: STV — no missing ranking, no tied position; then the seat count ---------- *)

Definition stv_bad_ballot (b : ballot) : Prop :=
  rk b = [] \/ exists g, In g (rk b) /\ (1 < length g)%nat.

Lemma existsb_tied_iff : forall r : ranking,
  existsb (fun s => Nat.ltb 1 (length s)) r = true <-> exists g, In g r /\ (1 < length g)%nat.
Proof.
  intros r. rewrite existsb_exists. split; intros [g [Hg Hl]]; exists g; (split; [exact Hg|]).
  - apply Nat.ltb_lt. exact Hl.
  - apply Nat.ltb_lt. exact Hl.
Qed.

Lemma stv_validate_iff : forall p : profile,
  (stv_validate p = inr EType <-> exists b, In b (ballots p) /\ stv_bad_ballot b) /\
  (forall e, stv_validate p = inr e -> e = EType) /\
  (stv_validate p = inl tt <-> forall b, In b (ballots p) -> ~ stv_bad_ballot b).
Proof.
  intros p. unfold STV.stv_validate.
  apply (rfirst_err_uniform _ EType stv_bad_ballot).
  - intros b. unfold stv_bad_ballot. destruct (rk b) as [|g r] eqn:Hrk.
    + split; [intros _; left; reflexivity|reflexivity].
    + destruct (existsb (fun s => Nat.ltb 1 (length s)) (g :: r)) eqn:Hex.
      * split; [intros _; right; apply existsb_tied_iff; exact Hex|reflexivity].
      * split; [discriminate|]. intros [H|H]; [discriminate|].
        apply existsb_tied_iff in H. congruence.
  - intros b e. destruct (rk b) as [|g r]; [intros H; inversion H; reflexivity|].
    destruct (existsb (fun s => Nat.ltb 1 (length s)) (g :: r)); intros H; inversion H; reflexivity.
Qed.

Theorem c20_stv_no_ties_proof : forall p : profile,
  (stv_validate p = inr EType <->
     exists b, In b (ballots p) /\ (rk b = [] \/ exists g, In g (rk b) /\ (1 < length g)%nat)) /\
  (forall e, stv_validate p = inr e -> e = EType) /\
  ((exists b, In b (ballots p) /\ (rk b = [] \/ exists g, In g (rk b) /\ (1 < length g)%nat)) ->
     forall cfg s, stv_init cfg p = inr EType /\ run_stv cfg p s = inr EType).
Proof.
  intros p. destruct (stv_validate_iff p) as [Hiff [Honly _]].
  split; [exact Hiff|]. split; [exact Honly|]. intros Hex cfg s. apply Hiff in Hex.
  assert (Hinit : stv_init cfg p = inr EType).
  { unfold STV.stv_init. rewrite Hex. reflexivity. }
  split; [exact Hinit|]. unfold STV.run_stv. rewrite mbind_mlift, Hinit. reflexivity.
Qed.

(* all-integral weights, as a proposition *)
Lemma forallb_integral_false_iff : forall bs : list ballot,
  forallb (fun b => is_integral (wt b)) bs = false <->
  exists b, In b bs /\ is_integral (wt b) = false.
Proof.
  intros bs. split.
  - intros H. induction bs as [|a l IH]; [discriminate|]. cbn [forallb] in H.
    destruct (is_integral (wt a)) eqn:Ha.
    + destruct (IH H) as (b & Hb & Hn). exists b. split; [right; exact Hb|exact Hn].
    + exists a. split; [left; reflexivity|exact Ha].
  - intros (b & Hb & Hn). destruct (forallb (fun b => is_integral (wt b)) bs) eqn:E; [|reflexivity].
    rewrite forallb_forall in E. rewrite (E b Hb) in Hn. discriminate.
Qed.

Theorem c20_m_range_proof : forall cfg (p : profile),
  stv_validate p = inl tt ->
  (stv_init cfg p = inr EType <->
     s_transfer cfg = TRandom /\ exists b, In b (ballots p) /\ is_integral (wt b) = false) /\
  (stv_init cfg p = inr EValue <->
     ~ (s_transfer cfg = TRandom /\ exists b, In b (ballots p) /\ is_integral (wt b) = false) /\
     (s_m cfg <= 0 \/ Z.of_nat (length (cands p)) < s_m cfg \/ s_quota cfg = QBad)%Z) /\
  (forall e, stv_init cfg p = inr e -> e = EType \/ e = EValue) /\
  (forall e, stv_init cfg p = inr e -> forall s, run_stv cfg p s = inr e) /\
  (~ (s_transfer cfg = TRandom /\ exists b, In b (ballots p) /\ is_integral (wt b) = false) ->
   (1 <= s_m cfg <= Z.of_nat (length (cands p)))%Z -> s_quota cfg <> QBad ->
     exists t, stv_init cfg p = inl t).
Proof.
  intros cfg p Hv.
  assert (Hrun : forall e, stv_init cfg p = inr e -> forall s, run_stv cfg p s = inr e).
  { intros e H s. unfold STV.run_stv. rewrite mbind_mlift, H. reflexivity. }
  assert (Hchk : is_trandom (s_transfer cfg) &&
                 negb (forallb (fun b => is_integral (wt b)) (ballots p)) = true <->
                 s_transfer cfg = TRandom /\
                 exists b, In b (ballots p) /\ is_integral (wt b) = false).
  { rewrite andb_true_iff, negb_true_iff, forallb_integral_false_iff.
    split; intros [H1 H2]; (split; [|exact H2]).
    - destruct (s_transfer cfg); try discriminate. reflexivity.
    - rewrite H1. reflexivity. }
  unfold STV.stv_init in *. rewrite Hv in *. cbn [rbind] in *.
  destruct (is_trandom (s_transfer cfg) &&
            negb (forallb (fun b => is_integral (wt b)) (ballots p))) eqn:Hc.
  { assert (Hn := proj1 Hchk eq_refl).
    split; [split; [intros _; exact Hn|reflexivity]|].
    split; [split; [discriminate|intros [H _]; contradiction]|].
    split; [intros e H; inversion H; left; reflexivity|]. split; [exact Hrun|].
    intros H. contradiction. }
  assert (Hn : ~ (s_transfer cfg = TRandom /\
                  exists b, In b (ballots p) /\ is_integral (wt b) = false)).
  { intros H. apply Hchk in H. discriminate. }
  destruct (s_m cfg <=? 0)%Z eqn:H1; [apply Z.leb_le in H1|apply Z.leb_gt in H1]; cbn [orb] in *.
  { split; [split; [discriminate|intros H; contradiction]|].
    split; [split; [intros _; split; [exact Hn|left; exact H1]|reflexivity]|].
    split; [intros e H; inversion H; right; reflexivity|]. split; [exact Hrun|]. intros _ H. lia. }
  destruct (Z.of_nat (length (cands p)) <? s_m cfg)%Z eqn:H2;
    [apply Z.ltb_lt in H2|apply Z.ltb_ge in H2].
  { split; [split; [discriminate|intros H; contradiction]|].
    split; [split; [intros _; split; [exact Hn|right; left; exact H2]|reflexivity]|].
    split; [intros e H; inversion H; right; reflexivity|]. split; [exact Hrun|]. intros _ H. lia. }
  destruct (s_quota cfg) eqn:Hq; cbn [threshold] in *.
  - split; [split; [discriminate|intros H; contradiction]|].
    split; [split; [discriminate|intros [_ [H|[H|H]]]; [lia|lia|discriminate]]|].
    split; [discriminate|]. split; [exact Hrun|]. intros _ _ _. eexists. reflexivity.
  - split; [split; [discriminate|intros H; contradiction]|].
    split; [split; [discriminate|intros [_ [H|[H|H]]]; [lia|lia|discriminate]]|].
    split; [discriminate|]. split; [exact Hrun|]. intros _ _ _. eexists. reflexivity.
  - split; [split; [discriminate|intros H; contradiction]|].
    split; [split; [intros _; split; [exact Hn|right; right; reflexivity]|reflexivity]|].
    split; [intros e H; inversion H; right; reflexivity|]. split; [exact Hrun|].
    intros _ _ H. contradiction H. reflexivity.
Qed.

(* ---------- V3: PluralityVeto ---------- *)

Definition pv_bad_ballot (b : ballot) : Prop := rk b = [] \/ is_integral (wt b) = false.

Lemma pv_validate_iff : forall p : profile,
  (pv_validate p = inr EType <-> exists b, In b (ballots p) /\ pv_bad_ballot b) /\
  (forall e, pv_validate p = inr e -> e = EType) /\
  (pv_validate p = inl tt <-> forall b, In b (ballots p) -> ~ pv_bad_ballot b).
Proof.
  intros p. unfold PV.pv_validate.
  apply (rfirst_err_uniform _ EType pv_bad_ballot).
  - intros b. unfold pv_bad_ballot. destruct (rk b) as [|g r].
    + split; [intros _; left; reflexivity|reflexivity].
    + destruct (is_integral (wt b)).
      * split; [discriminate|intros [H|H]; discriminate].
      * split; [intros _; right; reflexivity|reflexivity].
  - intros b e. destruct (rk b) as [|g r]; [intros H; inversion H; reflexivity|].
    destruct (is_integral (wt b)); intros H; inversion H; reflexivity.
Qed.

Theorem c20_pv_proof : forall p : profile,
  (pv_validate p = inr EType <->
     exists b, In b (ballots p) /\ (rk b = [] \/ is_integral (wt b) = false)) /\
  (forall e, pv_validate p = inr e -> e = EType) /\
  (forall m tb s,
     ((exists b, In b (ballots p) /\ (rk b = [] \/ is_integral (wt b) = false)) ->
        run_pv m tb p s = inr EType) /\
     (pv_validate p = inl tt -> (m <= 0 \/ Z.of_nat (length (cands p)) < m)%Z ->
        run_pv m tb p s = inr EValue) /\
     (pv_validate p = inl tt -> (1 <= m <= Z.of_nat (length (cands p)))%Z -> tb = None ->
        (exists b g, In b (ballots p) /\ In g (rk b) /\ (1 < length g)%nat) ->
        run_pv m tb p s = inr EAttr)).
Proof.
  intros p. destruct (pv_validate_iff p) as [Hiff [Honly _]].
  split; [exact Hiff|]. split; [exact Honly|]. intros m tb s. split; [|split].
  - intros Hex. apply Hiff in Hex. unfold PV.run_pv. rewrite mbind_mlift, Hex. reflexivity.
  - intros Hv Hm. unfold PV.run_pv. rewrite mbind_mlift, Hv.
    destruct (m <=? 0)%Z eqn:H1; [reflexivity|]. apply Z.leb_gt in H1.
    destruct (Z.of_nat (length (cands p)) <? m)%Z eqn:H2; [reflexivity|]. apply Z.ltb_ge in H2. lia.
  - intros Hv Hm -> [b [g [Hb [Hg Hl]]]]. unfold PV.run_pv. rewrite mbind_mlift, Hv.
    assert (H1 : (m <=? 0)%Z = false) by (apply Z.leb_gt; lia).
    assert (H2 : (Z.of_nat (length (cands p)) <? m)%Z = false) by (apply Z.ltb_ge; lia).
    rewrite H1, H2.
    assert (Hex : existsb has_tie (ballots p) = true).
    { apply existsb_exists. exists b. split; [exact Hb|]. unfold PV.has_tie.
      apply existsb_tied_iff. exists g. split; assumption. }
    rewrite Hex. reflexivity.
Qed.

(* ---------- V4: the random transfer (from C03) ---------- *)

Theorem c20_random_transfer_integer_proof : forall w fpv (bs : list ballot) t s,
  (rand_transfer cand ceqb w fpv bs t s = inr EType <->
     exists b, In b bs /\ (is_integral (wt b) = false \/ rk b = [])) /\
  (forall e, rand_transfer cand ceqb w fpv bs t s = inr e -> e = EType \/ e = EValue \/ e = EScript).
Proof.
  intros w fpv bs t s. destruct (rand_errors cand ceqb w fpv bs t s) as [H1 [_ H3]].
  split; [exact H1|exact H3].
Qed.

(* ---------- V5: scores on every ballot, within the limits ---------- *)

Lemma existsb_score_iff : forall (P : Q -> bool) (d : scores),
  existsb (fun q => P (snd q)) d = true <-> exists c q, In (c, q) d /\ P q = true.
Proof.
  intros P d. rewrite existsb_exists. split.
  - intros [[c q] [Hin HP]]. exists c, q. split; assumption.
  - intros [c [q [Hin HP]]]. exists (c, q). split; assumption.
Qed.

Definition rating_check (L : Q) (k : option Q) (b : ballot) : res unit :=
  match sc b with
  | [] => err EType
  | d =>
      if existsb (fun q => Qlt_bool L (snd q)) d then err EType
      else if existsb (fun q => Qlt_bool (snd q) 0) d then err EType
      else match k with
           | Some k' => if Qlt_bool k' (qsum (map snd d)) then err EType else ok tt
           | None => ok tt
           end
  end.

Lemma rating_validate_unfold : forall L k (p : profile),
  rating_validate L k p = rfirst_err (rating_check L k) (ballots p).
Proof. reflexivity. Qed.

Lemma rating_check_cases : forall L k b,
  (rating_check L k b = inl tt /\ score_ballot_ok L k b /\ ~ score_ballot_bad L k b) \/
  (rating_check L k b = inr EType /\ score_ballot_bad L k b /\ ~ score_ballot_ok L k b).
Proof.
  intros L k b. unfold rating_check, RatingSpec.score_ballot_ok, RatingSpec.score_ballot_bad.
  destruct (sc b) as [|x d] eqn:Hsc.
  { right. split; [reflexivity|]. split; [left; reflexivity|]. intros [H _]. contradiction H. reflexivity. }
  set (D := x :: d) in *.
  destruct (existsb (fun q => Qlt_bool L (snd q)) D) eqn:H1.
  { right. split; [reflexivity|].
    apply (existsb_score_iff (fun q => Qlt_bool L q)) in H1. destruct H1 as [c [q [Hin Hq]]].
    apply Qlt_bool_iff in Hq. split.
    - right. left. exists c, q. split; [exact Hin|left; exact Hq].
    - intros [_ [H _]]. destruct (H c q Hin) as [_ Hle]. exact (Qlt_not_le _ _ Hq Hle). }
  destruct (existsb (fun q => Qlt_bool (snd q) 0) D) eqn:H2.
  { right. split; [reflexivity|].
    apply (existsb_score_iff (fun q => Qlt_bool q 0)) in H2. destruct H2 as [c [q [Hin Hq]]].
    apply Qlt_bool_iff in Hq. split.
    - right. left. exists c, q. split; [exact Hin|right; exact Hq].
    - intros [_ [H _]]. destruct (H c q Hin) as [Hle _]. exact (Qlt_not_le _ _ Hq Hle). }
  assert (Hrange : forall c q, In (c, q) D -> 0 <= q /\ q <= L).
  { intros c q Hin. split.
    - apply Qlt_bool_false_iff. destruct (Qlt_bool q 0) eqn:E; [|reflexivity].
      assert (Hx : existsb (fun q0 : cand * Q => Qlt_bool (snd q0) 0) D = true).
      { apply (existsb_score_iff (fun q => Qlt_bool q 0)). exists c, q. split; assumption. }
      congruence.
    - apply Qlt_bool_false_iff. destruct (Qlt_bool L q) eqn:E; [|reflexivity].
      assert (Hx : existsb (fun q0 : cand * Q => Qlt_bool L (snd q0)) D = true).
      { apply (existsb_score_iff (fun q => Qlt_bool L q)). exists c, q. split; assumption. }
      congruence. }
  assert (Hnorange : ~ exists c q, In (c, q) D /\ (L < q \/ q < 0)).
  { intros [c [q [Hin [Hq|Hq]]]]; destruct (Hrange c q Hin) as [Ha Hb].
    - exact (Qlt_not_le _ _ Hq Hb).
    - exact (Qlt_not_le _ _ Hq Ha). }
  destruct k as [k'|].
  - destruct (Qlt_bool k' (qsum (map snd D))) eqn:H3.
    + apply Qlt_bool_iff in H3. right. split; [reflexivity|]. split.
      * right. right. exists k'. split; [reflexivity|exact H3].
      * intros [_ [_ Hle]]. exact (Qlt_not_le _ _ H3 Hle).
    + apply Qlt_bool_false_iff in H3. left. split; [reflexivity|]. split.
      * split; [discriminate|]. split; [exact Hrange|exact H3].
      * intros [H|[H|[k0 [Hk0 H]]]]; [discriminate|exact (Hnorange H)|].
        inversion Hk0; subst k0. exact (Qlt_not_le _ _ H H3).
  - left. split; [reflexivity|]. split.
    + split; [discriminate|]. split; [exact Hrange|exact I].
    + intros [H|[H|[k0 [Hk0 _]]]]; [discriminate|exact (Hnorange H)|discriminate].
Qed.

Lemma rating_validate_iff : forall L k (p : profile),
  (rating_validate L k p = inr EType <-> exists b, In b (ballots p) /\ score_ballot_bad L k b) /\
  (forall e, rating_validate L k p = inr e -> e = EType) /\
  (rating_validate L k p = inl tt <-> Forall (score_ballot_ok L k) (ballots p)).
Proof.
  intros L k p. rewrite rating_validate_unfold.
  destruct (rfirst_err_uniform (rating_check L k) EType (score_ballot_bad L k)) with (l := ballots p)
    as [H1 [H2 H3]].
  - intros b. destruct (rating_check_cases L k b) as [[Hc [_ Hn]]|[Hc [Hb _]]]; rewrite Hc.
    + split; [discriminate|intros H; contradiction].
    + split; [intros _; exact Hb|reflexivity].
  - intros b e. destruct (rating_check_cases L k b) as [[Hc _]|[Hc _]]; rewrite Hc; intros H;
      inversion H; reflexivity.
  - split; [exact H1|]. split; [exact H2|]. rewrite H3, Forall_forall. split.
    + intros H b Hb. destruct (rating_check_cases L k b) as [[_ [Hok _]]|[_ [Hbad _]]]; [exact Hok|].
      exfalso. exact (H b Hb Hbad).
    + intros H b Hb Hbad. destruct (rating_check_cases L k b) as [[_ [_ Hn]]|[_ [_ Hn]]].
      * exact (Hn Hbad).
      * exact (Hn (H b Hb)).
Qed.

(* the first offending ballot in list order is the one reported *)
Lemma rating_validate_first : forall L k (p : profile) e,
  rating_validate L k p = inr e <->
  exists pre b post, ballots p = pre ++ b :: post /\
    Forall (score_ballot_ok L k) pre /\ score_ballot_bad L k b /\ e = EType.
Proof.
  intros L k p e. rewrite rating_validate_unfold, rfirst_err_first. split.
  - intros [pre [b [post [Hl [Hpre Hb]]]]]. exists pre, b, post. split; [exact Hl|].
    split; [|].
    + apply Forall_forall. intros x Hx. specialize (Hpre x Hx).
      destruct (rating_check_cases L k x) as [[_ [Hok _]]|[Hc _]]; [exact Hok|congruence].
    + destruct (rating_check_cases L k b) as [[Hc _]|[Hc [Hbad _]]]; [congruence|].
      split; [exact Hbad|congruence].
  - intros [pre [b [post [Hl [Hpre [Hb ->]]]]]]. exists pre, b, post. split; [exact Hl|]. split.
    + rewrite Forall_forall in Hpre. intros x Hx.
      destruct (rating_check_cases L k x) as [[Hc _]|[_ [_ Hn]]]; [exact Hc|].
      exfalso. exact (Hn (Hpre x Hx)).
    + destruct (rating_check_cases L k b) as [[_ [_ Hn]]|[Hc _]]; [contradiction|exact Hc].
Qed.

Lemma run_rating_prologue : forall m L k tb (p : profile) s,
  run_rating m L k tb p s =
  match rating_args m L k with
  | inr e => inr e
  | inl _ => match rating_validate L k p with
             | inr e => inr e
             | inl _ => run_one_shot SKBallotScores m tb p s
             end
  end.
Proof.
  intros m L k tb p s. unfold Rules.run_rating. rewrite mbind_mlift.
  destruct (rating_args m L k); [|reflexivity]. apply mbind_mlift.
Qed.

Theorem c20_scores_required_proof : forall m L k tb (p : profile) s,
  (rating_validate L k p = inr EType <-> exists b, In b (ballots p) /\ score_ballot_bad L k b) /\
  (forall e, rating_validate L k p = inr e -> e = EType) /\
  (rating_args_ok m L k -> (exists b, In b (ballots p) /\ score_ballot_bad L k b) ->
     run_rating m L k tb p s = inr EType).
Proof.
  intros m L k tb p s. destruct (rating_validate_iff L k p) as [H1 [H2 _]].
  split; [exact H1|]. split; [exact H2|]. intros Hargs Hex.
  rewrite run_rating_prologue.
  rewrite (proj2 (proj2 (proj2 (rating_args_iff m L k))) Hargs).
  rewrite (proj2 H1 Hex). reflexivity.
Qed.

Theorem c20_rating_limits_proof : forall m L k,
  (rating_args m L k = inr EValue <->
     (m <= 0)%Z \/ L <= 0 \/ exists k', k = Some k' /\ (k' <= 0 \/ k' < L)) /\
  (forall e, rating_args m L k = inr e -> e = EValue) /\
  (forall tb (p : profile) s,
     ((m <= 0)%Z \/ L <= 0 \/ exists k', k = Some k' /\ (k' <= 0 \/ k' < L)) ->
     run_rating m L k tb p s = inr EValue).
Proof.
  intros m L k. destruct (rating_args_iff m L k) as [H1 [H2 _]].
  split; [exact H1|]. split; [exact H2|]. intros tb p s Hbad.
  rewrite run_rating_prologue. rewrite (proj2 H1 Hbad). reflexivity.
Qed.

(* Limited: the budget may not exceed the seat count — tested before anything else *)
Theorem c20_limited_limits_proof : forall m k tb (p : profile) s,
  ((inject_Z m < k \/ (m <= 0)%Z \/ k <= 0) -> run_rule (RLimited m k tb) p s = inr EValue) /\
  (~ (inject_Z m < k \/ (m <= 0)%Z \/ k <= 0) ->
     run_rule (RLimited m k tb) p s =
     match rating_validate k (Some k) p with
     | inr e => inr e
     | inl _ => run_one_shot SKBallotScores m tb p s
     end).
Proof.
  intros m k tb p s. cbn [Rules.run_rule]. split.
  - intros H. destruct (Qlt_bool (inject_Z m) k) eqn:Hg; [reflexivity|].
    apply Qlt_bool_false_iff in Hg. rewrite run_rating_prologue.
    assert (Hbad : rating_args_bad m k (Some k)).
    { destruct H as [H|[H|H]].
      - exfalso. exact (Qlt_not_le _ _ H Hg).
      - left. exact H.
      - right. right. exists k. split; [reflexivity|left; exact H]. }
    rewrite (proj2 (proj1 (rating_args_iff m k (Some k))) Hbad). reflexivity.
  - intros H. destruct (Qlt_bool (inject_Z m) k) eqn:Hg.
    { apply Qlt_bool_iff in Hg. exfalso. apply H. left. exact Hg. }
    apply Qlt_bool_false_iff in Hg. rewrite run_rating_prologue.
    assert (Hok : rating_args_ok m k (Some k)).
    { assert (Hm : (1 <= m)%Z).
      { destruct (Z_le_gt_dec m 0) as [Hle|Hgt]; [exfalso; apply H; right; left; exact Hle|lia]. }
      assert (Hk : 0 < k).
      { apply Qnot_le_lt. intros Hle. apply H. right. right. exact Hle. }
      split; [exact Hm|]. split; [exact Hk|]. split; [exact Hk|apply Qle_refl]. }
    rewrite (proj2 (proj2 (proj2 (rating_args_iff m k (Some k)))) Hok). reflexivity.
Qed.

(* ---------- V10: seat count outside 1..n in the one-shot rules ---------- *)

Lemma score_from_scores_keys : forall (p : profile) d,
  score_from_scores cand ceqb p = inl d -> map fst d = cands p.
Proof.
  intros p d H. unfold Core.score_from_scores in H.
  destruct (existsb _ (ballots p)); [discriminate|].
  destruct (forallb _ (ballots p)); cbn [negb] in H; [|discriminate].
  unfold ok in H. inversion H. rewrite map_map. cbn [fst]. apply map_id.
Qed.

Lemma score_fn_keys : forall k (p : profile) d, score_fn k p = inl d -> map fst d = cands p.
Proof.
  intros k p d H. destruct k; cbn [Rules.score_fn] in H.
  - unfold Core.first_place_votes in H. eapply score_rankings_keys. exact H.
  - unfold Core.borda_scores in H. eapply score_rankings_keys. exact H.
  - eapply score_rankings_keys. exact H.
  - apply score_from_scores_keys. exact H.
Qed.

Lemma ranking_size_scores : forall d : scores,
  length (flat (score_to_ranking d true)) = length d.
Proof.
  intros d. rewrite (Permutation_length (score_to_ranking_flat_perm_all cand d)). apply map_length.
Qed.

Lemma run_one_shot_unfold : forall k m tb (p : profile) s,
  run_one_shot k m tb p s =
  match score_fn k p with
  | inr e => inr e
  | inl d =>
      match elect_top_m (score_to_ranking d true) m (Some p) tb s with
      | inr e => inr e
      | inl ((el, rem, t), s1) =>
          match remove_cand_prof cand ceqb (flat el) true false p with
          | inr e => inr e
          | inl np =>
              match score_fn k np with
              | inr e => inr e
              | inl d1 =>
                  inl ([state_of_scores cand 0 (no_group cand) (no_group cand) [] d;
                        mkState 1 rem el (no_group cand)
                                (match t with Some x => [x] | None => [] end) d1], s1)
              end
          end
      end
  end.
Proof.
  intros k m tb p s. unfold Rules.run_one_shot, Rules.round0. rewrite mbind_mlift.
  destruct (score_fn k p) as [d|e]; [|reflexivity]. cbn [rbind ok].
  unfold mbind at 1. unfold Rules.one_shot_step. unfold mbind at 1.
  cbn [remaining state_of_scores].
  destruct (elect_top_m (score_to_ranking d true) m (Some p) tb s) as [[[[el rem] t] s1]|e];
    [|reflexivity].
  rewrite mbind_mlift.
  destruct (remove_cand_prof cand ceqb (flat el) true false p) as [np|e]; [|reflexivity].
  rewrite mbind_mlift. destruct (score_fn k np) as [d1|e]; reflexivity.
Qed.

Theorem c20_elect_m_range_proof : forall k m tb (p : profile) s,
  (m < 1 \/ Z.of_nat (length (cands p)) < m)%Z ->
  run_one_shot k m tb p s = match score_fn k p with inl _ => inr EValue | inr e => inr e end.
Proof.
  intros k m tb p s Hm. rewrite run_one_shot_unfold.
  destruct (score_fn k p) as [d|e] eqn:Hd; [|reflexivity].
  rewrite elect_top_m_range; [reflexivity|].
  rewrite ranking_size_scores, <- (map_length fst d), (score_fn_keys k p d Hd). exact Hm.
Qed.

(* the same, rule by rule, after the profile has passed validation *)
Theorem c20_elect_m_range_rules_proof : forall m tb (p : profile) s,
  (m < 1 \/ Z.of_nat (length (cands p)) < m)%Z ->
  (ranking_validate p = inl tt ->
     run_plurality m tb p s =
     match first_place_votes cand ceqb p with inl _ => inr EValue | inr e => inr e end) /\
  (forall v, validate_vector (borda_vec v p) = inl tt -> ranking_validate p = inl tt ->
     run_rule (RBorda m v tb) p s =
     match score_rankings cand ceqb p (borda_vec v p) with inl _ => inr EValue | inr e => inr e end) /\
  (forall L k, rating_args_ok m L k -> Forall (score_ballot_ok L k) (ballots p) ->
     run_rating m L k tb p s =
     match score_from_scores cand ceqb p with inl _ => inr EValue | inr e => inr e end).
Proof.
  intros m tb p s Hm. split; [|split].
  - intros Hv. rewrite run_plurality_prologue, Hv. apply (c20_elect_m_range_proof SKFpv). exact Hm.
  - intros v Hvec Hv. rewrite run_borda_prologue, Hvec, Hv.
    apply (c20_elect_m_range_proof (SKVector (borda_vec v p))). exact Hm.
  - intros L k Hargs Hbs. rewrite run_rating_prologue.
    rewrite (proj2 (proj2 (proj2 (rating_args_iff m L k))) Hargs).
    rewrite (proj2 (proj2 (proj2 (rating_validate_iff L k p))) Hbs).
    apply (c20_elect_m_range_proof SKBallotScores). exact Hm.
Qed.

(* a well-formed ranked profile is always scored, so the answer is ValueError outright *)
Lemma wf_profile_ranking_validate : forall p : profile,
  wf_profile cand p -> ranking_validate p = inl tt.
Proof.
  intros p [_ Hbs]. apply (proj2 (proj2 (ranking_validate_iff p))). intros b Hb.
  rewrite Forall_forall in Hbs. destruct (Hbs b Hb) as [Hne _]. exact Hne.
Qed.

Lemma fpv_vector_valid_vector : forall n, valid_vector (fpv_vector n).
Proof.
  intros n. unfold fpv_vector. split.
  - constructor; [discriminate|]. apply Forall_forall. intros x Hx.
    apply repeat_spec in Hx. subst x. apply Qle_refl.
  - assert (H : forall k, non_increasing (repeat 0 k)).
    { induction k as [|k IH]; [exact I|]. cbn [repeat non_increasing]. split; [|exact IH].
      destruct k; [exact I|cbn [repeat]; apply Qle_refl]. }
    cbn [non_increasing]. split; [|apply H]. destruct n; [exact I|cbn [repeat]; discriminate].
Qed.

Theorem c20_plurality_m_range_proof : forall m tb (p : profile) s,
  wf_profile cand p -> (m < 1 \/ Z.of_nat (length (cands p)) < m)%Z ->
  run_plurality m tb p s = inr EValue.
Proof.
  intros m tb p s Hwf Hm.
  destruct (c20_elect_m_range_rules_proof m tb p s Hm) as [H _].
  rewrite (H (wf_profile_ranking_validate p Hwf)).
  destruct (score_rankings_succeeds cand ceqb ceqb_spec p (fpv_vector (length (cands p))) Hwf) as [d Hd].
  - apply validate_vector_iff. apply fpv_vector_valid_vector.
  - unfold Core.first_place_votes. rewrite Hd. reflexivity.
Qed.

(* ---------- V9: duplicate candidates (from C11) ---------- *)

Theorem c20_dup_candidates_proof : forall (bs : list ballot) (cs : list cand),
  (mk_profile cand ceqb bs cs = inr EValue <-> ~ NoDup cs) /\
  (forall e, mk_profile cand ceqb bs cs = inr e -> e = EValue) /\
  (NoDup cs -> exists p, mk_profile cand ceqb bs cs = inl p).
Proof. exact (mk_profile_dup_full cand ceqb ceqb_spec). Qed.

End Validation.
