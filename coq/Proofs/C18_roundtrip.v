(* Proofs/C18_roundtrip.v — order-INSENSITIVE facts about load_csv and the to_csv -> load_csv
   round trip.  Nothing here says in which order load_csv emits its ballots (the implementation
   sorts the groups, the model keeps first-occurrence order, and the harness compares them as a
   set): every conclusion is up to Permutation / profile_eq / membership.
   Uses Proofs/C18_order.v as a lemma library. *)
From VK Require Import Base Core Loaders.
From VK.Spec Require Import EditSpec Content LoaderSpec LoaderOrderSpec.
From VK.Proofs Require Import Lib_sets C08_anon C18_loaders C18_order.
From Coq Require Import Lia Permutation.

Section WithCand.
Variable cand : Type.
Variable ceqb : cand -> cand -> bool.
Hypothesis ceqb_spec : forall a b, reflect (a = b) (ceqb a b).
Variable blank : cand.

Notation cell := (cell cand).
Notation ballot := (ballot cand).
Notation profile := (profile cand).
Notation load_csv := (load_csv cand ceqb blank).
Notation pattern := (pattern cand).
Notation wf_table := (wf_table cand blank).
Notation csv_ballot := (csv_ballot cand ceqb blank).
Notation patterns_in_order := (patterns_in_order cand ceqb).

(* the multiset of ballots: one expected ballot per distinct pattern, for ANY duplicate-free
   enumeration [ks] of the patterns of the rows *)
Theorem load_csv_multiset : forall ncols rows rc wc ic, wf_table ncols rows rc wc ic ->
  exists p, load_csv ncols rows rc wc ic = inl p /\
    forall ks : list (list cell), NoDup ks ->
      (forall k, In k ks <-> exists r, In r rows /\ pattern (sel_ranks ncols rc wc ic) r = k) ->
      Permutation (ballots p) (map (csv_ballot (sel_ranks ncols rc wc ic) wc ic rows) ks).
Proof.
  intros ncols rows rc wc ic WF.
  pose proof (load_csv_exact cand ceqb ceqb_spec blank ncols rows rc wc ic WF) as Hex.
  destruct (patterns_in_order_spec cand ceqb ceqb_spec blank ncols rows rc wc ic WF) as (Hnd & Hin & _).
  eexists. split; [exact Hex|]. intros ks Hks Hksin. cbn [ballots].
  apply Permutation_map. apply NoDup_Permutation; [exact Hnd|exact Hks|].
  intros k. rewrite Hin, Hksin. reflexivity.
Qed.

(* the candidate SET: duplicate-free, exactly the candidates cast on a positive-weight ballot *)
Theorem load_csv_cands_set : forall ncols rows rc wc ic, wf_table ncols rows rc wc ic ->
  forall p, load_csv ncols rows rc wc ic = inl p ->
  NoDup (cands p) /\
  forall c, In c (cands p) <->
            exists b, In b (ballots p) /\ 0 < wt b /\ In c (ballot_cands cand b).
Proof.
  intros ncols rows rc wc ic WF p Hp.
  rewrite (load_csv_exact cand ceqb ceqb_spec blank ncols rows rc wc ic WF) in Hp.
  injection Hp as <-. cbn [cands ballots]. split.
  - unfold Core.cast_cands. apply (dedup_NoDup cand ceqb ceqb_spec).
  - intros c. apply (cast_cands_In cand ceqb ceqb_spec).
Qed.

End WithCand.

(* the short-ballot witness with the rankings of the reloaded profile given as a multiset *)
Theorem roundtrip_short_refuted_perm :
  exists (n : nat) (p p' : Core.profile positive),
    ballots p <> [] /\ (forall b, In b (ballots p) -> cvr_ballot positive 9%positive n b) /\
    Loaders.load_csv positive Pos.eqb 9%positive (S n)
      (map (cvr_cells positive n) (Loaders.to_csv_rows positive p)) [] (Some 0%nat) None = inl p' /\
    Permutation (map rk (ballots p')) [[[1];[2]]; [[1];[9]]]%positive /\
    Core.profile_eq positive Pos.eqb p p' = false.
Proof.
  destruct roundtrip_short_refuted as (n & p & p' & H1 & H2 & H3 & H4 & H5).
  exists n, p, p'. split; [exact H1|]. split; [exact H2|]. split; [exact H3|]. split; [|exact H5].
  rewrite H4. apply perm_swap.
Qed.
