(* Proofs/ParamModel.v — the parametricity translation (Paramcoq) of the whole model.

   [Parametricity Recursive f] produces [f_R], the relational free theorem of [f].  Paramcoq 's
   translation of a [fix] needs the body to start with a [match] on the structural argument whose
   branches do not mention that argument again; otherwise it leaves proof obligations, which this
   build of the plugin cannot keep open.  For the few model fixpoints of that shape
   ([borda_vector], [insert_desc], [insert_desc_nat], [fact], [elect_loop], [insert_all], [stv_loop],
   [dictator_loop]) we either
   - give a [Realizer] directly when the function is over ground types (relation = equality), or
   - define a variant [f_p] in the accepted shape, prove [f = f_p] (pointwise, no axiom), translate
     [f_p], and register the transported [f_p_R] as the [Realizer] of [f].
   Either way the result is a closed term; no axiom is introduced. *)
From Param Require Import Param.
From VK Require Import Base Core STV Pairwise Rules ParamArith.

Lemma list_R_refl : forall A (RA : A -> A -> Type), (forall a, RA a a) ->
  forall l, list_R A A RA l l.
Proof. intros A RA H l; induction l as [|a l IH]; constructor; auto. Defined.
Lemma list_R_eq : forall A (RA : A -> A -> Type), (forall a b, RA a b -> a = b) ->
  forall l l', list_R A A RA l l' -> l = l'.
Proof.
  intros A RA H l l' HR; induction HR as [|a b Hab l l' Hl IH]; [reflexivity|].
  apply H in Hab. congruence.
Defined.

(* retarget the statement of [H : ... xp ...] to the same statement about [x] *)
Ltac retarget xp x H :=
  let T := type of H in
  match eval pattern xp in T with
  | ?F _ => let T' := eval cbv beta in (F x) in exact T'
  end.

(* ---------- ground fixpoints: realizers ---------- *)
Parametricity Recursive Qnat.

Definition borda_vector_real : forall n n', nat_R n n' ->
  list_R Q Q Q_R (borda_vector n) (borda_vector n').
Proof. intros n n' H; apply nat_R_eq in H; subst; apply list_R_refl, Q_R_refl. Defined.
Realizer borda_vector as borda_vector_R := borda_vector_real.

Definition insert_desc_real : forall x x', Q_R x x' -> forall l l', list_R Q Q Q_R l l' ->
  list_R Q Q Q_R (insert_desc x l) (insert_desc x' l').
Proof.
  intros x x' H l l' Hl; apply Q_R_eq in H; apply list_R_eq in Hl; [|exact Q_R_eq]; subst.
  apply list_R_refl, Q_R_refl.
Defined.
Realizer insert_desc as insert_desc_R := insert_desc_real.

Definition insert_desc_nat_real : forall x x', nat_R x x' ->
  forall l l', list_R nat nat nat_R l l' ->
  list_R nat nat nat_R (insert_desc_nat x l) (insert_desc_nat x' l').
Proof.
  intros x x' H l l' Hl; apply nat_R_eq in H; apply list_R_eq in Hl; [|exact nat_R_eq]; subst.
  apply list_R_refl, nat_R_refl.
Defined.
Realizer insert_desc_nat as insert_desc_nat_R := insert_desc_nat_real.

Definition fact_real : forall n n', nat_R n n' -> nat_R (fact n) (fact n').
Proof. intros n n' H; apply nat_R_eq in H; subst; apply nat_R_refl. Defined.
Realizer fact as fact_R := fact_real.

(* ---------- variants in the shape Paramcoq accepts ---------- *)
Section Friendly.
Variable cand : Type.
Variable ceqb : cand -> cand -> bool.

Fixpoint insert_all_p (x : cand) (l : list cand) : list (list cand) :=
  match l with
  | [] => [[x]]
  | y :: l' => (x :: y :: l') :: map (cons y) (insert_all_p x l')
  end.
Lemma insert_all_p_eq : forall x l, insert_all cand x l = insert_all_p x l.
Proof.
  intros x l; induction l as [|y l' IH]; [reflexivity|].
  cbn [insert_all insert_all_p]. rewrite IH. reflexivity.
Defined.

Fixpoint elect_loop_p (r : ranking cand) (need : nat) (acc : ranking cand)
         (p : option (profile cand)) (tb : option tb_kind) {struct r}
  : M cand (ranking cand * ranking cand * option (cset cand * ranking cand)) :=
  match r with
  | [] => match need with
          | O => mret (rev acc, [], None)
          | S _ => mfail EIndex
          end
  | s :: r' =>
      match need with
      | O => mret (rev acc, s :: r', None)
      | S _ =>
          if Nat.leb (length s) need
          then elect_loop_p r' (need - length s) (s :: acc) p tb
          else match tb with
               | None => mfail EValue
               | Some k =>
                   do! t := tiebreak_set cand ceqb s p k in
                   mret (rev acc ++ firstn need t, skipn need t ++ r', Some (s, t))
               end
      end
  end.
Lemma elect_loop_p_eq : forall r need acc p tb,
  elect_loop cand ceqb r need acc p tb = elect_loop_p r need acc p tb.
Proof.
  induction r as [|s r' IH]; intros need acc p tb; destruct need as [|n]; try reflexivity.
  cbn [elect_loop elect_loop_p]. destruct (Nat.leb (length s) (S n)); [apply IH|reflexivity].
Defined.
End Friendly.

Parametricity Recursive insert_all_p.
Definition insert_all_real : ltac:(retarget (@insert_all_p) (@insert_all) insert_all_p_R).
Proof. intros. rewrite !insert_all_p_eq. apply insert_all_p_R; assumption. Defined.
Realizer insert_all as insert_all_R := insert_all_real.

Parametricity Recursive elect_loop_p.
Definition elect_loop_real : ltac:(retarget (@elect_loop_p) (@elect_loop) elect_loop_p_R).
Proof. intros. rewrite !elect_loop_p_eq. apply elect_loop_p_R; assumption. Defined.
Realizer elect_loop as elect_loop_R := elect_loop_real.

Section Friendly2.
Variable cand : Type.
Variable ceqb : cand -> cand -> bool.

Fixpoint stv_loop_p (fuel : nat) (cfg : stv_cfg) (t : Q) (p0 p : profile cand)
         (sts : list (estate cand)) {struct fuel} : M cand (list (estate cand)) :=
  match fuel with
  | O => if Z.eqb (count_elected cand sts) (s_m cfg) then mret (rev sts) else mfail EFuel
  | S fuel' =>
      if Z.eqb (count_elected cand sts) (s_m cfg) then mret (rev sts)
      else
        match sts with
        | [] => mfail EOther
        | prev :: _ =>
            do! (np, st) := stv_step cand ceqb cfg t p0 (count_elected cand sts) p prev in
            stv_loop_p fuel' cfg t p0 np (st :: sts)
        end
  end.
Lemma stv_loop_p_eq : forall fuel cfg t p0 p sts s,
  stv_loop cand ceqb fuel cfg t p0 p sts s = stv_loop_p fuel cfg t p0 p sts s.
Proof.
  induction fuel as [|fuel' IH]; intros cfg t p0 p sts s; [reflexivity|].
  cbn [stv_loop stv_loop_p].
  destruct (Z.eqb (count_elected cand sts) (s_m cfg)); [reflexivity|].
  destruct sts as [|prev rest]; [reflexivity|].
  unfold mbind.
  destruct (stv_step cand ceqb cfg t p0 (count_elected cand (prev :: rest)) p prev s)
    as [[[np st] s']|e]; [apply IH|reflexivity].
Defined.

Fixpoint dictator_loop_p (fuel : nat) (boosted : bool) (m : Z) (p : profile cand)
         (sts : list (estate cand)) {struct fuel} : M cand (list (estate cand)) :=
  match fuel with
  | O => if (m <=? count_elected cand sts)%Z then mret (rev sts) else mfail EFuel
  | S fuel' =>
      if (m <=? count_elected cand sts)%Z then mret (rev sts)
      else
        match sts with
        | [] => mfail EOther
        | prev :: _ =>
            do! (np, st) := (if boosted then brd_step cand ceqb p prev
                             else rd_step cand ceqb p prev) in
            dictator_loop_p fuel' boosted m np (st :: sts)
        end
  end.
Lemma dictator_loop_p_eq : forall fuel boosted m p sts s,
  dictator_loop cand ceqb fuel boosted m p sts s = dictator_loop_p fuel boosted m p sts s.
Proof.
  induction fuel as [|fuel' IH]; intros boosted m p sts s; [reflexivity|].
  cbn [dictator_loop dictator_loop_p].
  destruct (m <=? count_elected cand sts)%Z; [reflexivity|].
  destruct sts as [|prev rest]; [reflexivity|].
  unfold mbind.
  destruct ((if boosted then brd_step cand ceqb p prev else rd_step cand ceqb p prev) s)
    as [[[np st] s']|e]; [apply IH|reflexivity].
Defined.
End Friendly2.

Parametricity Recursive stv_loop_p.
Definition stv_loop_real : ltac:(retarget (@stv_loop_p) (@stv_loop) stv_loop_p_R).
Proof.
  intros. unfold M_R. intros s₁ s₂ s_R. rewrite !stv_loop_p_eq.
  apply stv_loop_p_R; assumption.
Defined.
Realizer stv_loop as stv_loop_R := stv_loop_real.

Parametricity Recursive dictator_loop_p.
Definition dictator_loop_real :
  ltac:(retarget (@dictator_loop_p) (@dictator_loop) dictator_loop_p_R).
Proof.
  intros. unfold M_R. intros s₁ s₂ s_R. rewrite !dictator_loop_p_eq.
  apply dictator_loop_p_R; assumption.
Defined.
Realizer dictator_loop as dictator_loop_R := dictator_loop_real.

(* ---------- the whole model ---------- *)
Parametricity Recursive score_rankings.
Parametricity Recursive first_place_votes.
Parametricity Recursive borda_scores.
Parametricity Recursive mentions.
Parametricity Recursive score_from_scores.
Parametricity Recursive score_to_ranking.
Parametricity Recursive remove_cand_bs.
Parametricity Recursive remove_cand_prof.
Parametricity Recursive condense_bs.
Parametricity Recursive condense.
Parametricity Recursive total_wt.
Parametricity Recursive elect_top_m.
Parametricity Recursive resolve_profile_ties.
Parametricity Recursive profile_eq.
Parametricity Recursive profile_add.
Parametricity Recursive h2h.
Parametricity Recursive pairwise_graph.
Parametricity Recursive dominating_tiers.
Parametricity Recursive has_condorcet_winner.
Parametricity Recursive stv_step.
Parametricity Recursive run_stv.
Parametricity Recursive run_one_shot.
Parametricity Recursive run_rule.
Parametricity Recursive get_elected.
Parametricity Recursive get_eliminated.
Parametricity Recursive get_remaining.
Parametricity Recursive get_ranking.
Parametricity Recursive get_status.
Parametricity Recursive replay_profile.
