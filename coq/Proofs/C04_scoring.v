(* Proofs/C04_scoring.v — positional scoring (score_rankings and its special cases) and
   score_to_ranking: the proofs behind Properties/C04.v. *)
From VK Require Import Base Core.
From VK.Proofs Require Import Lib_sets Lib_condense.
From VK.Spec Require Import ScoreSpec.
From Coq Require Import Permutation Lia Lqa Setoid Morphisms Sorting.Sorted.

(* ------------------------------------------------------------------ *)
(** * insert_desc / distinct_desc : the distinct score values, strictly descending *)

Definition sdesc (l : list Q) : Prop := StronglySorted (fun a b => b < a) l.

Lemma Qlt_bool_iff : forall a b, Qlt_bool a b = true <-> a < b.
Proof.
  intros a b. unfold Qlt_bool. rewrite negb_true_iff. split.
  - intros H. apply Qnot_le_lt. intros Hle. apply Qle_bool_iff in Hle. congruence.
  - intros H. apply not_true_is_false. intros Hle. apply Qle_bool_iff in Hle.
    exact (Qlt_not_le _ _ H Hle).
Qed.

Lemma Qlt_bool_false_iff : forall a b, Qlt_bool a b = false <-> b <= a.
Proof.
  intros a b. unfold Qlt_bool. rewrite negb_false_iff. apply Qle_bool_iff.
Qed.

Lemma Qeq_bool_refl : forall a, Qeq_bool a a = true.
Proof. intros a. apply Qeq_bool_iff. reflexivity. Qed.

Lemma Qeq_bool_false_iff : forall a b, Qeq_bool a b = false <-> ~ a == b.
Proof.
  intros a b. split.
  - intros H Heq. apply Qeq_bool_iff in Heq. congruence.
  - intros H. apply not_true_is_false. intros Heq. apply H. apply Qeq_bool_iff. exact Heq.
Qed.

Lemma insert_desc_In : forall x l y, In y (insert_desc x l) -> y = x \/ In y l.
Proof.
  intros x l. induction l as [|z l IH]; intros y H.
  - cbn [insert_desc] in H. destruct H as [<-|[]]. left. reflexivity.
  - cbn [insert_desc] in H. destruct (Qeq_bool x z).
    + right. exact H.
    + destruct (Qlt_bool z x).
      * destruct H as [<-|H]; [left; reflexivity|right; exact H].
      * destruct H as [<-|H]; [right; left; reflexivity|].
        destruct (IH y H) as [->|Hin]; [left; reflexivity|right; right; exact Hin].
Qed.

Lemma insert_desc_keeps : forall x l y, In y l -> In y (insert_desc x l).
Proof.
  intros x l. induction l as [|z l IH]; intros y H.
  - destruct H.
  - cbn [insert_desc]. destruct (Qeq_bool x z); [exact H|].
    destruct (Qlt_bool z x); [right; exact H|].
    destruct H as [<-|H]; [left; reflexivity|right; apply IH; exact H].
Qed.

Lemma insert_desc_covers : forall x l, exists y, In y (insert_desc x l) /\ x == y.
Proof.
  intros x l. induction l as [|z l IH].
  - exists x. split; [left; reflexivity|reflexivity].
  - cbn [insert_desc]. destruct (Qeq_bool x z) eqn:Heq.
    + exists z. split; [left; reflexivity|apply Qeq_bool_iff; exact Heq].
    + destruct (Qlt_bool z x).
      * exists x. split; [left; reflexivity|reflexivity].
      * destruct IH as [y [Hy Hxy]]. exists y. split; [right; exact Hy|exact Hxy].
Qed.

Lemma insert_desc_sorted : forall x l, sdesc l -> sdesc (insert_desc x l).
Proof.
  intros x l H. induction H as [|z l Hs IH Hall].
  - cbn [insert_desc]. constructor; constructor.
  - cbn [insert_desc]. destruct (Qeq_bool x z) eqn:Heq.
    + constructor; assumption.
    + destruct (Qlt_bool z x) eqn:Hlt.
      * apply Qlt_bool_iff in Hlt. constructor.
        -- constructor; assumption.
        -- constructor; [exact Hlt|].
           rewrite Forall_forall in Hall |- *. intros y Hy.
           eapply Qlt_trans; [apply Hall; exact Hy|exact Hlt].
      * apply Qlt_bool_false_iff in Hlt. apply Qeq_bool_false_iff in Heq.
        assert (Hxz : x < z).
        { apply Qle_lt_or_eq in Hlt. destruct Hlt as [Hlt|Hlt]; [exact Hlt|contradiction]. }
        constructor; [exact IH|].
        rewrite Forall_forall in Hall |- *. intros y Hy.
        apply insert_desc_In in Hy. destruct Hy as [->|Hy]; [exact Hxz|apply Hall; exact Hy].
Qed.

Lemma distinct_desc_sorted : forall l, sdesc (distinct_desc l).
Proof.
  induction l as [|x l IH]; [constructor|]. cbn [distinct_desc fold_right].
  apply insert_desc_sorted. exact IH.
Qed.

Lemma distinct_desc_In : forall l y, In y (distinct_desc l) -> In y l.
Proof.
  induction l as [|x l IH]; intros y H; [exact H|].
  cbn [distinct_desc fold_right] in H. apply insert_desc_In in H.
  destruct H as [->|H]; [left; reflexivity|right; apply IH; exact H].
Qed.

Lemma distinct_desc_covers : forall l x, In x l -> exists y, In y (distinct_desc l) /\ x == y.
Proof.
  induction l as [|z l IH]; intros x H; [destruct H|].
  cbn [distinct_desc fold_right]. destruct H as [<-|H].
  - apply insert_desc_covers.
  - destruct (IH x H) as [y [Hy Hxy]]. exists y. split; [|exact Hxy].
    apply insert_desc_keeps. exact Hy.
Qed.

Lemma sdesc_app_later : forall l1 a l2, sdesc (l1 ++ a :: l2) -> forall b, In b l2 -> b < a.
Proof.
  induction l1 as [|x l1 IH]; intros a l2 H b Hb.
  - cbn [app] in H. apply StronglySorted_inv in H. destruct H as [_ Hall].
    rewrite Forall_forall in Hall. apply Hall. exact Hb.
  - rewrite <- app_comm_cons in H. apply StronglySorted_inv in H. destruct H as [H _].
    eapply IH; eassumption.
Qed.

Lemma sdesc_distinct : forall l1 a l2, sdesc (l1 ++ a :: l2) -> forall b, In b l2 -> ~ a == b.
Proof.
  intros l1 a l2 H b Hb Heq. pose proof (sdesc_app_later l1 a l2 H b Hb) as Hlt.
  rewrite Heq in Hlt. exact (Qlt_irrefl _ Hlt).
Qed.

(* ------------------------------------------------------------------ *)
(** * score_to_ranking *)

Section Ranking.
Variable cand : Type.
Variable ceqb : cand -> cand -> bool.
Hypothesis ceqb_spec : forall a b, reflect (a = b) (ceqb a b).

Notation scores := (scores cand).
Notation ranking := (ranking cand).
Notation flat := (flat cand).
Notation score_to_ranking := (score_to_ranking cand).

Definition class_of (d : scores) (k : Q) : scores := filter (fun p => Qeq_bool (snd p) k) d.

Lemma score_to_ranking_unfold : forall d, d <> [] ->
  score_to_ranking d true = map (fun k => map fst (class_of d k)) (distinct_desc (map snd d)).
Proof.
  intros d Hd. unfold Core.score_to_ranking. destruct d as [|p d]; [contradiction|reflexivity].
Qed.

Lemma classes_perm : forall (d : scores) keys, sdesc keys ->
  Permutation (concat (map (class_of d) keys))
              (filter (fun p => existsb (fun k => Qeq_bool (snd p) k) keys) d).
Proof.
  intros d keys H. induction H as [|k ks Hs IH Hall].
  - cbn [map concat existsb]. rewrite filter_all_false; [constructor|reflexivity].
  - cbn [map concat existsb].
    eapply Permutation_trans; [apply Permutation_app_head; exact IH|].
    unfold class_of at 1.
    apply (filter_disjoint_or_perm (fun p => Qeq_bool (snd p) k)
             (fun p => existsb (fun k0 => Qeq_bool (snd p) k0) ks)).
    intros p _ Hpk. apply Qeq_bool_iff in Hpk.
    apply not_true_is_false. intros Hex. apply existsb_exists in Hex.
    destruct Hex as [k' [Hk' Hpk']]. apply Qeq_bool_iff in Hpk'.
    rewrite Forall_forall in Hall. specialize (Hall k' Hk').
    rewrite <- Hpk', Hpk in Hall. exact (Qlt_irrefl _ Hall).
Qed.

Lemma score_to_ranking_flat_perm : forall d, d <> [] ->
  Permutation (flat (score_to_ranking d true)) (map fst d).
Proof.
  intros d Hd. rewrite score_to_ranking_unfold by exact Hd. unfold Core.flat.
  rewrite (concat_map_map fst (class_of d)). apply Permutation_map.
  eapply Permutation_trans; [apply classes_perm; apply distinct_desc_sorted|].
  rewrite filter_all_true; [apply Permutation_refl|].
  intros p Hp. apply existsb_exists.
  destruct (distinct_desc_covers (map snd d) (snd p) (in_map snd d p Hp)) as [y [Hy Hpy]].
  exists y. split; [exact Hy|apply Qeq_bool_iff; exact Hpy].
Qed.

(* also true for the empty dictionary, whose ranking is [[]] *)
Lemma score_to_ranking_flat_perm_all : forall d,
  Permutation (flat (score_to_ranking d true)) (map fst d).
Proof.
  intros [|p d]; [constructor|]. apply score_to_ranking_flat_perm. discriminate.
Qed.

Lemma score_to_ranking_group_inv : forall d g, d <> [] -> In g (score_to_ranking d true) ->
  exists k, In k (map snd d) /\ g = map fst (class_of d k).
Proof.
  intros d g Hd Hg. rewrite score_to_ranking_unfold in Hg by exact Hd.
  apply in_map_iff in Hg. destruct Hg as [k [<- Hk]]. exists k. split; [|reflexivity].
  apply distinct_desc_In. exact Hk.
Qed.

Lemma score_to_ranking_nonempty_groups : forall d g, d <> [] ->
  In g (score_to_ranking d true) -> g <> [].
Proof.
  intros d g Hd Hg. destruct (score_to_ranking_group_inv d g Hd Hg) as [k [Hk ->]].
  apply in_map_iff in Hk. destruct Hk as [p [Hpk Hp]].
  assert (Hin : In p (class_of d k)).
  { unfold class_of. apply filter_In. split; [exact Hp|]. rewrite Hpk. apply Qeq_bool_refl. }
  intros Hnil. apply (in_map fst) in Hin. rewrite Hnil in Hin. destruct Hin.
Qed.

Lemma NoDup_keys_functional : forall (d : scores) c q q',
  NoDup (map fst d) -> In (c, q) d -> In (c, q') d -> q = q'.
Proof.
  induction d as [|[c0 q0] d IH]; intros c q q' Hnd H1 H2; [destruct H1|].
  cbn [map fst] in Hnd. inversion Hnd as [|x l Hnotin Hnd']; subst.
  destruct H1 as [H1|H1]; destruct H2 as [H2|H2].
  - congruence.
  - inversion H1; subst. exfalso. apply Hnotin. apply (in_map fst) in H2. exact H2.
  - inversion H2; subst. exfalso. apply Hnotin. apply (in_map fst) in H1. exact H1.
  - eapply IH; eassumption.
Qed.

Lemma in_class_of : forall (d : scores) k c, NoDup (map fst d) ->
  In c (map fst (class_of d k)) <-> exists q, In (c, q) d /\ q == k.
Proof.
  intros d k c Hnd. unfold class_of. split.
  - intros H. apply in_map_iff in H. destruct H as [[c' q] [Hc Hp]]. cbn [fst] in Hc. subst c'.
    apply filter_In in Hp. destruct Hp as [Hp Hq]. cbn [snd] in Hq. exists q. split; [exact Hp|].
    apply Qeq_bool_iff. exact Hq.
  - intros [q [Hp Hq]]. apply in_map_iff. exists (c, q). split; [reflexivity|].
    apply filter_In. split; [exact Hp|]. cbn [snd]. apply Qeq_bool_iff. exact Hq.
Qed.

Lemma score_to_ranking_same_group_iff : forall d c1 c2 q1 q2,
  d <> [] -> NoDup (map fst d) -> In (c1, q1) d -> In (c2, q2) d ->
  ((exists g, In g (score_to_ranking d true) /\ In c1 g /\ In c2 g) <-> q1 == q2).
Proof.
  intros d c1 c2 q1 q2 Hd Hnd H1 H2. split.
  - intros [g [Hg [Hc1 Hc2]]].
    destruct (score_to_ranking_group_inv d g Hd Hg) as [k [_ ->]].
    apply in_class_of in Hc1; [|exact Hnd]. apply in_class_of in Hc2; [|exact Hnd].
    destruct Hc1 as [q1' [Hp1 Hk1]]. destruct Hc2 as [q2' [Hp2 Hk2]].
    rewrite (NoDup_keys_functional d c1 q1 q1' Hnd H1 Hp1).
    rewrite (NoDup_keys_functional d c2 q2 q2' Hnd H2 Hp2).
    rewrite Hk1, Hk2. reflexivity.
  - intros Heq.
    destruct (distinct_desc_covers (map snd d) q1 (in_map snd d (c1, q1) H1)) as [k [Hk Hq1k]].
    exists (map fst (class_of d k)). split.
    + rewrite score_to_ranking_unfold by exact Hd.
      apply (in_map (fun k => map fst (class_of d k))). exact Hk.
    + split; apply in_class_of; try exact Hnd.
      * exists q1. split; [exact H1|exact Hq1k].
      * exists q2. split; [exact H2|]. rewrite <- Heq. exact Hq1k.
Qed.

Lemma score_to_ranking_order : forall d pre g1 mid g2 post c1 c2 q1 q2,
  d <> [] -> NoDup (map fst d) ->
  score_to_ranking d true = pre ++ g1 :: mid ++ g2 :: post ->
  In c1 g1 -> In c2 g2 -> In (c1, q1) d -> In (c2, q2) d -> q2 < q1.
Proof.
  intros d pre g1 mid g2 post c1 c2 q1 q2 Hd Hnd Hr Hc1 Hc2 H1 H2.
  rewrite score_to_ranking_unfold in Hr by exact Hd.
  apply map_eq_app in Hr. destruct Hr as [kpre [krest [Hkeys [_ Hrest]]]].
  apply map_eq_cons in Hrest. destruct Hrest as [k1 [krest' [-> [Hg1 Hrest]]]].
  apply map_eq_app in Hrest. destruct Hrest as [kmid [krest'' [-> [_ Hrest]]]].
  apply map_eq_cons in Hrest. destruct Hrest as [k2 [kpost [-> [Hg2 _]]]].
  subst g1 g2.
  apply in_class_of in Hc1; [|exact Hnd]. apply in_class_of in Hc2; [|exact Hnd].
  destruct Hc1 as [q1' [Hp1 Hk1]]. destruct Hc2 as [q2' [Hp2 Hk2]].
  rewrite (NoDup_keys_functional d c1 q1 q1' Hnd H1 Hp1).
  rewrite (NoDup_keys_functional d c2 q2 q2' Hnd H2 Hp2).
  rewrite Hk1, Hk2.
  pose proof (distinct_desc_sorted (map snd d)) as Hs. rewrite Hkeys in Hs.
  eapply sdesc_app_later; [exact Hs|]. apply in_or_app. right. left. reflexivity.
Qed.

Lemma score_to_ranking_NoDup : forall d, d <> [] -> NoDup (map fst d) ->
  NoDup (flat (score_to_ranking d true)).
Proof.
  intros d Hd Hnd. eapply Permutation_NoDup; [apply Permutation_sym, score_to_ranking_flat_perm; exact Hd|exact Hnd].
Qed.

(* every member of an earlier group scores strictly more than every member of a later group *)
Definition group_gt (d : scores) (g1 g2 : list cand) : Prop :=
  forall c1 c2 q1 q2, In c1 g1 -> In c2 g2 -> In (c1, q1) d -> In (c2, q2) d -> q2 < q1.

Lemma score_to_ranking_sorted : forall d, d <> [] -> NoDup (map fst d) ->
  StronglySorted (group_gt d) (score_to_ranking d true).
Proof.
  intros d Hd Hnd. rewrite score_to_ranking_unfold by exact Hd.
  apply SS_map. eapply SS_impl_in; [|apply distinct_desc_sorted].
  intros k1 k2 _ _ Hlt c1 c2 q1 q2 Hc1 Hc2 H1 H2. cbv beta in Hlt.
  apply in_class_of in Hc1; [|exact Hnd]. apply in_class_of in Hc2; [|exact Hnd].
  destruct Hc1 as [q1' [Hp1 Hk1]]. destruct Hc2 as [q2' [Hp2 Hk2]].
  rewrite (NoDup_keys_functional d c1 q1 q1' Hnd H1 Hp1).
  rewrite (NoDup_keys_functional d c2 q2 q2' Hnd H2 Hp2).
  rewrite Hk1, Hk2. exact Hlt.
Qed.

End Ranking.

(* ------------------------------------------------------------------ *)
(** * score_rankings: shape of the result *)

Section ScoreShape.
Variable cand : Type.
Variable ceqb : cand -> cand -> bool.

Notation profile := (profile cand).
Notation score_rankings := (score_rankings cand ceqb).
Notation add_missing := (add_missing cand ceqb).

Lemma add_missing_cands : forall (p p' : profile), add_missing p = inl p' -> cands p' = cands p.
Proof.
  intros p p' H. unfold Core.add_missing in H.
  destruct (rmap (add_missing_ballot cand ceqb (cands p)) (ballots p)) as [bs|e]; cbn [rbind] in H;
    [|discriminate].
  unfold ok in H. inversion H. reflexivity.
Qed.

(* what a successful score_rankings call computed *)
Lemma score_rankings_inv : forall (p : profile) v d, score_rankings p v = inl d ->
  exists p', validate_vector v = inl tt /\ add_missing p = inl p' /\
    existsb (fun b => existsb (fun s => negb (nonempty s)) (rk b)) (ballots p') = false /\
    all_known cand ceqb (cands p') (ballots p') = true /\
    d = map (fun c => (c, score_of cand ceqb (pad_to (length (cands p)) v) (ballots p') c)) (cands p).
Proof.
  intros p v d H. unfold Core.score_rankings in H.
  destruct (validate_vector v) as [[]|e] eqn:Hv; cbn [rbind] in H; [|discriminate].
  destruct (add_missing p) as [p'|e] eqn:Hp; cbn [rbind] in H; [|discriminate].
  destruct (existsb _ (ballots p')) eqn:Hne; [discriminate|].
  destruct (all_known cand ceqb (cands p') (ballots p')) eqn:Hk; cbn [negb] in H; [|discriminate].
  unfold ok in H. inversion H as [Hd]. exists p'. rewrite (add_missing_cands p p' Hp) in *.
  repeat split; try reflexivity; assumption.
Qed.

Lemma score_rankings_keys : forall (p : profile) v d, score_rankings p v = inl d -> map fst d = cands p.
Proof.
  intros p v d H. destruct (score_rankings_inv p v d H) as [p' [_ [_ [_ [_ ->]]]]].
  rewrite map_map. cbn [fst]. apply map_id.
Qed.

End ScoreShape.

(* ------------------------------------------------------------------ *)
(** * validate_vector *)

Lemma validate_vector_from_some : forall v p,
  validate_vector_from (Some p) v = inl tt <-> (Forall (fun x => 0 <= x) v /\ non_increasing (p :: v)).
Proof.
  induction v as [|x v IH]; intros p.
  - cbn [validate_vector_from non_increasing]. split; [intros _; repeat split; constructor|reflexivity].
  - cbn [validate_vector_from]. destruct (Qlt_bool x 0) eqn:Hx0.
    + apply Qlt_bool_iff in Hx0. split; [discriminate|]. intros [Hall _].
      inversion Hall as [|y l Hx _]; subst. exfalso. exact (Qlt_not_le _ _ Hx0 Hx).
    + apply Qlt_bool_false_iff in Hx0. destruct (Qlt_bool p x) eqn:Hpx.
      * apply Qlt_bool_iff in Hpx. split; [discriminate|]. intros [_ [Hle _]].
        exfalso. exact (Qlt_not_le _ _ Hpx Hle).
      * apply Qlt_bool_false_iff in Hpx. rewrite IH. split.
        -- intros [Hall Hni]. split; [constructor; assumption|]. split; assumption.
        -- intros [Hall [_ Hni]]. inversion Hall; subst. split; assumption.
Qed.

Lemma validate_vector_iff : forall v, validate_vector v = inl tt <-> valid_vector v.
Proof.
  intros v. unfold validate_vector, valid_vector. destruct v as [|x v].
  - cbn [validate_vector_from non_increasing]. split; [intros _; split; [constructor|exact I]|reflexivity].
  - cbn [validate_vector_from]. destruct (Qlt_bool x 0) eqn:Hx0.
    + apply Qlt_bool_iff in Hx0. split; [discriminate|]. intros [Hall _].
      inversion Hall as [|y l Hx _]; subst. exfalso. exact (Qlt_not_le _ _ Hx0 Hx).
    + apply Qlt_bool_false_iff in Hx0. rewrite validate_vector_from_some. split.
      * intros [Hall Hni]. split; [constructor; assumption|exact Hni].
      * intros [Hall Hni]. inversion Hall; subst. split; assumption.
Qed.

Lemma validate_vector_from_err : forall v p e, validate_vector_from p v = inr e -> e = EValue.
Proof.
  induction v as [|x v IH]; intros p e H.
  - discriminate.
  - cbn [validate_vector_from] in H. destruct (Qlt_bool x 0); [inversion H; reflexivity|].
    destruct p as [q|].
    + destruct (Qlt_bool q x); [inversion H; reflexivity|]. eapply IH; exact H.
    + eapply IH; exact H.
Qed.

(* ------------------------------------------------------------------ *)
(** * pad_to *)

Lemma pad_to_length : forall n v, (n <= length (pad_to n v))%nat /\ (length v <= length (pad_to n v))%nat.
Proof.
  induction n as [|n IH]; intros v.
  - cbn [pad_to]. lia.
  - destruct v as [|x v]; cbn [pad_to length].
    + destruct (IH []) as [H1 H2]. cbn [length] in *. lia.
    + destruct (IH v) as [H1 H2]. lia.
Qed.

Lemma pad_to_nth : forall n v j, nth j (pad_to n v) 0 = nth j v 0.
Proof.
  induction n as [|n IH]; intros v j.
  - reflexivity.
  - destruct v as [|x v]; cbn [pad_to].
    + destruct j as [|j]; [reflexivity|]. cbn [nth]. rewrite IH. destruct j; reflexivity.
    + destruct j as [|j]; [reflexivity|]. cbn [nth]. apply IH.
Qed.

Lemma firstn_pad_to : forall n v, firstn n (pad_to n v) = map (entry v) (seq 0 n).
Proof.
  intros n v. change (pad_to n v) with (skipn 0 (pad_to n v)) at 1.
  rewrite (firstn_skipn_seq 0 n 0 (pad_to n v)) by (destruct (pad_to_length n v); lia).
  apply map_ext. intros j. unfold entry. apply pad_to_nth.
Qed.

(* ------------------------------------------------------------------ *)
(** * group_allocs / alloc_of *)

Section Scoring.
Variable cand : Type.
Variable ceqb : cand -> cand -> bool.
Hypothesis ceqb_spec : forall a b, reflect (a = b) (ceqb a b).

Notation cset := (cset cand).
Notation ranking := (ranking cand).
Notation ballot := (ballot cand).
Notation profile := (profile cand).
Notation scores := (scores cand).
Notation flat := (flat cand).
Notation memb := (memb cand ceqb).
Notation set_diff := (set_diff cand ceqb).
Notation group_allocs := (group_allocs cand).
Notation alloc_of := (alloc_of cand ceqb).
Notation score_of := (score_of cand ceqb).
Notation score_rankings := (score_rankings cand ceqb).
Notation add_missing := (add_missing cand ceqb).
Notation add_missing_ballot := (add_missing_ballot cand ceqb).
Notation condense_bs := (condense_bs cand ceqb).
Notation listed_alloc := (listed_alloc cand ceqb).
Notation ballot_alloc := (ballot_alloc cand ceqb).
Notation wf_ranking := (wf_ranking cand).
Notation wf_profile := (wf_profile cand).
Notation singletons := (singletons cand).

Local Notation memb_In := (memb_In cand ceqb ceqb_spec).
Local Notation memb_false_iff := (memb_false_iff cand ceqb ceqb_spec).
Local Notation memb_reflect := (memb_reflect cand ceqb ceqb_spec).

Lemma group_allocs_keys : forall r v, map fst (group_allocs v r) = flat r.
Proof.
  induction r as [|s r IH]; intros v; [reflexivity|].
  cbn [Core.group_allocs]. rewrite map_app, map_map, IH. cbn [fst]. rewrite map_id. reflexivity.
Qed.

(* the points a ranking hands out are the first |flat r| entries of the vector *)
Lemma group_allocs_sum : forall r v,
  qsum (map snd (group_allocs v r)) == qsum (firstn (length (flat r)) v).
Proof.
  induction r as [|s r IH]; intros v.
  - reflexivity.
  - cbn [Core.group_allocs]. rewrite map_app, map_map, qsum_app. cbn [snd].
    rewrite qsum_map_const, IH, flat_cons, app_length, firstn_add_skipn, qsum_app.
    apply Qplus_inj_r. destruct s as [|c s].
    + cbn [length firstn]. rewrite qsum_nil, Qnat_0. ring.
    + field. apply Qnat_neq0. cbn [length]. lia.
Qed.

Lemma alloc_of_cons : forall c p (l : scores),
  alloc_of c (p :: l) == (if ceqb c (fst p) then snd p else 0) + alloc_of c l.
Proof.
  intros c p l. unfold Core.alloc_of. cbn [filter]. destruct (ceqb c (fst p)).
  - cbn [map]. rewrite qsum_cons. reflexivity.
  - ring.
Qed.

Lemma alloc_of_app : forall c (l1 l2 : scores), alloc_of c (l1 ++ l2) == alloc_of c l1 + alloc_of c l2.
Proof.
  intros c l1 l2. unfold Core.alloc_of. rewrite filter_app, map_app, qsum_app. reflexivity.
Qed.

Lemma alloc_of_notin : forall c (l : scores), ~ In c (map fst l) -> alloc_of c l == 0.
Proof.
  intros c l H. unfold Core.alloc_of. rewrite filter_all_false; [reflexivity|].
  intros p Hp. apply (ceqb_false_iff cand ceqb ceqb_spec). intros ->. apply H. apply in_map. exact Hp.
Qed.

Lemma alloc_of_const_group : forall c (a : Q) (s : cset), NoDup s ->
  alloc_of c (map (fun c' => (c', a)) s) == if memb c s then a else 0.
Proof.
  intros c a s H. induction H as [|x s Hnotin _ IH].
  - reflexivity.
  - cbn [map]. rewrite alloc_of_cons, IH. cbn [fst snd]. unfold Core.memb. cbn [existsb].
    fold (memb c s). destruct (ceqb_spec c x) as [->|Hne]; cbn [orb].
    + apply memb_false_iff in Hnotin. rewrite Hnotin. ring.
    + ring.
Qed.

(* summing a candidate's receipts over a duplicate-free list containing all recipients *)
Lemma alloc_of_sum_cands : forall (cs : cset) (l : scores), NoDup cs -> incl (map fst l) cs ->
  qsum (map (fun c => alloc_of c l) cs) == qsum (map snd l).
Proof.
  intros cs l Hnd. induction l as [|p l IH]; intros Hincl.
  - cbn [map]. rewrite qsum_nil. apply qsum_map_zero. intros c _. reflexivity.
  - cbn [map] in Hincl |- *. rewrite qsum_cons.
    rewrite (qsum_map_ext_in _ (fun c => (if ceqb c (fst p) then snd p else 0) + alloc_of c l) cs)
      by (intros c _; apply alloc_of_cons).
    rewrite qsum_map_plus, IH by (intros x Hx; apply Hincl; right; exact Hx).
    rewrite (qsum_indicator ceqb ceqb_spec (fst p) (snd p) cs Hnd).
    assert (Hex : existsb (fun c => ceqb c (fst p)) cs = true).
    { apply existsb_exists. exists (fst p). split; [apply Hincl; left; reflexivity|].
      apply (ceqb_refl cand ceqb ceqb_spec). }
    rewrite Hex. reflexivity.
Qed.

(* ---------- the model's allocation versus the specification [listed_alloc] ---------- *)

Lemma memb_app : forall c (a b : cset), memb c (a ++ b) = memb c a || memb c b.
Proof. intros c a b. unfold Core.memb. apply existsb_app. Qed.

Lemma listed_alloc_notin : forall r v i c, ~ In c (flat r) -> listed_alloc v i r c = 0.
Proof.
  induction r as [|s r IH]; intros v i c H; [reflexivity|].
  cbn [ScoreSpec.listed_alloc]. rewrite flat_cons in H.
  assert (Hs : memb c s = false).
  { apply memb_false_iff. intros Hin. apply H. apply in_or_app. left. exact Hin. }
  rewrite Hs. apply IH. intros Hin. apply H. apply in_or_app. right. exact Hin.
Qed.

Lemma listed_alloc_app : forall r1 r2 v i c,
  listed_alloc v i (r1 ++ r2) c =
  if memb c (flat r1) then listed_alloc v i r1 c else listed_alloc v (i + length (flat r1)) r2 c.
Proof.
  induction r1 as [|s r1 IH]; intros r2 v i c.
  - cbn [app Core.flat concat length]. unfold Core.memb. cbn [existsb]. rewrite Nat.add_0_r. reflexivity.
  - rewrite <- app_comm_cons. cbn [ScoreSpec.listed_alloc]. rewrite flat_cons, memb_app.
    destruct (memb c s); cbn [orb]; [reflexivity|].
    rewrite IH, app_length, Nat.add_assoc. reflexivity.
Qed.

Lemma span_mean_firstn : forall v v' i k,
  (forall j, nth j v' 0 = nth j v 0) -> (i + k <= length v')%nat ->
  qsum (firstn k (skipn i v')) / Qnat k == span_mean v i k.
Proof.
  intros v v' i k Hnth Hlen. unfold span_mean.
  rewrite (firstn_skipn_seq 0 k i v' Hlen).
  rewrite (map_ext (fun j => nth j v' 0) (entry v)) by (intros j; apply Hnth). reflexivity.
Qed.

Lemma alloc_of_listed : forall r v v' i c,
  (forall j, nth j v' 0 = nth j v 0) -> NoDup (flat r) -> (i + length (flat r) <= length v')%nat ->
  alloc_of c (group_allocs (skipn i v') r) == listed_alloc v i r c.
Proof.
  induction r as [|s r IH]; intros v v' i c Hnth Hnd Hlen.
  - reflexivity.
  - rewrite flat_cons in Hnd, Hlen. rewrite app_length in Hlen.
    destruct (NoDup_app_inv _ _ Hnd) as [Hs [Hr Hdisj]].
    cbn [Core.group_allocs ScoreSpec.listed_alloc].
    rewrite alloc_of_app, alloc_of_const_group by exact Hs.
    rewrite skipn_skipn. destruct (memb_reflect c s) as [Hin|Hnin].
    + rewrite alloc_of_notin.
      * rewrite span_mean_firstn by (try exact Hnth; lia). ring.
      * rewrite group_allocs_keys. apply Hdisj. exact Hin.
    + rewrite (IH v v' (i + length s)%nat c Hnth Hr) by lia. ring.
Qed.

(* the ranking produced by add_missing_cands *)
Definition am_rank (cs : cset) (r : ranking) : ranking :=
  match set_diff cs (flat r) with [] => r | _ => r ++ [set_diff cs (flat r)] end.

Lemma flat_am_rank : forall cs r, flat (am_rank cs r) = flat r ++ set_diff cs (flat r).
Proof.
  intros cs r. unfold am_rank. destruct (set_diff cs (flat r)) as [|x m] eqn:Hm.
  - rewrite app_nil_r. reflexivity.
  - rewrite flat_app, flat_cons. cbn [Core.flat concat]. rewrite app_nil_r. reflexivity.
Qed.

Lemma am_rank_perm : forall cs r, NoDup cs -> NoDup (flat r) -> incl (flat r) cs ->
  Permutation (flat (am_rank cs r)) cs.
Proof.
  intros cs r H1 H2 H3. rewrite flat_am_rank. apply (app_set_diff_perm cand ceqb ceqb_spec); assumption.
Qed.

Lemma listed_am_rank : forall cs r v c,
  listed_alloc v 0 (am_rank cs r) c =
  if memb c (flat r) then listed_alloc v 0 r c
  else if memb c (set_diff cs (flat r))
       then span_mean v (length (flat r)) (length (set_diff cs (flat r))) else 0.
Proof.
  intros cs r v c. unfold am_rank. destruct (set_diff cs (flat r)) as [|x m] eqn:Hm.
  - destruct (memb_reflect c (flat r)) as [Hin|Hnin]; [reflexivity|].
    rewrite listed_alloc_notin by exact Hnin. reflexivity.
  - rewrite listed_alloc_app. destruct (memb c (flat r)); [reflexivity|].
    cbn [ScoreSpec.listed_alloc Nat.add]. destruct (memb c (x :: m)); reflexivity.
Qed.

Lemma add_missing_ballot_inv : forall cs (b b' : ballot), add_missing_ballot cs b = inl b' ->
  rk b <> [] /\ rk b' = am_rank cs (rk b) /\ wt b' = wt b /\ sc b' = [].
Proof.
  intros cs b b' H. unfold Core.add_missing_ballot in H.
  destruct (rk b) as [|s r] eqn:Hrk; [discriminate|].
  unfold ok in H. inversion H; subst b'. cbn [rk wt sc]. unfold am_rank.
  split; [discriminate|]. split; [reflexivity|]. split; reflexivity.
Qed.

Lemma add_missing_ballot_ok : forall cs (b : ballot), rk b <> [] ->
  exists b', add_missing_ballot cs b = inl b'.
Proof.
  intros cs b H. unfold Core.add_missing_ballot. destruct (rk b) as [|s r]; [contradiction|].
  eexists. reflexivity.
Qed.

(* the model's per-ballot allocation (on the ballot completed by add_missing_cands, with the
   vector padded to n entries) is the specification's [ballot_alloc] *)
Lemma alloc_of_ballot_alloc : forall cs r v c,
  NoDup cs -> wf_ranking cs r -> In c cs ->
  alloc_of c (group_allocs (pad_to (length cs) v) (am_rank cs r)) == ballot_alloc cs v r c.
Proof.
  intros cs r v c Hcs [_ [_ [Hnd Hincl]]] Hc.
  pose proof (am_rank_perm cs r Hcs Hnd Hincl) as Hperm.
  pose proof (Permutation_length Hperm) as Hlen.
  change (pad_to (length cs) v) with (skipn 0 (pad_to (length cs) v)).
  rewrite (alloc_of_listed (am_rank cs r) v (pad_to (length cs) v) 0 c).
  - rewrite listed_am_rank. unfold ScoreSpec.ballot_alloc.
    destruct (memb_reflect c (flat r)) as [Hin|Hnin]; [reflexivity|].
    assert (Hm : memb c (set_diff cs (flat r)) = true).
    { apply memb_In. apply (set_diff_In cand ceqb ceqb_spec). split; assumption. }
    rewrite Hm. rewrite flat_am_rank, app_length in Hlen.
    replace (length (set_diff cs (flat r))) with (length cs - length (flat r))%nat by lia.
    reflexivity.
  - intros j. apply pad_to_nth.
  - eapply Permutation_NoDup; [apply Permutation_sym; exact Hperm|exact Hcs].
  - rewrite Hlen. destruct (pad_to_length (length cs) v). lia.
Qed.

(* ---------- rmap ---------- *)

Lemma rmap_inv : forall {A B} (f : A -> res B) l l', rmap f l = inl l' ->
  Forall2 (fun a b => f a = inl b) l l'.
Proof.
  intros A B f. induction l as [|a l IH]; intros l' H.
  - cbn [rmap] in H. unfold ok in H. inversion H. constructor.
  - cbn [rmap] in H. destruct (f a) as [b|e] eqn:Hfa; cbn [rbind] in H; [|discriminate].
    destruct (rmap f l) as [bs|e] eqn:Hl; cbn [rbind] in H; [|discriminate].
    unfold ok in H. inversion H; subst. constructor; [exact Hfa|]. apply IH. reflexivity.
Qed.

Lemma rmap_ok : forall {A B} (f : A -> res B) l, Forall (fun a => exists b, f a = inl b) l ->
  exists l', rmap f l = inl l'.
Proof.
  intros A B f l H. induction H as [|a l [b Hb] _ [l' Hl']].
  - exists []. reflexivity.
  - exists (b :: l'). cbn [rmap]. rewrite Hb. cbn [rbind]. rewrite Hl'. reflexivity.
Qed.

Lemma qsum_Forall2_map : forall {A B} (F : A -> Q) (G : B -> Q) la lb,
  Forall2 (fun a b => F a == G b) la lb -> qsum (map F la) == qsum (map G lb).
Proof.
  intros A B F G la lb H. induction H as [|a b la lb Hab _ IH].
  - reflexivity.
  - cbn [map]. rewrite !qsum_cons, Hab, IH. reflexivity.
Qed.

Lemma Forall2_impl_in : forall {A B} (P Q : A -> B -> Prop) la lb,
  (forall a b, In a la -> In b lb -> P a b -> Q a b) -> Forall2 P la lb -> Forall2 Q la lb.
Proof.
  intros A B P Q la lb H H2. induction H2 as [|a b la lb Hab _ IH].
  - constructor.
  - constructor.
    + apply H; [left; reflexivity|left; reflexivity|exact Hab].
    + apply IH. intros a' b' Ha Hb. apply H; right; assumption.
Qed.

Lemma Forall2_flip : forall {A B} (P : A -> B -> Prop) la lb,
  Forall2 (fun b a => P a b) lb la -> Forall2 P la lb.
Proof.
  intros A B P la lb H. induction H; constructor; assumption.
Qed.

Lemma Forall2_in_r : forall {A B} (P : A -> B -> Prop) la lb b,
  Forall2 P la lb -> In b lb -> exists a, In a la /\ P a b.
Proof.
  intros A B P la lb b H. induction H as [|a0 b0 la lb Hab _ IH]; intros Hb.
  - destruct Hb.
  - destruct Hb as [<-|Hb].
    + exists a0. split; [left; reflexivity|exact Hab].
    + destruct (IH Hb) as [a [Ha HP]]. exists a. split; [right; exact Ha|exact HP].
Qed.

(* ---------- what score_rankings computes, in terms of the original ballots ---------- *)

(* rankings equal as sequences of sets receive the same allocation *)
Lemma listed_alloc_eqb : forall r1 r2 v i c,
  NoDup (flat r1) -> NoDup (flat r2) -> ranking_eqb cand ceqb r1 r2 = true ->
  listed_alloc v i r1 c = listed_alloc v i r2 c.
Proof.
  induction r1 as [|s1 r1 IH]; intros [|s2 r2] v i c H1 H2 Heq; try discriminate; [reflexivity|].
  cbn [Core.ranking_eqb] in Heq. apply andb_true_iff in Heq. destruct Heq as [Hs Hr].
  rewrite flat_cons in H1, H2.
  destruct (NoDup_app_inv _ _ H1) as [Hs1 [Hr1 _]]. destruct (NoDup_app_inv _ _ H2) as [Hs2 [Hr2 _]].
  cbn [ScoreSpec.listed_alloc].
  rewrite (cset_eqb_memb cand ceqb ceqb_spec s1 s2 c Hs).
  rewrite (cset_eqb_length cand ceqb ceqb_spec s1 s2 Hs1 Hs2 Hs).
  destruct (memb c s2); [reflexivity|]. apply IH; assumption.
Qed.

Lemma ranking_eqb_flat_length : forall r1 r2,
  NoDup (flat r1) -> NoDup (flat r2) -> ranking_eqb cand ceqb r1 r2 = true ->
  length (flat r1) = length (flat r2).
Proof.
  induction r1 as [|s1 r1 IH]; intros [|s2 r2] H1 H2 Heq; try discriminate; [reflexivity|].
  cbn [Core.ranking_eqb] in Heq. apply andb_true_iff in Heq. destruct Heq as [Hs Hr].
  rewrite !flat_cons in *. rewrite !app_length.
  destruct (NoDup_app_inv _ _ H1) as [Hs1 [Hr1 _]]. destruct (NoDup_app_inv _ _ H2) as [Hs2 [Hr2 _]].
  rewrite (cset_eqb_length cand ceqb ceqb_spec s1 s2 Hs1 Hs2 Hs), (IH r2 Hr1 Hr2 Hr). reflexivity.
Qed.

Section OneProfile.
Variable p : profile.
Variable v : list Q.
Hypothesis Hwf : wf_profile p.

Let cs := cands p.
Let n := length cs.
Let v' := pad_to n v.

(* a completed ranking: a duplicate-free arrangement of all n candidates *)
Let full (r : ranking) (_ : scores) : Prop := NoDup (flat r) /\ Permutation (flat r) cs.

Lemma am_rank_full : forall r sc0, wf_ranking cs r -> full (am_rank cs r) sc0.
Proof.
  intros r sc0 Hr. destruct Hwf as [Hcs _]. destruct Hr as [_ [_ [Hnd Hincl]]].
  pose proof (am_rank_perm cs r Hcs Hnd Hincl) as Hperm. split; [|exact Hperm].
  eapply Permutation_NoDup; [apply Permutation_sym; exact Hperm|exact Hcs].
Qed.

Lemma completed_full : forall bs', rmap (add_missing_ballot cs) (ballots p) = inl bs' ->
  Forall (fun b => full (rk b) (sc b)) bs' /\
  Forall2 (fun b b' => rk b' = am_rank cs (rk b) /\ wt b' = wt b /\ wf_ranking cs (rk b)) (ballots p) bs'.
Proof.
  intros bs' H. apply rmap_inv in H. destruct Hwf as [_ Hbs]. rewrite Forall_forall in Hbs.
  assert (H2 : Forall2 (fun b b' => rk b' = am_rank cs (rk b) /\ wt b' = wt b /\ wf_ranking cs (rk b))
                       (ballots p) bs').
  { eapply Forall2_impl_in; [|exact H]. intros b b' Hb _ Hab.
    destruct (add_missing_ballot_inv cs b b' Hab) as [_ [Hrk [Hwt _]]].
    repeat split; try assumption; apply (Hbs b Hb). }
  split; [|exact H2]. apply Forall_forall. intros b' Hb'.
  destruct (Forall2_in_r _ _ _ b' H2 Hb') as [b [Hb [Hrk [_ Hwfb]]]]. rewrite Hrk.
  apply am_rank_full. exact Hwfb.
Qed.

(* score of candidate c = Σ over the ORIGINAL ballots of weight × specified allocation *)
Lemma score_rankings_definition : forall d, score_rankings p v = inl d ->
  forall c q, In (c, q) d ->
  q == qsum (map (fun b => wt b * ballot_alloc cs v (rk b) c) (ballots p)).
Proof.
  intros d H c q Hin. destruct (score_rankings_inv cand ceqb p v d H) as [p' [_ [Hp' [_ [_ Hd]]]]].
  unfold Core.add_missing in Hp'.
  destruct (rmap (add_missing_ballot (cands p)) (ballots p)) as [bs'|e] eqn:Hbs'; cbn [rbind] in Hp';
    [|discriminate].
  unfold ok in Hp'. inversion Hp'; subst p'. cbn [ballots] in Hd.
  rewrite Hd in Hin. apply in_map_iff in Hin. destruct Hin as [c' [Heq Hc]].
  inversion Heq; subst c' q. clear Heq.
  destruct (completed_full bs' Hbs') as [Hfull H2]. destruct Hwf as [Hcs _].
  unfold Core.score_of. fold cs n v'.
  (* condensing does not change the sum *)
  pose proof (condense_bs_wsum cand ceqb full
                (fun r _ => alloc_of c (group_allocs v' r))) as Hcond.
  unfold wsum in Hcond. rewrite Hcond; [| |exact Hfull].
  - apply qsum_Forall2_map. apply Forall2_flip.
    eapply Forall2_impl_in; [|exact H2]. intros b b' _ _ [Hrk [Hwt Hwfb]]. cbv beta.
    rewrite Hrk, Hwt. unfold v', n.
    rewrite (alloc_of_ballot_alloc cs (rk b) v c Hcs Hwfb Hc). reflexivity.
  - intros k b [Hk1 Hk2] [Hb1 Hb2] Hkm. unfold Core.key_match in Hkm.
    apply andb_true_iff in Hkm. destruct Hkm as [Hkm _].
    assert (Hlen : forall r, Permutation (flat r) cs -> (0 + length (flat r) <= length v')%nat).
    { intros r Hr. rewrite (Permutation_length Hr). unfold v'. destruct (pad_to_length n v). fold n. lia. }
    change v' with (skipn 0 v').
    rewrite (alloc_of_listed (rk k) v v' 0 c) by (try (intros j; apply pad_to_nth); auto).
    rewrite (alloc_of_listed (rk b) v v' 0 c) by (try (intros j; apply pad_to_nth); auto).
    rewrite (listed_alloc_eqb (rk k) (rk b) v 0 c Hk1 Hb1 Hkm). reflexivity.
Qed.

(* the points handed out sum to total weight × the first n entries of the vector *)
Lemma score_rankings_total : forall d, score_rankings p v = inl d ->
  qsum (map snd d) == total_wt cand (ballots p) * qsum (map (entry v) (seq 0 n)).
Proof.
  intros d H. destruct (score_rankings_inv cand ceqb p v d H) as [p' [_ [Hp' [_ [_ Hd]]]]].
  unfold Core.add_missing in Hp'.
  destruct (rmap (add_missing_ballot (cands p)) (ballots p)) as [bs'|e] eqn:Hbs'; cbn [rbind] in Hp';
    [|discriminate].
  unfold ok in Hp'. inversion Hp'; subst p'. cbn [ballots] in Hd.
  destruct (completed_full bs' Hbs') as [Hfull H2]. destruct Hwf as [Hcs _].
  rewrite Hd, map_map. cbn [snd]. unfold Core.score_of. fold cs n v'.
  rewrite (qsum_swap (fun c b => wt b * alloc_of c (group_allocs v' (rk b))) cs (condense_bs bs')).
  assert (Hfull' : Forall (fun b => full (rk b) (sc b)) (condense_bs bs')).
  { apply (condense_bs_Forall cand ceqb full). exact Hfull. }
  rewrite (qsum_map_ext_in _ (fun b => wt b * qsum (map (entry v) (seq 0 n))) (condense_bs bs')).
  - rewrite (qsum_map_ext_in _ (fun b => qsum (map (entry v) (seq 0 n)) * wt b)) by (intros a _; ring).
    rewrite qsum_map_scal. fold (total_wt cand (condense_bs bs')). rewrite condense_bs_total_wt.
    assert (Hw : total_wt cand bs' == total_wt cand (ballots p)).
    { unfold Core.total_wt. apply qsum_Forall2_map. apply Forall2_flip.
      eapply Forall2_impl_in; [|exact H2]. intros b b' _ _ [_ [Hwt _]]. cbv beta. rewrite Hwt. reflexivity. }
    rewrite Hw. ring.
  - intros b Hb. rewrite Forall_forall in Hfull'. destruct (Hfull' b Hb) as [Hnd Hperm].
    rewrite qsum_map_scal.
    assert (Hinner : qsum (map (fun c => alloc_of c (group_allocs v' (rk b))) cs)
                     == qsum (map (entry v) (seq 0 n))).
    { rewrite alloc_of_sum_cands.
      + rewrite group_allocs_sum, (Permutation_length Hperm). fold n. unfold v'.
        rewrite firstn_pad_to. reflexivity.
      + exact Hcs.
      + rewrite group_allocs_keys. intros x Hx. eapply Permutation_in; eassumption. }
    rewrite Hinner. reflexivity.
Qed.

(* a well-formed profile and a valid vector are always scored *)
Lemma score_rankings_succeeds : validate_vector v = inl tt -> exists d, score_rankings p v = inl d.
Proof.
  intros Hv. destruct Hwf as [Hcs Hbs].
  assert (Hex : exists bs', rmap (add_missing_ballot cs) (ballots p) = inl bs').
  { apply rmap_ok. rewrite Forall_forall in Hbs |- *. intros b Hb.
    apply add_missing_ballot_ok. destruct (Hbs b Hb) as [Hne _]. exact Hne. }
  destruct Hex as [bs' Hbs'].
  destruct (completed_full bs' Hbs') as [Hfull H2].
  unfold Core.score_rankings. rewrite Hv. cbn [rbind]. unfold Core.add_missing. fold cs.
  rewrite Hbs'. cbn [rbind ok ballots cands].
  assert (Horigin : forall k, In k (condense_bs bs') ->
            exists b, In b (ballots p) /\ rk k = am_rank cs (rk b) /\ wf_ranking cs (rk b)).
  { intros k Hk. destruct (condense_bs_origin cand ceqb bs' k Hk) as [b' [Hb' [Hrk _]]].
    destruct (Forall2_in_r _ _ _ b' H2 Hb') as [b [Hb [Hrk' [_ Hwfb]]]].
    exists b. split; [exact Hb|]. split; [congruence|exact Hwfb]. }
  assert (Hne : existsb (fun b => existsb (fun s => negb (nonempty s)) (rk b)) (condense_bs bs') = false).
  { apply not_true_is_false. intros Hex. apply existsb_exists in Hex. destruct Hex as [k [Hk Hex]].
    apply existsb_exists in Hex. destruct Hex as [s [Hs Hemp]].
    destruct s as [|x s]; [|discriminate]. clear Hemp.
    destruct (Horigin k Hk) as [b [_ [Hrk [_ [Hgroups _]]]]]. rewrite Hrk in Hs.
    unfold am_rank in Hs. rewrite Forall_forall in Hgroups.
    destruct (set_diff cs (flat (rk b))) as [|y m].
    - exact (Hgroups [] Hs eq_refl).
    - apply in_app_or in Hs. destruct Hs as [Hs|[Hs|[]]]; [exact (Hgroups [] Hs eq_refl)|discriminate]. }
  rewrite Hne.
  assert (Hk : all_known cand ceqb cs (condense_bs bs') = true).
  { unfold Core.all_known. apply forallb_forall. intros k Hk.
    apply (subsetb_incl cand ceqb ceqb_spec). rewrite Forall_forall in Hfull.
    destruct (condense_bs_origin cand ceqb bs' k Hk) as [b' [Hb' [Hrk _]]].
    destruct (Hfull b' Hb') as [_ Hperm]. rewrite Hrk. intros x Hx.
    eapply Permutation_in; eassumption. }
  rewrite Hk. cbn [negb]. eexists. reflexivity.
Qed.

End OneProfile.

(* ---------- properties of the specified allocation ---------- *)

Lemma listed_alloc_tied : forall r v i g c1 c2,
  NoDup (flat r) -> In g r -> In c1 g -> In c2 g -> listed_alloc v i r c1 = listed_alloc v i r c2.
Proof.
  induction r as [|s r IH]; intros v i g c1 c2 Hnd Hg H1 H2; [destruct Hg|].
  rewrite flat_cons in Hnd. destruct (NoDup_app_inv _ _ Hnd) as [_ [Hr Hdisj]].
  cbn [ScoreSpec.listed_alloc]. destruct Hg as [->|Hg].
  - apply memb_In in H1. apply memb_In in H2. rewrite H1, H2. reflexivity.
  - assert (Hn : forall c, In c g -> memb c s = false).
    { intros c Hc. apply memb_false_iff. intros Hs. apply (Hdisj c Hs).
      apply in_concat_iff. exists g. split; assumption. }
    rewrite (Hn c1 H1), (Hn c2 H2). eapply IH; eassumption.
Qed.

Lemma ballot_alloc_tied : forall cs r v g c1 c2,
  NoDup (flat r) -> In g r -> In c1 g -> In c2 g -> ballot_alloc cs v r c1 = ballot_alloc cs v r c2.
Proof.
  intros cs r v g c1 c2 Hnd Hg H1 H2. unfold ScoreSpec.ballot_alloc.
  assert (Hm : forall c, In c g -> memb c (flat r) = true).
  { intros c Hc. apply memb_In. apply in_concat_iff. exists g. split; assumption. }
  rewrite (Hm c1 H1), (Hm c2 H2). eapply listed_alloc_tied; eassumption.
Qed.

(* model-level version *)
Lemma alloc_of_tied : forall r v g c1 c2,
  NoDup (flat r) -> In g r -> In c1 g -> In c2 g ->
  alloc_of c1 (group_allocs v r) == alloc_of c2 (group_allocs v r).
Proof.
  induction r as [|s r IH]; intros v g c1 c2 Hnd Hg H1 H2; [destruct Hg|].
  rewrite flat_cons in Hnd. destruct (NoDup_app_inv _ _ Hnd) as [Hs [Hr Hdisj]].
  cbn [Core.group_allocs]. rewrite !alloc_of_app, !alloc_of_const_group by exact Hs.
  destruct Hg as [->|Hg].
  - rewrite !alloc_of_notin by (rewrite group_allocs_keys; apply Hdisj; assumption).
    apply memb_In in H1. apply memb_In in H2. rewrite H1, H2. reflexivity.
  - assert (Hn : forall c, In c g -> memb c s = false).
    { intros c Hc. apply memb_false_iff. intros Hs'. apply (Hdisj c Hs').
      apply in_concat_iff. exists g. split; assumption. }
    rewrite (Hn c1 H1), (Hn c2 H2), (IH (skipn (length s) v) g c1 c2 Hr Hg H1 H2). reflexivity.
Qed.

Lemma span_mean_one : forall v i, span_mean v i 1 == entry v i.
Proof.
  intros v i. unfold span_mean. cbn [seq map]. rewrite qsum_cons, qsum_nil.
  unfold Qnat. cbn [Z.of_nat]. field.
Qed.

Lemma listed_alloc_untied : forall l v j i c0, NoDup l -> (i < length l)%nat ->
  listed_alloc v j (singletons l) (nth i l c0) == entry v (j + i).
Proof.
  induction l as [|a l IH]; intros v j i c0 Hnd Hi; [cbn [length] in Hi; lia|].
  inversion Hnd as [|x l' Hnotin Hnd']; subst. unfold Core.singletons. cbn [map].
  fold (singletons l). cbn [ScoreSpec.listed_alloc length]. destruct i as [|i].
  - cbn [nth]. unfold Core.memb. cbn [existsb]. rewrite (ceqb_refl cand ceqb ceqb_spec). cbn [orb].
    rewrite Nat.add_0_r. apply span_mean_one.
  - cbn [nth]. cbn [length] in Hi.
    assert (Hm : memb (nth i l c0) [a] = false).
    { apply memb_false_iff. intros [Heq|[]]. apply Hnotin. rewrite Heq. apply nth_In. lia. }
    rewrite Hm, IH by (try assumption; lia). replace (j + 1 + i)%nat with (j + S i)%nat by lia. reflexivity.
Qed.

Lemma ballot_alloc_untied : forall cs l v i c0, NoDup l -> (i < length l)%nat ->
  ballot_alloc cs v (singletons l) (nth i l c0) == entry v i.
Proof.
  intros cs l v i c0 Hnd Hi. unfold ScoreSpec.ballot_alloc. rewrite flat_singletons.
  assert (Hm : memb (nth i l c0) l = true) by (apply memb_In; apply nth_In; exact Hi).
  rewrite Hm. rewrite listed_alloc_untied by assumption. reflexivity.
Qed.

(* model-level version, for any vector *)
Lemma alloc_of_untied : forall l v i c0, NoDup l -> (i < length l)%nat ->
  alloc_of (nth i l c0) (group_allocs v (singletons l)) == nth i v 0.
Proof.
  induction l as [|a l IH]; intros v i c0 Hnd Hi; [cbn [length] in Hi; lia|].
  inversion Hnd as [|x l' Hnotin Hnd']; subst. unfold Core.singletons. cbn [map].
  fold (singletons l). cbn [Core.group_allocs length map app].
  rewrite alloc_of_cons. cbn [fst snd]. destruct i as [|i].
  - cbn [nth]. rewrite (ceqb_refl cand ceqb ceqb_spec).
    rewrite alloc_of_notin by (rewrite group_allocs_keys, flat_singletons; exact Hnotin).
    destruct v as [|x v]; cbn [firstn nth]; [rewrite qsum_nil|rewrite qsum_cons, qsum_nil];
      unfold Qnat; cbn [Z.of_nat]; field.
  - cbn [nth]. cbn [length] in Hi.
    assert (Hm : ceqb (nth i l c0) a = false).
    { apply (ceqb_false_iff cand ceqb ceqb_spec). intros Heq. apply Hnotin. rewrite <- Heq. apply nth_In. lia. }
    rewrite Hm, IH by (try assumption; lia).
    destruct v as [|x v]; [destruct i; cbn; ring|cbn [skipn nth]; ring].
Qed.

(* per ballot, the specified allocations sum to the first n entries of the vector *)
Lemma ballot_alloc_total : forall cs r v, NoDup cs -> wf_ranking cs r ->
  qsum (map (ballot_alloc cs v r) cs) == qsum (map (entry v) (seq 0 (length cs))).
Proof.
  intros cs r v Hcs Hr.
  rewrite <- (qsum_map_ext_in
               (fun c => alloc_of c (group_allocs (pad_to (length cs) v) (am_rank cs r)))
               (ballot_alloc cs v r) cs)
    by (intros c Hc; apply alloc_of_ballot_alloc; assumption).
  destruct Hr as [_ [_ [Hnd Hincl]]].
  pose proof (am_rank_perm cs r Hcs Hnd Hincl) as Hperm.
  rewrite alloc_of_sum_cands.
  - rewrite group_allocs_sum, (Permutation_length Hperm), firstn_pad_to. reflexivity.
  - exact Hcs.
  - rewrite group_allocs_keys. intros x Hx. eapply Permutation_in; eassumption.
Qed.

(* ---------- first-place votes, Borda, mentions ---------- *)

Lemma span_mean_zero : forall v i k, (forall j, (i <= j)%nat -> entry v j == 0) -> span_mean v i k == 0.
Proof.
  intros v i k H. unfold span_mean. rewrite qsum_map_zero.
  - unfold Qdiv. ring.
  - intros j Hj. apply in_seq in Hj. apply H. lia.
Qed.

Lemma listed_alloc_zero : forall r v i c,
  (forall j, (i <= j)%nat -> entry v j == 0) -> listed_alloc v i r c == 0.
Proof.
  induction r as [|s r IH]; intros v i c H; [reflexivity|].
  cbn [ScoreSpec.listed_alloc]. destruct (memb c s).
  - apply span_mean_zero. exact H.
  - apply IH. intros j Hj. apply H. lia.
Qed.

Lemma fpv_entry_0 : forall n, entry (fpv_vector n) 0 = 1.
Proof. reflexivity. Qed.

Lemma fpv_entry_S : forall n j, entry (fpv_vector n) (S j) = 0.
Proof. intros n j. unfold entry, fpv_vector. cbn [nth]. apply nth_repeat. Qed.

Lemma fpv_entry_later : forall n j, (1 <= j)%nat -> entry (fpv_vector n) j == 0.
Proof. intros n [|j] H; [lia|]. rewrite fpv_entry_S. reflexivity. Qed.

(* with the vector (1,0,...,0) a ballot gives 1/|first group| to each member of its first group *)
Lemma ballot_alloc_fpv : forall cs n r c, wf_ranking cs r ->
  ballot_alloc cs (fpv_vector n) r c ==
  if memb c (hd [] r) then 1 / Qnat (length (hd [] r)) else 0.
Proof.
  intros cs n r c [Hne [Hgroups _]]. destruct r as [|s r]; [contradiction|]. cbn [hd].
  inversion Hgroups as [|x l Hs _]; subst.
  assert (Hlen : (1 <= length s)%nat) by (destruct s; [contradiction|cbn [length]; lia]).
  unfold ScoreSpec.ballot_alloc. rewrite flat_cons, memb_app. cbn [ScoreSpec.listed_alloc].
  destruct (memb c s); cbn [orb].
  - unfold span_mean. destruct (length s) as [|k]; [lia|]. cbn [seq map].
    rewrite qsum_cons, fpv_entry_0, qsum_map_zero.
    + apply Qdiv_comp; [ring|reflexivity].
    + intros j Hj. apply in_seq in Hj. apply fpv_entry_later. lia.
  - destruct (memb c (flat r)).
    + apply listed_alloc_zero. intros j Hj. apply fpv_entry_later. lia.
    + apply span_mean_zero. intros j Hj. apply fpv_entry_later. rewrite app_length in Hj. lia.
Qed.

Lemma first_place_votes_special : forall p d, wf_profile p ->
  first_place_votes cand ceqb p = inl d ->
  forall c q, In (c, q) d ->
  q == qsum (map (fun b => if memb c (hd [] (rk b))
                           then wt b / Qnat (length (hd [] (rk b))) else 0) (ballots p)).
Proof.
  intros p d Hwf H c q Hin. unfold Core.first_place_votes in H.
  rewrite (score_rankings_definition p _ Hwf d H c q Hin).
  apply qsum_map_ext_in. intros b Hb. destruct Hwf as [_ Hbs]. rewrite Forall_forall in Hbs.
  rewrite (ballot_alloc_fpv (cands p) (length (cands p)) (rk b) c (Hbs b Hb)).
  destruct (memb c (hd [] (rk b))); [|ring]. unfold Qdiv. ring.
Qed.

Lemma borda_entry : forall n i, entry (borda_vector n) i == Qnat (n - i).
Proof.
  unfold entry. induction n as [|n IH]; intros i.
  - cbn [borda_vector Nat.sub]. destruct i; reflexivity.
  - cbn [borda_vector]. destruct i as [|i].
    + cbn [nth]. rewrite Nat.sub_0_r. reflexivity.
    + cbn [nth Nat.sub]. apply IH.
Qed.

Lemma borda_scores_special : forall p d, wf_profile p ->
  borda_scores cand ceqb p = inl d ->
  forall c q, In (c, q) d ->
  q == qsum (map (fun b => wt b * ballot_alloc (cands p) (borda_vector (length (cands p))) (rk b) c)
                 (ballots p)).
Proof.
  intros p d Hwf H c q Hin. unfold Core.borda_scores in H.
  exact (score_rankings_definition p _ Hwf d H c q Hin).
Qed.

Lemma mentions_special : forall p d, mentions cand ceqb p = inl d ->
  map fst d = cands p /\
  forall c q, In (c, q) d ->
    q = qsum (map (fun b => if memb c (flat (rk b)) then wt b else 0) (ballots p)).
Proof.
  intros p d H. unfold Core.mentions in H.
  destruct (existsb _ (ballots p)); [discriminate|].
  destruct (all_known cand ceqb (cands p) (ballots p)); cbn [negb] in H; [|discriminate].
  unfold ok in H. inversion H as [Hd]. split.
  - rewrite map_map. cbn [fst]. apply map_id.
  - intros c q Hin. apply in_map_iff in Hin. destruct Hin as [c' [Heq _]]. inversion Heq. reflexivity.
Qed.

Lemma mentions_succeeds : forall p, wf_profile p -> exists d, mentions cand ceqb p = inl d.
Proof.
  intros p [_ Hbs]. unfold Core.mentions. rewrite Forall_forall in Hbs.
  assert (H1 : existsb (fun b => negb (nonempty (rk b))) (ballots p) = false).
  { apply not_true_is_false. intros Hex. apply existsb_exists in Hex. destruct Hex as [b [Hb Hemp]].
    destruct (Hbs b Hb) as [Hne _]. destruct (rk b); [contradiction|discriminate]. }
  assert (H2 : all_known cand ceqb (cands p) (ballots p) = true).
  { unfold Core.all_known. apply forallb_forall. intros b Hb.
    apply (subsetb_incl cand ceqb ceqb_spec). destruct (Hbs b Hb) as [_ [_ [_ Hincl]]]. exact Hincl. }
  rewrite H1, H2. cbn [negb]. eexists. reflexivity.
Qed.

(* ---------- statements as exported to Properties/C04.v ---------- *)

Theorem c04_scored_proof : forall (p : profile) (v : list Q),
  wf_profile p -> valid_vector v -> exists d, score_rankings p v = inl d.
Proof.
  intros p v Hwf Hv. apply score_rankings_succeeds; [exact Hwf|]. apply validate_vector_iff. exact Hv.
Qed.

Theorem c04_definition_proof : forall (p : profile) (v : list Q) (d : scores),
  wf_profile p -> score_rankings p v = inl d ->
  map fst d = cands p /\
  forall c q, In (c, q) d ->
    q == qsum (map (fun b => wt b * ballot_alloc (cands p) v (rk b) c) (ballots p)).
Proof.
  intros p v d Hwf H. split; [eapply score_rankings_keys; exact H|].
  apply score_rankings_definition; assumption.
Qed.

Theorem c04_total_proof : forall (p : profile) (v : list Q) (d : scores),
  wf_profile p -> score_rankings p v = inl d ->
  let n := length (cands p) in
  map fst d = cands p /\
  qsum (map snd d) == total_wt cand (ballots p) * qsum (map (entry v) (seq 0 n)) /\
  qsum (map snd d) == total_wt cand (ballots p) * qsum (firstn n (pad_to n v)).
Proof.
  intros p v d Hwf H n. split; [eapply score_rankings_keys; exact H|].
  pose proof (score_rankings_total p v Hwf d H) as Ht. split; [exact Ht|].
  unfold n. rewrite firstn_pad_to. exact Ht.
Qed.

Theorem c04_ballot_total_proof :
  (forall (cs : cset) (r : ranking) (v : list Q), NoDup cs -> wf_ranking cs r ->
     qsum (map (ballot_alloc cs v r) cs) == qsum (map (entry v) (seq 0 (length cs)))) /\
  (forall (r : ranking) (v : list Q),
     map fst (group_allocs v r) = flat r /\
     qsum (map snd (group_allocs v r)) == qsum (firstn (length (flat r)) v)).
Proof.
  split.
  - apply ballot_alloc_total.
  - intros r v. split; [apply group_allocs_keys|apply group_allocs_sum].
Qed.

Theorem c04_tied_equal_proof : forall (r : ranking) (g : cset) (c1 c2 : cand),
  NoDup (flat r) -> In g r -> In c1 g -> In c2 g ->
  (forall cs v, ballot_alloc cs v r c1 = ballot_alloc cs v r c2) /\
  (forall v, alloc_of c1 (group_allocs v r) == alloc_of c2 (group_allocs v r)).
Proof.
  intros r g c1 c2 Hnd Hg H1 H2. split.
  - intros cs v. eapply ballot_alloc_tied; eassumption.
  - intros v. eapply alloc_of_tied; eassumption.
Qed.

Theorem c04_untied_full_proof : forall (l : list cand) (i : nat) (c0 : cand),
  NoDup l -> (i < length l)%nat ->
  (forall cs v, ballot_alloc cs v (singletons l) (nth i l c0) == entry v i) /\
  (forall v, alloc_of (nth i l c0) (group_allocs v (singletons l)) == nth i v 0).
Proof.
  intros l i c0 Hnd Hi. split.
  - intros cs v. apply ballot_alloc_untied; assumption.
  - intros v. apply alloc_of_untied; assumption.
Qed.

Theorem c04_fpv_special_proof : forall (p : profile) (d : scores),
  wf_profile p -> first_place_votes cand ceqb p = inl d ->
  first_place_votes cand ceqb p = score_rankings p (1 :: repeat 0 (length (cands p))) /\
  map fst d = cands p /\
  forall c q, In (c, q) d ->
    q == qsum (map (fun b => if memb c (hd [] (rk b))
                             then wt b / Qnat (length (hd [] (rk b))) else 0) (ballots p)).
Proof.
  intros p d Hwf H. split; [reflexivity|]. split.
  - unfold Core.first_place_votes in H. eapply score_rankings_keys; exact H.
  - apply first_place_votes_special; assumption.
Qed.

Theorem c04_borda_special_proof : forall (p : profile) (d : scores),
  wf_profile p -> borda_scores cand ceqb p = inl d ->
  let n := length (cands p) in
  (forall i, entry (borda_vector n) i == Qnat (n - i)) /\
  map fst d = cands p /\
  forall c q, In (c, q) d ->
    q == qsum (map (fun b => wt b * ballot_alloc (cands p) (borda_vector n) (rk b) c) (ballots p)).
Proof.
  intros p d Hwf H n. split; [apply borda_entry|]. split.
  - unfold Core.borda_scores in H. eapply score_rankings_keys; exact H.
  - apply borda_scores_special; assumption.
Qed.

Theorem c04_mentions_proof : forall (p : profile),
  (wf_profile p -> exists d, mentions cand ceqb p = inl d) /\
  (forall d, mentions cand ceqb p = inl d ->
     map fst d = cands p /\
     forall c q, In (c, q) d ->
       q = qsum (map (fun b => if memb c (flat (rk b)) then wt b else 0) (ballots p))).
Proof.
  intros p. split; [apply mentions_succeeds|apply mentions_special].
Qed.

End Scoring.

Theorem c04_ranking_groups_proof : forall (cand : Type) (d : scores cand),
  d <> [] -> NoDup (map fst d) ->
  let r := score_to_ranking cand d true in
  Permutation (flat cand r) (map fst d) /\
  (forall g, In g r -> g <> []) /\
  (forall c1 c2 q1 q2, In (c1, q1) d -> In (c2, q2) d ->
     ((exists g, In g r /\ In c1 g /\ In c2 g) <-> q1 == q2)) /\
  (forall pre g1 mid g2 post c1 c2 q1 q2,
     r = pre ++ g1 :: mid ++ g2 :: post ->
     In c1 g1 -> In c2 g2 -> In (c1, q1) d -> In (c2, q2) d -> q2 < q1).
Proof.
  intros cand d Hd Hnd r. split; [apply score_to_ranking_flat_perm; exact Hd|].
  split; [intros g Hg; eapply score_to_ranking_nonempty_groups; eassumption|].
  split.
  - intros c1 c2 q1 q2 H1 H2. apply score_to_ranking_same_group_iff; assumption.
  - intros pre g1 mid g2 post c1 c2 q1 q2 Hr. eapply score_to_ranking_order; eassumption.
Qed.
