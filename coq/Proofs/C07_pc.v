(* Proofs/C07_pc.v — C07: STV with the Droop quota and the fractional or random transfer is
   proportional for solid coalitions.  The invariant [pc_inv] (Spec/PCSpec.v) holds initially ([pc_inv_init]), is
   kept by every round ([pc_step]: election of members / non-members with the coalition losing at
   most one quota per elected member, default election, elimination — a member is only eliminated
   when more members are standing than quotas are left), hence along the loop ([pc_loop]); at a
   final state it gives the claim ([pc_exit]: with all seats filled by Droop quotas less than one
   quota of weight is left). *)
From VK Require Import Base Core STV Rules EditSpec ScoreSpec STVSpec PCSpec.
From VK.Proofs Require Import Lib_sets Lib_rk Lib_condense Lib_condense12 C12_edit C03_transfer
  C04_scoring Elect STV_lib STV_wsum STV_tb STV_step STV_round STV_threshold STV_weights STV_inv
  STV_cases STV_final C07_lib C07_random.
From Coq Require Import Permutation Lia Lqa Setoid Morphisms.

Section WithCand.
Variable cand : Type.
Variable ceqb : cand -> cand -> bool.
Hypothesis ceqb_spec : forall a b, reflect (a = b) (ceqb a b).

Notation cset := (cset cand).
Notation ranking := (ranking cand).
Notation ballot := (ballot cand).
Notation profile := (profile cand).
Notation mstate := (mstate cand).
Notation estate := (estate cand).
Notation memb := (memb cand ceqb).
Notation flat := (flat cand).
Notation strip := (strip cand ceqb).
Notation set_diff := (set_diff cand ceqb).
Notation first_is := (first_is cand ceqb).
Notation pile := (pile cand ceqb).
Notation total_wt := (total_wt cand).
Notation wt_where := (wt_where cand).
Notation tally := (tally cand ceqb).
Notation wf_stv_ballot := (wf_stv_ballot cand).
Notation wf_stv0 := (wf_stv0 cand).
Notation wf_stv_profile := (wf_stv_profile cand).
Notation state_of := (state_of cand ceqb).
Notation step_ctx := (step_ctx cand ceqb).
Notation script_ok := (script_ok cand).
Notation head_cand := (head_cand cand).
Notation keep_share := (keep_share cand ceqb).
Notation real_groups := (real_groups cand).
Notation count_elected := (count_elected cand).
Notation elected_in := (elected_in cand).
Notation eliminated_in := (eliminated_in cand).
Notation all_elected := (all_elected cand).
Notation elected_upto := (elected_upto cand).
Notation hist_ok := (hist_ok cand).
Notation stv_inv := (stv_inv cand ceqb).
Notation stv_step := (stv_step cand ceqb).
Notation stv_loop := (stv_loop cand ceqb).
Notation stv_init := (stv_init cand).
Notation run_stv := (run_stv cand ceqb).
Notation initial_state := (initial_state cand ceqb).
Notation elect_round := (elect_round cand ceqb).
Notation elim_round := (elim_round cand ceqb).
Notation default_round := (default_round cand).
Notation cls := (cls cand ceqb).
Notation wsumr := (wsumr cand).
Notation after := (after cand ceqb).
Notation solid := (solid cand).
Notation solid_set := (solid_set cand).
Notation solidb := (solidb cand ceqb).
Notation coal_wt := (coal_wt cand ceqb).
Notation members := (members cand ceqb).
Notation standing := (standing cand ceqb).
Notation elected_of := (elected_of cand ceqb).
Notation winners_in := (winners_in cand ceqb).
Notation pc_inv := (pc_inv cand ceqb).
Notation phiA := (phiA cand ceqb).

Let memb_In := Lib_rk.memb_In cand ceqb ceqb_spec.
Let memb_false_iff := Lib_rk.memb_false_iff cand ceqb ceqb_spec.

Lemma set_diff_nil_l : forall R : cset, set_diff [] R = [].
Proof. reflexivity. Qed.

(* ====================== an election round, fractional transfer ====================== *)

Section ElectBound.
Variable cfg : stv_cfg.
Variable t : Q.
Variables p0 p : profile.
Variables prev st : estate.
Variable np : profile.
Variables s s' : mstate.
Variables W others : cset.
Variable mvs : list (list ballot).
Variable s1 : mstate.
Hypothesis Hctx : step_ctx p0 p prev.
Hypothesis Hr : elect_round cfg t p prev st np s s' W others mvs s1.
Hypothesis Hk : s_transfer cfg = TFractional.
Hypothesis Ht : 0 <= t.
Variable T : cset.
Hypothesis HT' : set_diff T W <> [].

Let bs := ballots p.
Let Hwf : wf_stv0 p := ctx_wf cand ceqb p0 p prev Hctx.

Let HTne : T <> [].
Proof. intros E. apply HT'. rewrite E. reflexivity. Qed.

Let ks := keep_share TFractional W t bs.

Let ks_nonneg : forall b, In b bs -> 0 <= ks b.
Proof.
  intros b Hb. unfold ks. rewrite <- Hk.
  apply (keep_share_nonneg cand ceqb ceqb_spec cfg t p0 p prev st np s s' W others mvs s1 Hctx Hr b Hb).
Qed.

Let tally_pos : forall w, In w W -> 0 < tally w bs.
Proof.
  intros w Hw.
  apply (er_tally_pos cand ceqb ceqb_spec cfg t p0 p prev st np s s' W others mvs s1 Hctx Hr Hk w Hw).
Qed.

(* what the coalition ballots leave with the winners: at most one quota per elected member *)
Lemma coal_kept_le :
  qsum (map (fun b => wt b * (1 - ks b) * phiA T (rk b)) bs) <= Qnat (length (members T W)) * t.
Proof.
  set (g := fun c (b : ballot) => wt b * (if memb c W && memb c T then t / tally c bs else 0)).
  assert (C1 : qsum (map (fun b => wt b * (1 - ks b) * phiA T (rk b)) bs) <=
               qsum (map (fun b => match head_cand b with Some h => g h b | None => 0 end) bs)).
  { apply qsum_map_le. intros b Hb. pose proof (wf_bs_nonneg cand p Hwf b Hb) as Hw0.
    destruct Hwf as [_ Hwfb]. rewrite Forall_forall in Hwfb.
    destruct (wf_ballot_head cand _ b (Hwfb b Hb)) as (h & rest & Hrk & _ & Hh).
    rewrite Hh. unfold ks, STVSpec.keep_share, g. rewrite Hh.
    destruct (memb h W) eqn:EW; cbn [andb].
    - apply memb_In in EW. pose proof (tally_pos h EW) as Hp.
      assert (E1 : 1 - (tally h bs - t) / tally h bs == t / tally h bs) by (field; lra).
      assert (Hu : 0 <= wt b * (t / tally h bs)).
      { apply Qmult_le_0_compat; [exact Hw0|]. unfold Qdiv. apply Qmult_le_0_compat; [exact Ht|].
        apply Qlt_le_weak, Qinv_lt_0_compat. exact Hp. }
      rewrite E1. destruct (memb h T) eqn:ET.
      + unfold C07_lib.phiA. destruct (solidb T (rk b)); lra.
      + unfold C07_lib.phiA. destruct (solidb T (rk b)) eqn:Es; [|lra]. exfalso.
        apply (solidb_iff cand ceqb ceqb_spec) in Es.
        pose proof (solid_set_head cand T (rk b) h rest Es HTne Hrk) as HhT.
        apply memb_false_iff in ET. apply ET. exact HhT.
    - assert (E0 : wt b * (1 - 1) * phiA T (rk b) == 0) by ring. rewrite E0. lra. }
  eapply Qle_trans; [exact C1|].
  pose proof (er_all_nd cand ceqb cfg t p0 p prev st np s s' W others mvs s1 Hctx Hr) as Hnd.
  pose proof (sum_by_piles cand ceqb ceqb_spec p (W ++ others) g Hwf Hnd
               (er_part _ _ _ _ _ _ _ _ _ _ _ _ _ _ Hr)) as C2.
  fold bs in C2. rewrite <- C2. clear C2.
  assert (C3 : forall c, In c (W ++ others) ->
               qsum (map (g c) (pile p c)) == if memb c W && memb c T then t else 0).
  { intros c _. unfold g.
    rewrite (Lib_sets.qsum_map_ext_in _
               (fun b => (if memb c W && memb c T then t / tally c bs else 0) * wt b));
      [|intros b _; ring].
    rewrite Lib_sets.qsum_map_scal.
    pose proof (tally_pile cand ceqb p c) as Etp. unfold Core.total_wt in Etp. fold bs in Etp.
    rewrite <- Etp. clear Etp.
    destruct (memb c W) eqn:EW; cbn [andb]; [|ring].
    destruct (memb c T); [|ring]. apply memb_In in EW. pose proof (tally_pos c EW). field. lra. }
  rewrite (Lib_sets.qsum_map_ext_in _ _ _ C3), qsum_ite_count.
  assert (El : length (filter (fun c => memb c W && memb c T) (W ++ others)) = length (members T W)).
  { rewrite filter_app, app_length.
    rewrite (Lib_sets.filter_all_false _ others).
    - cbn [length]. rewrite Nat.add_0_r. unfold PCSpec.members. f_equal.
      apply Lib_rk.filter_ext_in. intros c Hc. rewrite (proj2 (memb_In c W) Hc). reflexivity.
    - intros c Hc.
      rewrite (proj2 (memb_false_iff c W)
                 (er_others_notin cand ceqb cfg t p0 p prev st np s s' W others mvs s1 Hctx Hr c Hc)).
      reflexivity. }
  rewrite El. apply Qle_refl.
Qed.

(* the coalition keeps all its weight but one quota per elected member *)
Lemma elect_coal_bound :
  wsumr (phiA T) bs - Qnat (length (members T W)) * t <= wsumr (phiA (set_diff T W)) (ballots np).
Proof.
  assert (Hk' : s_transfer cfg <> TRandom) by (rewrite Hk; discriminate).
  rewrite (elect_round_law cand ceqb ceqb_spec cfg t p0 p prev st np s s' W others mvs s1 Hctx Hr
             (phiA (set_diff T W)) Hk' (phiA_cls cand ceqb ceqb_spec (set_diff T W))).
  rewrite Hk. fold bs. fold ks.
  assert (A1 : qsum (map (fun b => wt b * ks b * phiA T (rk b)) bs) <=
               qsum (map (fun b => wt b * ks b * after W (phiA (set_diff T W)) (rk b)) bs)).
  { apply qsum_map_le. intros b Hb. rewrite !(Qmult_comm (wt b * ks b)).
    apply Qmult_le_compat_r; [apply (phi_after_ge cand ceqb ceqb_spec); exact HT'|].
    apply Qmult_le_0_compat; [apply (wf_bs_nonneg cand p Hwf b Hb)|apply ks_nonneg; exact Hb]. }
  assert (A2 : wsumr (phiA T) bs ==
               qsum (map (fun b => wt b * ks b * phiA T (rk b)) bs) +
               qsum (map (fun b => wt b * (1 - ks b) * phiA T (rk b)) bs)).
  { rewrite <- Lib_sets.qsum_map_plus. unfold STV_wsum.wsumr. apply Lib_sets.qsum_map_ext_in.
    intros b _. ring. }
  pose proof coal_kept_le as A3. lra.
Qed.

End ElectBound.

(* ====================== an elimination round ====================== *)

Lemma elim_coal_bound : forall (p0 p : profile) prev st np (s s' : mstate) x T,
  wf_stv0 p -> elim_round p0 p prev st np s s' x -> set_diff T [x] <> [] ->
  wsumr (phiA T) (ballots p) <= wsumr (phiA (set_diff T [x])) (ballots np).
Proof.
  intros p0 p prev st np s s' x T Hwf Hx Hne.
  rewrite (xr_ballots cand ceqb p0 p prev st np s s' x Hx).
  rewrite (wsumr_remove cand ceqb [x] _ (ballots p)
             (wf_ballots_sf cand _ _ (proj2 Hwf)) (wf_ballots_pos cand _ _ (proj2 Hwf))
             (phiA_cls cand ceqb ceqb_spec (set_diff T [x]))).
  apply wsumr_le; [apply (wf_bs_nonneg cand p Hwf)|].
  intros b _. apply (phi_after_ge cand ceqb ceqb_spec). exact Hne.
Qed.

(* ====================== the invariant: start ====================== *)

Lemma elected_in_nogroup : forall st : estate, elected st = no_group cand -> elected_in st = [].
Proof. intros st H. unfold STVSpec.elected_in. rewrite H. reflexivity. Qed.

Lemma eliminated_in_nogroup : forall st : estate, eliminated st = no_group cand -> eliminated_in st = [].
Proof. intros st H. unfold STVSpec.eliminated_in. rewrite H. reflexivity. Qed.

Lemma standing_seteq : forall A (p : profile), incl A (cands p) -> seteq cand A (standing A p).
Proof.
  intros A p Hincl c. unfold PCSpec.standing. rewrite (members_In cand ceqb ceqb_spec).
  split; [intros H; split; [apply Hincl; exact H|exact H]|intros [_ H]; exact H].
Qed.

Theorem pc_inv_init : forall A k t (p : profile) s0,
  NoDup A -> incl A (cands p) -> initial_state p = inl s0 ->
  Qnat k * t <= coal_wt A (ballots p) ->
  pc_inv A k t p [s0].
Proof.
  intros A k t p s0 HA Hincl H0 Hcoal.
  destruct (initial_state_inv cand ceqb p s0 H0) as (_ & Hel & _).
  assert (He : elected_of A [s0] = []).
  { unfold PCSpec.elected_of. rewrite all_elected_cons, (elected_in_nogroup s0 Hel). reflexivity. }
  pose proof (standing_seteq A p Hincl) as Hseq.
  constructor; rewrite He; cbn [length].
  - assert (Hle : (length A <= length (standing A p))%nat).
    { apply NoDup_incl_length; [exact HA|]. intros c Hc. apply Hseq. exact Hc. }
    lia.
  - intros _ _. rewrite Nat.sub_0_r.
    rewrite <- (coal_wt_seteq cand ceqb ceqb_spec A (standing A p) (ballots p) Hseq). exact Hcoal.
Qed.

(* ====================== the invariant: one round ====================== *)

Theorem pc_step : forall cfg t N (p0 p : profile) prev older (s s' : mstate) np st A k,
  stv_inv cfg t N p0 p (prev :: older) ->
  s_transfer cfg <> TFullWeight -> (s_transfer cfg = TRandom -> script_ok s) ->
  pc_inv A k t p (prev :: older) ->
  stv_step cfg t p0 (count_elected (prev :: older)) p prev s = inl ((np, st), s') ->
  pc_inv A k t np (st :: prev :: older).
Proof.
  intros cfg t N p0 p prev older s s' np st A k Hinv Hk Hscr [Ha Hb] Hstep.
  destruct Hinv as [(prev' & older' & Eq & Hctx) _ _ _ Ht Htint]. injection Eq as <- <-.
  pose proof (ctx_wf cand ceqb p0 p prev Hctx) as Hwf.
  destruct (stv_step_summary cand ceqb ceqb_spec cfg t p0 p prev Hctx _ s s' np st Hscr Hstep)
    as (Hperm & _ & _ & _).
  set (T := standing A p) in *.
  set (e := length (elected_of A (prev :: older))) in *.
  assert (Hcnt : (length (members A (elected_in st)) + length (members A (eliminated_in st))
                  + length (standing A np) = length T)%nat).
  { pose proof (Permutation_length (members_perm cand ceqb A _ _ Hperm)) as Hl.
    rewrite !(members_app cand ceqb), !app_length in Hl. unfold T, PCSpec.standing. lia. }
  assert (He' : elected_of A (st :: prev :: older) =
                members A (elected_in st) ++ elected_of A (prev :: older)).
  { unfold PCSpec.elected_of. rewrite all_elected_cons. apply (members_app cand ceqb). }
  assert (HTnd : NoDup T) by (apply (members_NoDup cand ceqb); apply Hwf).
  destruct (stv_step_ok_inv cand ceqb ceqb_spec cfg t p0 p prev Hctx _ s s' np st Hscr Hstep)
    as [[_ (W & others & mvs & s1 & Hr)]|[(_ & _ & _ & Hd)|(Hnone & _ & x & Hx)]].
  - (* election round *)
    assert (EW : elected_in st = W).
    { unfold STVSpec.elected_in. rewrite (flat_real_groups cand).
      apply (er_W _ _ _ _ _ _ _ _ _ _ _ _ _ _ Hr). }
    assert (EX : eliminated_in st = [])
      by (apply eliminated_in_nogroup; apply (er_elim _ _ _ _ _ _ _ _ _ _ _ _ _ _ Hr)).
    assert (ET' : standing A np = set_diff T W).
    { unfold PCSpec.standing. rewrite (er_cands cand ceqb cfg t p prev st np s s' W others mvs s1 Hr).
      apply (members_set_diff cand ceqb). }
    rewrite EW, EX in Hcnt. cbn [PCSpec.members filter length] in Hcnt.
    constructor; rewrite He', app_length, EW; fold e.
    + lia.
    + intros Hne' Hlt'. rewrite ET' in Hne' |- *.
      assert (HTne : T <> []) by (intros E; apply Hne'; rewrite E; reflexivity).
      assert (Hlt : (e < k)%nat) by lia.
      specialize (Hb HTne Hlt).
      assert (Hbd : wsumr (phiA T) (ballots p) - Qnat (length (members T W)) * t
                    <= wsumr (phiA (set_diff T W)) (ballots np)).
      { destruct (s_transfer cfg) eqn:Ek.
        - apply (elect_coal_bound cfg t p0 p prev st np s s' W others mvs s1 Hctx Hr Ek Ht T Hne').
        - apply (elect_coal_bound_rand cand ceqb ceqb_spec cfg t p0 p prev st np s s' W others mvs s1
                   Hctx Hr Ek (Hscr eq_refl) Htint Ht T Hne').
        - contradiction Hk; reflexivity. }
      assert (Em : members T W = members A W).
      { unfold PCSpec.members. apply Lib_rk.filter_ext_in. intros c Hc.
        pose proof (er_W_in cand ceqb cfg t p prev st np s s' W others mvs s1 Hr c Hc) as Hcp.
        destruct (memb c A) eqn:EA.
        - apply memb_In. apply (members_In cand ceqb ceqb_spec). split; [exact Hcp|].
          apply memb_In. exact EA.
        - apply memb_false_iff. intros HcT. apply (members_In cand ceqb ceqb_spec) in HcT.
          apply memb_false_iff in EA. apply EA. apply HcT. }
      rewrite Em in Hbd.
      rewrite (coal_wt_wsumr cand ceqb) in Hb. rewrite (coal_wt_wsumr cand ceqb).
      set (cW := length (members A W)) in *.
      assert (Hq : Qnat (k - e) == Qnat (k - (cW + e)) + Qnat cW).
      { rewrite <- Lib_sets.Qnat_plus. replace (k - (cW + e) + cW)%nat with (k - e)%nat by lia.
        reflexivity. }
      assert (Hq' : Qnat (k - e) * t == Qnat (k - (cW + e)) * t + Qnat cW * t)
        by (rewrite Hq; ring).
      lra.
  - (* default election: everybody standing is elected *)
    assert (EX : eliminated_in st = [])
      by (apply eliminated_in_nogroup; apply (dr_elim _ _ _ _ Hd)).
    assert (Enp : standing A np = []).
    { rewrite (dr_np _ _ _ _ Hd). reflexivity. }
    rewrite EX, Enp in Hcnt. cbn [PCSpec.members filter length] in Hcnt.
    constructor; rewrite He', app_length, Enp; fold e.
    + cbn [length]. lia.
    + intros Hne'. contradiction Hne'. reflexivity.
  - (* elimination of x *)
    assert (EW : elected_in st = [])
      by (apply elected_in_nogroup; apply (xr_el _ _ _ _ _ _ _ _ _ _ Hx)).
    assert (EX : eliminated_in st = [x]).
    { unfold STVSpec.eliminated_in. rewrite (xr_elim _ _ _ _ _ _ _ _ _ _ Hx). reflexivity. }
    assert (ET' : standing A np = set_diff T [x]).
    { unfold PCSpec.standing. rewrite (xr_cands cand ceqb p0 p prev st np s s' x Hx).
      apply (members_set_diff cand ceqb). }
    rewrite EW, EX in Hcnt. cbn [PCSpec.members filter length app] in Hcnt.
    assert (Ee : elected_of A (st :: prev :: older) = elected_of A (prev :: older))
      by (rewrite He', EW; reflexivity).
    assert (Hkeep : standing A np <> [] -> (e < k)%nat ->
                    Qnat (k - e) * t <= coal_wt (standing A np) (ballots np)).
    { intros Hne' Hlt. rewrite ET' in Hne' |- *.
      assert (HTne : T <> []) by (intros E; apply Hne'; rewrite E; reflexivity).
      specialize (Hb HTne Hlt).
      pose proof (elim_coal_bound p0 p prev st np s s' x T Hwf Hx Hne') as Hbd.
      rewrite (coal_wt_wsumr cand ceqb) in Hb. rewrite (coal_wt_wsumr cand ceqb). lra. }
    constructor; rewrite Ee; fold e; [|exact Hkeep].
    destruct (memb x A) eqn:ExA; cbn [length] in Hcnt; [|lia].
    (* a member is eliminated: more members were standing than quotas are left *)
    destruct (le_lt_dec (e + length T) k) as [Hle|Hgt]; [exfalso|lia].
    assert (HTne : T <> []) by (intros E; rewrite E in Hcnt; cbn [length] in Hcnt; lia).
    assert (Hlt : (e < k)%nat) by lia.
    specialize (Hb HTne Hlt).
    assert (Hall : forall c, In c T -> tally c (ballots p) < t).
    { intros c Hc. apply Hnone. apply (members_In cand ceqb ceqb_spec) in Hc. apply Hc. }
    pose proof (coal_lt_quotas cand ceqb ceqb_spec p T t Hwf HTnd HTne Hall) as Hcl.
    assert (Hqq : Qnat (length T) * t <= Qnat (k - e) * t).
    { apply Qmult_le_compat_r; [apply Qnat_le; lia|exact Ht]. }
    lra.
Qed.

(* ====================== the invariant: the loop ====================== *)

Theorem pc_loop : forall fuel cfg t N (p0 p : profile) sts (s s' : mstate) out A k,
  stv_inv cfg t N p0 p sts ->
  s_transfer cfg <> TFullWeight -> (s_transfer cfg = TRandom -> script_ok s) ->
  pc_inv A k t p sts ->
  stv_loop fuel cfg t p0 p sts s = inl (out, s') ->
  exists pf stsf, stv_inv cfg t N p0 pf stsf /\ pc_inv A k t pf stsf /\ out = rev stsf /\
    count_elected stsf = s_m cfg.
Proof.
  induction fuel as [|fuel IH]; intros cfg t N p0 p sts s s' out A k Hinv Hk Hscr Hpc H;
    rewrite (stv_loop_unfold cand ceqb) in H.
  - destruct (Z.eqb (count_elected sts) (s_m cfg)) eqn:E; [|discriminate].
    injection H as <- <-. exists p, sts. split; [exact Hinv|]. split; [exact Hpc|].
    split; [reflexivity|apply Z.eqb_eq; exact E].
  - destruct (Z.eqb (count_elected sts) (s_m cfg)) eqn:E.
    + injection H as <- <-. exists p, sts. split; [exact Hinv|]. split; [exact Hpc|].
      split; [reflexivity|apply Z.eqb_eq; exact E].
    + destruct sts as [|prev older]; [discriminate|].
      destruct (stv_step cfg t p0 (count_elected (prev :: older)) p prev s) as [[[np st] s1]|e] eqn:Es;
        [|discriminate].
      destruct (stv_inv_step cand ceqb ceqb_spec cfg t N p0 p prev older s s1 np st Hinv Hscr Es)
        as [Hinv' Hsuf].
      pose proof (pc_step cfg t N p0 p prev older s s1 np st A k Hinv Hk Hscr Hpc Es) as Hpc'.
      assert (Hscr1 : s_transfer cfg = TRandom -> script_ok s1).
      { intros E1. apply (script_ok_suffix cand s s1 Hsuf). apply Hscr. exact E1. }
      apply (IH cfg t N p0 np (st :: prev :: older) s1 s' out A k Hinv' Hk Hscr1 Hpc' H).
Qed.

(* ====================== the invariant: exit ====================== *)

(* all seats filled and the Droop inequality: the coalition has its min(k, |A|) seats *)
Theorem pc_exit : forall cfg t N (p0 pf : profile) stsf A k,
  stv_inv cfg t N p0 pf stsf -> s_transfer cfg <> TFullWeight ->
  count_elected stsf = s_m cfg -> N < inject_Z (s_m cfg + 1) * t -> 0 < t ->
  pc_inv A k t pf stsf ->
  (Nat.min k (length A) <= length (elected_of A stsf))%nat.
Proof.
  intros cfg t N p0 pf stsf A k Hinv Hk' Hcount HN Ht [Ha Hb].
  destruct (le_lt_dec (Nat.min k (length A)) (length (elected_of A stsf))) as [Hle|Hgt];
    [exact Hle|exfalso].
  assert (Hne : standing A pf <> []).
  { intros E. rewrite E in Ha. cbn [length] in Ha. lia. }
  assert (Hlt : (length (elected_of A stsf) < k)%nat) by lia.
  specialize (Hb Hne Hlt).
  destruct Hinv as [(prev & older & _ & Hctx) _ _ Hweight _ _].
  pose proof (ctx_wf cand ceqb p0 pf prev Hctx) as Hwf.
  destruct (Hweight Hk') as [[Ecs _]|Hw].
  { apply Hne. unfold PCSpec.standing. rewrite Ecs. reflexivity. }
  rewrite Hcount in Hw.
  assert (Hcl : coal_wt (standing A pf) (ballots pf) <= total_wt (ballots pf)).
  { apply wt_where_le_total. apply (wf_bs_nonneg cand pf Hwf). }
  assert (H1 : 1 <= Qnat (k - length (elected_of A stsf))).
  { change 1 with (Qnat 1). apply Qnat_le. lia. }
  assert (H2 : 1 * t <= Qnat (k - length (elected_of A stsf)) * t).
  { apply Qmult_le_compat_r; [exact H1|apply Qlt_le_weak; exact Ht]. }
  rewrite inject_Z_plus in HN. change (inject_Z 1) with 1 in HN. lra.
Qed.

(* ====================== the theorem ====================== *)

Lemma elected_upto_last : forall out : list estate,
  flat (elected_upto out (length out - 1)) = all_elected out.
Proof.
  intros out. unfold STVSpec.elected_upto, STVSpec.all_elected.
  rewrite (flat_concat_map cand). rewrite firstn_all2; [reflexivity|lia].
Qed.

Theorem droop_pc : forall cfg (p : profile) (A : cset) (k : nat) t (s s' : mstate) out,
  wf_stv_profile p -> s_quota cfg = QDroop ->
  s_transfer cfg <> TFullWeight -> (s_transfer cfg = TRandom -> script_ok s) ->
  NoDup A -> incl A (cands p) ->
  stv_init cfg p = inl t ->
  Qnat k * t <= coal_wt A (ballots p) ->
  run_stv cfg p s = inl (out, s') ->
  (Nat.min k (Nat.min (length A) (Z.to_nat (s_m cfg)))
   <= winners_in A (flat (elected_upto out (length out - 1))))%nat.
Proof.
  intros cfg p A k t s s' out [Hwf _] Hq Hk Hscr HA Hincl Hinit Hcoal Hrun.
  rewrite (run_stv_unfold cand ceqb) in Hrun. rewrite Hinit in Hrun.
  destruct (initial_state p) as [s0|e] eqn:E0; [|discriminate].
  pose proof (threshold_value cand cfg p t Hinit (total_wt_nonneg cand p Hwf)) as Hth.
  cbv zeta in Hth. rewrite Hq in Hth. destruct Hth as (_ & _ & HN & Ht1).
  assert (Ht : 0 < t) by lra.
  pose proof (stv_inv_init cand ceqb cfg p t s0 Hwf Hinit E0) as Hinv.
  pose proof (pc_inv_init A k t p s0 HA Hincl E0 Hcoal) as Hpc.
  destruct (pc_loop _ cfg t _ p p [s0] s s' out A k Hinv Hk Hscr Hpc Hrun)
    as (pf & stsf & Hinvf & Hpcf & -> & Hcount).
  pose proof (pc_exit cfg t _ p pf stsf A k Hinvf Hk Hcount HN Ht Hpcf) as Hex.
  assert (HndE : NoDup (all_elected stsf)).
  { apply (hist_elected_nodup cand p stsf (proj1 Hwf)). apply Hinvf. }
  unfold PCSpec.winners_in. rewrite elected_upto_last.
  rewrite (filter_memb_ext cand ceqb ceqb_spec A (all_elected (rev stsf)) (all_elected stsf)).
  - rewrite (inter_count_comm cand ceqb ceqb_spec A (all_elected stsf) HA HndE).
    unfold PCSpec.elected_of, PCSpec.members in Hex. lia.
  - intros c. split; intros Hc.
    + eapply Permutation_in; [apply (all_elected_rev cand)|exact Hc].
    + eapply Permutation_in; [apply Permutation_sym, (all_elected_rev cand)|exact Hc].
Qed.

(* on the ballots of a valid profile the executable coalition test is the specification *)
Lemma coalition_ballots : forall (p : profile) (A : cset) b, wf_stv_profile p -> NoDup A ->
  In b (ballots p) -> (solidb A (rk b) = true <-> solid A (rk b)).
Proof.
  intros p A b [[_ Hwfb] _] HA Hb. rewrite Forall_forall in Hwfb.
  destruct (Hwfb b Hb) as (_ & _ & Hnd & _).
  apply (solidb_solid cand ceqb ceqb_spec); assumption.
Qed.

(* ====================== IRV majority ====================== *)

(* a candidate ranked first on ballots worth at least the threshold wins the single seat *)
Theorem irv_majority : forall cfg (p : profile) (c : cand) t (s s' : mstate) out,
  wf_stv_profile p -> s_quota cfg = QDroop ->
  s_transfer cfg <> TFullWeight -> (s_transfer cfg = TRandom -> script_ok s) -> s_m cfg = 1%Z ->
  In c (cands p) -> stv_init cfg p = inl t ->
  t <= tally c (ballots p) ->
  run_stv cfg p s = inl (out, s') ->
  flat (elected_upto out (length out - 1)) = [c].
Proof.
  intros cfg p c t s s' out Hwfp Hq Hk Hscr Hm Hc Hinit Htally Hrun.
  assert (HA : NoDup [c]) by (constructor; [intros []|constructor]).
  assert (Hincl : incl [c] (cands p)) by (intros x [<-|[]]; exact Hc).
  assert (Hcoal : Qnat 1 * t <= coal_wt [c] (ballots p)).
  { change (Qnat 1) with 1. rewrite Qmult_1_l. eapply Qle_trans; [exact Htally|].
    unfold STVSpec.tally, PCSpec.coal_wt. apply wt_where_mono.
    - apply (wf_bs_nonneg cand p (proj1 Hwfp)).
    - intros b _ Hf. apply (first_is_solid cand ceqb ceqb_spec). exact Hf. }
  pose proof (droop_pc cfg p [c] 1 t s s' out Hwfp Hq Hk Hscr HA Hincl Hinit Hcoal Hrun) as Hpc.
  rewrite Hm in Hpc.
  assert (Hmin : Nat.min 1 (Nat.min (length [c]) (Z.to_nat 1)) = 1%nat) by reflexivity.
  rewrite Hmin in Hpc. clear Hmin.
  unfold PCSpec.winners_in in Hpc. cbn [filter] in Hpc.
  destruct (memb c (flat (elected_upto out (length out - 1)))) eqn:Em;
    [|cbn [length] in Hpc; lia].
  apply memb_In in Em.
  destruct (run_stv_count cand ceqb ceqb_spec cfg p s s' out (proj1 Hwfp)) as [Hcnt Hnd];
    [exact Hscr|exact Hrun|].
  rewrite (count_elected_all cand) in Hcnt. rewrite Hm in Hcnt.
  rewrite elected_upto_last in Em |- *.
  destruct (all_elected out) as [|a [|b l]]; cbn [length] in Hcnt; try lia.
  destruct Em as [->|[]]. reflexivity.
Qed.

End WithCand.
