(* Proofs/C16_links.v — property C16, "the MCMC variants have the same stationary distribution as the
   exact samplers": the two links the kernel theorems of Properties/C16.v / C16_gen2.v left open.
   (A) the Spec-level matrix [swap_kernel] IS the law of the model's step functions
       bt_mcmc_step / slate_mcmc_step when the proposal position is uniform on {0..m-1} and u is
       uniform on [0,1);
   (B) the exact C15 tables bt_pdf / slate_bt_pdf are stationary for that matrix. *)
From VK Require Import Base Core GenValidation PrefInterval Generators Laws.
From VK.Spec Require Import BTSpec GenSpec GenLaws McmcLinkSpec.
From VK.Proofs Require Import Lib_rk Lib_sets Dist C12_expand C15_bt C15_slate C14_wf C14_kernels
  C16_laws C16_gen2_types.
From Coq Require Import Permutation Lia Lqa Setoid Morphisms.

(* ------------------------------------------------------------------ *)
(** * A1. the step functions *)

Lemma Qmin1_bt_accept : forall iv x j, Qmin1 (bt_accept iv x j) = bt_accept iv x j.
Proof.
  intros iv x j. unfold bt_accept.
  destruct (nth_error x j) as [a|]; [|reflexivity].
  destruct (nth_error x (S j)) as [b|]; [|reflexivity].
  apply Qmin1_idem.
Qed.

Theorem bt_mcmc_step_spec : forall iv x j u,
  bt_mcmc_step iv x (j, u) = (if Qlt_bool u (Qmin1 (bt_accept iv x j)) then swap_adj j x else x) /\
  (u < Qmin1 (bt_accept iv x j) -> bt_mcmc_step iv x (j, u) = swap_adj j x) /\
  (Qmin1 (bt_accept iv x j) <= u -> bt_mcmc_step iv x (j, u) = x).
Proof.
  intros iv x j u. unfold bt_mcmc_step. cbn [fst snd]. rewrite Qmin1_bt_accept.
  split; [reflexivity|]. split; intros H.
  - apply Qlt_bool_iff in H. rewrite H. reflexivity.
  - apply Qlt_bool_false_iff in H. rewrite H. reflexivity.
Qed.

(* comparing a number below 1 with q or with min(1,q) is the same *)
Lemma Qlt_bool_min1 : forall u q, u < 1 -> Qlt_bool u (Qmin1 q) = Qlt_bool u q.
Proof.
  intros u q Hu. unfold Qmin1. destruct (Qle_bool 1 q) eqn:E; [|reflexivity].
  apply Qle_bool_iff in E.
  assert (H1 : Qlt_bool u 1 = true) by (apply Qlt_bool_iff; exact Hu).
  assert (H2 : Qlt_bool u q = true) by (apply Qlt_bool_iff; lra).
  rewrite H1, H2. reflexivity.
Qed.

Theorem slate_mcmc_step_spec : forall own c x j u, u < 1 ->
  slate_mcmc_step own c x (j, u) =
    (if Qlt_bool u (Qmin1 (slate_accept own c x j)) then swap_adj j x else x) /\
  (u < slate_accept own c x j <-> u < Qmin1 (slate_accept own c x j)) /\
  (u < Qmin1 (slate_accept own c x j) -> slate_mcmc_step own c x (j, u) = swap_adj j x) /\
  (Qmin1 (slate_accept own c x j) <= u -> slate_mcmc_step own c x (j, u) = x).
Proof.
  intros own c x j u Hu. unfold slate_mcmc_step. cbn [fst snd].
  pose proof (Qlt_bool_min1 u (slate_accept own c x j) Hu) as E.
  split; [rewrite E; reflexivity|]. split; [|split].
  - rewrite <- !Qlt_bool_iff, E. reflexivity.
  - intros H. apply Qlt_bool_iff in H. rewrite E in H. rewrite H. reflexivity.
  - intros H. apply Qlt_bool_false_iff in H. rewrite E in H. rewrite H. reflexivity.
Qed.

(* the acceptance values are non-negative *)
Lemma bt_accept_nonneg : forall iv x j,
  (forall c, In c x -> 0 <= lookupP iv c) -> 0 <= bt_accept iv x j.
Proof.
  intros iv x j Hnn. unfold bt_accept.
  destruct (nth_error x j) as [a|] eqn:Ea; [|lra].
  destruct (nth_error x (S j)) as [b|] eqn:Eb; [|lra].
  assert (Ha : 0 <= lookupP iv a) by (apply Hnn; apply (nth_error_In _ _ Ea)).
  assert (Hb : 0 <= lookupP iv b) by (apply Hnn; apply (nth_error_In _ _ Eb)).
  assert (Hq : 0 <= lookupP iv b / lookupP iv a).
  { unfold Qdiv. apply Qmult_le_0_compat; [exact Hb|]. apply Qinv_le_0_compat. exact Ha. }
  unfold Qmin1. destruct (Qle_bool 1 (lookupP iv b / lookupP iv a)); lra.
Qed.

Lemma slate_accept_nonneg : forall own c x j, 0 <= c -> c <= 1 -> 0 <= slate_accept own c x j.
Proof.
  intros own c x j H0 H1. unfold slate_accept.
  destruct (nth_error x j) as [a|]; [|lra]. destruct (nth_error x (S j)) as [b|]; [|lra].
  destruct (negb (Pos.eqb a b) && Pos.eqb a own); [|lra].
  unfold Qdiv. apply Qmult_le_0_compat; [lra|]. apply Qinv_le_0_compat. exact H0.
Qed.

Lemma Qmin1_range : forall q, 0 <= q -> 0 <= Qmin1 q /\ Qmin1 q <= 1.
Proof.
  intros q H. unfold Qmin1. destruct (Qle_bool 1 q) eqn:E; [split; lra|]. split; [exact H|].
  destruct (Qlt_le_dec q 1) as [Hlt|Hge]; [lra|]. apply Qle_bool_iff in Hge. congruence.
Qed.

(* ------------------------------------------------------------------ *)
(** * A2. the set of u in [0,1) that sends x to y is the interval [step_lo, step_hi) *)

Section StepLaw.
Variable acc : list positive -> nat -> Q.
Let gstep (x : list positive) (ju : nat * Q) : list positive :=
  if Qlt_bool (snd ju) (acc x (fst ju)) then swap_adj (fst ju) x else x.

Lemma step_interval : forall x j y, 0 <= acc x j ->
  0 <= step_lo acc x j y /\ step_lo acc x j y <= step_hi acc x j y /\ step_hi acc x j y <= 1 /\
  (forall u, 0 <= u -> u < 1 ->
     (gstep x (j, u) = y <-> step_lo acc x j y <= u /\ u < step_hi acc x j y)).
Proof.
  intros x j y Hacc. destruct (Qmin1_range _ Hacc) as [Ha0 Ha1].
  unfold step_lo, step_hi, gstep. cbn [fst snd].
  destruct (list_peqb_reflect (swap_adj j x) y) as [Es|Es];
    destruct (list_peqb_reflect x y) as [Ex|Ex].
  - split; [lra|]. split; [lra|]. split; [lra|]. intros u Hu0 Hu1.
    destruct (Qlt_bool u (acc x j)); (split; [intros _; split; lra|intros _; assumption]).
  - split; [lra|]. split; [lra|]. split; [lra|]. intros u Hu0 Hu1.
    rewrite <- (Qlt_bool_min1 u (acc x j) Hu1).
    destruct (Qlt_bool u (Qmin1 (acc x j))) eqn:E.
    + apply Qlt_bool_iff in E. split; [intros _; split; lra|intros _; exact Es].
    + apply Qlt_bool_false_iff in E. split; [intros H; contradiction|intros [_ H]; lra].
  - split; [lra|]. split; [lra|]. split; [lra|]. intros u Hu0 Hu1.
    rewrite <- (Qlt_bool_min1 u (acc x j) Hu1).
    destruct (Qlt_bool u (Qmin1 (acc x j))) eqn:E.
    + apply Qlt_bool_iff in E. split; [intros H; contradiction|intros [H _]; lra].
    + apply Qlt_bool_false_iff in E. split; [intros _; split; lra|intros _; exact Ex].
  - split; [lra|]. split; [lra|]. split; [lra|]. intros u Hu0 Hu1.
    destruct (Qlt_bool u (acc x j)); (split; [intros H; contradiction|intros [H1 H2]; lra]).
Qed.

(* the length of that interval is the j-th summand of swap_kernel (without the factor 1/m) *)
Lemma step_len_summand : forall x j y,
  step_len acc x j y ==
  Qmin1 (acc x j) * indic (list_peqb (swap_adj j x) y) + (1 - Qmin1 (acc x j)) * indic (list_peqb x y).
Proof.
  intros x j y. unfold step_len, step_lo, step_hi, indic.
  destruct (list_peqb (swap_adj j x) y); destruct (list_peqb x y); ring.
Qed.

Lemma swap_kernel_step_len : forall m x y,
  swap_kernel list_peqb acc m x y ==
  qsum (map (fun j => (1 / Qnat m) * step_len acc x j y) (seq 0 m)).
Proof.
  intros m x y. unfold swap_kernel. apply qsum_map_ext_in. intros j _.
  rewrite step_len_summand. reflexivity.
Qed.

End StepLaw.

(* the two chains of the model *)
Theorem bt_step_interval : forall iv x j y,
  (forall c, In c x -> 0 <= lookupP iv c) ->
  0 <= step_lo (bt_accept iv) x j y /\
  step_lo (bt_accept iv) x j y <= step_hi (bt_accept iv) x j y /\
  step_hi (bt_accept iv) x j y <= 1 /\
  (forall u, 0 <= u -> u < 1 ->
     (bt_mcmc_step iv x (j, u) = y <->
      step_lo (bt_accept iv) x j y <= u /\ u < step_hi (bt_accept iv) x j y)) /\
  step_len (bt_accept iv) x j y ==
    Qmin1 (bt_accept iv x j) * indic (list_peqb (swap_adj j x) y) +
    (1 - Qmin1 (bt_accept iv x j)) * indic (list_peqb x y).
Proof.
  intros iv x j y Hnn.
  destruct (step_interval (bt_accept iv) x j y (bt_accept_nonneg iv x j Hnn)) as (H1 & H2 & H3 & H4).
  split; [exact H1|]. split; [exact H2|]. split; [exact H3|]. split; [exact H4|].
  apply step_len_summand.
Qed.

Theorem slate_step_interval : forall own c x j y,
  0 <= c -> c <= 1 ->
  0 <= step_lo (slate_accept own c) x j y /\
  step_lo (slate_accept own c) x j y <= step_hi (slate_accept own c) x j y /\
  step_hi (slate_accept own c) x j y <= 1 /\
  (forall u, 0 <= u -> u < 1 ->
     (slate_mcmc_step own c x (j, u) = y <->
      step_lo (slate_accept own c) x j y <= u /\ u < step_hi (slate_accept own c) x j y)) /\
  step_len (slate_accept own c) x j y ==
    Qmin1 (slate_accept own c x j) * indic (list_peqb (swap_adj j x) y) +
    (1 - Qmin1 (slate_accept own c x j)) * indic (list_peqb x y).
Proof.
  intros own c x j y H0 H1.
  destruct (step_interval (slate_accept own c) x j y (slate_accept_nonneg own c x j H0 H1))
    as (I1 & I2 & I3 & I4).
  split; [exact I1|]. split; [exact I2|]. split; [exact I3|]. split; [exact I4|].
  apply step_len_summand.
Qed.

(* self-contained form: some interval [lo, hi) inside [0,1], of the length the matrix prescribes *)
Theorem bt_step_law : forall iv x j y,
  (forall c, In c x -> 0 <= lookupP iv c) ->
  exists lo hi, 0 <= lo /\ lo <= hi /\ hi <= 1 /\
    (forall u, 0 <= u -> u < 1 -> (bt_mcmc_step iv x (j, u) = y <-> lo <= u /\ u < hi)) /\
    hi - lo == Qmin1 (bt_accept iv x j) * indic (list_peqb (swap_adj j x) y) +
               (1 - Qmin1 (bt_accept iv x j)) * indic (list_peqb x y).
Proof.
  intros iv x j y Hnn. exists (step_lo (bt_accept iv) x j y), (step_hi (bt_accept iv) x j y).
  exact (bt_step_interval iv x j y Hnn).
Qed.

Theorem slate_step_law : forall own c x j y,
  0 <= c -> c <= 1 ->
  exists lo hi, 0 <= lo /\ lo <= hi /\ hi <= 1 /\
    (forall u, 0 <= u -> u < 1 -> (slate_mcmc_step own c x (j, u) = y <-> lo <= u /\ u < hi)) /\
    hi - lo == Qmin1 (slate_accept own c x j) * indic (list_peqb (swap_adj j x) y) +
               (1 - Qmin1 (slate_accept own c x j)) * indic (list_peqb x y).
Proof.
  intros own c x j y H0 H1.
  exists (step_lo (slate_accept own c) x j y), (step_hi (slate_accept own c) x j y).
  exact (slate_step_interval own c x j y H0 H1).
Qed.

(* the premises cannot be dropped: with a negative support the Spec matrix has a negative entry *)
Theorem bt_step_law_negative_refuted :
  exists (iv : list (pcand * Q)) (x y : list pcand) (j : nat),
    swap_kernel list_peqb (bt_accept iv) 1 x y < 0 /\
    (forall u, 0 <= u -> bt_mcmc_step iv x (j, u) = x).
Proof.
  exists [(1%positive, 1); (2%positive, -(1))], [1%positive; 2%positive], [2%positive; 1%positive], O.
  split; [vm_compute; reflexivity|].
  intros u Hu. unfold bt_mcmc_step. cbn [fst snd].
  assert (E : Qlt_bool u (bt_accept [(1%positive, 1); (2%positive, -(1))] [1%positive; 2%positive] 0) = false).
  { apply Qlt_bool_false_iff. assert (Ev : bt_accept [(1%positive, 1); (2%positive, -(1))] [1%positive; 2%positive] 0 == -(1)) by (vm_compute; reflexivity).
    rewrite Ev. lra. }
  rewrite E. reflexivity.
Qed.

(* ------------------------------------------------------------------ *)
(** * A3. the run emits the successive states of the chain *)

Lemma bt_mcmc_run_cons : forall iv cur s rest,
  bt_mcmc_run iv cur (s :: rest) = bt_mcmc_step iv cur s :: bt_mcmc_run iv (bt_mcmc_step iv cur s) rest.
Proof. reflexivity. Qed.

Lemma slate_mcmc_run_cons : forall own c cur s rest,
  slate_mcmc_run own c cur (s :: rest) =
  slate_mcmc_step own c cur s :: slate_mcmc_run own c (slate_mcmc_step own c cur s) rest.
Proof. reflexivity. Qed.

Lemma firstn_S_cons : forall (X : Type) k (s : X) rest, firstn (S k) (s :: rest) = s :: firstn k rest.
Proof. reflexivity. Qed.

Theorem bt_mcmc_run_nth : forall iv steps cur,
  length (bt_mcmc_run iv cur steps) = length steps /\
  (forall k, (k < length steps)%nat ->
     nth_error (bt_mcmc_run iv cur steps) k =
     Some (chain_state (bt_mcmc_step iv) cur (firstn (S k) steps))).
Proof.
  intros iv steps. induction steps as [|s rest IH]; intros cur.
  - split; [reflexivity|]. intros k Hk. cbn [length] in Hk. lia.
  - rewrite bt_mcmc_run_cons. destruct (IH (bt_mcmc_step iv cur s)) as [IHl IHn]. split.
    + cbn [length]. rewrite IHl. reflexivity.
    + intros k Hk. cbn [length] in Hk. destruct k as [|k]; [reflexivity|].
      cbn [nth_error]. rewrite IHn by lia. rewrite (firstn_S_cons _ (S k) s rest). reflexivity.
Qed.

Theorem slate_mcmc_run_nth : forall own c steps cur,
  length (slate_mcmc_run own c cur steps) = length steps /\
  (forall k, (k < length steps)%nat ->
     nth_error (slate_mcmc_run own c cur steps) k =
     Some (chain_state (slate_mcmc_step own c) cur (firstn (S k) steps))).
Proof.
  intros own c steps. induction steps as [|s rest IH]; intros cur.
  - split; [reflexivity|]. intros k Hk. cbn [length] in Hk. lia.
  - rewrite slate_mcmc_run_cons. destruct (IH (slate_mcmc_step own c cur s)) as [IHl IHn]. split.
    + cbn [length]. rewrite IHl. reflexivity.
    + intros k Hk. cbn [length] in Hk. destruct k as [|k]; [reflexivity|].
      cbn [nth_error]. rewrite IHn by lia. rewrite (firstn_S_cons _ (S k) s rest). reflexivity.
Qed.

(* ------------------------------------------------------------------ *)
(** * B0. rows of the matrix sum to one on any swap-closed, duplicate-free state space *)

Theorem swap_kernel_rows : forall (acc : list positive -> nat -> Q) (states : list (list positive)) m x,
  NoDup states -> (forall j z, In z states -> In (swap_adj j z) states) ->
  (0 < m)%nat -> In x states ->
  qsum (map (swap_kernel list_peqb acc m x) states) == 1.
Proof.
  intros acc states m x Hnd Hcl Hm Hin. unfold swap_kernel.
  rewrite qsum_swap.
  transitivity (qsum (map (fun _ : nat => 1 / Qnat m) (seq 0 m))).
  - apply qsum_map_ext_in. intros j _.
    transitivity ((1 / Qnat m) *
       (Qmin1 (acc x j) * qsum (map (fun y => indic (list_peqb (swap_adj j x) y)) states) +
        (1 - Qmin1 (acc x j)) * qsum (map (fun y => indic (list_peqb x y)) states))).
    + rewrite <- !qsum_map_scal, <- qsum_map_plus, <- qsum_map_scal.
      apply qsum_map_ext_in. intros y _. reflexivity.
    + rewrite (sum_indic_point _ x Hnd Hin).
      rewrite (sum_indic_point _ (swap_adj j x) Hnd (Hcl j x Hin)). ring.
  - rewrite qsum_map_const, seq_length. field. apply Qnat_neq0. exact Hm.
Qed.

Theorem bt_mcmc_kernel_stochastic : forall iv seed m x,
  NoDup seed -> (0 < m)%nat -> Permutation x seed ->
  qsum (map (swap_kernel list_peqb (bt_accept iv) m x) (perms pcand seed)) == 1.
Proof.
  intros iv seed m x Hnd Hm Hx. apply swap_kernel_rows.
  - apply perms_NoDup. exact Hnd.
  - intros j z Hz. apply perms_spec. apply perms_spec in Hz.
    eapply Permutation_trans; [apply swap_adj_perm|exact Hz].
  - exact Hm.
  - apply perms_spec. exact Hx.
Qed.

(* ------------------------------------------------------------------ *)
(** * B. a normalised table over the state space inherits stationarity *)

(* tbl lists the states in order, each with weight pi(x) * k *)
Lemma table_stationary : forall (K : list positive -> Q) (pi : list positive -> Q) (k : Q)
    (tbl : list (list positive * Q)),
  (forall x w, In (x, w) tbl -> w == pi x * k) ->
  qsum (map (fun xv => snd xv * K (fst xv)) tbl) ==
  k * qsum (map (fun x => pi x * K x) (map fst tbl)).
Proof.
  intros K pi k tbl H. rewrite map_map, <- qsum_map_scal.
  apply qsum_map_ext_in. intros [x w] Hin. cbn [fst snd]. rewrite (H x w Hin). ring.
Qed.

(** ** B1. name-Bradley-Terry: bt_pdf is stationary *)
Theorem bt_mcmc_exact_table_stationary : forall d m y v,
  NoDup (map fst d) -> (forall c s, In (c, s) d -> 0 < s) -> (0 < m)%nat ->
  In (y, v) (bt_pdf d) ->
  qsum (map (fun xv => snd xv * swap_kernel list_peqb (bt_accept d) m (fst xv) y) (bt_pdf d)) == v.
Proof.
  intros d m y v Hnd Hpos Hm Hin.
  destruct (bt_entry_mp d y v Hin) as [Hy Hv].
  rewrite (table_stationary (fun x => swap_kernel list_peqb (bt_accept d) m x y) (bt_stat d)
             (/ qsum (map (mp d) (perms pcand (map fst d))))).
  - rewrite bt_pdf_keys, bt_mcmc_stationary.
    + rewrite Hv. unfold bt_stat, mp, Qdiv. ring.
    + exact Hnd.
    + intros c Hc. apply (Hpos c). apply lookupP_in. exact Hc.
    + exact Hm.
    + exact Hy.
  - intros x w Hx. destruct (bt_entry_mp d x w Hx) as [_ Hw]. rewrite Hw. reflexivity.
Qed.

(* every rearrangement of the candidates has an entry *)
Lemma bt_pdf_has_entry : forall d y, Permutation y (map fst d) -> exists v, In (y, v) (bt_pdf d).
Proof.
  intros d y Hy. apply perms_spec in Hy. rewrite <- bt_pdf_keys in Hy.
  apply in_map_iff in Hy. destruct Hy as ([y' v] & E & Hin). cbn [fst] in E. subst y'.
  exists v. exact Hin.
Qed.

(** ** B2. slate-Bradley-Terry with two slates: slate_bt_pdf is stationary for cohesion >= 1/2 *)
Theorem slate_mcmc_exact_table_stationary : forall (own opp : bloc) (a b : nat) sizes c m y v,
  own <> opp ->
  sizes = [(own, a); (opp, b)] \/ sizes = [(opp, b); (own, a)] ->
  1 # 2 <= c -> (0 < m)%nat ->
  In (y, v) (slate_bt_pdf sizes own opp c) ->
  qsum (map (fun tv => snd tv * swap_kernel list_peqb (slate_accept own c) m (fst tv) y)
            (slate_bt_pdf sizes own opp c)) == v.
Proof.
  intros own opp a b sizes c m y v Hne Hs Hc Hm Hin.
  assert (Hw : forall t w, In (t, w) (slate_bt_pdf sizes own opp c) ->
            Permutation t (to_sample sizes) /\
            w == slate_stat own c t *
                 / qsum (map (rw sizes own opp c) (arrangements_ms (to_sample sizes)))).
  { intros t w Ht. destruct (slate_entry_general sizes own opp c t w Ht) as [Hp Hv].
    split; [exact Hp|]. rewrite Hv.
    assert (Hb : Permutation t (repeat own a ++ repeat opp b)).
    { eapply Permutation_trans; [exact Hp|apply (to_sample_perm own opp a b sizes Hs)]. }
    rewrite (rw_slate_weight own opp a b sizes Hne Hs c t Hb).
    rewrite <- (slate_stat_two own opp c t Hne).
    - reflexivity.
    - intros z Hz. apply (Permutation_in _ Hb) in Hz. apply in_app_or in Hz.
      destruct Hz as [Hz|Hz]; apply repeat_spec in Hz; [left|right]; exact Hz. }
  destruct (Hw y v Hin) as [Hy Hv].
  rewrite (table_stationary (fun x => swap_kernel list_peqb (slate_accept own c) m x y)
             (slate_stat own c)
             (/ qsum (map (rw sizes own opp c) (arrangements_ms (to_sample sizes))))).
  - rewrite slate_keys, (slate_mcmc_stationary own c (to_sample sizes) m y Hc Hm Hy).
    rewrite Hv. ring.
  - intros x w Hx. exact (proj2 (Hw x w Hx)).
Qed.

Lemma slate_bt_pdf_has_entry : forall (own opp : bloc) (a b : nat) sizes c y,
  sizes = [(own, a); (opp, b)] \/ sizes = [(opp, b); (own, a)] ->
  Permutation y (repeat own a ++ repeat opp b) -> exists v, In (y, v) (slate_bt_pdf sizes own opp c).
Proof.
  intros own opp a b sizes c y Hs Hy.
  assert (Hin : In y (arrangements_ms (to_sample sizes))).
  { apply arrangements_spec. eapply Permutation_trans; [exact Hy|].
    apply Permutation_sym. apply (to_sample_perm own opp a b sizes Hs). }
  rewrite <- (slate_keys sizes own opp c) in Hin.
  apply in_map_iff in Hin. destruct Hin as ([y' v] & E & Hin). cbn [fst] in E. subst y'.
  exists v. exact Hin.
Qed.

(* below 1/2 the exact table is NOT stationary for the coded chain: cohesion 1/4, one candidate
   per slate; the chain flips deterministically between [1;2] (table 1/4) and [2;1] (table 3/4) *)
Theorem slate_mcmc_exact_table_refuted :
  exists (own opp : bloc) (a b : nat) (c : Q) (m : nat) (y : list bloc) (v : Q),
    own <> opp /\ 0 < c /\ c < 1 # 2 /\ (0 < m)%nat /\
    In (y, v) (slate_bt_pdf [(own, a); (opp, b)] own opp c) /\
    ~ (qsum (map (fun tv => snd tv * swap_kernel list_peqb (slate_accept own c) m (fst tv) y)
                 (slate_bt_pdf [(own, a); (opp, b)] own opp c)) == v).
Proof.
  exists 1%positive, 2%positive, 1%nat, 1%nat, (1 # 4), 1%nat, [1%positive; 2%positive], (1 # 4).
  split; [discriminate|]. split; [reflexivity|]. split; [reflexivity|]. split; [lia|].
  split; [vm_compute; left; reflexivity|].
  intros H. vm_compute in H. discriminate H.
Qed.

(* ------------------------------------------------------------------ *)
(** * B'. the same in the language of laws: P = law of one exact draw (categorical law of the table) *)

Lemma table_point_prob : forall (tbl : list (list pcand * Q)) r v,
  NoDup (map fst tbl) -> qsum (map snd tbl) == 1 -> In (r, v) tbl ->
  prob (list_peqb r) (categorical tbl) == v.
Proof.
  intros tbl r v Hnd Hsum Hin. rewrite prob_categorical, Hsum, (select_table tbl r v Hnd Hin). field.
Qed.

Lemma law_stationary_from_table : forall (tbl : list (list pcand * Q)) (K : list pcand -> Q) all y v,
  NoDup (map fst tbl) -> qsum (map snd tbl) == 1 ->
  NoDup all -> (forall t, In t all <-> In t (map fst tbl)) ->
  In (y, v) tbl ->
  qsum (map (fun xv => snd xv * K (fst xv)) tbl) == v ->
  qsum (map (fun x => prob (list_peqb x) (categorical tbl) * K x) all)
  == prob (list_peqb y) (categorical tbl).
Proof.
  intros tbl K all y v Hnd Hsum Hall Hiff Hin Hst.
  rewrite (table_point_prob tbl y v Hnd Hsum Hin), <- Hst.
  transitivity (qsum (map (fun x => prob (list_peqb x) (categorical tbl) * K x) (map fst tbl))).
  - apply qsum_perm. apply Permutation_map. apply NoDup_Permutation; [exact Hall|exact Hnd|exact Hiff].
  - rewrite map_map. apply qsum_map_ext_in. intros [x w] Hx. cbn [fst snd].
    rewrite (table_point_prob tbl x w Hnd Hsum Hx). reflexivity.
Qed.

Theorem bt_mcmc_exact_law_stationary : forall d m all y,
  NoDup (map fst d) -> (forall c s, In (c, s) d -> 0 < s) -> (0 < m)%nat ->
  enumerates all (map fst d) -> Permutation y (map fst d) ->
  qsum (map (fun x => prob (list_peqb x) (categorical (bt_pdf d)) *
                      swap_kernel list_peqb (bt_accept d) m x y) all)
  == prob (list_peqb y) (categorical (bt_pdf d)).
Proof.
  intros d m all y Hnd Hpos Hm [Hall Hiff] Hy.
  destruct (bt_pdf_has_entry d y Hy) as (v & Hin).
  destruct (bt_sums_to_one d Hpos) as (Hsum & Hkeys & _ & _ & Hndk).
  apply (law_stationary_from_table (bt_pdf d) (fun x => swap_kernel list_peqb (bt_accept d) m x y) all y v).
  - apply Hndk. exact Hnd.
  - exact Hsum.
  - exact Hall.
  - intros t. rewrite Hiff, Hkeys, perms_spec. reflexivity.
  - exact Hin.
  - apply bt_mcmc_exact_table_stationary; assumption.
Qed.

Theorem slate_mcmc_exact_law_stationary : forall (own opp : bloc) (a b : nat) sizes c m all y,
  own <> opp ->
  sizes = [(own, a); (opp, b)] \/ sizes = [(opp, b); (own, a)] ->
  1 # 2 <= c -> c <= 1 -> (0 < m)%nat ->
  enumerates all (repeat own a ++ repeat opp b) -> Permutation y (repeat own a ++ repeat opp b) ->
  qsum (map (fun x => prob (list_peqb x) (categorical (slate_bt_pdf sizes own opp c)) *
                      swap_kernel list_peqb (slate_accept own c) m x y) all)
  == prob (list_peqb y) (categorical (slate_bt_pdf sizes own opp c)).
Proof.
  intros own opp a b sizes c m all y Hne Hs Hc Hc1 Hm [Hall Hiff] Hy.
  destruct (slate_bt_pdf_has_entry own opp a b sizes c y Hs Hy) as (v & Hin).
  assert (H0 : 0 <= c) by lra.
  destruct (slate_bt_two_sums_to_one own opp a b sizes Hne Hs c H0 Hc1) as (Hsum & _ & Hndk & _).
  apply (law_stationary_from_table (slate_bt_pdf sizes own opp c)
           (fun x => swap_kernel list_peqb (slate_accept own c) m x y) all y v).
  - exact Hndk.
  - exact Hsum.
  - exact Hall.
  - intros t. rewrite Hiff, slate_keys. symmetry. apply (arr_base own opp a b sizes Hs).
  - exact Hin.
  - apply (slate_mcmc_exact_table_stationary own opp a b sizes c m y v); assumption.
Qed.
