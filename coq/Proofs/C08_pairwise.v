(* Proofs/C08_pairwise.v — property C08, anonymity of the pairwise layer.
   ballot_fill pushes the electorate (the weight measure on ballot contents) forward along a
   one-to-many map that only looks at the content, so equivalent profiles have equivalent filled
   profiles; head-to-head counts are weight-linear (C08_anon.h2h_anonymous); the dictionary, the
   beats-or-ties digraph and the dominating tiers only depend on the head-to-head counts and on
   the SET of candidates. *)
From Coq Require Import List ZArith QArith Bool Permutation Lia Lqa Setoid Morphisms Sorting.Sorted Relations.
From VK Require Import Base Core STV Pairwise Rules.
From VK.Spec Require Import Content ScoreSpec EditSpec Anon PairwiseSpec AnonRules.
From VK.Proofs Require Import Lib_sets Lib_content Lib_condense C11_condense C04_scoring C12_edit
  C12_expand C06_pairwise C06_tiers C08_anon C08_stv.
Import ListNotations.
Open Scope Q_scope.

(* ------------------------------------------------------------------ *)
(** * Generic list facts *)

Lemma sorted_gt_unique : forall l l' : list nat,
  StronglySorted gt l -> StronglySorted gt l' -> (forall x, In x l <-> In x l') -> l = l'.
Proof.
  induction l as [|a l IH]; intros l' Hs Hs' Hin.
  - destruct l' as [|a' l']; [reflexivity|]. destruct (proj2 (Hin a') (or_introl eq_refl)).
  - destruct l' as [|a' l']; [destruct (proj1 (Hin a) (or_introl eq_refl))|].
    inversion Hs as [|x y Hs1 Hgt]; subst. inversion Hs' as [|x y Hs1' Hgt']; subst.
    rewrite Forall_forall in Hgt, Hgt'.
    assert (Ha : a = a').
    { destruct (proj1 (Hin a) (or_introl eq_refl)) as [E|Hy]; [congruence|].
      destruct (proj2 (Hin a') (or_introl eq_refl)) as [E|Hx]; [congruence|].
      pose proof (Hgt a' Hx). pose proof (Hgt' a Hy). lia. }
    subst a'. f_equal. apply IH; try assumption.
    intros x. split; intros Hx.
    + destruct (proj1 (Hin x) (or_intror Hx)) as [E|H]; [|exact H].
      subst x. pose proof (Hgt a Hx). lia.
    + destruct (proj2 (Hin x) (or_intror Hx)) as [E|H]; [|exact H].
      subst x. pose proof (Hgt' a Hx). lia.
Qed.

Lemma Forall2_map_same : forall {A B} (R : B -> B -> Prop) (f g : A -> B) (l : list A),
  (forall a, R (f a) (g a)) -> Forall2 R (map f l) (map g l).
Proof. intros A B R f g l H. induction l as [|a l IH]; cbn [map]; constructor; auto. Qed.

Section PwAnon.
Variable cand : Type.
Variable ceqb : cand -> cand -> bool.
Hypothesis ceqb_spec : forall a b, reflect (a = b) (ceqb a b).

Notation cset := (cset cand).
Notation ranking := (ranking cand).
Notation scores := (scores cand).
Notation ballot := (ballot cand).
Notation profile := (profile cand).
Notation same := (same_content cand ceqb).
Notation wtof := (wtof cand ceqb).
Notation dist_eq := (dist_eq cand ceqb).
Notation memb := (memb cand ceqb).
Notation ranking_eqb := (ranking_eqb cand ceqb).
Notation cset_eqb := (cset_eqb cand ceqb).
Notation flat := (flat cand).
Notation singletons := (singletons cand).
Notation perms := (perms cand).
Notation nonneg_wts := (nonneg_wts cand).
Notation wsum := (Lib_condense.wsum cand).
Notation groups_equiv := (groups_equiv cand).
Notation profile_equiv := (profile_equiv cand ceqb).
Notation wf_profile := (wf_profile cand).
Notation as_key := (as_key cand).
Notation missing_singletons := (missing_singletons cand ceqb).
Notation fill_ballot := (fill_ballot cand ceqb).
Notation ballot_fill := (ballot_fill cand ceqb).
Notation h2h := (h2h cand ceqb).
Notation pairwise_entries := (pairwise_entries cand ceqb).
Notation edge := (edge cand ceqb).
Notation has_path := (has_path cand ceqb).
Notation beat_size := (beat_size cand ceqb).
Notation tiers_of := (tiers_of cand ceqb).
Notation pairwise_graph := (pairwise_graph cand ceqb).
Notation dominating_tiers := (dominating_tiers cand ceqb).
Notation pw_domain := (pw_domain cand).
Notation dict_incl := (dict_incl cand).
Notation dict_equiv := (dict_equiv cand).
Notation pwc_equiv := (pwc_equiv cand).

(* ------------------------------------------------------------------ *)
(** * ballot_fill as a push-forward of the electorate *)

Definition fillF (cs : cset) (b : ballot) : list ballot :=
  if Nat.ltb (length (rk b)) (length cs)
  then map (fun o => plain_ballot cand (rk b ++ singletons o)
                       (wt b / Qnat (length (perms (missing_singletons cs (rk b))))))
           (perms (missing_singletons cs (rk b)))
  else [b].

Lemma fill_ballot_ok : forall cs b, rk b <> [] -> fill_ballot cs b = inl (fillF cs b).
Proof.
  intros cs b H. unfold Pairwise.fill_ballot, fillF.
  destruct (rk b) as [|g r] eqn:E; [exfalso; apply H; reflexivity|].
  destruct (Nat.ltb (length (g :: r)) (length cs)); reflexivity.
Qed.

(* share of the weight of a ballot with content (r, d) that its completions give to content k *)
Definition fillG (cs : cset) (k : ballot) (r : ranking) (d : scores) : Q :=
  if Nat.ltb (length r) (length cs)
  then qsum (map (fun o => if same k (as_key (r ++ singletons o) []) then 1 else 0)
                 (perms (missing_singletons cs r)))
       / Qnat (length (perms (missing_singletons cs r)))
  else if same k (as_key r d) then 1 else 0.

Lemma wtof_completions : forall k (r : ranking) (w : Q) (l : list (list cand)),
  wtof k (map (fun o => plain_ballot cand (r ++ singletons o) w) l) ==
  w * qsum (map (fun o => if same k (as_key (r ++ singletons o) []) then 1 else 0) l).
Proof.
  intros k r w l. induction l as [|o l IH].
  - cbn [map]. rewrite wtof_nil, Lib_content.qsum_nil. ring.
  - cbn [map]. rewrite wtof_cons, Lib_content.qsum_cons.
    change (same k (plain_ballot cand (r ++ singletons o) w))
      with (same k (as_key (r ++ singletons o) [])).
    destruct (same k (as_key (r ++ singletons o) [])); rewrite IH; cbn [wt plain_ballot]; ring.
Qed.

Lemma wtof_fillF : forall cs k b, wtof k (fillF cs b) == wt b * fillG cs k (rk b) (sc b).
Proof.
  intros cs k b. unfold fillF, fillG. destruct (Nat.ltb (length (rk b)) (length cs)).
  - rewrite wtof_completions. unfold Qdiv. ring.
  - rewrite wtof_cons, wtof_nil, (same_as_key cand ceqb k b).
    destruct (same k (as_key (rk b) (sc b))); ring.
Qed.

Lemma wtof_fill_all : forall cs k bs,
  wtof k (concat (map (fillF cs) bs)) == wsum (fillG cs k) bs.
Proof.
  intros cs k bs. induction bs as [|b bs IH].
  - reflexivity.
  - cbn [map concat]. rewrite wtof_app, wsum_cons, wtof_fillF, IH. reflexivity.
Qed.

(* the share only looks at the content *)
Lemma cset_eqb_congr_l : forall a b c : cset, cset_eqb a b = true -> cset_eqb a c = cset_eqb b c.
Proof.
  intros a b c H.
  destruct (cset_eqb a c) eqn:E1; destruct (cset_eqb b c) eqn:E2; try reflexivity.
  - rewrite (Lib_sets.cset_eqb_sym cand ceqb) in H.
    rewrite (Lib_sets.cset_eqb_trans cand ceqb ceqb_spec b a c H E1) in E2. discriminate.
  - rewrite (Lib_sets.cset_eqb_trans cand ceqb ceqb_spec a b c H E2) in E1. discriminate.
Qed.

Lemma miss_compat : forall cs r r', ranking_eqb r r' = true ->
  missing_singletons cs r = missing_singletons cs r'.
Proof.
  intros cs r r' H. unfold Pairwise.missing_singletons. apply filter_ext. intros c. f_equal.
  revert r' H. induction r as [|g r IH]; intros [|g' r'] H; try discriminate; [reflexivity|].
  cbn [Core.ranking_eqb] in H. apply andb_true_iff in H. destruct H as [Hg Hr].
  cbn [existsb]. rewrite (cset_eqb_congr_l g g' [c] Hg), (IH r' Hr). reflexivity.
Qed.

Lemma ranking_eqb_app : forall a b c d : ranking,
  ranking_eqb a b = true -> ranking_eqb c d = true -> ranking_eqb (a ++ c) (b ++ d) = true.
Proof.
  induction a as [|g a IH]; intros [|g' b] c d H1 H2; try discriminate; [exact H2|].
  cbn [Core.ranking_eqb] in H1. apply andb_true_iff in H1. destruct H1 as [Hg Ha].
  cbn [app Core.ranking_eqb]. rewrite Hg. cbn [andb]. apply IH; assumption.
Qed.

Lemma fillG_compat : forall cs k (x y : ballot), same x y = true ->
  fillG cs k (rk x) (sc x) == fillG cs k (rk y) (sc y).
Proof.
  intros cs k x y Hs. unfold fillG.
  pose proof (same_rk cand ceqb x y Hs) as Hr.
  pose proof (same_sc cand ceqb x y Hs) as Hd.
  rewrite (Lib_content.ranking_eqb_length cand ceqb (rk x) (rk y) Hr), (miss_compat cs _ _ Hr).
  destruct (Nat.ltb (length (rk y)) (length cs)).
  - assert (E : qsum (map (fun o => if same k (as_key (rk x ++ singletons o) []) then 1 else 0)
                          (perms (missing_singletons cs (rk y))))
             == qsum (map (fun o => if same k (as_key (rk y ++ singletons o) []) then 1 else 0)
                          (perms (missing_singletons cs (rk y))))).
    { apply qsum_map_ext_in. intros o _.
      assert (T : same (as_key (rk x ++ singletons o) []) (as_key (rk y ++ singletons o) []) = true).
      { apply same_iff. cbn [rk sc C08_stv.as_key]. split; [|reflexivity].
        apply ranking_eqb_app; [exact Hr|apply (Lib_sets.ranking_eqb_refl cand ceqb ceqb_spec)]. }
      rewrite (Lib_content.same_congr_r cand ceqb ceqb_spec _ _ k T). reflexivity. }
    unfold Qdiv. rewrite E. reflexivity.
  - assert (T : same (as_key (rk x) (sc x)) (as_key (rk y) (sc y)) = true).
    { apply same_iff. cbn [rk sc C08_stv.as_key]. split; assumption. }
    rewrite (Lib_content.same_congr_r cand ceqb ceqb_spec _ _ k T). reflexivity.
Qed.

(* ... and on the SET of candidates *)
Lemma perms_perm : forall l l' : list cand, NoDup l -> Permutation l l' ->
  Permutation (perms l) (perms l').
Proof.
  intros l l' Hnd Hp. apply NoDup_Permutation.
  - apply (perms_NoDup cand). exact Hnd.
  - apply (perms_NoDup cand). eapply Permutation_NoDup; eassumption.
  - intros o. rewrite !(perms_spec cand). split; intros H.
    + eapply Permutation_trans; eassumption.
    + eapply Permutation_trans; [exact H|apply Permutation_sym; exact Hp].
Qed.

Lemma fillG_perm : forall cs cs' k r d, NoDup cs -> Permutation cs cs' ->
  fillG cs k r d == fillG cs' k r d.
Proof.
  intros cs cs' k r d Hnd Hp. unfold fillG. rewrite <- (Permutation_length Hp).
  destruct (Nat.ltb (length r) (length cs)); [|reflexivity].
  assert (Hm : Permutation (perms (missing_singletons cs r)) (perms (missing_singletons cs' r))).
  { apply perms_perm.
    - unfold Pairwise.missing_singletons. apply NoDup_filter. exact Hnd.
    - unfold Pairwise.missing_singletons. apply Permutation_filter_local. exact Hp. }
  rewrite <- (Permutation_length Hm).
  assert (E : qsum (map (fun o => if same k (as_key (r ++ singletons o) []) then 1 else 0)
                        (perms (missing_singletons cs r)))
           == qsum (map (fun o => if same k (as_key (r ++ singletons o) []) then 1 else 0)
                        (perms (missing_singletons cs' r)))).
  { apply Lib_content.qsum_perm. apply Permutation_map. exact Hm. }
  unfold Qdiv. rewrite E. reflexivity.
Qed.

(* C08: the filled ballots of equivalent profiles are the same electorate *)
Theorem fill_dist_eq : forall cs cs' bs bs', NoDup cs -> Permutation cs cs' -> dist_eq bs bs' ->
  dist_eq (concat (map (fillF cs) bs)) (concat (map (fillF cs') bs')).
Proof.
  intros cs cs' bs bs' Hnd Hp Hde k. rewrite !wtof_fill_all.
  transitivity (wsum (fillG cs k) bs').
  - apply (wsum_dist_eq cand ceqb ceqb_spec (any_content cand) (fillG cs k));
      try apply any_content_all; [|exact Hde].
    intros x y _ _ Hs. apply fillG_compat. exact Hs.
  - unfold Lib_condense.wsum. apply qsum_map_ext_in. intros b _.
    rewrite (fillG_perm cs cs' k (rk b) (sc b) Hnd Hp). reflexivity.
Qed.

Lemma fill_nonneg : forall cs bs, nonneg_wts bs -> nonneg_wts (concat (map (fillF cs) bs)).
Proof.
  intros cs bs H. unfold Anon.nonneg_wts in *. rewrite Forall_forall in H |- *. intros x Hx.
  apply in_concat_iff in Hx. destruct Hx as [l [Hl Hx]]. apply in_map_iff in Hl.
  destruct Hl as [b [<- Hb]]. unfold fillF in Hx.
  destruct (Nat.ltb (length (rk b)) (length cs)).
  - apply in_map_iff in Hx. destruct Hx as [o [<- _]]. cbn [wt plain_ballot]. unfold Qdiv.
    apply Qmult_le_0_compat; [apply H; exact Hb|]. apply Qinv_le_0_compat. apply Qnat_nonneg.
  - destruct Hx as [<-|[]]. apply H. exact Hb.
Qed.

Lemma ballot_fill_ok : forall p, wf_profile p ->
  ballot_fill p = inl (mkProfile (concat (map (fillF (cands p)) (ballots p)))
                                 (cast_cands cand ceqb (concat (map (fillF (cands p)) (ballots p))))).
Proof.
  intros p [_ Hb]. unfold Pairwise.ballot_fill.
  rewrite (Lib_rk.rmap_total _ _ (fill_ballot (cands p)) (fillF (cands p)) (ballots p)).
  - reflexivity.
  - intros b Hin. apply fill_ballot_ok. rewrite Forall_forall in Hb. apply (Hb b Hin).
Qed.

Theorem ballot_fill_anonymous : forall p p', pw_domain p -> pw_domain p' -> profile_equiv p p' ->
  exists fp fp', ballot_fill p = inl fp /\ ballot_fill p' = inl fp' /\
    profile_equiv fp fp' /\ NoDup (cands fp) /\ NoDup (cands fp').
Proof.
  intros p p' [Hw Hn] [Hw' Hn'] [Hde Hp].
  rewrite (ballot_fill_ok p Hw), (ballot_fill_ok p' Hw').
  eexists. eexists. split; [reflexivity|]. split; [reflexivity|].
  pose proof (fill_dist_eq (cands p) (cands p') _ _ (proj1 Hw) Hp Hde) as Hf.
  split; [split|split]; cbn [ballots cands].
  - exact Hf.
  - apply (cast_cands_anonymous cand ceqb ceqb_spec); [apply fill_nonneg; exact Hn|apply fill_nonneg; exact Hn'|exact Hf].
  - apply (Lib_sets.dedup_NoDup cand ceqb ceqb_spec).
  - apply (Lib_sets.dedup_NoDup cand ceqb ceqb_spec).
Qed.

(* ------------------------------------------------------------------ *)
(** * The dictionary, the digraph and the tiers *)

Section Graphs.
Variables bs bs' : list ballot.
Variables cs cs' : cset.
Hypothesis Hcs : NoDup cs.
Hypothesis Hcs' : NoDup cs'.
Hypothesis Hp : Permutation cs cs'.
Hypothesis Hh : forall a b, h2h bs a b == h2h bs' a b.

Lemma entries_incl : dict_incl (pairwise_entries bs cs) (pairwise_entries bs' cs').
Proof.
  intros a b v Hin.
  destruct (entries_sound cand ceqb bs cs Hcs a b v Hin) as [Ha [Hb [Hab [Hv Hm]]]].
  destruct (entries_complete cand ceqb bs' cs' a b) as [v' [Hv' Hveq]].
  - eapply Permutation_in; eassumption.
  - eapply Permutation_in; eassumption.
  - exact Hab.
  - rewrite <- (Hh a b), <- (Hh b a). exact Hm.
  - exists v'. split; [exact Hv'|]. rewrite Hv, Hveq, (Hh a b), (Hh b a). reflexivity.
Qed.

Lemma edge_agree : forall a b,
  edge (pairwise_entries bs cs) a b = edge (pairwise_entries bs' cs') a b.
Proof.
  intros a b. apply eq_true_iff_eq.
  rewrite (edge_iff_h2h cand ceqb ceqb_spec bs cs Hcs a b),
          (edge_iff_h2h cand ceqb ceqb_spec bs' cs' Hcs' a b).
  rewrite (Hh a b), (Hh b a). split; intros [Ha [Hb H]]; (split; [|split; [|exact H]]).
  - eapply Permutation_in; eassumption.
  - eapply Permutation_in; eassumption.
  - eapply Permutation_in; [apply Permutation_sym; exact Hp|exact Ha].
  - eapply Permutation_in; [apply Permutation_sym; exact Hp|exact Hb].
Qed.
End Graphs.

Lemma reaches_mono : forall (E E' : cand -> cand -> bool) (cs cs' : cset),
  (forall a b, E a b = E' a b) -> incl cs cs' ->
  forall a b, reaches cand E cs a b -> reaches cand E' cs' a b.
Proof.
  intros E E' cs cs' HE Hi a b H. unfold PairwiseSpec.reaches in *.
  induction H as [x y Hxy|x|x y z _ IH1 _ IH2].
  - apply rt_step. destruct Hxy as [Hx [Hy He]]. split; [apply Hi; exact Hx|].
    split; [apply Hi; exact Hy|]. rewrite <- HE. exact He.
  - apply rt_refl.
  - eapply rt_trans; eassumption.
Qed.

Section Tiers.
Variables es es' : list (cand * cand * Q).
Variables cs cs' : cset.
Hypothesis Hedge : forall a b, edge es a b = edge es' a b.
Hypothesis Hp : Permutation cs cs'.

Let Hi : incl cs cs'.
Proof. intros c Hc. eapply Permutation_in; eassumption. Qed.
Let Hi' : incl cs' cs.
Proof. intros c Hc. eapply Permutation_in; [apply Permutation_sym; exact Hp|exact Hc]. Qed.

Lemma has_path_agree : forall a b, has_path es cs a b = has_path es' cs' a b.
Proof.
  intros a b. apply eq_true_iff_eq.
  rewrite (has_path_iff cand ceqb ceqb_spec es cs a b), (has_path_iff cand ceqb ceqb_spec es' cs' a b).
  split; intros [Ha Hr]; split.
  - apply Hi. exact Ha.
  - apply (reaches_mono (edge es) (edge es') cs cs' Hedge Hi). exact Hr.
  - apply Hi'. exact Ha.
  - apply (reaches_mono (edge es') (edge es) cs' cs (fun x y => eq_sym (Hedge x y)) Hi'). exact Hr.
Qed.

Lemma beat_size_agree : forall c, beat_size es cs c = beat_size es' cs' c.
Proof.
  intros c. unfold Pairwise.beat_size.
  rewrite (filter_ext (fun o => negb (ceqb c o) && has_path es cs c o)
                      (fun o => negb (ceqb c o) && has_path es' cs' c o)).
  - apply Permutation_length. apply Permutation_filter_local. exact Hp.
  - intros o. rewrite has_path_agree. reflexivity.
Qed.

Theorem tiers_of_equiv : groups_equiv (tiers_of es cs) (tiers_of es' cs').
Proof.
  unfold Pairwise.tiers_of. cbv zeta.
  assert (Hs : fold_right insert_desc_nat [] (map (beat_size es cs) cs)
             = fold_right insert_desc_nat [] (map (beat_size es' cs') cs')).
  { apply sorted_gt_unique; try apply fold_insert_sorted.
    intros k. rewrite !fold_insert_In, !in_map_iff. split; intros [c [E Hc]].
    - exists c. split; [rewrite <- beat_size_agree; exact E|apply Hi; exact Hc].
    - exists c. split; [rewrite beat_size_agree; exact E|apply Hi'; exact Hc]. }
  rewrite Hs. unfold Anon.groups_equiv. apply Forall2_map_same. intros k.
  rewrite (filter_ext (fun c => Nat.eqb (beat_size es cs c) k) (fun c => Nat.eqb (beat_size es' cs' c) k)).
  - apply Permutation_filter_local. exact Hp.
  - intros c. rewrite beat_size_agree. reflexivity.
Qed.
End Tiers.

(* ------------------------------------------------------------------ *)
(** * The pairwise comparison graph and the dominating tiers of equivalent profiles *)

Theorem pairwise_graph_anonymous : forall p p', pw_domain p -> pw_domain p' -> profile_equiv p p' ->
  res_equiv pwc_equiv (pairwise_graph p) (pairwise_graph p').
Proof.
  intros p p' Hd Hd' He. unfold Pairwise.pairwise_graph.
  destruct (ballot_fill_anonymous p p' Hd Hd' He) as [fp [fp' [E [E' [[Hde Hp] [Hn Hn']]]]]].
  rewrite E, E'. cbn [rbind res_equiv ok].
  assert (Hh : forall a b, h2h (ballots fp) a b == h2h (ballots fp') a b).
  { intros a b. apply (h2h_anonymous cand ceqb ceqb_spec). exact Hde. }
  assert (Hh' : forall a b, h2h (ballots fp') a b == h2h (ballots fp) a b).
  { intros a b. symmetry. apply Hh. }
  split; [|split]; cbn [pw_cands pw_dict pw_tiers].
  - exact Hp.
  - split.
    + apply entries_incl; assumption.
    + apply entries_incl; try assumption. apply Permutation_sym. exact Hp.
  - apply tiers_of_equiv; [|exact Hp]. apply edge_agree; assumption.
Qed.

Theorem dominating_tiers_anonymous : forall p p', pw_domain p -> pw_domain p' -> profile_equiv p p' ->
  res_equiv groups_equiv (dominating_tiers p) (dominating_tiers p').
Proof.
  intros p p' Hd Hd' He. unfold Pairwise.dominating_tiers.
  pose proof (pairwise_graph_anonymous p p' Hd Hd' He) as H.
  destruct (pairwise_graph p) as [g|e]; destruct (pairwise_graph p') as [g'|e'];
    cbn [res_equiv] in H; try contradiction; cbn [rbind ok res_equiv]; [|exact H].
  apply H.
Qed.

Theorem has_condorcet_winner_anonymous : forall p p', pw_domain p -> pw_domain p' -> profile_equiv p p' ->
  res_equiv eq (has_condorcet_winner cand ceqb p) (has_condorcet_winner cand ceqb p').
Proof.
  intros p p' Hd Hd' He. unfold Pairwise.has_condorcet_winner.
  pose proof (dominating_tiers_anonymous p p' Hd Hd' He) as H.
  destruct (dominating_tiers p) as [t|e]; destruct (dominating_tiers p') as [t'|e'];
    cbn [res_equiv] in H; try contradiction; cbn [rbind ok res_equiv]; [|exact H].
  destruct H as [|g g' r r' Hg _]; [reflexivity|]. cbn [res_equiv ok].
  rewrite (Permutation_length Hg). reflexivity.
Qed.

Lemma dominating_tiers_total : forall p, wf_profile p -> exists t, dominating_tiers p = inl t.
Proof.
  intros p Hw. unfold Pairwise.dominating_tiers, Pairwise.pairwise_graph.
  rewrite (ballot_fill_ok p Hw). cbn [rbind ok]. eexists. reflexivity.
Qed.

(* the pairwise dictionary of a profile: same candidates -> same margins *)
Theorem pairwise_margin_anonymous : forall p p' g g' a b v v',
  pw_domain p -> pw_domain p' -> profile_equiv p p' ->
  pairwise_graph p = inl g -> pairwise_graph p' = inl g' ->
  In (a, b, v) (pw_dict g) -> In (a, b, v') (pw_dict g') -> v == v'.
Proof.
  intros p p' g g' a b v v' Hd Hd' He Hg Hg' Hv Hv'.
  pose proof (pairwise_graph_anonymous p p' Hd Hd' He) as H. rewrite Hg, Hg' in H. cbn [res_equiv] in H.
  destruct H as [_ [[H1 _] _]]. destruct (H1 a b v Hv) as [v2 [Hv2 Hveq]].
  rewrite Hveq. clear Hveq.
  (* keys of a dictionary are unique *)
  unfold Pairwise.pairwise_graph in Hg'. destruct (ballot_fill p') as [fp'|e] eqn:Ef; [|discriminate].
  cbn [rbind ok] in Hg'. injection Hg' as <-. cbn [pw_dict] in *.
  destruct (ballot_fill_anonymous p' p' Hd' Hd') as [x [y [Ex [_ [_ [Hnx _]]]]]].
  { split; [apply (dist_eq_refl cand ceqb)|apply Permutation_refl]. }
  rewrite Ef in Ex. injection Ex as <-.
  destruct (entries_sound cand ceqb _ _ Hnx a b v2 Hv2) as [_ [_ [_ [E2 _]]]].
  destruct (entries_sound cand ceqb _ _ Hnx a b v' Hv') as [_ [_ [_ [E' _]]]].
  rewrite E2, E'. reflexivity.
Qed.

End PwAnon.
