(* Proofs/C10_script.v — C10, part 1: every model computation inspects the random script only
   through [next_draw] ("locality"), hence its result is determined by the prefix of the script
   it consumes; a computation that consumed nothing gives the same answer from every state.
   Every model computation, up to [run_rule] of every rule, is shown local.
   Part 2 (no recorded tiebreak => no draw, for every deterministic rule) is in C10_quiet.v,
   parts 3-4 (meaning of a recorded tiebreak) in C10_tiebreak.v. *)
From VK Require Import Base Core STV Pairwise Rules.
From VK.Spec Require Import ScoreSpec TieSpec.
From VK.Proofs Require Import Lib_sets Elect.
From Coq Require Import Permutation Lia.

Section Script.
Variable cand : Type.
Variable ceqb : cand -> cand -> bool.

Notation cset := (cset cand).
Notation ranking := (ranking cand).
Notation profile := (profile cand).
Notation scores := (scores cand).
Notation mstate := (mstate cand).
Notation estate := (estate cand).
Notation M := (M cand).
Notation draw := (draw cand).
Notation call := (call cand).
Notation next_draw := (next_draw cand).

(* ------------------------------------------------------------------ *)
(** * Interaction trees: the computations that only ask for draws *)

Inductive itree (A : Type) : Type :=
| Ret (r : res A)
| Ask (c : call) (k : draw -> itree A).
Arguments Ret {A}.
Arguments Ask {A}.

Fixpoint run {A} (t : itree A) (s : mstate) {struct t} : res (A * mstate) :=
  match t with
  | Ret r => match r with inl a => inl (a, s) | inr e => inr e end
  | Ask c k =>
      match scr s with
      | [] => inr EScript
      | d :: rest => run (k d) (mkM rest (c :: lg s))
      end
  end.

Fixpoint itbind {A B} (t : itree A) (f : A -> itree B) : itree B :=
  match t with
  | Ret (inl a) => f a
  | Ret (inr e) => Ret (inr e)
  | Ask c k => Ask c (fun d => itbind (k d) f)
  end.

Lemma run_itbind : forall A B (t : itree A) (f : A -> itree B) s,
  run (itbind t f) s = match run t s with inl (a, s') => run (f a) s' | inr e => inr e end.
Proof.
  intros A B t f. induction t as [r|c k IH]; intros s.
  - destruct r as [a|e]; reflexivity.
  - cbn [itbind run]. destruct (scr s) as [|d rest]; [reflexivity|]. apply IH.
Qed.

(* [x] is local: it is the interpretation of a tree, i.e. it looks at the state only through
   [next_draw].  (In [Type] so that witnesses compose under [mbind] without choice.) *)
Definition Local {A} (x : M A) : Type := { t : itree A | forall s, x s = run t s }.

Lemma Local_ext : forall A (x y : M A), (forall s, x s = y s) -> Local y -> Local x.
Proof.
  intros A x y Hxy [t Ht]. exists t. intros s. rewrite Hxy. apply Ht.
Qed.

Lemma Local_ret : forall A (a : A), Local (mret a).
Proof. intros A a. exists (Ret (inl a)). intros s. reflexivity. Qed.

Lemma Local_lift : forall A (r : res A), Local (mlift r).
Proof. intros A r. exists (Ret r). intros s. destruct r; reflexivity. Qed.

Lemma Local_fail : forall A (e : exn), Local (@mfail cand A e).
Proof. intros A e. exists (Ret (inr e)). intros s. reflexivity. Qed.

Lemma Local_next_draw : forall c, Local (next_draw c).
Proof.
  intros c. exists (Ask c (fun d => Ret (inl d))). intros s. unfold Core.next_draw. cbn [run].
  destruct (scr s); reflexivity.
Qed.

Lemma Local_bind : forall A B (x : M A) (f : A -> M B),
  Local x -> (forall a, Local (f a)) -> Local (mbind x f).
Proof.
  intros A B x f [t Ht] Hf. exists (itbind t (fun a => proj1_sig (Hf a))). intros s.
  unfold mbind. rewrite Ht, run_itbind. destruct (run t s) as [[a s']|e]; [|reflexivity].
  apply (proj2_sig (Hf a)).
Qed.

(* ------------------------------------------------------------------ *)
(** * What locality gives *)

Lemma mstate_eta : forall s : mstate, mkM (scr s) (lg s) = s.
Proof. intros [sc l]. reflexivity. Qed.

(* success: the result depends only on the consumed prefix [used]; the calls are logged *)
Lemma run_ok_inv : forall A (t : itree A) s a s',
  run t s = inl (a, s') ->
  exists used calls,
    scr s = used ++ scr s' /\ lg s' = calls ++ lg s /\ length calls = length used /\
    forall s2 rest, scr s2 = used ++ rest -> run t s2 = inl (a, mkM rest (calls ++ lg s2)).
Proof.
  intros A t. induction t as [r|c k IH]; intros s a s' H.
  - cbn [run] in H. destruct r as [a0|e]; [|discriminate]. inversion H; subst.
    exists [], []. repeat split. intros s2 rest Hs2. cbn [run app] in *. rewrite <- Hs2, mstate_eta.
    reflexivity.
  - cbn [run] in H. destruct (scr s) as [|d rest0] eqn:Hscr; [discriminate|].
    destruct (IH d _ _ _ H) as [used [calls [Hu [Hl [Hlen Hall]]]]]. cbn [scr lg] in Hu, Hl.
    exists (d :: used), (calls ++ [c]). repeat split.
    + rewrite Hu. reflexivity.
    + rewrite Hl, <- app_assoc. reflexivity.
    + rewrite app_length. cbn [length]. lia.
    + intros s2 rest Hs2. cbn [run]. rewrite Hs2. cbn [app].
      rewrite (Hall (mkM (used ++ rest) (c :: lg s2)) rest eq_refl). cbn [lg].
      rewrite <- app_assoc. reflexivity.
Qed.

(* failure: either the error is determined by a consumed prefix, or the script ran out *)
Lemma run_err_inv : forall A (t : itree A) s e,
  run t s = inr e ->
  exists used rest0, scr s = used ++ rest0 /\
    ((forall s2 rest, scr s2 = used ++ rest -> run t s2 = inr e) \/ (rest0 = [] /\ e = EScript)).
Proof.
  intros A t. induction t as [r|c k IH]; intros s e H.
  - cbn [run] in H. destruct r as [a0|e0]; [discriminate|]. inversion H; subst.
    exists [], (scr s). split; [reflexivity|]. left. intros s2 rest _. reflexivity.
  - cbn [run] in H. destruct (scr s) as [|d rest0] eqn:Hscr.
    + inversion H; subst. exists [], []. split; [reflexivity|]. right. split; reflexivity.
    + destruct (IH d _ _ H) as [used [rest1 [Hu Hcase]]]. cbn [scr] in Hu.
      exists (d :: used), rest1. split; [rewrite Hu; reflexivity|].
      destruct Hcase as [Hall|Hout]; [left|right; exact Hout].
      intros s2 rest Hs2. cbn [run]. rewrite Hs2. cbn [app]. apply (Hall _ rest). reflexivity.
Qed.

(* [script_prefix_determines] *)
Theorem local_prefix : forall A (x : M A), Local x -> forall s a s',
  x s = inl (a, s') ->
  exists used calls,
    scr s = used ++ scr s' /\ lg s' = calls ++ lg s /\ length calls = length used /\
    forall s2 rest, scr s2 = used ++ rest -> x s2 = inl (a, mkM rest (calls ++ lg s2)).
Proof.
  intros A x [t Ht] s a s' H. rewrite Ht in H.
  destruct (run_ok_inv A t s a s' H) as [used [calls [Hu [Hl [Hlen Hall]]]]].
  exists used, calls. repeat split; try assumption.
  intros s2 rest Hs2. rewrite Ht. apply Hall. exact Hs2.
Qed.

Theorem local_error : forall A (x : M A), Local x -> forall s e,
  x s = inr e ->
  exists used rest0, scr s = used ++ rest0 /\
    ((forall s2 rest, scr s2 = used ++ rest -> x s2 = inr e) \/ (rest0 = [] /\ e = EScript)).
Proof.
  intros A x [t Ht] s e H. rewrite Ht in H.
  destruct (run_err_inv A t s e H) as [used [rest0 [Hu Hcase]]].
  exists used, rest0. split; [exact Hu|]. destruct Hcase as [Hall|Hout]; [left|right; exact Hout].
  intros s2 rest Hs2. rewrite Ht. apply (Hall s2 rest). exact Hs2.
Qed.

(* only the script matters (not the log), and the log only grows *)
Theorem local_same_script : forall A (x : M A), Local x -> forall s s2,
  scr s2 = scr s ->
  match x s, x s2 with
  | inl (a, s'), inl (a2, s2') =>
      a2 = a /\ scr s2' = scr s' /\ exists calls, lg s' = calls ++ lg s /\ lg s2' = calls ++ lg s2
  | inr e, inr e2 => e2 = e
  | _, _ => False
  end.
Proof.
  intros A x HL s s2 Hscr.
  destruct (x s) as [[a s']|e] eqn:Hx.
  - destruct (local_prefix A x HL s a s' Hx) as [used [calls [Hu [Hl [_ Hall]]]]].
    rewrite (Hall s2 (scr s')) by (rewrite Hscr; exact Hu).
    split; [reflexivity|]. split; [reflexivity|]. exists calls. split; [exact Hl|reflexivity].
  - destruct (local_error A x HL s e Hx) as [used [rest0 [Hu [Hall|[Hnil He]]]]].
    + rewrite (Hall s2 rest0) by (rewrite Hscr; exact Hu). reflexivity.
    + subst rest0 e. destruct (x s2) as [[a2 s2']|e2] eqn:Hx2.
      * destruct (local_prefix A x HL s2 a2 s2' Hx2) as [used2 [calls2 [Hu2 [_ [_ Hall2]]]]].
        rewrite (Hall2 s (scr s2')) in Hx by (rewrite <- Hscr; exact Hu2). discriminate.
      * destruct (local_error A x HL s2 e2 Hx2) as [used2 [rest2 [Hu2 [Hall2|[_ He2]]]]].
        -- rewrite (Hall2 s rest2) in Hx by (rewrite <- Hscr; exact Hu2). congruence.
        -- exact He2.
Qed.

Lemma app_self_nil : forall X (u l : list X), l = u ++ l -> u = [].
Proof.
  intros X u l H. apply (f_equal (@length X)) in H. rewrite app_length in H.
  destruct u as [|x u]; [reflexivity|]. cbn [length] in H. lia.
Qed.

(* a local computation that leaves the script untouched did not call the generator at all *)
Theorem local_quiet_state : forall A (x : M A), Local x -> forall s a s',
  x s = inl (a, s') -> scr s' = scr s -> s' = s.
Proof.
  intros A x HL s a s' H Hscr.
  destruct (local_prefix A x HL s a s' H) as [used [calls [Hu [Hl [Hlen _]]]]].
  rewrite Hscr in Hu. apply app_self_nil in Hu. subst used.
  destruct calls as [|c calls]; [|discriminate]. cbn [app] in Hl.
  rewrite <- (mstate_eta s), <- (mstate_eta s'), Hscr, Hl. reflexivity.
Qed.

Theorem local_quiet_log : forall A (x : M A), Local x -> forall s a s',
  x s = inl (a, s') -> lg s' = lg s -> s' = s.
Proof.
  intros A x HL s a s' H Hlg.
  destruct (local_prefix A x HL s a s' H) as [used [calls [Hu [Hl [Hlen _]]]]].
  rewrite Hlg in Hl. apply app_self_nil in Hl. subst calls.
  destruct used as [|d used]; [|discriminate]. cbn [app] in Hu.
  rewrite <- (mstate_eta s), <- (mstate_eta s'), Hu, Hlg. reflexivity.
Qed.

(* [no_draw_indep]: nothing consumed => the same answer from every state, consuming nothing *)
Theorem local_no_draw : forall A (x : M A), Local x -> forall s a s',
  x s = inl (a, s') -> scr s' = scr s -> forall s2, x s2 = inl (a, s2).
Proof.
  intros A x HL s a s' H Hscr s2.
  destruct (local_prefix A x HL s a s' H) as [used [calls [Hu [Hl [Hlen Hall]]]]].
  rewrite Hscr in Hu. apply app_self_nil in Hu. subst used.
  destruct calls as [|c calls]; [|discriminate].
  rewrite (Hall s2 (scr s2) eq_refl). cbn [app]. rewrite mstate_eta. reflexivity.
Qed.

Corollary local_no_draw_state : forall A (x : M A), Local x -> forall s a,
  x s = inl (a, s) -> forall s2, x s2 = inl (a, s2).
Proof. intros A x HL s a H s2. exact (local_no_draw A x HL s a s H eq_refl s2). Qed.

(* an error raised before any draw is raised from every state *)
Theorem local_error_no_draw : forall A (x : M A), Local x -> forall s e,
  x s = inr e -> e <> EScript -> forall s2, scr s2 = scr s -> x s2 = inr e.
Proof.
  intros A x HL s e H Hne s2 Hscr.
  destruct (local_error A x HL s e H) as [used [rest0 [Hu [Hall|[_ He]]]]]; [|contradiction].
  apply (Hall s2 rest0). rewrite Hscr. exact Hu.
Qed.

(* two runs of a local computation, one of which consumed nothing, agree *)
Theorem local_quiet_agree : forall A (x : M A), Local x -> forall s a s2 r2,
  x s = inl (a, s) -> x s2 = r2 -> r2 = inl (a, s2).
Proof.
  intros A x HL s a s2 r2 H H2. rewrite <- H2. exact (local_no_draw_state A x HL s a H s2).
Qed.

(* the number of draws consumed equals the number of logged calls *)
Theorem local_draws_used : forall A (x : M A), Local x -> forall s a s',
  x s = inl (a, s') -> length (scr s) = (draws_used cand s s' + length (scr s'))%nat.
Proof.
  intros A x HL s a s' H.
  destruct (local_prefix A x HL s a s' H) as [used [calls [Hu [Hl [Hlen _]]]]].
  unfold draws_used. rewrite Hu, Hl, !app_length. lia.
Qed.

(* ------------------------------------------------------------------ *)
(** * Every model computation is local *)

Ltac local_step :=
  first
    [ assumption
    | apply Local_ret
    | apply Local_lift
    | apply Local_fail
    | apply Local_next_draw
    | apply Local_bind; [|intros ?]
    | match goal with
      | |- Local (if ?b then _ else _) => destruct b
      | |- Local (match ?x with _ => _ end) => destruct x
      end ].
Ltac local := repeat local_step.

Lemma Local_draw_perm : forall s, Local (draw_perm cand ceqb s).
Proof. intros s. unfold Core.draw_perm. local. Qed.

Lemma Local_random_break : forall r, Local (random_break cand ceqb r).
Proof.
  induction r as [|g r IH]; cbn [Core.random_break]; [local|].
  pose proof Local_draw_perm as Hd. destruct g as [|c [|c' g']]; local; apply Hd.
Qed.

Lemma Local_tiebreak_set : forall g p tb, Local (tiebreak_set cand ceqb g p tb).
Proof.
  intros g p tb. pose proof Local_draw_perm as Hd. pose proof Local_random_break as Hr.
  unfold Core.tiebreak_set. destruct tb; [local; apply Hd| | |local].
  - destruct p as [pr|]; [|local]. apply Local_bind; [local|]. intros d. cbv zeta.
    destruct (existsb _ _); [apply Hr|local].
  - destruct p as [pr|]; [|local]. apply Local_bind; [local|]. intros d. cbv zeta.
    destruct (existsb _ _); [apply Hr|local].
Qed.

Lemma Local_elect_loop : forall r need acc p tb, Local (elect_loop cand ceqb r need acc p tb).
Proof.
  pose proof Local_tiebreak_set as Ht.
  induction r as [|g r IH]; intros need acc p tb; destruct need as [|n]; cbn [Core.elect_loop];
    try solve [local].
  destruct (Nat.leb (length g) (S n)); [apply IH|].
  destruct tb as [k|]; [|local]. apply Local_bind; [apply Ht|]. intros t. local.
Qed.

Lemma Local_elect_top_m : forall r m p tb, Local (elect_top_m cand ceqb r m p tb).
Proof.
  intros r m p tb. unfold Core.elect_top_m.
  destruct (m <? 1)%Z; [local|]. destruct (_ <? m)%Z; [local|]. apply Local_elect_loop.
Qed.

Lemma Local_rand_transfer : forall w fpv bs t, Local (rand_transfer cand ceqb w fpv bs t).
Proof. intros w fpv bs t. unfold STV.rand_transfer. cbv zeta. local. Qed.

Lemma Local_do_transfer : forall k w fpv bs t, Local (do_transfer cand ceqb k w fpv bs t).
Proof.
  intros k w fpv bs t. unfold STV.do_transfer. destruct k; [local|apply Local_rand_transfer|local].
Qed.

Lemma Local_transfer_all : forall k ws p d t, Local (transfer_all cand ceqb k ws p d t).
Proof.
  intros k ws p d t. pose proof Local_do_transfer as Hd.
  induction ws as [|w ws IH]; cbn [STV.transfer_all]; [local|].
  destruct (negb _); [local|]. apply Local_bind; [apply Hd|]. intros a. local.
Qed.

Lemma Local_simultaneous_elect : forall cfg t p prev,
  Local (simultaneous_elect cand ceqb cfg t p prev).
Proof.
  intros cfg t p prev. pose proof Local_transfer_all as Ht. unfold STV.simultaneous_elect.
  apply Local_bind; [local|]. intros el. apply Local_bind; [local|]. intros u. cbv zeta.
  apply Local_bind; [apply Ht|]. intros moved. local.
Qed.

Lemma Local_single_elect : forall cfg t p prev, Local (single_elect cand ceqb cfg t p prev).
Proof.
  intros cfg t p prev. pose proof Local_do_transfer as Hd. pose proof Local_elect_top_m as He.
  unfold STV.single_elect. apply Local_bind; [apply He|]. intros [[el rem] tb]. cbv zeta.
  apply Local_bind; [local|]. intros u. destruct el as [|[|w g] el]; try solve [local].
  destruct (negb _); [local|]. apply Local_bind; [apply Hd|]. intros moved. local.
Qed.

Lemma Local_stv_step : forall cfg t p0 n p prev, Local (stv_step cand ceqb cfg t p0 n p prev).
Proof.
  intros cfg t p0 n p prev. pose proof Local_simultaneous_elect as Hs.
  pose proof Local_single_elect as H1. pose proof Local_tiebreak_set as Ht.
  unfold STV.stv_step. cbv zeta. apply Local_bind; [|intros [[[el elim] tbs] np]; local].
  destruct (filter _ (escores prev)) as [|q0 above].
  - destruct (Z.eqb _ _); [local|]. destruct (rev (remaining prev)) as [|lowest rest]; [local|].
    apply Local_bind; [|intros [x tbs]; local].
    destruct lowest as [|c [|c' g]]; [local|local|].
    apply Local_bind; [apply Ht|]. intros tb. local.
  - destruct (s_simul cfg).
    + apply Local_bind; [apply Hs|]. intros [el np]. local.
    + apply Local_bind; [apply H1|]. intros [[el tbs] np]. local.
Qed.

Lemma Local_stv_loop : forall fuel cfg t p0 p sts, Local (stv_loop cand ceqb fuel cfg t p0 p sts).
Proof.
  pose proof Local_stv_step as Hs.
  induction fuel as [|fuel IH]; intros cfg t p0 p sts; cbn [STV.stv_loop];
    (destruct (Z.eqb _ _); [local|]); [local|].
  destruct sts as [|prev sts]; [local|]. apply Local_bind; [apply Hs|]. intros [np st]. apply IH.
Qed.

Lemma Local_run_stv : forall cfg p, Local (run_stv cand ceqb cfg p).
Proof.
  intros cfg p. unfold STV.run_stv. apply Local_bind; [local|]. intros t.
  apply Local_bind; [local|]. intros s0. apply Local_stv_loop.
Qed.

Lemma Local_one_shot_step : forall k m tb p prev, Local (one_shot_step cand ceqb k m tb p prev).
Proof.
  intros k m tb p prev. unfold Rules.one_shot_step.
  apply Local_bind; [apply Local_elect_top_m|]. intros [[el rem] t]. local.
Qed.

Lemma Local_run_one_shot : forall k m tb p, Local (run_one_shot cand ceqb k m tb p).
Proof.
  intros k m tb p. unfold Rules.run_one_shot. apply Local_bind; [local|]. intros s0.
  apply Local_bind; [apply Local_one_shot_step|]. intros [np s1]. local.
Qed.

Lemma Local_run_rating : forall m L k tb p, Local (run_rating cand ceqb m L k tb p).
Proof.
  intros m L k tb p. unfold Rules.run_rating. apply Local_bind; [local|]. intros u.
  apply Local_bind; [local|]. intros u'. apply Local_run_one_shot.
Qed.

Lemma Local_run_plurality : forall m tb p, Local (run_plurality cand ceqb m tb p).
Proof.
  intros m tb p. unfold Rules.run_plurality. apply Local_bind; [local|]. intros u.
  apply Local_run_one_shot.
Qed.

Lemma Local_run_dominating : forall p, Local (run_dominating cand ceqb p).
Proof. intros p. unfold Rules.run_dominating. local. Qed.

Lemma Local_condo_step : forall m p, Local (condo_step cand ceqb m p).
Proof.
  intros m p. unfold Rules.condo_step. apply Local_bind; [local|]. intros t.
  apply Local_bind; [apply Local_elect_top_m|]. intros [[el rem] tb]. local.
Qed.

Lemma Local_run_condo : forall m p, Local (run_condo cand ceqb m p).
Proof.
  intros m p. unfold Rules.run_condo. apply Local_bind; [local|]. intros u.
  apply Local_bind; [local|]. intros s0. apply Local_bind; [apply Local_condo_step|].
  intros [np s1]. local.
Qed.

Lemma Local_plurality_stage : forall m tb p prev, Local (plurality_stage cand ceqb m tb p prev).
Proof.
  intros m tb p prev. unfold Rules.plurality_stage.
  apply Local_bind; [apply Local_run_plurality|]. intros sts.
  destruct sts as [|a [|b [|c sts]]]; local.
Qed.

Lemma Local_run_toptwo : forall tb p, Local (run_toptwo cand ceqb tb p).
Proof.
  intros tb p. unfold Rules.run_toptwo. apply Local_bind; [local|]. intros u.
  apply Local_bind; [local|]. intros s0.
  apply Local_bind; [apply Local_plurality_stage|]. intros [p1 s1].
  apply Local_bind; [apply Local_run_plurality|]. intros sts.
  destruct sts as [|a [|b [|c sts]]]; try solve [local].
  apply Local_bind; [apply Local_one_shot_step|]. intros x. local.
Qed.

Lemma Local_stv_replay : forall cfg t p0 sts done p, Local (stv_replay cand ceqb cfg t p0 done p sts).
Proof.
  intros cfg t p0. induction sts as [|prev rest IH]; intros done p; cbn [Rules.stv_replay]; [local|].
  apply Local_bind; [apply Local_stv_step|]. intros [np st]. apply IH.
Qed.

Lemma Local_run_alaska : forall m1 m2 cfg p, Local (run_alaska cand ceqb m1 m2 cfg p).
Proof.
  intros m1 m2 cfg p. unfold Rules.run_alaska. apply Local_bind; [local|]. intros u.
  apply Local_bind; [local|]. intros u'. apply Local_bind; [local|]. intros s0.
  apply Local_bind; [apply Local_plurality_stage|]. intros [p1 s1]. cbv zeta.
  apply Local_bind; [local|]. intros t. apply Local_bind; [apply Local_run_stv|]. intros sts.
  apply Local_bind; [apply Local_stv_replay|]. intros x. local.
Qed.

Lemma Local_draw_ballot : forall p, Local (draw_ballot cand ceqb p).
Proof. intros p. unfold Rules.draw_ballot. local. Qed.

Lemma Local_dictator_pick : forall r, Local (dictator_pick cand ceqb r).
Proof.
  intros r. unfold Rules.dictator_pick. destruct r as [|s r]; [local|].
  destruct s as [|c [|c' g]]; [local|local|].
  apply Local_bind; [apply Local_tiebreak_set|]. intros t. local.
Qed.

Lemma Local_elect_one : forall w tbs p prev, Local (elect_one cand ceqb w tbs p prev).
Proof. intros w tbs p prev. unfold Rules.elect_one. local. Qed.

Lemma Local_rd_step : forall p prev, Local (rd_step cand ceqb p prev).
Proof.
  intros p prev. unfold Rules.rd_step. apply Local_bind; [apply Local_draw_ballot|]. intros r.
  apply Local_bind; [apply Local_dictator_pick|]. intros [w tbs]. apply Local_elect_one.
Qed.

Lemma Local_brd_step : forall p prev, Local (brd_step cand ceqb p prev).
Proof.
  intros p prev. pose proof Local_elect_one as He. pose proof Local_rd_step as Hr.
  unfold Rules.rd_step in Hr. unfold Rules.brd_step.
  apply Local_bind; [local|]. intros du. destruct du; try solve [local].
  destruct (cands p) as [|c [|c' cs]]; cbv zeta.
  - destruct (Qle_bool _ _); [|apply Hr]. destruct (Qeq_bool _ _); [local|].
    destruct (Qeq_bool _ _); [local|].
    apply Local_bind; [local|]. intros dc. destruct dc; local.
  - apply He.
  - destruct (Qle_bool _ _); [|apply Hr]. destruct (Qeq_bool _ _); [local|].
    destruct (Qeq_bool _ _); [local|].
    apply Local_bind; [local|]. intros dc. destruct dc; local.
Qed.

Lemma Local_dictator_loop : forall fuel boosted m p sts,
  Local (dictator_loop cand ceqb fuel boosted m p sts).
Proof.
  induction fuel as [|fuel IH]; intros boosted m p sts; cbn [Rules.dictator_loop];
    (destruct (Z.leb _ _); [local|]); [local|].
  destruct sts as [|prev sts]; [local|].
  apply Local_bind; [destruct boosted; [apply Local_brd_step|apply Local_rd_step]|].
  intros [np st]. apply IH.
Qed.

Lemma Local_run_dictator : forall boosted m p, Local (run_dictator cand ceqb boosted m p).
Proof.
  intros boosted m p. unfold Rules.run_dictator. apply Local_bind; [local|]. intros u.
  apply Local_bind; [local|]. intros u'. apply Local_bind; [local|]. intros s0.
  apply Local_dictator_loop.
Qed.

(* every rule, the intentionally random ones included *)
Theorem Local_run_rule : forall r p, Local (run_rule cand ceqb r p).
Proof.
  intros r p. destruct r; cbn [Rules.run_rule].
  - apply Local_run_stv.
  - apply Local_run_plurality.
  - cbv zeta. apply Local_bind; [local|]. intros u. apply Local_bind; [local|]. intros u'.
    apply Local_run_one_shot.
  - apply Local_run_rating.
  - destruct (Qlt_bool _ _); [local|apply Local_run_rating].
  - cbv zeta. apply Local_run_rating.
  - apply Local_run_dominating.
  - apply Local_run_condo.
  - apply Local_run_toptwo.
  - apply Local_run_alaska.
  - apply Local_run_dictator.
  - apply Local_run_dictator.
Qed.

Lemma Local_replay_profile : forall ru p sts r, Local (replay_profile cand ceqb ru p sts r).
Proof.
  intros ru p sts r. unfold Rules.replay_profile.
  destruct ru as [cfg| | | | | | | | | | |]; try solve [destruct r; local].
  apply Local_bind; [local|]. intros t. apply Local_stv_replay.
Qed.

End Script.

Arguments Ret {cand A}.
Arguments Ask {cand A}.
