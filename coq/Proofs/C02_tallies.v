(* Proofs/C02_tallies.v — C02, last sentence: the tallies and the candidate order recorded for each
   round are the first-place weights of the profile the round produced.
   A  dict_tallies / dict_ranked: a dictionary with the tallies of p and its score_to_ranking
   B  state_of_tallies: a state that reports a valid-or-empty profile (state_of)
   C  run_records_are_tallies: every record of a successful run, against the trace profile *)
From Coq Require Import List ZArith QArith Bool Permutation Lia Lqa Setoid Morphisms.
From VK Require Import Base Core STV Rules EditSpec.
From VK.Spec Require Import STVSpec ReplaySpec TallySpec.
From VK.Proofs Require Import C04_scoring STV_lib C02_run.
Import ListNotations.

Section Tallies.
Variable cand : Type.
Variable ceqb : cand -> cand -> bool.
Hypothesis ceqb_spec : forall a b, reflect (a = b) (ceqb a b).

Notation profile := (profile cand).
Notation ranking := (ranking cand).
Notation scores := (scores cand).
Notation estate := (estate cand).
Notation mstate := (mstate cand).
Notation flat := (flat cand).
Notation tally := (tally cand ceqb).
Notation wf_stv0 := (wf_stv0 cand).
Notation state_of := (state_of cand ceqb).
Notation step_ctx := (step_ctx cand ceqb).
Notation script_ok := (script_ok cand).
Notation stv_trace := (stv_trace cand ceqb).
Notation stv_init := (stv_init cand).
Notation run_stv := (run_stv cand ceqb).
Notation first_place_votes := (first_place_votes cand ceqb).
Notation score_to_ranking := (score_to_ranking cand).
Notation scores_are_tallies := (scores_are_tallies cand ceqb).
Notation ranked_by_tally := (ranked_by_tally cand ceqb).

(* ====================== A ====================== *)

Lemma fpv_scores_are_tallies : forall (p : profile) d, wf_stv0 p -> first_place_votes p = inl d ->
  scores_are_tallies p d.
Proof.
  intros p d Hwf H. pose proof (fpv_keys cand ceqb p d H) as Hk.
  assert (Hnd : NoDup (map fst d)) by (rewrite Hk; apply Hwf).
  split; [exact Hk|]. split; [exact Hnd|]. split.
  - exact (fpv_tally cand ceqb ceqb_spec p d Hwf H).
  - intros c Hc. destruct (in_keys_pair cand d c) as [q Hq]; [rewrite Hk; exact Hc|].
    exists q. split; [exact Hq|]. exact (fpv_tally cand ceqb ceqb_spec p d Hwf H c q Hq).
Qed.

(* the ranking of a dictionary of tallies *)
Lemma dict_ranked : forall (p : profile) (d : scores), scores_are_tallies p d ->
  ranked_by_tally p (score_to_ranking d true).
Proof.
  intros p d [Hk [Hnd [Hq Hex]]].
  assert (Hperm : Permutation (flat (score_to_ranking d true)) (cands p)).
  { rewrite <- Hk. apply score_to_ranking_flat_perm_all. }
  assert (Hne : cands p <> [] -> d <> []).
  { intros Hc Hd. apply Hc. rewrite <- Hk, Hd. reflexivity. }
  (* a member of a group of the ranking is a candidate of p with an entry *)
  assert (Hmem : forall g a, In g (score_to_ranking d true) -> In a g ->
                   In a (cands p) /\ exists q, In (a, q) d /\ q == tally a (ballots p)).
  { intros g a Hg Ha.
    assert (Hin : In a (cands p)).
    { apply (Permutation_in _ Hperm). unfold Core.flat. apply in_concat. exists g. split; assumption. }
    split; [exact Hin|]. apply Hex. exact Hin. }
  assert (Hd_of : forall g a, In g (score_to_ranking d true) -> In a g -> d <> []).
  { intros g a Hg Ha. apply Hne. destruct (Hmem g a Hg Ha) as [Hin _].
    intros E. rewrite E in Hin. destruct Hin. }
  split; [exact Hperm|]. split.
  { eapply Permutation_NoDup; [apply Permutation_sym; exact Hperm|]. rewrite <- Hk. exact Hnd. }
  split.
  { intros Hc g Hg. apply (score_to_ranking_nonempty_groups cand d g (Hne Hc) Hg). }
  split.
  { intros Hc. destruct d as [|x d]; [reflexivity|]. rewrite Hc in Hk. discriminate Hk. }
  split.
  { intros g a b Hg Ha Hb.
    destruct (Hmem g a Hg Ha) as [_ [qa [Hqa Ea]]]. destruct (Hmem g b Hg Hb) as [_ [qb [Hqb Eb]]].
    rewrite <- Ea, <- Eb.
    apply (score_to_ranking_same_group_iff cand d a b qa qb (Hd_of g a Hg Ha) Hnd Hqa Hqb).
    exists g. split; [exact Hg|]. split; assumption. }
  split.
  { intros pre g1 mid g2 post a b Hr Ha Hb.
    assert (Hg1 : In g1 (score_to_ranking d true)).
    { rewrite Hr. apply in_or_app. right. left. reflexivity. }
    assert (Hg2 : In g2 (score_to_ranking d true)).
    { rewrite Hr. apply in_or_app. right. right. apply in_or_app. right. left. reflexivity. }
    destruct (Hmem g1 a Hg1 Ha) as [_ [qa [Hqa Ea]]]. destruct (Hmem g2 b Hg2 Hb) as [_ [qb [Hqb Eb]]].
    rewrite <- Ea, <- Eb.
    exact (score_to_ranking_order cand d pre g1 mid g2 post a b qa qb (Hd_of g1 a Hg1 Ha) Hnd Hr
             Ha Hb Hqa Hqb). }
  intros a b Ha Hb.
  destruct (Hex a Ha) as [qa [Hqa Ea]]. destruct (Hex b Hb) as [qb [Hqb Eb]].
  rewrite <- Ea, <- Eb.
  apply (score_to_ranking_same_group_iff cand d a b qa qb); try assumption.
  apply Hne. intros E. rewrite E in Ha. destruct Ha.
Qed.

(* ====================== B: one recorded state ====================== *)

Theorem state_of_tallies_spec : forall (pr : profile) (st : estate), wf_stv0 pr -> state_of pr st ->
  scores_are_tallies pr (escores st) /\ ranked_by_tally pr (remaining st).
Proof.
  intros pr st Hwf [Hf Hr].
  pose proof (fpv_scores_are_tallies pr (escores st) Hwf Hf) as Hs.
  split; [exact Hs|]. rewrite Hr. apply dict_ranked. exact Hs.
Qed.

(* fully spelled *)
Theorem state_of_tallies : forall (pr : profile) (st : estate), wf_stv0 pr -> state_of pr st ->
  (* (a) the keys of the recorded scores are the candidates of pr *)
  (map fst (escores st) = cands pr /\ Permutation (map fst (escores st)) (cands pr) /\
   NoDup (map fst (escores st))) /\
  (* (b) every recorded score is the first-place tally in pr; every candidate has one *)
  ((forall c q, In (c, q) (escores st) -> q == tally c (ballots pr)) /\
   (forall c, In c (cands pr) -> exists q, In (c, q) (escores st) /\ q == tally c (ballots pr))) /\
  (* (c) the recorded ranking = the candidates of pr in maximal classes of equal tally, strictly
     descending *)
  (Permutation (flat (remaining st)) (cands pr) /\ NoDup (flat (remaining st)) /\
   (cands pr <> [] -> forall g, In g (remaining st) -> g <> []) /\
   (cands pr = [] -> remaining st = [[]]) /\
   (forall g a b, In g (remaining st) -> In a g -> In b g ->
      tally a (ballots pr) == tally b (ballots pr)) /\
   (forall pre g1 mid g2 post a b, remaining st = pre ++ g1 :: mid ++ g2 :: post ->
      In a g1 -> In b g2 -> tally b (ballots pr) < tally a (ballots pr)) /\
   (forall a b, In a (cands pr) -> In b (cands pr) ->
      ((exists g, In g (remaining st) /\ In a g /\ In b g) <->
       tally a (ballots pr) == tally b (ballots pr)))).
Proof.
  intros pr st Hwf Hst.
  destruct (state_of_tallies_spec pr st Hwf Hst) as [[Hk [Hnd [Hq Hex]]] Hrk].
  split; [|split; [|exact Hrk]].
  - split; [exact Hk|]. split; [rewrite Hk; apply Permutation_refl|exact Hnd].
  - split; [exact Hq|exact Hex].
Qed.

(* ====================== C: every record of a run ====================== *)

Theorem run_records_are_tallies : forall cfg (p : profile) (s s' : mstate) sts,
  wf_stv0 p -> (s_transfer cfg = TRandom -> script_ok s) ->
  run_stv cfg p s = inl (sts, s') ->
  exists t ps ss,
    stv_init cfg p = inl t /\ stv_trace cfg t p sts ps ss /\
    nth_error ps 0 = Some p /\ nth_error ss 0 = Some s /\ last ss s = s' /\
    length ps = length sts /\
    forall r pr st, nth_error ps r = Some pr -> nth_error sts r = Some st ->
      wf_stv0 pr /\ incl (cands pr) (cands p) /\
      scores_are_tallies pr (escores st) /\ ranked_by_tally pr (remaining st).
Proof.
  intros cfg p s s' sts Hwf Hscr H.
  destruct (run_legal cand ceqb ceqb_spec cfg p s s' sts Hwf Hscr H)
    as [t [ps [ss [Ht [Htr [Hp0 [Hs0 [Hlast [_ [Hctx _]]]]]]]]]].
  exists t, ps, ss. split; [exact Ht|]. split; [exact Htr|]. split; [exact Hp0|].
  split; [exact Hs0|]. split; [exact Hlast|].
  split; [exact (proj1 Htr)|].
  intros r pr st Hp Hr. pose proof (Hctx r pr st Hp Hr) as C.
  split; [exact (ctx_p _ _ _ _ _ C)|]. split; [exact (ctx_sub _ _ _ _ _ C)|].
  exact (state_of_tallies_spec pr st (ctx_p _ _ _ _ _ C) (ctx_st _ _ _ _ _ C)).
Qed.

(* fully spelled, in the shape of c02_run_legal *)
Theorem run_records_are_tallies_spelled : forall cfg (p : profile) (s s' : mstate) sts,
  wf_stv0 p -> (s_transfer cfg = TRandom -> script_ok s) ->
  run_stv cfg p s = inl (sts, s') ->
  exists t ps ss,
    stv_init cfg p = inl t /\ stv_trace cfg t p sts ps ss /\
    nth_error ps 0 = Some p /\ nth_error ss 0 = Some s /\ last ss s = s' /\
    length ps = length sts /\
    forall r pr st, nth_error ps r = Some pr -> nth_error sts r = Some st ->
      (map fst (escores st) = cands pr /\ Permutation (map fst (escores st)) (cands pr) /\
       NoDup (map fst (escores st))) /\
      ((forall c q, In (c, q) (escores st) -> q == tally c (ballots pr)) /\
       (forall c, In c (cands pr) -> exists q, In (c, q) (escores st) /\ q == tally c (ballots pr))) /\
      (Permutation (flat (remaining st)) (cands pr) /\ NoDup (flat (remaining st)) /\
       (cands pr <> [] -> forall g, In g (remaining st) -> g <> []) /\
       (cands pr = [] -> remaining st = [[]]) /\
       (forall g a b, In g (remaining st) -> In a g -> In b g ->
          tally a (ballots pr) == tally b (ballots pr)) /\
       (forall pre g1 mid g2 post a b, remaining st = pre ++ g1 :: mid ++ g2 :: post ->
          In a g1 -> In b g2 -> tally b (ballots pr) < tally a (ballots pr)) /\
       (forall a b, In a (cands pr) -> In b (cands pr) ->
          ((exists g, In g (remaining st) /\ In a g /\ In b g) <->
           tally a (ballots pr) == tally b (ballots pr)))).
Proof.
  intros cfg p s s' sts Hwf Hscr H.
  destruct (run_legal cand ceqb ceqb_spec cfg p s s' sts Hwf Hscr H)
    as [t [ps [ss [Ht [Htr [Hp0 [Hs0 [Hlast [_ [Hctx _]]]]]]]]]].
  exists t, ps, ss. split; [exact Ht|]. split; [exact Htr|]. split; [exact Hp0|].
  split; [exact Hs0|]. split; [exact Hlast|].
  split; [exact (proj1 Htr)|].
  intros r pr st Hp Hr. pose proof (Hctx r pr st Hp Hr) as C.
  exact (state_of_tallies pr st (ctx_p _ _ _ _ _ C) (ctx_st _ _ _ _ _ C)).
Qed.

End Tallies.
