(* Proofs/C19_minkowski.v — property C19, triangle inequality of the Lp distance for every natural
   p >= 1, in root-free (Minkowski) form over the real numbers: convexity of t |-> t^p on t >= 0 by
   induction on p, the normalisation argument, and the transfer to the model's rational sums. *)
From Coq Require Import Reals Lra Lia List Qreals.
From VK Require Import Base Core Metrics EditSpec MetricSpec MetricSpecR.
From VK.Proofs Require Import C19_lp.
Import ListNotations.
Open Scope R_scope.

(* ------------------------------------------------------------------ *)
(** * Finite real sums *)

Lemma rsum_cons : forall x l, rsum (x :: l) = x + rsum l.
Proof. reflexivity. Qed.

Lemma rsum_map_ext : forall (A : Type) (f g : A -> R) K,
  (forall k, In k K -> f k = g k) -> rsum (map f K) = rsum (map g K).
Proof.
  intros A f g K. induction K as [|k K IH]; intros H; cbn [map]; [reflexivity|].
  rewrite !rsum_cons, (H k (or_introl eq_refl)), IH; [reflexivity|].
  intros j Hj. apply H. right. exact Hj.
Qed.

Lemma rsum_map_le : forall (A : Type) (f g : A -> R) K,
  (forall k, In k K -> f k <= g k) -> rsum (map f K) <= rsum (map g K).
Proof.
  intros A f g K. induction K as [|k K IH]; intros H; cbn [map]; [apply Rle_refl|].
  rewrite !rsum_cons. apply Rplus_le_compat; [apply H; left; reflexivity|].
  apply IH. intros j Hj. apply H. right. exact Hj.
Qed.

Lemma rsum_map_lin : forall (A : Type) (f g : A -> R) (c d : R) K,
  rsum (map (fun k => c * f k + d * g k) K) = c * rsum (map f K) + d * rsum (map g K).
Proof.
  intros A f g c d K. induction K as [|k K IH]; cbn [map].
  - unfold rsum. cbn [fold_right]. ring.
  - rewrite !rsum_cons, IH. ring.
Qed.

Lemma rsum_map_scal : forall (A : Type) (f : A -> R) (c : R) K,
  rsum (map (fun k => c * f k) K) = c * rsum (map f K).
Proof.
  intros A f c K. induction K as [|k K IH]; cbn [map].
  - unfold rsum. cbn [fold_right]. ring.
  - rewrite !rsum_cons, IH. ring.
Qed.

Lemma rsum_nonneg_zero : forall (A : Type) (f : A -> R) K,
  (forall k, In k K -> 0 <= f k) -> rsum (map f K) = 0 -> forall k, In k K -> f k = 0.
Proof.
  intros A f K. induction K as [|j K IH]; intros Hp Hs k Hk; [destruct Hk|].
  cbn [map] in Hs. rewrite rsum_cons in Hs.
  assert (Hj : 0 <= f j) by (apply Hp; left; reflexivity).
  assert (Hr : 0 <= rsum (map f K)).
  { clear -Hp. induction K as [|i K IH]; cbn [map]; [unfold rsum; cbn; lra|].
    rewrite rsum_cons. assert (0 <= f i) by (apply Hp; right; left; reflexivity).
    assert (0 <= rsum (map f K)).
    { apply IH. intros k [<-|Hk]; apply Hp; [left; reflexivity|right; right; exact Hk]. }
    lra. }
  destruct Hk as [<-|Hk]; [lra|].
  apply IH; [intros i Hi; apply Hp; right; exact Hi|lra|exact Hk].
Qed.

(* ------------------------------------------------------------------ *)
(** * Convexity of t |-> t^p on t >= 0 *)

Lemma pow_diff_sign : forall p u v, 0 <= u -> 0 <= v -> 0 <= (u - v) * (u ^ p - v ^ p).
Proof.
  intros p u v Hu Hv. destruct (Rle_dec u v) as [Huv|Huv].
  - assert (H : u ^ p <= v ^ p) by (apply pow_incr; split; assumption).
    replace ((u - v) * (u ^ p - v ^ p)) with ((v - u) * (v ^ p - u ^ p)) by ring.
    apply Rmult_le_pos; lra.
  - assert (Hvu : v <= u) by lra.
    assert (H : v ^ p <= u ^ p) by (apply pow_incr; split; assumption).
    apply Rmult_le_pos; lra.
Qed.

Lemma pow_convex : forall p l u v, 0 <= u -> 0 <= v -> 0 <= l <= 1 ->
  (l * u + (1 - l) * v) ^ p <= l * u ^ p + (1 - l) * v ^ p.
Proof.
  induction p as [|p IH]; intros l u v Hu Hv Hl.
  - cbn [pow]. lra.
  - cbn [pow]. set (w := l * u + (1 - l) * v).
    assert (Hw : 0 <= w).
    { unfold w. apply Rplus_le_le_0_compat; apply Rmult_le_pos; lra. }
    specialize (IH l u v Hu Hv Hl). fold w in IH.
    apply Rle_trans with (w * (l * u ^ p + (1 - l) * v ^ p)).
    + apply Rmult_le_compat_l; assumption.
    + assert (E : l * (u * u ^ p) + (1 - l) * (v * v ^ p) - w * (l * u ^ p + (1 - l) * v ^ p)
                  = l * (1 - l) * ((u - v) * (u ^ p - v ^ p))) by (unfold w; ring).
      assert (Hn : 0 <= l * (1 - l) * ((u - v) * (u ^ p - v ^ p))).
      { apply Rmult_le_pos; [apply Rmult_le_pos; lra|apply pow_diff_sign; assumption]. }
      lra.
Qed.

(* ------------------------------------------------------------------ *)
(** * Minkowski, root-free *)

Section Minkowski.
Variable A : Type.
Variable K : list A.
Variable p : nat.
Hypothesis Hp : (1 <= p)%nat.

Lemma pow0 : 0 ^ p = 0.
Proof. apply pow_i. lia. Qed.

Lemma pow_zero_inv : forall x, x ^ p = 0 -> x = 0.
Proof.
  intros x H. destruct (Req_dec x 0) as [E|E]; [exact E|]. exfalso. revert H. apply pow_nonzero. exact E.
Qed.

(* normalised vectors *)
Lemma minkowski_unit : forall (u v : A -> R) a b,
  (forall k, In k K -> 0 <= u k) -> (forall k, In k K -> 0 <= v k) -> 0 < a -> 0 < b ->
  pow_sum p u K = 1 -> pow_sum p v K = 1 ->
  pow_sum p (fun k => a * u k + b * v k) K <= (a + b) ^ p.
Proof.
  intros u v a b Hu Hv Ha Hb Su Sv. unfold pow_sum in *.
  set (l := a / (a + b)).
  assert (Hab : a + b <> 0) by lra.
  assert (Hl : 0 <= l <= 1).
  { unfold l. split.
    - apply Rmult_le_pos; [lra|]. apply Rlt_le. apply Rinv_0_lt_compat. lra.
    - apply (Rmult_le_reg_r (a + b)); [lra|]. unfold Rdiv. rewrite Rmult_assoc, Rinv_l by exact Hab. lra. }
  apply Rle_trans with (rsum (map (fun k => (a + b) ^ p * (l * u k ^ p + (1 - l) * v k ^ p)) K)).
  - apply rsum_map_le. intros k Hk.
    replace (a * u k + b * v k) with ((a + b) * (l * u k + (1 - l) * v k)) by (unfold l; field; exact Hab).
    rewrite Rpow_mult_distr. apply Rmult_le_compat_l; [apply pow_le; lra|].
    apply pow_convex; [apply Hu; exact Hk|apply Hv; exact Hk|exact Hl].
  - rewrite rsum_map_scal, rsum_map_lin, Su, Sv. lra.
Qed.

Theorem minkowski : forall (x y : A -> R) a b,
  (forall k, In k K -> 0 <= x k) -> (forall k, In k K -> 0 <= y k) -> 0 <= a -> 0 <= b ->
  a ^ p = pow_sum p x K -> b ^ p = pow_sum p y K ->
  pow_sum p (fun k => x k + y k) K <= (a + b) ^ p.
Proof.
  intros x y a b Hx Hy Ha Hb Sa Sb.
  assert (Hzero : forall (z : A -> R) c, (forall k, In k K -> 0 <= z k) -> c = 0 ->
            c ^ p = pow_sum p z K -> forall k, In k K -> z k = 0).
  { intros z c Hz Hc Sc k Hk. rewrite Hc, pow0 in Sc. apply pow_zero_inv.
    apply (rsum_nonneg_zero A (fun k => z k ^ p) K).
    - intros j Hj. apply pow_le. apply Hz. exact Hj.
    - symmetry. exact Sc.
    - exact Hk. }
  destruct (Req_dec a 0) as [Ea|Ea].
  - (* x vanishes *)
    rewrite Ea, Rplus_0_l, Sb. apply Req_le. unfold pow_sum. apply rsum_map_ext. intros k Hk.
    rewrite (Hzero x a Hx Ea Sa k Hk). rewrite Rplus_0_l. reflexivity.
  - destruct (Req_dec b 0) as [Eb|Eb].
    + rewrite Eb, Rplus_0_r, Sa. apply Req_le. unfold pow_sum. apply rsum_map_ext. intros k Hk.
      rewrite (Hzero y b Hy Eb Sb k Hk). rewrite Rplus_0_r. reflexivity.
    + assert (Ha' : 0 < a) by lra. assert (Hb' : 0 < b) by lra.
      assert (Hap : a ^ p <> 0) by (apply pow_nonzero; exact Ea).
      assert (Hbp : b ^ p <> 0) by (apply pow_nonzero; exact Eb).
      assert (E : pow_sum p (fun k => x k + y k) K
                  = pow_sum p (fun k => a * (x k / a) + b * (y k / b)) K).
      { unfold pow_sum. apply rsum_map_ext. intros k _. f_equal. field. split; assumption. }
      rewrite E. apply minkowski_unit; try assumption.
      * intros k Hk. apply Rmult_le_pos; [apply Hx; exact Hk|]. apply Rlt_le, Rinv_0_lt_compat. exact Ha'.
      * intros k Hk. apply Rmult_le_pos; [apply Hy; exact Hk|]. apply Rlt_le, Rinv_0_lt_compat. exact Hb'.
      * assert (Hu : a ^ p * pow_sum p (fun k => x k / a) K = pow_sum p x K).
        { unfold pow_sum. rewrite <- rsum_map_scal. apply rsum_map_ext. intros k _.
          rewrite <- Rpow_mult_distr. f_equal. field. exact Ea. }
        apply (Rmult_eq_reg_l (a ^ p)); [|exact Hap]. rewrite Hu, Rmult_1_r. symmetry. exact Sa.
      * assert (Hv : b ^ p * pow_sum p (fun k => y k / b) K = pow_sum p y K).
        { unfold pow_sum. rewrite <- rsum_map_scal. apply rsum_map_ext. intros k _.
          rewrite <- Rpow_mult_distr. f_equal. field. exact Eb. }
        apply (Rmult_eq_reg_l (b ^ p)); [|exact Hbp]. rewrite Hv, Rmult_1_r. symmetry. exact Sb.
Qed.

End Minkowski.
(* the same for two vectors given as lists of equal length *)
Theorem minkowski_lists : forall (p : nat) (xs ys : list R) (a b : R), (1 <= p)%nat ->
  length xs = length ys ->
  Forall (fun x => 0 <= x) xs -> Forall (fun y => 0 <= y) ys -> 0 <= a -> 0 <= b ->
  a ^ p = rsum (map (fun x => x ^ p) xs) -> b ^ p = rsum (map (fun y => y ^ p) ys) ->
  rsum (map (fun q => (fst q + snd q) ^ p) (combine xs ys)) <= (a + b) ^ p.
Proof.
  intros p xs ys a b Hp Hlen Hxs Hys Ha Hb Sa Sb.
  assert (Hf : forall (l1 l2 : list R), length l1 = length l2 ->
            map fst (combine l1 l2) = l1 /\ map snd (combine l1 l2) = l2).
  { induction l1 as [|x l1 IH]; intros [|y l2] Hl; cbn [length] in Hl; try discriminate.
    - split; reflexivity.
    - cbn [combine map fst snd]. destruct (IH l2) as [E1 E2]; [lia|]. rewrite E1, E2. split; reflexivity. }
  destruct (Hf xs ys Hlen) as [E1 E2].
  apply (minkowski (R * R) (combine xs ys) p Hp fst snd a b).
  - intros k Hk. rewrite Forall_forall in Hxs. apply Hxs. rewrite <- E1. apply in_map. exact Hk.
  - intros k Hk. rewrite Forall_forall in Hys. apply Hys. rewrite <- E2. apply in_map. exact Hk.
  - exact Ha.
  - exact Hb.
  - rewrite Sa. unfold pow_sum. rewrite <- E1 at 1. rewrite map_map. reflexivity.
  - rewrite Sb. unfold pow_sum. rewrite <- E2 at 1. rewrite map_map. reflexivity.
Qed.

(* ------------------------------------------------------------------ *)
(** * Transfer to the model *)

Lemma Q2R_0 : Q2R 0%Q = 0.
Proof. unfold Q2R. cbn. lra. Qed.

Lemma Q2R_1 : Q2R 1%Q = 1.
Proof. unfold Q2R. cbn. lra. Qed.

Lemma Q2R_qsum : forall l, Q2R (qsum l) = rsum (map Q2R l).
Proof.
  induction l as [|x l IH]; cbn [map].
  - apply Q2R_0.
  - rewrite rsum_cons, <- IH. unfold qsum. cbn [fold_right]. apply Q2R_plus.
Qed.

Lemma Q2R_Qpow : forall x n, Q2R (Qpow x n) = Q2R x ^ n.
Proof.
  intros x n. induction n as [|n IH]; cbn [Qpow pow].
  - apply Q2R_1.
  - rewrite Q2R_mult, IH. reflexivity.
Qed.

Section WithCand.
Variable cand : Type.
Variable ceqb : cand -> cand -> bool.
Hypothesis ceqb_spec : forall a b, reflect (a = b) (ceqb a b).

Notation profile := (profile cand).
Notation lp_sum := (lp_sum cand ceqb).
Notation absdiff := (absdiff cand ceqb).
Notation total_wt := (total_wt cand).

Lemma Q2R_psum : forall (p1 p2 : profile) n K,
  Q2R (psum cand ceqb p1 p2 n K) = pow_sum n (fun r => Q2R (absdiff p1 p2 r)) K.
Proof.
  intros p1 p2 n K. unfold psum, pow_sum. rewrite Q2R_qsum, map_map. apply rsum_map_ext.
  intros r _. apply Q2R_Qpow.
Qed.

(* for reals a, b >= 0 with a^n = S_n(p1,p2) and b^n = S_n(p2,p3):  S_n(p1,p3) <= (a + b)^n,
   that is  S_n(p1,p3)^(1/n) <= S_n(p1,p2)^(1/n) + S_n(p2,p3)^(1/n) *)
Theorem triangle_p : forall (p1 p2 p3 : profile) (n : nat),
  (0 < total_wt (ballots p1))%Q -> (0 < total_wt (ballots p2))%Q -> (0 < total_wt (ballots p3))%Q ->
  (1 <= n)%nat ->
  exists s13 s12 s23,
    lp_sum p1 p3 n = inl s13 /\ lp_sum p1 p2 n = inl s12 /\ lp_sum p2 p3 n = inl s23 /\
    forall a b : R, 0 <= a -> 0 <= b -> a ^ n = Q2R s12 -> b ^ n = Q2R s23 ->
      Q2R s13 <= (a + b) ^ n.
Proof.
  intros p1 p2 p3 n H1 H2 H3 Hn.
  pose proof (pos_not_degenerate cand p1 H1) as D1. pose proof (pos_not_degenerate cand p2 H2) as D2.
  pose proof (pos_not_degenerate cand p3 H3) as D3.
  destruct (lp_sum_ok cand ceqb p1 p3 n D1 D3 Hn) as [s13 E13].
  destruct (lp_sum_ok cand ceqb p1 p2 n D1 D2 Hn) as [s12 E12].
  destruct (lp_sum_ok cand ceqb p2 p3 n D2 D3 Hn) as [s23 E23].
  exists s13, s12, s23. repeat (split; [assumption|]).
  destruct (common_keys cand ceqb ceqb_spec [p1; p2; p3]) as [K [Hd Hc]].
  assert (C1 : covers cand ceqb K p1) by (apply Hc; cbn; auto).
  assert (C2 : covers cand ceqb K p2) by (apply Hc; cbn; auto).
  assert (C3 : covers cand ceqb K p3) by (apply Hc; cbn; auto).
  pose proof (Qeq_eqR _ _ (lp_sum_any_keys cand ceqb ceqb_spec p1 p3 n s13 E13 K Hd C1 C3)) as Q13.
  pose proof (Qeq_eqR _ _ (lp_sum_any_keys cand ceqb ceqb_spec p1 p2 n s12 E12 K Hd C1 C2)) as Q12.
  pose proof (Qeq_eqR _ _ (lp_sum_any_keys cand ceqb ceqb_spec p2 p3 n s23 E23 K Hd C2 C3)) as Q23.
  rewrite Q2R_psum in Q13, Q12, Q23.
  intros a b Ha Hb Sa Sb. rewrite Q13.
  assert (Hnn : forall q1 q2 r, 0 <= Q2R (absdiff q1 q2 r)).
  { intros q1 q2 r. rewrite <- Q2R_0. apply Qle_Rle. apply absdiff_nonneg. }
  apply Rle_trans with
    (pow_sum n (fun r => Q2R (absdiff p1 p2 r) + Q2R (absdiff p2 p3 r)) K).
  - unfold pow_sum. apply rsum_map_le. intros r _. apply pow_incr. split; [apply Hnn|].
    rewrite <- Q2R_plus. apply Qle_Rle. apply absdiff_triangle.
  - apply (minkowski _ K n Hn).
    + intros k _. apply Hnn.
    + intros k _. apply Hnn.
    + exact Ha.
    + exact Hb.
    + rewrite Sa. exact Q12.
    + rewrite Sb. exact Q23.
Qed.

End WithCand.
