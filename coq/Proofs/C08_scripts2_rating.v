(* Proofs/C08_scripts2_rating.v — property C08, the rating family (GeneralRating, Rating,
   Cumulative, Approval, Limited, BlocPlurality) with EVERY tiebreak setting and EVERY draw script.
   On rated ballots a "first_place" / "borda" tiebreak re-scores the tied candidates from the
   RANKINGS of the profile: TypeError on the first ballot (whatever its weight), but success on a
   profile without ballots — so the two profiles must agree on having ballots at all. *)
From Coq Require Import List ZArith QArith Bool Permutation Lia Lqa Setoid Morphisms.
From VK Require Import Base Core STV Pairwise Rules.
From VK.Spec Require Import Content ScoreSpec EditSpec Anon AnonRules AnonRules2.
From VK.Proofs Require Import Lib_sets Lib_content Lib_condense C11_condense C04_scoring C12_edit Elect
  C08_anon C08_stv C08_pairwise C08_rules C08_dictator C08_scripts C08_scripts2.
From VK.Proofs Require C20_validation STV_tb.
Import ListNotations.
Open Scope Q_scope.

Section Rating2.
Variable cand : Type.
Variable ceqb : cand -> cand -> bool.
Hypothesis ceqb_spec : forall a b, reflect (a = b) (ceqb a b).

Notation cset := (cset cand).
Notation ranking := (ranking cand).
Notation profile := (profile cand).
Notation mstate := (mstate cand).
Notation estate := (estate cand).
Notation flat := (flat cand).
Notation groups_equiv := (groups_equiv cand).
Notation state_equiv := (state_equiv cand).
Notation profile_equiv := (profile_equiv cand ceqb).
Notation wf_profile := (wf_profile cand).
Notation dom := (one_shot_domain cand).
Notation rating_domain := (rating_domain cand).
Notation elect_equiv_tb := (elect_equiv_tb cand).
Notation mstate_equiv := (mstate_equiv cand ceqb).
Notation mres_equiv_log := (mres_equiv_log cand ceqb).
Notation popt_ok := (popt_ok cand ceqb).
Notation step_rel := (step_rel cand ceqb).
Notation two_states := (two_states cand).
Notation score_fn := (score_fn cand ceqb).
Notation mbind_log := (mbind_log cand ceqb).
Notation mret_log := (mret_log cand ceqb).
Notation mlift_log := (mlift_log cand ceqb).
Notation rated_tiebreak_ok := (rated_tiebreak_ok cand).

(* ------------------------------------------------------------------ *)
(** * elect_cands_from_set_ranking, given that the configured tiebreak agrees on the two sides *)

Definition tb_agree (p p' : option profile) (tb : option tb_kind) : Prop :=
  forall k, tb = Some k -> forall (g g' : cset) (s s' : mstate), Permutation g g' -> mstate_equiv s s' ->
    mres_equiv_log groups_equiv (tiebreak_set cand ceqb g p k s) (tiebreak_set cand ceqb g' p' k s').

Lemma elect_loop_gen : forall r r', groups_equiv r r' ->
  forall need acc acc' p p' tb (s s' : mstate), groups_equiv acc acc' ->
  tb_agree p p' tb -> mstate_equiv s s' ->
  mres_equiv_log elect_equiv_tb (elect_loop cand ceqb r need acc p tb s)
                                (elect_loop cand ceqb r' need acc' p' tb s').
Proof.
  intros r r' H. induction H as [|g g' r r' Hg Hr IH]; intros need acc acc' p p' tb s s' Hacc Hdet Hs.
  - destruct need as [|n]; cbn [Core.elect_loop].
    + apply mret_log; [|exact Hs]. split; [apply Forall2_rev; exact Hacc|]. split; [constructor|exact I].
    + exact eq_refl.
  - destruct need as [|n]; cbn [Core.elect_loop].
    + apply mret_log; [|exact Hs]. split; [apply Forall2_rev; exact Hacc|].
      split; [constructor; assumption|exact I].
    + rewrite <- (Permutation_length Hg). destruct (Nat.leb (length g) (S n)).
      * apply IH; [constructor; assumption|exact Hdet|exact Hs].
      * destruct tb as [k|]; [|exact eq_refl].
        apply (mbind_log groups_equiv).
        -- apply (Hdet k eq_refl); assumption.
        -- intros t t' s1 s1' Ht Hs1. apply mret_log; [|exact Hs1]. split; [|split].
           ++ apply Forall2_app; [apply Forall2_rev; exact Hacc|apply Forall2_firstn; exact Ht].
           ++ apply Forall2_app; [apply Forall2_skipn; exact Ht|exact Hr].
           ++ split; cbn [fst snd]; assumption.
Qed.

Lemma elect_top_m_gen : forall r r' m p p' tb (s s' : mstate), groups_equiv r r' ->
  tb_agree p p' tb -> mstate_equiv s s' ->
  mres_equiv_log elect_equiv_tb (elect_top_m cand ceqb r m p tb s) (elect_top_m cand ceqb r' m p' tb s').
Proof.
  intros r r' m p p' tb s s' H Hdet Hs. unfold Core.elect_top_m, Core.ranking_size.
  rewrite <- (Permutation_length (groups_equiv_flat cand r r' H)).
  destruct (m <? 1)%Z; [exact eq_refl|].
  destruct (Z.of_nat (length (flat r)) <? m)%Z; [exact eq_refl|].
  apply elect_loop_gen; [exact H|constructor|exact Hdet|exact Hs].
Qed.

(* ------------------------------------------------------------------ *)
(** * The tiebreak rules on rated profiles *)

Lemma scored_rated_error : forall (p : profile) b bs v, ballots p = b :: bs -> rk b = [] ->
  validate_vector v = inl tt -> score_rankings cand ceqb p v = inr EType.
Proof.
  intros p b bs v Hb Hrk Hv. unfold Core.score_rankings. rewrite Hv. cbn [rbind].
  unfold Core.add_missing. rewrite Hb. cbn [rmap]. unfold Core.add_missing_ballot. rewrite Hrk. reflexivity.
Qed.

Lemma rated_tb_agree : forall tb p p', dom SKBallotScores p -> dom SKBallotScores p' ->
  profile_equiv p p' -> rated_tiebreak_ok tb p p' -> tb_agree (Some p) (Some p') tb.
Proof.
  intros tb p p' Hd Hd' He Hok k -> g g' s s' Hg Hs.
  assert (Hscored : k = TBFirstPlace \/ k = TBBorda ->
            mres_equiv_log groups_equiv (tiebreak_set cand ceqb g (Some p) k s)
                                        (tiebreak_set cand ceqb g' (Some p') k s')).
  { intros Hk.
    assert (Hiff : ballots p = [] <-> ballots p' = []).
    { apply Hok. destruct Hk as [->| ->]; [left|right]; reflexivity. }
    destruct Hd as [_ [Hnd Hb]]. destruct Hd' as [_ [Hnd' Hb']].
    destruct (ballots p) as [|b bs] eqn:Eb.
    - (* no ballots at all on either side: ordinary ranked profiles *)
      pose proof (proj1 Hiff eq_refl) as Eb'.
      apply (tiebreak_set_log cand ceqb ceqb_spec); [|exact Hg|exact Hs]. cbn [C08_rules.popt_ok].
      split; [split; [exact Hnd|rewrite Eb; constructor]|].
      split; [split; [exact Hnd'|rewrite Eb'; constructor]|exact He].
    - destruct (ballots p') as [|b' bs'] eqn:Eb'; [destruct Hiff as [_ Hx]; discriminate (Hx eq_refl)|].
      assert (Hr : rk b = []) by (inversion Hb as [|x l Hx _]; subst; apply Hx).
      assert (Hr' : rk b' = []) by (inversion Hb' as [|x l Hx _]; subst; apply Hx).
      assert (E : forall q : profile, forall c cs, ballots q = c :: cs -> rk c = [] ->
                first_place_votes cand ceqb q = inr EType /\ borda_scores cand ceqb q = inr EType).
      { intros q c cs Hq Hc. split.
        - apply (scored_rated_error q c cs _ Hq Hc). apply validate_vector_iff.
          apply C20_validation.fpv_vector_valid_vector.
        - apply (scored_rated_error q c cs _ Hq Hc). apply validate_vector_iff.
          apply STV_tb.borda_vector_valid. }
      destruct (E p b bs Eb Hr) as [E1 E2]. destruct (E p' b' bs' Eb' Hr') as [E1' E2'].
      destruct Hk as [->| ->]; cbn [Core.tiebreak_set]; unfold mbind, mlift.
      + rewrite E1, E1'. exact eq_refl.
      + rewrite E2, E2'. exact eq_refl. }
  destruct k.
  - cbn [Core.tiebreak_set]. apply (mbind_log eq); [apply (draw_perm_set_log cand ceqb ceqb_spec); assumption|].
    intros l l' s1 s1' <- Hs1. apply mret_log; [apply (groups_equiv_refl cand)|exact Hs1].
  - apply Hscored. left. reflexivity.
  - apply Hscored. right. reflexivity.
  - exact eq_refl.
Qed.

(* ------------------------------------------------------------------ *)
(** * One-shot run on rated profiles, any tiebreak *)

Lemma rated_step_log : forall m tb p p' (prev prev' : estate) (s s' : mstate),
  dom SKBallotScores p -> dom SKBallotScores p' -> profile_equiv p p' -> rated_tiebreak_ok tb p p' ->
  groups_equiv (remaining prev) (remaining prev') -> mstate_equiv s s' ->
  mres_equiv_log (step_rel SKBallotScores) (one_shot_step cand ceqb SKBallotScores m tb p prev s)
                                           (one_shot_step cand ceqb SKBallotScores m tb p' prev' s').
Proof.
  intros m tb p p' prev prev' s s' Hd Hd' He Hok Hrem Hs. unfold Rules.one_shot_step.
  apply (mbind_log elect_equiv_tb).
  - apply elect_top_m_gen; [exact Hrem| |exact Hs]. apply rated_tb_agree; assumption.
  - intros [[el rem] t] [[el' rem'] t'] s1 s1' [Hel [Hrm Ht]] Hs1. cbn [fst snd] in Hel, Hrm, Ht.
    destruct (remove_cand_prof_anonymous cand ceqb ceqb_spec (flat el) (flat el') p p'
                (dom_nodup cand _ p Hd) (dom_nodup cand _ p' Hd')
                (dom_nonneg cand _ p Hd) (dom_nonneg cand _ p' Hd')
                (perm_flat_seteq cand el el' Hel) He) as [np [np' [Enp [Enp' Hnp]]]].
    unfold mbind, mlift. rewrite Enp, Enp'. cbn [ok].
    pose proof (dom_remove cand ceqb ceqb_spec SKBallotScores _ p np Hd Enp) as Hdn.
    pose proof (dom_remove cand ceqb ceqb_spec SKBallotScores _ p' np' Hd' Enp') as Hdn'.
    pose proof (score_fn_anonymous cand ceqb ceqb_spec SKBallotScores np np' Hdn Hdn' Hnp) as H2.
    destruct (score_fn SKBallotScores np) as [d1|e2]; destruct (score_fn SKBallotScores np') as [d1'|e2'];
      cbn [res_equiv] in H2; try contradiction; [|subst e2'; exact eq_refl].
    apply mret_log; [|exact Hs1].
    split; [exact Hnp|]. split; [|split; assumption]. cbn [fst snd].
    repeat split; cbn [rnd remaining elected eliminated tiebreaks escores];
      try apply no_group_equiv; try assumption; try apply H2.
    apply (opt_tb_list cand). exact Ht.
Qed.

Lemma rated_one_shot_log : forall m tb p p' (s s' : mstate),
  dom SKBallotScores p -> dom SKBallotScores p' -> profile_equiv p p' -> rated_tiebreak_ok tb p p' ->
  mstate_equiv s s' ->
  mres_equiv_log two_states (run_one_shot cand ceqb SKBallotScores m tb p s)
                            (run_one_shot cand ceqb SKBallotScores m tb p' s').
Proof.
  intros m tb p p' s s' Hd Hd' He Hok Hs. unfold Rules.run_one_shot.
  apply (mbind_log state_equiv).
  - apply mlift_log; [|exact Hs]. apply (round0_anonymous cand ceqb ceqb_spec); assumption.
  - intros s0 s0' s1 s1' H0 Hs1. apply (mbind_log (step_rel SKBallotScores)).
    + apply rated_step_log; try assumption. apply H0.
    + intros [np a1] [np' a1'] s2 s2' [_ [H1 _]] Hs2. cbn [fst snd] in H1. apply mret_log; [|exact Hs2].
      exists s0, a1, s0', a1'. split; [reflexivity|split; [reflexivity|split; assumption]].
Qed.

Theorem run_rating_log : forall m L k tb p p' (s s' : mstate),
  rating_domain L k p -> rating_domain L k p' -> profile_equiv p p' -> rated_tiebreak_ok tb p p' ->
  mstate_equiv s s' ->
  mres_equiv_log (Forall2 state_equiv) (run_rating cand ceqb m L k tb p s) (run_rating cand ceqb m L k tb p' s').
Proof.
  intros m L k tb p p' s s' Hd Hd' He Hok Hs. unfold Rules.run_rating, mbind, mlift.
  destruct (rating_args m L k) as [[]|e]; [|exact eq_refl]. cbn [ok].
  rewrite (rating_validate_anonymous cand ceqb ceqb_spec L k p p' Hd Hd' He).
  destruct (rating_validate cand L k p') as [[]|e]; [|exact eq_refl]. cbn [ok].
  apply (mres_log_weaken cand ceqb two_states); [apply (two_states_Forall2 cand)|].
  apply rated_one_shot_log; try assumption; [apply Hd|apply Hd'].
Qed.

(* the three rule entry points, equivalent source states *)
Theorem rating_rule_log : forall m L k tb p p' (s s' : mstate),
  rating_domain L k p -> rating_domain L k p' -> profile_equiv p p' -> rated_tiebreak_ok tb p p' ->
  mstate_equiv s s' ->
  mres_equiv_log (Forall2 state_equiv) (run_rule cand ceqb (RRating m L k tb) p s)
                                       (run_rule cand ceqb (RRating m L k tb) p' s').
Proof. intros. cbn [Rules.run_rule]. apply run_rating_log; assumption. Qed.

Theorem limited_rule_log : forall m k tb p p' (s s' : mstate),
  rating_domain k (Some k) p -> rating_domain k (Some k) p' -> profile_equiv p p' ->
  rated_tiebreak_ok tb p p' -> mstate_equiv s s' ->
  mres_equiv_log (Forall2 state_equiv) (run_rule cand ceqb (RLimited m k tb) p s)
                                       (run_rule cand ceqb (RLimited m k tb) p' s').
Proof.
  intros. cbn [Rules.run_rule]. destruct (Qlt_bool (inject_Z m) k); [exact eq_refl|].
  apply run_rating_log; assumption.
Qed.

Theorem bloc_rule_log : forall m k tb p p' (s s' : mstate),
  rating_domain 1 (Some (inject_Z (bloc_limit m k))) p ->
  rating_domain 1 (Some (inject_Z (bloc_limit m k))) p' -> profile_equiv p p' ->
  rated_tiebreak_ok tb p p' -> mstate_equiv s s' ->
  mres_equiv_log (Forall2 state_equiv) (run_rule cand ceqb (RBloc m k tb) p s)
                                       (run_rule cand ceqb (RBloc m k tb) p' s').
Proof. intros. cbn [Rules.run_rule]. apply run_rating_log; assumption. Qed.

End Rating2.
