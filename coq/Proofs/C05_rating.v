(* Proofs/C05_rating.v — C05: GeneralRating ([run_rating]) accepts exactly the profiles within
   its limits, totals are weight times score, and the m highest totals are elected.
   Also the shape of every one-shot election ([run_one_shot]), reused for Plurality in
   Proofs/C13_composite.v. *)
From VK Require Import Base Core STV Pairwise Rules PV Election.
From VK.Spec Require Import ScoreSpec RatingSpec TopMSpec.
From VK.Proofs Require Import Lib_sets C04_scoring Elect C11_profile C12_edit C20_validation.
From Coq Require Import Permutation Lia Lqa.

Section Rating.
Variable cand : Type.
Variable ceqb : cand -> cand -> bool.
Hypothesis ceqb_spec : forall a b, reflect (a = b) (ceqb a b).

Notation cset := (cset cand).
Notation ranking := (ranking cand).
Notation ballot := (ballot cand).
Notation profile := (profile cand).
Notation scores := (scores cand).
Notation estate := (estate cand).
Notation mstate := (mstate cand).
Notation flat := (flat cand).
Notation singletons := (singletons cand).
Notation rating_validate := (rating_validate cand).
Notation run_rating := (run_rating cand ceqb).
Notation run_one_shot := (run_one_shot cand ceqb).
Notation score_fn := (score_fn cand ceqb).
Notation elect_top_m := (elect_top_m cand ceqb).
Notation score_to_ranking := (score_to_ranking cand).
Notation score_from_scores := (score_from_scores cand ceqb).
Notation remove_cand_prof := (remove_cand_prof cand ceqb).
Notation score_ballot_ok := (score_ballot_ok cand).
Notation score_ballot_bad := (score_ballot_bad cand).
Notation score_total := (score_total cand ceqb).
Notation no_group := (no_group cand).
Notation top_m_facts := (top_m_facts cand).

(* ------------------------------------------------------------------ *)
(** * R1: acceptance *)

Lemma rating_args_dec : forall m L k, rating_args_ok m L k \/ rating_args_bad m L k.
Proof.
  intros m L k. destruct (rating_args_iff m L k) as [H1 [H2 H3]].
  destruct (rating_args m L k) as [[]|e] eqn:H.
  - left. apply H3. reflexivity.
  - right. apply H1. rewrite (H2 e eq_refl). reflexivity.
Qed.

Lemma rating_args_ok_not_bad : forall m L k, rating_args_ok m L k -> ~ rating_args_bad m L k.
Proof.
  intros m L k Hok Hbad. destruct (rating_args_iff m L k) as [H1 [_ H3]].
  apply H3 in Hok. apply H1 in Hbad. congruence.
Qed.

Lemma rating_profile_dec : forall L k (p : profile),
  Forall (score_ballot_ok L k) (ballots p) \/ exists b, In b (ballots p) /\ score_ballot_bad L k b.
Proof.
  intros L k p. destruct (rating_validate_iff cand L k p) as [H1 [H2 H3]].
  destruct (rating_validate L k p) as [[]|e] eqn:H.
  - left. apply H3. reflexivity.
  - right. apply H1. rewrite (H2 e eq_refl). reflexivity.
Qed.

Theorem c05_accept_iff_proof : forall m L k tb (p : profile) s,
  (* validation passes exactly within the limits *)
  ((rating_args m L k = inl tt /\ rating_validate L k p = inl tt) <->
   (rating_args_ok m L k /\ Forall (score_ballot_ok L k) (ballots p))) /\
  (* the three outcomes; argument errors take precedence *)
  (rating_args_bad m L k -> run_rating m L k tb p s = inr EValue) /\
  (rating_args_ok m L k -> (exists b, In b (ballots p) /\ score_ballot_bad L k b) ->
     run_rating m L k tb p s = inr EType) /\
  (rating_args_ok m L k -> Forall (score_ballot_ok L k) (ballots p) ->
     run_rating m L k tb p s = run_one_shot SKBallotScores m tb p s) /\
  (* the cases are exhaustive and exclusive *)
  (rating_args_ok m L k \/ rating_args_bad m L k) /\
  ~ (rating_args_ok m L k /\ rating_args_bad m L k) /\
  (Forall (score_ballot_ok L k) (ballots p) \/ exists b, In b (ballots p) /\ score_ballot_bad L k b) /\
  ~ (Forall (score_ballot_ok L k) (ballots p) /\ exists b, In b (ballots p) /\ score_ballot_bad L k b) /\
  (* the first offending ballot in list order decides (every offence is a TypeError) *)
  (forall e, rating_validate L k p = inr e <->
     exists pre b post, ballots p = pre ++ b :: post /\
       Forall (score_ballot_ok L k) pre /\ score_ballot_bad L k b /\ e = EType).
Proof.
  intros m L k tb p s.
  destruct (rating_args_iff m L k) as [A1 [A2 A3]].
  destruct (rating_validate_iff cand L k p) as [V1 [V2 V3]].
  split; [rewrite A3, V3; reflexivity|].
  split; [intros H; rewrite (run_rating_prologue cand ceqb), (proj2 A1 H); reflexivity|].
  split; [intros Ha Hb; rewrite (run_rating_prologue cand ceqb), (proj2 A3 Ha), (proj2 V1 Hb); reflexivity|].
  split; [intros Ha Hb; rewrite (run_rating_prologue cand ceqb), (proj2 A3 Ha), (proj2 V3 Hb); reflexivity|].
  split; [apply rating_args_dec|].
  split; [intros [Ha Hb]; exact (rating_args_ok_not_bad m L k Ha Hb)|].
  split; [apply rating_profile_dec|].
  split; [|apply rating_validate_first].
  intros [Ha Hb]. apply V3 in Ha. apply V1 in Hb. congruence.
Qed.

(* ------------------------------------------------------------------ *)
(** * shape of a one-shot election *)

Lemma run_one_shot_inv : forall k m tb (p : profile) s sts s',
  run_one_shot k m tb p s = inl (sts, s') ->
  exists d el rem t np d1,
    score_fn k p = inl d /\
    elect_top_m (score_to_ranking d true) m (Some p) tb s = inl ((el, rem, t), s') /\
    remove_cand_prof (flat el) true false p = inl np /\
    score_fn k np = inl d1 /\
    sts = [state_of_scores cand 0 no_group no_group [] d;
           mkState 1 rem el no_group (match t with Some x => [x] | None => [] end) d1].
Proof.
  intros k m tb p s sts s' H. rewrite (run_one_shot_unfold cand ceqb) in H.
  destruct (score_fn k p) as [d|e] eqn:E1; [|discriminate].
  destruct (elect_top_m (score_to_ranking d true) m (Some p) tb s) as [[[[el rem] t] s1]|e] eqn:E2;
    [|discriminate].
  destruct (remove_cand_prof (flat el) true false p) as [np|e] eqn:E3; [|discriminate].
  destruct (score_fn k np) as [d1|e] eqn:E4; [|discriminate].
  inversion H; subst. exists d, el, rem, t, np, d1. repeat split; assumption || reflexivity.
Qed.

Lemma run_one_shot_intro : forall k m tb (p : profile) s s' d el rem t np d1,
  score_fn k p = inl d ->
  elect_top_m (score_to_ranking d true) m (Some p) tb s = inl ((el, rem, t), s') ->
  remove_cand_prof (flat el) true false p = inl np ->
  score_fn k np = inl d1 ->
  run_one_shot k m tb p s =
  inl ([state_of_scores cand 0 no_group no_group [] d;
        mkState 1 rem el no_group (match t with Some x => [x] | None => [] end) d1], s').
Proof.
  intros k m tb p s s' d el rem t np d1 H1 H2 H3 H4.
  rewrite (run_one_shot_unfold cand ceqb), H1, H2, H3, H4. reflexivity.
Qed.

Lemma tb_profile_ok_self : forall (p : profile) tb, NoDup (cands p) ->
  tb_profile_ok cand (Some p) tb (cands p).
Proof.
  intros p tb Hnd. destruct tb as [[| | |]|]; cbn [tb_profile_ok]; try exact I;
    intros pr Hpr; inversion Hpr; subst pr; (split; [exact Hnd|apply incl_refl]).
Qed.

Theorem one_shot_spec : forall k m tb (p : profile) s sts s',
  NoDup (cands p) ->
  run_one_shot k m tb p s = inl (sts, s') ->
  exists d el rem t np d1,
    score_fn k p = inl d /\ map fst d = cands p /\ d <> [] /\
    elect_top_m (score_to_ranking d true) m (Some p) tb s = inl ((el, rem, t), s') /\
    remove_cand_prof (flat el) true false p = inl np /\
    score_fn k np = inl d1 /\
    sts = [state_of_scores cand 0 no_group no_group [] d;
           mkState 1 rem el no_group (match t with Some x => [x] | None => [] end) d1] /\
    (1 <= m <= Z.of_nat (length (cands p)))%Z /\
    top_m_facts d m el rem t.
Proof.
  intros k m tb p s sts s' Hnd H.
  destruct (run_one_shot_inv k m tb p s sts s' H) as [d [el [rem [t [np [d1 [Hd [Hel [Hnp [Hd1 Hsts]]]]]]]]]].
  pose proof (score_fn_keys cand ceqb k p d Hd) as Hkeys.
  pose proof (elect_top_m_ok_range cand ceqb _ _ _ _ _ _ Hel) as Hrange.
  rewrite (ranking_size_scores cand) in Hrange.
  assert (Hlen : length d = length (cands p)) by (rewrite <- Hkeys; symmetry; apply map_length).
  assert (Hne : d <> []).
  { intros ->. cbn [length] in Hrange. lia. }
  exists d, el, rem, t, np, d1. repeat (split; [assumption|]).
  split; [rewrite <- Hlen; exact Hrange|].
  apply (c04_top_m_proof cand ceqb ceqb_spec d m (Some p) tb s s' el rem t Hne).
  - rewrite Hkeys. exact Hnd.
  - rewrite Hkeys. apply tb_profile_ok_self. exact Hnd.
  - exact Hel.
Qed.

(* ------------------------------------------------------------------ *)
(** * R2: totals *)

Definition totals (p : profile) : scores := map (fun c => (c, score_total p c)) (cands p).

Lemma score_from_scores_inv : forall (p : profile) d, score_from_scores p = inl d ->
  d = totals p /\
  (forall b, In b (ballots p) -> sc b <> []) /\
  (forall b, In b (ballots p) -> incl (map fst (sc b)) (cands p)).
Proof.
  intros p d H. unfold Core.score_from_scores in H.
  destruct (existsb (fun b => negb (nonempty (sc b))) (ballots p)) eqn:H1; [discriminate|].
  destruct (forallb (fun b => subsetb cand ceqb (map fst (sc b)) (cands p)) (ballots p)) eqn:H2;
    cbn [negb] in H; [|discriminate].
  unfold ok in H. inversion H. split; [reflexivity|]. split.
  - intros b Hb Hsc.
    assert (Hex : existsb (fun b => negb (nonempty (sc b))) (ballots p) = true).
    { apply existsb_exists. exists b. split; [exact Hb|]. rewrite Hsc. reflexivity. }
    congruence.
  - intros b Hb. rewrite forallb_forall in H2. apply (subsetb_incl cand ceqb ceqb_spec).
    apply H2. exact Hb.
Qed.

Lemma score_from_scores_ok : forall p : profile,
  (forall b, In b (ballots p) -> sc b <> []) ->
  (forall b, In b (ballots p) -> incl (map fst (sc b)) (cands p)) ->
  score_from_scores p = inl (totals p).
Proof.
  intros p H1 H2. unfold Core.score_from_scores.
  assert (E1 : existsb (fun b => negb (nonempty (sc b))) (ballots p) = false).
  { apply not_true_is_false. intros Hex. apply existsb_exists in Hex. destruct Hex as [b [Hb Hn]].
    specialize (H1 b Hb). destruct (sc b); [contradiction H1; reflexivity|discriminate]. }
  assert (E2 : forallb (fun b => subsetb cand ceqb (map fst (sc b)) (cands p)) (ballots p) = true).
  { apply forallb_forall. intros b Hb. apply (subsetb_incl cand ceqb ceqb_spec). apply H2. exact Hb. }
  rewrite E1, E2. reflexivity.
Qed.

Lemma score_from_scores_err : forall (p : profile) e, score_from_scores p = inr e ->
  e = EType \/ e = EKey.
Proof.
  intros p e H. unfold Core.score_from_scores in H.
  destruct (existsb _ (ballots p)); [inversion H; left; reflexivity|].
  destruct (forallb _ (ballots p)); cbn [negb] in H; [discriminate|inversion H; right; reflexivity].
Qed.

Lemma totals_In : forall (p : profile) c q, In (c, q) (totals p) <-> In c (cands p) /\ q = score_total p c.
Proof.
  intros p c q. unfold totals. rewrite in_map_iff. split.
  - intros [c' [Heq Hin]]. inversion Heq; subst. split; [exact Hin|reflexivity].
  - intros [Hin ->]. exists c. split; [reflexivity|exact Hin].
Qed.

Lemma totals_keys : forall p : profile, map fst (totals p) = cands p.
Proof. intros p. unfold totals. rewrite map_map. cbn [fst]. apply map_id. Qed.

Lemma run_rating_ok_inv : forall m L k tb (p : profile) s x,
  run_rating m L k tb p s = inl x ->
  rating_args_ok m L k /\ Forall (score_ballot_ok L k) (ballots p) /\
  run_one_shot SKBallotScores m tb p s = inl x.
Proof.
  intros m L k tb p s x H. rewrite (run_rating_prologue cand ceqb) in H.
  destruct (rating_args m L k) as [[]|e] eqn:Ha; [|discriminate].
  destruct (rating_validate L k p) as [[]|e] eqn:Hv; [|discriminate].
  split; [apply (rating_args_iff m L k); exact Ha|].
  split; [apply (rating_validate_iff cand L k p); exact Hv|exact H].
Qed.

Theorem c05_totals_proof : forall m L k tb (p : profile) s sts s',
  run_rating m L k tb p s = inl (sts, s') ->
  exists s0 s1, sts = [s0; s1] /\
    rnd s0 = 0%Z /\ elected s0 = [[]] /\ eliminated s0 = [[]] /\ tiebreaks s0 = [] /\
    escores s0 = map (fun c => (c, score_total p c)) (cands p) /\
    (forall c q, In (c, q) (escores s0) <-> In c (cands p) /\ q = score_total p c) /\
    remaining s0 = score_to_ranking (escores s0) true /\
    (forall b, In b (ballots p) -> incl (map fst (sc b)) (cands p)).
Proof.
  intros m L k tb p s sts s' H.
  destruct (run_rating_ok_inv _ _ _ _ _ _ _ H) as [_ [_ H1]].
  destruct (run_one_shot_inv _ _ _ _ _ _ _ H1) as [d [el [rem [t [np [d1 [Hd [_ [_ [_ Hsts]]]]]]]]]].
  cbn [Rules.score_fn] in Hd. destruct (score_from_scores_inv p d Hd) as [Hdt [_ Hknown]].
  eexists. eexists. split; [exact Hsts|]. cbn [rnd elected eliminated tiebreaks escores remaining state_of_scores].
  repeat (split; [reflexivity|]). split; [exact Hdt|]. split.
  - intros c q. rewrite Hdt. apply totals_In.
  - split; [reflexivity|exact Hknown].
Qed.

(* ------------------------------------------------------------------ *)
(** * R3: the m highest totals *)

Theorem c05_top_m_proof : forall m L k tb (p : profile) s sts s',
  NoDup (cands p) ->
  run_rating m L k tb p s = inl (sts, s') ->
  exists s0 s1, sts = [s0; s1] /\
    escores s0 = map (fun c => (c, score_total p c)) (cands p) /\
    remaining s0 = score_to_ranking (escores s0) true /\
    rnd s1 = 1%Z /\ eliminated s1 = [[]] /\
    (1 <= m <= Z.of_nat (length (cands p)))%Z /\
    (* exactly m elected; elected and remaining partition the candidates *)
    Z.of_nat (length (flat (elected s1))) = m /\
    Permutation (flat (elected s1) ++ flat (remaining s1)) (cands p) /\
    (* no elected candidate has a lower total than a remaining one *)
    (forall c1 c2, In c1 (flat (elected s1)) -> In c2 (flat (remaining s1)) ->
       score_total p c2 <= score_total p c1) /\
    (* descending order, strictly except inside the group split by the recorded tiebreak *)
    (forall pre g1 mid g2 post c1 c2,
       elected s1 ++ remaining s1 = pre ++ g1 :: mid ++ g2 :: post -> In c1 g1 -> In c2 g2 ->
       score_total p c2 < score_total p c1 \/
       (score_total p c1 == score_total p c2 /\
        exists g t, tiebreaks s1 = [(g, t)] /\ In c1 g /\ In c2 g)) /\
    (* members of a reported group have equal totals *)
    (forall g c1 c2, In g (elected s1 ++ remaining s1) -> In c1 g -> In c2 g ->
       score_total p c1 == score_total p c2) /\
    (* equal totals are reported tied unless the recorded tiebreak separated them *)
    (forall c1 c2, In c1 (cands p) -> In c2 (cands p) -> score_total p c1 == score_total p c2 ->
       (exists g, In g (elected s1 ++ remaining s1) /\ In c1 g /\ In c2 g) \/
       (exists g t, tiebreaks s1 = [(g, t)] /\ In c1 g /\ In c2 g)) /\
    (tiebreaks s1 = [] -> elected s1 ++ remaining s1 = remaining s0) /\
    (forall g t, In (g, t) (tiebreaks s1) ->
       tiebreaks s1 = [(g, t)] /\ In g (remaining s0) /\
       exists l, t = singletons l /\ Permutation l g) /\
    (* the round-1 scores are the totals of the profile with the winners removed *)
    (exists np, remove_cand_prof (flat (elected s1)) true false p = inl np /\
       escores s1 = map (fun c => (c, score_total np c)) (cands np) /\
       (set_diff cand ceqb (cands p) (flat (elected s1)) <> [] ->
        cands np = set_diff cand ceqb (cands p) (flat (elected s1)))).
Proof.
  intros m L k tb p s sts s' Hnd H.
  destruct (run_rating_ok_inv _ _ _ _ _ _ _ H) as [_ [_ H1]].
  destruct (one_shot_spec _ _ _ _ _ _ _ Hnd H1)
    as [d [el [rem [t [np [d1 [Hd [Hkeys [Hne [Hel [Hnp [Hd1 [Hsts [Hrange Hfacts]]]]]]]]]]]]]].
  cbn [Rules.score_fn] in Hd, Hd1.
  destruct (score_from_scores_inv p d Hd) as [Hdt _].
  destruct (score_from_scores_inv np d1 Hd1) as [Hd1t _].
  destruct Hfacts as [F1 [F2 [F3 [F4 [F5 [F6 [F7 F8]]]]]]].
  assert (Hin_d : forall c, In c (cands p) -> In (c, score_total p c) d).
  { intros c Hc. rewrite Hdt. apply totals_In. split; [exact Hc|reflexivity]. }
  assert (Hcands : forall c, In c (flat el ++ flat rem) -> In c (cands p)).
  { intros c Hc. rewrite <- Hkeys. eapply Permutation_in; eassumption. }
  assert (Hgrp : forall g c, In g (el ++ rem) -> In c g -> In c (cands p)).
  { intros g c Hg Hc. apply Hcands. rewrite <- (flat_app cand). apply in_concat_iff.
    exists g. split; assumption. }
  assert (Htb : forall g t0, t = Some (g, t0) <->
                  (match t with Some x => [x] | None => [] end) = [(g, t0)]).
  { intros g t0. destruct t as [[g' t']|]; split; intros E; inversion E; reflexivity. }
  eexists. eexists. split; [exact Hsts|].
  cbn [rnd elected eliminated tiebreaks escores remaining state_of_scores].
  split; [exact Hdt|]. split; [reflexivity|]. split; [reflexivity|]. split; [reflexivity|].
  split; [exact Hrange|]. split; [exact F1|]. split; [rewrite <- Hkeys; exact F2|].
  split; [|split; [|split; [|split; [|split; [|split]]]]].
  - intros c1 c2 H1' H2'. apply (F3 c1 c2); try assumption; apply Hin_d; apply Hcands;
      apply in_or_app; [left|right]; assumption.
  - intros pre g1 mid g2 post c1 c2 Heq Hc1 Hc2.
    assert (Hg1 : In g1 (el ++ rem)) by (rewrite Heq; apply in_or_app; right; left; reflexivity).
    assert (Hg2 : In g2 (el ++ rem)).
    { rewrite Heq. apply in_or_app. right. right. apply in_or_app. right. left. reflexivity. }
    destruct (F4 pre g1 mid g2 post c1 c2 _ _ Heq Hc1 Hc2
                 (Hin_d c1 (Hgrp g1 c1 Hg1 Hc1)) (Hin_d c2 (Hgrp g2 c2 Hg2 Hc2)))
      as [Hlt|[Heq' [g [t0 [Ht [Ha Hb]]]]]].
    + left. exact Hlt.
    + right. split; [exact Heq'|]. exists g, t0. split; [apply Htb; exact Ht|]. split; assumption.
  - intros g c1 c2 Hg Hc1 Hc2.
    apply (F5 g c1 c2 _ _ Hg Hc1 Hc2 (Hin_d c1 (Hgrp g c1 Hg Hc1)) (Hin_d c2 (Hgrp g c2 Hg Hc2))).
  - intros c1 c2 Hc1 Hc2 Heq.
    destruct (F6 c1 c2 _ _ (Hin_d c1 Hc1) (Hin_d c2 Hc2) Heq) as [Hl|[g [t0 [Ht [Ha Hb]]]]].
    + left. exact Hl.
    + right. exists g, t0. split; [apply Htb; exact Ht|]. split; assumption.
  - intros Ht. apply F7. destruct t; [discriminate|reflexivity].
  - intros g t0 Hin. destruct t as [[g' t']|]; [|destruct Hin].
    destruct Hin as [Heq|[]]. inversion Heq; subst g' t'. split; [reflexivity|].
    apply F8. reflexivity.
  - exists np. split; [exact Hnp|]. split; [exact Hd1t|].
    intros Hdiff. destruct (remove_prof_cands cand ceqb ceqb_spec (flat el) true false p Hnd)
      as [np' [Hnp' [_ [Hc _]]]].
    rewrite Hnp in Hnp'. inversion Hnp'; subst np'. apply Hc. exact Hdiff.
Qed.

(* errors of the election step, once validation has passed *)
Theorem c05_top_m_errors_proof : forall m L k (p : profile) s,
  NoDup (cands p) -> rating_args_ok m L k -> Forall (score_ballot_ok L k) (ballots p) ->
  (forall b, In b (ballots p) -> incl (map fst (sc b)) (cands p)) ->
  (forall tb, (Z.of_nat (length (cands p)) < m)%Z -> run_rating m L k tb p s = inr EValue) /\
  (run_rating m L k None p s = inr EValue <->
     (Z.of_nat (length (cands p)) < m)%Z \/
     exists pre g post,
       score_to_ranking (map (fun c => (c, score_total p c)) (cands p)) true = pre ++ g :: post /\
       (Z.of_nat (length (flat pre)) < m)%Z /\ (m < Z.of_nat (length (flat pre) + length g))%Z).
Proof.
  intros m L k p s Hnd Hargs Hbs Hknown.
  assert (Hrun : forall tb, run_rating m L k tb p s = run_one_shot SKBallotScores m tb p s).
  { intros tb. destruct (c05_accept_iff_proof m L k tb p s) as [_ [_ [_ [Hr _]]]]. apply Hr; assumption. }
  assert (Hd : score_from_scores p = inl (totals p)).
  { apply score_from_scores_ok; [|exact Hknown]. intros b Hb.
    rewrite Forall_forall in Hbs. destruct (Hbs b Hb) as [Hne _]. exact Hne. }
  fold (totals p).
  assert (Hlen : length (flat (score_to_ranking (totals p) true)) = length (cands p)).
  { rewrite (ranking_size_scores cand), <- (totals_keys p). symmetry. apply map_length. }
  split.
  - intros tb Hm. rewrite Hrun, (c20_elect_m_range_proof cand ceqb) by (right; exact Hm).
    cbn [Rules.score_fn]. rewrite Hd. reflexivity.
  - rewrite Hrun, (run_one_shot_unfold cand ceqb). cbn [Rules.score_fn]. rewrite Hd.
    pose proof (elect_top_m_none_error_iff cand ceqb (score_to_ranking (totals p) true) m (Some p) s)
      as Hiff.
    rewrite Hlen in Hiff. unfold straddlesZ in Hiff. destruct Hargs as [Hm1 _].
    destruct (elect_top_m (score_to_ranking (totals p) true) m (Some p) None s)
      as [[[[el rem] t] s1]|e] eqn:Hel.
    + split.
      * intros H. exfalso.
        destruct (remove_cand_prof (flat el) true false p) as [np|e] eqn:Hnp.
        -- destruct (score_from_scores np) as [d1|e] eqn:Hd1; [discriminate|].
           inversion H; subst e. destruct (score_from_scores_err np EValue Hd1); discriminate.
        -- destruct (remove_prof_error cand ceqb ceqb_spec _ _ _ _ _ Hnp) as [_ Hdup].
           apply Hdup. apply set_diff_NoDup. exact Hnd.
      * intros Hc. assert (Hx : @inl _ exn (el, rem, t, s1) = inr EValue).
        { apply Hiff. destruct Hc as [Hc|Hc]; [right; left; exact Hc|right; right; exact Hc]. }
        discriminate.
    + split.
      * intros H. inversion H; subst e. destruct (proj1 Hiff eq_refl) as [Hc|[Hc|Hc]];
          [lia|left; exact Hc|right; exact Hc].
      * intros _. rewrite (elect_top_m_none_only_EValue cand ceqb _ _ _ _ _ Hel). reflexivity.
Qed.

End Rating.
