(* Proofs/C16_types_push.v — property C16, slate-Plackett-Luce ballot types: the PUSHFORWARD of
   independent uniform coin flips through [type_loop] is [law_types].

   Stated with boxes (products of half-open intervals) and exact rational volumes:
   1. one step: the flips selecting index i form the interval [bin_interval values i], whose length
      is the weight [law_types] gives to i;
   2. (A) [type_loop] returns t on a flip vector iff the vector lies in a box of [type_boxes]
      whose outcome reads t; the box is unique;
      (B) the volume of the boxes yielding t (a shuffle box counting 1/#arrangements) is the
      probability of t under [law_types]; the boxes have total volume 1. *)
From VK Require Import Base Core GenValidation PrefInterval Generators Laws.
From VK.Spec Require Import BTSpec GenSpec GenLaws TypesLawSpec TypesPushSpec.
From VK.Proofs Require Import Lib_rk Lib_sets Dist C15_slate C14_types C16_laws C16_gen2_types.
From Coq Require Import Permutation Lia Lqa Setoid Morphisms.

(* ------------------------------------------------------------------ *)
(** * 1. One step: bins are intervals whose lengths are the categorical weights *)

Lemma in_bin_interval : forall values u i,
  in_interval u (bin_interval values i) <-> psum values i < u /\ u <= psum values (S i).
Proof. intros values u i. reflexivity. Qed.

Theorem which_bin_interval : forall values u i,
  Forall (fun v => 0 <= v) values ->
  (which_bin (bins_of values) u 0 = Some i <->
   (i < length values)%nat /\ in_interval u (bin_interval values i)).
Proof.
  intros values u i Hnn. rewrite in_bin_interval. apply which_bin_iff. exact Hnn.
Qed.

Lemma nth_error_nth0 : forall (vs : list Q) i, (i < length vs)%nat -> nth_error vs i = Some (nth i vs 0).
Proof.
  induction vs as [|x vs IH]; intros [|i] H; cbn [length] in H; try lia; [reflexivity|].
  cbn [nth_error nth]. apply IH. lia.
Qed.

Lemma bin_interval_len : forall values i, (i < length values)%nat ->
  iv_len (bin_interval values i) == nth i values 0.
Proof.
  intros values i Hi. unfold iv_len, bin_interval. cbn [fst snd].
  pose proof (psum_S_nth values i _ (nth_error_nth0 values i Hi)) as H. unfold psum in H.
  rewrite H. ring.
Qed.

(* the population handed to [categorical] by [law_types], index by index *)
Lemma combine_seq_map : forall (vs : list Q) s,
  combine (seq s (length vs)) vs = map (fun i => (i, nth (i - s) vs 0)) (seq s (length vs)).
Proof.
  induction vs as [|x vs IH]; intros s; [reflexivity|].
  cbn [length seq combine map]. rewrite Nat.sub_diag. cbn [nth]. f_equal.
  rewrite IH. apply map_ext_in. intros i Hi. apply in_seq in Hi.
  replace (i - s)%nat with (S (i - S s))%nat by lia. reflexivity.
Qed.

Lemma categorical_index_law : forall (values : list Q),
  categorical (combine (seq 0 (length values)) values) =
  map (fun i => (i, nth i values 0 / qsum values)) (seq 0 (length values)).
Proof.
  intros values. unfold categorical. rewrite map_snd_combine_seq, combine_seq_map, map_map.
  apply map_ext. intros i. cbn [fst snd]. rewrite Nat.sub_0_r. reflexivity.
Qed.

Lemma qsum_seq_point : forall (f : nat -> Q) i len s, (s <= i)%nat -> (i < s + len)%nat ->
  qsum (map (fun j => if Nat.eqb i j then f j else 0) (seq s len)) == f i.
Proof.
  intros f i len. induction len as [|len IH]; intros s H1 H2; [lia|].
  cbn [seq map]. rewrite qsum_cons. destruct (Nat.eqb_spec i s) as [->|Hne].
  - rewrite qsum_map_zero; [ring|]. intros j Hj. apply in_seq in Hj.
    destruct (Nat.eqb_spec s j); [lia|reflexivity].
  - rewrite IH by lia. ring.
Qed.

Theorem categorical_index_prob : forall (values : list Q) i, (i < length values)%nat ->
  prob (Nat.eqb i) (categorical (combine (seq 0 (length values)) values)) ==
  nth i values 0 / qsum values.
Proof.
  intros values i Hi. rewrite categorical_index_law, prob_as_sum, map_map. cbn [fst snd].
  apply (qsum_seq_point (fun j => nth j values 0 / qsum values) i (length values) 0); lia.
Qed.

Theorem bin_interval_prob : forall values i, qsum values == 1 -> (i < length values)%nat ->
  iv_len (bin_interval values i) ==
  prob (Nat.eqb i) (categorical (combine (seq 0 (length values)) values)).
Proof.
  intros values i H1 Hi. rewrite (categorical_index_prob values i Hi), (bin_interval_len values i Hi), H1.
  field.
Qed.

(* the bins cover (0, sum of the values]; 0 and the flips above the sum select nothing *)
Lemma which_bin_total_gen : forall vs lo u n,
  lo < u -> u <= lo + qsum vs -> exists i, which_bin (lo :: prefix_sums vs lo) u n = Some i.
Proof.
  induction vs as [|v vs IH]; intros lo u n H1 H2.
  - rewrite qsum_nil in H2. lra.
  - cbn [prefix_sums which_bin]. destruct (Qlt_bool lo u && Qle_bool u (lo + v)) eqn:E.
    + exists n. reflexivity.
    + apply (IH (lo + v) u (S n)).
      * apply andb_false_iff in E. destruct E as [E|E].
        -- exfalso. apply Lib_rk.Qlt_bool_iff in H1. congruence.
        -- destruct (Qlt_le_dec (lo + v) u) as [Hlt|Hle]; [exact Hlt|].
           apply Qle_bool_iff in Hle. congruence.
      * rewrite qsum_cons in H2. lra.
Qed.

Theorem which_bin_total : forall values u,
  0 < u -> u <= qsum values -> exists i, which_bin (bins_of values) u 0 = Some i.
Proof.
  intros values u H1 H2. unfold bins_of. apply which_bin_total_gen; lra.
Qed.

Theorem which_bin_outside : forall values u,
  Forall (fun v => 0 <= v) values -> u <= 0 \/ qsum values < u -> which_bin (bins_of values) u 0 = None.
Proof.
  intros values u Hnn H. destruct (which_bin (bins_of values) u 0) as [i|] eqn:E; [|reflexivity].
  exfalso. apply (which_bin_iff values u i Hnn) in E. destruct E as (Hi & Hlo & Hhi).
  pose proof (psum_nonneg values i Hnn) as H0.
  assert (Hle : psum values (S i) <= qsum values).
  { pose proof (qsum_firstn_skipn (S i) values) as Hs. unfold psum.
    assert (Hk : 0 <= qsum (skipn (S i) values)).
    { apply qsum_nonneg. apply Forall_forall. intros x Hx. rewrite Forall_forall in Hnn. apply Hnn.
      rewrite <- (firstn_skipn (S i) values). apply in_or_app. right. exact Hx. }
    lra. }
  destruct H as [H|H]; lra.
Qed.

(* ------------------------------------------------------------------ *)
(** * 2. The boxes of a loop state *)

(* the boxes after index i (slate b) was drawn: mirrors [types_branch] *)
Definition boxes_branch (n : nat) (blocs : list bloc) (values : list Q) (sizes : list (bloc * nat))
           (acc : list bloc) (i : nat) (b : bloc) : list box :=
  if Nat.eqb (count_bloc b (b :: acc)) (size_of sizes b)
  then
    if Qeq_bool (qsum (remove_nth i values)) 0 && nonempty (remove_nth i values)
    then [([], Shuffled (rev (b :: acc)) (type_remaining sizes (remove_nth i blocs)))]
    else type_boxes n (remove_nth i blocs)
           (map (fun v => v / qsum (remove_nth i values)) (remove_nth i values)) sizes (b :: acc)
  else type_boxes n blocs values sizes (b :: acc).

Lemma type_boxes_S : forall n blocs values sizes acc,
  type_boxes (S n) blocs values sizes acc =
  concat (map (fun i =>
    match nth_error blocs i with
    | None => []
    | Some b => map (push_front (bin_interval values i)) (boxes_branch n blocs values sizes acc i b)
    end) (seq 0 (length values))).
Proof. reflexivity. Qed.

Lemma type_boxes_S_in : forall n blocs values sizes acc bx,
  In bx (type_boxes (S n) blocs values sizes acc) <->
  exists i b ivs o, (i < length values)%nat /\ nth_error blocs i = Some b /\
    In (ivs, o) (boxes_branch n blocs values sizes acc i b) /\
    bx = (bin_interval values i :: ivs, o).
Proof.
  intros n blocs values sizes acc bx. rewrite type_boxes_S, in_concat. split.
  - intros (l & Hl & Hbx). apply in_map_iff in Hl. destruct Hl as (i & <- & Hi).
    apply in_seq in Hi. destruct (nth_error blocs i) as [b|] eqn:Eb; [|destruct Hbx].
    apply in_map_iff in Hbx. destruct Hbx as ([ivs o] & <- & Hin).
    exists i, b, ivs, o. split; [lia|]. split; [exact Eb|]. split; [exact Hin|reflexivity].
  - intros (i & b & ivs & o & Hi & Eb & Hin & ->).
    exists (map (push_front (bin_interval values i)) (boxes_branch n blocs values sizes acc i b)). split.
    + apply in_map_iff. exists i. rewrite Eb. split; [reflexivity|]. apply in_seq. lia.
    + apply in_map_iff. exists (ivs, o). split; [reflexivity|exact Hin].
Qed.

Lemma in_box_nil : forall flips, in_box flips [].
Proof. intros flips. unfold in_box. cbn [length firstn]. constructor. Qed.

Lemma in_box_cons : forall u rest iv ivs,
  in_box (u :: rest) (iv :: ivs) <-> in_interval u iv /\ in_box rest ivs.
Proof.
  intros u rest iv ivs. unfold in_box. cbn [length firstn]. split.
  - intros H. inversion H; subst. split; assumption.
  - intros [H1 H2]. constructor; assumption.
Qed.

Lemma in_box_nil_cons : forall iv ivs, ~ in_box [] (iv :: ivs).
Proof. intros iv ivs H. unfold in_box in H. cbn [length firstn] in H. inversion H. Qed.

Lemma Forall_remove_nth : forall (A : Type) (P : A -> Prop) i (l : list A),
  Forall P l -> Forall P (remove_nth i l).
Proof.
  intros A P i. induction i as [|i IH]; intros [|x l] H; cbn [remove_nth]; try constructor.
  - inversion H; assumption.
  - inversion H; assumption.
  - apply IH. inversion H; assumption.
Qed.

Lemma renorm_nonneg : forall values i,
  Forall (fun v => 0 <= v) values ->
  Qeq_bool (qsum (remove_nth i values)) 0 && nonempty (remove_nth i values) = false ->
  Forall (fun v => 0 <= v) (map (fun v => v / qsum (remove_nth i values)) (remove_nth i values)).
Proof.
  intros values i Hnn Ez. pose proof (Forall_remove_nth _ _ i values Hnn) as Hnn'.
  destruct (remove_nth i values) as [|x xs] eqn:Er; [constructor|].
  cbn [nonempty] in Ez. rewrite andb_true_r in Ez. apply Lib_rk.Qeq_bool_false_iff in Ez.
  pose proof (qsum_nonneg _ Hnn') as Hge.
  assert (Hp : 0 < qsum (x :: xs)).
  { destruct (Qlt_le_dec 0 (qsum (x :: xs))) as [Hp|Hq]; [exact Hp|].
    exfalso. apply Ez. apply Qle_antisym; assumption. }
  apply Forall_forall. intros w Hw. apply in_map_iff in Hw. destruct Hw as (w0 & <- & Hw0).
  rewrite Forall_forall in Hnn'. specialize (Hnn' w0 Hw0).
  apply Qle_shift_div_l; [exact Hp|]. lra.
Qed.

Lemma renorm_sum_one : forall values i,
  Qeq_bool (qsum (remove_nth i values)) 0 && nonempty (remove_nth i values) = false ->
  map (fun v => v / qsum (remove_nth i values)) (remove_nth i values) <> [] ->
  qsum (map (fun v => v / qsum (remove_nth i values)) (remove_nth i values)) == 1.
Proof.
  intros values i Ez Hne. destruct (remove_nth i values) as [|x xs] eqn:Er; [contradiction|].
  cbn [nonempty] in Ez. rewrite andb_true_r in Ez. apply Lib_rk.Qeq_bool_false_iff in Ez.
  apply renormalised_sum_one. exact Ez.
Qed.

(* ------------------------------------------------------------------ *)
(** * (A) the loop returns t exactly on the boxes whose outcome reads t *)

Theorem type_loop_boxes : forall sizes flips blocs values acc sh t calls,
  Forall (fun v => 0 <= v) values ->
  (type_loop flips blocs values sizes acc sh = inl (t, calls) <->
   exists bx, In bx (type_boxes (length flips) blocs values sizes acc) /\
     in_box flips (fst bx) /\ outcome_type (snd bx) sh t /\ calls = outcome_calls (snd bx)).
Proof.
  intros sizes flips. induction flips as [|flip rest IH]; intros blocs values acc sh t calls Hnn.
  - cbn [type_loop length type_boxes]. split.
    + intros H. injection H as <- <-. exists ([], Finished (rev acc)).
      split; [left; reflexivity|]. split; [apply in_box_nil|]. split; reflexivity.
    + intros (bx & [<-|[]] & _ & Ht & Hc). cbn [snd outcome_type outcome_calls] in Ht, Hc.
      subst. reflexivity.
  - cbn [length]. split.
    + intros H.
      destruct (which_bin (bins_of values) flip 0) as [i|] eqn:Ew;
        [|cbn [type_loop] in H; rewrite Ew in H; discriminate].
      destruct (nth_error blocs i) as [b|] eqn:Eb;
        [|cbn [type_loop] in H; rewrite Ew, Eb in H; discriminate].
      rewrite (type_loop_step flip rest blocs values sizes acc sh i b Ew Eb) in H.
      apply (which_bin_interval values flip i Hnn) in Ew. destruct Ew as (Hi & Hiv).
      assert (Hsub : exists ivs o, In (ivs, o) (boxes_branch (length rest) blocs values sizes acc i b) /\
                in_box rest ivs /\ outcome_type o sh t /\ calls = outcome_calls o).
      { unfold boxes_branch.
        destruct (Nat.eqb (count_bloc b (b :: acc)) (size_of sizes b)).
        - destruct (Qeq_bool (qsum (remove_nth i values)) 0 && nonempty (remove_nth i values)) eqn:Ez.
          + destruct sh as [s|]; [|discriminate]. injection H as <- <-.
            exists [], (Shuffled (rev (b :: acc)) (type_remaining sizes (remove_nth i blocs))).
            split; [left; reflexivity|]. split; [apply in_box_nil|].
            split; [exists s; split; reflexivity|reflexivity].
          + apply IH in H; [|apply renorm_nonneg; assumption].
            destruct H as ([ivs o] & Hin & Hb & Ht & Hc). exists ivs, o. repeat split; assumption.
        - apply IH in H; [|exact Hnn].
          destruct H as ([ivs o] & Hin & Hb & Ht & Hc). exists ivs, o. repeat split; assumption. }
      destruct Hsub as (ivs & o & Hin & Hb & Ht & Hc).
      exists (bin_interval values i :: ivs, o). split.
      * apply type_boxes_S_in. exists i, b, ivs, o. repeat split; assumption.
      * cbn [fst snd]. split; [apply in_box_cons; split; assumption|]. split; assumption.
    + intros (bx & Hin & Hb & Ht & Hc). apply type_boxes_S_in in Hin.
      destruct Hin as (i & b & ivs & o & Hi & Eb & Hin & ->). cbn [fst snd] in Hb, Ht, Hc.
      apply in_box_cons in Hb. destruct Hb as (Hiv & Hb).
      assert (Ew : which_bin (bins_of values) flip 0 = Some i).
      { apply (which_bin_interval values flip i Hnn). split; assumption. }
      rewrite (type_loop_step flip rest blocs values sizes acc sh i b Ew Eb).
      unfold boxes_branch in Hin.
      destruct (Nat.eqb (count_bloc b (b :: acc)) (size_of sizes b)).
      * destruct (Qeq_bool (qsum (remove_nth i values)) 0 && nonempty (remove_nth i values)) eqn:Ez.
        -- destruct Hin as [E|[]]. injection E as <- <-. cbn [outcome_type outcome_calls] in Ht, Hc.
           destruct Ht as (s & -> & ->). subst calls. reflexivity.
        -- apply IH; [apply renorm_nonneg; assumption|]. exists (ivs, o). repeat split; assumption.
      * apply IH; [exact Hnn|]. exists (ivs, o). repeat split; assumption.
Qed.

(* the box containing a flip vector is unique *)
Theorem type_boxes_disjoint : forall sizes n flips blocs values acc bx1 bx2,
  Forall (fun v => 0 <= v) values ->
  In bx1 (type_boxes n blocs values sizes acc) -> In bx2 (type_boxes n blocs values sizes acc) ->
  in_box flips (fst bx1) -> in_box flips (fst bx2) -> bx1 = bx2.
Proof.
  intros sizes n. induction n as [|n IH]; intros flips blocs values acc bx1 bx2 Hnn H1 H2 B1 B2.
  - cbn [type_boxes] in H1, H2. destruct H1 as [<-|[]]. destruct H2 as [<-|[]]. reflexivity.
  - apply type_boxes_S_in in H1. destruct H1 as (i1 & b1 & ivs1 & o1 & Hi1 & Eb1 & Hin1 & ->).
    apply type_boxes_S_in in H2. destruct H2 as (i2 & b2 & ivs2 & o2 & Hi2 & Eb2 & Hin2 & ->).
    cbn [fst] in B1, B2. destruct flips as [|u rest]; [exfalso; apply (in_box_nil_cons _ _ B1)|].
    apply in_box_cons in B1. destruct B1 as (Hiv1 & B1).
    apply in_box_cons in B2. destruct B2 as (Hiv2 & B2).
    assert (E1 : which_bin (bins_of values) u 0 = Some i1)
      by (apply (which_bin_interval values u i1 Hnn); split; assumption).
    assert (E2 : which_bin (bins_of values) u 0 = Some i2)
      by (apply (which_bin_interval values u i2 Hnn); split; assumption).
    rewrite E1 in E2. injection E2 as <-. rewrite Eb1 in Eb2. injection Eb2 as <-.
    assert (E : (ivs1, o1) = (ivs2, o2)).
    { unfold boxes_branch in Hin1, Hin2.
      destruct (Nat.eqb (count_bloc b1 (b1 :: acc)) (size_of sizes b1)).
      - destruct (Qeq_bool (qsum (remove_nth i1 values)) 0 && nonempty (remove_nth i1 values)) eqn:Ez.
        + destruct Hin1 as [<-|[]]. destruct Hin2 as [<-|[]]. reflexivity.
        + apply (IH rest _ _ _ _ _ (renorm_nonneg values i1 Hnn Ez) Hin1 Hin2 B1 B2).
      - apply (IH rest _ _ _ _ _ Hnn Hin1 Hin2 B1 B2). }
    injection E as <- <-. reflexivity.
Qed.

(* ------------------------------------------------------------------ *)
(** * (B) volumes: the boxes carry the law [law_types] *)

Lemma qsum_map_concat : forall {A} (f : A -> Q) (ls : list (list A)),
  qsum (map f (concat ls)) == qsum (map (fun l => qsum (map f l)) ls).
Proof.
  intros A f ls. induction ls as [|l ls IH]; [reflexivity|].
  cbn [concat map]. rewrite map_app, qsum_app, qsum_cons, IH. reflexivity.
Qed.

(* volume-weighted probability of an event over a list of boxes *)
Definition boxes_prob (ev : list bloc -> bool) (boxes : list box) : Q :=
  qsum (map (fun bx => box_volume (fst bx) * prob ev (outcome_law (snd bx))) boxes).

Lemma boxes_prob_push : forall ev iv boxes,
  boxes_prob ev (map (push_front iv) boxes) == iv_len iv * boxes_prob ev boxes.
Proof.
  intros ev iv boxes. unfold boxes_prob. rewrite map_map, <- qsum_map_scal.
  apply qsum_map_ext_in. intros [ivs o] _. unfold push_front. cbn [fst snd box_volume fold_right]. ring.
Qed.

Theorem boxes_prob_law : forall sizes (ev : list bloc -> bool) n blocs values acc,
  (values <> [] -> qsum values == 1) ->
  boxes_prob ev (type_boxes n blocs values sizes acc) == prob ev (law_types n blocs values sizes acc).
Proof.
  intros sizes ev n. induction n as [|n IH]; intros blocs values acc H1.
  - cbn [type_boxes law_types]. unfold boxes_prob. cbn [map fst snd box_volume fold_right outcome_law].
    rewrite qsum_cons, qsum_nil. ring.
  - rewrite type_boxes_S, law_types_S. unfold boxes_prob at 1. rewrite qsum_map_concat, map_map.
    rewrite prob_dbind, categorical_index_law, map_map. cbn [fst snd].
    apply qsum_map_ext_in. intros i Hi. apply in_seq in Hi.
    destruct (nth_error blocs i) as [b|] eqn:Eb; [|cbn [map]; rewrite prob_nil, qsum_nil; ring].
    fold (boxes_prob ev (map (push_front (bin_interval values i)) (boxes_branch n blocs values sizes acc i b))).
    rewrite boxes_prob_push, bin_interval_len by lia.
    assert (Hne : values <> []) by (intros ->; cbn [length] in Hi; lia).
    rewrite (H1 Hne).
    assert (Hbr : boxes_prob ev (boxes_branch n blocs values sizes acc i b) ==
                  prob ev (types_branch n blocs values sizes acc i b)).
    { unfold boxes_branch, types_branch.
      destruct (Nat.eqb (count_bloc b (b :: acc)) (size_of sizes b)).
      - destruct (Qeq_bool (qsum (remove_nth i values)) 0 && nonempty (remove_nth i values)) eqn:Ez.
        + unfold boxes_prob. cbn [map fst snd box_volume fold_right outcome_law].
          rewrite qsum_cons, qsum_nil. ring.
        + apply IH. apply renorm_sum_one. exact Ez.
      - apply IH. exact H1. }
    rewrite Hbr. field.
Qed.

(* the probability of a single type given an outcome *)
Lemma filter_unique_length : forall {A} (ev : A -> bool) (l : list A),
  NoDup l -> (forall a b, ev a = true -> ev b = true -> a = b) ->
  length (filter ev l) = if existsb ev l then 1%nat else 0%nat.
Proof.
  intros A ev l Hnd Hu. induction Hnd as [|a l Hnotin _ IH]; [reflexivity|].
  cbn [filter existsb]. destruct (ev a) eqn:Ea; cbn [orb length]; [|exact IH].
  rewrite IH. destruct (existsb ev l) eqn:Ex; [|reflexivity].
  apply existsb_exists in Ex. destruct Ex as (c & Hc & Ec). rewrite (Hu a c Ea Ec) in Hnotin. contradiction.
Qed.

Theorem outcome_law_point : forall t o, prob (list_peqb t) (outcome_law o) == outcome_weight t o.
Proof.
  intros t [t'|p rem]; cbn [outcome_law outcome_weight].
  - apply prob_dret.
  - rewrite (prob_dbind_dret (list_peqb t) _ (fun s => p ++ s)), prob_uniform_of.
    rewrite (filter_unique_length (fun s => list_peqb t (p ++ s)) _ (arrangements_NoDup rem)).
    + destruct (existsb (fun s => list_peqb t (p ++ s)) (arrangements_ms rem)).
      * change (Qnat 1) with 1. reflexivity.
      * rewrite Qnat_0. unfold Qdiv. ring.
    + intros a b Ha Hb.
      destruct (list_peqb_reflect t (p ++ a)) as [Ea|]; [|discriminate].
      destruct (list_peqb_reflect t (p ++ b)) as [Eb|]; [|discriminate].
      rewrite Ea in Eb. apply app_inv_head in Eb. exact Eb.
Qed.

Theorem type_volume_law : forall sizes t n blocs values acc,
  (values <> [] -> qsum values == 1) ->
  type_volume t (type_boxes n blocs values sizes acc) ==
  prob (list_peqb t) (law_types n blocs values sizes acc).
Proof.
  intros sizes t n blocs values acc H1.
  rewrite <- (boxes_prob_law sizes (list_peqb t) n blocs values acc H1).
  unfold type_volume, boxes_prob. apply qsum_map_ext_in. intros [ivs o] _. cbn [fst snd].
  rewrite outcome_law_point. reflexivity.
Qed.

(* the boxes fill the cube: total volume 1 on the reachable loop states *)
Lemma mass_outcome_law : forall o, mass (outcome_law o) == 1.
Proof.
  intros [t|p rem]; cbn [outcome_law]; [apply mass_dret|].
  rewrite mass_dbind_one; [|intros s q _; apply mass_dret].
  apply mass_uniform_of. apply arrangements_nonempty.
Qed.

Theorem type_boxes_total_volume : forall sizes n blocs values acc,
  NoDup blocs -> length blocs = length values ->
  Forall (fun v => 0 <= v) values ->
  (blocs <> [] -> qsum values == 1) ->
  (forall b, In b blocs -> (count_bloc b acc < size_of sizes b)%nat) ->
  n = list_sum (map (fun b => size_of sizes b - count_bloc b acc)%nat blocs) ->
  qsum (map (fun bx => box_volume (fst bx)) (type_boxes n blocs values sizes acc)) == 1.
Proof.
  intros sizes n blocs values acc Hnd Hlen Hnn H1 Hlt Hn.
  assert (H1' : values <> [] -> qsum values == 1).
  { intros Hne. apply H1. intros ->. cbn [length] in Hlen. destruct values; [contradiction|discriminate]. }
  rewrite <- (law_types_mass sizes n blocs values acc Hnd Hlen Hnn) by
    (try assumption; intros Hne; rewrite (H1 Hne); reflexivity).
  rewrite <- prob_true, <- (boxes_prob_law sizes (fun _ => true) n blocs values acc H1').
  unfold boxes_prob. apply qsum_map_ext_in. intros [ivs o] _. cbn [fst snd].
  rewrite prob_true, mass_outcome_law. ring.
Qed.

(* side lengths, hence volumes, are non-negative *)
Theorem type_boxes_volume_nonneg : forall sizes n blocs values acc bx,
  Forall (fun v => 0 <= v) values ->
  In bx (type_boxes n blocs values sizes acc) -> 0 <= box_volume (fst bx).
Proof.
  intros sizes n. induction n as [|n IH]; intros blocs values acc bx Hnn Hin.
  - cbn [type_boxes] in Hin. destruct Hin as [<-|[]]. cbn [fst box_volume fold_right]. lra.
  - apply type_boxes_S_in in Hin. destruct Hin as (i & b & ivs & o & Hi & Eb & Hin & ->).
    cbn [fst box_volume fold_right]. fold (box_volume ivs).
    apply Qmult_le_0_compat.
    + rewrite (bin_interval_len values i Hi). rewrite Forall_forall in Hnn. apply Hnn. apply nth_In. exact Hi.
    + unfold boxes_branch in Hin.
      destruct (Nat.eqb (count_bloc b (b :: acc)) (size_of sizes b)).
      * destruct (Qeq_bool (qsum (remove_nth i values)) 0 && nonempty (remove_nth i values)) eqn:Ez.
        -- destruct Hin as [E|[]]. injection E as <- _. cbn [box_volume fold_right]. lra.
        -- apply (IH _ _ _ (ivs, o) (renorm_nonneg values i Hnn Ez) Hin).
      * apply (IH _ _ _ (ivs, o) Hnn Hin).
Qed.

(* every flip vector of (0,1]^n lies in a box, on the reachable loop states: the loop can only
   fail on a flip equal to 0 *)
Theorem type_boxes_cover : forall sizes n flips blocs values acc,
  NoDup blocs -> length blocs = length values ->
  Forall (fun v => 0 <= v) values ->
  (blocs <> [] -> qsum values == 1) ->
  (forall b, In b blocs -> (count_bloc b acc < size_of sizes b)%nat) ->
  n = list_sum (map (fun b => size_of sizes b - count_bloc b acc)%nat blocs) ->
  length flips = n -> Forall (fun u => 0 < u /\ u <= 1) flips ->
  exists bx, In bx (type_boxes n blocs values sizes acc) /\ in_box flips (fst bx).
Proof.
  intros sizes n. induction n as [|n IH]; intros flips blocs values acc Hnd Hlen Hnn H1 Hlt Hn Hfl Hu.
  - exists ([], Finished (rev acc)). split; [left; reflexivity|apply in_box_nil].
  - change (S n = rem sizes blocs acc) in Hn.
    destruct flips as [|u rest]; [discriminate|]. cbn [length] in Hfl.
    inversion Hu as [|u' rest' (Hu0 & Hu1) Hrest]; subst u' rest'.
    assert (Hne : blocs <> []) by (intros ->; cbn in Hn; discriminate).
    pose proof (H1 Hne) as HW.
    destruct (which_bin_total values u Hu0 ltac:(lra)) as (i & Ew).
    apply (which_bin_interval values u i Hnn) in Ew. destruct Ew as (Hi & Hiv).
    pose proof (nth_error_nth0 values i Hi) as Ex. set (x := nth i values 0) in Ex.
    destruct (nth_error_same_length _ _ blocs values i x Hlen Ex) as (b & Eb).
    destruct (step_decomp blocs i b Hnd Eb) as (l1 & l2 & Hb & Hl1 & Hrb & Hb1 & Hb2 & Hnd').
    destruct (nth_error_decomp _ values i x Ex) as (m1 & m2 & Hv & Hm1 & Hrv).
    assert (Hlen' : length (l1 ++ l2) = length (m1 ++ m2)).
    { rewrite Hb, Hv, !app_length in Hlen. cbn [length] in Hlen. rewrite !app_length. lia. }
    assert (Hsub : exists ivs o, In (ivs, o) (boxes_branch n blocs values sizes acc i b) /\ in_box rest ivs).
    { unfold boxes_branch.
      destruct (Nat.eqb_spec (count_bloc b (b :: acc)) (size_of sizes b)) as [Hfull|Hroom].
      - destruct (Qeq_bool (qsum (remove_nth i values)) 0 && nonempty (remove_nth i values)) eqn:Ez.
        + eexists [], _. split; [left; reflexivity|apply in_box_nil].
        + pose proof (renorm_nonneg values i Hnn Ez) as Hnn''.
          pose proof (renorm_sum_one values i Ez) as Hone.
          rewrite Hb in Hlt, Hn.
          destruct (step_full sizes l1 l2 b acc n Hb1 Hb2 Hlt Hn Hfull) as (Hlt' & Hn').
          rewrite Hrb in *. rewrite Hrv in *.
          destruct (IH rest (l1 ++ l2) (map (fun v => v / qsum (m1 ++ m2)) (m1 ++ m2)) (b :: acc))
            as ([ivs o] & Hin & Hbx); try assumption.
          * rewrite map_length. exact Hlen'.
          * intros Hne'. apply Hone. intros E. apply Hne'. apply length_zero_iff_nil.
            rewrite Hlen', <- (map_length (fun v => v / qsum (m1 ++ m2))), E. reflexivity.
          * lia.
          * exists ivs, o. split; assumption.
      - pose proof Hlt as Hlt0. pose proof Hn as Hn0. rewrite Hb in Hlt0, Hn0.
        destruct (step_room sizes l1 l2 b acc n Hb1 Hb2 Hlt0 Hn0 Hroom) as (Hlt' & Hn').
        rewrite <- Hb in Hlt', Hn'.
        destruct (IH rest blocs values (b :: acc)) as ([ivs o] & Hin & Hbx); try assumption; [lia|].
        exists ivs, o. split; assumption. }
    destruct Hsub as (ivs & o & Hin & Hbx).
    exists (bin_interval values i :: ivs, o). split.
    + apply type_boxes_S_in. exists i, b, ivs, o. repeat split; assumption.
    + cbn [fst]. apply in_box_cons. split; assumption.
Qed.
