(* Proofs/Lib_condense.v — reusable facts about [acc_add] / [condense_bs]:
   every condensed ballot carries the ranking and scores of an input ballot, and any
   weight-linear quantity that does not distinguish ballots with matching keys is preserved. *)
From VK Require Import Base Core.
From VK.Proofs Require Import Lib_sets.
From Coq Require Import Permutation Lia Lqa Setoid Morphisms.

Section Condense.
Variable cand : Type.
Variable ceqb : cand -> cand -> bool.

Notation ballot := (ballot cand).
Notation ranking := (ranking cand).
Notation scores := (scores cand).
Notation acc_add := (acc_add cand ceqb).
Notation condense_bs := (condense_bs cand ceqb).
Notation key_match := (key_match cand ceqb).

(* ---------- provenance ---------- *)

Lemma acc_add_origin : forall (acc : list ballot) b k, In k (acc_add acc b) ->
  (exists k0, In k0 acc /\ rk k = rk k0 /\ sc k = sc k0) \/ (rk k = rk b /\ sc k = sc b).
Proof.
  induction acc as [|a acc IH]; intros b k H.
  - cbn [Core.acc_add] in H. destruct H as [<-|[]]. right. split; reflexivity.
  - cbn [Core.acc_add] in H. destruct (key_match a b).
    + destruct H as [<-|H].
      * left. exists a. split; [left; reflexivity|split; reflexivity].
      * left. exists k. split; [right; exact H|split; reflexivity].
    + destruct H as [<-|H].
      * left. exists a. split; [left; reflexivity|split; reflexivity].
      * destruct (IH b k H) as [[k0 [Hk0 Heq]]|Heq].
        -- left. exists k0. split; [right; exact Hk0|exact Heq].
        -- right. exact Heq.
Qed.

Lemma fold_acc_add_origin : forall (bs acc : list ballot) k, In k (fold_left acc_add bs acc) ->
  exists b, (In b acc \/ In b bs) /\ rk k = rk b /\ sc k = sc b.
Proof.
  induction bs as [|b bs IH]; intros acc k H.
  - cbn [fold_left] in H. exists k. split; [left; exact H|split; reflexivity].
  - cbn [fold_left] in H. destruct (IH _ k H) as [b0 [[Hb0|Hb0] [Hrk Hsc]]].
    + destruct (acc_add_origin acc b b0 Hb0) as [[k0 [Hk0 [Hrk0 Hsc0]]]|[Hrk0 Hsc0]].
      * exists k0. split; [left; exact Hk0|]. split; congruence.
      * exists b. split; [right; left; reflexivity|]. split; congruence.
    + exists b0. split; [right; right; exact Hb0|]. split; assumption.
Qed.

(* every condensed ballot has the ranking and the scores of some input ballot *)
Lemma condense_bs_origin : forall (bs : list ballot) k, In k (condense_bs bs) ->
  exists b, In b bs /\ rk k = rk b /\ sc k = sc b.
Proof.
  intros bs k H. unfold Core.condense_bs in H.
  destruct (fold_acc_add_origin bs [] k H) as [b [[[]|Hb] Heq]]. exists b. split; assumption.
Qed.

Lemma condense_bs_Forall : forall (P : ranking -> scores -> Prop) (bs : list ballot),
  Forall (fun b => P (rk b) (sc b)) bs -> Forall (fun b => P (rk b) (sc b)) (condense_bs bs).
Proof.
  intros P bs H. rewrite Forall_forall in H |- *. intros k Hk.
  destruct (condense_bs_origin bs k Hk) as [b [Hb [-> ->]]]. apply H. exact Hb.
Qed.

(* conversely every input ballot is represented *)
Lemma acc_add_keeps_len : forall (acc : list ballot) b, acc_add acc b <> [].
Proof.
  intros [|a acc] b; cbn [Core.acc_add]; [discriminate|]. destruct (key_match a b); discriminate.
Qed.

(* ---------- preserved sums ---------- *)

Section Sum.
Variable P : ranking -> scores -> Prop.
Variable g : ranking -> scores -> Q.
Hypothesis g_compat : forall k b : ballot,
  P (rk k) (sc k) -> P (rk b) (sc b) -> key_match k b = true -> g (rk k) (sc k) == g (rk b) (sc b).

Definition wsum (bs : list ballot) : Q := qsum (map (fun b => wt b * g (rk b) (sc b)) bs).

Lemma wsum_cons : forall b bs, wsum (b :: bs) = wt b * g (rk b) (sc b) + wsum bs.
Proof. reflexivity. Qed.

Lemma acc_add_wsum : forall (acc : list ballot) b,
  Forall (fun k => P (rk k) (sc k)) acc -> P (rk b) (sc b) ->
  wsum (acc_add acc b) == wsum acc + wt b * g (rk b) (sc b).
Proof.
  induction acc as [|a acc IH]; intros b Hacc Hb.
  - cbn [Core.acc_add]. rewrite wsum_cons. cbn [rk wt sc]. unfold wsum. cbn [map]. rewrite qsum_nil. ring.
  - inversion Hacc as [|x l Ha Hacc']; subst. cbn [Core.acc_add].
    destruct (key_match a b) eqn:Hk.
    + rewrite !wsum_cons. cbn [rk wt sc]. rewrite <- (g_compat a b Ha Hb Hk). ring.
    + rewrite !wsum_cons, IH by assumption. ring.
Qed.

Lemma acc_add_P : forall (acc : list ballot) b,
  Forall (fun k => P (rk k) (sc k)) acc -> P (rk b) (sc b) ->
  Forall (fun k => P (rk k) (sc k)) (acc_add acc b).
Proof.
  intros acc b Hacc Hb. rewrite Forall_forall in Hacc |- *. intros k Hk.
  destruct (acc_add_origin acc b k Hk) as [[k0 [Hk0 [-> ->]]]|[-> ->]]; [apply Hacc; exact Hk0|exact Hb].
Qed.

Lemma fold_acc_add_wsum : forall (bs acc : list ballot),
  Forall (fun k => P (rk k) (sc k)) acc -> Forall (fun k => P (rk k) (sc k)) bs ->
  wsum (fold_left acc_add bs acc) == wsum acc + wsum bs.
Proof.
  induction bs as [|b bs IH]; intros acc Hacc Hbs.
  - cbn [fold_left]. unfold wsum at 3. cbn [map]. rewrite qsum_nil. ring.
  - inversion Hbs as [|x l Hb Hbs']; subst. cbn [fold_left].
    rewrite IH; [|apply acc_add_P; assumption|assumption].
    rewrite acc_add_wsum by assumption. rewrite wsum_cons. ring.
Qed.

(* condensing preserves every weight-linear sum Σ_b wt b · g(b) whose summand does not
   distinguish ballots with matching keys *)
Theorem condense_bs_wsum : forall bs : list ballot,
  Forall (fun k => P (rk k) (sc k)) bs -> wsum (condense_bs bs) == wsum bs.
Proof.
  intros bs H. unfold Core.condense_bs. rewrite fold_acc_add_wsum; [|constructor|exact H].
  unfold wsum at 1. cbn [map]. rewrite qsum_nil. ring.
Qed.

End Sum.

Theorem condense_bs_total_wt : forall bs : list ballot,
  total_wt cand (condense_bs bs) == total_wt cand bs.
Proof.
  intros bs. unfold Core.total_wt.
  pose proof (condense_bs_wsum (fun _ _ => True) (fun _ _ => 1)) as H.
  unfold wsum in H.
  assert (Hm : forall l : list ballot, qsum (map wt l) == qsum (map (fun b => wt b * 1) l)).
  { intros l. apply qsum_map_ext_in. intros a _. ring. }
  rewrite !Hm. apply H.
  - intros k b _ _ _. reflexivity.
  - apply Forall_forall. intros x _. exact I.
Qed.

End Condense.
