(* Proofs/C18_scot.v — complete outcome analysis of load_scottish (Model/Loaders.v): for every
   input, which of success / EIndex / EData / EType / EOther / EValue / EKey is returned, with an
   exact condition for each (vocabulary: Spec/ScotOutcomeSpec.v).  Statements: Properties/C18_scot.v *)
From VK Require Import Base Core Loaders.
From VK.Spec Require Import LoaderSpec ScotOutcomeSpec.
From VK.Proofs Require Import Lib_rk Lib_sets C18_loaders.
From Coq Require Import Lia.

#[local] Arguments TEmpty {cand}.
#[local] Arguments TNum {cand}.
#[local] Arguments TStr {cand}.

(* ---------- generic: first failure of a loop ---------- *)

Lemma ff_exhaust : forall (A : Type) (good bad : A -> Prop) (l : list A),
  (forall x, In x l -> good x \/ bad x) -> Forall good l \/ first_fail good bad l.
Proof.
  intros A good bad l. induction l as [|a l IH]; intros H; [left; constructor|].
  destruct (H a (or_introl eq_refl)) as [Ha|Ha].
  - destruct IH as [IH|(pre & x & post & -> & Hpre & Hx)].
    + intros x Hx. apply H. right. exact Hx.
    + left. constructor; assumption.
    + right. exists (a :: pre), x, post. split; [reflexivity|]. split; [constructor; assumption|exact Hx].
  - right. exists [], a, l. split; [reflexivity|]. split; [constructor|exact Ha].
Qed.

Lemma rmap_first_fail : forall (A B : Type) (f : A -> res B) (good bad : A -> Prop) (l : list A) (e : exn),
  (forall x, good x -> exists y, f x = inl y) -> (forall x, bad x -> f x = inr e) ->
  first_fail good bad l -> rmap f l = inr e.
Proof.
  intros A B f good bad l e Hg Hb (pre & x & post & -> & Hpre & Hx).
  apply rmap_err_inv. exists pre, x, post. split; [reflexivity|]. split; [apply Hb; exact Hx|].
  intros y Hy. apply Hg. rewrite Forall_forall in Hpre. apply Hpre. exact Hy.
Qed.

Lemma first_fail_In : forall (A : Type) (good bad : A -> Prop) (l : list A),
  first_fail good bad l -> exists x, In x l /\ bad x.
Proof.
  intros A good bad l (pre & x & post & -> & _ & Hx). exists x. split; [|exact Hx].
  apply in_or_app. right. left. reflexivity.
Qed.

Lemma Forall_Exists_not : forall (A : Type) (P : A -> Prop) (l : list A),
  Forall P l -> Exists (fun x => ~ P x) l -> False.
Proof.
  intros A P l HF HE. apply Exists_exists in HE. destruct HE as (x & Hin & Hn).
  rewrite Forall_forall in HF. exact (Hn (HF x Hin)).
Qed.

Lemma Forall_or_Exists_not : forall (A : Type) (P : A -> Prop) (l : list A),
  (forall x, P x \/ ~ P x) -> Forall P l \/ Exists (fun x => ~ P x) l.
Proof.
  intros A P l Hd. induction l as [|a l IH]; [left; constructor|].
  destruct (Hd a) as [Ha|Ha]; [|right; apply Exists_cons_hd; exact Ha].
  destruct IH as [IH|IH]; [left; constructor; assumption|right; apply Exists_cons_tl; exact IH].
Qed.

Lemma firstn_incl : forall (A : Type) (n : nat) (l : list A) x, In x (firstn n l) -> In x l.
Proof. intros A n l x H. rewrite <- (firstn_skipn n l). apply in_or_app. left. exact H. Qed.

Lemma skipn_incl : forall (A : Type) (n : nat) (l : list A) x, In x (skipn n l) -> In x l.
Proof. intros A n l x H. rewrite <- (firstn_skipn n l). apply in_or_app. right. exact H. Qed.

Lemma py_slice_incl : forall (A : Type) (l : list A) a b x, In x (py_slice l a b) -> In x l.
Proof. intros A l a b x H. unfold py_slice in H. apply firstn_incl in H. apply skipn_incl in H. exact H. Qed.

Lemma filter_length_le' : forall (A : Type) (p : A -> bool) (l : list A), (length (filter p l) <= length l)%nat.
Proof.
  intros A p l. induction l as [|a l IH]; [apply le_n|]. cbn [filter]. destruct (p a); cbn [length]; lia.
Qed.

Lemma tl_firstn : forall (A : Type) (n : nat) (l : list A), tl (firstn (S n) l) = firstn n (skipn 1 l).
Proof. intros A n [|x l]; [destruct n; reflexivity|reflexivity]. Qed.

Section WithCand.
Variable cand : Type.
Variable ceqb : cand -> cand -> bool.
Hypothesis ceqb_spec : forall a b, reflect (a = b) (ceqb a b).

Notation tok := (tok cand).
Notation ballot := (ballot cand).
Notation load_scottish := (load_scottish cand ceqb).
Notation scot_clean := (scot_clean cand).
Notation scot_counted := (scot_counted cand).
Notation scot_ranking := (scot_ranking cand).
Notation tok_has_word := (tok_has_word cand).
Notation scot_entry := (scot_entry cand).
Notation scot_line := (scot_line cand).
Notation scot_tail := (scot_tail cand ceqb).
Notation scot_body := (scot_body cand ceqb).
Notation dedup := (dedup cand ceqb).
Notation mk_profile := (mk_profile cand ceqb).
Notation condense_bs := (condense_bs cand ceqb).
Notation blank_row := (blank_row cand).
Notation scot_all_blank := (scot_all_blank cand).
Notation scot_header_ok := (scot_header_ok cand).
Notation scot_header_bad := (scot_header_bad cand).
Notation scot_cand_lines := (scot_cand_lines cand).
Notation scot_ballot_lines := (scot_ballot_lines cand).
Notation scot_ward := (scot_ward cand).
Notation cline_ok := (cline_ok cand).
Notation cline_etype := (cline_etype cand).
Notation cline_edata := (cline_edata cand).
Notation cline_eindex := (cline_eindex cand).
Notation cline_eother := (cline_eother cand).
Notation cline_entries := (cline_entries cand).
Notation cline_names := (cline_names cand).
Notation entry_ok := (entry_ok cand).
Notation bline_ok := (bline_ok cand).
Notation bline_evalue := (bline_evalue cand).
Notation bline_ekey := (bline_ekey cand).
Notation tok_num := (tok_num cand).
Notation bline_ballot := (bline_ballot cand).
Notation scot_cand_fail := (scot_cand_fail cand).
Notation scot_ballot_fail := (scot_ballot_fail cand).
Notation scot_all_ok := (scot_all_ok cand).
Notation scot_value := (scot_value cand ceqb).

(* ---------- cleaned data ---------- *)

Definition clean_line (line : list tok) : Prop := line <> [] /\ ~ In TEmpty line.
Definition clean_data (data : list (list tok)) : Prop := forall r, In r data -> clean_line r.

Notation tokf := (fun t : tok => match t with TEmpty => false | _ => true end).

Lemma scot_clean_clean : forall raw, clean_data (scot_clean raw).
Proof.
  intros raw r H. unfold LoaderSpec.scot_clean in H. apply filter_In in H. destruct H as [H Hne].
  split; [destruct r; [discriminate|discriminate]|].
  apply in_map_iff in H. destruct H as (x & <- & _). intros Hin. apply filter_In in Hin.
  destruct Hin as [_ Hin]. discriminate.
Qed.

Lemma filter_nil_blank : forall r : list tok, filter tokf r = [] <-> blank_row r.
Proof.
  intros r. unfold ScotOutcomeSpec.blank_row. induction r as [|t r IH]; [split; [constructor|reflexivity]|].
  cbn [filter]. destruct t as [|z|s b].
  - rewrite IH. split; [intros H; constructor; [reflexivity|exact H]|intros H; inversion H; assumption].
  - split; [discriminate|]. intros H. inversion H; discriminate.
  - split; [discriminate|]. intros H. inversion H; discriminate.
Qed.

Lemma scot_clean_nil_iff : forall raw, scot_clean raw = [] <-> scot_all_blank raw.
Proof.
  intros raw. unfold ScotOutcomeSpec.scot_all_blank. induction raw as [|r raw IH]; [split; [constructor|reflexivity]|].
  unfold LoaderSpec.scot_clean. cbn [map filter]. fold (scot_clean raw).
  destruct (filter tokf r) as [|t l] eqn:E; cbn [nonempty].
  - rewrite IH. apply filter_nil_blank in E.
    split; [intros H; constructor; assumption|intros H; inversion H; assumption].
  - split; [discriminate|]. intros H. inversion H as [|x y Hr _]; subst.
    apply filter_nil_blank in Hr. rewrite Hr in E. discriminate.
Qed.

(* ---------- one row of the candidate block ---------- *)

Definition cbad (e : exn) : list tok -> Prop :=
  match e with
  | EType => cline_etype | EData => cline_edata | EIndex => cline_eindex | EOther => cline_eother
  | _ => fun _ => False
  end.

Lemma cline_ok_entry : forall line, cline_ok line ->
  exists y, scot_entry line = inl y /\ cline_entries [line] = [y].
Proof.
  intros line (lab & name & b & party & rest & ->). exists (name, party). split; reflexivity.
Qed.

Lemma cbad_entry : forall e line, cbad e line -> scot_entry line = inr e.
Proof.
  intros e line H. destruct e; cbn [cbad] in H; try contradiction.
  - destruct H as (z & rest & ->). reflexivity.
  - destruct H as (lab & [->|(x & ->)]); [reflexivity|]. destruct x; reflexivity.
  - destruct H as (s & rest & ->). reflexivity.
  - destruct H as (lab & z & party & rest & ->). reflexivity.
Qed.

Lemma cline_cases : forall line, clean_line line -> cline_ok line \/ exists e, cbad e line.
Proof.
  intros [|t rest] [Hne Hnb]; [contradiction Hne; reflexivity|].
  destruct t as [|z|s b].
  - contradiction Hnb. left. reflexivity.
  - right. exists EType. exists z, rest. reflexivity.
  - destruct b; [|right; exists EData; exists s, rest; reflexivity].
    destruct rest as [|x [|party rest]].
    + right. exists EIndex. exists s. left. reflexivity.
    + right. exists EIndex. exists s. right. exists x. reflexivity.
    + destruct x as [|z|name b].
      * contradiction Hnb. right. left. reflexivity.
      * right. exists EOther. exists s, z, party, rest. reflexivity.
      * left. exists s, name, b, party, rest. reflexivity.
Qed.

Lemma entries_ok : forall lines, Forall cline_ok lines ->
  rmap scot_entry lines = inl (cline_entries lines) /\ length (cline_entries lines) = length lines.
Proof.
  intros lines H. induction H as [|line lines Hl _ [IH1 IH2]]; [split; reflexivity|].
  destruct (cline_ok_entry line Hl) as (y & Hy & Hy').
  assert (E : cline_entries (line :: lines) = y :: cline_entries lines).
  { assert (E1 : cline_entries (line :: lines) = cline_entries [line] ++ cline_entries lines)
      by (unfold ScotOutcomeSpec.cline_entries; cbn [flat_map]; rewrite app_nil_r; reflexivity).
    rewrite E1, Hy'. reflexivity. }
  rewrite E. cbn [rmap]. rewrite Hy, IH1. cbn [rbind ok length]. rewrite IH2. split; reflexivity.
Qed.

(* ---------- one ballot row ---------- *)

Notation entryf names :=
  (fun t : tok => match t with
                  | TNum i => match nth_error names (Z.to_nat (i - 1)) with
                              | Some c => if (1 <=? i)%Z then ok [c] else err EKey
                              | None => err EKey
                              end
                  | _ => err EKey
                  end).

Definition bbad (k : Z) (e : exn) : list tok -> Prop :=
  match e with EValue => bline_evalue | EKey => bline_ekey k | _ => fun _ => False end.

Lemma entry_ok_dec : forall k t, entry_ok k t \/ ~ entry_ok k t.
Proof.
  intros k t. destruct t as [|i|s b].
  - right. intros (i & H & _). discriminate.
  - destruct (Z_le_dec 1 i) as [H1|H1]; [destruct (Z_le_dec i k) as [H2|H2]|].
    + left. exists i. split; [reflexivity|lia].
    + right. intros (j & H & Hr). injection H as <-. lia.
    + right. intros (j & H & Hr). injection H as <-. lia.
  - right. intros (i & H & _). discriminate.
Qed.

Lemma entryf_ok : forall (names : list cand) k t, Z.of_nat (length names) = k -> entry_ok k t ->
  exists c, entryf names t = inl [c] /\ scot_ranking names [tok_num t] = [[c]].
Proof.
  intros names k t Hk (i & -> & Hi). cbn [ScotOutcomeSpec.tok_num].
  unfold LoaderSpec.scot_ranking. cbn [flat_map].
  destruct (nth_error names (Z.to_nat (i - 1))) as [c|] eqn:E.
  - exists c. assert (Hle : (1 <=? i)%Z = true) by (apply Z.leb_le; lia). rewrite Hle. split; reflexivity.
  - apply nth_error_None in E. lia.
Qed.

Lemma entryf_bad : forall (names : list cand) k t, Z.of_nat (length names) = k -> ~ entry_ok k t ->
  entryf names t = inr EKey.
Proof.
  intros names k t Hk Hn. destruct t as [|i|s b]; try reflexivity.
  destruct (nth_error names (Z.to_nat (i - 1))) as [c|] eqn:E; [|reflexivity].
  destruct (1 <=? i)%Z eqn:Hle; [|reflexivity].
  exfalso. apply Hn. exists i. split; [reflexivity|]. apply Z.leb_le in Hle.
  assert (Hlt : (Z.to_nat (i - 1) < length names)%nat) by (apply nth_error_Some; rewrite E; discriminate).
  lia.
Qed.

Lemma order_ok : forall (names : list cand) k order, Z.of_nat (length names) = k ->
  Forall (entry_ok k) order -> rmap (entryf names) order = inl (scot_ranking names (map tok_num order)).
Proof.
  intros names k order Hk H. induction H as [|t order Ht _ IH]; [reflexivity|].
  destruct (entryf_ok names k t Hk Ht) as (c & Hc & Hr).
  cbn [rmap map]. rewrite Hc, IH. cbn [rbind ok].
  assert (E1 : scot_ranking names (tok_num t :: map tok_num order)
               = scot_ranking names [tok_num t] ++ scot_ranking names (map tok_num order))
    by (unfold LoaderSpec.scot_ranking; cbn [flat_map]; rewrite app_nil_r; reflexivity).
  rewrite E1, Hr. reflexivity.
Qed.

Lemma order_bad : forall (names : list cand) k order, Z.of_nat (length names) = k ->
  Exists (fun t => ~ entry_ok k t) order -> rmap (entryf names) order = inr EKey.
Proof.
  intros names k order Hk H. induction order as [|t order IH]; [inversion H|].
  cbn [rmap]. destruct (entry_ok_dec k t) as [Ht|Ht].
  - destruct (entryf_ok names k t Hk Ht) as (c & Hc & _). rewrite Hc. cbn [rbind].
    inversion H as [x l Hx|x l Hl]; subst; [contradiction|]. rewrite (IH Hl). reflexivity.
  - rewrite (entryf_bad names k t Hk Ht). reflexivity.
Qed.

Lemma bline_ok_line : forall (names : list cand) k line, Z.of_nat (length names) = k -> bline_ok k line ->
  scot_line names line = inl (bline_ballot names line).
Proof.
  intros names k line Hk (w & order & -> & Ho). cbn [C18_loaders.scot_line ScotOutcomeSpec.bline_ballot].
  rewrite (order_ok names k order Hk Ho). reflexivity.
Qed.

Lemma bbad_line : forall (names : list cand) k e line, Z.of_nat (length names) = k -> bbad k e line ->
  scot_line names line = inr e.
Proof.
  intros names k e line Hk H. destruct e; cbn [bbad] in H; try contradiction.
  - destruct H as (s & b & rest & ->). reflexivity.
  - destruct H as (w & order & -> & Ho). cbn [C18_loaders.scot_line].
    rewrite (order_bad names k order Hk Ho). reflexivity.
Qed.

Lemma bline_cases : forall k line, clean_line line -> bline_ok k line \/ exists e, bbad k e line.
Proof.
  intros k [|t order] [Hne Hnb]; [contradiction Hne; reflexivity|].
  destruct t as [|w|s b].
  - contradiction Hnb. left. reflexivity.
  - destruct (Forall_or_Exists_not tok (entry_ok k) order (entry_ok_dec k)) as [H|H].
    + left. exists w, order. split; [reflexivity|exact H].
    + right. exists EKey. exists w, order. split; [reflexivity|exact H].
  - right. exists EValue. exists s, b, order. reflexivity.
Qed.

(* ---------- the metadata row and the two slices ---------- *)

Lemma header_range : forall data k seats, scot_header_ok data k seats ->
  (0 <= k <= Z.of_nat (length data) - 1)%Z.
Proof.
  intros data k seats ((rest & ->) & Hc). unfold LoaderSpec.scot_counted in Hc.
  cbn [filter Loaders.tok_has_word] in Hc. cbn [length].
  pose proof (filter_length_le' _ (fun r : list tok => match r with t :: _ => tok_has_word t | [] => false end) rest).
  lia.
Qed.

Lemma header_unique : forall data k seats k' seats',
  scot_header_ok data k seats -> scot_header_ok data k' seats' -> k = k' /\ seats = seats'.
Proof.
  intros data k seats k' seats' ((rest & H) & _) ((rest' & H') & _). rewrite H in H'.
  injection H' as <- <- _. split; reflexivity.
Qed.

Lemma header_not_bad : forall data k seats, scot_header_ok data k seats -> ~ scot_header_bad data.
Proof.
  intros data k seats ((rest & H) & Hc) (first & rest' & H' & Hb). rewrite H in H'. injection H' as <- <-.
  destruct Hb as [Hb|[(cn & s & Hb & Hn)|(k' & s & Hb & Hn)]].
  - apply Hb. reflexivity.
  - injection Hb as <- <-. exact (Hn k eq_refl).
  - injection Hb as <- <-. exact (Hn Hc).
Qed.

Lemma header_cases : forall data, data <> [] -> scot_header_bad data \/ exists k seats, scot_header_ok data k seats.
Proof.
  intros [|first rest] Hne; [contradiction Hne; reflexivity|].
  destruct first as [|cn [|seats [|x l]]].
  - left. exists [], rest. split; [reflexivity|]. left. discriminate.
  - left. exists [cn], rest. split; [reflexivity|]. left. discriminate.
  - destruct cn as [|k|s b].
    + left. eexists _, rest. split; [reflexivity|]. right. left. eexists _, _. split; [reflexivity|discriminate].
    + destruct (Z.eq_dec (Z.of_nat (scot_counted ([TNum k; seats] :: rest))) k) as [E|E].
      * right. exists k, seats. split; [exists rest; reflexivity|exact E].
      * left. eexists _, rest. split; [reflexivity|]. right. right. exists k, seats. split; [reflexivity|exact E].
    + left. eexists _, rest. split; [reflexivity|]. right. left. eexists _, _. split; [reflexivity|discriminate].
  - left. eexists _, rest. split; [reflexivity|]. left. cbn [length]. discriminate.
Qed.

Theorem scot_layout : forall data k seats, scot_header_ok data k seats ->
  exists pre cl w, data = pre ++ cl ++ [w] /\ Z.of_nat (length cl) = k /\
                   scot_cand_lines data k = cl /\ scot_ballot_lines data k = tl pre.
Proof.
  intros data k seats H. pose proof (header_range data k seats H) as Hr.
  destruct H as ((rest & Hd) & _).
  assert (Hne : data <> []) by (rewrite Hd; discriminate).
  set (n := Z.of_nat (length data)) in *.
  set (a := Z.to_nat (n - (k + 1))).
  assert (Hcl : scot_cand_lines data k = firstn (Z.to_nat k) (skipn a data)).
  { unfold ScotOutcomeSpec.scot_cand_lines. fold n. rewrite py_slice_to_last; [|exact Hne|lia|fold n; lia].
    fold n. fold a. f_equal. lia. }
  assert (Hlen : length (skipn a data) = S (Z.to_nat k)).
  { rewrite skipn_length. unfold a. lia. }
  assert (Hbl : scot_ballot_lines data k = tl (firstn a data)).
  { unfold ScotOutcomeSpec.scot_ballot_lines. fold n. destruct a as [|a'] eqn:Ea.
    - assert (E0 : (n - (k + 1) = 0)%Z) by lia. rewrite E0.
      unfold py_slice. fold n. unfold py_norm.
      assert (H1 : (1 <? 0)%Z = false) by reflexivity.
      assert (H2 : (n <? 1)%Z = false) by (apply Z.ltb_ge; lia).
      assert (H3 : (n <? 0)%Z = false) by (apply Z.ltb_ge; lia).
      cbn [Z.ltb Z.compare]. rewrite ?H2, ?H3. cbn. reflexivity.
    - rewrite py_slice_range; [|lia|lia|fold n; lia].
      rewrite tl_firstn. f_equal. lia. }
  exists (firstn a data), (firstn (Z.to_nat k) (skipn a data)).
  destruct (skipn (Z.to_nat k) (skipn a data)) as [|w [|w' l]] eqn:Es.
  - exfalso. apply (f_equal (@length _)) in Es. rewrite skipn_length, Hlen in Es. cbn [length] in Es. lia.
  - exists w. split; [|split; [|split; [exact Hcl|exact Hbl]]].
    + rewrite <- Es, firstn_skipn, firstn_skipn. reflexivity.
    + rewrite firstn_length, Hlen. lia.
  - exfalso. apply (f_equal (@length _)) in Es. rewrite skipn_length, Hlen in Es. cbn [length] in Es. lia.
Qed.

Lemma cand_lines_length : forall data k seats, scot_header_ok data k seats ->
  Z.of_nat (length (scot_cand_lines data k)) = k.
Proof.
  intros data k seats H. destruct (scot_layout data k seats H) as (pre & cl & w & _ & Hl & -> & _). exact Hl.
Qed.

(* ---------- load_scottish by stages ---------- *)

Lemma body_blank : forall raw, scot_all_blank raw -> load_scottish raw = inr EIndex.
Proof. intros raw H. apply scot_clean_nil_iff in H. rewrite load_scottish_eq, H. reflexivity. Qed.

Lemma ward_ok : forall data, clean_data data -> data <> [] ->
  exists wrest, last data [] = scot_ward data :: wrest.
Proof.
  intros data Hc Hne. unfold ScotOutcomeSpec.scot_ward.
  destruct (last data []) as [|w wrest] eqn:E; [|exists wrest; reflexivity].
  exfalso. pose proof (last_In _ data [] Hne) as Hin. rewrite E in Hin.
  destruct (Hc [] Hin) as [Hn _]. apply Hn. reflexivity.
Qed.

Lemma body_header_bad : forall data, clean_data data -> scot_header_bad data -> scot_body data = inr EData.
Proof.
  intros data Hc (first & rest & -> & Hb).
  destruct (ward_ok (first :: rest) Hc) as (wrest & Hw); [discriminate|].
  unfold C18_loaders.scot_body. rewrite Hw. cbn [rbind ok].
  destruct Hb as [Hb|[(cn & s & -> & Hn)|(k & s & -> & Hn)]].
  - destruct first as [|a [|b [|c l]]]; try reflexivity. contradiction Hb. reflexivity.
  - destruct cn as [|k|s' b]; try reflexivity. contradiction (Hn k). reflexivity.
  - unfold C18_loaders.scot_tail. apply Z.eqb_neq in Hn.
    change (LoaderSpec.scot_counted cand) with scot_counted. rewrite Hn. reflexivity.
Qed.

Lemma body_header_ok : forall data k seats, clean_data data -> scot_header_ok data k seats ->
  scot_body data =
    (let! entries := rmap scot_entry (scot_cand_lines data k) in
     let names := map fst entries in
     let! bs := rmap (scot_line names) (scot_ballot_lines data k) in
     let! p := mk_profile bs (dedup names) in
     ok (mkScot cand (condense cand ceqb p) seats (dedup names) entries (scot_ward data))).
Proof.
  intros data k seats Hc ((rest & Hd) & Hk).
  destruct (ward_ok data Hc) as (wrest & Hw); [rewrite Hd; discriminate|].
  unfold C18_loaders.scot_body. rewrite Hd. rewrite <- Hd. rewrite Hw. cbn [rbind ok].
  unfold C18_loaders.scot_tail. apply Z.eqb_eq in Hk.
  change (LoaderSpec.scot_counted cand) with scot_counted. rewrite Hk. reflexivity.
Qed.

Lemma cand_fail_result : forall data k seats e, clean_data data -> scot_header_ok data k seats ->
  first_fail cline_ok (cbad e) (scot_cand_lines data k) -> scot_body data = inr e.
Proof.
  intros data k seats e Hc Hh Hf. rewrite (body_header_ok data k seats Hc Hh).
  rewrite (rmap_first_fail _ _ scot_entry cline_ok (cbad e) _ e); [reflexivity| |apply cbad_entry|exact Hf].
  intros x Hx. destruct (cline_ok_entry x Hx) as (y & Hy & _). exists y. exact Hy.
Qed.

Lemma names_length : forall data k seats, scot_header_ok data k seats ->
  Forall cline_ok (scot_cand_lines data k) ->
  Z.of_nat (length (cline_names (scot_cand_lines data k))) = k.
Proof.
  intros data k seats Hh Hcl. unfold ScotOutcomeSpec.cline_names. rewrite map_length.
  rewrite (proj2 (entries_ok _ Hcl)). apply (cand_lines_length data k seats Hh).
Qed.

Lemma ballot_fail_result : forall data k seats e, clean_data data -> scot_header_ok data k seats ->
  Forall cline_ok (scot_cand_lines data k) ->
  first_fail (bline_ok k) (bbad k e) (scot_ballot_lines data k) -> scot_body data = inr e.
Proof.
  intros data k seats e Hc Hh Hcl Hf. rewrite (body_header_ok data k seats Hc Hh).
  rewrite (proj1 (entries_ok _ Hcl)). cbn [rbind].
  fold (cline_names (scot_cand_lines data k)).
  pose proof (names_length data k seats Hh Hcl) as Hn.
  set (names := cline_names (scot_cand_lines data k)) in *.
  rewrite (rmap_first_fail _ _ (scot_line names) (bline_ok k) (bbad k e) _ e); [reflexivity| | |exact Hf].
  - intros x Hx. eexists. apply (bline_ok_line names k x Hn Hx).
  - intros x Hx. apply (bbad_line names k e x Hn Hx).
Qed.

Lemma scot_ranking_nil : forall order, scot_ranking [] order = [].
Proof.
  intros order. unfold LoaderSpec.scot_ranking. induction order as [|i order IH]; [reflexivity|].
  cbn [flat_map]. rewrite IH. destruct (Z.to_nat (i - 1)); reflexivity.
Qed.

Lemma all_ok_result : forall data k seats, clean_data data -> scot_all_ok data k seats ->
  scot_body data = inl (scot_value data k seats).
Proof.
  intros data k seats Hc (Hh & Hcl & Hbl). rewrite (body_header_ok data k seats Hc Hh).
  rewrite (proj1 (entries_ok _ Hcl)). cbn [rbind].
  fold (cline_names (scot_cand_lines data k)).
  pose proof (names_length data k seats Hh Hcl) as Hn.
  unfold ScotOutcomeSpec.scot_value.
  set (names := cline_names (scot_cand_lines data k)) in *.
  rewrite (rmap_total _ _ (scot_line names) (bline_ballot names)).
  2:{ intros x Hx. rewrite Forall_forall in Hbl. apply (bline_ok_line names k x Hn (Hbl x Hx)). }
  cbn [rbind]. unfold Core.mk_profile.
  rewrite (proj2 (has_dup_false_iff cand ceqb ceqb_spec (dedup names)) (dedup_NoDup cand ceqb ceqb_spec names)).
  cbn [ok rbind]. unfold Core.condense. cbn [ballots cands].
  destruct (dedup names) as [|c0 dn] eqn:Ed; [|reflexivity].
  assert (Hnil : names = []).
  { destruct names as [|c l]; [reflexivity|]. exfalso.
    assert (Hin : In c (dedup (c :: l))) by (apply (dedup_In cand ceqb ceqb_spec); left; reflexivity).
    rewrite Ed in Hin. exact Hin. }
  rewrite Hnil. rewrite cast_cands_all_empty; [reflexivity|].
  intros b Hb. apply in_map_iff in Hb. destruct Hb as (line & <- & _).
  destruct line as [|t order]; [split; reflexivity|]. destruct t; try (split; reflexivity).
  cbn [ScotOutcomeSpec.bline_ballot Core.plain_ballot rk sc]. rewrite scot_ranking_nil. split; reflexivity.
Qed.

(* ---------- exhaustive analysis ---------- *)

Definition ckind (e : exn) : Prop := e = EType \/ e = EData \/ e = EIndex \/ e = EOther.
Definition bkind (e : exn) : Prop := e = EValue \/ e = EKey.

Lemma cbad_kind : forall e line, cbad e line -> ckind e.
Proof. intros e line H. unfold ckind. destruct e; cbn [cbad] in H; try contradiction; auto. Qed.
Lemma bbad_kind : forall k e line, bbad k e line -> bkind e.
Proof. intros k e line H. unfold bkind. destruct e; cbn [bbad] in H; try contradiction; auto. Qed.

Lemma first_fail_ex : forall (A : Type) (good : A -> Prop) (bad : exn -> A -> Prop) (l : list A),
  first_fail good (fun x => exists e, bad e x) l -> exists e, first_fail good (bad e) l.
Proof.
  intros A good bad l (pre & x & post & H & Hp & (e & Hx)). exists e, pre, x, post. auto.
Qed.

Inductive scot_case (raw : list (list tok)) : Prop :=
| SC_blank : scot_all_blank raw -> load_scottish raw = inr EIndex -> scot_case raw
| SC_header : scot_header_bad (scot_clean raw) -> load_scottish raw = inr EData -> scot_case raw
| SC_cand : forall k seats e, scot_header_ok (scot_clean raw) k seats -> ckind e ->
    first_fail cline_ok (cbad e) (scot_cand_lines (scot_clean raw) k) ->
    load_scottish raw = inr e -> scot_case raw
| SC_ballot : forall k seats e, scot_header_ok (scot_clean raw) k seats -> bkind e ->
    Forall cline_ok (scot_cand_lines (scot_clean raw) k) ->
    first_fail (bline_ok k) (bbad k e) (scot_ballot_lines (scot_clean raw) k) ->
    load_scottish raw = inr e -> scot_case raw
| SC_ok : forall k seats, scot_all_ok (scot_clean raw) k seats ->
    load_scottish raw = inl (scot_value (scot_clean raw) k seats) -> scot_case raw.

Lemma scot_cases : forall raw, scot_case raw.
Proof.
  intros raw. pose proof (scot_clean_clean raw) as Hc.
  assert (Hd : scot_clean raw = [] \/ scot_clean raw <> [])
    by (destruct (scot_clean raw); [left; reflexivity|right; discriminate]).
  destruct Hd as [Ed|Hne].
  - apply SC_blank; [apply scot_clean_nil_iff; exact Ed|rewrite load_scottish_eq, Ed; reflexivity].
  - 
    destruct (header_cases _ Hne) as [Hb|(k & seats & Hh)].
    + apply SC_header; [exact Hb|]. rewrite load_scottish_eq. apply body_header_bad; assumption.
    + set (data := scot_clean raw) in *.
      destruct (ff_exhaust _ cline_ok (fun x => exists e, cbad e x) (scot_cand_lines data k)) as [Hcl|Hf].
      { intros x Hx. apply cline_cases. apply Hc. apply py_slice_incl in Hx. exact Hx. }
      * destruct (ff_exhaust _ (bline_ok k) (fun x => exists e, bbad k e x) (scot_ballot_lines data k)) as [Hbl|Hf].
        { intros x Hx. apply bline_cases. apply Hc. apply py_slice_incl in Hx. exact Hx. }
        -- assert (Hok : scot_all_ok data k seats) by (split; [exact Hh|split; assumption]).
           apply (SC_ok raw k seats); [exact Hok|].
           rewrite load_scottish_eq. apply all_ok_result; [exact Hc|exact Hok].
        -- apply first_fail_ex in Hf. destruct Hf as (e & Hf).
           apply (SC_ballot raw k seats e); try assumption.
           ++ destruct (first_fail_In _ _ _ _ Hf) as (x & _ & Hx). exact (bbad_kind k e x Hx).
           ++ rewrite load_scottish_eq. apply (ballot_fail_result data k seats e); assumption.
      * apply first_fail_ex in Hf. destruct Hf as (e & Hf).
        apply (SC_cand raw k seats e); try assumption.
        -- destruct (first_fail_In _ _ _ _ Hf) as (x & _ & Hx). exact (cbad_kind e x Hx).
        -- rewrite load_scottish_eq. apply (cand_fail_result data k seats e); assumption.
Qed.

(* ---------- the conditions, and the iff theorems ---------- *)

Definition cond_ok (raw : list (list tok)) (s : scot cand) : Prop :=
  exists k seats, scot_all_ok (scot_clean raw) k seats /\ s = scot_value (scot_clean raw) k seats.
Definition cond_eindex (raw : list (list tok)) : Prop :=
  scot_all_blank raw \/ scot_cand_fail cline_eindex (scot_clean raw).
Definition cond_edata (raw : list (list tok)) : Prop :=
  scot_header_bad (scot_clean raw) \/ scot_cand_fail cline_edata (scot_clean raw).
Definition cond_etype (raw : list (list tok)) : Prop := scot_cand_fail cline_etype (scot_clean raw).
Definition cond_eother (raw : list (list tok)) : Prop := scot_cand_fail cline_eother (scot_clean raw).
Definition cond_evalue (raw : list (list tok)) : Prop :=
  scot_ballot_fail (fun _ => bline_evalue) (scot_clean raw).
Definition cond_ekey (raw : list (list tok)) : Prop := scot_ballot_fail bline_ekey (scot_clean raw).

(* condition -> result *)
Lemma cand_fail_load : forall raw e, ckind e -> scot_cand_fail (cbad e) (scot_clean raw) ->
  load_scottish raw = inr e.
Proof.
  intros raw e _ (k & seats & Hh & Hf). rewrite load_scottish_eq.
  apply (cand_fail_result _ k seats e (scot_clean_clean raw) Hh Hf).
Qed.

Lemma ballot_fail_load : forall raw e, scot_ballot_fail (fun k => bbad k e) (scot_clean raw) ->
  load_scottish raw = inr e.
Proof.
  intros raw e (k & seats & Hh & Hcl & Hf). rewrite load_scottish_eq.
  apply (ballot_fail_result _ k seats e (scot_clean_clean raw) Hh Hcl Hf).
Qed.

Lemma header_bad_load : forall raw, scot_header_bad (scot_clean raw) -> load_scottish raw = inr EData.
Proof. intros raw H. rewrite load_scottish_eq. apply body_header_bad; [apply scot_clean_clean|exact H]. Qed.

Lemma ok_load : forall raw s, cond_ok raw s -> load_scottish raw = inl s.
Proof.
  intros raw s (k & seats & H & ->). rewrite load_scottish_eq. apply all_ok_result; [apply scot_clean_clean|exact H].
Qed.

Ltac kinds H := unfold ckind, bkind in H;
  repeat match type of H with _ \/ _ => destruct H as [H|H] end; subst; try discriminate.

Theorem scot_success_iff : forall raw s, load_scottish raw = inl s <-> cond_ok raw s.
Proof.
  intros raw s. split; [|apply ok_load]. intros H.
  destruct (scot_cases raw) as [_ Hr|_ Hr|k seats e _ _ _ Hr|k seats e _ _ _ _ Hr|k seats Hok Hr];
    rewrite Hr in H; try discriminate.
  injection H as <-. exists k, seats. split; [exact Hok|reflexivity].
Qed.

Theorem scot_eindex_iff : forall raw, load_scottish raw = inr EIndex <-> cond_eindex raw.
Proof.
  intros raw. split.
  - intros H. destruct (scot_cases raw) as [Hb Hr|_ Hr|k seats e Hh Hk Hf Hr|k seats e _ Hk _ _ Hr|k seats _ Hr];
      rewrite Hr in H; try discriminate.
    + left. exact Hb.
    + injection H as ->. right. exists k, seats. split; assumption.
    + injection H as ->. kinds Hk.
  - intros [H|H]; [apply body_blank; exact H|].
    apply (cand_fail_load raw EIndex); [unfold ckind; auto|exact H].
Qed.

Theorem scot_edata_iff : forall raw, load_scottish raw = inr EData <-> cond_edata raw.
Proof.
  intros raw. split.
  - intros H. destruct (scot_cases raw) as [_ Hr|Hb Hr|k seats e Hh Hk Hf Hr|k seats e _ Hk _ _ Hr|k seats _ Hr];
      rewrite Hr in H; try discriminate.
    + left. exact Hb.
    + injection H as ->. right. exists k, seats. split; assumption.
    + injection H as ->. kinds Hk.
  - intros [H|H]; [apply header_bad_load; exact H|].
    apply (cand_fail_load raw EData); [unfold ckind; auto|exact H].
Qed.

Theorem scot_etype_iff : forall raw, load_scottish raw = inr EType <-> cond_etype raw.
Proof.
  intros raw. split.
  - intros H. destruct (scot_cases raw) as [_ Hr|_ Hr|k seats e Hh Hk Hf Hr|k seats e _ Hk _ _ Hr|k seats _ Hr];
      rewrite Hr in H; try discriminate.
    + injection H as ->. exists k, seats. split; assumption.
    + injection H as ->. kinds Hk.
  - intros H. apply (cand_fail_load raw EType); [unfold ckind; auto|exact H].
Qed.

Theorem scot_eother_iff : forall raw, load_scottish raw = inr EOther <-> cond_eother raw.
Proof.
  intros raw. split.
  - intros H. destruct (scot_cases raw) as [_ Hr|_ Hr|k seats e Hh Hk Hf Hr|k seats e _ Hk _ _ Hr|k seats _ Hr];
      rewrite Hr in H; try discriminate.
    + injection H as ->. exists k, seats. split; assumption.
    + injection H as ->. kinds Hk.
  - intros H. apply (cand_fail_load raw EOther); [unfold ckind; auto|exact H].
Qed.

Theorem scot_evalue_iff : forall raw, load_scottish raw = inr EValue <-> cond_evalue raw.
Proof.
  intros raw. split.
  - intros H. destruct (scot_cases raw) as [_ Hr|_ Hr|k seats e _ Hk _ Hr|k seats e Hh Hk Hcl Hf Hr|k seats _ Hr];
      rewrite Hr in H; try discriminate.
    + injection H as ->. kinds Hk.
    + injection H as ->. exists k, seats. split; [exact Hh|split; [exact Hcl|exact Hf]].
  - intros H. apply (ballot_fail_load raw EValue). exact H.
Qed.

Theorem scot_ekey_iff : forall raw, load_scottish raw = inr EKey <-> cond_ekey raw.
Proof.
  intros raw. split.
  - intros H. destruct (scot_cases raw) as [_ Hr|_ Hr|k seats e _ Hk _ Hr|k seats e Hh Hk Hcl Hf Hr|k seats _ Hr];
      rewrite Hr in H; try discriminate.
    + injection H as ->. kinds Hk.
    + injection H as ->. exists k, seats. split; [exact Hh|split; [exact Hcl|exact Hf]].
  - intros H. apply (ballot_fail_load raw EKey). exact H.
Qed.

(* no other error is ever returned *)
Theorem scot_errors_only : forall raw e, load_scottish raw = inr e ->
  e = EIndex \/ e = EData \/ e = EType \/ e = EOther \/ e = EValue \/ e = EKey.
Proof.
  intros raw e H.
  destruct (scot_cases raw) as [_ Hr|_ Hr|k seats e' _ Hk _ Hr|k seats e' _ Hk _ _ Hr|k seats _ Hr];
    rewrite Hr in H; try discriminate; injection H as <-; auto;
    try (unfold ckind in Hk; tauto); try (unfold bkind in Hk; tauto).
Qed.

(* ---------- the "empty" boundary ---------- *)

Theorem scot_empty_precise : forall raw,
  load_scottish raw <> inr EEmptyData /\
  (scot_clean raw = [] <-> scot_all_blank raw) /\
  (scot_all_blank raw -> load_scottish raw = inr EIndex) /\
  (forall first, scot_clean raw = [first] ->
     (forall seats, first = [TNum 0; seats] ->
        load_scottish raw = inl (mkScot cand (mkProfile [] []) seats [] [] (TNum 0))) /\
     ((forall seats, first <> [TNum 0; seats]) -> load_scottish raw = inr EData)).
Proof.
  intros raw. split; [|split; [apply scot_clean_nil_iff|split; [apply body_blank|]]].
  - intros H. apply scot_errors_only in H. repeat (destruct H as [H|H]; try discriminate).
  - intros first Hd. split.
    + intros seats ->. rewrite load_scottish_eq, Hd. reflexivity.
    + intros Hn. apply header_bad_load. rewrite Hd. exists first, []. split; [reflexivity|].
      destruct first as [|cn [|seats [|x l]]].
      * left. discriminate.
      * left. discriminate.
      * right. destruct cn as [|k|s b].
        -- left. eexists _, _. split; [reflexivity|discriminate].
        -- right. exists k, seats. split; [reflexivity|].
           unfold LoaderSpec.scot_counted. cbn. intros <-. apply (Hn seats). reflexivity.
        -- left. eexists _, _. split; [reflexivity|discriminate].
      * left. cbn [length]. discriminate.
Qed.

(* ---------- exactly one outcome ---------- *)

Lemma not_cond_ok : forall raw, (forall s, load_scottish raw <> inl s) -> ~ exists s, cond_ok raw s.
Proof. intros raw H (s & Hs). apply ok_load in Hs. exact (H s Hs). Qed.
Lemma not_cond_eindex : forall raw, load_scottish raw <> inr EIndex -> ~ cond_eindex raw.
Proof. intros raw H Hc. apply scot_eindex_iff in Hc. contradiction. Qed.
Lemma not_cond_edata : forall raw, load_scottish raw <> inr EData -> ~ cond_edata raw.
Proof. intros raw H Hc. apply scot_edata_iff in Hc. contradiction. Qed.
Lemma not_cond_etype : forall raw, load_scottish raw <> inr EType -> ~ cond_etype raw.
Proof. intros raw H Hc. apply scot_etype_iff in Hc. contradiction. Qed.
Lemma not_cond_eother : forall raw, load_scottish raw <> inr EOther -> ~ cond_eother raw.
Proof. intros raw H Hc. apply scot_eother_iff in Hc. contradiction. Qed.
Lemma not_cond_evalue : forall raw, load_scottish raw <> inr EValue -> ~ cond_evalue raw.
Proof. intros raw H Hc. apply scot_evalue_iff in Hc. contradiction. Qed.
Lemma not_cond_ekey : forall raw, load_scottish raw <> inr EKey -> ~ cond_ekey raw.
Proof. intros raw H Hc. apply scot_ekey_iff in Hc. contradiction. Qed.

Ltac neg E :=
  first [ apply not_cond_ok; intros ? | apply not_cond_eindex | apply not_cond_edata | apply not_cond_etype
        | apply not_cond_eother | apply not_cond_evalue | apply not_cond_ekey ];
  rewrite E; discriminate.
Ltac negs E := repeat (first [ apply Forall_nil | apply Forall_cons; [neg E|] ]).

Theorem scot_outcome_total : forall raw,
  exactly_one [ (exists s, cond_ok raw s); cond_eindex raw; cond_edata raw; cond_etype raw;
                cond_eother raw; cond_evalue raw; cond_ekey raw ].
Proof.
  intros raw. unfold exactly_one.
  destruct (load_scottish raw) as [s|e] eqn:E.
  - exists [], (exists s, cond_ok raw s), [cond_eindex raw; cond_edata raw; cond_etype raw;
                cond_eother raw; cond_evalue raw; cond_ekey raw].
    split; [reflexivity|]. split; [exists s; apply scot_success_iff; exact E|]. split; negs E.
  - pose proof (scot_errors_only raw e E) as Hk.
    destruct Hk as [-> | [-> | [-> | [-> | [-> | ->]]]]].
    + exists [exists s, cond_ok raw s], (cond_eindex raw), [cond_edata raw; cond_etype raw;
                cond_eother raw; cond_evalue raw; cond_ekey raw].
      split; [reflexivity|]. split; [apply scot_eindex_iff; exact E|]. split; negs E.
    + exists [(exists s, cond_ok raw s); cond_eindex raw], (cond_edata raw), [cond_etype raw;
                cond_eother raw; cond_evalue raw; cond_ekey raw].
      split; [reflexivity|]. split; [apply scot_edata_iff; exact E|]. split; negs E.
    + exists [(exists s, cond_ok raw s); cond_eindex raw; cond_edata raw], (cond_etype raw),
             [cond_eother raw; cond_evalue raw; cond_ekey raw].
      split; [reflexivity|]. split; [apply scot_etype_iff; exact E|]. split; negs E.
    + exists [(exists s, cond_ok raw s); cond_eindex raw; cond_edata raw; cond_etype raw], (cond_eother raw),
             [cond_evalue raw; cond_ekey raw].
      split; [reflexivity|]. split; [apply scot_eother_iff; exact E|]. split; negs E.
    + exists [(exists s, cond_ok raw s); cond_eindex raw; cond_edata raw; cond_etype raw; cond_eother raw],
             (cond_evalue raw), [cond_ekey raw].
      split; [reflexivity|]. split; [apply scot_evalue_iff; exact E|]. split; negs E.
    + exists [(exists s, cond_ok raw s); cond_eindex raw; cond_edata raw; cond_etype raw; cond_eother raw;
              cond_evalue raw], (cond_ekey raw), [].
      split; [reflexivity|]. split; [apply scot_ekey_iff; exact E|]. split; negs E.
Qed.

(* the well-formed tables of Spec/LoaderSpec.v are a special case of the success condition *)
Theorem scot_wf_all_ok : forall raw k seats bal cs ward wrest,
  wf_scot cand raw k seats bal cs ward wrest -> exists s, cond_ok raw s.
Proof.
  intros raw k seats bal cs ward wrest H.
  destruct (scottish_wf cand ceqb ceqb_spec raw k seats bal cs ward wrest H) as (s & Hs & _).
  exists s. apply scot_success_iff. exact Hs.
Qed.

End WithCand.
