(* Proofs/C08_neutral.v — property C08, neutrality: every model function commutes with a renaming of
   the candidates that preserves the equality test.  Each lemma instantiates the relational free
   theorem [f_R] produced by Paramcoq (Proofs/ParamModel.v) at the graph of the renaming and converts
   it with the bridging lemmas of Proofs/ParamBridge.v. *)
From Param Require Import Param.
From VK Require Import Base Core STV Pairwise Rules ParamArith ParamModel Rename ParamBridge.

Section Neutral.
Variables A B : Type.
Variable ea : A -> A -> bool.
Variable eb : B -> B -> bool.
Variable f : A -> B.
Hypothesis f_eqb : forall x y, eb (f x) (f y) = ea x y.

Let HC := ceqb_G A B ea eb f f_eqb.

(* introduction forms at the graph of f *)
Let Ip := fst (bridges_profile A B f).
Let Is := fst (bridges_mstate A B f).
Let Ibs := fst (bridges_ballots A B f).
Let Icset := fst (bridges_cset A B f).
Let Irk := fst (bridges_ranking A B f).
Let Isc := fst (bridges_scores A B f).
Let Ist := fst (bridges_state A B f).
Let Ists := fst (bridges_states A B f).
Let IlQ := fst (bridges_list_id _ _ bridges_Q).
Let Itb := fst (bridges_option_id _ _ bridges_tb_kind).

(* ---------- scoring utilities ---------- *)
Lemma score_rankings_rename : forall p v,
  score_rankings B eb (rn_profile f p) v = rn_res (rn_scores f) (score_rankings A ea p v).
Proof.
  intros p v. apply (snd (bridges_res _ _ _ _ (bridges_scores A B f))).
  apply (score_rankings_R A B (G f) ea eb HC); [apply Ip|apply IlQ].
Qed.
Lemma first_place_votes_rename : forall p,
  first_place_votes B eb (rn_profile f p) = rn_res (rn_scores f) (first_place_votes A ea p).
Proof.
  intros p. apply (snd (bridges_res _ _ _ _ (bridges_scores A B f))).
  apply (first_place_votes_R A B (G f) ea eb HC); apply Ip.
Qed.
Lemma borda_scores_rename : forall p,
  borda_scores B eb (rn_profile f p) = rn_res (rn_scores f) (borda_scores A ea p).
Proof.
  intros p. apply (snd (bridges_res _ _ _ _ (bridges_scores A B f))).
  apply (borda_scores_R A B (G f) ea eb HC); apply Ip.
Qed.
Lemma mentions_rename : forall p,
  mentions B eb (rn_profile f p) = rn_res (rn_scores f) (mentions A ea p).
Proof.
  intros p. apply (snd (bridges_res _ _ _ _ (bridges_scores A B f))).
  apply (mentions_R A B (G f) ea eb HC); apply Ip.
Qed.
Lemma score_from_scores_rename : forall p,
  score_from_scores B eb (rn_profile f p) = rn_res (rn_scores f) (score_from_scores A ea p).
Proof.
  intros p. apply (snd (bridges_res _ _ _ _ (bridges_scores A B f))).
  apply (score_from_scores_R A B (G f) ea eb HC); apply Ip.
Qed.
Lemma score_to_ranking_rename : forall d hl,
  score_to_ranking B (rn_scores f d) hl = rn_ranking f (score_to_ranking A d hl).
Proof.
  intros d hl. apply (snd (bridges_ranking A B f)).
  apply (score_to_ranking_R A B (G f)); [apply Isc|apply bool_R_refl].
Qed.
Lemma total_wt_rename : forall bs, total_wt B (rn_ballots f bs) = total_wt A bs.
Proof.
  intros bs. apply (snd bridges_Q). apply (total_wt_R A B (G f)). apply Ibs.
Qed.
Lemma h2h_rename : forall bs a b,
  h2h B eb (rn_ballots f bs) (f a) (f b) = h2h A ea bs a b.
Proof.
  intros bs a b. apply (snd bridges_Q).
  apply (h2h_R A B (G f) ea eb HC); [apply Ibs|reflexivity|reflexivity].
Qed.

(* ---------- profile editing ---------- *)
Lemma condense_bs_rename : forall bs,
  condense_bs B eb (rn_ballots f bs) = rn_ballots f (condense_bs A ea bs).
Proof.
  intros bs. apply (snd (bridges_ballots A B f)).
  apply (condense_bs_R A B (G f) ea eb HC). apply Ibs.
Qed.
Lemma remove_cand_bs_rename : forall removed cf lz bs,
  remove_cand_bs B eb (rn_cset f removed) cf lz (rn_ballots f bs)
  = rn_ballots f (remove_cand_bs A ea removed cf lz bs).
Proof.
  intros removed cf lz bs. apply (snd (bridges_ballots A B f)).
  apply (remove_cand_bs_R A B (G f) ea eb HC);
    [apply Icset|apply bool_R_refl|apply bool_R_refl|apply Ibs].
Qed.
Lemma remove_cand_prof_rename : forall removed cf lz p,
  remove_cand_prof B eb (rn_cset f removed) cf lz (rn_profile f p)
  = rn_res (rn_profile f) (remove_cand_prof A ea removed cf lz p).
Proof.
  intros removed cf lz p. apply (snd (bridges_res _ _ _ _ (bridges_profile A B f))).
  apply (remove_cand_prof_R A B (G f) ea eb HC);
    [apply Icset|apply bool_R_refl|apply bool_R_refl|apply Ip].
Qed.
Lemma profile_eq_rename : forall p q,
  profile_eq B eb (rn_profile f p) (rn_profile f q) = profile_eq A ea p q.
Proof.
  intros p q. apply (snd bridges_bool).
  apply (profile_eq_R A B (G f) ea eb HC); apply Ip.
Qed.

(* ---------- pairwise comparison ---------- *)
Lemma pairwise_graph_rename : forall p,
  pairwise_graph B eb (rn_profile f p) = rn_res (rn_pwc f) (pairwise_graph A ea p).
Proof.
  intros p. apply (snd (bridges_res _ _ _ _ (bridges_pwc A B f))).
  apply (pairwise_graph_R A B (G f) ea eb HC); apply Ip.
Qed.
Lemma dominating_tiers_rename : forall p,
  dominating_tiers B eb (rn_profile f p) = rn_res (rn_ranking f) (dominating_tiers A ea p).
Proof.
  intros p. apply (snd (bridges_res _ _ _ _ (bridges_ranking A B f))).
  apply (dominating_tiers_R A B (G f) ea eb HC); apply Ip.
Qed.

(* ---------- electing from a ranking ---------- *)
Lemma elect_top_m_rename : forall r m p tb s,
  elect_top_m B eb (rn_ranking f r) m (option_map (rn_profile f) p) tb (rn_mstate f s)
  = rn_mres f (rn_elect f) (elect_top_m A ea r m p tb s).
Proof.
  intros r m p tb s. apply (snd (bridges_mres A B f _ _ _ _ (bridges_elect A B f))).
  apply (elect_top_m_R A B (G f) ea eb HC);
    [apply Irk|apply Z_R_refl|apply (fst (bridges_option _ _ _ _ (bridges_profile A B f)))
    |apply Itb|apply Is].
Qed.

(* ---------- STV ---------- *)
Lemma stv_step_rename : forall cfg t p0 n p prev s,
  stv_step B eb cfg t (rn_profile f p0) n (rn_profile f p) (rn_state f prev) (rn_mstate f s)
  = rn_mres f (fun x => (rn_profile f (fst x), rn_state f (snd x)))
      (stv_step A ea cfg t p0 n p prev s).
Proof.
  intros cfg t p0 n p prev s.
  apply (snd (bridges_mres A B f _ _ _ _
                (bridges_prod _ _ _ _ _ _ _ _ (bridges_profile A B f) (bridges_state A B f)))).
  apply (stv_step_R A B (G f) ea eb HC);
    [apply (fst bridges_stv_cfg)|apply Q_R_refl|apply Ip|apply Z_R_refl|apply Ip|apply Ist|apply Is].
Qed.
Lemma run_stv_rename : forall cfg p s,
  run_stv B eb cfg (rn_profile f p) (rn_mstate f s)
  = rn_mres f (rn_states f) (run_stv A ea cfg p s).
Proof.
  intros cfg p s. apply (snd (bridges_mres A B f _ _ _ _ (bridges_states A B f))).
  apply (run_stv_R A B (G f) ea eb HC); [apply (fst bridges_stv_cfg)|apply Ip|apply Is].
Qed.

(* ---------- every rule ---------- *)
Lemma run_rule_rename : forall r p s,
  run_rule B eb r (rn_profile f p) (rn_mstate f s)
  = rn_mres f (rn_states f) (run_rule A ea r p s).
Proof.
  intros r p s. apply (snd (bridges_mres A B f _ _ _ _ (bridges_states A B f))).
  apply (run_rule_R A B (G f) ea eb HC); [apply (fst bridges_rule)|apply Ip|apply Is].
Qed.

(* ---------- queries on the recorded rounds ---------- *)
Lemma get_elected_rename : forall sts i,
  get_elected B (rn_states f sts) i = rn_res (rn_ranking f) (get_elected A sts i).
Proof.
  intros sts i. apply (snd (bridges_res _ _ _ _ (bridges_ranking A B f))).
  apply (get_elected_R A B (G f)); [apply Ists|apply Z_R_refl].
Qed.
Lemma get_eliminated_rename : forall sts i,
  get_eliminated B (rn_states f sts) i = rn_res (rn_ranking f) (get_eliminated A sts i).
Proof.
  intros sts i. apply (snd (bridges_res _ _ _ _ (bridges_ranking A B f))).
  apply (get_eliminated_R A B (G f)); [apply Ists|apply Z_R_refl].
Qed.
Lemma get_remaining_rename : forall sts i,
  get_remaining B (rn_states f sts) i = rn_res (rn_ranking f) (get_remaining A sts i).
Proof.
  intros sts i. apply (snd (bridges_res _ _ _ _ (bridges_ranking A B f))).
  apply (get_remaining_R A B (G f)); [apply Ists|apply Z_R_refl].
Qed.
Lemma get_ranking_rename : forall sts i,
  get_ranking B (rn_states f sts) i = rn_res (rn_ranking f) (get_ranking A sts i).
Proof.
  intros sts i. apply (snd (bridges_res _ _ _ _ (bridges_ranking A B f))).
  apply (get_ranking_R A B (G f)); [apply Ists|apply Z_R_refl].
Qed.
Lemma replay_profile_rename : forall ru p sts r s,
  replay_profile B eb ru (rn_profile f p) (rn_states f sts) r (rn_mstate f s)
  = rn_mres f (rn_profile f) (replay_profile A ea ru p sts r s).
Proof.
  intros ru p sts r s. apply (snd (bridges_mres A B f _ _ _ _ (bridges_profile A B f))).
  apply (replay_profile_R A B (G f) ea eb HC);
    [apply (fst bridges_rule)|apply Ip|apply Ists|apply nat_R_refl|apply Is].
Qed.

End Neutral.

(* an injective renaming between types with reflecting equality tests preserves the tests *)
Lemma injective_eqb : forall A B (ea : A -> A -> bool) (eb : B -> B -> bool) (f : A -> B),
  (forall a b, reflect (a = b) (ea a b)) -> (forall a b, reflect (a = b) (eb a b)) ->
  (forall x y, f x = f y -> x = y) ->
  forall x y, eb (f x) (f y) = ea x y.
Proof.
  intros A B ea eb f Ha Hb Hinj x y.
  destruct (Ha x y) as [E|N]; destruct (Hb (f x) (f y)) as [E'|N']; try reflexivity.
  - exfalso; apply N'; rewrite E; reflexivity.
  - exfalso; apply N, Hinj, E'.
Qed.
