(* Proofs/C07_random.v — C07, random transfer: an election round takes at most one threshold of
   coalition weight per elected member.  The winner's pile (integral weights, total = tally) sends
   on a sample of tally - t unit ballots, no ranking more often than the pile carries it; so the
   sampled ballots that are NOT coalition ballots number at most the non-coalition weight of the
   pile ([sample_class_bound]: a counting argument class by class), and at least
   (coalition weight of the pile) - t sampled ballots continue as coalition ballots. *)
From VK Require Import Base Core STV Rules EditSpec ScoreSpec STVSpec PCSpec.
From VK.Proofs Require Import Lib_sets Lib_rk Lib_condense Lib_condense12 C12_edit C03_transfer
  C04_scoring Elect STV_lib STV_wsum STV_tb STV_step STV_round STV_threshold STV_weights STV_inv
  C07_lib.
From Coq Require Import Permutation Lia Lqa Setoid Morphisms.

Section WithCand.
Variable cand : Type.
Variable ceqb : cand -> cand -> bool.
Hypothesis ceqb_spec : forall a b, reflect (a = b) (ceqb a b).

Notation cset := (cset cand).
Notation ranking := (ranking cand).
Notation ballot := (ballot cand).
Notation profile := (profile cand).
Notation mstate := (mstate cand).
Notation estate := (estate cand).
Notation memb := (memb cand ceqb).
Notation ranking_eqb := (ranking_eqb cand ceqb).
Notation flat := (flat cand).
Notation strip := (strip cand ceqb).
Notation set_diff := (set_diff cand ceqb).
Notation first_is := (first_is cand ceqb).
Notation pile := (pile cand ceqb).
Notation total_wt := (total_wt cand).
Notation tally := (tally cand ceqb).
Notation wf_stv0 := (wf_stv0 cand).
Notation step_ctx := (step_ctx cand ceqb).
Notation script_ok := (script_ok cand).
Notation lookup0 := (lookup0 cand ceqb).
Notation do_transfer := (do_transfer cand ceqb).
Notation transfers := (transfers cand ceqb).
Notation elect_round := (elect_round cand ceqb).
Notation count_rk := (count_rk cand ceqb).
Notation units_of := (units_of cand ceqb).
Notation rt_pop := (rt_pop cand ceqb).
Notation rt_out := (rt_out cand ceqb).
Notation transferable := (transferable cand ceqb).
Notation keep_ballot := (keep_ballot cand).
Notation plain_ballot := (plain_ballot cand).
Notation cls := (cls cand ceqb).
Notation wsumr := (wsumr cand).
Notation after := (after cand ceqb).
Notation solidb := (solidb cand ceqb).
Notation members := (members cand ceqb).
Notation phiA := (phiA cand ceqb).

Let memb_In := Lib_rk.memb_In cand ceqb ceqb_spec.
Let memb_false_iff := Lib_rk.memb_false_iff cand ceqb ceqb_spec.
Let rk_refl := Lib_rk.ranking_eqb_refl cand ceqb ceqb_spec.
Let rk_sym := Lib_rk.ranking_eqb_sym cand ceqb ceqb_spec.
Let rk_trans := Lib_sets.ranking_eqb_trans cand ceqb ceqb_spec.

(* ====================== a sample bounded class by class ====================== *)

(* units of the population whose ranking satisfies Qp *)
Definition pop_units (Qp : ranking -> bool) (pop : list (ranking * Q)) : Z :=
  fold_right Z.add 0%Z (map (fun p => if Qp (fst p) then Qtrunc (snd p) else 0%Z) pop).

Lemma pop_units_cons : forall Qp p pop,
  pop_units Qp (p :: pop) = ((if Qp (fst p) then Qtrunc (snd p) else 0) + pop_units Qp pop)%Z.
Proof. reflexivity. Qed.

Lemma pop_units_nonneg : forall Qp pop, (forall p, In p pop -> (0 <= Qtrunc (snd p))%Z) ->
  (0 <= pop_units Qp pop)%Z.
Proof.
  intros Qp pop. induction pop as [|p pop IH]; intros H; [cbn; lia|].
  rewrite pop_units_cons.
  assert (H1 : (0 <= Qtrunc (snd p))%Z) by (apply H; left; reflexivity).
  assert (H2 : (0 <= pop_units Qp pop)%Z) by (apply IH; intros q Hq; apply H; right; exact Hq).
  destruct (Qp (fst p)); lia.
Qed.

Lemma pop_units_split : forall Qp (f : ranking * Q -> bool) pop,
  pop_units Qp pop = (pop_units Qp (filter f pop) + pop_units Qp (filter (fun p => negb (f p)) pop))%Z.
Proof.
  intros Qp f pop. induction pop as [|p pop IH]; [reflexivity|].
  cbn [filter]. destruct (f p); cbn [negb]; rewrite !pop_units_cons, IH; lia.
Qed.

Lemma units_of_filter : forall r (f : ranking * Q -> bool) pop,
  (forall p, In p pop -> ranking_eqb r (fst p) = true -> f p = true) ->
  units_of r (filter f pop) = units_of r pop.
Proof.
  intros r f pop. induction pop as [|p pop IH]; intros H; [reflexivity|].
  assert (IH' : units_of r (filter f pop) = units_of r pop)
    by (apply IH; intros q Hq; apply H; right; exact Hq).
  cbn [filter]. destruct (f p) eqn:Ef.
  - unfold STV.units_of in *. cbn [map fold_right]. rewrite IH'. reflexivity.
  - unfold STV.units_of in *. cbn [map fold_right]. rewrite IH'.
    destruct (ranking_eqb r (fst p)) eqn:Er; [|lia].
    rewrite (H p (or_introl eq_refl) Er) in Ef. discriminate.
Qed.

Lemma count_rk_filter : forall r (f : ranking -> bool) l,
  (forall r', In r' l -> ranking_eqb r r' = true -> f r' = true) ->
  count_rk r (filter f l) = count_rk r l.
Proof.
  intros r f l. induction l as [|a l IH]; intros H; [reflexivity|].
  assert (IH' : count_rk r (filter f l) = count_rk r l)
    by (apply IH; intros q Hq; apply H; right; exact Hq).
  cbn [filter]. destruct (f a) eqn:Ef; cbn [STV.count_rk]; rewrite IH'; [reflexivity|].
  destruct (ranking_eqb r a) eqn:Er; [|lia].
  rewrite (H a (or_introl eq_refl) Er) in Ef. discriminate.
Qed.

Lemma count_rk_length : forall r l, count_rk r l = Z.of_nat (length (filter (ranking_eqb r) l)).
Proof.
  intros r l. induction l as [|a l IH]; [reflexivity|].
  cbn [STV.count_rk filter]. rewrite IH. destruct (ranking_eqb r a); cbn [length]; lia.
Qed.

Lemma filter_len_le : forall {X} (f : X -> bool) (l : list X), (length (filter f l) <= length l)%nat.
Proof.
  intros X f l. induction l as [|a l IH]; [apply le_n|].
  cbn [filter]. destruct (f a); cbn [length]; lia.
Qed.

Lemma length_filter_split : forall {X} (f g : X -> bool) (l : list X),
  length (filter f l) =
  (length (filter f (filter g l)) + length (filter f (filter (fun x => negb (g x)) l)))%nat.
Proof.
  intros X f g l. induction l as [|a l IH]; [reflexivity|].
  cbn [filter]. destruct (g a); cbn [negb filter]; destruct (f a); cbn [length]; lia.
Qed.

(* the units of the class of r0, when Qp holds on that class *)
Lemma pop_units_class : forall (Qp : ranking -> bool) r0 pop,
  (forall a b, ranking_eqb a b = true -> Qp a = Qp b) ->
  pop_units Qp (filter (fun p => ranking_eqb r0 (fst p)) pop) =
  if Qp r0 then units_of r0 pop else 0%Z.
Proof.
  intros Qp r0 pop Hc. induction pop as [|p pop IH].
  - destruct (Qp r0); reflexivity.
  - cbn [filter]. destruct (ranking_eqb r0 (fst p)) eqn:Er.
    + rewrite pop_units_cons, IH, <- (Hc r0 (fst p) Er).
      unfold STV.units_of. cbn [map fold_right]. rewrite Er. destruct (Qp r0); reflexivity.
    + rewrite IH. unfold STV.units_of. cbn [map fold_right]. rewrite Er. destruct (Qp r0); reflexivity.
Qed.

(* a list of rankings in which no class occurs more often than the population carries it holds at
   most as many rankings satisfying the class predicate Qp as the population has such units *)
Lemma sample_class_bound : forall (Qp : ranking -> bool),
  (forall a b, ranking_eqb a b = true -> Qp a = Qp b) ->
  forall n (l : list ranking) pop, (length l <= n)%nat ->
  (forall p, In p pop -> (0 <= Qtrunc (snd p))%Z) ->
  (forall r, In r l -> (count_rk r l <= units_of r pop)%Z) ->
  (Z.of_nat (length (filter Qp l)) <= pop_units Qp pop)%Z.
Proof.
  intros Qp Hc. induction n as [|n IH]; intros l pop Hn Hpos Hcnt.
  - destruct l; [|cbn [length] in Hn; lia]. cbn [filter length]. apply pop_units_nonneg. exact Hpos.
  - destruct l as [|r0 l']; [cbn [filter length]; apply pop_units_nonneg; exact Hpos|].
    set (l := r0 :: l') in *.
    set (E := ranking_eqb r0).
    set (l2 := filter (fun r => negb (E r)) l).
    set (pop1 := filter (fun p => E (fst p)) pop).
    set (pop2 := filter (fun p => negb (E (fst p))) pop).
    (* other classes are untouched by removing the class of r0 *)
    assert (Hother : forall r r', E r = false -> ranking_eqb r r' = true -> negb (E r') = true).
    { intros r r' Hr Hrr'. apply negb_true_iff. destruct (E r') eqn:Er'; [|reflexivity].
      unfold E in *. rewrite <- Hr. symmetry. apply (rk_trans r0 r' r Er'). rewrite rk_sym. exact Hrr'. }
    assert (H2 : (Z.of_nat (length (filter Qp l2)) <= pop_units Qp pop2)%Z).
    { apply IH.
      - unfold l2, l. cbn [filter]. unfold E at 1. rewrite (rk_refl r0). cbn [negb].
        pose proof (filter_len_le (fun r => negb (E r)) l'). unfold l in Hn. cbn [length] in Hn. lia.
      - intros q Hq. apply Hpos. unfold pop2 in Hq. apply filter_In in Hq. apply Hq.
      - intros r Hr. unfold l2 in Hr. apply filter_In in Hr. destruct Hr as [Hrl HrE].
        apply negb_true_iff in HrE.
        unfold l2. rewrite (count_rk_filter r (fun r' => negb (E r')) l);
          [|intros r' _ Hrr'; apply (Hother r r' HrE Hrr')].
        unfold pop2. rewrite (units_of_filter r (fun p => negb (E (fst p))) pop);
          [|intros q _ Hrq; apply (Hother r (fst q) HrE Hrq)].
        apply Hcnt. exact Hrl. }
    assert (H1 : (Z.of_nat (length (filter Qp (filter E l))) <= pop_units Qp pop1)%Z).
    { unfold pop1, E. rewrite (pop_units_class Qp r0 pop Hc).
      destruct (Qp r0) eqn:EQ.
      - pose proof (filter_len_le Qp (filter (ranking_eqb r0) l)) as Hle.
        pose proof (Hcnt r0 (or_introl eq_refl)) as Hc0. rewrite count_rk_length in Hc0. lia.
      - rewrite (Lib_sets.filter_all_false Qp); [cbn [length]; lia|].
        intros r Hr. apply filter_In in Hr. rewrite <- (Hc r0 r (proj2 Hr)). exact EQ. }
    rewrite (length_filter_split Qp E l), (pop_units_split Qp (fun p => E (fst p)) pop).
    fold l2 pop1 pop2. lia.
Qed.

(* ====================== one winner's random transfer ====================== *)

Lemma after_nil : forall W (phi : ranking -> Q), after W phi [] = 0.
Proof. reflexivity. Qed.

Lemma plain_wsumr : forall (psi : ranking -> Q) (l : list ranking), psi [] == 0 ->
  wsumr psi (filter keep_ballot (map (fun r => plain_ballot r 1) l)) == qsum (map psi l).
Proof.
  intros psi l H0. induction l as [|r l IH]; [reflexivity|].
  cbn [map filter]. rewrite Lib_sets.qsum_cons.
  unfold STV.keep_ballot at 1. cbn [Core.plain_ballot rk]. destruct r as [|g r].
  - cbn [nonempty andb]. rewrite IH, H0. ring.
  - cbn [nonempty andb]. unfold Core.pos_wt. cbn [Core.plain_ballot wt]. rewrite Qlt_bool_0_1.
    rewrite (wsumr_cons cand). cbn [Core.plain_ballot rk wt]. rewrite IH. ring.
Qed.

Lemma phiA_01 : forall A r, phiA A r == 0 \/ phiA A r == 1.
Proof. intros A r. unfold C07_lib.phiA. destruct (solidb A r); [right|left]; reflexivity. Qed.

Lemma after_01 : forall W A r, after W (phiA A) r == 0 \/ after W (phiA A) r == 1.
Proof.
  intros W A r. unfold STV_wsum.after. destruct (nonempty (strip W r)); [apply phiA_01|left; reflexivity].
Qed.

(* a 0/1-valued sum counts the terms that are not 0 *)
Lemma qsum_01 : forall {X} (psi : X -> Q) (l : list X),
  (forall x, psi x == 0 \/ psi x == 1) ->
  qsum (map psi l) == Qnat (length l) - Qnat (length (filter (fun x => Qeq_bool (psi x) 0) l)).
Proof.
  intros X psi l H. induction l as [|a l IH].
  - cbn [map filter length]. rewrite Lib_sets.qsum_nil, Lib_sets.Qnat_0. ring.
  - cbn [map filter length]. rewrite Lib_sets.qsum_cons, IH, Lib_sets.Qnat_S.
    destruct (Qeq_bool (psi a) 0) eqn:Eb.
    + apply Qeq_bool_iff in Eb. cbn [length]. rewrite Lib_sets.Qnat_S, Eb. ring.
    + apply Lib_rk.Qeq_bool_false_iff in Eb. destruct (H a) as [H0|H1]; [contradiction|].
      rewrite H1. ring.
Qed.

Lemma pop_units_rt : forall Qp w (bs0 : list ballot),
  (forall b, In b bs0 -> is_integral (wt b) = true) ->
  inject_Z (pop_units Qp (rt_pop w bs0)) ==
  qsum (map (fun b => if transferable w b && Qp (strip [w] (rk b)) then wt b else 0) bs0).
Proof.
  intros Qp w bs0. induction bs0 as [|b bs0 IH]; intros Hint; [reflexivity|].
  assert (IH' := IH (fun b' Hb' => Hint b' (or_intror Hb'))).
  cbn [map]. rewrite Lib_sets.qsum_cons, <- IH'. unfold C03_transfer.rt_pop. cbn [filter].
  destruct (transferable w b) eqn:Et; cbn [andb map].
  - rewrite pop_units_cons. cbn [fst snd]. rewrite inject_Z_plus.
    destruct (Qp (strip [w] (rk b))).
    + rewrite (Qtrunc_integral _ (Hint b (or_introl eq_refl))). reflexivity.
    + reflexivity.
  - ring.
Qed.

Lemma wsumr_zero : forall (phi : ranking -> Q) (bs0 : list ballot),
  (forall b, In b bs0 -> phi (rk b) == 0) -> wsumr phi bs0 == 0.
Proof.
  intros phi bs0 H. unfold STV_wsum.wsumr. apply Lib_sets.qsum_map_zero. intros b Hb.
  rewrite (H b Hb). ring.
Qed.

Lemma rand_coal_one : forall (p : profile) W w fpv t (sa sb : mstate) a T,
  wf_stv0 p ->
  do_transfer TRandom w fpv (pile p w) t sa = inl (a, sb) ->
  fpv == tally w (ballots p) -> is_integral t = true -> 0 <= t -> In w W ->
  set_diff T W <> [] ->
  wsumr (phiA T) (pile p w) - (if memb w T then t else 0)
    <= wsumr (after W (phiA (set_diff T W))) a.
Proof.
  intros p W w fpv t sa sb a T Hwf H Hfpv Hint Ht Hw HT'.
  cbn [STV.do_transfer] in H.
  destruct (rand_ok_inv cand ceqb w fpv _ t sa a sb H) as (Hgood & _ & l & _ & _ & Hv & ->).
  destruct (valid_sample_spec cand ceqb ceqb_spec w _ _ l Hv) as (Hlen & Hcnt & _).
  set (psi := after W (phiA (set_diff T W))).
  assert (Hcls : cls psi)
    by (apply (after_cls cand ceqb ceqb_spec); apply (phiA_cls cand ceqb ceqb_spec)).
  assert (HTne : T <> []) by (intros E; apply HT'; rewrite E; reflexivity).
  assert (Hpile_in : forall b, In b (pile p w) -> In b (ballots p) /\ first_is w b = true)
    by (intros b Hb; apply pile_in; exact Hb).
  assert (Hpile_pos : forall b, In b (pile p w) -> 0 < wt b).
  { intros b Hb. destruct Hwf as [_ Hwfb]. rewrite Forall_forall in Hwfb.
    apply (Hwfb b (proj1 (Hpile_in b Hb))). }
  (* the output is the sample *)
  assert (E1 : wsumr psi (rt_out w (pile p w) l) == qsum (map psi l)).
  { unfold C03_transfer.rt_out. rewrite (wsumr_condense cand ceqb psi _ Hcls).
    rewrite (rt_others_pile cand ceqb p w). cbn [app]. apply plain_wsumr. reflexivity. }
  set (Qp := fun r : ranking => Qeq_bool (psi r) 0).
  assert (E2 : qsum (map psi l) == Qnat (length l) - Qnat (length (filter Qp l))).
  { apply qsum_01. intros r. apply after_01. }
  assert (Hnn : 0 <= qsum (map psi l)).
  { apply Lib_sets.qsum_nonneg. apply Forall_forall. intros x Hx. apply in_map_iff in Hx.
    destruct Hx as (r & <- & _). destruct (after_01 W (set_diff T W) r) as [E|E]; fold psi in E; lra. }
  rewrite E1.
  destruct (memb w T) eqn:EwT.
  - (* a member is elected: at most t is lost *)
    assert (E3 : Qnat (length l) == tally w (ballots p) - t).
    { unfold Qnat. rewrite Hlen. unfold Zminus.
      rewrite inject_Z_plus, inject_Z_opp, (Qtrunc_integral t Hint).
      destruct (integral_total cand (pile p w) (fun b Hb => proj1 (Hgood b Hb))) as [z Hz].
      rewrite <- (tally_pile cand ceqb) in Hz. rewrite <- Hfpv in Hz.
      rewrite (Qtrunc_int fpv z Hz), <- Hz, Hfpv. reflexivity. }
    assert (HQc : forall x y, ranking_eqb x y = true -> Qp x = Qp y).
    { intros x y Hxy. unfold Qp. pose proof (Hcls x y Hxy) as Hq.
      destruct (Qeq_bool (psi x) 0) eqn:Ex, (Qeq_bool (psi y) 0) eqn:Ey; try reflexivity; exfalso.
      - apply Qeq_bool_iff in Ex. apply Lib_rk.Qeq_bool_false_iff in Ey. apply Ey.
        rewrite <- Hq. exact Ex.
      - apply Qeq_bool_iff in Ey. apply Lib_rk.Qeq_bool_false_iff in Ex. apply Ex.
        rewrite Hq. exact Ey. }
    assert (Hpop_pos : forall q, In q (rt_pop w (pile p w)) -> (0 <= Qtrunc (snd q))%Z).
    { intros q Hq. unfold C03_transfer.rt_pop in Hq. apply in_map_iff in Hq.
      destruct Hq as (b & <- & Hb). apply filter_In in Hb. destruct Hb as [Hb _]. cbn [snd].
      pose proof (Qtrunc_integral _ (proj1 (Hgood b Hb))) as Hi. pose proof (Hpile_pos b Hb) as Hp.
      rewrite Zle_Qle. change (inject_Z 0) with 0. lra. }
    pose proof (sample_class_bound Qp HQc (length l) l (rt_pop w (pile p w)) (le_n _) Hpop_pos Hcnt)
      as Hz.
    assert (E4 : Qnat (length (filter Qp l)) <=
                 tally w (ballots p) - wsumr (phiA T) (pile p w)).
    { unfold Qnat. rewrite Zle_Qle in Hz. eapply Qle_trans; [exact Hz|].
      rewrite (pop_units_rt Qp w (pile p w) (fun b Hb => proj1 (Hgood b Hb))).
      assert (Es : tally w (ballots p) - wsumr (phiA T) (pile p w) ==
                   qsum (map (fun b => wt b * (1 - phiA T (rk b))) (pile p w))).
      { rewrite (tally_pile cand ceqb). unfold Core.total_wt, STV_wsum.wsumr.
        assert (Ep : qsum (map (fun b : ballot => wt b * (1 - phiA T (rk b))) (pile p w)) +
                     qsum (map (fun b : ballot => wt b * phiA T (rk b)) (pile p w)) ==
                     qsum (map (@wt cand) (pile p w))).
        { rewrite <- Lib_sets.qsum_map_plus. apply Lib_sets.qsum_map_ext_in. intros b _. ring. }
        lra. }
      rewrite Es. apply qsum_map_le. intros b Hb. pose proof (Hpile_pos b Hb) as Hp.
      unfold C07_lib.phiA at 1. destruct (solidb T (rk b)) eqn:Es'.
      - (* a coalition ballot of the pile continues as a coalition ballot *)
        assert (Hq1 : psi (strip [w] (rk b)) == 1).
        { unfold psi. rewrite (after_strip_in cand ceqb ceqb_spec W w _ (rk b) Hw).
          pose proof (phi_after_ge cand ceqb ceqb_spec T W (rk b) HT') as Hge.
          unfold C07_lib.phiA at 1 in Hge. rewrite Es' in Hge.
          destruct (after_01 W (set_diff T W) (rk b)) as [E|E]; [lra|exact E]. }
        assert (HQ : Qp (strip [w] (rk b)) = false).
        { unfold Qp. apply Lib_rk.Qeq_bool_false_iff. rewrite Hq1. discriminate. }
        rewrite HQ, andb_false_r. lra.
      - destruct (transferable w b && Qp (strip [w] (rk b))); lra. }
    lra.
  - (* a non-member's pile holds no coalition ballot *)
    assert (Ez : wsumr (phiA T) (pile p w) == 0).
    { apply wsumr_zero. intros b Hb. unfold C07_lib.phiA. destruct (solidb T (rk b)) eqn:Es; [|reflexivity].
      exfalso. destruct (Hpile_in b Hb) as [Hbp Hf]. destruct Hwf as [_ Hwfb].
      rewrite Forall_forall in Hwfb.
      destruct (wf_ballot_head cand _ b (Hwfb b Hbp)) as (h & rest & Hrk & _ & _).
      apply (solidb_iff cand ceqb ceqb_spec) in Es.
      pose proof (solid_set_head cand T (rk b) h rest Es HTne Hrk) as HhT.
      apply (first_is_head_iff cand ceqb ceqb_spec b h rest w Hrk) in Hf. subst h.
      apply memb_false_iff in EwT. apply EwT. exact HhT. }
    lra.
Qed.

(* ====================== an election round, random transfer ====================== *)

Section ElectBoundRand.
Variable cfg : stv_cfg.
Variable t : Q.
Variables p0 p : profile.
Variables prev st : estate.
Variable np : profile.
Variables s s' : mstate.
Variables W others : cset.
Variable mvs : list (list ballot).
Variable s1 : mstate.
Hypothesis Hctx : step_ctx p0 p prev.
Hypothesis Hr : elect_round cfg t p prev st np s s' W others mvs s1.
Hypothesis Hk : s_transfer cfg = TRandom.
Hypothesis Hscr : script_ok s.
Hypothesis Hint : is_integral t = true.
Hypothesis Ht : 0 <= t.
Variable T : cset.
Hypothesis HT' : set_diff T W <> [].

Let bs := ballots p.
Let Hwf : wf_stv0 p := ctx_wf cand ceqb p0 p prev Hctx.
Let psi := after W (phiA (set_diff T W)).

Lemma transfers_coal : forall d ws (sa sb : mstate) ms,
  transfers TRandom p d t ws sa ms sb ->
  (forall w, In w ws -> In w W /\ lookup0 w d == tally w bs) ->
  qsum (map (fun w => wsumr (phiA T) (pile p w) - (if memb w T then t else 0)) ws)
    <= qsum (map (wsumr psi) ms).
Proof.
  intros d ws sa sb ms H Hws. induction H as [sa|w ws sa a sm ms sb _ Hd _ IH]; [apply Qle_refl|].
  cbn [map]. rewrite !Lib_sets.qsum_cons. apply Qplus_le_compat.
  - destruct (Hws w (or_introl eq_refl)) as [HwW Hl].
    apply (rand_coal_one p W w _ t sa sm a T Hwf Hd Hl Hint Ht HwW HT').
  - apply IH. intros w' Hw'. apply Hws. right. exact Hw'.
Qed.

Lemma elect_coal_bound_rand :
  wsumr (phiA T) bs - Qnat (length (members T W)) * t <= wsumr (phiA (set_diff T W)) (ballots np).
Proof.
  pose proof (er_B_wf cand ceqb ceqb_spec cfg t p0 p prev st np s s' W others mvs s1 Hctx Hr
                (fun _ => Hscr)) as HB.
  rewrite (er_ballots cand ceqb cfg t p prev st np s s' W others mvs s1 Hr).
  rewrite (wsumr_remove cand ceqb W _ _ (wf_ballots_sf cand _ _ HB) (wf_ballots_pos cand _ _ HB)
             (phiA_cls cand ceqb ceqb_spec (set_diff T W))).
  fold psi. rewrite (wsumr_app cand), !(wsumr_concat cand), map_map.
  pose proof (er_all_nd cand ceqb cfg t p0 p prev st np s s' W others mvs s1 Hctx Hr) as Hnd.
  assert (Hincl : incl (cands p) (W ++ others)).
  { intros c Hc. eapply Permutation_in;
      [apply Permutation_sym, (er_part _ _ _ _ _ _ _ _ _ _ _ _ _ _ Hr)|exact Hc]. }
  assert (L1 : wsumr (phiA T) bs ==
               qsum (map (fun c => wsumr (phiA T) (pile p c)) W) +
               qsum (map (fun c => wsumr (phiA T) (pile p c)) others)).
  { unfold bs.
    rewrite <- (wsumr_perm cand _ _ _ (piles_all_perm cand ceqb ceqb_spec p (W ++ others) Hwf Hnd Hincl)).
    rewrite (wsumr_concat cand), map_map, map_app, Lib_sets.qsum_app. reflexivity. }
  assert (L2 : qsum (map (fun c => wsumr (phiA T) (pile p c)) others) <=
               qsum (map (fun c => wsumr psi (pile p c)) others)).
  { apply qsum_map_le. intros c _. apply wsumr_le.
    - intros b Hb. apply pile_in in Hb. apply (wf_bs_nonneg cand p Hwf b (proj1 Hb)).
    - intros b _. apply (phi_after_ge cand ceqb ceqb_spec). exact HT'. }
  pose proof (er_tr _ _ _ _ _ _ _ _ _ _ _ _ _ _ Hr) as Htr. rewrite Hk in Htr.
  assert (L3 := transfers_coal _ _ _ _ _ Htr
                  (fun w Hw => conj Hw (er_lookup cand ceqb ceqb_spec cfg t p0 p prev st np s s' W
                                          others mvs s1 Hctx Hr w Hw))).
  assert (L4 : qsum (map (fun w => wsumr (phiA T) (pile p w) - (if memb w T then t else 0)) W) +
               Qnat (length (members T W)) * t ==
               qsum (map (fun c => wsumr (phiA T) (pile p c)) W)).
  { unfold PCSpec.members. rewrite <- (qsum_ite_count (fun c => memb c T) t W).
    rewrite <- Lib_sets.qsum_map_plus. apply Lib_sets.qsum_map_ext_in. intros c _. ring. }
  lra.
Qed.

End ElectBoundRand.

End WithCand.
