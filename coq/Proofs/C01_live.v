(* Proofs/C01_live.v — liveness of the STV count (C01 "terminates and elects exactly m ... for all
   outcomes of the random choices", C07 "conditional on inl"): with a Droop quota and the
   fractional transfer the ONLY way a count on a valid profile can fail (m in range; simultaneous
   mode or a valid tiebreak name) is a replay script that does not serve a request of
   random.sample; a script that serves every request makes the count succeed.
   A  serving a request: draw_perm / random_break / tiebreak_set succeed iff served
   B  one round: fails iff it asks something the script does not serve
   C  the points a count passes through; failing / succeeding loops
   D  the run: error => inadmissible script, admissible => success, success <=> admissible
   E  corollaries: outcome of C01, Droop proportionality and IRV majority of C07, unconditionally
      for admissible scripts *)
From Coq Require Import List ZArith QArith Bool Permutation Lia Lqa.
From VK Require Import Base Core STV Rules EditSpec.
From VK.Spec Require Import STVSpec ScoreSpec TieSpec ReplaySpec PCSpec LiveSpec.
From VK.Proofs Require Import Lib_sets Lib_rk Elect C05_tiebreaks C09_queries C10_quiet C10_tiebreak
  STV_lib STV_tb STV_step STV_round STV_threshold STV_inv STV_cases STV_final C02_run C07_lib C07_pc.
Import ListNotations.

Section Live.
Variable cand : Type.
Variable ceqb : cand -> cand -> bool.
Hypothesis ceqb_spec : forall a b, reflect (a = b) (ceqb a b).

Notation cset := (cset cand).
Notation ranking := (ranking cand).
Notation ballot := (ballot cand).
Notation profile := (profile cand).
Notation scores := (scores cand).
Notation estate := (estate cand).
Notation mstate := (mstate cand).
Notation flat := (flat cand).
Notation total_wt := (total_wt cand).
Notation tally := (tally cand ceqb).
Notation wf_stv0 := (wf_stv0 cand).
Notation wf_stv_profile := (wf_stv_profile cand).
Notation step_ctx := (step_ctx cand ceqb).
Notation script_ok := (script_ok cand).
Notation stv_inv := (STVSpec.stv_inv cand ceqb).
Notation stv_init := (stv_init cand).
Notation stv_step := (stv_step cand ceqb).
Notation stv_loop := (stv_loop cand ceqb).
Notation run_stv := (run_stv cand ceqb).
Notation initial_state := (initial_state cand ceqb).
Notation count_elected := (count_elected cand).
Notation reaches := (reaches cand ceqb).
Notation draw_perm := (draw_perm cand ceqb).
Notation random_break := (random_break cand ceqb).
Notation tiebreak_set := (tiebreak_set cand ceqb).
Notation first_place_votes := (first_place_votes cand ceqb).
Notation borda_scores := (borda_scores cand ceqb).
Notation big := (big cand).
Notation serves := (serves cand).
Notation next_unserved := (next_unserved cand).
Notation scored_requests := (scored_requests cand ceqb).
Notation tb_requests := (tb_requests cand ceqb).
Notation round_asks := (round_asks cand ceqb).
Notation reached := (reached cand ceqb).
Notation admissible_script := (admissible_script cand ceqb).

(* ====================== A: serving a request ====================== *)

Lemma serves_nil : forall s : mstate, serves [] s.
Proof. intros s. exists [], (scr s). split; [reflexivity|constructor]. Qed.

Lemma serves_scr : forall reqs (s s' : mstate), scr s = scr s' -> serves reqs s -> serves reqs s'.
Proof. intros reqs s s' E (ls & rest & H1 & H2). exists ls, rest. rewrite <- E. split; assumption. Qed.

Lemma serves_cons_inv : forall g reqs (s : mstate), serves (g :: reqs) s ->
  exists l rest, scr s = DPerm l :: rest /\ Permutation l g /\ NoDup l /\
    forall lg0, serves reqs (mkM rest lg0).
Proof.
  intros g reqs s (ls & rest & H1 & H2). inversion H2 as [|l g' ls' reqs' [Hp Hnd] Hrest]; subst.
  exists l, (map (fun l0 => DPerm l0) ls' ++ rest). cbn [map app] in H1.
  split; [exact H1|]. split; [exact Hp|]. split; [exact Hnd|].
  intros lg0. exists ls', rest. split; [reflexivity|exact Hrest].
Qed.

Lemma serves_cons_intro : forall g reqs (s : mstate) l rest,
  scr s = DPerm l :: rest -> Permutation l g -> NoDup l -> serves reqs (mkM rest []) ->
  serves (g :: reqs) s.
Proof.
  intros g reqs s l rest Hs Hp Hnd (ls & rest' & H1 & H2). cbn [scr] in H1.
  exists (l :: ls), rest'. cbn [map app]. rewrite Hs, H1. split; [reflexivity|].
  constructor; [split; assumption|exact H2].
Qed.

Lemma Forall2_length : forall {A B} {R : A -> B -> Prop} {l1 l2}, Forall2 R l1 l2 -> length l1 = length l2.
Proof. intros A B R l1 l2 H. induction H as [|x y l l' _ _ IH]; [reflexivity|cbn [length]; rewrite IH; reflexivity]. Qed.

Lemma app_inj_len : forall {A} (a a' b b' : list A), length a = length a' ->
  a ++ b = a' ++ b' -> a = a' /\ b = b'.
Proof.
  intros A a. induction a as [|x a IH]; intros [|x' a'] b b' Hl H; try discriminate.
  - split; [reflexivity|exact H].
  - cbn [app] in H. injection H as -> H. cbn [length] in Hl. injection Hl as Hl.
    destruct (IH a' b b' Hl H) as [-> ->]. split; reflexivity.
Qed.

(* either all requests are served or there is a first one that is not *)
Lemma perm_dec_draw : forall (g : cset) (d : draw cand),
  {exists l, d = DPerm l /\ Permutation l g /\ NoDup l} +
  {~ exists l, d = DPerm l /\ Permutation l g /\ NoDup l}.
Proof.
  intros g d. destruct d as [l| | | | |]; try (right; intros (l0 & E & _); discriminate).
  destruct (is_perm_of cand ceqb l g) eqn:E.
  - left. exists l. destruct (is_perm_of_perm cand ceqb ceqb_spec l g E) as [Hp Hnd].
    split; [reflexivity|split; assumption].
  - right. intros (l0 & E0 & Hp & Hnd). injection E0 as <-.
    rewrite (is_perm_of_intro cand ceqb ceqb_spec l g (Permutation_NoDup Hp Hnd) Hp) in E. discriminate.
Qed.

Lemma serves_or_next : forall reqs (s : mstate), serves reqs s \/ next_unserved reqs s.
Proof.
  induction reqs as [|g reqs IH]; intros s; [left; apply serves_nil|].
  destruct (scr s) as [|d rest0] eqn:Hscr.
  - right. exists [], g, reqs, [], []. rewrite Hscr. split; [reflexivity|]. split; [reflexivity|].
    split; [constructor|]. intros (l & rest' & E & _). discriminate.
  - destruct (perm_dec_draw g d) as [Hyes|Hno].
    + destruct Hyes as (l & -> & Hp & Hnd). destruct (IH (mkM rest0 [])) as [Hs|Hn].
      * left. apply (serves_cons_intro g reqs s l rest0 Hscr Hp Hnd Hs).
      * right. destruct Hn as (pre & g' & post & ls & rest & E1 & E2 & HF & Hbad). cbn [scr] in E2.
        exists (g :: pre), g', post, (l :: ls), rest. rewrite Hscr, E1, E2. cbn [map app].
        split; [reflexivity|]. split; [reflexivity|]. split; [|exact Hbad].
        constructor; [split; assumption|exact HF].
    + right. exists [], g, reqs, [], (d :: rest0). rewrite Hscr. split; [reflexivity|].
      split; [reflexivity|]. split; [constructor|]. intros (l & rest' & E & Hp & Hnd).
      injection E as -> _. apply Hno. exists l. split; [reflexivity|split; assumption].
Qed.

Lemma next_unserved_not_served : forall reqs (s : mstate), next_unserved reqs s -> ~ serves reqs s.
Proof.
  intros reqs s (pre & g & post & ls & rest & E1 & E2 & HF & Hbad) (ls' & rest' & E3 & HF').
  subst reqs. apply Forall2_app_inv_r in HF'. destruct HF' as (l1 & l2 & HF1 & HF2 & ->).
  inversion HF2 as [|l g' l2' post' [Hp Hnd] HF3]; subst.
  rewrite E2 in E3. rewrite map_app in E3. cbn [map] in E3. rewrite <- app_assoc in E3. cbn [app] in E3.
  assert (Hlen : length (map (fun l0 : list cand => DPerm l0) ls) =
                 length (map (fun l0 : list cand => DPerm l0) l1)).
  { rewrite !map_length. rewrite (Forall2_length HF), (Forall2_length HF1). reflexivity. }
  destruct (app_inj_len _ _ _ _ Hlen E3) as [_ Hrest].
  apply Hbad. exists l. eexists. split; [exact Hrest|split; assumption].
Qed.

Theorem unserved_iff_next : forall reqs (s : mstate), ~ serves reqs s <-> next_unserved reqs s.
Proof.
  intros reqs s. split.
  - intros Hns. destruct (serves_or_next reqs s) as [Hs|Hn]; [contradiction|exact Hn].
  - apply next_unserved_not_served.
Qed.

(* one draw *)
Lemma draw_perm_served : forall g (s : mstate), serves [g] s ->
  exists l s', draw_perm g s = inl (l, s').
Proof.
  intros g [sc lg0] Hs. destruct (serves_cons_inv g [] _ Hs) as (l & rest & Hscr & Hp & Hnd & _).
  cbn [scr] in Hscr. subst sc. exists l. eexists.
  apply (draw_perm_run cand ceqb ceqb_spec g l rest lg0 Hp Hnd).
Qed.

(* random_break: served iff it succeeds *)
Lemma random_break_served : forall (r : ranking) (s : mstate), serves (filter big r) s ->
  exists t s', random_break r s = inl (t, s').
Proof.
  induction r as [|g r IH]; intros s Hs.
  - cbn [Core.random_break]. eexists. eexists. reflexivity.
  - cbn [Core.random_break].
    assert (Hsmall : big g = false ->
              exists t s', (do! rest := random_break r in mret (g :: rest)) s = inl (t, s')).
    { intros Hb. cbn [filter] in Hs. rewrite Hb in Hs. destruct (IH s Hs) as (t & s' & E).
      unfold mbind. rewrite E. eexists. eexists. reflexivity. }
    destruct g as [|c [|c' g']]; [apply Hsmall; reflexivity|apply Hsmall; reflexivity|]. clear Hsmall.
    assert (Hb : big (c :: c' :: g') = true) by reflexivity.
    cbn [filter] in Hs. rewrite Hb in Hs. destruct s as [sc lg0].
    destruct (serves_cons_inv _ _ _ Hs) as (l & rest & Hscr & Hp & Hnd & Hrest).
    cbn [scr] in Hscr. subst sc. unfold mbind at 1.
    rewrite (draw_perm_run cand ceqb ceqb_spec (c :: c' :: g') l rest lg0 Hp Hnd).
    destruct (IH _ (Hrest (CSample (c :: c' :: g') :: lg0))) as (t & s' & E).
    unfold mbind. rewrite E. eexists. eexists. reflexivity.
Qed.

Lemma random_break_ok_serves : forall (r : ranking) (s s' : mstate) t,
  random_break r s = inl (t, s') -> serves (filter big r) s.
Proof.
  intros r s s' t H. destruct (random_break_trace cand ceqb ceqb_spec r s s' t H) as (ls & H1 & _ & H3 & _).
  exists ls, (scr s'). split; assumption.
Qed.

(* the core of a scored tiebreak *)
Lemma scored_core_served : forall (r : ranking) (s : mstate), serves (filter big r) s ->
  exists t s', (if existsb (fun g => Nat.ltb 1 (length g)) r then random_break r else mret r) s
               = inl (t, s').
Proof.
  intros r s Hs. destruct (existsb (fun g => Nat.ltb 1 (length g)) r).
  - apply random_break_served. exact Hs.
  - eexists. eexists. reflexivity.
Qed.

(* a successful tiebreak was served *)
Lemma tb_ok_serves : forall g (q : profile) kind (s s' : mstate) tt,
  tiebreak_set g (Some q) kind s = inl (tt, s') -> serves (tb_requests kind q g) s.
Proof.
  intros g q kind s s' tt H. destruct kind.
  - destruct (c10_random_trace_proof cand ceqb ceqb_spec g (Some q) s s' tt H) as (l & H1 & _ & _ & Hp & Hnd).
    unfold LiveSpec.tb_requests. exists [l], (scr s'). split; [exact H1|].
    constructor; [split; assumption|constructor].
  - pose proof H as H0. cbn [Core.tiebreak_set] in H0. apply mbind_lift_inv in H0.
    destruct H0 as (d & Hd & _).
    destruct (c10_scored_trace_proof cand ceqb ceqb_spec g q TBFirstPlace d s s' tt
                (or_introl (conj eq_refl Hd)) H) as (ls & H1 & _ & H3 & _).
    unfold LiveSpec.tb_requests. rewrite Hd. exists ls, (scr s'). split; assumption.
  - pose proof H as H0. cbn [Core.tiebreak_set] in H0. apply mbind_lift_inv in H0.
    destruct H0 as (d & Hd & _).
    destruct (c10_scored_trace_proof cand ceqb ceqb_spec g q TBBorda d s s' tt
                (or_intror (conj eq_refl Hd)) H) as (ls & H1 & _ & H3 & _).
    unfold LiveSpec.tb_requests. rewrite Hd. exists ls, (scr s'). split; assumption.
  - discriminate.
Qed.

(* a served tiebreak on a valid-or-empty profile succeeds *)
Lemma tb_served_ok : forall g (q : profile) kind (s : mstate), wf_stv0 q -> kind <> TBInvalid ->
  serves (tb_requests kind q g) s -> exists tt s', tiebreak_set g (Some q) kind s = inl (tt, s').
Proof.
  intros g q kind s Hwf Hk Hs. destruct kind.
  - cbn [Core.tiebreak_set]. unfold LiveSpec.tb_requests in Hs.
    destruct (draw_perm_served g s Hs) as (l & s' & E). unfold mbind. rewrite E.
    eexists. eexists. reflexivity.
  - cbn [Core.tiebreak_set]. unfold LiveSpec.tb_requests in Hs.
    destruct (fpv_succeeds cand ceqb ceqb_spec q Hwf) as [d Hd]. rewrite Hd in Hs |- *.
    unfold mbind, mlift. cbn. apply scored_core_served. exact Hs.
  - cbn [Core.tiebreak_set]. unfold LiveSpec.tb_requests in Hs.
    destruct (borda_succeeds cand ceqb ceqb_spec q Hwf) as [d Hd]. rewrite Hd in Hs |- *.
    unfold mbind, mlift. cbn. apply scored_core_served. exact Hs.
  - contradiction.
Qed.

(* hence a failing one was not served, and the error is the script's *)
Lemma tb_err_unserved : forall g (q : profile) kind (s : mstate) e, wf_stv0 q -> kind <> TBInvalid ->
  tiebreak_set g (Some q) kind s = inr e -> e = EScript /\ ~ serves (tb_requests kind q g) s.
Proof.
  intros g q kind s e Hwf Hk H. split.
  - destruct (tiebreak_set_err cand ceqb ceqb_spec g q kind s e Hwf H) as [He|[Hi _]]; [exact He|contradiction].
  - intros Hs. destruct (tb_served_ok g q kind s Hwf Hk Hs) as (tt & s' & E). rewrite E in H. discriminate.
Qed.

Theorem tb_served_iff : forall g (q : profile) kind (s : mstate), wf_stv0 q -> kind <> TBInvalid ->
  ((exists tt s', tiebreak_set g (Some q) kind s = inl (tt, s')) <-> serves (tb_requests kind q g) s) /\
  (forall e, tiebreak_set g (Some q) kind s = inr e -> e = EScript).
Proof.
  intros g q kind s Hwf Hk. split; [split|].
  - intros (tt & s' & E). apply (tb_ok_serves g q kind s s' tt E).
  - apply tb_served_ok; assumption.
  - intros e E. apply (tb_err_unserved g q kind s e Hwf Hk E).
Qed.

(* ====================== B: one round ====================== *)

Definition can_break (cfg : stv_cfg) : Prop :=
  s_simul cfg = true \/ exists kind, s_tiebreak cfg = Some kind /\ kind <> TBInvalid.

(* a failing round asked for something the script does not serve *)
Theorem step_err_unserved : forall cfg t N (p0 p : profile) prev older (s : mstate) e,
  stv_inv cfg t N p0 p (prev :: older) -> s_transfer cfg = TFractional -> 0 < t ->
  (count_elected (prev :: older) <= s_m cfg)%Z -> can_break cfg ->
  stv_step cfg t p0 (count_elected (prev :: older)) p prev s = inr e ->
  e = EScript /\
  exists reqs, round_asks cfg t (count_elected (prev :: older)) p0 p prev reqs /\ ~ serves reqs s.
Proof.
  intros cfg t N p0 p prev older s e Hinv Ek Ht Hle Hcb H.
  pose proof (inv_head_ctx cand ceqb _ _ _ _ _ _ _ Hinv) as [Hwf0 _ Hwf _].
  destruct (proj1 (step_error_iff cand ceqb ceqb_spec cfg t N p0 p prev older s e Hinv Ek Ht Hle) H)
    as [(Hsome & Hsim & g & rest & Hrem & Hlen & Hcase)|(Hnone & Hcnt & pre & low & Hrem & Hlen & Htie)].
  - destruct Hcase as [[Hn _]|(kind & Hkind & Htie)].
    + exfalso. destruct Hcb as [Hs|(k & Hk & _)]; congruence.
    + assert (Hne : kind <> TBInvalid).
      { destruct Hcb as [Hs|(k & Hk & Hk')]; [congruence|]. rewrite Hkind in Hk. injection Hk as ->. exact Hk'. }
      destruct (tb_err_unserved g p kind s e Hwf Hne Htie) as [He Hns]. split; [exact He|].
      exists (tb_requests kind p g). split; [|exact Hns].
      left. split; [exact Hsome|]. split; [exact Hsim|]. exists g, rest, kind. repeat split; assumption.
  - assert (Hne : TBFirstPlace <> TBInvalid) by discriminate.
    destruct (tb_err_unserved low p0 TBFirstPlace s e Hwf0 Hne Htie) as [He Hns]. split; [exact He|].
    exists (tb_requests TBFirstPlace p0 low). split; [|exact Hns].
    right. split; [exact Hnone|]. split; [exact Hcnt|]. exists pre, low. repeat split; assumption.
Qed.

(* a successful round was served whatever it asked *)
Theorem step_ok_served : forall cfg t N (p0 p : profile) prev older (s s' : mstate) np st reqs,
  stv_inv cfg t N p0 p (prev :: older) -> s_transfer cfg = TFractional -> 0 < t ->
  (count_elected (prev :: older) <= s_m cfg)%Z ->
  stv_step cfg t p0 (count_elected (prev :: older)) p prev s = inl ((np, st), s') ->
  round_asks cfg t (count_elected (prev :: older)) p0 p prev reqs -> serves reqs s.
Proof.
  intros cfg t N p0 p prev older s s' np st reqs Hinv Ek Ht Hle Hok Hasks.
  pose proof (step_error_iff cand ceqb ceqb_spec cfg t N p0 p prev older s) as Hiff.
  destruct Hasks as [(Hsome & Hsim & g & rest & kind & Hrem & Hlen & Hkind & ->)
                    |(Hnone & Hcnt & pre & low & Hrem & Hlen & ->)].
  - destruct (tiebreak_set g (Some p) kind s) as [[tt s1]|e] eqn:E.
    + apply (tb_ok_serves g p kind s s1 tt E).
    + exfalso. assert (Hf : stv_step cfg t p0 (count_elected (prev :: older)) p prev s = inr e).
      { apply (proj2 (Hiff e Hinv Ek Ht Hle)). left. split; [exact Hsome|]. split; [exact Hsim|].
        exists g, rest. split; [exact Hrem|]. split; [exact Hlen|]. right. exists kind. split; assumption. }
      rewrite Hf in Hok. discriminate.
  - destruct (tiebreak_set low (Some p0) TBFirstPlace s) as [[tt s1]|e] eqn:E.
    + apply (tb_ok_serves low p0 TBFirstPlace s s1 tt E).
    + exfalso. assert (Hf : stv_step cfg t p0 (count_elected (prev :: older)) p prev s = inr e).
      { apply (proj2 (Hiff e Hinv Ek Ht Hle)). right. split; [exact Hnone|]. split; [exact Hcnt|].
        exists pre, low. split; [exact Hrem|]. split; assumption. }
      rewrite Hf in Hok. discriminate.
Qed.

(* a round all of whose requests are served succeeds *)
Theorem step_served_ok : forall cfg t N (p0 p : profile) prev older (s : mstate),
  stv_inv cfg t N p0 p (prev :: older) -> s_transfer cfg = TFractional -> 0 < t ->
  (count_elected (prev :: older) <= s_m cfg)%Z -> can_break cfg ->
  (forall reqs, round_asks cfg t (count_elected (prev :: older)) p0 p prev reqs -> serves reqs s) ->
  exists np st s', stv_step cfg t p0 (count_elected (prev :: older)) p prev s = inl ((np, st), s').
Proof.
  intros cfg t N p0 p prev older s Hinv Ek Ht Hle Hcb Hall.
  destruct (stv_step cfg t p0 (count_elected (prev :: older)) p prev s) as [[[np st] s']|e] eqn:E.
  - exists np, st, s'. reflexivity.
  - exfalso. destruct (step_err_unserved cfg t N p0 p prev older s e Hinv Ek Ht Hle Hcb E)
      as (_ & reqs & Hasks & Hns). apply Hns. apply Hall. exact Hasks.
Qed.

(* ====================== C: the points a count passes through ====================== *)

Lemma reached_trans : forall cfg t p0 pa stsa (sa : mstate) pb stsb sb pc stsc sc,
  reached cfg t p0 pa stsa sa pb stsb sb -> reached cfg t p0 pb stsb sb pc stsc sc ->
  reached cfg t p0 pa stsa sa pc stsc sc.
Proof.
  intros cfg t p0 pa stsa sa pb stsb sb pc stsc sc Hab Hbc.
  induction Hbc as [|pr prev older s1 np st s2 Hbc IH Hcnt Hstep]; [exact Hab|].
  apply (reached_next cand ceqb cfg t p0 pa stsa sa pr prev older s1 np st s2 IH Hcnt Hstep).
Qed.

Section Droop.
Variable cfg : stv_cfg.
Variables t N : Q.
Variable p0 : profile.
Hypothesis Ek : s_transfer cfg = TFractional.
Hypothesis HN : N < inject_Z (s_m cfg + 1) * t.
Hypothesis Ht : 0 < t.

Lemma Hk_of : s_transfer cfg <> TFullWeight.
Proof. rewrite Ek. discriminate. Qed.
Lemma Hscr_of : forall s : mstate, s_transfer cfg = TRandom -> script_ok s.
Proof. intros s E. rewrite Ek in E. discriminate. Qed.

(* the invariant and "at most m elected" hold at every point the count passes through *)
Lemma reached_inv : forall pa stsa (sa : mstate) pb stsb sb,
  reached cfg t p0 pa stsa sa pb stsb sb ->
  stv_inv cfg t N p0 pa stsa -> (count_elected stsa <= s_m cfg)%Z ->
  stv_inv cfg t N p0 pb stsb /\ (count_elected stsb <= s_m cfg)%Z.
Proof.
  intros pa stsa sa pb stsb sb H Hinv Hle.
  induction H as [|pr prev older s1 np st s2 Hr IH Hcnt Hstep]; [split; assumption|].
  destruct IH as [Hinv1 Hle1]. split.
  - apply (stv_inv_step cand ceqb ceqb_spec cfg t N p0 pr prev older s1 s2 np st Hinv1 (Hscr_of s1) Hstep).
  - apply (droop_step_count cand ceqb ceqb_spec cfg t N p0 Hk_of HN Ht pr prev older s1 s2 np st
             Hinv1 (Hscr_of s1) Hle1 Hstep).
Qed.

(* a failing loop failed in a round that starts at a point the count passes through *)
Lemma loop_err_reached : forall fuel (p : profile) prev older (s : mstate) e,
  stv_loop fuel cfg t p0 p (prev :: older) s = inr e ->
  e = EFuel \/
  exists (pr : profile) prev' older' (s1 : mstate),
    reached cfg t p0 p (prev :: older) s pr (prev' :: older') s1 /\
    count_elected (prev' :: older') <> s_m cfg /\
    stv_step cfg t p0 (count_elected (prev' :: older')) pr prev' s1 = inr e.
Proof.
  induction fuel as [|fuel IH]; intros p prev older s e H; rewrite (stv_loop_unfold cand ceqb) in H.
  - destruct (Z.eqb (count_elected (prev :: older)) (s_m cfg)); [discriminate|].
    injection H as <-. left. reflexivity.
  - destruct (Z.eqb (count_elected (prev :: older)) (s_m cfg)) eqn:Ecnt; [discriminate|].
    apply Z.eqb_neq in Ecnt.
    destruct (stv_step cfg t p0 (count_elected (prev :: older)) p prev s) as [[[np st] s1]|e'] eqn:Es.
    + destruct (IH np st (prev :: older) s1 e H) as [->|(pr & prev' & older' & s2 & Hr & Hc & Hs)];
        [left; reflexivity|].
      right. exists pr, prev', older', s2. split; [|split; assumption].
      apply (reached_trans cfg t p0 p (prev :: older) s np (st :: prev :: older) s1); [|exact Hr].
      apply (reached_next cand ceqb cfg t p0 p (prev :: older) s p prev older s np st s1
               (reached_here cand ceqb cfg t p0 p (prev :: older) s) Ecnt Es).
    + injection H as <-. right. exists p, prev, older, s.
      split; [apply reached_here|]. split; [exact Ecnt|exact Es].
Qed.

(* a succeeding loop succeeds (with the same answer) from every point it passes through *)
Lemma loop_ok_reached : forall pa stsa (sa : mstate) pb stsb sb,
  reached cfg t p0 pa stsa sa pb stsb sb ->
  forall fuel r, stv_loop fuel cfg t p0 pa stsa sa = inl r ->
  exists fuel', stv_loop fuel' cfg t p0 pb stsb sb = inl r.
Proof.
  intros pa stsa sa pb stsb sb H.
  induction H as [|pr prev older s1 np st s2 Hr IH Hcnt Hstep]; intros fuel r Hl.
  - exists fuel. exact Hl.
  - destruct (IH fuel r Hl) as [f1 H1]. rewrite (stv_loop_unfold cand ceqb) in H1.
    apply Z.eqb_neq in Hcnt. rewrite Hcnt in H1.
    destruct f1 as [|f2]; [discriminate|]. rewrite Hstep in H1. exists f2. exact H1.
Qed.

Lemma loop_ok_step : forall fuel (p : profile) prev older (s : mstate) r,
  stv_loop fuel cfg t p0 p (prev :: older) s = inl r ->
  count_elected (prev :: older) <> s_m cfg ->
  exists np st s', stv_step cfg t p0 (count_elected (prev :: older)) p prev s = inl ((np, st), s').
Proof.
  intros fuel p prev older s r H Hcnt. rewrite (stv_loop_unfold cand ceqb) in H.
  apply Z.eqb_neq in Hcnt. rewrite Hcnt in H. destruct fuel as [|f]; [discriminate|].
  destruct (stv_step cfg t p0 (count_elected (prev :: older)) p prev s) as [[[np st] s']|e]; [|discriminate].
  exists np, st, s'. reflexivity.
Qed.

End Droop.

(* ====================== D: the run ====================== *)

(* what a Droop / fractional run starts from *)
Lemma run_start : forall cfg (p : profile), wf_stv0 p -> s_quota cfg = QDroop ->
  s_transfer cfg = TFractional -> (1 <= s_m cfg <= Z.of_nat (length (cands p)))%Z ->
  exists t s0, stv_init cfg p = inl t /\ initial_state p = inl s0.
Proof.
  intros cfg p Hwf Hq Ek Hm. destruct (initial_state_ok cand ceqb ceqb_spec p Hwf) as [s0 E0].
  destruct (stv_init cfg p) as [t|e] eqn:Ei; [exists t, s0; split; [reflexivity|exact E0]|].
  exfalso. assert (Hint : s_transfer cfg = TRandom -> integral_weights cand p) by (intros E; congruence).
  destruct (stv_init_err cand cfg p e Hwf Hint Ei) as [_ [Hbad|Hbad]]; [contradiction|congruence].
Qed.

Lemma run_facts : forall cfg (p : profile) t s0, wf_stv0 p -> s_quota cfg = QDroop ->
  stv_init cfg p = inl t -> initial_state p = inl s0 ->
  total_wt (ballots p) < inject_Z (s_m cfg + 1) * t /\ 0 < t /\
  stv_inv cfg t (total_wt (ballots p)) p p [s0] /\ (count_elected [s0] <= s_m cfg)%Z /\
  (1 <= s_m cfg <= Z.of_nat (length (cands p)))%Z.
Proof.
  intros cfg p t s0 Hwf Hq Ei E0.
  pose proof (threshold_value cand cfg p t Ei (total_wt_nonneg cand p Hwf)) as [Hm Hqv].
  cbv zeta in Hm, Hqv. rewrite Hq in Hqv. destruct Hqv as (_ & HN & H1).
  split; [exact HN|]. split; [lra|]. split; [apply (stv_inv_init cand ceqb cfg p t s0 Hwf Ei E0)|].
  split; [|exact Hm].
  destruct (initial_state_inv cand ceqb p s0 E0) as (_ & Hel & _).
  rewrite (count_elected_all cand). unfold STVSpec.all_elected, STVSpec.elected_in. cbn [map concat].
  rewrite Hel. cbn. lia.
Qed.

(* a failing run: the error is EScript and it was raised in a round, reached by the count, that
   asked random.sample to order sets the script left at that point does not serve *)
Theorem run_err_unserved : forall cfg (p : profile) (s : mstate) e,
  wf_stv0 p -> s_quota cfg = QDroop -> s_transfer cfg = TFractional ->
  (1 <= s_m cfg <= Z.of_nat (length (cands p)))%Z -> can_break cfg ->
  run_stv cfg p s = inr e ->
  e = EScript /\
  exists t s0 (pr : profile) prev older (s1 : mstate) reqs,
    stv_init cfg p = inl t /\ initial_state p = inl s0 /\
    reached cfg t p p [s0] s pr (prev :: older) s1 /\
    count_elected (prev :: older) <> s_m cfg /\
    round_asks cfg t (count_elected (prev :: older)) p pr prev reqs /\
    ~ serves reqs s1.
Proof.
  intros cfg p s e Hwf Hq Ek Hm Hcb H.
  destruct (run_start cfg p Hwf Hq Ek Hm) as (t & s0 & Ei & E0).
  destruct (run_facts cfg p t s0 Hwf Hq Ei E0) as (HN & Ht & Hinv & Hle & _).
  assert (Hscr : s_transfer cfg = TRandom -> script_ok s) by (intros E; congruence).
  pose proof (run_stv_no_fuel cand ceqb ceqb_spec cfg p s Hwf Hscr) as Hnf.
  rewrite (run_stv_unfold cand ceqb) in H, Hnf. rewrite Ei, E0 in H, Hnf.
  destruct (loop_err_reached cfg t p _ p s0 [] s e H) as [->|(pr & prev & older & s1 & Hr & Hc & Hs)].
  - exfalso. apply Hnf. exact H.
  - destruct (reached_inv cfg t _ p Ek HN Ht p [s0] s pr (prev :: older) s1 Hr Hinv Hle) as [Hinv1 Hle1].
    destruct (step_err_unserved cfg t _ p pr prev older s1 e Hinv1 Ek Ht Hle1 Hcb Hs)
      as (He & reqs & Hasks & Hns).
    split; [exact He|]. exists t, s0, pr, prev, older, s1, reqs. repeat (split; [assumption|]). exact Hns.
Qed.

(* the same with the failing draw pointed at: the script left at that point answers the first
   requests of the round and its next draw is not a duplicate-free permutation of the next set *)
Theorem run_err_next_draw : forall cfg (p : profile) (s : mstate) e,
  wf_stv0 p -> s_quota cfg = QDroop -> s_transfer cfg = TFractional ->
  (1 <= s_m cfg <= Z.of_nat (length (cands p)))%Z -> can_break cfg ->
  run_stv cfg p s = inr e ->
  e = EScript /\
  exists t s0 (pr : profile) prev older (s1 : mstate) reqs,
    stv_init cfg p = inl t /\ initial_state p = inl s0 /\
    reached cfg t p p [s0] s pr (prev :: older) s1 /\
    count_elected (prev :: older) <> s_m cfg /\
    round_asks cfg t (count_elected (prev :: older)) p pr prev reqs /\
    next_unserved reqs s1.
Proof.
  intros cfg p s e Hwf Hq Ek Hm Hcb H.
  destruct (run_err_unserved cfg p s e Hwf Hq Ek Hm Hcb H)
    as (He & t & s0 & pr & prev & older & s1 & reqs & Ei & E0 & Hr & Hc & Hasks & Hns).
  split; [exact He|]. exists t, s0, pr, prev, older, s1, reqs. repeat (split; [assumption|]).
  apply (proj1 (unserved_iff_next reqs s1)). exact Hns.
Qed.

(* hence such a script is not admissible ... *)
Corollary run_err_inadmissible : forall cfg (p : profile) (s : mstate) e,
  wf_stv0 p -> s_quota cfg = QDroop -> s_transfer cfg = TFractional ->
  (1 <= s_m cfg <= Z.of_nat (length (cands p)))%Z -> can_break cfg ->
  run_stv cfg p s = inr e -> e = EScript /\ ~ admissible_script cfg p s.
Proof.
  intros cfg p s e Hwf Hq Ek Hm Hcb H.
  destruct (run_err_unserved cfg p s e Hwf Hq Ek Hm Hcb H)
    as (He & t & s0 & pr & prev & older & s1 & reqs & Ei & E0 & Hr & Hc & Hasks & Hns).
  split; [exact He|]. intros Hadm. apply Hns.
  apply (Hadm t s0 pr prev older s1 reqs Ei E0 Hr Hc Hasks).
Qed.

(* ... and with an admissible script the run succeeds *)
Theorem run_live : forall cfg (p : profile) (s : mstate),
  wf_stv0 p -> s_quota cfg = QDroop -> s_transfer cfg = TFractional ->
  (1 <= s_m cfg <= Z.of_nat (length (cands p)))%Z -> can_break cfg ->
  admissible_script cfg p s -> exists out s', run_stv cfg p s = inl (out, s').
Proof.
  intros cfg p s Hwf Hq Ek Hm Hcb Hadm.
  destruct (run_stv cfg p s) as [[out s']|e] eqn:E; [exists out, s'; reflexivity|].
  exfalso. apply (proj2 (run_err_inadmissible cfg p s e Hwf Hq Ek Hm Hcb E)). exact Hadm.
Qed.

(* conversely the script of a successful run is admissible *)
Theorem run_ok_admissible : forall cfg (p : profile) (s s' : mstate) out,
  wf_stv0 p -> s_quota cfg = QDroop -> s_transfer cfg = TFractional ->
  run_stv cfg p s = inl (out, s') -> admissible_script cfg p s.
Proof.
  intros cfg p s s' out Hwf Hq Ek H t s0 pr prev older s1 reqs Ei E0 Hr Hc Hasks.
  destruct (run_facts cfg p t s0 Hwf Hq Ei E0) as (HN & Ht & Hinv & Hle & _).
  rewrite (run_stv_unfold cand ceqb) in H. rewrite Ei, E0 in H.
  destruct (loop_ok_reached cfg t p p [s0] s pr (prev :: older) s1 Hr _ _ H) as [f1 H1].
  destruct (loop_ok_step cfg t p f1 pr prev older s1 _ H1 Hc) as (np & st & s2 & Hs).
  destruct (reached_inv cfg t _ p Ek HN Ht p [s0] s pr (prev :: older) s1 Hr Hinv Hle) as [Hinv1 Hle1].
  apply (step_ok_served cfg t _ p pr prev older s1 s2 np st reqs Hinv1 Ek Ht Hle1 Hs Hasks).
Qed.

Theorem run_ok_iff_admissible : forall cfg (p : profile) (s : mstate),
  wf_stv0 p -> s_quota cfg = QDroop -> s_transfer cfg = TFractional ->
  (1 <= s_m cfg <= Z.of_nat (length (cands p)))%Z -> can_break cfg ->
  ((exists out s', run_stv cfg p s = inl (out, s')) <-> admissible_script cfg p s).
Proof.
  intros cfg p s Hwf Hq Ek Hm Hcb. split.
  - intros (out & s' & H). apply (run_ok_admissible cfg p s s' out Hwf Hq Ek H).
  - apply run_live; assumption.
Qed.

(* a script with nothing left is admissible exactly when the count never asks for a draw *)

(* ====================== E: corollaries ====================== *)

(* C01: with an admissible script the count returns, elects exactly m different candidates and every
   recorded round partitions the candidates *)
Theorem live_outcome : forall cfg (p : profile) (s : mstate),
  wf_stv0 p -> s_quota cfg = QDroop -> s_transfer cfg = TFractional ->
  (1 <= s_m cfg <= Z.of_nat (length (cands p)))%Z -> can_break cfg ->
  admissible_script cfg p s ->
  exists out s', run_stv cfg p s = inl (out, s') /\
    count_elected out = s_m cfg /\ NoDup (all_elected cand out) /\
    forall r st, nth_error out r = Some st ->
      Permutation (flat (STVSpec.elected_upto cand out r) ++ flat (remaining st) ++
                   flat (STVSpec.eliminated_upto cand out r)) (cands p).
Proof.
  intros cfg p s Hwf Hq Ek Hm Hcb Hadm.
  destruct (run_live cfg p s Hwf Hq Ek Hm Hcb Hadm) as (out & s' & H).
  assert (Hscr : s_transfer cfg = TRandom -> script_ok s) by (intros E; congruence).
  exists out, s'. split; [exact H|].
  destruct (run_stv_count cand ceqb ceqb_spec cfg p s s' out Hwf Hscr H) as [Hc Hnd].
  split; [exact Hc|]. split; [exact Hnd|].
  apply (run_stv_partition cand ceqb ceqb_spec cfg p s s' out Hwf Hscr H).
Qed.

(* C07: Droop proportionality for solid coalitions, unconditionally for admissible scripts *)
Theorem droop_pc_live : forall cfg (p : profile) (A : cset) (k : nat) t (s : mstate),
  wf_stv_profile p -> s_quota cfg = QDroop -> s_transfer cfg = TFractional -> can_break cfg ->
  NoDup A -> incl A (cands p) -> stv_init cfg p = inl t ->
  Qnat k * t <= coal_wt cand ceqb A (ballots p) ->
  admissible_script cfg p s ->
  exists out s', run_stv cfg p s = inl (out, s') /\
    (Nat.min k (Nat.min (length A) (Z.to_nat (s_m cfg)))
     <= winners_in cand ceqb A (flat (STVSpec.elected_upto cand out (length out - 1))))%nat.
Proof.
  intros cfg p A k t s Hwfp Hq Ek Hcb HA Hincl Ei Hcoal Hadm.
  pose proof (proj1 Hwfp) as Hwf.
  pose proof (threshold_value cand cfg p t Ei (total_wt_nonneg cand p Hwf)) as [Hm _]. cbv zeta in Hm.
  destruct (run_live cfg p s Hwf Hq Ek Hm Hcb Hadm) as (out & s' & H).
  exists out, s'. split; [exact H|].
  assert (Hk : s_transfer cfg <> TFullWeight) by (rewrite Ek; discriminate).
  assert (Hscr : s_transfer cfg = TRandom -> script_ok s) by (intros E; congruence).
  apply (droop_pc cand ceqb ceqb_spec cfg p A k t s s' out Hwfp Hq Hk Hscr HA Hincl Ei Hcoal H).
Qed.

(* C07 / IRV: m = 1 *)
Theorem irv_majority_live : forall cfg (p : profile) (c : cand) t (s : mstate),
  wf_stv_profile p -> s_quota cfg = QDroop -> s_transfer cfg = TFractional -> can_break cfg ->
  s_m cfg = 1%Z -> In c (cands p) -> stv_init cfg p = inl t -> t <= tally c (ballots p) ->
  admissible_script cfg p s ->
  exists out s', run_stv cfg p s = inl (out, s') /\
    flat (STVSpec.elected_upto cand out (length out - 1)) = [c].
Proof.
  intros cfg p c t s Hwfp Hq Ek Hcb Hm1 Hc Ei Htally Hadm.
  pose proof (proj1 Hwfp) as Hwf.
  pose proof (threshold_value cand cfg p t Ei (total_wt_nonneg cand p Hwf)) as [Hm _]. cbv zeta in Hm.
  destruct (run_live cfg p s Hwf Hq Ek Hm Hcb Hadm) as (out & s' & H).
  exists out, s'. split; [exact H|].
  assert (Hk : s_transfer cfg <> TFullWeight) by (rewrite Ek; discriminate).
  assert (Hscr : s_transfer cfg = TRandom -> script_ok s) by (intros E; congruence).
  apply (irv_majority cand ceqb ceqb_spec cfg p c t s s' out Hwfp Hq Hk Hscr Hm1 Hc Ei Htally H).
Qed.

(* IRV (m = 1): with an admissible script the count returns exactly one winner *)
Theorem irv_live : forall cfg (p : profile) (s : mstate),
  wf_stv_profile p -> s_quota cfg = QDroop -> s_transfer cfg = TFractional -> can_break cfg ->
  s_m cfg = 1%Z -> admissible_script cfg p s ->
  exists out s' w, run_stv cfg p s = inl (out, s') /\
    flat (STVSpec.elected_upto cand out (length out - 1)) = [w] /\ In w (cands p).
Proof.
  intros cfg p s [Hwf [Hcne _]] Hq Ek Hcb Hm1 Hadm.
  assert (Hm : (1 <= s_m cfg <= Z.of_nat (length (cands p)))%Z).
  { rewrite Hm1. destruct (cands p) as [|c cs]; [contradiction|]. cbn [length]. lia. }
  destruct (live_outcome cfg p s Hwf Hq Ek Hm Hcb Hadm) as (out & s' & H & Hc & Hnd & Hpart).
  rewrite (count_elected_all cand) in Hc. rewrite Hm1 in Hc.
  rewrite <- (elected_upto_last cand) in Hc.
  destruct (flat (STVSpec.elected_upto cand out (length out - 1))) as [|w [|w' l]] eqn:E;
    cbn [length] in Hc; try lia.
  exists out, s', w. split; [exact H|]. split; [exact E|].
  assert (Hlen : (length out - 1 < length out)%nat).
  { destruct out as [|st out']; [|cbn [length]; lia]. cbn in E. discriminate. }
  destruct (nth_error out (length out - 1)) as [st|] eqn:En; [|apply nth_error_None in En; lia].
  eapply Permutation_in; [apply (Hpart _ st En)|]. apply in_or_app. left. rewrite E. left. reflexivity.
Qed.

End Live.
