(* Proofs/C01_hare_lib.v — C01, STV family, every quota and every transfer rule (Hare quota and
   SequentialRCV included): what a failing round looks like under the loop invariant
   (step_failure), what a successful round does to the number of elected candidates
   (step_count_cases), and the generic "a failing loop failed at a reachable round" lemma with a
   user-supplied extra invariant (loop_error_round). *)
From VK Require Import Base Core STV Rules EditSpec ScoreSpec.
From VK.Spec Require Import STVSpec STVErrSpec.
From VK.Proofs Require Import Lib_sets Lib_rk Lib_condense Lib_condense12 C12_edit C03_transfer
  C04_scoring Elect STV_lib STV_wsum STV_tb STV_step STV_round STV_threshold STV_weights STV_inv
  STV_cases STV_final.
From Coq Require Import Permutation Lia Lqa Setoid Morphisms Qround.

Section WithCand.
Variable cand : Type.
Variable ceqb : cand -> cand -> bool.
Hypothesis ceqb_spec : forall a b, reflect (a = b) (ceqb a b).

Notation cset := (cset cand).
Notation ranking := (ranking cand).
Notation ballot := (ballot cand).
Notation profile := (profile cand).
Notation scores := (scores cand).
Notation mstate := (mstate cand).
Notation estate := (estate cand).
Notation flat := (flat cand).
Notation total_wt := (total_wt cand).
Notation tally := (tally cand ceqb).
Notation wf_stv0 := (wf_stv0 cand).
Notation state_of := (state_of cand ceqb).
Notation step_ctx := (step_ctx cand ceqb).
Notation script_ok := (script_ok cand).
Notation scr_suffix := (scr_suffix cand).
Notation reaches := (reaches cand ceqb).
Notation count_elected := (count_elected cand).
Notation elected_in := (elected_in cand).
Notation stv_inv := (STVSpec.stv_inv cand ceqb).
Notation stv_step := (stv_step cand ceqb).
Notation stv_loop := (stv_loop cand ceqb).
Notation stv_init := (stv_init cand).
Notation run_stv := (run_stv cand ceqb).
Notation initial_state := (initial_state cand ceqb).
Notation lookup0 := (lookup0 cand ceqb).
Notation pile := (pile cand ceqb).
Notation tiebreak_set := (tiebreak_set cand ceqb).
Notation seat_tie_failure := (seat_tie_failure cand ceqb).
Notation zero_tally_failure := (zero_tally_failure cand ceqb).
Notation random_transfer_failure := (random_transfer_failure cand ceqb).
Notation elim_tie_failure := (elim_tie_failure cand ceqb).
Notation overfilled_failure := (overfilled_failure cand).
Notation round_failure := (round_failure cand ceqb).
Notation overelecting_round := (overelecting_round cand ceqb).

Lemma inv_ctx_head : forall cfg t N (p0 p : profile) st older,
  stv_inv cfg t N p0 p (st :: older) -> step_ctx p0 p st.
Proof.
  intros cfg t N p0 p st older [(prev & older' & Heq & Hctx) _ _ _ _ _].
  injection Heq as <- <-. exact Hctx.
Qed.

Lemma Qfloor_eq : forall a b, a == b -> Qfloor a = Qfloor b.
Proof. intros a b H. rewrite H. reflexivity. Qed.

(* ====================== a failing round ====================== *)

Theorem step_failure : forall cfg t N (p0 p : profile) prev older (s : mstate) e,
  stv_inv cfg t N p0 p (prev :: older) ->
  (s_transfer cfg = TRandom -> script_ok s) ->
  stv_step cfg t p0 (count_elected (prev :: older)) p prev s = inr e ->
  round_failure cfg t p0 p prev older s e.
Proof.
  intros cfg t N p0 p prev older s e Hinv Hscr Hstep.
  pose proof (inv_ctx_head _ _ _ _ _ _ _ Hinv) as Hctx.
  pose proof (inv_enough _ _ _ _ _ _ _ _ Hinv) as Henough.
  pose proof (inv_t_nonneg _ _ _ _ _ _ _ _ Hinv) as Ht0.
  pose proof (ctx_wf cand ceqb p0 p prev Hctx) as Hwf.
  unfold STVErrSpec.round_failure.
  destruct (stv_step_err_inv cand ceqb ceqb_spec cfg t p0 p prev Hctx _ s e Hscr Hstep)
    as [((c0 & Hc0 & Hc0t) & Hsim & g & rest & Hr & Hlen & Hcase)
       |[(w & s1 & Hw & Hreach & Hsuf & Hd)|[(Hnone & low & Htb)|(Hnone & He & Ecs & Hm)]]].
  - (* tie for the seat *)
    left. split; [exact Hsim|]. exists g, rest. split; [exact Hr|]. split; [exact Hlen|]. split.
    { intros w Hw.
      destruct (first_group_tied cand ceqb ceqb_spec p0 p prev Hctx g rest w Hr Hw) as [Hmax Htied].
      split; [|split; [exact Hmax|exact Htied]].
      split; [apply Hmax|]. eapply Qle_trans; [exact Hc0t|]. apply (proj2 Hmax). exact Hc0. }
    destruct Hcase as [[Hnone He]|(kind & Hkind & Htb)].
    + left. split; [exact He|]. left. exact Hnone.
    + destruct (tiebreak_set_err cand ceqb ceqb_spec g p kind s e Hwf Htb) as [He|[Hk He]].
      * right. split; [exact He|]. exists kind. split; [exact Hkind|]. rewrite <- He. exact Htb.
      * left. split; [exact He|]. right. rewrite Hkind, Hk. reflexivity.
  - (* the transfer of a winner fails *)
    pose proof (proj2 (ctx_score cand ceqb ceqb_spec p0 p prev Hctx w Hw)) as Hfpv.
    destruct (s_transfer cfg) eqn:Ek; cbn [STV.do_transfer] in Hd.
    + right. left. unfold mlift in Hd.
      destruct (frac_transfer cand ceqb w _ (pile p w) t) as [a|e'] eqn:E; [discriminate|].
      injection Hd as ->.
      destruct (frac_errors cand ceqb w (lookup0 w (escores prev)) (pile p w) t) as (Hz & Hty & Hkinds).
      destruct (Hkinds e E) as [He|He]; subst e.
      * apply Hz in E. rewrite Hfpv in E.
        split; [reflexivity|]. split; [exact Ek|]. split.
        { rewrite E in Hreach. apply Qle_antisym; assumption. }
        exists w. split; [exact Hw|exact E].
      * exfalso. apply Hty in E. destruct E as [_ (b & Hb & Hrk)]. apply pile_in in Hb.
        destruct Hwf as [_ Hwfb]. rewrite Forall_forall in Hwfb.
        apply (proj1 (Hwfb b (proj1 Hb))). exact Hrk.
    + right. right. left. split; [exact Ek|]. exists w. split; [split; assumption|].
      destruct (rand_errors cand ceqb w (lookup0 w (escores prev)) (pile p w) t s1)
        as (HT & HV & Hkinds).
      destruct (Hkinds e Hd) as [He|[He|He]]; subst e.
      * left. split; [reflexivity|]. apply HT in Hd. destruct Hd as (b & Hb & [Hi|Hrk]).
        -- apply pile_in in Hb. exists b. split; [apply Hb|]. split; [apply Hb|exact Hi].
        -- exfalso. apply pile_in in Hb. destruct Hwf as [_ Hwfb]. rewrite Forall_forall in Hwfb.
           apply (proj1 (Hwfb b (proj1 Hb))). exact Hrk.
      * right. left. split; [reflexivity|]. apply HV in Hd. destruct Hd as [_ Hk].
        assert (Hfp : 0 <= lookup0 w (escores prev)) by (rewrite Hfpv; lra).
        rewrite (Qtrunc_floor _ Hfp), (Qtrunc_floor _ Ht0), (Qfloor_eq _ _ Hfpv) in Hk.
        assert (Hmono : (Qfloor t <= Qfloor (tally w (ballots p)))%Z) by (apply Qfloor_resp_le; exact Hreach).
        destruct Hk as [Hk|Hk]; [lia|]. exact Hk.
      * right. right. reflexivity.
    + discriminate.
  - (* the elimination tiebreak fails *)
    right. right. right. left.
    destruct (tiebreak_set_err cand ceqb ceqb_spec low p0 TBFirstPlace s e (ctx_p0 cand ceqb p0 p prev Hctx) Htb)
      as [He|[E _]]; [|discriminate].
    subst e. clear low Htb. split; [reflexivity|]. split; [exact Hnone|].
    set (n := count_elected (prev :: older)) in *.
    assert (Ea : above cand t (escores prev) = []).
    { apply (above_nil_iff cand ceqb ceqb_spec p0 p prev Hctx t). exact Hnone. }
    destruct (Z.eqb (Z.of_nat (length (cands p))) (s_m cfg - n)) eqn:En.
    { rewrite (stv_step_default cand ceqb cfg t p0 n p prev s Ea En) in Hstep. discriminate. }
    split; [apply Z.eqb_neq; exact En|].
    rewrite (stv_step_elim cand ceqb cfg t p0 n p prev s Ea En) in Hstep.
    destruct (list_eq_dec (cand_eq_dec cand ceqb ceqb_spec) (cands p) []) as [Ecs|Hne].
    { exfalso. destruct (ctx_d_nil cand ceqb p0 p prev Hctx Ecs) as [_ Hr1]. rewrite Hr1 in Hstep.
      cbn in Hstep. discriminate. }
    destruct (ctx_r_last cand ceqb p0 p prev Hctx Hne) as (pre & low & Hr' & Hlnd & Hlin).
    rewrite Hr', rev_app_distr in Hstep. cbn [rev app] in Hstep.
    assert (Hlne : low <> []).
    { pose proof (ctx_groups_ne cand ceqb p0 p prev Hctx Hne) as Hg. rewrite Hr' in Hg.
      rewrite Forall_forall in Hg. apply Hg. apply in_or_app. right. left. reflexivity. }
    assert (Hlin0 : incl low (cands p0)).
    { intros c Hc. apply (ctx_sub cand ceqb p0 p prev Hctx). apply Hlin. exact Hc. }
    destruct (pick_elim cand ceqb p0 low s) as [[[x tbs] s1]|e'] eqn:Epick.
    + exfalso. destruct (remove_cand_prof_ok cand ceqb ceqb_spec p0 p prev Hctx x) as [Hrm Hwfn].
      rewrite Hrm in Hstep. destruct (fpv_state cand ceqb ceqb_spec _ Hwfn) as [d' Hd']. rewrite Hd' in Hstep.
      discriminate.
    + injection Hstep as ->. exists pre, low. split; [exact Hr'|].
      destruct (pick_elim_err cand ceqb ceqb_spec p0 p prev Hctx low s EScript Hlnd Hlin0 Hlne Epick) as [Hlen Htie].
      split; [exact Hlen|]. split; [|exact Htie].
      intros x Hx. apply (last_group_tied cand ceqb ceqb_spec p0 p prev Hctx pre low x Hr' Hx).
  - (* nobody left *)
    right. right. right. right. split; [exact He|]. split; [exact Ecs|].
    rewrite Ecs in Henough. cbn [length] in Henough. lia.
Qed.

(* the five cases raise different exceptions *)
Lemma round_failure_kind : forall cfg t (p0 p : profile) prev older (s : mstate) e,
  round_failure cfg t p0 p prev older s e -> stv_error_kind e.
Proof.
  intros cfg t p0 p prev older s e [H|[H|[H|[H|H]]]]; unfold stv_error_kind.
  - destruct H as (_ & g & rest & _ & _ & _ & [[-> _]|[-> _]]); auto 6.
  - destruct H as (-> & _). auto 6.
  - destruct H as (_ & w & _ & [[-> _]|[[-> _]| ->]]); auto 6.
  - destruct H as (-> & _). auto 6.
  - destruct H as (-> & _). auto 6.
Qed.

Lemma round_failure_index : forall cfg t (p0 p : profile) prev older (s : mstate),
  round_failure cfg t p0 p prev older s EIndex -> overfilled_failure cfg p (prev :: older) EIndex.
Proof.
  intros cfg t p0 p prev older s [H|[H|[H|[H|H]]]].
  - destruct H as (_ & g & rest & _ & _ & _ & [[E _]|[E _]]); discriminate.
  - destruct H as (E & _). discriminate.
  - destruct H as (_ & w & _ & [[E _]|[[E _]|E]]); discriminate.
  - destruct H as (E & _). discriminate.
  - exact H.
Qed.

Lemma round_failure_zerodiv : forall cfg t (p0 p : profile) prev older (s : mstate),
  round_failure cfg t p0 p prev older s EZeroDiv -> zero_tally_failure cfg t p EZeroDiv.
Proof.
  intros cfg t p0 p prev older s [H|[H|[H|[H|H]]]].
  - destruct H as (_ & g & rest & _ & _ & _ & [[E _]|[E _]]); discriminate.
  - exact H.
  - destruct H as (_ & w & _ & [[E _]|[[E _]|E]]); discriminate.
  - destruct H as (E & _). discriminate.
  - destruct H as (E & _). discriminate.
Qed.

(* ====================== a successful round and the number of elected ====================== *)

Lemma elected_in_flat : forall st : estate, elected_in st = flat (elected st).
Proof. intros st. unfold STVSpec.elected_in. apply flat_real_groups. Qed.

(* a successful round started with fewer than m elected ends with at most m elected, unless it is a
   simultaneous election at which the candidates reaching the threshold (all of them are elected)
   outnumber the open seats *)
Theorem step_count_cases : forall cfg t N (p0 p : profile) prev older (s s' : mstate) np st,
  stv_inv cfg t N p0 p (prev :: older) ->
  (s_transfer cfg = TRandom -> script_ok s) ->
  (count_elected (prev :: older) < s_m cfg)%Z ->
  stv_step cfg t p0 (count_elected (prev :: older)) p prev s = inl ((np, st), s') ->
  (count_elected (st :: prev :: older) <= s_m cfg)%Z \/
  (s_simul cfg = true /\ exists W : cset, NoDup W /\ (forall w, In w W <-> reaches t p w) /\
     (s_m cfg < Z.of_nat (length W) + count_elected (prev :: older))%Z).
Proof.
  intros cfg t N p0 p prev older s s' np st Hinv Hscr Hlt Hstep.
  pose proof (inv_ctx_head _ _ _ _ _ _ _ Hinv) as Hctx.
  rewrite (count_elected_cons cand), elected_in_flat.
  destruct (step_cases cand ceqb ceqb_spec cfg t p0 p prev Hctx _ s s' np st Hscr Hstep)
    as (_ & _ & [HE|[HD|HX]]).
  - destruct HE as (_ & _ & Hne & Hnd & Hreach & _ & Hmode).
    destruct (s_simul cfg) eqn:Esim.
    + destruct Hmode as (Hall & _ & _).
      destruct (Z_le_gt_dec (Z.of_nat (length (flat (elected st))) + count_elected (prev :: older)) (s_m cfg))
        as [Hle|Hgt]; [left; exact Hle|].
      right. split; [reflexivity|]. exists (flat (elected st)). split; [exact Hnd|].
      split; [|lia]. intros w. split; [apply Hreach|apply Hall].
    + left. destruct Hmode as (w & g & -> & _).
      change (Z.of_nat (length (flat [[w]]))) with 1%Z. lia.
  - left. destruct HD as (_ & Hcnt & -> & _).
    rewrite (Permutation_length (ctx_flat_perm cand ceqb p0 p prev Hctx)). lia.
  - left. destruct HX as (_ & _ & x & low & _ & -> & _).
    change (Z.of_nat (length (flat [[]]))) with 0%Z. lia.
Qed.

(* ====================== the loop ====================== *)

Section Loop.
Variable cfg : stv_cfg.
Variables t N : Q.
Variable p0 : profile.
Variable Inv : profile -> list estate -> Prop.
Hypothesis Inv_step : forall (p : profile) prev older (s s' : mstate) np st,
  stv_inv cfg t N p0 p (prev :: older) -> Inv p (prev :: older) ->
  (s_transfer cfg = TRandom -> script_ok s) ->
  count_elected (prev :: older) <> s_m cfg ->
  stv_step cfg t p0 (count_elected (prev :: older)) p prev s = inl ((np, st), s') ->
  Inv np (st :: prev :: older).

(* the error of a failing loop is raised by a round that starts from a situation satisfying the
   loop invariant and the extra invariant, with a number of elected different from m *)
Lemma loop_error_round : forall fuel (p : profile) sts (s : mstate) e,
  stv_inv cfg t N p0 p sts -> Inv p sts -> (s_transfer cfg = TRandom -> script_ok s) ->
  stv_loop fuel cfg t p0 p sts s = inr e ->
  e = EFuel \/
  exists (p' : profile) prev older (s1 : mstate),
    stv_inv cfg t N p0 p' (prev :: older) /\ Inv p' (prev :: older) /\
    (s_transfer cfg = TRandom -> script_ok s1) /\
    count_elected (prev :: older) <> s_m cfg /\
    stv_step cfg t p0 (count_elected (prev :: older)) p' prev s1 = inr e.
Proof.
  induction fuel as [|fuel IH]; intros p sts s e Hinv HI Hscr H;
    rewrite (stv_loop_unfold cand ceqb) in H.
  - destruct (Z.eqb (count_elected sts) (s_m cfg)); [discriminate|]. injection H as <-. left. reflexivity.
  - destruct (Z.eqb (count_elected sts) (s_m cfg)) eqn:Ecnt; [discriminate|].
    apply Z.eqb_neq in Ecnt.
    pose proof Hinv as Hinv0.
    destruct Hinv as [(prev & older & -> & Hctx) _ _ _ _ _].
    destruct (stv_step cfg t p0 (count_elected (prev :: older)) p prev s) as [[[np st] s1]|e'] eqn:Es.
    + destruct (stv_inv_step cand ceqb ceqb_spec cfg t N p0 p prev older s s1 np st Hinv0 Hscr Es)
        as [Hinv' Hsuf].
      apply (IH np (st :: prev :: older) s1 e Hinv').
      * apply (Inv_step p prev older s s1 np st Hinv0 HI Hscr Ecnt Es).
      * intros E. apply (script_ok_suffix cand s s1 Hsuf). apply Hscr. exact E.
      * exact H.
    + injection H as <-. right. exists p, prev, older, s.
      split; [exact Hinv0|]. split; [exact HI|]. split; [exact Hscr|]. split; [exact Ecnt|exact Es].
Qed.

End Loop.

(* ====================== the run ====================== *)

Lemma count_elected_initial : forall (p : profile) s0, initial_state p = inl s0 -> count_elected [s0] = 0%Z.
Proof.
  intros p s0 E0. destruct (initial_state_inv cand ceqb p s0 E0) as (_ & Hel & _).
  rewrite (count_elected_all cand). unfold STVSpec.all_elected, STVSpec.elected_in. cbn [map concat].
  rewrite Hel. reflexivity.
Qed.

(* a failing run was refused at construction (ValueError; or, since the up-front check of the
   random transfer, TypeError for a non-integral weight), or failed at a reachable round satisfying [Inv],
   for every extra invariant [Inv] that holds initially and is preserved by successful rounds *)
Theorem run_error_round : forall cfg (p : profile) (s : mstate) e
    (Inv : Q -> profile -> list estate -> Prop),
  wf_stv0 p -> (s_transfer cfg = TRandom -> script_ok s) ->
  (forall t s0, stv_init cfg p = inl t -> initial_state p = inl s0 -> Inv t p [s0]) ->
  (forall t (pr : profile) prev older (s1 s' : mstate) np st,
     stv_init cfg p = inl t ->
     stv_inv cfg t (total_wt (ballots p)) p pr (prev :: older) -> Inv t pr (prev :: older) ->
     (s_transfer cfg = TRandom -> script_ok s1) ->
     count_elected (prev :: older) <> s_m cfg ->
     stv_step cfg t p (count_elected (prev :: older)) pr prev s1 = inl ((np, st), s') ->
     Inv t np (st :: prev :: older)) ->
  run_stv cfg p s = inr e ->
  (e = EValue /\ (~ (1 <= s_m cfg <= Z.of_nat (length (cands p)))%Z \/ s_quota cfg = QBad)) \/
  (e = EType /\ s_transfer cfg = TRandom /\ ~ integral_weights cand p) \/
  exists t (pr : profile) prev older (s1 : mstate),
    stv_init cfg p = inl t /\
    stv_inv cfg t (total_wt (ballots p)) p pr (prev :: older) /\ Inv t pr (prev :: older) /\
    (s_transfer cfg = TRandom -> script_ok s1) /\
    count_elected (prev :: older) <> s_m cfg /\
    stv_step cfg t p (count_elected (prev :: older)) pr prev s1 = inr e.
Proof.
  intros cfg p s e Inv Hwf Hscr Hinit Hpres H.
  pose proof (run_stv_no_fuel cand ceqb ceqb_spec cfg p s Hwf Hscr) as Hnf.
  rewrite (run_stv_unfold cand ceqb) in H, Hnf.
  destruct (stv_init cfg p) as [t|e0] eqn:Ei.
  - right. right. destruct (initial_state_ok cand ceqb ceqb_spec p Hwf) as [s0 E0]. rewrite E0 in H, Hnf.
    pose proof (stv_inv_init cand ceqb cfg p t s0 Hwf Ei E0) as Hinv.
    destruct (loop_error_round cfg t _ p (Inv t)
                (fun pr prev older s1 s' np st => Hpres t pr prev older s1 s' np st eq_refl)
                _ p [s0] s e Hinv (Hinit t s0 eq_refl E0) Hscr H)
      as [->|(pr & prev & older & s1 & H1 & H2 & H3 & H4 & H5)].
    + exfalso. apply Hnf. exact H.
    + exists t, pr, prev, older, s1. repeat (split; [first [reflexivity|assumption]|]). exact H5.
  - injection H as <-.
    destruct (stv_init_err_gen cand cfg p e0 Hwf Ei) as [(-> & Ht & Hn)|(-> & _ & Hc)].
    + right. left. split; [reflexivity|]. split; [exact Ht|exact Hn].
    + left. split; [reflexivity|exact Hc].
Qed.

End WithCand.
