(* Proofs/C16_gen2_types.v — property C16, second layer for the slate models:
   (B1) the slate-Bradley-Terry MCMC chain on ballot types keeps c^(own above) (1-c)^(own below)
        stationary for every cohesion >= 1/2, and its rows sum to one;
   (B2) the slate-Plackett-Luce ballot-type law (sample_cohesion_ballot_types) is a probability law;
   (B3) its closed form for positive cohesion values. *)
From VK Require Import Base Core GenValidation PrefInterval Generators Laws.
From VK.Spec Require Import BTSpec GenSpec GenLaws TypesLawSpec.
From VK.Proofs Require Import Lib_rk Lib_sets Dist C12_expand C15_bt C15_slate C14_wf C14_kernels
  C14_types C16_laws.
From Coq Require Import Permutation Lia Lqa Setoid Morphisms.

(* ------------------------------------------------------------------ *)
(** * B1. the slate-Bradley-Terry chain: stationarity and stochastic rows *)

Lemma list_peqb_reflect : forall a b : list pcand, reflect (a = b) (list_peqb a b).
Proof.
  intros a b. destruct (list_peqb a b) eqn:E; constructor.
  - apply list_peqb_true_iff. exact E.
  - apply list_peqb_false_iff. exact E.
Qed.

Lemma arrangements_swap_closed : forall seed j x,
  In x (arrangements_ms seed) -> In (swap_adj j x) (arrangements_ms seed).
Proof.
  intros seed j x Hx. apply arrangements_spec. apply arrangements_spec in Hx.
  eapply Permutation_trans; [apply swap_adj_perm|exact Hx].
Qed.

Theorem slate_mcmc_stationary : forall own c seed m y,
  1 # 2 <= c -> (0 < m)%nat -> Permutation y seed ->
  qsum (map (fun x => slate_stat own c x * swap_kernel list_peqb (slate_accept own c) m x y)
            (arrangements_ms seed))
  == slate_stat own c y.
Proof.
  intros own c seed m y Hc Hm Hy.
  apply (swap_kernel_stationary bloc list_peqb list_peqb_reflect (arrangements_ms seed)).
  - apply arrangements_NoDup.
  - intros j x Hx. apply arrangements_swap_closed. exact Hx.
  - exact Hm.
  - intros x j _. apply slate_detailed_balance. exact Hc.
  - apply arrangements_spec. exact Hy.
Qed.

(* rows of the kernel sum to one: from every state the chain goes somewhere in the state space.
   Holds for every acceptance function, hence for every cohesion. *)
Lemma sum_indic_point : forall (states : list (list bloc)) z,
  NoDup states -> In z states ->
  qsum (map (fun y => indic (list_peqb z y)) states) == 1.
Proof.
  intros states z Hnd Hz.
  transitivity (qsum (map (fun y => if list_peqb y z then 1 else 0) states)).
  - apply qsum_map_ext_in. intros y _. unfold indic.
    destruct (list_peqb_reflect z y) as [->|Hne].
    + rewrite list_peqb_refl. reflexivity.
    + destruct (list_peqb_reflect y z) as [->|_]; [contradiction|reflexivity].
  - rewrite (qsum_indicator list_peqb list_peqb_reflect z 1 states Hnd).
    assert (E : existsb (fun c => list_peqb c z) states = true).
    { apply existsb_exists. exists z. split; [exact Hz|apply list_peqb_refl]. }
    rewrite E. reflexivity.
Qed.

Theorem swap_kernel_stochastic : forall (acc : list bloc -> nat -> Q) seed m x,
  (0 < m)%nat -> Permutation x seed ->
  qsum (map (swap_kernel list_peqb acc m x) (arrangements_ms seed)) == 1.
Proof.
  intros acc seed m x Hm Hx. unfold swap_kernel.
  assert (Hin : In x (arrangements_ms seed)) by (apply arrangements_spec; exact Hx).
  pose proof (arrangements_NoDup seed) as Hnd.
  rewrite qsum_swap.
  transitivity (qsum (map (fun _ : nat => 1 / Qnat m) (seq 0 m))).
  - apply qsum_map_ext_in. intros j _.
    transitivity ((1 / Qnat m) *
       (Qmin1 (acc x j) * qsum (map (fun y => indic (list_peqb (swap_adj j x) y)) (arrangements_ms seed)) +
        (1 - Qmin1 (acc x j)) * qsum (map (fun y => indic (list_peqb x y)) (arrangements_ms seed)))).
    + rewrite <- !qsum_map_scal, <- qsum_map_plus, <- qsum_map_scal.
      apply qsum_map_ext_in. intros y _. reflexivity.
    + rewrite (sum_indic_point _ x Hnd Hin).
      rewrite (sum_indic_point _ (swap_adj j x) Hnd (arrangements_swap_closed seed j x Hin)). ring.
  - rewrite qsum_map_const, seq_length. field. apply Qnat_neq0. exact Hm.
Qed.

Theorem slate_mcmc_kernel_stochastic : forall own c seed m x,
  (0 < m)%nat -> Permutation x seed ->
  qsum (map (swap_kernel list_peqb (slate_accept own c) m x) (arrangements_ms seed)) == 1.
Proof. intros own c seed m x. apply swap_kernel_stochastic. Qed.
