(* Proofs/C16_gen2_types.v — property C16, second layer for the slate models:
   (B1) the slate-Bradley-Terry MCMC chain on ballot types keeps c^(own above) (1-c)^(own below)
        stationary for every cohesion >= 1/2, and its rows sum to one;
   (B2) the slate-Plackett-Luce ballot-type law (sample_cohesion_ballot_types) is a probability law;
   (B3) its closed form for positive cohesion values. *)
From VK Require Import Base Core GenValidation PrefInterval Generators Laws.
From VK.Spec Require Import BTSpec GenSpec GenLaws TypesLawSpec.
From VK.Proofs Require Import Lib_rk Lib_sets Dist C12_expand C15_bt C15_slate C14_wf C14_kernels
  C14_types C16_laws.
From Coq Require Import Permutation Lia Lqa Setoid Morphisms.

(* ------------------------------------------------------------------ *)
(** * B1. the slate-Bradley-Terry chain: stationarity and stochastic rows *)

Lemma list_peqb_reflect : forall a b : list pcand, reflect (a = b) (list_peqb a b).
Proof.
  intros a b. destruct (list_peqb a b) eqn:E; constructor.
  - apply list_peqb_true_iff. exact E.
  - apply list_peqb_false_iff. exact E.
Qed.

Lemma arrangements_swap_closed : forall seed j x,
  In x (arrangements_ms seed) -> In (swap_adj j x) (arrangements_ms seed).
Proof.
  intros seed j x Hx. apply arrangements_spec. apply arrangements_spec in Hx.
  eapply Permutation_trans; [apply swap_adj_perm|exact Hx].
Qed.

Theorem slate_mcmc_stationary : forall own c seed m y,
  1 # 2 <= c -> (0 < m)%nat -> Permutation y seed ->
  qsum (map (fun x => slate_stat own c x * swap_kernel list_peqb (slate_accept own c) m x y)
            (arrangements_ms seed))
  == slate_stat own c y.
Proof.
  intros own c seed m y Hc Hm Hy.
  apply (swap_kernel_stationary bloc list_peqb list_peqb_reflect (arrangements_ms seed)).
  - apply arrangements_NoDup.
  - intros j x Hx. apply arrangements_swap_closed. exact Hx.
  - exact Hm.
  - intros x j _. apply slate_detailed_balance. exact Hc.
  - apply arrangements_spec. exact Hy.
Qed.

(* rows of the kernel sum to one: from every state the chain goes somewhere in the state space.
   Holds for every acceptance function, hence for every cohesion. *)
Lemma sum_indic_point : forall (states : list (list bloc)) z,
  NoDup states -> In z states ->
  qsum (map (fun y => indic (list_peqb z y)) states) == 1.
Proof.
  intros states z Hnd Hz.
  transitivity (qsum (map (fun y => if list_peqb y z then 1 else 0) states)).
  - apply qsum_map_ext_in. intros y _. unfold indic.
    destruct (list_peqb_reflect z y) as [->|Hne].
    + rewrite list_peqb_refl. reflexivity.
    + destruct (list_peqb_reflect y z) as [->|_]; [contradiction|reflexivity].
  - rewrite (qsum_indicator list_peqb list_peqb_reflect z 1 states Hnd).
    assert (E : existsb (fun c => list_peqb c z) states = true).
    { apply existsb_exists. exists z. split; [exact Hz|apply list_peqb_refl]. }
    rewrite E. reflexivity.
Qed.

Theorem swap_kernel_stochastic : forall (acc : list bloc -> nat -> Q) seed m x,
  (0 < m)%nat -> Permutation x seed ->
  qsum (map (swap_kernel list_peqb acc m x) (arrangements_ms seed)) == 1.
Proof.
  intros acc seed m x Hm Hx. unfold swap_kernel.
  assert (Hin : In x (arrangements_ms seed)) by (apply arrangements_spec; exact Hx).
  pose proof (arrangements_NoDup seed) as Hnd.
  rewrite qsum_swap.
  transitivity (qsum (map (fun _ : nat => 1 / Qnat m) (seq 0 m))).
  - apply qsum_map_ext_in. intros j _.
    transitivity ((1 / Qnat m) *
       (Qmin1 (acc x j) * qsum (map (fun y => indic (list_peqb (swap_adj j x) y)) (arrangements_ms seed)) +
        (1 - Qmin1 (acc x j)) * qsum (map (fun y => indic (list_peqb x y)) (arrangements_ms seed)))).
    + rewrite <- !qsum_map_scal, <- qsum_map_plus, <- qsum_map_scal.
      apply qsum_map_ext_in. intros y _. reflexivity.
    + rewrite (sum_indic_point _ x Hnd Hin).
      rewrite (sum_indic_point _ (swap_adj j x) Hnd (arrangements_swap_closed seed j x Hin)). ring.
  - rewrite qsum_map_const, seq_length. field. apply Qnat_neq0. exact Hm.
Qed.

Theorem slate_mcmc_kernel_stochastic : forall own c seed m x,
  (0 < m)%nat -> Permutation x seed ->
  qsum (map (swap_kernel list_peqb (slate_accept own c) m x) (arrangements_ms seed)) == 1.
Proof. intros own c seed m x. apply swap_kernel_stochastic. Qed.

(* ------------------------------------------------------------------ *)
(** * Index bookkeeping for [categorical (combine (seq 0 (length values)) values)] *)

Lemma combine_seq_in : forall (vs : list Q) s i x,
  In (i, x) (combine (seq s (length vs)) vs) -> exists j, i = (s + j)%nat /\ nth_error vs j = Some x.
Proof.
  induction vs as [|y vs IH]; intros s i x H; cbn [length seq combine] in H; [destruct H|].
  destruct H as [E|H].
  - injection E as <- <-. exists O. split; [lia|reflexivity].
  - destruct (IH (S s) i x H) as (j & -> & Hj). exists (S j). split; [lia|exact Hj].
Qed.

Lemma categorical_index : forall (values : list Q) i w,
  In (i, w) (categorical (combine (seq 0 (length values)) values)) ->
  exists x, nth_error values i = Some x.
Proof.
  intros values i w H. unfold categorical in H. apply in_map_iff in H.
  destruct H as ([i' x] & E & Hin). cbn [fst snd] in E. injection E as <- _.
  destruct (combine_seq_in values 0 i' x Hin) as (j & -> & Hj). exists x. exact Hj.
Qed.

Lemma nth_error_same_length : forall (A B : Type) (l : list A) (m : list B) i x,
  length l = length m -> nth_error m i = Some x -> exists a, nth_error l i = Some a.
Proof.
  intros A B l m i x Hlen Hx. destruct (nth_error l i) as [a|] eqn:E; [exists a; reflexivity|].
  apply nth_error_None in E. assert (Hs : nth_error m i <> None) by congruence.
  apply nth_error_Some in Hs. lia.
Qed.

(* a sum indexed by positions of [values] is a sum over the (slate, value) pairs *)
Lemma qsum_combine_seq_reindex : forall (blocs : list bloc) (values : list Q) s
    (f : nat -> Q -> Q) (g : bloc -> Q -> Q),
  length blocs = length values ->
  (forall j b x, nth_error blocs j = Some b -> nth_error values j = Some x -> f (s + j)%nat x == g b x) ->
  qsum (map (fun p : nat * Q => f (fst p) (snd p)) (combine (seq s (length values)) values)) ==
  qsum (map (fun p : bloc * Q => g (fst p) (snd p)) (combine blocs values)).
Proof.
  induction blocs as [|b blocs IH]; intros [|x values] s f g Hlen H; cbn [length] in Hlen; try discriminate.
  - reflexivity.
  - cbn [length seq combine map fst snd]. rewrite !qsum_cons. apply Qplus_comp.
    + rewrite <- (H O b x eq_refl eq_refl). rewrite Nat.add_0_r. reflexivity.
    + apply IH; [lia|]. intros j b' x' Hb' Hx'.
      rewrite <- (H (S j) b' x' Hb' Hx'). replace (S s + j)%nat with (s + S j)%nat by lia. reflexivity.
Qed.

Lemma map_fst_combine_eq : forall (A B : Type) (l : list A) (m : list B),
  length l = length m -> map fst (combine l m) = l.
Proof.
  intros A B l. induction l as [|a l IH]; intros [|b m] H; cbn in H; try discriminate; [reflexivity|].
  cbn [combine map fst]. rewrite IH; [reflexivity|lia].
Qed.

(* ------------------------------------------------------------------ *)
(** * One step of the type loop: bookkeeping shared by B2 and B3 *)

Lemma arrangements_nonempty : forall l, arrangements_ms l <> [].
Proof.
  intros l E. assert (H : In l (arrangements_ms l)) by (apply arrangements_spec; apply Permutation_refl).
  rewrite E in H. destruct H.
Qed.

Lemma step_decomp : forall (blocs : list bloc) i b,
  NoDup blocs -> nth_error blocs i = Some b ->
  exists l1 l2, blocs = l1 ++ b :: l2 /\ length l1 = i /\ remove_nth i blocs = l1 ++ l2 /\
                ~ In b l1 /\ ~ In b l2 /\ NoDup (l1 ++ l2).
Proof.
  intros blocs i b Hnd Eb. destruct (nth_error_decomp _ blocs i b Eb) as (l1 & l2 & Hb & Hl1 & Hrb).
  exists l1, l2. split; [exact Hb|]. split; [exact Hl1|]. split; [exact Hrb|].
  rewrite Hb in Hnd. split; [|split].
  - intros Hc. apply NoDup_remove_2 in Hnd. apply Hnd. apply in_or_app. left. exact Hc.
  - intros Hc. apply NoDup_remove_2 in Hnd. apply Hnd. apply in_or_app. right. exact Hc.
  - apply NoDup_remove_1 in Hnd. exact Hnd.
Qed.

(* the drawn slate is used up: it leaves, the others are untouched, one flip less is needed *)
Lemma step_full : forall sizes (l1 l2 : list bloc) b acc n,
  ~ In b l1 -> ~ In b l2 ->
  (forall y, In y (l1 ++ b :: l2) -> (count_bloc y acc < size_of sizes y)%nat) ->
  S n = rem sizes (l1 ++ b :: l2) acc ->
  count_bloc b (b :: acc) = size_of sizes b ->
  (forall y, In y (l1 ++ l2) -> (count_bloc y (b :: acc) < size_of sizes y)%nat) /\
  n = rem sizes (l1 ++ l2) (b :: acc).
Proof.
  intros sizes l1 l2 b acc n Hb1 Hb2 Hlt Hn Hfull. split.
  - intros y Hy. assert (Hne : y <> b).
    { intros ->. apply in_app_or in Hy. destruct Hy; contradiction. }
    rewrite count_bloc_cons_other by exact Hne. apply Hlt.
    apply in_app_or in Hy. apply in_or_app. destruct Hy; [left|right; right]; assumption.
  - rewrite rem_app, rem_cons in Hn.
    rewrite rem_app, (rem_notin sizes l1 b acc Hb1), (rem_notin sizes l2 b acc Hb2).
    rewrite count_bloc_cons_same in Hfull. lia.
Qed.

(* the drawn slate still has room *)
Lemma step_room : forall sizes (l1 l2 : list bloc) b acc n,
  ~ In b l1 -> ~ In b l2 ->
  (forall y, In y (l1 ++ b :: l2) -> (count_bloc y acc < size_of sizes y)%nat) ->
  S n = rem sizes (l1 ++ b :: l2) acc ->
  count_bloc b (b :: acc) <> size_of sizes b ->
  (forall y, In y (l1 ++ b :: l2) -> (count_bloc y (b :: acc) < size_of sizes y)%nat) /\
  n = rem sizes (l1 ++ b :: l2) (b :: acc).
Proof.
  intros sizes l1 l2 b acc n Hb1 Hb2 Hlt Hn Hroom.
  assert (Hbin : In b (l1 ++ b :: l2)) by (apply in_or_app; right; left; reflexivity).
  pose proof (Hlt b Hbin) as Hltb. rewrite count_bloc_cons_same in Hroom. split.
  - intros y Hy. destruct (Pos.eq_dec y b) as [->|Hne].
    + rewrite count_bloc_cons_same. lia.
    + rewrite count_bloc_cons_other by exact Hne. apply Hlt. exact Hy.
  - rewrite rem_app, rem_cons in Hn.
    rewrite rem_app, rem_cons, (rem_notin sizes l1 b acc Hb1), (rem_notin sizes l2 b acc Hb2).
    rewrite count_bloc_cons_same. lia.
Qed.

Lemma Forall_remove_mid : forall (P : Q -> Prop) (m1 m2 : list Q) x,
  Forall P (m1 ++ x :: m2) -> Forall P (m1 ++ m2).
Proof.
  intros P m1 m2 x H. apply Forall_app in H. destruct H as [H1 H2].
  inversion H2 as [|y l Hx H2']; subst. apply Forall_app. split; assumption.
Qed.

(* ------------------------------------------------------------------ *)
(** * B2. [law_types] is a probability law *)

Theorem law_types_mass : forall sizes n blocs values acc,
  NoDup blocs -> length blocs = length values ->
  Forall (fun v => 0 <= v) values ->
  (blocs <> [] -> 0 < qsum values) ->
  (forall b, In b blocs -> (count_bloc b acc < size_of sizes b)%nat) ->
  n = list_sum (map (fun b => size_of sizes b - count_bloc b acc)%nat blocs) ->
  mass (law_types n blocs values sizes acc) == 1.
Proof.
  intros sizes n. induction n as [|n IH]; intros blocs values acc Hnd Hlen Hnn Hpos Hlt Hn.
  - cbn [law_types]. apply mass_dret.
  - change (S n = rem sizes blocs acc) in Hn.
    assert (Hne : blocs <> []) by (intros ->; cbn in Hn; discriminate).
    pose proof (Hpos Hne) as HW.
    rewrite law_types_S, mass_dbind_one.
    + apply mass_categorical. rewrite map_snd_combine_seq. intros E. rewrite E in HW.
      apply (Qlt_irrefl 0). exact HW.
    + intros i w Hin. destruct (categorical_index values i w Hin) as (x & Ex).
      destruct (nth_error_same_length _ _ blocs values i x Hlen Ex) as (b & Eb). rewrite Eb.
      destruct (step_decomp blocs i b Hnd Eb) as (l1 & l2 & Hb & Hl1 & Hrb & Hb1 & Hb2 & Hnd').
      destruct (nth_error_decomp _ values i x Ex) as (m1 & m2 & Hv & Hm1 & Hrv).
      assert (Hlen' : length (l1 ++ l2) = length (m1 ++ m2)).
      { rewrite Hb, Hv, !app_length in Hlen. cbn [length] in Hlen. rewrite !app_length. lia. }
      pose proof Hnn as Hnn'. rewrite Hv in Hnn'. apply Forall_remove_mid in Hnn'.
      rewrite Hb in Hlt, Hn.
      unfold types_branch. rewrite Hrb, Hrv.
      destruct (Nat.eqb_spec (count_bloc b (b :: acc)) (size_of sizes b)) as [Hfull|Hroom].
      * destruct (step_full sizes l1 l2 b acc n Hb1 Hb2 Hlt Hn Hfull) as (Hlt' & Hn').
        destruct (Qeq_bool (qsum (m1 ++ m2)) 0 && nonempty (m1 ++ m2)) eqn:Ez.
        -- rewrite mass_dbind_one; [|intros s q _; apply mass_dret].
           apply mass_uniform_of. apply arrangements_nonempty.
        -- set (tot := qsum (m1 ++ m2)) in *.
           assert (Htot : m1 ++ m2 = [] \/ 0 < tot).
           { destruct (m1 ++ m2) as [|w0 ws] eqn:Em; [left; reflexivity|right].
             cbn [nonempty] in Ez. rewrite andb_true_r in Ez. apply Lib_rk.Qeq_bool_false_iff in Ez.
             pose proof (qsum_nonneg _ Hnn') as Hge. fold tot in Hge.
             destruct (Qlt_le_dec 0 tot) as [Hp|Hq]; [exact Hp|].
             exfalso. apply Ez. apply Qle_antisym; assumption. }
           apply IH; try assumption.
           ++ rewrite map_length. exact Hlen'.
           ++ apply Forall_forall. intros y Hy. apply in_map_iff in Hy. destruct Hy as (y0 & <- & Hy0).
              destruct Htot as [Hnil|Hp]; [rewrite Hnil in Hy0; destruct Hy0|].
              assert (0 <= y0) by (rewrite Forall_forall in Hnn'; apply Hnn'; exact Hy0).
              apply Qle_shift_div_l; [exact Hp|]. lra.
           ++ intros Hne'. destruct Htot as [Hnil|Hp].
              ** exfalso. apply Hne'. apply length_zero_iff_nil. rewrite Hlen', Hnil. reflexivity.
              ** unfold tot. rewrite renormalised_sum_one; [reflexivity|]. fold tot. lra.
      * destruct (step_room sizes l1 l2 b acc n Hb1 Hb2 Hlt Hn Hroom) as (Hlt' & Hn').
        rewrite <- Hb in Hlt', Hn'. apply IH; assumption.
Qed.

(* ------------------------------------------------------------------ *)
(** * B3. closed form of [law_types] for positive cohesion values *)

(* every outcome extends the part already drawn *)
Lemma law_types_prefix : forall sizes n blocs values acc o w,
  In (o, w) (law_types n blocs values sizes acc) -> exists s, o = rev acc ++ s.
Proof.
  intros sizes n. induction n as [|n IH]; intros blocs values acc o w H.
  - cbn [law_types] in H. destruct H as [E|[]]. injection E as <- _. exists []. rewrite app_nil_r. reflexivity.
  - rewrite law_types_S in H. apply dbind_support in H. destruct H as (i & w1 & q & _ & Hin & _).
    destruct (nth_error blocs i) as [b|]; [|destruct Hin].
    assert (Hcons : forall s, rev (b :: acc) ++ s = rev acc ++ b :: s).
    { intros s. cbn [rev]. rewrite <- app_assoc. reflexivity. }
    unfold types_branch in Hin.
    destruct (Nat.eqb (count_bloc b (b :: acc)) (size_of sizes b)).
    + destruct (Qeq_bool (qsum (remove_nth i values)) 0 && nonempty (remove_nth i values)).
      * apply dbind_support in Hin. destruct Hin as (s & w2 & q2 & _ & Hd & _).
        destruct Hd as [E|[]]. injection E as <- _. exists (b :: s). apply Hcons.
      * destruct (IH _ _ _ _ _ Hin) as (s & ->). exists (b :: s). apply Hcons.
    + destruct (IH _ _ _ _ _ Hin) as (s & ->). exists (b :: s). apply Hcons.
Qed.

Lemma types_branch_prefix : forall sizes n blocs values acc i b o w,
  In (o, w) (types_branch n blocs values sizes acc i b) -> exists s, o = rev acc ++ b :: s.
Proof.
  intros sizes n blocs values acc i b o w Hin.
  assert (Hcons : forall s, rev (b :: acc) ++ s = rev acc ++ b :: s).
  { intros s. cbn [rev]. rewrite <- app_assoc. reflexivity. }
  unfold types_branch in Hin.
  destruct (Nat.eqb (count_bloc b (b :: acc)) (size_of sizes b)).
  - destruct (Qeq_bool (qsum (remove_nth i values)) 0 && nonempty (remove_nth i values)).
    + apply dbind_support in Hin. destruct Hin as (s & w2 & q2 & _ & Hd & _).
      destruct Hd as [E|[]]. injection E as <- _. exists s. apply Hcons.
    + destruct (law_types_prefix _ _ _ _ _ _ _ Hin) as (s & ->). exists s. apply Hcons.
  - destruct (law_types_prefix _ _ _ _ _ _ _ Hin) as (s & ->). exists s. apply Hcons.
Qed.

(* a branch that drew another slate than the head of the target contributes nothing *)
Lemma prob_branch_other : forall sizes n blocs values acc i b b0 t',
  b <> b0 ->
  prob (list_peqb (rev acc ++ b0 :: t')) (types_branch n blocs values sizes acc i b) == 0.
Proof.
  intros sizes n blocs values acc i b b0 t' Hne.
  rewrite (prob_ext_in _ (fun _ => false)); [apply prob_false|].
  intros o w Hin. destruct (types_branch_prefix _ _ _ _ _ _ _ _ _ Hin) as (s & ->).
  apply list_peqb_false_iff. intros E. apply app_inv_head in E. injection E as E _. congruence.
Qed.

Lemma Forall2_same_length : forall (A B : Type) (R : A -> B -> Prop) (l : list A) (m : list B),
  Forall2 R l m -> length l = length m.
Proof.
  intros A B R l m H. induction H as [|a b l m _ _ IH]; [reflexivity|]. cbn [length]. rewrite IH. reflexivity.
Qed.

(* values that are the cohesion values [v] up to a common positive factor *)
Lemma scaled_sum : forall (v : bloc -> Q) k l m,
  Forall2 (fun b x => x == k * v b) l m -> qsum m == k * qsum (map v l).
Proof.
  intros v k l m H. induction H as [|b x l m Hx _ IH].
  - cbn [map]. rewrite qsum_nil. ring.
  - cbn [map]. rewrite !qsum_cons, IH, Hx. ring.
Qed.

Lemma scaled_lookup : forall (v : bloc -> Q) k l m b0,
  Forall2 (fun b x => x == k * v b) l m ->
  lookupP (combine l m) b0 == if existsb (Pos.eqb b0) l then k * v b0 else 0.
Proof.
  intros v k l m b0 H. induction H as [|b x l m Hx _ IH].
  - reflexivity.
  - cbn [combine existsb]. rewrite lookupP_cons. destruct (Pos.eqb_spec b0 b) as [->|Hne]; cbn [orb].
    + exact Hx.
    + exact IH.
Qed.

Lemma scaled_div : forall (v : bloc -> Q) k tot l m,
  Forall2 (fun b x => x == k * v b) l m ->
  Forall2 (fun b x => x == (k / tot) * v b) l (map (fun y => y / tot) m).
Proof.
  intros v k tot l m H. induction H as [|b x l m Hx _ IH]; cbn [map]; constructor; [|exact IH].
  rewrite Hx. unfold Qdiv. ring.
Qed.

Lemma pos_map_sum : forall (v : bloc -> Q) (l : list bloc),
  (forall b, In b l -> 0 < v b) -> l <> [] -> 0 < qsum (map v l).
Proof.
  intros v [|b l] Hpos Hne; [contradiction|].
  apply (qsum_map_pos v (b :: l) b).
  - intros y Hy. apply Qlt_le_weak. apply Hpos. exact Hy.
  - left. reflexivity.
  - apply Hpos. left. reflexivity.
Qed.

Lemma scaled_total_pos : forall (v : bloc -> Q) k l m,
  0 < k -> (forall b, In b l -> 0 < v b) -> l <> [] ->
  Forall2 (fun b x => x == k * v b) l m -> 0 < qsum m.
Proof.
  intros v k l m Hk Hpos Hne H. rewrite (scaled_sum v k l m H).
  apply Qmult_lt_0_compat; [exact Hk|apply pos_map_sum; assumption].
Qed.

(* with positive values the "all remaining values are zero" test never fires *)
Lemma scaled_no_shuffle : forall (v : bloc -> Q) k l m,
  0 < k -> (forall b, In b l -> 0 < v b) ->
  Forall2 (fun b x => x == k * v b) l m ->
  Qeq_bool (qsum m) 0 && nonempty m = false.
Proof.
  intros v k l m Hk Hpos H. destruct H as [|b x l m Hx H].
  - apply andb_false_r.
  - cbn [nonempty]. rewrite andb_true_r. apply Lib_rk.Qeq_bool_false_iff.
    assert (Hp : 0 < qsum (x :: m)).
    { apply (scaled_total_pos v k (b :: l) (x :: m) Hk Hpos); [discriminate|]. constructor; assumption. }
    intros E. rewrite E in Hp. apply (Qlt_irrefl 0). exact Hp.
Qed.

(* renormalising keeps the values proportional to [v] *)
Lemma scaled_renorm : forall (v : bloc -> Q) k l m,
  0 < k -> (forall b, In b l -> 0 < v b) ->
  Forall2 (fun b x => x == k * v b) l m ->
  exists k', 0 < k' /\ Forall2 (fun b x => x == k' * v b) l (map (fun y => y / qsum m) m).
Proof.
  intros v k l m Hk Hpos H. destruct l as [|b l].
  - inversion H; subst. exists k. split; [exact Hk|constructor].
  - assert (Hp : 0 < qsum m) by (apply (scaled_total_pos v k (b :: l) m Hk Hpos); [discriminate|exact H]).
    exists (k / qsum m). split.
    + apply Qlt_shift_div_l; [exact Hp|lra].
    + apply scaled_div. exact H.
Qed.

Lemma scaled_split : forall (v : bloc -> Q) k l1 b l2 m1 x m2,
  length l1 = length m1 ->
  Forall2 (fun b x => x == k * v b) (l1 ++ b :: l2) (m1 ++ x :: m2) ->
  Forall2 (fun b x => x == k * v b) (l1 ++ l2) (m1 ++ m2) /\ x == k * v b.
Proof.
  intros v k l1 b l2 m1 x m2 Hlen H. apply Forall2_app_inv_l in H.
  destruct H as (m1' & m2' & H1 & H2 & E).
  pose proof (Forall2_same_length _ _ _ _ _ H1) as Hl1.
  destruct (app_eq_len _ m1 m1' (x :: m2) m2' ltac:(lia) E) as [<- <-].
  inversion H2 as [|b' x' l' m' Hx H2']; subst. split; [|exact Hx].
  apply Forall2_app; assumption.
Qed.

(* slates that are not used up *)
Lemma avail_all : forall sizes blocs acc,
  (forall b, In b blocs -> (count_bloc b acc < size_of sizes b)%nat) -> avail sizes blocs acc = blocs.
Proof.
  intros sizes blocs acc. unfold avail. induction blocs as [|b blocs IH]; intros H; [reflexivity|].
  cbn [filter]. assert (E : Nat.ltb (count_bloc b acc) (size_of sizes b) = true).
  { apply Nat.ltb_lt. apply H. left. reflexivity. }
  rewrite E, IH; [reflexivity|]. intros y Hy. apply H. right. exact Hy.
Qed.

Lemma avail_drop : forall sizes l1 b l2 acc,
  (size_of sizes b <= count_bloc b acc)%nat ->
  avail sizes (l1 ++ b :: l2) acc = avail sizes (l1 ++ l2) acc.
Proof.
  intros sizes l1 b l2 acc H. unfold avail. rewrite !filter_app. cbn [filter].
  assert (E : Nat.ltb (count_bloc b acc) (size_of sizes b) = false) by (apply Nat.ltb_ge; exact H).
  rewrite E. reflexivity.
Qed.

(* a used-up slate can be dropped from the list of slates *)
Lemma types_closed_drop : forall (v : bloc -> Q) sizes l1 b l2 t acc,
  (size_of sizes b <= count_bloc b acc)%nat ->
  types_closed v sizes (l1 ++ b :: l2) acc t = types_closed v sizes (l1 ++ l2) acc t.
Proof.
  intros v sizes l1 b l2 t. induction t as [|x t IH]; intros acc H; [reflexivity|].
  cbn [types_closed]. rewrite (avail_drop sizes l1 b l2 acc H), IH; [reflexivity|].
  rewrite count_bloc_cons. lia.
Qed.

Lemma law_types_closed_gen : forall sizes (v : bloc -> Q) n blocs values acc t,
  NoDup blocs -> (forall b, In b blocs -> 0 < v b) ->
  (forall b, In b blocs -> (count_bloc b acc < size_of sizes b)%nat) ->
  (exists k, 0 < k /\ Forall2 (fun b x => x == k * v b) blocs values) ->
  n = rem sizes blocs acc -> length t = n ->
  prob (list_peqb (rev acc ++ t)) (law_types n blocs values sizes acc)
  == types_closed v sizes blocs acc t.
Proof.
  intros sizes v n. induction n as [|n IH]; intros blocs values acc t Hnd Hpos Hlt Hsc Hn Hlen.
  - destruct t as [|b0 t']; [|discriminate]. cbn [law_types types_closed].
    rewrite prob_dret, app_nil_r, list_peqb_refl. reflexivity.
  - destruct t as [|b0 t']; [discriminate|]. cbn [length] in Hlen. injection Hlen as Hlen.
    destruct Hsc as (k & Hk & Hsc). pose proof (Forall2_same_length _ _ _ _ _ Hsc) as Hlenbv.
    assert (Hne : blocs <> []) by (intros ->; cbn in Hn; discriminate).
    pose proof (pos_map_sum v blocs Hpos Hne) as HS.
    pose proof (scaled_sum v k blocs values Hsc) as HW.
    cbn [types_closed]. rewrite (avail_all sizes blocs acc Hlt).
    (* the two possible continuations after drawing b0 have the probability of the rest *)
    assert (Hsame : forall j x, nth_error blocs j = Some b0 -> nth_error values j = Some x ->
              prob (list_peqb (rev acc ++ b0 :: t')) (types_branch n blocs values sizes acc j b0)
              == types_closed v sizes blocs (b0 :: acc) t').
    { intros j x Eb Ex.
      replace (rev acc ++ b0 :: t') with (rev (b0 :: acc) ++ t')
        by (cbn [rev]; rewrite <- app_assoc; reflexivity).
      destruct (step_decomp blocs j b0 Hnd Eb) as (l1 & l2 & Hb & Hl1 & Hrb & Hb1 & Hb2 & Hnd').
      destruct (nth_error_decomp _ values j x Ex) as (m1 & m2 & Hv & Hm1 & Hrv).
      pose proof Hsc as Hsc'. rewrite Hb, Hv in Hsc'.
      destruct (scaled_split v k l1 b0 l2 m1 x m2 ltac:(lia) Hsc') as (Hsc'' & Hx).
      pose proof Hlt as Hlt0. pose proof Hn as Hn0. rewrite Hb in Hlt0, Hn0.
      assert (Hpos' : forall y, In y (l1 ++ l2) -> 0 < v y).
      { intros y Hy. apply Hpos. rewrite Hb. apply in_app_or in Hy. apply in_or_app.
        destruct Hy; [left|right; right]; assumption. }
      unfold types_branch. rewrite Hrb, Hrv.
      destruct (Nat.eqb_spec (count_bloc b0 (b0 :: acc)) (size_of sizes b0)) as [Hfull|Hroom].
      - destruct (step_full sizes l1 l2 b0 acc n Hb1 Hb2 Hlt0 Hn0 Hfull) as (Hlt' & Hn').
        rewrite (scaled_no_shuffle v k (l1 ++ l2) (m1 ++ m2) Hk Hpos' Hsc'').
        rewrite (IH (l1 ++ l2) _ (b0 :: acc) t' Hnd' Hpos' Hlt'
                    (scaled_renorm v k (l1 ++ l2) (m1 ++ m2) Hk Hpos' Hsc'') Hn' Hlen).
        rewrite Hb. symmetry. rewrite types_closed_drop; [reflexivity|]. rewrite Hfull. apply le_n.
      - destruct (step_room sizes l1 l2 b0 acc n Hb1 Hb2 Hlt0 Hn0 Hroom) as (Hlt' & Hn').
        rewrite <- Hb in Hlt', Hn'.
        apply (IH blocs values (b0 :: acc) t' Hnd Hpos Hlt'); [|exact Hn'|exact Hlen].
        exists k. split; [exact Hk|exact Hsc]. }
    set (T := types_closed v sizes blocs (b0 :: acc) t') in *.
    set (ev := list_peqb (rev acc ++ b0 :: t')) in *.
    rewrite law_types_S, prob_dbind. unfold categorical. rewrite map_map. cbn [fst snd].
    rewrite map_snd_combine_seq.
    set (W := qsum values) in *.
    pose (f := fun (i : nat) (x : Q) =>
                 x / W * prob ev (match nth_error blocs i with
                                  | None => []
                                  | Some b => types_branch n blocs values sizes acc i b
                                  end)).
    pose (g := fun (b : bloc) (x : Q) => if Pos.eqb b0 b then x * (T / W) else 0).
    transitivity (qsum (map (fun p : bloc * Q => g (fst p) (snd p)) (combine blocs values))).
    + rewrite <- (qsum_combine_seq_reindex blocs values 0 f g Hlenbv).
      * apply qsum_map_ext_in. intros [i x] _. reflexivity.
      * intros j b x Eb Ex. cbn [Nat.add]. unfold f, g. rewrite Eb.
        destruct (Pos.eqb_spec b0 b) as [<-|Hneb].
        -- rewrite (Hsame j x Eb Ex). unfold Qdiv. ring.
        -- unfold ev. rewrite prob_branch_other by congruence. ring.
    + unfold g. rewrite (sum_select (combine blocs values) b0 (T / W)).
      * rewrite (scaled_lookup v k blocs values b0 Hsc).
        destruct (existsb (Pos.eqb b0) blocs).
        -- rewrite HW. field. split; lra.
        -- ring.
      * rewrite map_fst_combine_eq; assumption.
Qed.

Theorem law_types_closed_pos : forall sizes (v : bloc -> Q) blocs t,
  NoDup blocs ->
  (forall b, In b blocs -> 0 < v b /\ (1 <= size_of sizes b)%nat) ->
  length t = list_sum (map (size_of sizes) blocs) ->
  prob (list_peqb t) (law_types (length t) blocs (map v blocs) sizes [])
  == types_closed v sizes blocs [] t.
Proof.
  intros sizes v blocs t Hnd Hpos Hlen.
  apply (law_types_closed_gen sizes v (length t) blocs (map v blocs) [] t Hnd).
  - intros b Hb. apply (Hpos b Hb).
  - intros b Hb. rewrite count_bloc_nil. destruct (Hpos b Hb) as [_ H]. lia.
  - exists 1. split; [reflexivity|]. clear. induction blocs as [|b blocs IH]; cbn [map]; constructor.
    + ring.
    + exact IH.
  - rewrite Hlen. unfold rem. f_equal. apply map_ext. intros b. rewrite count_bloc_nil. lia.
  - reflexivity.
Qed.
