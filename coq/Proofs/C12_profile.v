(* Proofs/C12_profile.v — C12 at the level of the PROFILE a utility returns.
   1. condensing never changes head-to-head counts, and never changes positional scores when no
      position lists a candidate twice;
   2. hence the profile returned by [resolve_profile_ties] (= condense (concat expansions)) has the
      same positional score (first-place, Borda, any vector) for every candidate, the same total
      weight, and head-to-head counts equal to the pair shares of the tied profile;
   3. [remove_cand_bs] WITHOUT the score-free hypothesis: a ballot survives iff it keeps a ranking
      position OR a score entry; exact totals, loss, per-ranking and per-content weights;
   4. clean_profile with an arbitrary cleaning function = [merge_adjacent] after mapping it. *)
From VK Require Import Base Core Pairwise EditSpec ExpandPairSpec Cleaning.
From VK.Spec Require Import Content CleanFuncSpec.
From VK.Proofs Require Import Lib_sets Lib_rk Lib_condense Lib_condense12 C11_condense C04_scoring
  C12_edit C12_expand C12_scores C12_pairwise C12_cleaning.
From Coq Require Import Permutation Lia Lqa Setoid Morphisms.

Section WithCand.
Variable cand : Type.
Variable ceqb : cand -> cand -> bool.
Hypothesis ceqb_spec : forall a b, reflect (a = b) (ceqb a b).

Notation cset := (cset cand).
Notation ranking := (ranking cand).
Notation ballot := (ballot cand).
Notation profile := (profile cand).
Notation memb := (memb cand ceqb).
Notation cset_eqb := (cset_eqb cand ceqb).
Notation ranking_eqb := (ranking_eqb cand ceqb).
Notation flat := (flat cand).
Notation strip := (strip cand ceqb).
Notation strip_scores := (strip_scores cand ceqb).
Notation scrub := (scrub cand ceqb).
Notation pos_wt := (pos_wt cand).
Notation remove_cand_bs := (remove_cand_bs cand ceqb).
Notation total_wt := (total_wt cand).
Notation wtof_rk := (wtof_rk cand ceqb).
Notation wt_where := (wt_where cand).
Notation maps_to := (maps_to cand ceqb).
Notation exhausted := (exhausted cand ceqb).
Notation all_pos := (all_pos cand).
Notation condense_bs := (condense_bs cand ceqb).
Notation expand_ranking := (expand_ranking cand).
Notation expand_tied_ballot := (expand_tied_ballot cand).
Notation resolve_profile_ties := (resolve_profile_ties cand ceqb).
Notation score_of := (score_of cand ceqb).
Notation alloc_of := (alloc_of cand ceqb).
Notation group_allocs := (group_allocs cand).
Notation prefers := (prefers cand ceqb).
Notation h2h := (h2h cand ceqb).
Notation pair_share := (pair_share cand ceqb).
Notation never_tied := (never_tied cand).
Notation same_content := (same_content cand ceqb).
Notation wtof := (Content.wtof cand ceqb).
Notation kept_of := (kept_of cand).
Notation merge_adjacent := (merge_adjacent cand ceqb).
Notation clean_profile := (clean_profile cand ceqb).

(* ====================== 1. condensing ====================== *)

Lemma prefers_eqb : forall r1 r2 a b, ranking_eqb r1 r2 = true -> prefers a b r1 = prefers a b r2.
Proof.
  induction r1 as [|s1 r1 IH]; intros [|s2 r2] a b Heq; try discriminate; [reflexivity|].
  cbn [Core.ranking_eqb] in Heq. apply andb_true_iff in Heq. destruct Heq as [Hs Hr].
  cbn [Pairwise.prefers]. rewrite !(Lib_sets.cset_eqb_memb cand ceqb ceqb_spec s1 s2 _ Hs).
  rewrite (IH r2 a b Hr). reflexivity.
Qed.

Lemma key_match_rk : forall k b : ballot, key_match cand ceqb k b = true -> ranking_eqb (rk k) (rk b) = true.
Proof. intros k b H. unfold Core.key_match in H. apply andb_true_iff in H. apply H. Qed.

(* head-to-head counts are unchanged by condensing, for every list of ballots *)
Theorem h2h_condense : forall (bs : list ballot) a c, h2h (condense_bs bs) a c == h2h bs a c.
Proof.
  intros bs a c.
  assert (E : forall l : list ballot,
    h2h l a c == Lib_condense.wsum cand (fun r _ => if prefers a c r then 1 else 0) l).
  { intros l. unfold Pairwise.h2h, Lib_condense.wsum. apply Lib_sets.qsum_map_ext_in. intros x _.
    destruct (prefers a c (rk x)); ring. }
  rewrite !E. apply (condense_bs_wsum cand ceqb (fun _ _ => True)).
  - intros k b _ _ Hk. rewrite (prefers_eqb _ _ a c (key_match_rk k b Hk)). reflexivity.
  - apply Forall_forall. intros x _. exact I.
Qed.

(* every position of the ranking is duplicate-free *)
Definition nodup_groups (r : ranking) : Prop := Forall (@NoDup cand) r.

Lemma group_allocs_eqb_groups : forall r1 r2 v c,
  nodup_groups r1 -> nodup_groups r2 -> ranking_eqb r1 r2 = true ->
  alloc_of c (group_allocs v r1) == alloc_of c (group_allocs v r2).
Proof.
  induction r1 as [|s1 r1 IH]; intros [|s2 r2] v c H1 H2 Heq; try discriminate; [reflexivity|].
  cbn [Core.ranking_eqb] in Heq. apply andb_true_iff in Heq. destruct Heq as [Hs Hr].
  inversion H1 as [|x1 l1 Hs1 Hr1]; subst. inversion H2 as [|x2 l2 Hs2 Hr2]; subst.
  cbn [Core.group_allocs].
  rewrite !(C04_scoring.alloc_of_app cand ceqb), !(alloc_of_const_group cand ceqb ceqb_spec) by assumption.
  rewrite (Lib_sets.cset_eqb_memb cand ceqb ceqb_spec s1 s2 c Hs).
  rewrite (Lib_sets.cset_eqb_length cand ceqb ceqb_spec s1 s2 Hs1 Hs2 Hs).
  rewrite (IH r2 (skipn (length s2) v) c Hr1 Hr2 Hr). reflexivity.
Qed.

(* positional scores are unchanged by condensing when no position repeats a candidate *)
Theorem score_of_condense : forall v (bs : list ballot) c,
  Forall (fun b => nodup_groups (rk b)) bs -> score_of v (condense_bs bs) c == score_of v bs c.
Proof.
  intros v bs c H.
  apply (condense_bs_wsum cand ceqb (fun r _ => nodup_groups r)
           (fun r _ => alloc_of c (group_allocs v r))).
  - intros k b Hk Hb Hm. apply group_allocs_eqb_groups; [exact Hk|exact Hb|apply key_match_rk; exact Hm].
  - exact H.
Qed.

(* ====================== 2. resolve_profile_ties ====================== *)

Lemma untied_nodup_groups : forall l : ranking,
  Forall (fun g => length g = 1%nat) l -> nodup_groups l.
Proof.
  intros l H. unfold nodup_groups. eapply Forall_impl; [|exact H]. intros g Hg.
  destruct g as [|x [|y g]]; try discriminate. constructor; [intros []|constructor].
Qed.

(* every ballot produced by the expansion has a linear ranking *)
Lemma expand_out_untied : forall (b : ballot) out,
  expand_tied_ballot b = inl out -> Forall (fun b' => nodup_groups (rk b')) out.
Proof.
  intros b out H. destruct (expand_tied_ballot_ok cand b out H) as (_ & Hrk & _ & _).
  apply Forall_forall. intros b' Hb'. apply untied_nodup_groups.
  assert (Hin : In (rk b') (expand_ranking (rk b))) by (rewrite <- Hrk; apply in_map; exact Hb').
  apply (expand_ranking_spec cand) in Hin. apply (linear_refinement_props cand) in Hin. apply Hin.
Qed.

Lemma expand_all_untied : forall (bs : list ballot) bss,
  Forall2 (fun b e => expand_tied_ballot b = inl e) bs bss ->
  Forall (fun b' => nodup_groups (rk b')) (concat bss).
Proof.
  intros bs bss H. induction H as [|b e bs bss Hbe _ IH]; [constructor|].
  cbn [concat]. apply Forall_app. split; [apply (expand_out_untied b e Hbe)|exact IH].
Qed.

Theorem expand_all_preserves_pairwise_gen : forall (bs : list ballot) bss a c,
  Forall2 (fun b e => expand_tied_ballot b = inl e) bs bss ->
  Forall (fun b => nodup_groups (rk b)) bs -> a <> c ->
  h2h (concat bss) a c == qsum (map (fun b => wt b * pair_share (rk b) a c) bs).
Proof.
  intros bs bss a c H. induction H as [|b e bs bss Hbe _ IH]; intros Hnd Hac.
  - reflexivity.
  - inversion Hnd as [|b0 bs0 Hb Hbs]; subst b0 bs0.
    cbn [concat map]. rewrite (h2h_app cand ceqb), qsum_cons, (IH Hbs Hac).
    rewrite (expand_preserves_pairwise_gen cand ceqb ceqb_spec b e a c Hbe Hb Hac). reflexivity.
Qed.

Section Resolve.
Variables p p' : profile.
Hypothesis Hres : resolve_profile_ties p = inl p'.

(* positional scores: every vector, every candidate, every profile on which the call succeeds *)
Theorem resolve_scores : forall v c, score_of v (ballots p') c == score_of v (ballots p) c.
Proof.
  intros v c. destruct (resolve_ok cand ceqb ceqb_spec p p' Hres) as (bss & HF & Hb & _).
  rewrite Hb, (score_of_condense v (concat bss) c (expand_all_untied _ _ HF)).
  apply (expand_all_preserves_scores cand ceqb). exact HF.
Qed.

Theorem resolve_total : total_wt (ballots p') == total_wt (ballots p).
Proof. destruct (resolve_ok cand ceqb ceqb_spec p p' Hres) as (bss & _ & _ & _ & Ht & _). exact Ht. Qed.

(* head-to-head counts of the resolved profile = pair shares of the tied profile *)
Theorem resolve_pairwise : forall a c,
  Forall (fun b => nodup_groups (rk b)) (ballots p) -> a <> c ->
  h2h (ballots p') a c == qsum (map (fun b => wt b * pair_share (rk b) a c) (ballots p)).
Proof.
  intros a c Hnd Hac. destruct (resolve_ok cand ceqb ceqb_spec p p' Hres) as (bss & HF & Hb & _).
  rewrite Hb, h2h_condense. apply (expand_all_preserves_pairwise_gen _ _ a c HF Hnd Hac).
Qed.

(* a pair that never shares a position: the model's own count is unchanged *)
Theorem resolve_pairwise_never_tied : forall a c,
  Forall (fun b => nodup_groups (rk b)) (ballots p) -> a <> c ->
  Forall (fun b => never_tied (rk b) a c) (ballots p) ->
  h2h (ballots p') a c == h2h (ballots p) a c.
Proof.
  intros a c Hnd Hac Hnt. rewrite (resolve_pairwise a c Hnd Hac). unfold Pairwise.h2h.
  apply Lib_sets.qsum_map_ext_in. intros b Hb. rewrite Forall_forall in Hnt.
  rewrite (pair_share_never_tied cand ceqb ceqb_spec (rk b) a c (Hnt b Hb)).
  destruct (prefers a c (rk b)); ring.
Qed.

(* the two directions together receive exactly the weight of the ballots listing a or c *)
Theorem resolve_pairwise_total : forall a c,
  Forall (fun b => nodup_groups (rk b)) (ballots p) -> a <> c ->
  h2h (ballots p') a c + h2h (ballots p') c a ==
  wt_where (fun b => memb a (flat (rk b)) || memb c (flat (rk b))) (ballots p).
Proof.
  intros a c Hnd Hac. rewrite (resolve_pairwise a c Hnd Hac).
  rewrite (resolve_pairwise c a Hnd (fun E => Hac (eq_sym E))).
  rewrite <- Lib_sets.qsum_map_plus. unfold EditSpec.wt_where. rewrite Lib_rk.qsum_filter_as_ite.
  apply Lib_sets.qsum_map_ext_in. intros b _.
  pose proof (pair_share_total cand ceqb (rk b) a c) as Ht.
  destruct (memb a (flat (rk b)) || memb c (flat (rk b))); nra.
Qed.

End Resolve.

(* a profile without ties is only condensed *)
Theorem resolve_untied : forall (p p' : profile),
  resolve_profile_ties p = inl p' ->
  Forall (fun b => Forall (fun g => length g = 1%nat) (rk b)) (ballots p) ->
  ballots p' = condense_bs (ballots p).
Proof.
  intros p p' Hres Hun. destruct (resolve_ok cand ceqb ceqb_spec p p' Hres) as (bss & HF & Hb & _).
  rewrite Hb. f_equal. clear Hb Hres. induction HF as [|b e bs bss Hbe _ IH]; [reflexivity|].
  inversion Hun as [|b0 bs0 Hb Hbs]; subst b0 bs0. cbn [concat]. rewrite (IH Hbs).
  unfold Core.expand_tied_ballot in Hbe. destruct (rk b) as [|g r] eqn:Er; [discriminate|].
  match type of Hbe with context [if ?t then _ else _] => destruct t eqn:Hf end.
  - injection Hbe as <-. reflexivity.
  - exfalso. apply not_true_iff_false in Hf. apply Hf. apply forallb_forall. intros s Hs.
    rewrite Forall_forall in Hb. rewrite (Hb s Hs). reflexivity.
Qed.

(* ====================== 3. remove_cand without score_free ====================== *)

(* something is left of the ballot: a ranking position or a score entry *)
Definition live (removed : cset) (b : ballot) : bool :=
  nonempty (strip removed (rk b)) || nonempty (strip_scores removed (sc b)).

Lemma scrub_wt : forall removed b, wt (scrub removed b) = if live removed b then wt b else 0.
Proof.
  intros removed b. unfold Core.scrub, live.
  destruct (strip removed (rk b)) as [|g r], (strip_scores removed (sc b)) as [|q d]; reflexivity.
Qed.

Lemma scrub_pos_live : forall removed b, pos_wt (scrub removed b) = pos_wt b && live removed b.
Proof. intros removed b. apply scrub_pos. Qed.

Lemma kept_sum : forall (phi : ballot -> Q) lz (l : list ballot),
  qsum (map phi (kept_of lz l)) == qsum (map (fun b => if lz || pos_wt b then phi b else 0) l).
Proof.
  intros phi lz l. induction l as [|b l IH]; [destruct lz; reflexivity|].
  rewrite kept_of_cons, map_app, Lib_sets.qsum_app, IH. cbn [map]. rewrite qsum_cons.
  destruct (lz || pos_wt b); cbn [map]; rewrite ?qsum_cons, ?qsum_nil; ring.
Qed.

(* any weight-linear count of the kept scrubbed ballots, ballot by ballot *)
Lemma kept_scrub_sum : forall (psi : ballot -> bool) removed lz (bs : list ballot),
  qsum (map (fun k => if psi k then wt k else 0) (kept_of lz (map (scrub removed) bs))) ==
  wt_where (fun b => psi (scrub removed b) && live removed b && (lz || pos_wt b)) bs.
Proof.
  intros psi removed lz bs. rewrite kept_sum, map_map. unfold EditSpec.wt_where.
  rewrite Lib_rk.qsum_filter_as_ite. apply Lib_sets.qsum_map_ext_in. intros b _.
  rewrite scrub_pos_live, scrub_wt.
  destruct (psi (scrub removed b)), (live removed b), lz, (pos_wt b); reflexivity.
Qed.

Lemma total_as_sum : forall l : list ballot,
  total_wt l == qsum (map (fun k : ballot => if true then wt k else 0) l).
Proof. intros l. reflexivity. Qed.

(* total weight, any ballots *)
Theorem remove_total_any : forall removed cf lz (bs : list ballot),
  total_wt (remove_cand_bs removed cf lz bs) ==
  wt_where (fun b => live removed b && (lz || pos_wt b)) bs.
Proof.
  intros removed cf lz bs. rewrite remove_cand_bs_unfold.
  assert (E : total_wt (kept_of lz (map (scrub removed) bs)) ==
              wt_where (fun b => live removed b && (lz || pos_wt b)) bs).
  { rewrite total_as_sum, (kept_scrub_sum (fun _ => true)). reflexivity. }
  destruct cf; [rewrite (condense_total cand ceqb)|]; exact E.
Qed.

(* weight disappears only with the ballots left with neither a ranking nor a score *)
Theorem remove_loss_any : forall removed cf lz (bs : list ballot), all_pos bs ->
  total_wt bs - total_wt (remove_cand_bs removed cf lz bs) ==
  wt_where (fun b => negb (live removed b)) bs.
Proof.
  intros removed cf lz bs Hpos. rewrite remove_total_any.
  rewrite (wt_where_split cand (live removed) bs).
  rewrite (wt_where_ext_in cand (fun b => live removed b && (lz || pos_wt b)) (live removed) bs).
  - lra.
  - intros b Hb. unfold EditSpec.all_pos in Hpos. rewrite Forall_forall in Hpos.
    rewrite (proj2 (pos_wt_iff cand b) (Hpos b Hb)), orb_true_r, andb_true_r. reflexivity.
Qed.

Lemma wtof_rk_condense_any : forall r (bs : list ballot), wtof_rk r (condense_bs bs) == wtof_rk r bs.
Proof.
  intros r bs.
  assert (E : forall l : list ballot,
    wtof_rk r l == Lib_condense.wsum cand (fun r0 _ => if ranking_eqb r r0 then 1 else 0) l).
  { intros l. unfold EditSpec.wtof_rk, Lib_condense.wsum. rewrite Lib_rk.qsum_filter_as_ite.
    apply Lib_sets.qsum_map_ext_in. intros x _. destruct (ranking_eqb r (rk x)); ring. }
  rewrite !E. apply (condense_bs_wsum cand ceqb (fun _ _ => True)).
  - intros k b _ _ Hk. rewrite (Lib_rk.ranking_eqb_compat_r cand ceqb ceqb_spec r _ _ (key_match_rk k b Hk)).
    reflexivity.
  - apply Forall_forall. intros x _. exact I.
Qed.

(* weight per resulting ranking, any ballots, any ranking r' (also the empty one, carried by the
   ballots that keep only scores) *)
Theorem remove_weights_any : forall removed cf lz (bs : list ballot) r',
  wtof_rk r' (remove_cand_bs removed cf lz bs) ==
  wt_where (fun b => maps_to removed r' b && live removed b && (lz || pos_wt b)) bs.
Proof.
  intros removed cf lz bs r'. rewrite remove_cand_bs_unfold.
  assert (E : wtof_rk r' (kept_of lz (map (scrub removed) bs)) ==
              wt_where (fun b => maps_to removed r' b && live removed b && (lz || pos_wt b)) bs).
  { unfold EditSpec.wtof_rk at 1. rewrite Lib_rk.qsum_filter_as_ite.
    rewrite (kept_scrub_sum (fun k => ranking_eqb r' (rk k))).
    apply (wt_where_ext_in cand). intros b _. rewrite scrub_rk. reflexivity. }
  destruct cf; [rewrite wtof_rk_condense_any|]; exact E.
Qed.

(* for a non-empty resulting ranking the scores play no role *)
Corollary remove_weights_nonempty_any : forall removed cf lz (bs : list ballot) r',
  nonempty r' = true ->
  wtof_rk r' (remove_cand_bs removed cf lz bs) ==
  wt_where (fun b => maps_to removed r' b && (lz || pos_wt b)) bs.
Proof.
  intros removed cf lz bs r' Hne. rewrite remove_weights_any.
  apply (wt_where_ext_in cand). intros b _. unfold EditSpec.maps_to, live.
  destruct (ranking_eqb r' (strip removed (rk b))) eqn:E; [|reflexivity].
  rewrite <- (ranking_eqb_nonempty cand ceqb _ _ E), Hne. reflexivity.
Qed.

(* weight per resulting CONTENT (ranking and scores) *)
Theorem remove_content_any : forall removed cf lz (bs : list ballot) (k : ballot),
  wtof k (remove_cand_bs removed cf lz bs) ==
  wt_where (fun b => same_content k (scrub removed b) && live removed b && (lz || pos_wt b)) bs.
Proof.
  intros removed cf lz bs k. rewrite remove_cand_bs_unfold.
  assert (E : wtof k (kept_of lz (map (scrub removed) bs)) ==
              wt_where (fun b => same_content k (scrub removed b) && live removed b && (lz || pos_wt b)) bs).
  { unfold Content.wtof at 1. rewrite Lib_rk.qsum_filter_as_ite.
    apply (kept_scrub_sum (same_content k)). }
  destruct cf; [rewrite (condense_weights cand ceqb ceqb_spec)|]; exact E.
Qed.

(* every surviving input ballot is represented by a ballot with its scrubbed content *)
Theorem remove_all_represented_any : forall removed cf lz (bs : list ballot) b,
  In b bs -> (lz || pos_wt b) = true -> live removed b = true ->
  exists k, In k (remove_cand_bs removed cf lz bs) /\ same_content k (scrub removed b) = true.
Proof.
  intros removed cf lz bs b Hb Hkeep Hlive. rewrite remove_cand_bs_unfold.
  assert (Hin : In (scrub removed b) (kept_of lz (map (scrub removed) bs))).
  { assert (Hm : In (scrub removed b) (map (scrub removed) bs)) by (apply in_map; exact Hb).
    destruct lz; cbn [C12_edit.kept_of]; [exact Hm|]. apply filter_In. split; [exact Hm|].
    cbn [orb] in Hkeep. rewrite scrub_pos_live, Hkeep, Hlive. reflexivity. }
  destruct cf.
  - apply (condense_covers cand ceqb ceqb_spec). exact Hin.
  - exists (scrub removed b). split; [exact Hin|].
    apply (Lib_content.same_refl cand ceqb ceqb_spec).
Qed.

(* a ballot whose ranking is exhausted but which keeps a score is kept, with its weight, an empty
   ranking and the filtered scores *)
Theorem scrub_scores_only : forall removed (b : ballot),
  exhausted removed b = true -> strip_scores removed (sc b) <> [] ->
  scrub removed b = mkBallot [] (wt b) (strip_scores removed (sc b)) None None.
Proof.
  intros removed b He Hs. unfold EditSpec.exhausted in He. apply negb_true_iff in He.
  unfold Core.scrub. destruct (strip removed (rk b)) as [|g r]; [|discriminate].
  destruct (strip_scores removed (sc b)) as [|q d]; [contradiction|reflexivity].
Qed.

(* ====================== 4. clean_profile with any cleaning function ====================== *)

Theorem clean_profile_any : forall (f : ballot -> res ballot) (p : profile),
  (forall e, clean_profile f p = inr e <->
     exists l1 b l2, ballots p = l1 ++ b :: l2 /\ f b = inr e /\
                     Forall (fun x => exists y, f x = inl y) l1) /\
  (forall out, clean_profile f p = inl out ->
     exists cleaned,
       Forall2 (fun b b' => f b = inl b') (ballots p) cleaned /\
       (forall r, wtof_rk r (ballots out) == wtof_rk r cleaned) /\
       total_wt (ballots out) == total_wt cleaned).
Proof.
  intros f p. unfold CleanFuncSpec.clean_profile. split.
  - intros e. destruct (rmap f (ballots p)) as [cleaned|e'] eqn:E.
    + destruct (merge_adjacent_spec cand ceqb ceqb_spec cleaned) as (q & Hq & _). rewrite Hq.
      split; [discriminate|]. intros (l1 & b & l2 & Hl & Hb & _). exfalso.
      apply rmap_ok_inv in E. rewrite Hl in E. apply Forall2_app_inv_l in E.
      destruct E as (c1 & c2 & _ & E2 & _). inversion E2 as [|x y l l' Hxy _]; subst. congruence.
    + apply rmap_err_inv in E. destruct E as (l1 & b & l2 & Hl & Hb & Hpre).
      apply Forall_forall in Hpre. split.
      * intros H. injection H as <-. exists l1, b, l2. split; [exact Hl|]. split; [exact Hb|exact Hpre].
      * intros (l1' & b' & l2' & Hl' & Hb' & Hpre'). f_equal.
        assert (Hsame : l1 = l1' /\ b = b').
        { rewrite Hl in Hl'. clear Hl. revert l1' Hl' Hpre'.
          induction l1 as [|x l1 IH]; intros [|x' l1'] Hl' Hpre'; cbn [app] in Hl'.
          - injection Hl' as -> _. split; reflexivity.
          - injection Hl' as -> _. inversion Hpre' as [|x0 l0 [y Hy] _]; subst. congruence.
          - injection Hl' as -> _. inversion Hpre as [|x0 l0 [y Hy] _]; subst. congruence.
          - injection Hl' as -> Hl'. inversion Hpre as [|x0 l0 _ Hp0]; subst.
            inversion Hpre' as [|x1 l3 _ Hp1]; subst.
            destruct (IH Hp0 l1' Hl' Hp1) as [-> ->]. split; reflexivity. }
        destruct Hsame as [_ <-]. congruence.
  - intros out H. destruct (rmap f (ballots p)) as [cleaned|e'] eqn:E; [|discriminate].
    exists cleaned. split; [apply rmap_ok_inv; exact E|].
    apply (merge_adjacent_weights cand ceqb ceqb_spec cleaned out H).
Qed.

(* the model's deduplicate_profiles is the instance f = deduplicate_ballot *)
Theorem clean_profile_dedup : forall p : profile,
  deduplicate_profiles cand ceqb p = clean_profile (deduplicate_ballot cand ceqb) p.
Proof.
  intros p. unfold Cleaning.deduplicate_profiles, CleanFuncSpec.clean_profile, rbind.
  destruct (rmap (deduplicate_ballot cand ceqb) (ballots p)); reflexivity.
Qed.

(* a cleaning function that keeps every ballot's weight loses no weight; the weight of a resulting
   ranking is the weight of the ballots cleaned into it *)
Theorem clean_profile_weights : forall (f : ballot -> res ballot) (p out : profile),
  clean_profile f p = inl out ->
  (forall b b', In b (ballots p) -> f b = inl b' -> wt b' == wt b) ->
  total_wt (ballots out) == total_wt (ballots p) /\
  forall r, wtof_rk r (ballots out) ==
            wt_where (fun b => match f b with inl b' => ranking_eqb r (rk b') | inr _ => false end)
                     (ballots p).
Proof.
  intros f p out H Hw. destruct (proj2 (clean_profile_any f p) out H) as (cleaned & HF & Hr & Ht).
  assert (G : total_wt cleaned == total_wt (ballots p) /\
              forall r, wtof_rk r cleaned ==
                        wt_where (fun b => match f b with inl b' => ranking_eqb r (rk b') | inr _ => false end)
                                 (ballots p)).
  { clear H Hr Ht. induction HF as [|b b' bs cl Hbb _ IH].
    - split; [reflexivity|]. intros r. reflexivity.
    - destruct IH as [IH1 IH2]; [intros x x' Hx; apply Hw; right; exact Hx|].
      pose proof (Hw b b' (or_introl eq_refl) Hbb) as Hwb. split.
      + rewrite !(total_wt_cons cand), IH1, Hwb. reflexivity.
      + intros r. rewrite (Lib_rk.wtof_rk_cons cand ceqb), IH2. unfold EditSpec.wt_where. cbn [filter].
        rewrite Hbb. destruct (ranking_eqb r (rk b')); cbn [map]; rewrite ?qsum_cons, ?Hwb; lra. }
  destruct G as [G1 G2]. split; [rewrite Ht; exact G1|]. intros r. rewrite Hr. apply G2.
Qed.

End WithCand.
